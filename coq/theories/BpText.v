(* Character-level helpers for the two readers of .bp text (C05: data/breakpoints.py,
   C18: karyogram.py).  A string is its list of code points; a line is the list
   of its tokens (tab-split for C05, whitespace-split for C18).  Definitions and
   their small lemmas only. *)
From HV Require Import Prelude.

Definition str := list Z.
Definition str_eqb : str -> str -> bool := list_eqb Z.eqb.

Lemma Zeqb_iff a b : (a =? b) = true <-> a = b.
Proof. apply Z.eqb_eq. Qed.

Lemma str_eqb_spec a b : str_eqb a b = true <-> a = b.
Proof. apply list_eqb_spec. exact Zeqb_iff. Qed.

Lemma str_eqb_refl a : str_eqb a a = true.
Proof. apply str_eqb_spec. reflexivity. Qed.

Definition c_us : Z := 95.   (* _ *)
Definition c_1 : Z := 49.
Definition c_2 : Z := 50.
Definition c_hash : Z := 35. (* # *)
Definition c_X : Z := 88.
Definition c_Y : Z := 89.
Definition s_chr : str := [99; 104; 114].
Definition s_1 : str := [c_1].
Definition s_2 : str := [c_2].
Definition sfx_1 : str := [c_us; c_1].
Definition sfx_2 : str := [c_us; c_2].

Definition mem_char (c : Z) (s : str) : bool := existsb (Z.eqb c) s.

Fixpoint starts_with (p s : str) : bool :=
  match p, s with
  | [], _ => true
  | a :: p', b :: s' => (a =? b) && starts_with p' s'
  | _ :: _, [] => false
  end.

Definition ends_with (p s : str) : bool := starts_with (rev p) (rev s).

(* Python s[:-n] for n > 0 *)
Definition drop_last (n : nat) (s : str) : str := firstn (length s - n) s.

(* Python s.rsplit(c, 1)[-1] : what follows the last c; all of s if there is none *)
Fixpoint after_last (c : Z) (s : str) : str :=
  match s with
  | [] => []
  | x :: r => if mem_char c r then after_last c r else if x =? c then r else x :: r
  end.

(* Python c.join(s.split(c)[:-1]) : what precedes the last c; empty if there is none *)
Fixpoint before_last (c : Z) (s : str) : str :=
  match s with
  | [] => []
  | x :: r => if mem_char c r then x :: before_last c r else []
  end.

Definition first_char_is (c : Z) (s : str) : bool :=
  match s with x :: _ => x =? c | [] => false end.

(* ---- dictionaries with Python's insertion order ------------------------- *)

Section Dict.
Context {K V : Type}.
Variable keq : K -> K -> bool.

Fixpoint assoc (k : K) (d : list (K * V)) : option V :=
  match d with
  | [] => None
  | (k', v) :: r => if keq k k' then Some v else assoc k r
  end.

(* d[k] = v : replaces in place when the key exists, else appends *)
Fixpoint dict_set (k : K) (v : V) (d : list (K * V)) : list (K * V) :=
  match d with
  | [] => [(k, v)]
  | (k', v') :: r => if keq k k' then (k', v) :: r else (k', v') :: dict_set k v r
  end.

Definition dict_of_list (l : list (K * V)) : list (K * V) :=
  fold_left (fun d kv => dict_set (fst kv) (snd kv) d) l [].
End Dict.

(* ---- small lemmas -------------------------------------------------------- *)

Lemma mem_char_app c a b : mem_char c (a ++ b) = mem_char c a || mem_char c b.
Proof. unfold mem_char. apply existsb_app. Qed.

Lemma after_last_sfx n d : d <> c_us -> after_last c_us (n ++ [c_us; d]) = [d].
Proof.
  intros Hd. induction n as [|x n IH].
  - assert (E : (c_us =? d) = false) by (apply Z.eqb_neq; congruence).
    cbn [app after_last mem_char existsb]. rewrite E, Z.eqb_refl. reflexivity.
  - cbn [app after_last]. rewrite mem_char_app.
    replace (mem_char c_us [c_us; d]) with true by (cbn; reflexivity).
    rewrite orb_true_r. exact IH.
Qed.

Lemma before_last_sfx n d : d <> c_us -> before_last c_us (n ++ [c_us; d]) = n.
Proof.
  intros Hd. induction n as [|x n IH].
  - assert (E : (c_us =? d) = false) by (apply Z.eqb_neq; congruence).
    cbn [app before_last mem_char existsb]. rewrite E. reflexivity.
  - cbn [app before_last]. rewrite mem_char_app.
    replace (mem_char c_us [c_us; d]) with true by (cbn; reflexivity).
    rewrite orb_true_r. rewrite IH. reflexivity.
Qed.

Lemma drop_last_sfx n (a b : Z) : drop_last 2 (n ++ [a; b]) = n.
Proof.
  unfold drop_last. rewrite app_length. cbn [length].
  replace (length n + 2 - 2)%nat with (length n + 0)%nat by lia.
  rewrite firstn_app_2. cbn. apply app_nil_r.
Qed.

Lemma starts_with_refl p s : starts_with p (p ++ s) = true.
Proof. induction p as [|a p IH]; cbn; [reflexivity|]. rewrite Z.eqb_refl. exact IH. Qed.

Lemma ends_with_sfx n p : ends_with p (n ++ p) = true.
Proof. unfold ends_with. rewrite rev_app_distr. apply starts_with_refl. Qed.

Lemma first_char_app c a b : a <> [] -> first_char_is c (a ++ b) = first_char_is c a.
Proof. destruct a; [congruence|reflexivity]. Qed.
