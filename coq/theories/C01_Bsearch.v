(* C01 - the binary search of start_segment computes the linear-scan
   specification on every parent sorted by (chromosome, end). *)
From HV Require Import Prelude Tracts C01_Model C01_Proofs.
Ltac Zify.zify_post_hook ::= Z.div_mod_to_equations.

Lemma sorted_nth_lt l : sorted l ->
  forall i j a b, nth_error l i = Some a -> nth_error l j = Some b -> (i < j)%nat -> lt_seg a b.
Proof.
  induction l as [|x l IH]; intros Hs i j a b Hi Hj Hij.
  - destruct i; discriminate.
  - destruct j as [|j]; [lia|]. cbn in Hj.
    destruct i as [|i].
    + cbn in Hi. inversion Hi; subst x.
      apply (sorted_head_lt a l Hs). eapply nth_error_In; eauto.
    + cbn in Hi. apply (IH (sorted_tail _ _ Hs) i j a b Hi Hj). lia.
Qed.

Section Scan.
Variables (start c : Z).
Definition sat (s : seg) : Prop := chrom s = c /\ start <= endc s.

Lemma sat_dec s : ((chrom s =? c) && (start <=? endc s)) = true <-> sat s.
Proof. unfold sat. rewrite andb_true_iff, Z.eqb_eq, Z.leb_le. tauto. Qed.

Lemma scan_le l : (start_scan start c l <= length l)%nat.
Proof. induction l as [|s r IH]; cbn; [lia|]. destruct (_ && _); cbn; lia. Qed.

Lemma scan_hit l : (start_scan start c l < length l)%nat ->
  exists s, nth_error l (start_scan start c l) = Some s /\ sat s.
Proof.
  induction l as [|s r IH]; cbn [start_scan length]; [lia|].
  destruct ((chrom s =? c) && (start <=? endc s)) eqn:E.
  - intros _. exists s. split; [reflexivity|]. apply sat_dec. exact E.
  - intros H. cbn [nth_error]. apply IH. lia.
Qed.

Lemma scan_first l : forall j t, (j < start_scan start c l)%nat -> nth_error l j = Some t -> ~ sat t.
Proof.
  induction l as [|s r IH]; cbn [start_scan]; intros j t Hj Ht; [lia|].
  destruct ((chrom s =? c) && (start <=? endc s)) eqn:E; [lia|].
  destruct j as [|j].
  - cbn in Ht. inversion Ht; subst t. intros Hs. apply sat_dec in Hs. congruence.
  - cbn in Ht. eapply IH; eauto. lia.
Qed.

Lemma scan_le_of_sat l i s : nth_error l i = Some s -> sat s -> (start_scan start c l <= i)%nat.
Proof.
  intros Hi Hs. destruct (Nat.le_gt_cases (start_scan start c l) i) as [H|H]; [exact H|].
  exfalso. exact (scan_first l i s H Hi Hs).
Qed.

Lemma scan_unique l i s : nth_error l i = Some s -> sat s ->
  (forall j t, (j < i)%nat -> nth_error l j = Some t -> ~ sat t) -> start_scan start c l = i.
Proof.
  intros Hi Hs Hfirst. pose proof (scan_le_of_sat l i s Hi Hs) as Hle.
  destruct (Nat.eq_dec (start_scan start c l) i) as [|Hne]; [assumption|exfalso].
  assert (Hlt : (start_scan start c l < i)%nat) by lia.
  assert (Hlen : (i < length l)%nat) by (apply nth_error_Some; congruence).
  destruct (scan_hit l ltac:(lia)) as [t [Ht Hst]].
  exact (Hfirst _ t Hlt Ht Hst).
Qed.
End Scan.

Lemma nthZ_nat {A} (l : list A) (i : Z) : 0 <= i -> nthZ l i = nth_error l (Z.to_nat i).
Proof. intros H. unfold nthZ. destruct (i <? 0) eqn:E; [apply Z.ltb_lt in E; lia|reflexivity]. Qed.

Lemma bsearch_correct start c l : sorted l -> 0 <= c ->
  forall fuel low high,
  0 <= low -> high < lenZ l ->
  (Z.to_nat (high - low + 1) <= fuel)%nat ->
  ((start_scan start c l < length l)%nat -> low <= Z.of_nat (start_scan start c l) <= high) ->
  bsearch fuel start c l low high = Z.of_nat (start_scan start c l).
Proof.
  intros Hs Hc. set (k := start_scan start c l).
  assert (Hkle : (k <= length l)%nat) by apply scan_le.
  assert (Hexit : forall low high, high < low ->
            ((k < length l)%nat -> low <= Z.of_nat k <= high) -> lenZ l = Z.of_nat k).
  { intros low high Hlt Hinv. unfold lenZ. destruct (Nat.eq_dec k (length l)) as [->|Hne]; [reflexivity|].
    assert (Hk : (k < length l)%nat) by lia. specialize (Hinv Hk). lia. }
  induction fuel as [|fuel IH]; intros low high Hlow Hhigh Hfuel Hinv; cbn [bsearch].
  - apply (Hexit low high); [lia|exact Hinv].
  - destruct (high <? low) eqn:Ehl.
    + apply Z.ltb_lt in Ehl. apply (Hexit low high); assumption.
    + apply Z.ltb_ge in Ehl.
      set (mid := (high + low) / 2).
      assert (Hmid : low <= mid <= high) by (unfold mid; lia).
      assert (Hmidlen : (Z.to_nat mid < length l)%nat) by (unfold lenZ in Hhigh; lia).
      rewrite nthZ_nat by lia.
      destruct (nth_error l (Z.to_nat mid)) as [cur|] eqn:Ecur;
        [|apply nth_error_None in Ecur; lia].
      (* facts about the element before mid *)
      assert (Hprev : mid = 0 \/ (0 < mid /\ exists p, nth_error l (Z.to_nat (mid - 1)) = Some p /\ lt_seg p cur)).
      { destruct (Z.eq_dec mid 0) as [|Hne]; [left; assumption|right]. split; [lia|].
        destruct (nth_error l (Z.to_nat (mid - 1))) as [p|] eqn:Ep.
        - exists p. split; [reflexivity|]. eapply (sorted_nth_lt l Hs); eauto. lia.
        - apply nth_error_None in Ep. lia. }
      (* everything at or before an index has a key <= that index's key *)
      assert (Hbefore : forall j t, (j < Z.to_nat mid)%nat -> nth_error l j = Some t -> lt_seg t cur).
      { intros j t Hj Ht. eapply (sorted_nth_lt l Hs); eauto. }
      assert (Hafter : forall j t, (Z.to_nat mid < j)%nat -> nth_error l j = Some t -> lt_seg cur t).
      { intros j t Hj Ht. eapply (sorted_nth_lt l Hs); eauto. }
      (* recursive calls *)
      assert (Hright : (forall j t, (j <= Z.to_nat mid)%nat -> nth_error l j = Some t -> ~ sat start c t) ->
                bsearch fuel start c l (mid + 1) high = Z.of_nat k).
      { intros Hnone. apply IH; [lia|lia|lia|].
        intros Hk. specialize (Hinv Hk). destruct (scan_hit start c l Hk) as [s [Hsn Hss]].
        fold k in Hsn. split; [|lia].
        destruct (Z_lt_le_dec (Z.of_nat k) (mid + 1)) as [Hlt|]; [exfalso|assumption].
        apply (Hnone k s); [lia|exact Hsn|exact Hss]. }
      assert (Hleft : (exists j t, (j < Z.to_nat mid)%nat /\ nth_error l j = Some t /\ sat start c t) \/
                      (forall j t, (Z.to_nat mid <= j)%nat -> nth_error l j = Some t -> ~ sat start c t) ->
                bsearch fuel start c l low (mid - 1) = Z.of_nat k).
      { intros Hcase. apply IH; [lia|lia|lia|].
        intros Hk. specialize (Hinv Hk). split; [lia|].
        destruct Hcase as [[j [t [Hj [Ht Hst]]]]|Hnone].
        - pose proof (scan_le_of_sat start c l j t Ht Hst). fold k in H. lia.
        - destruct (scan_hit start c l Hk) as [s [Hsn Hss]]. fold k in Hsn.
          destruct (Z_lt_le_dec (mid - 1) (Z.of_nat k)) as [Hlt|]; [exfalso|assumption].
          apply (Hnone k s); [lia|exact Hsn|exact Hss]. }
      assert (Hfound : sat start c cur ->
                (forall j t, (j < Z.to_nat mid)%nat -> nth_error l j = Some t -> ~ sat start c t) ->
                mid = Z.of_nat k).
      { intros Hsat Hnone. pose proof (scan_unique start c l _ cur Ecur Hsat Hnone) as Hu. fold k in Hu. lia. }
      destruct (c =? chrom cur) eqn:Ecc.
      * apply Z.eqb_eq in Ecc.
        destruct (endc cur <? start) eqn:Ees.
        -- apply Z.ltb_lt in Ees. 
           (* case a *)
           replace (let '(_, _) := _ in _) with (bsearch fuel start c l (mid + 1) high).
           2:{ destruct (mid =? 0); [reflexivity|]. destruct (nthZ l (mid - 1)); reflexivity. }
           apply Hright. intros j t Hj Ht [Ht1 Ht2].
           destruct (Nat.eq_dec j (Z.to_nat mid)) as [->|Hne].
           ++ rewrite Ecur in Ht. inversion Ht; subst t. lia.
           ++ assert (lt_seg t cur) by (apply (Hbefore j t); [lia|exact Ht]). unfold lt_seg in H. lia.
        -- apply Z.ltb_ge in Ees.
           assert (Hsat : sat start c cur) by (unfold sat; lia).
           destruct Hprev as [Hm0|[Hmpos [p [Hp Hpc]]]].
           ++ (* mid = 0: prev = (-1,-1) *)
              rewrite (proj2 (Z.eqb_eq mid 0) Hm0).
              assert (E1 : (-1 <? chrom cur) = true) by (apply Z.ltb_lt; lia).
              rewrite E1. apply Hfound; [exact Hsat|]. intros j t Hj. lia.
           ++ assert (Em0 : (mid =? 0) = false) by (apply Z.eqb_neq; lia). rewrite Em0.
              rewrite nthZ_nat by lia. rewrite Hp.
              destruct (chrom p <? chrom cur) eqn:E1.
              ** apply Z.ltb_lt in E1. apply Hfound; [exact Hsat|].
                 intros j t Hj Ht [Ht1 Ht2].
                 destruct (Nat.eq_dec j (Z.to_nat (mid - 1))) as [->|Hne].
                 --- rewrite Hp in Ht. inversion Ht; subst t. lia.
                 --- assert (lt_seg t p). { eapply (sorted_nth_lt l Hs); eauto. lia. }
                     unfold lt_seg in H. lia.
              ** apply Z.ltb_ge in E1.
                 destruct ((chrom p =? chrom cur) && (endc p <? start)) eqn:E2.
                 --- apply andb_true_iff in E2. destruct E2 as [E2a E2b].
                     apply Z.eqb_eq in E2a. apply Z.ltb_lt in E2b.
                     apply Hfound; [exact Hsat|].
                     intros j t Hj Ht [Ht1 Ht2].
                     destruct (Nat.eq_dec j (Z.to_nat (mid - 1))) as [->|Hne].
                     +++ rewrite Hp in Ht. inversion Ht; subst t. lia.
                     +++ assert (lt_seg t p). { eapply (sorted_nth_lt l Hs); eauto. lia. }
                         unfold lt_seg in H. lia.
                 --- (* previous tract also satisfies: go left *)
                     apply Hleft. left. exists (Z.to_nat (mid - 1)), p. split; [lia|]. split; [exact Hp|].
                     unfold lt_seg in Hpc. apply andb_false_iff in E2. unfold sat.
                     destruct E2 as [E2|E2]; [apply Z.eqb_neq in E2|apply Z.ltb_ge in E2]; lia.
      * apply Z.eqb_neq in Ecc.
        replace (let '(_, _) := _ in _) with
          (if c <? chrom cur then bsearch fuel start c l low (mid - 1) else bsearch fuel start c l (mid + 1) high).
        2:{ destruct (mid =? 0); [reflexivity|]. destruct (nthZ l (mid - 1)); reflexivity. }
        destruct (c <? chrom cur) eqn:Elt.
        -- apply Z.ltb_lt in Elt. apply Hleft. right. intros j t Hj Ht [Ht1 Ht2].
           destruct (Nat.eq_dec j (Z.to_nat mid)) as [->|Hne].
           ++ rewrite Ecur in Ht. inversion Ht; subst t. lia.
           ++ assert (lt_seg cur t) by (apply (Hafter j t); [lia|exact Ht]). unfold lt_seg in H. lia.
        -- apply Z.ltb_ge in Elt. apply Hright. intros j t Hj Ht [Ht1 Ht2].
           destruct (Nat.eq_dec j (Z.to_nat mid)) as [->|Hne].
           ++ rewrite Ecur in Ht. inversion Ht; subst t. lia.
           ++ assert (lt_seg t cur) by (apply (Hbefore j t); [lia|exact Ht]). unfold lt_seg in H. lia.
Qed.

Theorem bsearch_eq_scan start c l :
  sorted l -> 0 <= c -> start_segment start c l = Z.of_nat (start_scan start c l).
Proof.
  intros Hs Hc. unfold start_segment. apply bsearch_correct; try assumption; unfold lenZ; lia.
Qed.
