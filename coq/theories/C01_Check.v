(* C01 - boolean checkers evaluated by the correspondence run on what the
   implementation returned.  [agree] compares with the model; [holds] is the
   property itself, as a finite check whose completeness for *every position*
   is C01_Proofs.piecewise_check_complete. *)
From HV Require Import Prelude Tracts C01_Model.

Definition segs_eqb := list_eqb seg_eqb.
Definition rsegs_eqb := res_eqb segs_eqb.

(* -------- kernel relation: get_segment called directly ------------------- *)

Record kcase := mkk {
  k_pop : Z; k_h : Z; k_chrom : Z; k_start : Z; k_end : Z; k_cm : Z;
  k_prev : list (list seg);
  k_obs : res (list seg);          (* what haptools.sim_genotype.get_segment returned *)
  k_idx : res Z                    (* what start_segment returned on the parent *)
}.

Definition optZ_eqb := opt_eqb Z.eqb.

(* labels agree at every critical point of [a,b] *)
Definition labels_agree (parent out : list seg) (c a b : Z) : bool :=
  forallb (fun p => negb ((a <=? p) && (p <=? b))
                    || optZ_eqb (label_at out c p) (label_at parent c p))
          (crit parent c a b ++ crit out c a b).

Fixpoint strictly_incr (l : list Z) : bool :=
  match l with
  | [] => true
  | a :: r => match r with [] => true | b :: _ => a <? b end && strictly_incr r
  end.

Definition mem_seg (s : seg) (l : list seg) : bool := existsb (seg_eqb s) l.

(* shape: all on c, ends strictly increase, the closing tract is (_, c, e, m),
   every other tract is literally a parental tract, and the interior ends are
   exactly the parental ends in [start, e) *)
Definition shape_ok (parent out : list seg) (c start e m : Z) : bool :=
  match rev out with
  | [] => false
  | lst :: rcp =>
    let cp := rev rcp in
    forallb (fun s => chrom s =? c) out
    && strictly_incr (map endc out)
    && (endc lst =? e) && (cm lst =? m)
    && forallb (fun s => mem_seg s parent) cp
    && list_eqb Z.eqb (map endc cp)
         (filter (fun x => (start <=? x) && (x <? e)) (ends_on c parent))
  end.

(* the kernel's precondition: what _simulate guarantees about its calls *)
Definition kernel_pre (parent : list seg) (c start e : Z) : bool :=
  sortedb parent && on_c_reachb c e parent && (start <=? e).

Definition holds_kernel (k : kcase) : bool :=
  if negb (k_pop k =? 0) then
    rsegs_eqb (k_obs k) (Ok [mkseg (k_pop k) (k_chrom k) (k_end k) (k_cm k)])
  else
    match nthZ (k_prev k) (k_h k) with
    | None => true
    | Some parent =>
      if kernel_pre parent (k_chrom k) (k_start k) (k_end k) then
        match k_obs k with
        | Err _ => false
        | Ok out =>
            labels_agree parent out (k_chrom k) (k_start k) (k_end k)
            && shape_ok parent out (k_chrom k) (k_start k) (k_end k) (k_cm k)
        end
      else true
    end.

Definition model_kernel (k : kcase) : res (list seg) * res Z :=
  (get_segment (k_pop k) (k_h k) (k_chrom k) (k_start k) (k_end k) (k_cm k) (k_prev k),
   match nthZ (k_prev k) (k_h k) with
   | Some parent => Ok (start_segment (k_start k) (k_chrom k) parent)
   | None => Err E_Index end).

Definition check_kernel (k : kcase) : bool * bool :=
  let '(g, i) := model_kernel k in
  (rsegs_eqb g (k_obs k) && res_eqb Z.eqb i (k_idx k), holds_kernel k).

(* -------- generation relation: one child of one _simulate call ----------- *)

Record ccase := mkc {
  c_chroms : list Z; c_ends : list (Z * Z); c_pop : Z;
  c_pa : list seg; c_pb : list seg;       (* the two recorded parental haplotypes *)
  c_h0 : bool; c_hd : list bool; c_evs : list event;
  c_obs : res (list seg)
}.

(* which parent is copied over which interval, read off the recombination
   events and homolog draws alone (independent of get_segment) *)
Fixpoint plan_chrom (c : Z) (ebp : Z) (start : Z) (h : bool) (evs : list event)
  : list (Z * Z * Z * bool) * bool * list event :=
  match evs with
  | e :: r =>
      if ev_chrom e =? c then
        let '(pl, h', rest) := plan_chrom c ebp (ev_bp e + 1) (negb h) r in
        ((c, start, ev_bp e, h) :: pl, h', rest)
      else ([(c, start, ebp, h)], h, evs)
  | [] => ([(c, start, ebp, h)], h, [])
  end.

Fixpoint plan (chroms : list Z) (ends : list (Z * Z)) (h : bool) (hd : list bool) (evs : list event)
  : list (Z * Z * Z * bool) :=
  match chroms, ends with
  | c :: cs, (ebp, _) :: es =>
      let '(pl, _, rest) := plan_chrom c ebp 0 h evs in
      pl ++ match hd with
            | h' :: hd' => plan cs es h' hd' rest
            | [] => []
            end
  | _, _ => []
  end.

Definition holds_child (k : ccase) : bool :=
  match c_obs k with
  | Err e => e =? E_Unobserved
  | Ok child =>
    if negb (c_pop k =? 0) then
      (* founder: that population's label along every chromosome *)
      forallb (fun ce : Z * (Z * Z) => let '(c, (ebp, _)) := ce in
                 forallb (fun p => negb ((0 <=? p) && (p <=? ebp))
                                   || optZ_eqb (label_at child c p) (Some (c_pop k)))
                         (crit child c 0 ebp))
              (combine (c_chroms k) (c_ends k))
      && forallb (fun s => existsb (Z.eqb (chrom s)) (c_chroms k)) child
    else
      forallb (fun iv : Z * Z * Z * bool => let '(c, a, b, h) := iv in
                 labels_agree (if h then c_pb k else c_pa k) child c a b)
              (plan (c_chroms k) (c_ends k) (c_h0 k) (c_hd k) (c_evs k))
      && forallb (fun s => existsb (Z.eqb (chrom s)) (c_chroms k)) child
  end.

Definition model_child (k : ccase) : res (list seg) :=
  sim_sample get_segment (c_chroms k) (c_ends k) (c_pop k) 0 1 [c_pa k; c_pb k]
             (c_h0 k) (c_hd k) (c_evs k).

Definition check_child (k : ccase) : bool * bool :=
  (rsegs_eqb (model_child k) (c_obs k), holds_child k).
