(* C01 - full specification of get_segment on well-formed parents:
   labels (every position), shape (a run from start-1 to e made of literal
   parental tracts plus one closing tract), founder branch, and the
   completeness of the finite label check used by the correspondence run. *)
From HV Require Import Prelude Tracts Tiling C01_Model C01_Proofs C01_Bsearch C01_Check.

(* ---- the copy loop returns an exact prefix ------------------------------ *)

Lemma copy_prefix c e l lst :
  sorted l -> (forall s, In s l -> c <= chrom s) -> on_c_reach c e l ->
  exists cp st r', l = cp ++ st :: r' /\ copy_loop c e l lst = (cp, Some st) /\
     chrom st = c /\ e <= endc st /\ (forall s, In s cp -> chrom s = c /\ endc s < e).
Proof.
  revert lst. induction l as [|s r IH]; intros lst Hs Hge [w [Hw [Hwc Hwe]]]; [inversion Hw|].
  cbn [copy_loop]. destruct ((e <=? endc s) || (c <? chrom s)) eqn:E.
  - assert (Hcs : chrom s = c).
    { destruct (Z.eq_dec (chrom s) c) as [|Hne]; [assumption|exfalso].
      assert (c < chrom s) by (specialize (Hge s (or_introl eq_refl)); lia).
      pose proof (sorted_all_gt _ _ _ Hs H w Hw). lia. }
    assert (Hes : e <= endc s).
    { apply orb_true_iff in E. destruct E as [E|E]; [apply Z.leb_le in E; exact E|apply Z.ltb_lt in E; lia]. }
    exists [], s, r. split; [reflexivity|]. split; [reflexivity|]. split; [exact Hcs|]. split; [exact Hes|].
    intros ? [].
  - apply orb_false_iff in E. destruct E as [E1 E2]. apply Z.leb_gt in E1. apply Z.ltb_ge in E2.
    assert (Hcs : chrom s = c) by (specialize (Hge s (or_introl eq_refl)); lia).
    assert (Hr : on_c_reach c e r).
    { destruct Hw as [<-|Hw]; [lia|]. exists w; auto. }
    destruct (IH (Some s) (sorted_tail _ _ Hs) (fun x Hx => Hge x (or_intror Hx)) Hr)
      as [cp [st [r' [El [EL [Hst1 [Hst2 Hcp]]]]]]].
    rewrite EL. exists (s :: cp), st, r'. split; [cbn; rewrite El; reflexivity|].
    split; [reflexivity|]. split; [exact Hst1|]. split; [exact Hst2|].
    intros x [<-|H]; [split; [exact Hcs|exact E1]|]. exact (Hcp x H).
Qed.

Lemma sorted_app_l l1 l2 : sorted (l1 ++ l2) -> sorted l1.
Proof.
  induction l1 as [|a r IH]; intros H; [exact I|].
  cbn [app sorted] in *. destruct H as [H1 H2]. split; [|exact (IH H2)].
  destruct r as [|b r']; [exact I|]. exact H1.
Qed.

Lemma run_ok_of_sorted c lo cp hi lab m :
  sorted cp -> (forall s, In s cp -> chrom s = c /\ lo < endc s /\ endc s < hi) -> lo < hi ->
  run_ok c lo (cp ++ [mkseg lab c hi m]) hi.
Proof.
  revert lo. induction cp as [|s r IH]; intros lo Hs Hall Hlt.
  - cbn. auto.
  - destruct (Hall s (or_introl eq_refl)) as [Hc [Hlo Hhi]].
    cbn [app run_ok]. split; [exact Hc|]. split; [exact Hlo|].
    assert (Hrest : run_ok c (endc s) (r ++ [mkseg lab c hi m]) hi).
    { apply IH; [exact (sorted_tail _ _ Hs)| |exact Hhi].
      intros x Hx. destruct (Hall x (or_intror Hx)) as [A [B C]]. split; [exact A|]. split; [|exact C].
      pose proof (sorted_head_lt _ _ Hs x Hx) as H. unfold lt_seg in H. lia. }
    destruct r; exact Hrest.
Qed.

(* ---- get_segment on a well-formed parent -------------------------------- *)

Definition wf_call (parent : list seg) (c start e : Z) : Prop :=
  sorted parent /\ on_c_reach c e parent /\ start <= e /\ 0 <= c.

Theorem get_segment_spec prev h parent c start e m :
  nthZ prev h = Some parent -> wf_call parent c start e ->
  exists cp st,
    get_segment 0 h c start e m prev = Ok (cp ++ [mkseg (pop st) c e m]) /\
    In st parent /\ chrom st = c /\ e <= endc st /\
    (forall s, In s cp -> In s parent /\ chrom s = c /\ start <= endc s < e) /\
    sorted cp /\
    (forall p, start <= p <= e -> label_at (cp ++ [mkseg (pop st) c e m]) c p = label_at parent c p) /\
    run_ok c (start - 1) (cp ++ [mkseg (pop st) c e m]) e /\
    map endc cp = filter (fun x => (start <=? x) && (x <? e)) (ends_on c parent).
Proof.
  intros Hn [Hs [[w [Hw [Hwc Hwe]]] [Hse Hc0]]].
  unfold get_segment, get_segment_with. cbn [Z.eqb negb]. rewrite Hn.
  rewrite (bsearch_eq_scan start c parent Hs Hc0), Nat2Z.id.
  set (i := start_scan start c parent). set (rest := skipn i parent).
  assert (Hsplit : parent = firstn i parent ++ rest) by (symmetry; apply firstn_skipn).
  assert (Hrs : sorted rest) by (apply skip_sorted; exact Hs).
  assert (Hwr : In w rest).
  { rewrite Hsplit in Hw. apply in_app_or in Hw. destruct Hw as [Hw|Hw]; [|exact Hw].
    pose proof (skipped_before start c parent w Hw Hwc). lia. }
  assert (Hge : forall s, In s rest -> c <= chrom s /\ (chrom s = c -> start <= endc s)).
  { destruct rest as [|x t] eqn:ER; [intros ? []|].
    destruct (skip_head start c parent x t ER) as [Hh1 Hh2].
    intros s [<-|Hin]; [split; [lia|auto]|].
    pose proof (sorted_head_lt _ _ Hrs s Hin) as H. unfold lt_seg in H. split; [lia|]. intros. lia. }
  destruct (copy_prefix c e rest None Hrs (fun s Hs' => proj1 (Hge s Hs'))
              (ex_intro _ w (conj Hwr (conj Hwc Hwe))))
    as [cp [st [r' [El [EL [Hst1 [Hst2 Hcp]]]]]]].
  rewrite EL. exists cp, st. split; [reflexivity|].
  assert (Hin_rest : forall s, In s rest -> In s parent).
  { intros s Hsr. rewrite Hsplit. apply in_or_app. right. exact Hsr. }
  assert (Hst_in : In st rest) by (rewrite El; apply in_or_app; right; left; reflexivity).
  assert (Hcp_in : forall s, In s cp -> In s rest) by (intros s Hscp; rewrite El; apply in_or_app; left; exact Hscp).
  split; [apply Hin_rest; exact Hst_in|]. split; [exact Hst1|]. split; [exact Hst2|].
  assert (Hcp_all : forall s, In s cp -> In s parent /\ chrom s = c /\ start <= endc s < e).
  { intros s Hscp. destruct (Hcp s Hscp) as [A B]. split; [apply Hin_rest, Hcp_in, Hscp|].
    split; [exact A|]. split; [apply (proj2 (Hge s (Hcp_in s Hscp))); exact A|exact B]. }
  split; [exact Hcp_all|].
  assert (Hcps : sorted cp) by (rewrite El in Hrs; exact (sorted_app_l _ _ Hrs)).
  split; [exact Hcps|].
  split.
  { (* labels *)
    intros p [Hp1 Hp2].
    rewrite <- (label_skip start c parent p Hp1). fold i. fold rest. rewrite El.
    clear - Hcp Hst1 Hst2 Hp2. induction cp as [|s r IH]; cbn [app label_at].
    - cbn. rewrite Z.eqb_refl, (proj2 (Z.leb_le _ _) Hp2). cbn.
      rewrite (proj2 (Z.eqb_eq _ _) Hst1), (proj2 (Z.leb_le p (endc st))) by lia. reflexivity.
    - rewrite IH; [reflexivity|]. intros x Hx. apply Hcp. right. exact Hx. }
  split.
  { apply run_ok_of_sorted; [exact Hcps| |lia].
    intros s Hscp. destruct (Hcp_all s Hscp) as [_ [A B]]. split; [exact A|lia]. }
  { (* the interior ends are exactly the parental ends in [start, e) *)
    rewrite Hsplit at 1. unfold ends_on. rewrite filter_app, map_app, filter_app.
    assert (H1 : filter (fun x => (start <=? x) && (x <? e))
                   (map endc (filter (fun s => chrom s =? c) (firstn i parent))) = []).
    { assert (Hb : forall s, In s (firstn i parent) -> chrom s = c -> endc s < start)
        by (intros s Hs1 Hs2; exact (skipped_before start c parent s Hs1 Hs2)).
      clear - Hb. induction (firstn i parent) as [|s r IH]; [reflexivity|].
      cbn [filter]. destruct (chrom s =? c) eqn:E.
      - cbn [map filter]. apply Z.eqb_eq in E.
        assert (endc s < start) by (apply Hb; [left; reflexivity|exact E]).
        replace (start <=? endc s) with false by (symmetry; apply Z.leb_gt; lia). cbn.
        apply IH. intros x Hx. apply Hb. right. exact Hx.
      - apply IH. intros x Hx. apply Hb. right. exact Hx. }
    rewrite H1. cbn [app]. rewrite El.
    rewrite filter_app, map_app, filter_app.
    assert (H2 : filter (fun x => (start <=? x) && (x <? e))
                   (map endc (filter (fun s => chrom s =? c) cp)) = map endc cp).
    { clear - Hcp_all. induction cp as [|s r IH]; [reflexivity|].
      destruct (Hcp_all s (or_introl eq_refl)) as [_ [A [B C]]].
      cbn [filter]. rewrite (proj2 (Z.eqb_eq _ _) A). cbn [map filter].
      rewrite (proj2 (Z.leb_le _ _) B), (proj2 (Z.ltb_lt _ _) C). cbn. f_equal.
      apply IH. intros x Hx. apply Hcp_all. right. exact Hx. }
    rewrite H2.
    assert (H3 : filter (fun x => (start <=? x) && (x <? e))
                   (map endc (filter (fun s => chrom s =? c) (st :: r'))) = []).
    { assert (Hsr : sorted (st :: r')).
      { rewrite El in Hrs. clear - Hrs. induction cp as [|a r IH]; [exact Hrs|].
        apply IH. exact (sorted_tail _ _ Hrs). }
      assert (Hall : forall s, In s (st :: r') -> chrom s = c -> e <= endc s).
      { intros s [<-|Hin] Hsc; [exact Hst2|].
        pose proof (sorted_head_lt _ _ Hsr s Hin) as H. unfold lt_seg in H. lia. }
      clear - Hall. induction (st :: r') as [|s r IH]; [reflexivity|].
      cbn [filter]. destruct (chrom s =? c) eqn:E.
      - cbn [map filter]. apply Z.eqb_eq in E.
        assert (e <= endc s) by (apply Hall; [left; reflexivity|exact E]).
        replace (endc s <? e) with false by (symmetry; apply Z.ltb_ge; lia).
        rewrite andb_false_r. apply IH. intros x Hx. apply Hall. right. exact Hx.
      - apply IH. intros x Hx. apply Hall. right. exact Hx. }
    rewrite H3, app_nil_r. reflexivity. }
Qed.

Theorem get_segment_founder p h c start e m prev :
  p <> 0 -> get_segment p h c start e m prev = Ok [mkseg p c e m].
Proof.
  intros Hp. unfold get_segment, get_segment_with.
  destruct (p =? 0) eqn:E; [apply Z.eqb_eq in E; contradiction|reflexivity].
Qed.

(* ---- completeness of the finite label check ------------------------------ *)

Lemma label_const l c p0 p : p0 <= p ->
  (forall s, In s l -> chrom s = c -> ~ (p0 <= endc s < p)) ->
  label_at l c p0 = label_at l c p.
Proof.
  intros Hle. induction l as [|s r IH]; intros Hno; [reflexivity|].
  cbn [label_at]. destruct (chrom s =? c) eqn:Ec; cbn [andb].
  - apply Z.eqb_eq in Ec. specialize (Hno s (or_introl eq_refl) Ec) as Hs.
    destruct (p0 <=? endc s) eqn:E0; destruct (p <=? endc s) eqn:E1; try reflexivity.
    + apply Z.leb_le in E0. apply Z.leb_gt in E1. lia.
    + apply Z.leb_gt in E0. apply Z.leb_le in E1. lia.
    + apply IH. intros x Hx. apply Hno. right. exact Hx.
  - apply IH. intros x Hx. apply Hno. right. exact Hx.
Qed.

(* the largest candidate in [a, p] (a itself if none) *)
Definition best (cands : list Z) (a p : Z) : Z :=
  fold_right (fun x acc => if (a <=? x) && (x <=? p) then Z.max x acc else acc) a cands.

Lemma best_spec cands a p : a <= p ->
  a <= best cands a p <= p /\ (best cands a p = a \/ In (best cands a p) cands) /\
  (forall x, In x cands -> a <= x <= p -> x <= best cands a p).
Proof.
  intros Hap. induction cands as [|y r IH]; cbn [best fold_right].
  - split; [lia|]. split; [left; reflexivity|]. intros x [].
  - destruct IH as [I1 [I2 I3]]. fold (best r a p).
    destruct ((a <=? y) && (y <=? p)) eqn:E.
    + apply andb_true_iff in E. destruct E as [E1 E2]. apply Z.leb_le in E1. apply Z.leb_le in E2.
      split; [lia|]. split.
      * destruct (Z.max_spec y (best r a p)) as [[_ ->]|[_ ->]].
        -- destruct I2 as [I2|I2]; [left; exact I2|right; right; exact I2].
        -- right; left; reflexivity.
      * intros x [<-|Hx] Hr; [lia|]. specialize (I3 x Hx Hr). lia.
    + split; [exact I1|]. split; [destruct I2; [left|right; right]; assumption|].
      intros x [<-|Hx] Hr; [|exact (I3 x Hx Hr)].
      apply andb_false_iff in E. destruct E as [E|E]; [apply Z.leb_gt in E|apply Z.leb_gt in E]; lia.
Qed.

Lemma crit_has_end_succ l c a b s : In s l -> chrom s = c -> In (endc s + 1) (crit l c a b).
Proof.
  intros Hs Hc. unfold crit. right. right. apply in_flat_map. exists s. split; [exact Hs|].
  rewrite (proj2 (Z.eqb_eq _ _) Hc). right. left. reflexivity.
Qed.

Theorem piecewise_check_complete parent out c a b :
  labels_agree parent out c a b = true ->
  forall p, a <= p <= b -> label_at out c p = label_at parent c p.
Proof.
  intros H p [Hp1 Hp2]. unfold labels_agree in H. rewrite forallb_forall in H.
  set (cands := crit parent c a b ++ crit out c a b) in *.
  destruct (best_spec cands a p Hp1) as [[B1 B2] [B3 B4]].
  set (p0 := best cands a p) in *.
  assert (Hin : In p0 cands).
  { destruct B3 as [->|B3]; [|exact B3]. unfold cands. apply in_or_app. left. left. reflexivity. }
  specialize (H p0 Hin).
  assert (Hrange : (a <=? p0) && (p0 <=? b) = true).
  { apply andb_true_iff. split; apply Z.leb_le; lia. }
  rewrite Hrange in H. cbn [negb orb] in H.
  apply (proj1 (opt_eqb_spec Z.eqb Z.eqb_eq _ _)) in H.
  assert (Hno : forall l, (forall x, In x (crit l c a b) -> In x cands) ->
            forall s, In s l -> chrom s = c -> ~ (p0 <= endc s < p)).
  { intros l Hsub s Hs Hc [H1 H2].
    assert (In (endc s + 1) cands) by (apply Hsub; apply crit_has_end_succ; assumption).
    specialize (B4 (endc s + 1) H0). lia. }
  rewrite <- (label_const out c p0 p B2).
  2:{ apply Hno. intros x Hx. unfold cands. apply in_or_app. right. exact Hx. }
  rewrite <- (label_const parent c p0 p B2).
  2:{ apply Hno. intros x Hx. unfold cands. apply in_or_app. left. exact Hx. }
  exact H.
Qed.

(* the boolean checker means what the property says *)
Theorem holds_kernel_sound k parent :
  holds_kernel k = true -> k_pop k = 0 -> nthZ (k_prev k) (k_h k) = Some parent ->
  sorted parent -> on_c_reach (k_chrom k) (k_end k) parent -> k_start k <= k_end k ->
  exists out, k_obs k = Ok out /\
    (forall p, k_start k <= p <= k_end k -> label_at out (k_chrom k) p = label_at parent (k_chrom k) p) /\
    shape_ok parent out (k_chrom k) (k_start k) (k_end k) (k_cm k) = true.
Proof.
  intros H Hp Hn Hs Hr Hle. unfold holds_kernel in H. rewrite Hp in H. cbn [Z.eqb negb] in H.
  rewrite Hn in H. unfold kernel_pre in H.
  rewrite (proj2 (sortedb_spec _) Hs), (proj2 (on_c_reachb_spec _ _ _) Hr), (proj2 (Z.leb_le _ _) Hle) in H.
  cbn [andb] in H. destruct (k_obs k) as [out|]; [|discriminate].
  apply andb_true_iff in H. destruct H as [H1 H2]. exists out. split; [reflexivity|].
  split; [|exact H2]. apply piecewise_check_complete. exact H1.
Qed.

Theorem holds_kernel_founder k :
  holds_kernel k = true -> k_pop k <> 0 ->
  k_obs k = Ok [mkseg (k_pop k) (k_chrom k) (k_end k) (k_cm k)].
Proof.
  intros H Hp. unfold holds_kernel in H.
  destruct (k_pop k =? 0) eqn:E; [apply Z.eqb_eq in E; contradiction|]. cbn [negb] in H.
  unfold rsegs_eqb in H. destruct (k_obs k) as [o|]; cbn in H; [|discriminate].
  f_equal. apply (proj1 (list_eqb_spec seg_eqb seg_eqb_spec _ _)). exact H.
Qed.
