(* C01 - executable model of haptools/sim_genotype.py: start_segment,
   get_segment and the per-child loop of _simulate.  No proofs here. *)
From HV Require Import Prelude Tracts.

(* ---- start_segment ------------------------------------------------------ *)

(* specification-level: linear scan for the first tract of chromosome c whose
   end is >= start; length if none *)
Fixpoint start_scan (start c : Z) (l : list seg) : nat :=
  match l with
  | [] => O
  | s :: r => if (chrom s =? c) && (start <=? endc s) then O else S (start_scan start c r)
  end.

(* code-level: the binary search of the implementation, on fuel.
   low/high are Z because high may become -1. *)
Fixpoint bsearch (fuel : nat) (start c : Z) (l : list seg) (low high : Z) : Z :=
  match fuel with
  | O => lenZ l
  | S fuel' =>
    if high <? low then lenZ l else
    let mid := (high + low) / 2 in
    match nthZ l mid with
    | None => lenZ l (* unreachable: 0 <= low <= mid <= high < len *)
    | Some cur =>
      let '(prev_coord, prev_chrom) :=
        if mid =? 0 then (-1, -1)
        else match nthZ l (mid - 1) with
             | Some p => (endc p, chrom p)
             | None => (-1, -1) end in
      if c =? chrom cur then
        if endc cur <? start then bsearch fuel' start c l (mid + 1) high
        else if prev_chrom <? chrom cur then mid
        else if (prev_chrom =? chrom cur) && (prev_coord <? start) then mid
        else bsearch fuel' start c l low (mid - 1)
      else if c <? chrom cur then bsearch fuel' start c l low (mid - 1)
      else bsearch fuel' start c l (mid + 1) high
    end
  end.

Definition start_segment (start c : Z) (l : list seg) : Z :=
  bsearch (S (length l)) start c l 0 (lenZ l - 1).

(* ---- get_segment -------------------------------------------------------- *)

(* the copy loop: copied tracts, and the tract the Python variable
   [prev_segment] is bound to when the loop ends (None = never bound) *)
Fixpoint copy_loop (c e : Z) (l : list seg) (last : option seg) : list seg * option seg :=
  match l with
  | [] => ([], last)
  | s :: r => if (e <=? endc s) || (c <? chrom s) then ([], Some s)
              else let '(cp, st) := copy_loop c e r (Some s) in (s :: cp, st)
  end.

Definition E_Index : Z := 2.
Definition E_Unbound : Z := 6.

(* [legacy = true] is the pinned tree (closing label taken from the last copied
   tract); [legacy = false] is the tree after the fix commit. [idx] abstracts
   the start index computation (binary search in the code). *)
Definition get_segment_with (idx : Z -> Z -> list seg -> Z) (legacy : bool)
    (p : Z) (h : Z) (c start e m : Z) (prev : list (list seg)) : res (list seg) :=
  if negb (p =? 0) then Ok [mkseg p c e m] else
  match nthZ prev h with
  | None => Err E_Index
  | Some parent =>
    let rest := skipn (Z.to_nat (idx start c parent)) parent in
    match copy_loop c e rest None with
    | (cp, Some st) =>
        let lab := if legacy then match last_opt cp with None => pop st | Some x => pop x end
                   else pop st in
        Ok (cp ++ [mkseg lab c e m])
    | (_, None) => Err E_Unbound
    end
  end.

Definition get_segment := get_segment_with start_segment false.
Definition get_segment_legacy := get_segment_with start_segment true.
Definition get_segment_scan :=
  get_segment_with (fun s c l => Z.of_nat (start_scan s c l)) false.

(* ---- the per-child loop of _simulate ------------------------------------ *)

Record event := mkev { ev_chrom : Z; ev_bp : Z; ev_cm : Z }.
  (* a recombination event: chromosome, and bp / cM of the marker *before* the
     one at which the event was drawn (coord.get_prev_coord()) *)

Record st := mkst {
  segs : list seg; prev_chrom : Z; prev_ind : nat; homolog : bool;
  hd : list bool; (* homolog draws still to be consumed *)
  start_bp : Z }.

Fixpoint index_of (c : Z) (l : list Z) : option nat :=
  match l with
  | [] => None
  | x :: r => if x =? c then Some O else option_map S (index_of c r)
  end.

Definition E_Value : Z := 1.
Definition E_Draws : Z := 98. (* the recorded draw list is shorter than the code needs *)

Section Sample.
Variable gs : Z -> Z -> Z -> Z -> Z -> Z -> list (list seg) -> res (list seg).
Variables (chroms : list Z) (ends : list (Z * Z)) (p_pop : Z) (ha hb : Z) (prev : list (list seg)).

Definition hap_of (h : bool) : Z := if h then hb else ha.
Definition next_h (s : st) : option (bool * list bool) :=
  match hd s with [] => None | b :: r => Some (b, r) end.

(* emit whole chromosomes i, i+1, ..., i+k-1; the first from start_bp *)
Fixpoint emit_chroms (k : nat) (i : nat) (s : st) : res st :=
  match k with
  | O => Ok s
  | S k' =>
    match nth_error chroms i, nth_error ends i with
    | Some c, Some (ebp, ecm) =>
      match gs p_pop (hap_of (homolog s)) c (start_bp s) ebp ecm prev with
      | Err k => Err k
      | Ok g =>
        match next_h s with
        | None => Err E_Draws
        | Some (b, r) => emit_chroms k' (S i) (mkst (segs s ++ g) (prev_chrom s) (prev_ind s) b r 0)
        end
      end
    | _, _ => Err E_Index
    end
  end.

Definition step (s : st) (e : event) : res st :=
  let cur := ev_chrom e in
  let sb := match last_opt (segs s) with
            | Some l => if chrom l =? prev_chrom s then endc l + 1 else 0
            | None => 0 end in
  let s := mkst (segs s) (prev_chrom s) (prev_ind s) (homolog s) (hd s) sb in
  let s' :=
    if negb (cur =? prev_chrom s) then
      let s1 :=
        match last_opt (segs s), nth_error ends (prev_ind s) with
        | Some l, Some (ebp, _) =>
            if endc l =? ebp then
              match nth_error chroms (S (prev_ind s)) with
              | Some c' => Ok (mkst (segs s) c' (S (prev_ind s)) (homolog s) (hd s) 0)
              | None => Err E_Index end
            else Ok s
        | Some _, None => Err E_Index
        | None, _ => Ok s
        end in
      bind s1 (fun s1 =>
        match index_of cur chroms with
        | None => Err E_Value
        | Some ci =>
          bind (emit_chroms (ci - prev_ind s1)%nat (prev_ind s1) s1) (fun s2 =>
            Ok (mkst (segs s2) cur ci (homolog s2) (hd s2) (start_bp s2)))
        end)
    else Ok s in
  bind s' (fun s' =>
    bind (gs p_pop (hap_of (homolog s')) cur (start_bp s') (ev_bp e) (ev_cm e) prev) (fun g =>
      Ok (mkst (segs s' ++ g) cur (prev_ind s') (negb (homolog s')) (hd s') (start_bp s'))))
  .

Fixpoint run (evs : list event) (s : st) : res st :=
  match evs with
  | [] => Ok s
  | e :: r => bind (step s e) (run r)
  end.

Definition finish (s : st) : res (list seg) :=
  let s1 :=
    match last_opt (segs s) with
    | None => Ok (mkst (segs s) (prev_chrom s) (prev_ind s) (homolog s) (hd s) 0)
    | Some l =>
      match nth_error ends (prev_ind s) with
      | Some (ebp, _) =>
          if endc l =? ebp
          then Ok (mkst (segs s) (prev_chrom s) (S (prev_ind s)) (homolog s) (hd s) (start_bp s))
          else Ok (mkst (segs s) (prev_chrom s) (prev_ind s) (homolog s) (hd s) (endc l + 1))
      | None => Err E_Index
      end
    end in
  bind s1 (fun s1 =>
    bind (emit_chroms (length chroms - prev_ind s1)%nat (prev_ind s1) s1) (fun s2 => Ok (segs s2))).

Definition sim_sample (h0 : bool) (hdraws : list bool) (evs : list event) : res (list seg) :=
  match chroms with
  | [] => Err E_Index
  | c0 :: _ => bind (run evs (mkst [] c0 O h0 hdraws 0)) finish
  end.
End Sample.
