(* C01 - every child is the mosaic its recombination events and homolog draws
   prescribe: for every interval of the plan and every position in it, the child
   carries the label of the planned parental haplotype (or of the founder
   population).  Generic in the label source [lab]; instantiated for founders
   and for admixed children in C01_MosaicInst.v. *)
From HV Require Import Prelude Tracts Tiling C01_Model C01_Check C02_Tiling C02_Generations.

Definition piece : Type := (Z * Z * Z * bool)%type.

(* the plan, generalised to start the first chromosome at [start] *)
Fixpoint plan_from (chroms : list Z) (ends : list (Z * Z)) (start : Z) (h : bool) (hd : list bool)
    (evs : list event) : list piece :=
  match chroms, ends with
  | c :: cs, (ebp, _) :: es =>
      let '(pl, _, rest) := plan_chrom c ebp start h evs in
      pl ++ match hd with
            | h' :: hd' => plan_from cs es 0 h' hd' rest
            | [] => []
            end
  | _, _ => []
  end.

Lemma plan_is_plan_from chroms ends h hd evs : plan chroms ends h hd evs = plan_from chroms ends 0 h hd evs.
Proof.
  revert ends h hd evs. induction chroms as [|c cs IH]; intros [|[ebp ecm] es] h hd evs; try reflexivity.
  cbn [plan plan_from]. destruct (plan_chrom c ebp 0 h evs) as [[pl h'] rest].
  destruct hd as [|h1 hd1]; [reflexivity|]. rewrite IH. reflexivity.
Qed.

Definition head_not_on (c : Z) (evs : list event) : Prop :=
  match evs with [] => True | e :: _ => ev_chrom e <> c end.

Lemma plan_chrom_no_event c ebp start h evs : head_not_on c evs ->
  plan_chrom c ebp start h evs = ([(c, start, ebp, h)], h, evs).
Proof.
  destruct evs as [|e r]; intros H; cbn [plan_chrom]; [reflexivity|].
  cbn in H. rewrite (proj2 (Z.eqb_neq _ _) H). reflexivity.
Qed.

Lemma plan_from_event c cs ebp ecm es start h hd e r : ev_chrom e = c ->
  plan_from (c :: cs) ((ebp, ecm) :: es) start h hd (e :: r) =
  (c, start, ev_bp e, h) :: plan_from (c :: cs) ((ebp, ecm) :: es) (ev_bp e + 1) (negb h) hd r.
Proof.
  intros He. cbn [plan_from plan_chrom]. rewrite (proj2 (Z.eqb_eq _ _) He).
  destruct (plan_chrom c ebp (ev_bp e + 1) (negb h) r) as [[pl h'] rest]. reflexivity.
Qed.

Lemma plan_from_no_event c cs ebp ecm es start h h' hd' evs : head_not_on c evs ->
  plan_from (c :: cs) ((ebp, ecm) :: es) start h (h' :: hd') evs =
  (c, start, ebp, h) :: plan_from cs es 0 h' hd' evs.
Proof. intros H. cbn [plan_from]. rewrite (plan_chrom_no_event _ _ _ _ _ H). reflexivity. Qed.

Lemma skipn_nth {A} (l : list A) i x : nth_error l i = Some x -> skipn i l = x :: skipn (S i) l.
Proof.
  revert i. induction l as [|a l IH]; intros [|i] H; cbn in *; try discriminate.
  - inversion H; reflexivity.
  - apply IH. exact H.
Qed.

Lemma label_at_app_below l1 l2 c p : (forall s, In s l1 -> chrom s = c -> endc s < p) ->
  label_at (l1 ++ l2) c p = label_at l2 c p.
Proof.
  induction l1 as [|s r IH]; intros H; [reflexivity|]. cbn [app label_at].
  destruct (chrom s =? c) eqn:E; cbn [andb].
  - apply Z.eqb_eq in E. rewrite (proj2 (Z.leb_gt _ _)) by (apply H; [left; reflexivity|exact E]).
    apply IH. intros x Hx. apply H. right. exact Hx.
  - apply IH. intros x Hx. apply H. right. exact Hx.
Qed.

Lemma nth_error_firstn_some {A} (l : list A) : forall j n x,
  nth_error (firstn j l) n = Some x -> nth_error l n = Some x /\ (n < j)%nat.
Proof.
  induction l as [|a l IH]; intros [|j] [|n] x H; cbn in *; try discriminate.
  - inversion H. split; [reflexivity|lia].
  - destruct (IH j n x H). split; [assumption|lia].
Qed.

Section Mosaic.
Variable gs : Z -> Z -> Z -> Z -> Z -> Z -> list (list seg) -> res (list seg).
Variables (chroms : list Z) (ends : list (Z * Z)) (p_pop : Z) (ha hb : Z) (prev : list (list seg)).
Variable lab : bool -> Z -> Z -> option Z.   (* label the planned source carries at (chromosome, position) *)

Hypothesis ends_len : length ends = length chroms.
Hypothesis ends_max : forall i e, nth_error ends i = Some e -> fst e = MAXC.
Hypothesis chroms_incr : incr chroms.
Hypothesis GSL : forall (h : bool) c a e m, In c chroms -> 0 <= a -> a <= e -> e <= MAXC ->
  exists g, gs p_pop (hap_of ha hb h) c a e m prev = Ok g /\ run_ok c (a - 1) g e /\
            forall p, a <= p <= e -> label_at g c p = lab h c p.

Lemma GS_of_GSL : forall (h : bool) c a e m, In c chroms -> 0 <= a -> a <= e -> e <= MAXC ->
  exists g, gs p_pop (hap_of ha hb h) c a e m prev = Ok g /\ run_ok c (a - 1) g e.
Proof. intros h c a e m H1 H2 H3 H4. destruct (GSL h c a e m H1 H2 H3 H4) as [g [A [B _]]]. eauto. Qed.

(* the haplotype l realises piece pc: covered, with the planned label, at every position *)
Definition good (l : list seg) (pc : piece) : Prop :=
  let '(c, a, b, w) := pc in
  forall p, a <= p <= b -> exists v, label_at l c p = Some v /\ lab w c p = Some v.

Lemma good_app l more pc : good l pc -> good (l ++ more) pc.
Proof.
  destruct pc as [[[c a] b] w]. intros H p Hp. destruct (H p Hp) as [v [A B]].
  exists v. split; [apply label_at_app_hit; exact A|exact B].
Qed.

Lemma Forall_good_app l more pcs : Forall (good l) pcs -> Forall (good (l ++ more)) pcs.
Proof. intros H. eapply Forall_impl; [|exact H]. intros pc. apply good_app. Qed.

Lemma tiles_firstn_other j c done : nth_error chroms j = Some c -> tiles (firstn j chroms) done ->
  forall s, In s done -> chrom s <> c.
Proof.
  intros Hj Ht s Hs. pose proof (tiles_chroms _ _ Ht s Hs) as Hin.
  apply In_nth_error in Hin. destruct Hin as [n Hn].
  destruct (nth_error_firstn_some _ _ _ _ Hn) as [Hn' Hnj]. clear Hn. rename Hn' into Hn.
  pose proof (chroms_incr n j _ _ Hnj Hn Hj). lia.
Qed.

Lemma new_piece done part g c x e w j :
  nth_error chroms j = Some c -> tiles (firstn j chroms) done -> chain c (-1) part x ->
  run_ok c x g e -> (forall p, x + 1 <= p <= e -> label_at g c p = lab w c p) ->
  good (done ++ part ++ g) (c, x + 1, e, w).
Proof.
  intros Hj Hd Hch Hg Hl p Hp. cbn beta.
  rewrite label_at_app_other by (exact (tiles_firstn_other j c done Hj Hd)).
  rewrite label_at_app_below.
  2:{ intros s Hs _. destruct Hch as [[-> _]|Hr]; [destruct Hs|].
      pose proof (run_ok_all _ _ _ _ Hr s Hs). lia. }
  destruct (run_ok_label _ _ _ _ Hg p ltac:(lia)) as [s [_ [Hs _]]].
  exists (pop s). split; [exact Hs|]. rewrite <- (Hl p Hp). exact Hs.
Qed.

Notation emit := (emit_chroms gs chroms ends p_pop ha hb prev).
Notation planj j start h hd evs := (plan_from (skipn j chroms) (skipn j ends) start h hd evs).

Lemma emit_extends : forall n s0 n0 s2', emit n n0 s0 = Ok s2' -> exists more, segs s2' = segs s0 ++ more.
Proof.
  induction n as [|n IHn]; intros s0 n0 s2' H; cbn [emit_chroms] in H.
  - inversion H; subst. exists []. rewrite app_nil_r. reflexivity.
  - destruct (nth_error chroms n0); [|discriminate]. destruct (nth_error ends n0) as [[? ?]|]; [|discriminate].
    destruct (gs _ _ _ _ _ _ _) as [g0|]; [|discriminate]. destruct (next_h s0) as [[? ?]|]; [|discriminate].
    destruct (IHn _ _ _ H) as [more Hm]. cbn [segs] in Hm. exists (g0 ++ more). rewrite Hm, app_assoc. reflexivity.
Qed.

(* no event of [evs] heads a chromosome with index in [i, i+k) *)
Definition clear_of (i k : nat) (evs : list event) : Prop :=
  forall i' c', (i <= i' < i + k)%nat -> nth_error chroms i' = Some c' -> head_not_on c' evs.

Lemma emit_mosaic k : forall i s done part x c evs,
  (i + k <= length chroms)%nat -> (k <= length (hd s))%nat ->
  segs s = done ++ part -> tiles (firstn i chroms) done ->
  (k > 0)%nat -> nth_error chroms i = Some c -> chain c (-1) part x -> x < MAXC -> start_bp s = x + 1 ->
  clear_of i k evs ->
  exists s', emit k i s = Ok s' /\
    tiles (firstn (i + k) chroms) (segs s') /\ start_bp s' = 0 /\
    prev_chrom s' = prev_chrom s /\ prev_ind s' = prev_ind s /\ hd s' = skipn k (hd s) /\
    exists now, planj i (x + 1) (homolog s) (hd s) evs = now ++ planj (i + k) 0 (homolog s') (hd s') evs /\
                Forall (good (segs s')) now.
Proof.
  induction k as [|k IH]; intros i s done part x c evs Hik Hhd Hsegs Hdone Hk Hc Hch Hx Hsb Hclr; [lia|].
  cbn [emit_chroms]. rewrite Hc.
  destruct (nth_error ends i) as [[ebp ecm]|] eqn:Ee.
  2:{ exfalso. apply nth_error_None in Ee. lia. }
  pose proof (ends_max _ _ Ee) as Hm. cbn in Hm. subst ebp.
  assert (Hin : In c chroms) by (eapply nth_error_In; eauto).
  pose proof (chain_le _ _ _ _ Hch) as Hx0.
  destruct (GSL (homolog s) c (start_bp s) MAXC ecm Hin) as [g [Eg [Hg Hlab]]]; try lia.
  rewrite Eg. rewrite Hsb in Hg, Hlab. replace (x + 1 - 1) with x in Hg by lia.
  unfold next_h. destruct (hd s) as [|b r] eqn:Ehd; [cbn in Hhd; lia|].
  assert (Hfull : run_ok c (-1) (part ++ g) MAXC) by (eapply chain_app; eauto).
  assert (Hdone' : tiles (firstn (S i) chroms) (done ++ (part ++ g))).
  { rewrite (firstn_S_nth _ _ _ Hc). apply tiles_snoc; assumption. }
  set (s1 := mkst (segs s ++ g) (prev_chrom s) (prev_ind s) b r 0).
  assert (Hpiece : good (segs s1) (c, x + 1, MAXC, homolog s)).
  { unfold s1; cbn [segs]. rewrite Hsegs, <- app_assoc. eapply new_piece; eauto. }
  assert (Hplan : planj i (x + 1) (homolog s) (b :: r) evs = (c, x + 1, MAXC, homolog s) :: planj (S i) 0 b r evs).
  { rewrite (skipn_nth _ _ _ Hc), (skipn_nth _ _ _ Ee). apply plan_from_no_event.
    apply (Hclr i c); [lia|exact Hc]. }
  destruct k as [|k'].
  - cbn [emit_chroms]. exists s1. split; [reflexivity|].
    split.
    { unfold s1; cbn [segs]. rewrite Hsegs, <- app_assoc. replace (i + 1)%nat with (S i) by lia. exact Hdone'. }
    split; [reflexivity|]. split; [reflexivity|]. split; [reflexivity|]. split; [reflexivity|].
    exists [(c, x + 1, MAXC, homolog s)]. split.
    { replace (i + 1)%nat with (S i) by lia. exact Hplan. }
    constructor; [exact Hpiece|constructor].
  - destruct (nth_error chroms (S i)) as [c'|] eqn:Ec'.
    2:{ exfalso. apply nth_error_None in Ec'. lia. }
    destruct (IH (S i) s1 (done ++ (part ++ g)) [] (-1) c' evs) as [s' [Es' [Ht [Hs0 [Hpc [Hpi [Hh [now [Hnow Hgood]]]]]]]]].
    + lia.
    + unfold s1; cbn [hd]. cbn in Hhd. lia.
    + unfold s1; cbn [segs]. rewrite Hsegs, app_nil_r, <- app_assoc. reflexivity.
    + exact Hdone'.
    + lia.
    + exact Ec'.
    + left; auto.
    + unfold MAXC; lia.
    + reflexivity.
    + intros i' c'' Hi' Hn. apply (Hclr i' c''); [lia|exact Hn].
    + exists s'. split; [exact Es'|]. replace (i + S (S k'))%nat with (S i + S k')%nat by lia.
      split; [exact Ht|]. split; [exact Hs0|]. unfold s1 in Hpc, Hpi, Hh; cbn [prev_chrom prev_ind hd] in Hpc, Hpi, Hh.
      split; [exact Hpc|]. split; [exact Hpi|]. split; [cbn [skipn]; exact Hh|].
      exists ((c, x + 1, MAXC, homolog s) :: now). split.
      * rewrite Hplan. unfold s1 in Hnow; cbn [homolog hd] in Hnow. replace (-1 + 1) with 0 in Hnow by lia.
        rewrite Hnow. reflexivity.
      * constructor; [|exact Hgood].
        (* segs s' extends segs s1 *)
        destruct (emit_extends _ _ _ _ Es') as [more Hext]. rewrite Hext. apply good_app. exact Hpiece.
Qed.

Definition MInv (j : nat) (x : Z) (s : st) : Prop := Inv chroms j x s.

Lemma evs_head_clear j x e r i : evs_ok chroms j x (e :: r) -> nth_error chroms i = Some (ev_chrom e) ->
  forall k, (j + k <= i)%nat -> clear_of j k (e :: r).
Proof.
  intros _ Hi k Hk i' c' Hi' Hn. cbn [head_not_on].
  destruct (Nat.eq_dec i' i) as [->|Hne]; [lia|].
  assert (Hlt : (i' < i)%nat) by lia.
  pose proof (chroms_incr i' i _ _ Hlt Hn Hi). lia.
Qed.

Lemma step_mosaic j x s e r i :
  MInv j x s -> nth_error chroms i = Some (ev_chrom e) ->
  ((i = j /\ x < ev_bp e) \/ ((j < i)%nat /\ 0 <= ev_bp e)) -> ev_bp e < MAXC ->
  exists s', step gs chroms ends p_pop ha hb prev s e = Ok s' /\ MInv i (ev_bp e) s' /\
    (exists more, segs s' = segs s ++ more) /\
    exists now, planj j (x + 1) (homolog s) (hd s) (e :: r) =
                now ++ planj i (ev_bp e + 1) (homolog s') (hd s') r /\
                Forall (good (segs s')) now.
Proof.
  intros HI Hi Hord Hbp. pose proof (sb_spec chroms ends ends_len _ _ _ HI) as Hsb.
  destruct HI as [Hpi [Hpc [Hhd [done [part [Hs [Hdone [Hch [Hx Hpd]]]]]]]]].
  pose proof (chain_le _ _ _ _ Hch) as Hx0.
  assert (Hcin : In (ev_chrom e) chroms) by (eapply nth_error_In; eauto).
  unfold step.
  set (sb := match last_opt (segs s) with Some l => if chrom l =? prev_chrom s then endc l + 1 else 0 | None => 0 end).
  assert (Esb : sb = x + 1).
  { unfold sb. destruct (last_opt (segs s)); [tauto|]. destruct Hsb as [-> _]. reflexivity. }
  cbn [segs prev_chrom prev_ind homolog hd start_bp].
  assert (Hil : (i < length chroms)%nat) by (apply nth_error_Some; congruence).
  destruct (nth_error ends i) as [[ebi ecmi]|] eqn:Eei.
  2:{ exfalso. apply nth_error_None in Eei. lia. }
  destruct Hord as [[-> Hlt]|[Hji Hb0]].
  - (* same chromosome *)
    assert (Hsame : ev_chrom e = prev_chrom s) by congruence. rewrite Hsame, Z.eqb_refl. cbn [negb bind].
    cbn [segs prev_chrom prev_ind homolog hd start_bp].
    destruct (GSL (homolog s) (prev_chrom s) sb (ev_bp e) (ev_cm e)) as [g [Eg [Hg Hlab]]]; try lia.
    { rewrite <- Hsame. exact Hcin. }
    rewrite Eg. cbn [bind]. eexists; split; [reflexivity|].
    rewrite Esb in Hg, Hlab. replace (x + 1 - 1) with x in Hg by lia.
    split.
    { unfold MInv, Inv. cbn [segs prev_chrom prev_ind homolog hd start_bp].
      split; [exact Hpi|]. split; [exact Hpc|]. split; [exact Hhd|].
      exists done, (part ++ g). rewrite Hs, app_assoc. split; [reflexivity|]. split; [exact Hdone|].
      split; [right; eapply chain_app; eauto|]. split; [exact Hbp|].
      intros E. apply app_eq_nil in E. destruct E as [_ ->]. destruct Hg. }
    cbn [segs homolog hd]. split; [exists g; reflexivity|].
    exists [(prev_chrom s, x + 1, ev_bp e, homolog s)]. split.
    + rewrite (skipn_nth _ _ _ Hpc), (skipn_nth _ _ _ Eei). rewrite plan_from_event by exact Hsame. reflexivity.
    + constructor; [|constructor]. rewrite Hs, <- app_assoc. eapply new_piece; eauto.
  - (* a later chromosome *)
    assert (Hne : ev_chrom e <> prev_chrom s).
    { pose proof (chroms_incr j i _ _ Hji Hpc Hi). lia. }
    rewrite (proj2 (Z.eqb_neq _ _) Hne). cbn [negb].
    assert (Es1 : match last_opt (segs s), nth_error ends (prev_ind s) with
                  | Some l, Some (ebp, _) =>
                      if endc l =? ebp then
                        match nth_error chroms (S (prev_ind s)) with
                        | Some c' => Ok (mkst (segs s) c' (S (prev_ind s)) (homolog s) (hd s) 0)
                        | None => Err E_Index end
                      else Ok (mkst (segs s) (prev_chrom s) (prev_ind s) (homolog s) (hd s) sb)
                  | Some _, None => Err E_Index
                  | None, _ => Ok (mkst (segs s) (prev_chrom s) (prev_ind s) (homolog s) (hd s) sb)
                  end = Ok (mkst (segs s) (prev_chrom s) (prev_ind s) (homolog s) (hd s) sb)).
    { destruct (last_opt (segs s)) as [l|]; [|reflexivity].
      destruct (nth_error ends (prev_ind s)) as [[ebp ecm]|] eqn:Ee.
      - pose proof (ends_max _ _ Ee) as Hm. cbn in Hm. subst ebp.
        destruct Hsb as [_ Hl]. rewrite (proj2 (Z.eqb_neq _ _)) by lia. reflexivity.
      - exfalso. apply nth_error_None in Ee.
        assert ((j < length chroms)%nat) by (apply nth_error_Some; congruence). lia. }
    rewrite Es1. cbn [bind]. rewrite (index_of_nth _ _ _ chroms_incr Hi).
    cbn [segs prev_chrom prev_ind homolog hd start_bp]. rewrite Hpi.
    destruct (emit_mosaic (i - j) j (mkst (segs s) (prev_chrom s) j (homolog s) (hd s) sb) done part x (prev_chrom s) (e :: r))
      as [s2 [E2 [Ht [Hs0 [_ [_ [Hh [now [Hnow Hgood]]]]]]]]]; cbn [segs prev_chrom prev_ind homolog hd start_bp]; try assumption; try lia.
    { intros i' c' Hi' Hn. cbn [head_not_on]. assert (Hlt : (i' < i)%nat) by lia.
      pose proof (chroms_incr i' i _ _ Hlt Hn Hi). lia. }
    rewrite E2. cbn [bind]. replace (j + (i - j))%nat with i in Ht, Hnow by lia.
    cbn [segs prev_chrom prev_ind homolog hd start_bp] in Hnow.
    cbn [segs prev_chrom prev_ind homolog hd start_bp].
    destruct (GSL (homolog s2) (ev_chrom e) (start_bp s2) (ev_bp e) (ev_cm e)) as [g [Eg [Hg Hlab]]]; try lia; [exact Hcin|].
    rewrite Eg. cbn [bind].
    eexists; split; [reflexivity|].
    rewrite Hs0 in Hg, Hlab. replace (0 - 1) with (-1) in Hg by lia.
    split.
    { unfold MInv, Inv. cbn [segs prev_chrom prev_ind homolog hd start_bp].
      split; [reflexivity|]. split; [exact Hi|]. split.
      { cbn [hd] in Hh. rewrite Hh, skipn_length. lia. }
      exists (segs s2), g. split; [reflexivity|]. split; [exact Ht|].
      split; [right; exact Hg|]. split; [exact Hbp|]. intros ->. destruct Hg. }
    cbn [segs homolog hd].
    pose proof (emit_extends _ _ _ _ E2) as Hext.
    split.
    { destruct Hext as [more Hm]. cbn [segs] in Hm. exists (more ++ g). rewrite Hm, app_assoc. reflexivity. }
    exists (now ++ [(ev_chrom e, 0, ev_bp e, homolog s2)]). split.
    + rewrite Hnow. rewrite <- app_assoc. f_equal.
      rewrite (skipn_nth _ _ _ Hi), (skipn_nth _ _ _ Eei). cbn [app]. rewrite plan_from_event by reflexivity. reflexivity.
    + apply Forall_app. split; [apply Forall_good_app; exact Hgood|].
      constructor; [|constructor].
      replace 0 with (-1 + 1) at 1 by lia.
      replace (segs s2 ++ g) with (segs s2 ++ [] ++ g) by reflexivity.
      apply (new_piece (segs s2) [] g (ev_chrom e) (-1) (ev_bp e) (homolog s2) i);
        [exact Hi|exact Ht|left; auto|exact Hg|intros p Hp; apply Hlab; lia].
Qed.

Lemma finish_mosaic j x s : MInv j x s ->
  exists out, finish gs chroms ends p_pop ha hb prev s = Ok out /\ tiles chroms out /\
    (exists more, out = segs s ++ more) /\
    Forall (good out) (planj j (x + 1) (homolog s) (hd s) []).
Proof.
  intros HI. pose proof (sb_spec chroms ends ends_len _ _ _ HI) as Hsb.
  destruct HI as [Hpi [Hpc [Hhd [done [part [Hs [Hdone [Hch [Hx Hpd]]]]]]]]].
  assert (Hjl : (j < length chroms)%nat) by (apply nth_error_Some; congruence).
  unfold finish.
  set (s1 := match last_opt (segs s) with
             | None => Ok (mkst (segs s) (prev_chrom s) (prev_ind s) (homolog s) (hd s) 0)
             | Some l => match nth_error ends (prev_ind s) with
                         | Some (ebp, _) => if endc l =? ebp
                             then Ok (mkst (segs s) (prev_chrom s) (S (prev_ind s)) (homolog s) (hd s) (start_bp s))
                             else Ok (mkst (segs s) (prev_chrom s) (prev_ind s) (homolog s) (hd s) (endc l + 1))
                         | None => Err E_Index end
             end).
  assert (E1 : s1 = Ok (mkst (segs s) (prev_chrom s) j (homolog s) (hd s) (x + 1))).
  { unfold s1. destruct (last_opt (segs s)) as [l|].
    - destruct (nth_error ends (prev_ind s)) as [[ebp ecm]|] eqn:Ee.
      + pose proof (ends_max _ _ Ee) as Hm. cbn in Hm. subst ebp. destruct Hsb as [_ Hl].
        rewrite (proj2 (Z.eqb_neq _ _)) by lia. rewrite Hl, Hpi. reflexivity.
      + exfalso. apply nth_error_None in Ee. lia.
    - destruct Hsb as [-> _]. rewrite Hpi. reflexivity. }
  rewrite E1. cbn [bind prev_ind].
  destruct (emit_mosaic (length chroms - j) j (mkst (segs s) (prev_chrom s) j (homolog s) (hd s) (x + 1)) done part x (prev_chrom s) [])
    as [s2 [E2 [Ht [_ [_ [_ [_ [now [Hnow Hgood]]]]]]]]]; cbn [segs prev_chrom prev_ind homolog hd start_bp]; try assumption; try lia.
  { intros i' c' _ _. exact I. }
  rewrite E2. cbn [bind]. eexists; split; [reflexivity|].
  replace (j + (length chroms - j))%nat with (length chroms) in Ht, Hnow by lia.
  rewrite firstn_all in Ht. split; [exact Ht|].
  split.
  { destruct (emit_extends _ _ _ _ E2) as [more Hm]. cbn [segs] in Hm. exists more. exact Hm. }
  cbn [segs prev_chrom prev_ind homolog hd start_bp] in Hnow. rewrite Hnow.
  rewrite skipn_all. cbn [plan_from]. rewrite app_nil_r. exact Hgood.
Qed.

Lemma run_mosaic : forall evs j x s, MInv j x s -> evs_ok chroms j x evs ->
  exists out, bind (run gs chroms ends p_pop ha hb prev evs s) (finish gs chroms ends p_pop ha hb prev) = Ok out /\
    tiles chroms out /\ (exists more, out = segs s ++ more) /\
    Forall (good out) (planj j (x + 1) (homolog s) (hd s) evs).
Proof.
  induction evs as [|e r IH]; intros j x s HI Hok; cbn [run].
  - cbn [bind]. apply finish_mosaic. exact HI.
  - destruct Hok as [i [Hi [Hord [Hbp Hr]]]].
    destruct (step_mosaic j x s e r i HI Hi Hord Hbp) as [s1 [E1 [HI1 [[more1 Hm1] [now [Hnow Hgood]]]]]].
    rewrite E1. cbn [bind].
    destruct (IH i (ev_bp e) s1 HI1 Hr) as [out [Eo [Ht [[more Hm] Hrest]]]].
    exists out. split; [exact Eo|]. split; [exact Ht|]. split.
    + exists (more1 ++ more). rewrite Hm, Hm1, app_assoc. reflexivity.
    + rewrite Hnow. apply Forall_app. split; [|exact Hrest].
      rewrite Hm. apply Forall_good_app. exact Hgood.
Qed.

Theorem sim_sample_mosaic h0 hdraws evs :
  chroms <> [] -> (length chroms <= length hdraws)%nat -> evs_ok chroms 0 (-1) evs ->
  exists out, sim_sample gs chroms ends p_pop ha hb prev h0 hdraws evs = Ok out /\ tiles chroms out /\
    Forall (good out) (plan chroms ends h0 hdraws evs).
Proof.
  intros Hne Hd Hok. unfold sim_sample. destruct chroms as [|c0 cr] eqn:Ech; [congruence|]. rewrite <- Ech in *.
  assert (HI : MInv 0 (-1) (mkst [] c0 0 h0 hdraws 0)).
  { unfold MInv, Inv. cbn [segs prev_chrom prev_ind homolog hd start_bp]. split; [reflexivity|].
    split; [rewrite Ech; reflexivity|]. split; [lia|]. exists [], []. cbn.
    split; [reflexivity|]. split; [reflexivity|]. split; [left; auto|]. split; [unfold MAXC; lia|auto]. }
  destruct (run_mosaic evs _ _ _ HI Hok) as [out [Eo [Ht [_ Hgood]]]].
  exists out. split; [exact Eo|]. split; [exact Ht|].
  rewrite plan_is_plan_from. cbn [segs homolog hd skipn] in Hgood. replace (-1 + 1) with 0 in Hgood by lia.
  exact Hgood.
Qed.
End Mosaic.
