(* C01 - the mosaic theorem of a generation under the numpy contracts on the RAW draws of _simulate
   (the statements before the per-child loop are modelled by C02_Draws.decode_gen: choice of parents,
   re-draw loop, boolean-mask selection and stable sort of the recombination points). *)
From HV Require Import Prelude Tracts Tiling C01_Model C01_Check C01_Kernel C01_Mosaic C01_MosaicInst
  C02_Model C02_Tiling C02_Generations C02_Coords C02_Draws.

Theorem generation_mosaic_from_contract chroms coords n g prev :
  incr chroms -> (forall c, In c chroms -> 0 <= c) -> chroms <> [] ->
  length coords = length chroms -> Forall map_ok coords ->
  (forall i e, nth_error (ends_of coords) i = Some e -> fst e = MAXC) ->
  gen_tiles chroms prev -> gen_contract chroms coords n (lenZ prev) g ->
  exists ds out, decode_gen chroms coords g = Some ds /\
    sim_generation chroms (ends_of coords) prev ds = Ok out /\
    Forall2 (is_mosaic chroms (ends_of coords) prev) ds out /\
    Forall (fun d => d_pop d = 0 -> d_ha d <> d_hb d) ds.
Proof.
  intros Hinc Hpos Hne Hlen Hmaps Hends Hprev Hc.
  destruct (decode_gen_spec chroms coords n (lenZ prev) g Hinc Hlen Hmaps Hc) as [ds [E [_ [Hds _]]]].
  assert (Hok : Forall (draws_ok chroms prev) ds).
  { eapply Forall_impl; [|exact Hds]. cbn beta. intros d [A [B C]]. unfold draws_ok.
    split; [exact A|]. split; [exact B|]. intros Hp. destruct (C Hp) as [X [Y _]]. split; assumption. }
  assert (Hel : length (ends_of coords) = length chroms) by (unfold ends_of; rewrite map_length; exact Hlen).
  destruct (generation_is_mosaic chroms (ends_of coords) Hel Hends Hinc Hpos Hne prev ds Hprev Hok) as [out [Eo Hm]].
  exists ds, out. split; [exact E|]. split; [exact Eo|]. split; [exact Hm|].
  eapply Forall_impl; [|exact Hds]. cbn beta. intros d [_ [_ C]] Hp. exact (proj2 (proj2 (C Hp))).
Qed.
