(* C01 - the mosaic theorem instantiated for the real get_segment: founders and
   admixed children, one generation at a time; soundness of holds_child. *)
From HV Require Import Prelude Tracts Tiling C01_Model C01_Check C01_Kernel C02_Tiling C02_Generations C01_Mosaic.

(* what the property demands of one child *)
Definition is_mosaic (chroms : list Z) (ends : list (Z * Z)) (prev : list (list seg))
    (d : child_draws) (child : list seg) : Prop :=
  tiles chroms child /\
  if d_pop d =? 0 then
    exists pa pb, nthZ prev (d_ha d) = Some pa /\ nthZ prev (d_hb d) = Some pb /\
      forall c a b (w : bool), In (c, a, b, w) (plan chroms ends (d_h0 d) (d_hd d) (d_evs d)) ->
      forall p, a <= p <= b -> label_at child c p = label_at (if w then pb else pa) c p
  else
    forall c a b (w : bool), In (c, a, b, w) (plan chroms ends (d_h0 d) (d_hd d) (d_evs d)) ->
    forall p, a <= p <= b -> label_at child c p = Some (d_pop d).

Lemma nthZ_range {A} (l : list A) i : 0 <= i < lenZ l -> exists x, nthZ l i = Some x /\ In x l.
Proof.
  intros [H1 H2]. unfold nthZ. destruct (i <? 0) eqn:E; [apply Z.ltb_lt in E; lia|].
  destruct (nth_error l (Z.to_nat i)) as [x|] eqn:En.
  - exists x. split; [reflexivity|]. eapply nth_error_In; eauto.
  - apply nth_error_None in En. unfold lenZ in H2. lia.
Qed.

Section Inst.
Variables (chroms : list Z) (ends : list (Z * Z)).
Hypothesis ends_len : length ends = length chroms.
Hypothesis ends_max : forall i e, nth_error ends i = Some e -> fst e = MAXC.
Hypothesis chroms_incr : incr chroms.
Hypothesis chroms_pos : forall c, In c chroms -> 0 <= c.
Hypothesis chroms_ne : chroms <> [].

Lemma GSL_founder p_pop ha hb prev : p_pop <> 0 ->
  forall (h : bool) c a e m, In c chroms -> 0 <= a -> a <= e -> e <= MAXC ->
  exists g, get_segment p_pop (hap_of ha hb h) c a e m prev = Ok g /\ run_ok c (a - 1) g e /\
            forall p, a <= p <= e -> label_at g c p = (fun _ _ _ => Some p_pop) h c p.
Proof.
  intros Hp h c a e m _ Ha Hae _. rewrite (get_segment_founder _ _ _ _ _ _ _ Hp).
  eexists; split; [reflexivity|]. split; [cbn; split; [reflexivity|split; [lia|reflexivity]]|].
  intros p Hp'. cbn. rewrite Z.eqb_refl. rewrite (proj2 (Z.leb_le _ _)) by lia. reflexivity.
Qed.

Lemma GSL_admixed ha hb prev pa pb :
  nthZ prev ha = Some pa -> nthZ prev hb = Some pb -> tiles chroms pa -> tiles chroms pb ->
  forall (h : bool) c a e m, In c chroms -> 0 <= a -> a <= e -> e <= MAXC ->
  exists g, get_segment 0 (hap_of ha hb h) c a e m prev = Ok g /\ run_ok c (a - 1) g e /\
            forall p, a <= p <= e -> label_at g c p = (fun (w : bool) c p => label_at (if w then pb else pa) c p) h c p.
Proof.
  intros Hna Hnb Hta Htb h c a e m Hc Ha Hae He.
  assert (Hpar : nthZ prev (hap_of ha hb h) = Some (if h then pb else pa) /\ tiles chroms (if h then pb else pa)).
  { destruct h; cbn [hap_of]; auto. }
  destruct Hpar as [Hn Ht].
  assert (Hwf : wf_call (if h then pb else pa) c a e).
  { split; [exact (tiles_sorted _ chroms_incr _ Ht)|]. split; [exact (tiles_reach _ _ _ _ Ht Hc He)|].
    split; [exact Hae|exact (chroms_pos c Hc)]. }
  destruct (get_segment_spec prev _ _ c a e m Hn Hwf) as [cp [st [E [_ [_ [_ [_ [_ [Hlab [Hrun _]]]]]]]]]].
  eexists; split; [exact E|]. split; [exact Hrun|]. exact Hlab.
Qed.

Theorem child_is_mosaic prev d : gen_tiles chroms prev -> draws_ok chroms prev d ->
  exists child, sim_child chroms ends prev d = Ok child /\ is_mosaic chroms ends prev d child.
Proof.
  intros Hprev [Hhd [Hev Hpar]]. unfold sim_child, is_mosaic.
  destruct (Z.eq_dec (d_pop d) 0) as [Hp|Hp].
  - destruct (Hpar Hp) as [Ha Hb].
    destruct (nthZ_range prev _ Ha) as [pa [Hna Hia]].
    destruct (nthZ_range prev _ Hb) as [pb [Hnb Hib]].
    rewrite Hp. cbn [Z.eqb].
    destruct (sim_sample_mosaic get_segment chroms ends 0 (d_ha d) (d_hb d) prev
                (fun (w : bool) c p => label_at (if w then pb else pa) c p)
                ends_len ends_max chroms_incr
                (GSL_admixed (d_ha d) (d_hb d) prev pa pb Hna Hnb (Hprev pa Hia) (Hprev pb Hib))
                (d_h0 d) (d_hd d) (d_evs d) chroms_ne Hhd Hev) as [out [Eo [Ht Hgood]]].
    exists out. split; [exact Eo|]. split; [exact Ht|]. exists pa, pb. split; [exact Hna|]. split; [exact Hnb|].
    intros c a b w Hin p Hp'. rewrite Forall_forall in Hgood. specialize (Hgood _ Hin). cbn in Hgood.
    destruct (Hgood p Hp') as [v [A B]]. rewrite A, B. reflexivity.
  - rewrite (proj2 (Z.eqb_neq _ _) Hp).
    destruct (sim_sample_mosaic get_segment chroms ends (d_pop d) (d_ha d) (d_hb d) prev
                (fun _ _ _ => Some (d_pop d))
                ends_len ends_max chroms_incr
                (GSL_founder (d_pop d) (d_ha d) (d_hb d) prev Hp)
                (d_h0 d) (d_hd d) (d_evs d) chroms_ne Hhd Hev) as [out [Eo [Ht Hgood]]].
    exists out. split; [exact Eo|]. split; [exact Ht|].
    intros c a b w Hin p Hp'. rewrite Forall_forall in Hgood. specialize (Hgood _ Hin). cbn in Hgood.
    destruct (Hgood p Hp') as [v [A B]]. rewrite A, B. reflexivity.
Qed.

(* every child of a generation, given that the previous generation tiles (C02_generations_tile
   provides that for every generation of every simulation) *)
Theorem generation_is_mosaic prev ds : gen_tiles chroms prev -> Forall (draws_ok chroms prev) ds ->
  exists g, sim_generation chroms ends prev ds = Ok g /\
            Forall2 (is_mosaic chroms ends prev) ds g.
Proof.
  intros Hprev Hds. unfold sim_generation. induction Hds as [|d r Hd Hr IH]; cbn [mapM].
  - exists []. split; [reflexivity|constructor].
  - destruct (child_is_mosaic prev d Hprev Hd) as [child [E Hm]]. rewrite E. cbn [bind].
    destruct IH as [g [Eg Hg]]. rewrite Eg. cbn [bind]. exists (child :: g).
    split; [reflexivity|]. constructor; assumption.
Qed.
End Inst.

(* the plan covers every position of every chromosome (so the mosaic statement is not vacuous):
   for a chromosome with no event the plan has the whole-chromosome piece *)
Lemma plan_chrom_first c ebp start h evs :
  exists b w rest, fst (fst (plan_chrom c ebp start h evs)) = (c, start, b, w) :: rest.
Proof.
  destruct evs as [|e r]; cbn [plan_chrom]; [eexists _, _, _; reflexivity|].
  destruct (ev_chrom e =? c); [|eexists _, _, _; reflexivity].
  destruct (plan_chrom c ebp (ev_bp e + 1) (negb h) r) as [[pl h'] rest']. cbn. eexists _, _, _; reflexivity.
Qed.

(* soundness of the boolean checker evaluated on the implementation's children *)
Theorem holds_child_sound k child : holds_child k = true -> c_obs k = Ok child -> c_pop k = 0 ->
  forall c a b (w : bool), In (c, a, b, w) (plan (c_chroms k) (c_ends k) (c_h0 k) (c_hd k) (c_evs k)) ->
  forall p, a <= p <= b -> label_at child c p = label_at (if w then c_pb k else c_pa k) c p.
Proof.
  intros H Ho Hp c a b w Hin p Hp'. unfold holds_child in H. rewrite Ho, Hp in H. cbn [Z.eqb negb] in H.
  apply andb_true_iff in H. destruct H as [H _]. rewrite forallb_forall in H.
  specialize (H _ Hin). cbn in H. exact (piecewise_check_complete _ _ _ _ _ H p Hp').
Qed.
