(* C01 - proofs about the model of get_segment / start_segment. *)
From HV Require Import Prelude Tracts C01_Model.

Lemma sorted_tail a l : sorted (a :: l) -> sorted l.
Proof. cbn. tauto. Qed.

Lemma sorted_head_lt a l : sorted (a :: l) -> forall b, In b l -> lt_seg a b.
Proof.
  revert a. induction l as [|x l IH]; intros a Hs b Hb; [inversion Hb|].
  destruct Hs as [Hax Hs]. destruct Hb as [->|Hb]; [exact Hax|].
  specialize (IH x Hs b Hb). unfold lt_seg in *. lia.
Qed.

(* skipping to start_scan does not change labels at positions >= start *)
Lemma label_skip start c l p : start <= p ->
  label_at (skipn (start_scan start c l) l) c p = label_at l c p.
Proof.
  intros Hp. induction l as [|s r IH]; [reflexivity|].
  cbn [start_scan]. destruct ((chrom s =? c) && (start <=? endc s)) eqn:E.
  - reflexivity.
  - cbn [skipn label_at]. rewrite IH.
    destruct ((chrom s =? c) && (p <=? endc s)) eqn:E2; [|reflexivity].
    exfalso. apply andb_true_iff in E2. destruct E2 as [E2a E2b].
    rewrite E2a in E. cbn in E. apply Z.leb_le in E2b. apply Z.leb_gt in E. lia.
Qed.

Lemma skip_sorted n l : sorted l -> sorted (skipn n l).
Proof.
  revert l; induction n as [|n IH]; intros [|a l] H; cbn [skipn]; auto.
  apply IH. eapply sorted_tail; eauto.
Qed.

Lemma skip_head start c l s r :
  skipn (start_scan start c l) l = s :: r -> chrom s = c /\ start <= endc s.
Proof.
  induction l as [|x l IH]; cbn [start_scan]; [discriminate|].
  destruct ((chrom x =? c) && (start <=? endc x)) eqn:E.
  - cbn. intros H; inversion H; subst. apply andb_true_iff in E. destruct E as [A B].
    apply Z.eqb_eq in A. apply Z.leb_le in B. auto.
  - cbn [skipn]. exact IH.
Qed.

Lemma skipped_before start c l s :
  In s (firstn (start_scan start c l) l) -> chrom s = c -> endc s < start.
Proof.
  induction l as [|x l IH]; cbn [start_scan]; [intros []|].
  destruct ((chrom x =? c) && (start <=? endc x)) eqn:E; [intros []|].
  cbn [firstn]. intros [->|H] Hc; [|auto].
  rewrite (proj2 (Z.eqb_eq _ _) Hc) in E. cbn in E. apply Z.leb_gt in E. exact E.
Qed.

Lemma sorted_all_gt a l c : sorted (a :: l) -> c < chrom a -> forall s, In s (a :: l) -> c < chrom s.
Proof.
  intros Hs Hc s [<-|Hin]; [exact Hc|].
  pose proof (sorted_head_lt _ _ Hs s Hin) as H. unfold lt_seg in H. lia.
Qed.

Lemma copy_labels c e m l lst :
  sorted l -> (forall s, In s l -> c <= chrom s) -> on_c_reach c e l ->
  exists cp st, copy_loop c e l lst = (cp, Some st) /\ chrom st = c /\ e <= endc st /\ In st l /\
    (forall s, In s cp -> In s l /\ chrom s = c /\ endc s < e) /\
    (forall p, p <= e -> label_at (cp ++ [mkseg (pop st) c e m]) c p = label_at l c p).
Proof.
  revert lst. induction l as [|s r IH]; intros lst Hs Hge [w [Hw [Hwc Hwe]]]; [inversion Hw|].
  cbn [copy_loop]. destruct ((e <=? endc s) || (c <? chrom s)) eqn:E.
  - assert (Hcs : chrom s = c).
    { destruct (Z.eq_dec (chrom s) c) as [|Hne]; [assumption|exfalso].
      assert (c < chrom s) by (specialize (Hge s (or_introl eq_refl)); lia).
      pose proof (sorted_all_gt _ _ _ Hs H w Hw). lia. }
    assert (Hes : e <= endc s).
    { apply orb_true_iff in E. destruct E as [E|E]; [apply Z.leb_le in E; exact E|apply Z.ltb_lt in E; lia]. }
    exists [], s. split; [reflexivity|]. split; [exact Hcs|]. split; [exact Hes|].
    split; [left; reflexivity|]. split; [intros ? []|].
    intros p Hp. cbn. rewrite Z.eqb_refl, (proj2 (Z.leb_le _ _) Hp). cbn.
    rewrite (proj2 (Z.eqb_eq _ _) Hcs). rewrite (proj2 (Z.leb_le p (endc s))) by lia. reflexivity.
  - apply orb_false_iff in E. destruct E as [E1 E2]. apply Z.leb_gt in E1. apply Z.ltb_ge in E2.
    assert (Hcs : chrom s = c) by (specialize (Hge s (or_introl eq_refl)); lia).
    assert (Hr : on_c_reach c e r).
    { destruct Hw as [<-|Hw]; [lia|]. exists w; auto. }
    destruct (IH (Some s) (sorted_tail _ _ Hs) (fun x Hx => Hge x (or_intror Hx)) Hr)
      as [cp [st [EL [Hst1 [Hst2 [Hst3 [Hcp Hlab]]]]]]].
    rewrite EL. exists (s :: cp), st. split; [reflexivity|]. split; [exact Hst1|]. split; [exact Hst2|].
    split; [right; exact Hst3|]. split.
    + intros x [<-|H]; [split; [left; reflexivity|split; [exact Hcs|exact E1]]|].
      destruct (Hcp x H) as [A [B C]]. split; [right; exact A|split; assumption].
    + intros p Hp. cbn [app label_at]. rewrite (Hlab p Hp). reflexivity.
Qed.

Theorem get_segment_scan_labels prev h parent c start e m :
  nthZ prev h = Some parent ->
  sorted parent -> on_c_reach c e parent -> start <= e ->
  exists out, get_segment_scan 0 h c start e m prev = Ok out /\
    forall p, start <= p <= e -> label_at out c p = label_at parent c p.
Proof.
  intros Hn Hs [w [Hw [Hwc Hwe]]] Hse. unfold get_segment_scan, get_segment_with.
  cbn [Z.eqb negb]. rewrite Hn. rewrite Nat2Z.id.
  set (i := start_scan start c parent). set (rest := skipn i parent).
  assert (Hrs : sorted rest) by (apply skip_sorted; exact Hs).
  assert (Hwr : In w rest).
  { rewrite <- (firstn_skipn i parent) in Hw. apply in_app_or in Hw. destruct Hw as [Hw|Hw]; [|exact Hw].
    pose proof (skipped_before start c parent w Hw Hwc). lia. }
  assert (Hge : forall s, In s rest -> c <= chrom s).
  { destruct rest as [|x t] eqn:ER; [intros ? []|].
    destruct (skip_head start c parent x t ER) as [Hh _].
    intros s [<-|Hin]; [lia|]. pose proof (sorted_head_lt _ _ Hrs s Hin) as H. unfold lt_seg in H. lia. }
  destruct (copy_labels c e m rest None Hrs Hge (ex_intro _ w (conj Hwr (conj Hwc Hwe))))
    as [cp [st [EL [_ [_ [_ [_ Hlab]]]]]]].
  rewrite EL. eexists; split; [reflexivity|].
  intros p [Hp1 Hp2]. rewrite (Hlab p Hp2). unfold rest, i. apply label_skip. exact Hp1.
Qed.
