(* C01 - property theorems only (statements + Print Assumptions). *)
From HV Require Import Prelude Tracts Tiling C01_Model C01_Check C01_Proofs C01_Bsearch C01_Kernel
  C02_Tiling C02_Generations C01_Mosaic C01_MosaicInst.

(* start_segment's binary search = "first tract of the chromosome whose end >= start" *)
Theorem C01_bsearch_eq_scan : forall start c l,
  sorted l -> 0 <= c -> start_segment start c l = Z.of_nat (start_scan start c l).
Proof. exact bsearch_eq_scan. Qed.
Print Assumptions C01_bsearch_eq_scan.

(* Copying an interval [start,e] of chromosome c from a parent: every position keeps the parent's
   label; the result is a strictly increasing run from start-1 to e; every tract but the closing one
   is literally a parental tract and the interior boundaries are exactly the parental boundaries in
   [start,e) - nothing lengthened, shortened, relabelled or dropped. *)
Theorem C01_get_segment_spec : forall prev h parent c start e m,
  nthZ prev h = Some parent -> wf_call parent c start e ->
  exists cp st,
    get_segment 0 h c start e m prev = Ok (cp ++ [mkseg (pop st) c e m]) /\
    In st parent /\ chrom st = c /\ e <= endc st /\
    (forall s, In s cp -> In s parent /\ chrom s = c /\ start <= endc s < e) /\
    sorted cp /\
    (forall p, start <= p <= e -> label_at (cp ++ [mkseg (pop st) c e m]) c p = label_at parent c p) /\
    run_ok c (start - 1) (cp ++ [mkseg (pop st) c e m]) e /\
    map endc cp = filter (fun x => (start <=? x) && (x <? e)) (ends_on c parent).
Proof. exact get_segment_spec. Qed.
Print Assumptions C01_get_segment_spec.

(* the hypotheses are satisfiable, on an interval that spans two parental breakpoints *)
Example C01_wf_call_nonvacuous :
  wf_call [mkseg 1 1 100 7; mkseg 2 1 200 8; mkseg 1 1 MAXC 9] 1 50 250 /\
  get_segment 0 0 1 50 250 5 [[mkseg 1 1 100 7; mkseg 2 1 200 8; mkseg 1 1 MAXC 9]]
    = Ok [mkseg 1 1 100 7; mkseg 2 1 200 8; mkseg 1 1 250 5].
Proof.
  split; [|vm_compute; reflexivity].
  unfold wf_call. split; [cbn; unfold lt_seg, MAXC; cbn; lia|]. split; [|lia].
  exists (mkseg 1 1 MAXC 9). cbn. unfold MAXC. intuition lia.
Qed.
Print Assumptions C01_wf_call_nonvacuous.

Theorem C01_get_segment_founder : forall p h c start e m prev,
  p <> 0 -> get_segment p h c start e m prev = Ok [mkseg p c e m].
Proof. exact get_segment_founder. Qed.
Print Assumptions C01_get_segment_founder.

(* the finite check evaluated on the implementation's output decides the statement for EVERY position *)
Theorem C01_piecewise_check_complete : forall parent out c a b,
  labels_agree parent out c a b = true ->
  forall p, a <= p <= b -> label_at out c p = label_at parent c p.
Proof. exact piecewise_check_complete. Qed.
Print Assumptions C01_piecewise_check_complete.

Theorem C01_holds_kernel_sound : forall k parent,
  holds_kernel k = true -> k_pop k = 0 -> nthZ (k_prev k) (k_h k) = Some parent ->
  sorted parent -> on_c_reach (k_chrom k) (k_end k) parent -> k_start k <= k_end k ->
  exists out, k_obs k = Ok out /\
    (forall p, k_start k <= p <= k_end k -> label_at out (k_chrom k) p = label_at parent (k_chrom k) p) /\
    shape_ok parent out (k_chrom k) (k_start k) (k_end k) (k_cm k) = true.
Proof. exact holds_kernel_sound. Qed.
Print Assumptions C01_holds_kernel_sound.

Theorem C01_holds_kernel_founder : forall k,
  holds_kernel k = true -> k_pop k <> 0 ->
  k_obs k = Ok [mkseg (k_pop k) (k_chrom k) (k_end k) (k_cm k)].
Proof. exact holds_kernel_founder. Qed.
Print Assumptions C01_holds_kernel_founder.

(* the pinned tree (before fix 3386361) violated the label statement *)
Example C01_legacy_get_segment_refuted :
  let parent := [mkseg 1 1 100 7; mkseg 2 1 200 8; mkseg 1 1 MAXC 9] in
  exists out, get_segment_legacy 0 0 1 0 150 5 [parent] = Ok out /\
              label_at out 1 150 <> label_at parent 1 150.
Proof. eexists; split; [vm_compute; reflexivity|vm_compute; congruence]. Qed.
Print Assumptions C01_legacy_get_segment_refuted.

(* Generation level.  For every chromosome list (strictly increasing, non-negative), every event list
   ordered by (chromosome, bp), every draw stream: each child of a generation whose predecessor tiles
   the chromosomes is the mosaic prescribed by its events and homolog draws - at EVERY position of every
   planned interval it carries the label of the planned parental haplotype (admixed) or of its source
   population (founder), and it tiles the chromosomes itself, so the statement propagates to every
   generation (C02_generations_tile). *)
Theorem C01_generation_is_mosaic :
  forall chroms ends,
  length ends = length chroms ->
  (forall i e, nth_error ends i = Some e -> fst e = MAXC) ->
  incr chroms -> (forall c, In c chroms -> 0 <= c) -> chroms <> [] ->
  forall prev ds, gen_tiles chroms prev -> Forall (draws_ok chroms prev) ds ->
  exists g, sim_generation chroms ends prev ds = Ok g /\
            Forall2 (is_mosaic chroms ends prev) ds g.
Proof. exact generation_is_mosaic. Qed.
Print Assumptions C01_generation_is_mosaic.

(* generic form: any segment source with get_segment's contract *)
Theorem C01_sim_sample_mosaic :
  forall gs chroms ends p_pop ha hb prev (lab : bool -> Z -> Z -> option Z),
  length ends = length chroms ->
  (forall i e, nth_error ends i = Some e -> fst e = MAXC) ->
  incr chroms ->
  (forall (h : bool) c a e m, In c chroms -> 0 <= a -> a <= e -> e <= MAXC ->
     exists g, gs p_pop (hap_of ha hb h) c a e m prev = Ok g /\ run_ok c (a - 1) g e /\
               forall p, a <= p <= e -> label_at g c p = lab h c p) ->
  forall h0 hdraws evs,
  chroms <> [] -> (length chroms <= length hdraws)%nat -> evs_ok chroms 0 (-1) evs ->
  exists out, sim_sample gs chroms ends p_pop ha hb prev h0 hdraws evs = Ok out /\ tiles chroms out /\ Forall (good lab out) (plan chroms ends h0 hdraws evs).
Proof. exact sim_sample_mosaic. Qed.
Print Assumptions C01_sim_sample_mosaic.

(* the child-level checker evaluated on the implementation's children decides the mosaic statement
   at every position *)
Theorem C01_holds_child_sound : forall k child,
  holds_child k = true -> c_obs k = Ok child -> c_pop k = 0 ->
  forall c a b (w : bool), In (c, a, b, w) (plan (c_chroms k) (c_ends k) (c_h0 k) (c_hd k) (c_evs k)) ->
  forall p, a <= p <= b -> label_at child c p = label_at (if w then c_pb k else c_pa k) c p.
Proof. exact holds_child_sound. Qed.
Print Assumptions C01_holds_child_sound.

(* The same, from what numpy guarantees about the RAW draws of one _simulate call (C02_Draws: the
   choice of parents, the re-draw loop, the boolean-mask selection and stable sort of recombination
   points are model functions, [decode_gen]): under the contract (indices in range, no admixed draw
   without a previous generation, the mask never selects a first marker or a padding cell) and on a
   map with increasing positions and non-decreasing cM, every child of the generation is the mosaic of
   its two parental haplotypes - which are two different haplotypes of the previous generation. *)
From HV Require Import C02_Coords C02_Draws C01_MosaicDraws.
Theorem C01_generation_mosaic_from_contract :
  forall chroms coords n g prev,
  incr chroms -> (forall c, In c chroms -> 0 <= c) -> chroms <> [] ->
  length coords = length chroms -> Forall map_ok coords ->
  (forall i e, nth_error (ends_of coords) i = Some e -> fst e = MAXC) ->
  gen_tiles chroms prev -> gen_contract chroms coords n (lenZ prev) g ->
  exists ds out, decode_gen chroms coords g = Some ds /\
    sim_generation chroms (ends_of coords) prev ds = Ok out /\
    Forall2 (is_mosaic chroms (ends_of coords) prev) ds out /\
    Forall (fun d => d_pop d = 0 -> d_ha d <> d_hb d) ds.
Proof. exact generation_mosaic_from_contract. Qed.
Print Assumptions C01_generation_mosaic_from_contract.
