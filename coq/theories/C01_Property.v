(* C01 - property theorems only. *)
From HV Require Import Prelude Tracts C01_Model C01_Check C01_Proofs.

Theorem C01_get_segment_scan_labels :
  forall prev h parent c start e m,
  nthZ prev h = Some parent ->
  sorted parent -> on_c_reach c e parent -> start <= e ->
  exists out, get_segment_scan 0 h c start e m prev = Ok out /\
    forall p, start <= p <= e -> label_at out c p = label_at parent c p.
Proof. exact get_segment_scan_labels. Qed.
Print Assumptions C01_get_segment_scan_labels.
