(* C02 - boolean checker for the breakpoint file simgenotype writes. *)
From HV Require Import Prelude Tracts Tiling C01_Model C01_Check C02_Model.
From Coq Require Import QArith.
Open Scope Z_scope.

Record bcase := mkb {
  b_chroms : list Z;
  b_n : Z;                          (* requested number of samples *)
  b_fracs : list (list Q);          (* generation lines of the model: fractions incl. column 0 = admixed *)
  b_final : list (list seg);        (* last generation returned by simulate_gt *)
  b_idx : list Z;                   (* recorded np.random.choice(..., replace=False) *)
  b_obs : res (list bprow);         (* the .bp file as parsed by the harness's own parser *)
  b_reader_ok : bool                (* Breakpoints.read and karyogram.GetHaplotypeBlocks accept the file
                                       and return the same samples/blocks *)
}.

(* consume one run on chromosome c from lo to the sentinel *)
Fixpoint take_run (c lo : Z) (l : list seg) : option (list seg) :=
  match l with
  | [] => None
  | s :: r => if (chrom s =? c) && (lo <? endc s)
              then if endc s =? MAXC then Some r else take_run c (endc s) r
              else None
  end.

Fixpoint tilesb (chs : list Z) (l : list seg) : bool :=
  match chs with
  | [] => match l with [] => true | _ => false end
  | c :: r => match take_run c (-1) l with
              | Some rest => tilesb r rest
              | None => false
              end
  end.

(* centimorgan ends never decrease within a chromosome (cm tokens are order-preserving ranks) *)
Fixpoint cm_monotone (l : list seg) : bool :=
  match l with
  | [] => true
  | a :: r => match r with
              | [] => true
              | b :: _ => negb (chrom a =? chrom b) || (cm a <=? cm b)
              end && cm_monotone r
  end.

(* source populations with a positive contribution in some generation *)
Definition positive_in (fracs : list (list Q)) (i : Z) : bool :=
  existsb (fun line => match nthZ line i with Some f => 0 <? Qnum f | None => false end) fracs.
Definition allowed_label (fracs : list (list Q)) (i : Z) : bool :=
  (0 <? i) && positive_in fracs i.

Fixpoint headers_ok (rows : list bprow) (ind : Z) : bool :=
  match rows with
  | [] => true
  | (smp, strand, _) :: r => (smp =? ind / 2 + 1) && (strand =? ind mod 2 + 1) && headers_ok r (ind + 1)
  end.

Definition holds_bp (k : bcase) : bool :=
  match b_obs k with
  | Err e => e =? E_Unobserved
  | Ok rows =>
      (lenZ rows =? 2 * b_n k) && headers_ok rows 0
      && forallb (fun row : bprow => let '(_, _, h) := row in
                    tilesb (b_chroms k) h && cm_monotone h
                    && forallb (fun s => allowed_label (b_fracs k) (pop s)) h) rows
      && b_reader_ok k
  end.

Definition bprow_eqb (a b : bprow) : bool :=
  let '(s1, t1, h1) := a in let '(s2, t2, h2) := b in (s1 =? s2) && (t1 =? t2) && segs_eqb h1 h2.

Definition model_bp (k : bcase) : res (list bprow) := write_breakpoints (b_final k) (b_idx k).

Definition check_bp (k : bcase) : bool * bool :=
  (res_eqb (list_eqb bprow_eqb) (model_bp k) (b_obs k), holds_bp k).

(* -------- generation relation: every child of every generation tiles ------ *)
(* cm tokens of this relation are equality-only interned values, so only the
   tiling is checked here; cm monotonicity is checked on the written file. *)
Definition gcase := ccase.
Definition holds_gen (k : ccase) : bool :=
  match c_obs k with
  | Err e => e =? E_Unobserved
  | Ok child => tilesb (c_chroms k) child
  end.
Definition model_gen := model_child.
Definition check_gen (k : ccase) : bool * bool :=
  (rsegs_eqb (model_child k) (c_obs k), holds_gen k).
