(* C02 - centimorgan ends never decrease: every tract end is a marker point
   (bp, cM) of its chromosome's map, and the map is monotone. *)
From HV Require Import Prelude Tracts Tiling C01_Model C01_Check C02_Model C02_Check
  C02_Tiling C02_Generations C02_Proofs.

Section Calls.
(* like C02_Proofs.sim_sample_forall, but the contract of [gs] is only needed for the
   (chromosome, end, cM) triples the loop really passes: chromosome ends and events *)
Variable gs : Z -> Z -> Z -> Z -> Z -> Z -> list (list seg) -> res (list seg).
Variables (chroms : list Z) (ends : list (Z * Z)) (p_pop : Z) (ha hb : Z) (prev : list (list seg)).
Variable P : seg -> Prop.
Variable Q : Z -> Z -> Z -> Prop.
Hypothesis GSP : forall h c a e m g, Q c e m -> gs p_pop h c a e m prev = Ok g -> Forall P g.
Hypothesis Q_ends : forall i c ebp ecm, nth_error chroms i = Some c -> nth_error ends i = Some (ebp, ecm) -> Q c ebp ecm.

Lemma emit_forall' k : forall i s s', Forall P (segs s) ->
  emit_chroms gs chroms ends p_pop ha hb prev k i s = Ok s' -> Forall P (segs s').
Proof.
  induction k as [|k IH]; intros i s s' Hs H; cbn [emit_chroms] in H.
  - inversion H; subst; exact Hs.
  - destruct (nth_error chroms i) as [c|] eqn:Ec; [|discriminate].
    destruct (nth_error ends i) as [[ebp ecm]|] eqn:Ee; [|discriminate].
    destruct (gs p_pop (hap_of ha hb (homolog s)) c (start_bp s) ebp ecm prev) as [g|] eqn:Eg; [|discriminate].
    destruct (next_h s) as [[b r]|]; [|discriminate].
    eapply IH; [|exact H]. cbn [segs]. apply Forall_app. split; [exact Hs|].
    exact (GSP _ _ _ _ _ _ (Q_ends _ _ _ _ Ec Ee) Eg).
Qed.

Lemma step_forall' s e s' : Q (ev_chrom e) (ev_bp e) (ev_cm e) -> Forall P (segs s) ->
  step gs chroms ends p_pop ha hb prev s e = Ok s' -> Forall P (segs s').
Proof.
  intros HQ Hs H. unfold step in H.
  match type of H with bind ?X _ = _ => destruct X as [s1|] eqn:E1; [|discriminate] end.
  cbn [bind] in H.
  match type of H with bind ?X _ = _ => destruct X as [g|] eqn:Eg; [|discriminate] end.
  cbn [bind] in H. inversion H; subst s'. cbn [segs].
  apply Forall_app. split; [|exact (GSP _ _ _ _ _ _ HQ Eg)].
  clear H Eg g.
  cbn [segs prev_chrom prev_ind homolog hd start_bp] in E1.
  destruct (negb (ev_chrom e =? prev_chrom s)) eqn:En.
  2:{ injection E1 as <-. exact Hs. }
  match type of E1 with bind ?X _ = _ => destruct X as [s0|] eqn:E0; [|discriminate] end.
  cbn [bind] in E1.
  assert (Hs0 : Forall P (segs s0)).
  { destruct (last_opt (segs s)) as [l|].
    - destruct (nth_error ends (prev_ind s)) as [[ebp ecm]|]; [|discriminate].
      destruct (endc l =? ebp).
      + destruct (nth_error chroms (S (prev_ind s))); [|discriminate]. injection E0 as <-. exact Hs.
      + injection E0 as <-. exact Hs.
    - injection E0 as <-. exact Hs. }
  destruct (index_of (ev_chrom e) chroms) as [ci|]; [|discriminate].
  match type of E1 with bind ?X _ = _ => destruct X as [s2|] eqn:E2; [|discriminate] end.
  cbn [bind] in E1. injection E1 as <-. cbn [segs].
  eapply emit_forall'; [exact Hs0|exact E2].
Qed.

Lemma run_forall' evs : forall s s', Forall (fun e => Q (ev_chrom e) (ev_bp e) (ev_cm e)) evs ->
  Forall P (segs s) -> run gs chroms ends p_pop ha hb prev evs s = Ok s' -> Forall P (segs s').
Proof.
  induction evs as [|e r IH]; intros s s' HQ Hs H; cbn [run] in H.
  - inversion H; subst; exact Hs.
  - inversion HQ as [|? ? HQe HQr]; subst.
    destruct (step gs chroms ends p_pop ha hb prev s e) as [s1|] eqn:E1; [|discriminate].
    cbn [bind] in H. eapply IH; [exact HQr| |exact H]. eapply step_forall'; eauto.
Qed.

Theorem sim_sample_forall' h0 hdraws evs out :
  Forall (fun e => Q (ev_chrom e) (ev_bp e) (ev_cm e)) evs ->
  sim_sample gs chroms ends p_pop ha hb prev h0 hdraws evs = Ok out -> Forall P out.
Proof.
  intros HQ.
  assert (Haux : forall cs, match cs with
                            | [] => Err E_Index
                            | c0 :: _ => bind (run gs chroms ends p_pop ha hb prev evs (mkst [] c0 0 h0 hdraws 0))
                                              (finish gs chroms ends p_pop ha hb prev)
                            end = Ok out -> Forall P out).
  { intros [|c0 cr] H; [discriminate|].
    destruct (run gs chroms ends p_pop ha hb prev evs (mkst [] c0 0 h0 hdraws 0)) as [s|] eqn:Er; [|discriminate].
    cbn [bind] in H. assert (Hs : Forall P (segs s)) by (eapply run_forall'; [exact HQ| |exact Er]; constructor).
    unfold finish in H.
    match type of H with bind ?X _ = _ => destruct X as [s1|] eqn:E1; [|discriminate] end.
    cbn [bind] in H.
    match type of H with bind ?X _ = _ => destruct X as [s2|] eqn:E2; [|discriminate] end.
    cbn [bind] in H. inversion H; subst out.
    eapply emit_forall'; [|exact E2].
    destruct (last_opt (segs s)) as [l|].
    - destruct (nth_error ends (prev_ind s)) as [[ebp ecm]|]; [|discriminate].
      destruct (endc l =? ebp); injection E1 as <-; exact Hs.
    - injection E1 as <-. exact Hs. }
  exact (Haux chroms).
Qed.
End Calls.

(* what get_segment returns: parental tracts and one closing tract (chrom, end, cM as passed) *)
Lemma get_segment_tracts_from p h c a e m prev g :
  get_segment p h c a e m prev = Ok g ->
  Forall (fun s => (chrom s = c /\ endc s = e /\ cm s = m) \/
                   (exists parent, nthZ prev h = Some parent /\ In s parent)) g.
Proof.
  unfold get_segment, get_segment_with. destruct (p =? 0) eqn:Ep; cbn [negb].
  - destruct (nthZ prev h) as [parent|] eqn:En; [|discriminate].
    set (rest := skipn _ parent).
    destruct (copy_loop c e rest None) as [cp [st|]] eqn:EL; [|discriminate].
    intros H. inversion H; subst g. destruct (copy_loop_in _ _ _ _ _ _ EL) as [A _].
    assert (Hrest : forall s, In s rest -> In s parent).
    { intros s Hs. rewrite <- (firstn_skipn (Z.to_nat (start_segment a c parent)) parent).
      apply in_or_app. right. exact Hs. }
    apply Forall_app. split.
    + apply Forall_forall. intros s Hs. right. exists parent. split; [reflexivity|apply Hrest, A, Hs].
    + constructor; [|constructor]. left. cbn. auto.
  - intros H. inversion H; subst g. constructor; [|constructor]. left. cbn. auto.
Qed.

Section Map.
(* the genetic map: marker points (chromosome, bp, cM-rank), monotone per chromosome *)
Variable mk : Z -> Z -> Z -> Prop.
Hypothesis mk_mono : forall c b1 m1 b2 m2, mk c b1 m1 -> mk c b2 m2 -> b1 < b2 -> m1 <= m2.

Definition on_map (s : seg) : Prop := mk (chrom s) (endc s) (cm s).
Definition gen_on_map (g : list (list seg)) : Prop := forall h s, In h g -> In s h -> on_map s.

Variables (chroms : list Z) (ends : list (Z * Z)).
Hypothesis ends_on_map : forall i c ebp ecm,
  nth_error chroms i = Some c -> nth_error ends i = Some (ebp, ecm) -> mk c ebp ecm.

Definition evs_on_map (evs : list event) : Prop :=
  Forall (fun e => mk (ev_chrom e) (ev_bp e) (ev_cm e)) evs.

Theorem child_on_map prev d out : gen_on_map prev -> evs_on_map (d_evs d) ->
  sim_child chroms ends prev d = Ok out -> Forall on_map out.
Proof.
  intros Hprev Hev H. unfold sim_child in H.
  apply (sim_sample_forall' get_segment chroms ends (d_pop d) (d_ha d) (d_hb d) prev on_map mk) in H; auto.
  intros h c a e m g HQ Hg. pose proof (get_segment_tracts_from _ _ _ _ _ _ _ _ Hg) as HF.
  eapply Forall_impl; [|exact HF]. cbn beta. intros s [[A [B C]]|[parent [Hn Hs]]].
  - unfold on_map. rewrite A, B, C. exact HQ.
  - apply (Hprev parent s); [|exact Hs].
    unfold nthZ in Hn. destruct (h <? 0); [discriminate|]. eapply nth_error_In; eauto.
Qed.

Theorem generations_on_map gens : forall prev g, gen_on_map prev ->
  Forall (Forall (fun d => evs_on_map (d_evs d))) gens ->
  sim_generations chroms ends prev gens = Ok g -> gen_on_map g.
Proof.
  induction gens as [|ds r IH]; intros prev g Hprev Hall H; cbn [sim_generations] in H.
  - inversion H; subst. exact Hprev.
  - inversion Hall as [|? ? Hds Hr]; subst.
    destruct (sim_generation chroms ends prev ds) as [g1|] eqn:E1; [|discriminate]. cbn [bind] in H.
    apply (IH g1 g); [|exact Hr|exact H].
    clear IH H Hall Hr. unfold sim_generation in E1. revert g1 E1.
    induction Hds as [|d ds' Hd Hds' IHd]; intros g1 E1; cbn [mapM] in E1.
    + inversion E1; subst. intros ? ? [].
    + destruct (sim_child chroms ends prev d) as [out|] eqn:Eo; [|discriminate]. cbn [bind] in E1.
      destruct (mapM (sim_child chroms ends prev) ds') as [outs|] eqn:Em; [|discriminate]. cbn [bind] in E1.
      inversion E1; subst g1. intros h s [<-|Hh] Hs.
      * pose proof (child_on_map prev d out Hprev Hd Eo) as HF. rewrite Forall_forall in HF. exact (HF s Hs).
      * exact (IHd outs eq_refl h s Hh Hs).
Qed.

(* a sorted haplotype whose tract ends are marker points has non-decreasing cM ends *)
Theorem on_map_cm_monotone l : sorted l -> Forall on_map l -> cm_monotone l = true.
Proof.
  induction l as [|a r IH]; intros Hs Hm; [reflexivity|].
  cbn [cm_monotone]. inversion Hm as [|? ? Ha Hr]; subst.
  rewrite (IH (proj2 Hs) Hr), andb_true_r.
  destruct r as [|b r']; [reflexivity|].
  destruct Hs as [Hab _]. inversion Hr as [|? ? Hb _]; subst.
  destruct (chrom a =? chrom b) eqn:E; [|reflexivity]. cbn [negb orb].
  apply Z.eqb_eq in E. apply Z.leb_le. unfold on_map in Ha, Hb. rewrite <- E in Hb.
  apply (mk_mono _ _ _ _ _ Ha Hb). unfold lt_seg in Hab. lia.
Qed.
End Map.
