(* C02 - "centimorgan ends never decrease", end to end: for a whole run made from RAW numpy draws
   (C02_Draws) on a map whose positions strictly increase and whose cM never decreases, every haplotype of
   the last generation has non-decreasing cM ends within each chromosome.  The abstract marker predicate
   [mk] of C02_Cm is instantiated with the coordinate rows _prepare_coords returns: every recombination
   event selected by a mask carries the (bp, cM) of a marker of its chromosome's row, every chromosome
   end is the row's last marker, and the rows are monotone. *)
From HV Require Import Prelude Tracts Tiling C01_Model C01_Check C02_Model C02_Check C02_Tiling
  C02_Generations C02_Proofs C02_Cm C02_Coords C02_Draws.

Definition mk_of (chroms : list Z) (coords : list (list marker)) (c bp m : Z) : Prop :=
  exists i ms, nth_error chroms i = Some c /\ nth_error coords i = Some ms /\ In (bp, m) ms.

Lemma markers_incr_all : forall ms prev, markers_incr prev ms ->
  forall m, In m ms -> fst prev < fst m /\ snd prev <= snd m.
Proof.
  induction ms as [|x r IH]; intros prev H m Hm; [destruct Hm|].
  destruct H as [H1 [H2 [_ H4]]]. destruct Hm as [<-|Hm]; [split; assumption|].
  destruct (IH x H4 m Hm) as [A B]. split; lia.
Qed.

Lemma markers_pairwise : forall ms prev, markers_incr prev ms ->
  forall a b, In a (prev :: ms) -> In b (prev :: ms) -> fst a < fst b -> snd a <= snd b.
Proof.
  induction ms as [|x r IH]; intros prev H a b Ha Hb Hlt.
  - destruct Ha as [<-|[]]. destruct Hb as [<-|[]]. lia.
  - pose proof (markers_incr_all _ _ H) as Hall. destruct H as [_ [_ [_ H4]]].
    destruct Ha as [<-|Ha]; destruct Hb as [<-|Hb].
    + lia.
    + exact (proj2 (Hall b Hb)).
    + pose proof (proj1 (Hall a Ha)). lia.
    + exact (IH x H4 a b Ha Hb Hlt).
Qed.

Lemma incr_nth_inj l i j c : incr l -> nth_error l i = Some c -> nth_error l j = Some c -> i = j.
Proof.
  intros Hinc Hi Hj. pose proof (index_of_nth l i c Hinc Hi) as A. pose proof (index_of_nth l j c Hinc Hj) as B.
  rewrite A in B. inversion B. reflexivity.
Qed.

Lemma mk_of_mono chroms coords : incr chroms -> Forall map_ok coords ->
  forall c b1 m1 b2 m2, mk_of chroms coords c b1 m1 -> mk_of chroms coords c b2 m2 -> b1 < b2 -> m1 <= m2.
Proof.
  intros Hinc Hok c b1 m1 b2 m2 [i [ms [Hc [Hms H1]]]] [j [ms' [Hc' [Hms' H2]]]] Hlt.
  assert (i = j) by (eapply incr_nth_inj; eauto). subst j. rewrite Hms in Hms'. inversion Hms'; subst ms'.
  rewrite Forall_forall in Hok. pose proof (Hok ms (nth_error_In _ _ Hms)) as Hm.
  destruct ms as [|m0 r]; [destruct H1|]. destruct Hm as [_ [_ Hi]].
  exact (markers_pairwise r m0 Hi (b1, m1) (b2, m2) H1 H2 Hlt).
Qed.

Lemma last_in {A} (l : list A) d : l <> [] -> In (last l d) l.
Proof.
  induction l as [|a r IH]; [congruence|]. intros _. destruct r as [|b r']; [left; reflexivity|].
  right. apply IH. congruence.
Qed.

Lemma ends_of_nth : forall (coords : list (list marker)) i e, nth_error (ends_of coords) i = Some e ->
  exists ms, nth_error coords i = Some ms /\ e = last ms (MAXC, 0).
Proof.
  induction coords as [|ms r IH]; intros [|i] e H; cbn in H; try discriminate.
  - inversion H. exists ms. split; reflexivity.
  - apply IH. exact H.
Qed.

Lemma ends_on_mk chroms coords : Forall (fun ms => ms <> []) coords ->
  forall i c ebp ecm, nth_error chroms i = Some c -> nth_error (ends_of coords) i = Some (ebp, ecm) ->
  mk_of chroms coords c ebp ecm.
Proof.
  intros Hne i c ebp ecm Hc He. destruct (ends_of_nth coords i _ He) as [ms [Hms Hl]].
  exists i, ms. split; [exact Hc|]. split; [exact Hms|].
  rewrite Forall_forall in Hne. rewrite Hl. apply last_in. apply Hne. eapply nth_error_In; eauto.
Qed.

(* the events a mask selects on one row carry (bp, cM) of a marker of that row *)
Lemma row_events_in c : forall ms prev mask l, row_events c prev ms mask = Some l ->
  Forall (fun k : kev => ev_chrom (snd k) = c /\ In (ev_bp (snd k), ev_cm (snd k)) (prev :: ms)) l.
Proof.
  induction ms as [|m mr IH]; intros prev mask l H; cbn [row_events] in H.
  - destruct (existsb (fun b => b) mask); [discriminate|]. inversion H; subst. constructor.
  - destruct mask as [|b br]; [discriminate|].
    destruct (row_events c m mr br) as [l1|] eqn:E1; [|discriminate]. inversion H; subst l. clear H.
    assert (Hl1 : Forall (fun k : kev => ev_chrom (snd k) = c /\ In (ev_bp (snd k), ev_cm (snd k)) (prev :: m :: mr)) l1).
    { eapply Forall_impl; [|exact (IH m br l1 E1)]. cbn beta. intros k [A B]. split; [exact A|right; exact B]. }
    destruct b; [|exact Hl1]. constructor; [|exact Hl1]. cbn [snd ev_chrom ev_bp ev_cm]. split; [reflexivity|].
    left. destruct prev; reflexivity.
Qed.

Lemma all_events_on_map chroms coords : forall cs rows mask i l,
  (forall k c, nth_error cs k = Some c -> nth_error chroms (i + k) = Some c) ->
  (forall k ms, nth_error rows k = Some ms -> nth_error coords (i + k) = Some ms) ->
  all_events cs rows mask = Some l ->
  Forall (fun k : kev => mk_of chroms coords (ev_chrom (snd k)) (ev_bp (snd k)) (ev_cm (snd k))) l.
Proof.
  induction cs as [|c cr IH]; intros rows mask i l Hc Hr H.
  - destruct rows; [|discriminate]. destruct mask; [|discriminate]. inversion H; subst. constructor.
  - destruct rows as [|ms mr]; [discriminate|]. destruct mask as [|row rr]; [discriminate|].
    cbn [all_events] in H.
    destruct (chrom_events c ms row) as [a|] eqn:Ea; [|discriminate].
    destruct (all_events cr mr rr) as [b|] eqn:Eb; [|discriminate]. inversion H; subst l. clear H.
    apply Forall_app. split.
    + assert (Hci : nth_error chroms i = Some c).
      { specialize (Hc 0%nat c eq_refl). rewrite Nat.add_0_r in Hc. exact Hc. }
      assert (Hmi : nth_error coords i = Some ms).
      { specialize (Hr 0%nat ms eq_refl). rewrite Nat.add_0_r in Hr. exact Hr. }
      unfold chrom_events in Ea. destruct ms as [|m0 ms'].
      * destruct (existsb (fun b => b) row); [discriminate|]. inversion Ea; subst. constructor.
      * destruct row as [|b0 br]; [discriminate|]. destruct b0; [discriminate|].
        eapply Forall_impl; [|exact (row_events_in c ms' m0 br a Ea)]. cbn beta. intros k [A B].
        exists i, (m0 :: ms'). rewrite A. split; [exact Hci|]. split; [exact Hmi|exact B].
    + apply (IH mr rr (S i) b); [| |exact Eb].
      * intros k c' Hk. replace (S i + k)%nat with (i + S k)%nat by lia. apply Hc. exact Hk.
      * intros k ms' Hk. replace (S i + k)%nat with (i + S k)%nat by lia. apply Hr. exact Hk.
Qed.

Lemma decode_events_on_map chroms coords mask evs :
  incr chroms -> Forall map_ok coords -> decode_events chroms coords mask = Some evs ->
  evs_on_map (mk_of chroms coords) evs.
Proof.
  intros Hinc Hok H. destruct (decode_events_ok chroms coords mask evs Hinc Hok H) as [_ [l [El ->]]].
  unfold evs_on_map. rewrite Forall_map.
  apply (all_events_on_map chroms coords chroms coords mask 0 l); [intros k c Hk; exact Hk|intros k ms Hk; exact Hk|exact El].
Qed.

Lemma decode_kids_on_map chroms coords : incr chroms -> Forall map_ok coords ->
  forall pp pars kids ds, decode_kids chroms coords pp pars kids = Some ds ->
  Forall (fun d => evs_on_map (mk_of chroms coords) (d_evs d)) ds.
Proof.
  intros Hinc Hok. induction pp as [|p pr IH]; intros pars kids ds H.
  - destruct pars; [|discriminate]. destruct kids; [|discriminate]. inversion H; subst. constructor.
  - destruct pars as [|[a b] ar]; [discriminate|]. destruct kids as [|[[h0 hd] mask] kr]; [discriminate|].
    cbn [decode_kids] in H.
    destruct (decode_events chroms coords mask) as [evs|] eqn:Ee; [|discriminate].
    destruct (decode_kids chroms coords pr ar kr) as [ds1|] eqn:Ed; [|discriminate]. inversion H; subst ds.
    constructor; [cbn [d_evs]; exact (decode_events_on_map chroms coords mask evs Hinc Hok Ee)|exact (IH ar kr ds1 Ed)].
Qed.

Lemma decode_all_on_map chroms coords : incr chroms -> Forall map_ok coords ->
  forall raws gens, decode_all chroms coords raws = Some gens ->
  Forall (Forall (fun d => evs_on_map (mk_of chroms coords) (d_evs d))) gens.
Proof.
  intros Hinc Hok. induction raws as [|g r IH]; intros gens H; cbn [decode_all] in H.
  - inversion H; subst. constructor.
  - destruct (decode_gen chroms coords g) as [ds|] eqn:Eg; [|discriminate].
    destruct (decode_all chroms coords r) as [gs|] eqn:Er; [|discriminate]. inversion H; subst gens.
    constructor; [|exact (IH gs eq_refl)].
    unfold decode_gen in Eg. destruct (parents (gr_pp g) (gr_haps g) (gr_redraw g)) as [[pars [|x s]]|]; try discriminate.
    exact (decode_kids_on_map chroms coords Hinc Hok _ _ _ _ Eg).
Qed.

(* the whole run, from the raw draws: it completes, every haplotype of the last generation tiles the
   requested chromosomes and its centimorgan ends never decrease within a chromosome *)
Theorem run_cm_monotone_from_contracts maps chroms region cs n raws :
  prepare_coords maps chroms region = Ok cs ->
  (region = None \/ length chroms = 1%nat) ->
  incr chroms -> (forall c, In c chroms -> 0 <= c) ->
  Forall map_ok cs ->
  contracts chroms cs n 0 raws ->
  exists gens g, decode_all chroms cs raws = Some gens /\
    sim_generations chroms (ends_of cs) [] gens = Ok g /\
    forall h, In h g -> tiles chroms h /\ cm_monotone h = true.
Proof.
  intros Hpc Hreg Hinc Hpos Hmaps Hc.
  destruct (run_tiles_from_contracts maps chroms region cs n raws Hpc Hreg Hinc Hpos Hmaps Hc) as [gens [g [E [Hs Ht]]]].
  exists gens, g. split; [exact E|]. split; [exact Hs|]. intros h Hh. split; [exact (Ht h Hh)|].
  assert (Hne : Forall (fun ms : list marker => ms <> []) cs).
  { destruct (prepare_coords_spec _ _ _ _ Hpc) as [_ [F _]]. eapply Forall_impl; [|exact F]. cbn beta.
    intros ms [f [pre [x [post [_ [_ [_ [Hx ->]]]]]]]]. apply seal_nonempty. exact Hx. }
  pose proof (generations_on_map (mk_of chroms cs) chroms (ends_of cs) (ends_on_mk chroms cs Hne) gens [] g
                (fun h s (F : In h []) => match F with end) (decode_all_on_map chroms cs Hinc Hmaps raws gens E) Hs) as Hon.
  apply (on_map_cm_monotone (mk_of chroms cs) (mk_of_mono chroms cs Hinc Hmaps)).
  - exact (tiles_sorted chroms Hinc h (Ht h Hh)).
  - apply Forall_forall. intros s Hsn. exact (Hon h s Hh Hsn).
Qed.

(* ---- labels, from the raw draws: the founder draws are the values np.random.choice returned ------------ *)

Lemma decode_kids_pops chroms coords : forall pp pars kids ds,
  decode_kids chroms coords pp pars kids = Some ds -> map d_pop ds = pp.
Proof.
  induction pp as [|p pr IH]; intros pars kids ds H.
  - destruct pars; [|discriminate]. destruct kids; [|discriminate]. inversion H; subst. reflexivity.
  - destruct pars as [|[a b] ar]; [discriminate|]. destruct kids as [|[[h0 hd] mask] kr]; [discriminate|].
    cbn [decode_kids] in H.
    destruct (decode_events chroms coords mask) as [evs|]; [|discriminate].
    destruct (decode_kids chroms coords pr ar kr) as [ds1|] eqn:Ed; [|discriminate]. inversion H; subst ds.
    cbn [map d_pop]. rewrite (IH ar kr ds1 Ed). reflexivity.
Qed.

(* if every value np.random.choice(..., p=fractions) returned is 0 (admixed) or an allowed population -
   numpy returns only indices of positive probability - the last generation carries allowed labels only *)
Theorem run_labels_from_raw (allowed : Z -> Prop) chroms coords ends : forall raws gens g,
  decode_all chroms coords raws = Some gens ->
  Forall (fun r => Forall (fun p => p <> 0 -> allowed p) (gr_pp r)) raws ->
  sim_generations chroms ends [] gens = Ok g -> labels_in allowed g.
Proof.
  intros raws gens g Hd Hall Hs.
  apply (generations_labels allowed chroms ends gens [] g); [intros ? ? []| |exact Hs].
  clear Hs g. revert gens Hd. induction Hall as [|r rs Hr _ IH]; intros gens Hd; cbn [decode_all] in Hd.
  - inversion Hd; subst. constructor.
  - destruct (decode_gen chroms coords r) as [ds|] eqn:Eg; [|discriminate].
    destruct (decode_all chroms coords rs) as [gs|] eqn:Er; [|discriminate]. inversion Hd; subst gens.
    constructor; [|exact (IH gs eq_refl)].
    unfold decode_gen in Eg. destruct (parents (gr_pp r) (gr_haps r) (gr_redraw r)) as [[pars [|x s]]|]; try discriminate.
    pose proof (decode_kids_pops chroms coords _ _ _ _ Eg) as Hp. rewrite <- Hp in Hr.
    rewrite Forall_map in Hr. exact Hr.
Qed.
