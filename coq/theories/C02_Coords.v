(* C02 - model of sim_genotype._prepare_coords and of one whole run
   (simulate_gt + write_breakpoints), and of a SEQUENCE of runs made one after
   the other in one interpreter on the same map directory.

   Why this file exists.  The tiling theorems of C02_Tiling / C02_Generations
   take "every chromosome's end coordinate is the int32-max sentinel" as a
   hypothesis about [ends]; that hypothesis is established by _prepare_coords
   (it overwrites the bp position of the last marker of every chromosome - of
   the region's slice when --region is given).  Here _prepare_coords is a model
   function, the hypothesis is a theorem about it ([prepare_coords_ends]) and the
   tiling theorem is restated for the whole run with no hypothesis on [ends]
   ([run_tiles]).

   The property is about EVERY run: a run's breakpoints are a function of that
   run's inputs (map files, model, chromosomes, region, population size) and of
   the random draws of that run only - never of what the interpreter ran before
   (C10's "whatever ran earlier in the same process").  On the model side this
   is immediate - [model_run] takes exactly those inputs - and [run_seq], the
   model of a history of runs, is the pointwise map; [run_seq_nth] says so
   explicitly.  The seq relation of harness/c02.py evaluates [model_run] against
   every run of generated histories.  No proofs of properties other than those
   of the functions defined here. *)
From HV Require Import Prelude Tracts Tiling C01_Model C01_Kernel C02_Model C02_Tiling C02_Generations.

Definition marker : Type := (Z * Z)%type.             (* bp position, cM token *)
Definition mapfile : Type := (Z * list marker)%type.  (* chromosome of the file name (X = 23), its lines *)

Definition E_Exception : Z := 9.
Definition E_UnboundLocal : Z := 6.

(* index of the first marker whose bp position is >= x *)
Fixpoint first_ge_idx (x : Z) (l : list marker) : option nat :=
  match l with
  | [] => None
  | m :: r => if x <=? fst m then Some O else option_map S (first_ge_idx x r)
  end.

(* the loop of _prepare_coords over coords[0]: end_ind = index of the first marker >= end, plus one
   (the loop breaks there), else the length; start_ind = first marker >= start met before the
   break, else -1, and coords[0][-1:end_ind] starts at the last marker *)
Definition region_slice (s e : Z) (l : list marker) : res (list marker) :=
  match l with
  | [] => Err E_UnboundLocal      (* end_ind is never bound *)
  | _ =>
    let hi := match first_ge_idx e l with Some i => S i | None => length l end in
    let lo := match first_ge_idx s (firstn hi l) with Some i => i | None => (length l - 1)%nat end in
    Ok (firstn (hi - lo) (skipn lo l))
  end.

(* chrom_coord[-1].bp_map_pos = np.iinfo(np.int32).max *)
Fixpoint seal (l : list marker) : list marker :=
  match l with
  | [] => []
  | m :: r => match r with [] => [(MAXC, snd m)] | _ => m :: seal r end
  end.

Definition seal_res (l : list marker) : res (list marker) :=
  match l with [] => Err E_Index | _ => Ok (seal l) end.

Definition wanted (chroms : list Z) (f : mapfile) : bool := existsb (Z.eqb (fst f)) chroms.

(* maps: the *.map files of the directory, one per chromosome, sorted by chromosome number
   (the code sorts the file names by that number) *)
Definition prepare_coords (maps : list mapfile) (chroms : list Z) (region : option (Z * Z))
  : res (list (list marker)) :=
  let files := filter (wanted chroms) maps in
  if negb ((length files =? length chroms)%nat
           && forallb (fun c => existsb (fun f : mapfile => fst f =? c) files) chroms)
  then Err E_Exception          (* "Unable to find all chromosomes ..." *)
  else
  bind (match region with
        | None => Ok (map snd files)
        | Some (s, e) =>
            match files with
            | [] => Err E_Index
            | f :: _ => bind (region_slice s e (snd f)) (fun x => Ok [x])
            end
        end) (fun cs =>
  bind (mapM seal_res cs) (fun cs' =>
  match cs' with
  | [] => Err E_Value            (* max([]) *)
  | _ => Ok cs'
  end)).

(* end_coords = [chrom_coord[-1] for chrom_coord in coords] *)
Definition ends_of (cs : list (list marker)) : list (Z * Z) := map (fun ms => last ms (MAXC, 0)) cs.

(* ---- one run, a history of runs -------------------------------------------- *)

Record run_in := mkrun {
  r_chroms : list Z;                    (* requested chromosomes *)
  r_region : option (Z * Z);            (* --region start, end (on r_chroms' only chromosome) *)
  r_gens : list (list child_draws);     (* the draws of every child of every generation *)
  r_idx : list Z                        (* write_breakpoints' np.random.choice(replace=False) *)
}.

Definition model_run (maps : list mapfile) (r : run_in) : res (list (list marker) * list bprow) :=
  bind (prepare_coords maps (r_chroms r) (r_region r)) (fun cs =>
  bind (sim_generations (r_chroms r) (ends_of cs) [] (r_gens r)) (fun g =>
  bind (write_breakpoints g (r_idx r)) (fun rows => Ok (cs, rows)))).

(* runs made one after the other in one process on one map directory *)
Definition run_seq (maps : list mapfile) (rs : list run_in) := map (model_run maps) rs.

(* ---- proofs ------------------------------------------------------------------ *)

Lemma seal_nonempty l : l <> [] -> seal l <> [].
Proof. destruct l as [|m [|m' r]]; cbn; congruence. Qed.

Lemma seal_length l : length (seal l) = length l.
Proof.
  induction l as [|m r IH]; [reflexivity|]. cbn [seal]. destruct r as [|m' r']; [reflexivity|].
  cbn [length] in *. rewrite IH. reflexivity.
Qed.

Lemma seal_last l d : l <> [] -> fst (last (seal l) d) = MAXC.
Proof.
  induction l as [|m r IH]; [congruence|]. intros _. cbn [seal].
  destruct r as [|m' r']; [reflexivity|].
  assert (Hne : m' :: r' <> []) by congruence.
  specialize (IH Hne). pose proof (seal_nonempty _ Hne) as Hs.
  destruct (seal (m' :: r')) as [|y ys] eqn:E; [congruence|]. cbn [last]. cbn [last] in IH. exact IH.
Qed.

(* the cM token of the last marker and every marker before the last are kept *)
Lemma seal_spec l : l <> [] ->
  exists pre m, l = pre ++ [m] /\ seal l = pre ++ [(MAXC, snd m)].
Proof.
  induction l as [|m r IH]; [congruence|]. intros _. destruct r as [|m' r'].
  - exists [], m. split; reflexivity.
  - destruct IH as [pre [x [E1 E2]]]; [congruence|]. exists (m :: pre), x. split.
    + cbn [app]. rewrite <- E1. reflexivity.
    + change (seal (m :: m' :: r')) with (m :: seal (m' :: r')). rewrite E2. reflexivity.
Qed.

Lemma mapM_seal cs : forall cs', mapM seal_res cs = Ok cs' ->
  Forall (fun ms => ms <> []) cs /\ cs' = map seal cs.
Proof.
  induction cs as [|x r IH]; intros cs' H; cbn [mapM] in H.
  - inversion H; subst. split; [constructor|reflexivity].
  - destruct x as [|m x']; [discriminate|]. cbn [seal_res bind] in H.
    destruct (mapM seal_res r) as [t|k] eqn:E; cbn [bind] in H; [|discriminate].
    inversion H; subst. destruct (IH t eq_refl) as [F Em]. split.
    + constructor; [congruence|exact F].
    + cbn [map]. rewrite Em. reflexivity.
Qed.

(* what _prepare_coords returns: for every chromosome a non-empty marker list that is a sealed
   contiguous piece of a requested map file (the whole file when there is no region) *)
Definition piece_of (maps : list mapfile) (chroms : list Z) (ms : list marker) : Prop :=
  exists f pre x post, In f maps /\ In (fst f) chroms /\ snd f = pre ++ x ++ post /\ x <> [] /\ ms = seal x.

Lemma wanted_In chroms f : wanted chroms f = true -> In (fst f) chroms.
Proof.
  unfold wanted. intros H. apply existsb_exists in H. destruct H as [c [Hc E]].
  apply Z.eqb_eq in E. subst. exact Hc.
Qed.

Lemma prepare_coords_spec maps chroms rg cs :
  prepare_coords maps chroms rg = Ok cs ->
  cs <> [] /\ Forall (piece_of maps chroms) cs /\
  (rg = None -> length cs = length chroms) /\
  (rg <> None -> length cs = 1%nat) /\
  (rg = None -> cs = map (fun f : mapfile => seal (snd f)) (filter (wanted chroms) maps)).
Proof.
  unfold prepare_coords. set (files := filter (wanted chroms) maps).
  destruct ((length files =? length chroms)%nat && _) eqn:Ec; cbn [negb]; [|discriminate].
  apply andb_true_iff in Ec. destruct Ec as [El _]. apply Nat.eqb_eq in El.
  intros H.
  destruct (match rg with None => Ok (map snd files) | Some (s, e) => _ end) as [cs0|k] eqn:E0;
    cbn [bind] in H; [|discriminate].
  destruct (mapM seal_res cs0) as [cs1|k] eqn:E1; cbn [bind] in H; [|discriminate].
  destruct (mapM_seal _ _ E1) as [Fne Em].
  destruct cs1 as [|c1 cr]; [discriminate|]. inversion H; subst cs. clear H.
  split; [congruence|].
  assert (Hfiles : forall f, In f files -> In f maps /\ In (fst f) chroms).
  { intros f Hf. unfold files in Hf. apply filter_In in Hf. destruct Hf as [A B].
    split; [exact A|apply wanted_In; exact B]. }
  destruct rg as [[s e]|].
  - (* region *)
    destruct files as [|f fr] eqn:Ef; [discriminate|].
    destruct (region_slice s e (snd f)) as [x|k] eqn:Es; cbn [bind] in E0; [|discriminate].
    inversion E0; subst cs0. cbn [map] in Em. rewrite Em.
    split; [|split; [discriminate|split; [reflexivity|discriminate]]].
    constructor; [|constructor].
    inversion Fne as [|? ? Hx _]; subst.
    unfold region_slice in Es. destruct (snd f) as [|m0 l0] eqn:El0; [discriminate|].
    set (l := m0 :: l0) in *.
    set (hi := match first_ge_idx e l with Some i => S i | None => length l end) in *.
    set (lo := match first_ge_idx s (firstn hi l) with Some i => i | None => (length l - 1)%nat end) in *.
    inversion Es; subst x.
    destruct (Hfiles f (or_introl eq_refl)) as [A B].
    exists f, (firstn lo l), (firstn (hi - lo) (skipn lo l)), (skipn (hi - lo) (skipn lo l)).
    split; [exact A|]. split; [exact B|]. split; [|split; [exact Hx|reflexivity]].
    rewrite El0. fold l. rewrite firstn_skipn. rewrite firstn_skipn. reflexivity.
  - (* whole chromosomes *)
    inversion E0; subst cs0. rewrite Em. split; [|split; [|split; [congruence|]]].
    + rewrite Forall_forall. intros ms Hms. rewrite map_map in Hms. apply in_map_iff in Hms.
      destruct Hms as [f [Ems Hf]]. destruct (Hfiles f Hf) as [A B].
      exists f, [], (snd f), []. split; [exact A|]. split; [exact B|].
      split; [rewrite app_nil_r; reflexivity|]. split; [|symmetry; exact Ems].
      rewrite Forall_forall in Fne. apply Fne. apply in_map. exact Hf.
    + intros _. rewrite !map_length. exact El.
    + intros _. rewrite map_map. reflexivity.
Qed.

(* every chromosome handed to _simulate ends at the sentinel - for every chromosome, whatever its
   position in the list: the hypothesis [ends_max] of the tiling theorems *)
Theorem prepare_coords_ends maps chroms rg cs :
  prepare_coords maps chroms rg = Ok cs ->
  forall i e, nth_error (ends_of cs) i = Some e -> fst e = MAXC.
Proof.
  intros H i e Hn. destruct (prepare_coords_spec _ _ _ _ H) as [_ [F _]].
  unfold ends_of in Hn. apply nth_error_In in Hn. apply in_map_iff in Hn. destruct Hn as [ms [E Hms]].
  rewrite Forall_forall in F. destruct (F ms Hms) as [f [pre [x [post [_ [_ [_ [Hx Es]]]]]]]].
  subst e ms. apply seal_last. exact Hx.
Qed.

Theorem prepare_coords_length maps chroms rg cs :
  prepare_coords maps chroms rg = Ok cs -> (rg = None \/ length chroms = 1%nat) ->
  length (ends_of cs) = length chroms.
Proof.
  intros H Hc. destruct (prepare_coords_spec _ _ _ _ H) as [_ [_ [L0 [L1 _]]]].
  unfold ends_of. rewrite map_length. destruct rg as [g|].
  - destruct Hc as [Hc|Hc]; [discriminate|]. rewrite Hc. apply L1. discriminate.
  - apply L0. reflexivity.
Qed.

(* the whole run: with the draws numpy may return, the simulation completes and every haplotype
   of the last generation tiles the requested chromosomes - no hypothesis on the end coordinates *)
Theorem run_tiles maps r cs :
  prepare_coords maps (r_chroms r) (r_region r) = Ok cs ->
  (r_region r = None \/ length (r_chroms r) = 1%nat) ->
  incr (r_chroms r) -> (forall c, In c (r_chroms r) -> 0 <= c) ->
  gens_ok (r_chroms r) 0 (r_gens r) ->
  exists g, sim_generations (r_chroms r) (ends_of cs) [] (r_gens r) = Ok g /\ gen_tiles (r_chroms r) g.
Proof.
  intros H Hc Hi Hp Hg.
  apply simulation_tiles; try assumption.
  - eapply prepare_coords_length; eauto.
  - eapply prepare_coords_ends; eauto.
  - destruct (prepare_coords_spec _ _ _ _ H) as [Hne [_ [L0 [L1 _]]]].
    intros E. destruct Hc as [Hc|Hc].
    + specialize (L0 Hc). rewrite E in L0. destruct cs; [congruence|discriminate].
    + rewrite E in Hc. discriminate.
Qed.

(* a run's model takes the inputs and draws of that run only: in a history of runs made in one
   process, every run is what it would be alone, whatever ran before or after it *)
Theorem run_seq_nth maps pre r post :
  nth_error (run_seq maps (pre ++ r :: post)) (length pre) = Some (model_run maps r).
Proof.
  unfold run_seq. rewrite map_app. cbn [map].
  rewrite nth_error_app2; rewrite map_length; [|lia]. rewrite Nat.sub_diag. reflexivity.
Qed.

Theorem run_seq_alone maps r : run_seq maps [r] = [model_run maps r].
Proof. reflexivity. Qed.

Theorem run_seq_app maps a b : run_seq maps (a ++ b) = run_seq maps a ++ run_seq maps b.
Proof. apply map_app. Qed.
