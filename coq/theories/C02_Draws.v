(* C02 / C01 - the numpy statements of _simulate BEFORE the per-child loop, as a model, and what
   numpy's contracts about the raw draws imply for the draws the loop model consumes.

       parent_pop = np.random.choice(np.arange(len(pops)), size=samples, p=pop_fracs)
       haplotypes = np.random.randint(samples, size=2*samples)
       for i, pop in enumerate(parent_pop):
           if not pop:
               while haplotypes[2*i] == haplotypes[2*i+1]:
                   haplotypes[2*i+1] = np.random.randint(samples)
       for sample in range(samples):
           homolog = np.random.randint(2)
           prob_vals = np.random.rand(rows, columns of recomb_probs)
           recomb_events = prob_vals < recomb_probs
           true_coords = sorted(coords[recomb_events], key=lambda x: (x.get_chrom(), x.get_map_pos()))

   [decode_gen] turns the RAW draws of one _simulate call (the choice, the randint array, the
   re-draws of the while loop in order, per child the homolog draws and the boolean mask
   rand < recomb_probs) into the [child_draws] of C02_Generations: the re-draw loop, the boolean-mask
   selection in row-major order, Python's stable sort by (chromosome, cM).  The harness records the raw
   draws and the relation `draws` compares [decode_gen] with its own decoding on every generation.

   Theorems: what numpy guarantees about the raw draws ([gen_contract]: indices in range, admixed
   draws only when there is a previous generation, the mask never selects a chromosome's first marker -
   its probability is 1-exp(0) = 0 - nor a padding cell - probability -1) and what is assumed of the
   map (positions strictly increasing up to the sentinel, cM never decreasing) imply the hypothesis
   [gens_ok] of the tiling theorems, so that those hold under the numpy contracts alone
   ([contracts_gens_ok], [run_tiles_from_contracts]); the two parents of an admixed child are distinct
   after the re-draw loop ([decode_gen_spec]); the sort is the identity on such maps
   ([sort_sorted_id]). *)
From HV Require Import Prelude Tracts Tiling C01_Model C02_Model C02_Tiling C02_Generations C02_Coords.

(* ---- the re-draw loop ------------------------------------------------------------------ *)

(* while a == b: b = next draw.  None: the recorded stream ended while the loop still ran *)
Fixpoint redraw (a b : Z) (s : list Z) {struct s} : option (Z * list Z) :=
  if a =? b then match s with [] => None | x :: r => redraw a x r end else Some (b, s).

(* the parents of every child: the pairs of the randint array, the second re-drawn for admixed
   children (parent_pop = 0) *)
Fixpoint parents (pp haps s : list Z) {struct pp} : option (list (Z * Z) * list Z) :=
  match pp with
  | [] => match haps with [] => Some ([], s) | _ => None end
  | p :: pr =>
      match haps with
      | a :: b :: hr =>
          if p =? 0 then
            match redraw a b s with
            | None => None
            | Some (b', s') =>
                match parents pr hr s' with Some (l, s2) => Some ((a, b') :: l, s2) | None => None end
            end
          else match parents pr hr s with Some (l, s2) => Some ((a, b) :: l, s2) | None => None end
      | _ => None
      end
  end.

(* ---- mask selection and sort ------------------------------------------------------------ *)

(* an event with its sort key: (chromosome, cM of the marker at which it was drawn) *)
Definition kev : Type := (Z * Z * event)%type.

(* the markers of one chromosome after the first, [prev] the marker before; a selected marker m
   gives the event (chromosome, bp and cM of the marker BEFORE m); mask cells beyond the markers are
   the padding of the array (selecting one makes the code fail: None) *)
Fixpoint row_events (c : Z) (prev : marker) (ms : list marker) (mask : list bool) : option (list kev) :=
  match ms with
  | [] => if existsb (fun b => b) mask then None else Some []
  | m :: mr =>
      match mask with
      | [] => None
      | b :: br =>
          match row_events c m mr br with
          | None => None
          | Some l => Some (if b then (c, snd m, mkev c (fst prev) (snd prev)) :: l else l)
          end
      end
  end.

(* the first marker of a chromosome has no previous marker: selecting it fails (AttributeError) *)
Definition chrom_events (c : Z) (ms : list marker) (mask : list bool) : option (list kev) :=
  match ms with
  | [] => if existsb (fun b => b) mask then None else Some []
  | m0 :: mr =>
      match mask with
      | [] => None
      | b0 :: br => if b0 then None else row_events c m0 mr br
      end
  end.

(* coords[recomb_events]: row-major, one row per chromosome *)
Fixpoint all_events (chroms : list Z) (coords : list (list marker)) (mask : list (list bool)) : option (list kev) :=
  match chroms, coords, mask with
  | [], [], [] => Some []
  | c :: cr, ms :: mr, row :: rr =>
      match chrom_events c ms row, all_events cr mr rr with
      | Some a, Some b => Some (a ++ b)
      | _, _ => None
      end
  | _, _, _ => None
  end.

Definition kle (a b : kev) : bool :=
  let '(c1, m1, _) := a in let '(c2, m2, _) := b in (c1 <? c2) || ((c1 =? c2) && (m1 <=? m2)).

Fixpoint insert (x : kev) (l : list kev) : list kev :=
  match l with
  | [] => [x]
  | y :: r => if kle x y then x :: l else y :: insert x r
  end.

(* Python's sorted(): stable *)
Definition sort_kev (l : list kev) : list kev := fold_right insert [] l.

Fixpoint sorted_kev (l : list kev) : Prop :=
  match l with
  | [] => True
  | a :: r => match r with [] => True | b :: _ => kle a b = true end /\ sorted_kev r
  end.

Definition decode_events chroms coords mask : option (list event) :=
  option_map (fun l => map (fun k : kev => snd k) (sort_kev l)) (all_events chroms coords mask).

(* ---- one _simulate call ------------------------------------------------------------------ *)

Definition kid_raw : Type := (bool * list bool * list (list bool))%type.   (* homolog, later homolog draws, mask *)

Record gen_raw := mkgr {
  gr_pp : list Z;            (* np.random.choice(np.arange(K), size=samples, p=pop_fracs) *)
  gr_haps : list Z;          (* np.random.randint(samples, size=2*samples), as drawn *)
  gr_redraw : list Z;        (* the np.random.randint(samples) draws of the while loops, in order *)
  gr_kids : list kid_raw
}.

Fixpoint decode_kids chroms coords (pp : list Z) (pars : list (Z * Z)) (kids : list kid_raw) : option (list child_draws) :=
  match pp, pars, kids with
  | [], [], [] => Some []
  | p :: pr, (a, b) :: ar, (h0, hd, mask) :: kr =>
      match decode_events chroms coords mask, decode_kids chroms coords pr ar kr with
      | Some evs, Some ds => Some (mkcd p a b h0 hd evs :: ds)
      | _, _ => None
      end
  | _, _, _ => None
  end.

Definition decode_gen chroms coords (g : gen_raw) : option (list child_draws) :=
  match parents (gr_pp g) (gr_haps g) (gr_redraw g) with
  | Some (pars, []) => decode_kids chroms coords (gr_pp g) pars (gr_kids g)
  | _ => None
  end.

Fixpoint decode_all chroms coords (raws : list gen_raw) : option (list (list child_draws)) :=
  match raws with
  | [] => Some []
  | g :: r =>
      match decode_gen chroms coords g, decode_all chroms coords r with
      | Some ds, Some gs => Some (ds :: gs)
      | _, _ => None
      end
  end.

(* ---- the re-draw loop: distinct, in range ---------------------------------------------------- *)

Lemma redraw_spec a : forall s b b' s', redraw a b s = Some (b', s') ->
  a <> b' /\ (b' = b \/ In b' s) /\ exists used, s = used ++ s'.
Proof.
  induction s as [|x r IH]; intros b b' s' H; cbn [redraw] in H.
  - destruct (a =? b) eqn:E; [discriminate|]. apply Z.eqb_neq in E. inversion H; subst.
    split; [exact E|]. split; [left; reflexivity|exists []; reflexivity].
  - destruct (a =? b) eqn:E.
    + destruct (IH x b' s' H) as [A [B [u C]]]. split; [exact A|]. split.
      * right. destruct B as [->|B]; [left; reflexivity|right; exact B].
      * exists (x :: u). rewrite C. reflexivity.
    + apply Z.eqb_neq in E. inversion H; subst. split; [exact E|]. split; [left; reflexivity|exists []; reflexivity].
Qed.

Definition in_range (n : Z) (x : Z) : Prop := 0 <= x < n.

Lemma parents_spec n : forall pp haps s l s',
  parents pp haps s = Some (l, s') -> Forall (in_range n) haps -> Forall (in_range n) s ->
  Forall2 (fun p (ab : Z * Z) => in_range n (fst ab) /\ in_range n (snd ab) /\ (p = 0 -> fst ab <> snd ab)) pp l
  /\ Forall (in_range n) s'.
Proof.
  induction pp as [|p pr IH]; intros haps s l s' H Hh Hs; cbn [parents] in H.
  - destruct haps; [|discriminate]. inversion H; subst. split; [constructor|exact Hs].
  - destruct haps as [|a [|b hr]]; try discriminate.
    inversion Hh as [|? ? Ha Hh']; subst. inversion Hh' as [|? ? Hb Hhr]; subst.
    destruct (p =? 0) eqn:Ep.
    + destruct (redraw a b s) as [[b' s1]|] eqn:Er; [|discriminate].
      destruct (parents pr hr s1) as [[l1 s2]|] eqn:Epar; [|discriminate]. inversion H; subst. clear H.
      destruct (redraw_spec a s b b' s1 Er) as [Hne [Hin [u Hu]]].
      assert (Hs1 : Forall (in_range n) s1).
      { rewrite Hu in Hs. apply Forall_app in Hs. exact (proj2 Hs). }
      destruct (IH hr s1 l1 s' Epar Hhr Hs1) as [F2 Hs'].
      split; [|exact Hs']. constructor; [|exact F2]. cbn [fst snd].
      split; [exact Ha|]. split; [|intros _; exact Hne].
      destruct Hin as [->|Hin]; [exact Hb|]. rewrite Forall_forall in Hs. exact (Hs b' Hin).
    + destruct (parents pr hr s) as [[l1 s2]|] eqn:Epar; [|discriminate]. inversion H; subst. clear H.
      destruct (IH hr s l1 s' Epar Hhr Hs) as [F2 Hs'].
      split; [|exact Hs']. constructor; [|exact F2]. cbn [fst snd].
      split; [exact Ha|]. split; [exact Hb|]. intros ->. discriminate.
Qed.

(* ---- the sort is the identity on a selection that is already ordered ----------------------------- *)

Lemma insert_head x l : match l with [] => True | y :: _ => kle x y = true end -> insert x l = x :: l.
Proof. destruct l as [|y r]; cbn [insert]; [reflexivity|]. intros ->. reflexivity. Qed.

Theorem sort_sorted_id l : sorted_kev l -> sort_kev l = l.
Proof.
  induction l as [|a r IH]; intros H; [reflexivity|]. destruct H as [Hh Hr].
  unfold sort_kev. cbn [fold_right]. fold (sort_kev r). rewrite (IH Hr). apply insert_head. exact Hh.
Qed.

(* ---- the selected events are ordered as the per-child loop needs ----------------------------------- *)

(* a chromosome's markers as _prepare_coords hands them over: positions strictly increasing from a
   non-negative one up to at most the sentinel, cM never decreasing *)
Fixpoint markers_incr (prev : marker) (ms : list marker) : Prop :=
  match ms with
  | [] => True
  | m :: r => fst prev < fst m /\ snd prev <= snd m /\ fst m <= MAXC /\ markers_incr m r
  end.

Definition map_ok (ms : list marker) : Prop :=
  match ms with [] => True | m0 :: r => 0 <= fst m0 /\ fst m0 <= MAXC /\ markers_incr m0 r end.

Section Events.
Variable chroms : list Z.

(* events all of whose chromosomes come after position i of the chromosome list *)
Definition later_ok (i : nat) (rest : list event) : Prop :=
  forall j x, (j <= i)%nat -> evs_ok chroms j x rest.

Definition keys_from (c m : Z) (l : list kev) : Prop :=
  sorted_kev l /\ match l with [] => True | (c', m', _) :: _ => c = c' /\ m <= m' end.

(* one chromosome's selection, followed by events of later chromosomes *)
Lemma row_events_ok i c : nth_error chroms i = Some c ->
  forall ms prev mask l, row_events c prev ms mask = Some l -> markers_incr prev ms -> 0 <= fst prev ->
  forall rest, later_ok i rest ->
  forall j x, ((j = i /\ x < fst prev) \/ (j < i)%nat) ->
  evs_ok chroms j x (map (fun k : kev => snd k) l ++ rest).
Proof.
  intros Hc. induction ms as [|m mr IH]; intros prev mask l H Hinc Hp rest Hrest j x Hst; cbn [row_events] in H.
  - destruct (existsb (fun b => b) mask); [discriminate|]. inversion H; subst. cbn [map app].
    apply Hrest. destruct Hst as [[-> _]|Hlt]; lia.
  - destruct mask as [|b br]; [discriminate|].
    destruct (row_events c m mr br) as [l1|] eqn:E1; [|discriminate]. inversion H; subst l. clear H.
    destruct Hinc as [Hlt [_ [Hmax Hinc']]].
    destruct b.
    + cbn [map snd app evs_ok ev_chrom ev_bp]. exists i. split; [exact Hc|]. split.
      * destruct Hst as [[-> Hx]|Hji]; [left; split; [reflexivity|exact Hx]|right; split; [exact Hji|exact Hp]].
      * split; [lia|].
        apply (IH m br l1 E1 Hinc' ltac:(lia) rest Hrest). left. split; [reflexivity|exact Hlt].
    + apply (IH m br l1 E1 Hinc' ltac:(lia) rest Hrest).
      destruct Hst as [[-> Hx]|Hji]; [left; split; [reflexivity|lia]|right; exact Hji].
Qed.

Lemma chrom_events_ok i c : nth_error chroms i = Some c ->
  forall ms mask l, chrom_events c ms mask = Some l -> map_ok ms ->
  forall rest, later_ok i rest ->
  forall j x, (j < i)%nat \/ (j = i /\ x < 0) ->
  evs_ok chroms j x (map (fun k : kev => snd k) l ++ rest).
Proof.
  intros Hc ms mask l H Hok rest Hrest j x Hst. unfold chrom_events in H.
  destruct ms as [|m0 mr].
  - destruct (existsb (fun b => b) mask); [discriminate|]. inversion H; subst. cbn [map app].
    apply Hrest. destruct Hst as [Hlt|[-> _]]; lia.
  - destruct mask as [|b0 br]; [discriminate|]. destruct b0; [discriminate|].
    destruct Hok as [H0 [_ Hinc]].
    apply (row_events_ok i c Hc mr m0 br l H Hinc H0 rest Hrest).
    destruct Hst as [Hlt|[-> Hx]]; [right; exact Hlt|left; split; [reflexivity|lia]].
Qed.

End Events.

Lemma later_ok_nil chroms i : later_ok chroms i [].
Proof. intros j x _. exact I. Qed.

(* all chromosomes from position i on *)
Lemma all_events_ok chroms : forall cs coords mask i l,
  (forall k c, nth_error cs k = Some c -> nth_error chroms (i + k) = Some c) ->
  all_events cs coords mask = Some l -> Forall map_ok coords ->
  forall j x, (j < i)%nat \/ (j = i /\ x < 0) ->
  evs_ok chroms j x (map (fun k : kev => snd k) l).
Proof.
  induction cs as [|c cr IH]; intros coords mask i l Hnth H Hok j x Hst.
  - destruct coords; [|discriminate]. destruct mask; [|discriminate]. inversion H; subst. exact I.
  - destruct coords as [|ms mr]; [discriminate|]. destruct mask as [|row rr]; [discriminate|].
    cbn [all_events] in H.
    destruct (chrom_events c ms row) as [a|] eqn:Ea; [|discriminate].
    destruct (all_events cr mr rr) as [b|] eqn:Eb; [|discriminate]. inversion H; subst l. clear H.
    inversion Hok as [|? ? Hms Hmr]; subst. rewrite map_app.
    assert (Hc : nth_error chroms i = Some c).
    { specialize (Hnth 0%nat c eq_refl). rewrite Nat.add_0_r in Hnth. exact Hnth. }
    apply (chrom_events_ok chroms i c Hc ms row a Ea Hms); [|exact Hst].
    intros j' x' Hj'. apply (IH mr rr (S i) b); [|exact Eb|exact Hmr|left; lia].
    intros k c' Hk. replace (S i + k)%nat with (i + S k)%nat by lia. apply Hnth. exact Hk.
Qed.

(* ... and already sorted by (chromosome, cM): the sort changes nothing *)
Lemma row_events_sorted c : forall ms prev mask l, row_events c prev ms mask = Some l -> markers_incr prev ms ->
  sorted_kev l /\ Forall (fun k : kev => fst (fst k) = c /\ snd prev <= snd (fst k)) l.
Proof.
  induction ms as [|m mr IH]; intros prev mask l H Hinc; cbn [row_events] in H.
  - destruct (existsb (fun b => b) mask); [discriminate|]. inversion H; subst. split; [exact I|constructor].
  - destruct mask as [|b br]; [discriminate|].
    destruct (row_events c m mr br) as [l1|] eqn:E1; [|discriminate]. inversion H; subst l. clear H.
    destruct Hinc as [_ [Hcm [_ Hinc']]]. destruct (IH m br l1 E1 Hinc') as [Hs Hf].
    assert (Hf' : Forall (fun k : kev => fst (fst k) = c /\ snd prev <= snd (fst k)) l1).
    { eapply Forall_impl; [|exact Hf]. cbn beta. intros k [A B]. split; [exact A|lia]. }
    destruct b; [|split; assumption].
    split.
    + cbn [sorted_kev]. split; [|exact Hs]. destruct l1 as [|[[c' m'] e'] r']; [exact I|].
      pose proof (Forall_inv Hf) as [Hc' Hm']. cbn [fst snd] in Hc', Hm'. subst c'.
      unfold kle. rewrite Z.eqb_refl. cbn [andb]. replace (snd m <=? m') with true by (symmetry; apply Z.leb_le; exact Hm').
      apply orb_true_r.
    + constructor; [cbn [fst snd]; split; [reflexivity|exact Hcm]|exact Hf'].
Qed.

Lemma sorted_kev_app l1 l2 : sorted_kev l1 -> sorted_kev l2 ->
  (forall a b, In a l1 -> In b l2 -> kle a b = true) -> sorted_kev (l1 ++ l2).
Proof.
  induction l1 as [|a r IH]; intros H1 H2 H12; [exact H2|].
  cbn [app sorted_kev]. destruct H1 as [Hh Hr]. split.
  - destruct r as [|b r']; cbn [app].
    + destruct l2 as [|b l2']; [exact I|]. apply H12; left; reflexivity.
    + exact Hh.
  - apply IH; [exact Hr|exact H2|]. intros x y Hx Hy. apply H12; [right; exact Hx|exact Hy].
Qed.

Lemma all_events_chroms : forall cs coords mask l, all_events cs coords mask = Some l ->
  Forall (fun k : kev => In (fst (fst k)) cs) l.
Proof.
  induction cs as [|c cr IH]; intros coords mask l H.
  - destruct coords; [|discriminate]. destruct mask; [|discriminate]. inversion H; subst. constructor.
  - destruct coords as [|ms mr]; [discriminate|]. destruct mask as [|row rr]; [discriminate|].
    cbn [all_events] in H.
    destruct (chrom_events c ms row) as [a|] eqn:Ea; [|discriminate].
    destruct (all_events cr mr rr) as [b|] eqn:Eb; [|discriminate]. inversion H; subst l. clear H.
    apply Forall_app. split.
    + assert (Ha : Forall (fun k : kev => fst (fst k) = c) a).
      { unfold chrom_events in Ea. destruct ms as [|m0 ms'].
        - destruct (existsb (fun b => b) row); [discriminate|]. inversion Ea; subst. constructor.
        - destruct row as [|b0 br]; [discriminate|]. destruct b0; [discriminate|].
          clear - Ea. revert m0 br a Ea. induction ms' as [|m mr' IHm]; intros prev br a Ea; cbn [row_events] in Ea.
          + destruct (existsb (fun b => b) br); [discriminate|]. inversion Ea; subst. constructor.
          + destruct br as [|b br']; [discriminate|].
            destruct (row_events c m mr' br') as [l1|] eqn:E1; [|discriminate]. inversion Ea; subst a.
            specialize (IHm m br' l1 E1). destruct b; [constructor; [reflexivity|exact IHm]|exact IHm]. }
      eapply Forall_impl; [|exact Ha]. cbn beta. intros k ->. left. reflexivity.
    + eapply Forall_impl; [|exact (IH mr rr b Eb)]. cbn beta. intros k Hk. right. exact Hk.
Qed.

Lemma all_events_sorted : forall cs coords mask l, incr cs ->
  all_events cs coords mask = Some l -> Forall map_ok coords -> sorted_kev l.
Proof.
  induction cs as [|c cr IH]; intros coords mask l Hinc H Hok.
  - destruct coords; [|discriminate]. destruct mask; [|discriminate]. inversion H; subst. exact I.
  - destruct coords as [|ms mr]; [discriminate|]. destruct mask as [|row rr]; [discriminate|].
    cbn [all_events] in H.
    destruct (chrom_events c ms row) as [a|] eqn:Ea; [|discriminate].
    destruct (all_events cr mr rr) as [b|] eqn:Eb; [|discriminate]. inversion H; subst l. clear H.
    inversion Hok as [|? ? Hms Hmr]; subst.
    assert (Ha : sorted_kev a /\ Forall (fun k : kev => fst (fst k) = c) a).
    { unfold chrom_events in Ea. destruct ms as [|m0 ms'].
      - destruct (existsb (fun b => b) row); [discriminate|]. inversion Ea; subst. split; [exact I|constructor].
      - destruct row as [|b0 br]; [discriminate|]. destruct b0; [discriminate|].
        destruct Hms as [_ [_ Hi]]. destruct (row_events_sorted c ms' m0 br a Ea Hi) as [S1 S2].
        split; [exact S1|]. eapply Forall_impl; [|exact S2]. cbn beta. intros k [A _]. exact A. }
    destruct Ha as [Sa Ca].
    apply sorted_kev_app; [exact Sa|exact (IH mr rr b (incr_tail _ _ Hinc) Eb Hmr)|].
    intros [[c1 m1] e1] [[c2 m2] e2] H1 H2.
    rewrite Forall_forall in Ca. specialize (Ca _ H1). cbn [fst] in Ca. subst c1.
    pose proof (all_events_chroms cr mr rr b Eb) as Cb. rewrite Forall_forall in Cb. specialize (Cb _ H2). cbn [fst] in Cb.
    pose proof (incr_head _ _ Hinc c2 Cb). unfold kle.
    replace (c <? c2) with true by (symmetry; apply Z.ltb_lt; assumption). reflexivity.
Qed.

(* what the per-child loop receives: the row-major selection itself, ordered as evs_ok demands *)
Theorem decode_events_ok chroms coords mask evs :
  incr chroms -> Forall map_ok coords ->
  decode_events chroms coords mask = Some evs ->
  evs_ok chroms 0 (-1) evs /\
  exists l, all_events chroms coords mask = Some l /\ evs = map (fun k : kev => snd k) l.
Proof.
  intros Hinc Hok H. unfold decode_events in H.
  destruct (all_events chroms coords mask) as [l|] eqn:E; [|discriminate]. cbn [option_map] in H.
  inversion H; subst evs. clear H.
  rewrite (sort_sorted_id l (all_events_sorted chroms coords mask l Hinc E Hok)).
  split; [|exists l; split; reflexivity].
  apply (all_events_ok chroms chroms coords mask 0 l); [intros k c Hk; exact Hk|exact E|exact Hok|].
  right. split; [reflexivity|lia].
Qed.

(* ---- the contract of one _simulate call ------------------------------------------------------- *)

(* the mask of one chromosome: as wide as the array, never true on the first marker (probability
   1 - exp(0) = 0 and rand() >= 0) nor on a padding cell (probability -1) *)
Definition mask_row_ok (ms : list marker) (row : list bool) : Prop :=
  (length ms <= length row)%nat /\ (ms <> [] -> nth 0 row false = false) /\
  forall k, (length ms <= k)%nat -> nth k row false = false.

Definition kid_ok (chroms : list Z) (coords : list (list marker)) (k : kid_raw) : Prop :=
  let '(_, hd, mask) := k in
  length hd = length chroms /\ Forall2 mask_row_ok coords mask.

Record gen_contract (chroms : list Z) (coords : list (list marker)) (n nprev : Z) (g : gen_raw) : Prop := {
  gc_pp_len : lenZ (gr_pp g) = n;
  gc_kids_len : length (gr_kids g) = length (gr_pp g);
  gc_haps : Forall (in_range n) (gr_haps g);            (* randint(samples, ...) *)
  gc_redraw : Forall (in_range n) (gr_redraw g);        (* randint(samples) *)
  gc_loop : exists pars, parents (gr_pp g) (gr_haps g) (gr_redraw g) = Some (pars, []);
                                                        (* the while loops ended, on exactly these draws *)
  gc_admixed : Forall (fun p => p = 0 -> nprev = n) (gr_pp g);
     (* choice(p=...) returns 0 only when the admixed fraction is positive: never in the first generation *)
  gc_kids : Forall (kid_ok chroms coords) (gr_kids g)
}.

Lemma existsb_nth_false (row : list bool) : (forall k, nth k row false = false) -> existsb (fun b => b) row = false.
Proof.
  induction row as [|b r IH]; intros H; [reflexivity|]. cbn [existsb].
  rewrite (H 0%nat : b = false). cbn [orb]. apply IH. intros k. exact (H (S k)).
Qed.

Lemma row_events_some c : forall ms prev row, (length ms <= length row)%nat ->
  (forall k, (length ms <= k)%nat -> nth k row false = false) -> exists l, row_events c prev ms row = Some l.
Proof.
  induction ms as [|m mr IH]; intros prev row Hl Hpad; cbn [row_events].
  - rewrite existsb_nth_false; [eexists; reflexivity|]. intros k. apply Hpad. cbn. lia.
  - destruct row as [|b br]; [cbn in Hl; lia|].
    destruct (IH m br ltac:(cbn in Hl; lia) (fun k Hk => Hpad (S k) ltac:(cbn; lia))) as [l El].
    rewrite El. eexists; reflexivity.
Qed.

Lemma all_events_some : forall chroms coords mask, length coords = length chroms ->
  Forall2 mask_row_ok coords mask -> exists l, all_events chroms coords mask = Some l.
Proof.
  induction chroms as [|c cr IH]; intros coords mask Hl HF.
  - destruct coords; [|discriminate]. inversion HF; subst. eexists; reflexivity.
  - destruct coords as [|ms mr]; [discriminate|]. inversion HF as [|? row ? rr [H1 [H2 H3]] HF']; subst.
    cbn [all_events].
    assert (Ha : exists a, chrom_events c ms row = Some a).
    { unfold chrom_events. destruct ms as [|m0 ms'].
      - rewrite existsb_nth_false; [eexists; reflexivity|]. intros k. apply H3. cbn. lia.
      - destruct row as [|b0 br]; [cbn in H1; lia|].
        assert (b0 = false) by (apply H2; discriminate). subst b0.
        apply row_events_some; [cbn in H1; lia|]. intros k Hk. apply (H3 (S k)). cbn. lia. }
    destruct Ha as [a Ea]. rewrite Ea.
    destruct (IH mr rr ltac:(cbn in Hl; lia) HF') as [b Eb]. rewrite Eb. eexists; reflexivity.
Qed.

(* what the tiling theorems ask of one child's draws, plus: an admixed child has two distinct parents *)
Definition child_ok (chroms : list Z) (nprev : Z) (d : child_draws) : Prop :=
  (length chroms <= length (d_hd d))%nat /\ evs_ok chroms 0 (-1) (d_evs d) /\
  (d_pop d = 0 -> 0 <= d_ha d < nprev /\ 0 <= d_hb d < nprev /\ d_ha d <> d_hb d).

Lemma decode_kids_spec chroms coords nprev n : incr chroms -> length coords = length chroms -> Forall map_ok coords ->
  forall pp pars kids,
  Forall2 (fun p (ab : Z * Z) => in_range n (fst ab) /\ in_range n (snd ab) /\ (p = 0 -> fst ab <> snd ab)) pp pars ->
  Forall (fun p => p = 0 -> nprev = n) pp ->
  length kids = length pp -> Forall (kid_ok chroms coords) kids ->
  exists ds, decode_kids chroms coords pp pars kids = Some ds /\ length ds = length pp /\
             Forall (child_ok chroms nprev) ds /\ map d_pop ds = pp.
Proof.
  intros Hinc Hlen Hmaps. induction pp as [|p pr IH]; intros pars kids HF Hadm Hl Hk.
  - inversion HF; subst. destruct kids; [|discriminate]. exists []. repeat split; constructor.
  - inversion HF as [|? [a b] ? ar [Ha [Hb Hne]] HF']; subst. cbn [fst snd] in Ha, Hb, Hne.
    destruct kids as [|[[h0 hd] mask] kr]; [discriminate|].
    inversion Hk as [|? ? Hkid Hk']; subst. unfold kid_ok in Hkid. destruct Hkid as [Hhd Hmask]. inversion Hadm as [|? ? Hp Hadm']; subst.
    cbn [decode_kids].
    destruct (all_events_some chroms coords mask Hlen Hmask) as [l El].
    assert (Ed : decode_events chroms coords mask = Some (map (fun k : kev => snd k) (sort_kev l))).
    { unfold decode_events. rewrite El. reflexivity. }
    rewrite Ed.
    destruct (IH ar kr HF' Hadm' ltac:(cbn in Hl; lia) Hk') as [ds [Eds [Hlds [Hds Hpops]]]]. rewrite Eds.
    eexists. split; [reflexivity|]. split; [cbn [length]; lia|]. split; [|cbn [map d_pop]; rewrite Hpops; reflexivity].
    constructor; [|exact Hds].
    unfold child_ok. cbn [d_hd d_evs d_pop d_ha d_hb]. split; [lia|]. split.
    + exact (proj1 (decode_events_ok chroms coords mask _ Hinc Hmaps Ed)).
    + intros ->. specialize (Hp eq_refl). subst nprev. unfold in_range in Ha, Hb. split; [exact Ha|]. split; [exact Hb|exact (Hne eq_refl)].
Qed.

(* one generation: the contract gives the draws of the loop model, valid *)
Theorem decode_gen_spec chroms coords n nprev g :
  incr chroms -> length coords = length chroms -> Forall map_ok coords ->
  gen_contract chroms coords n nprev g ->
  exists ds, decode_gen chroms coords g = Some ds /\ lenZ ds = n /\
             Forall (child_ok chroms nprev) ds /\ map d_pop ds = gr_pp g.
Proof.
  intros Hinc Hlen Hmaps [Hpp Hkl Hh Hr [pars Hpar] Hadm Hk].
  destruct (parents_spec n _ _ _ _ _ Hpar Hh Hr) as [HF _].
  unfold decode_gen. rewrite Hpar.
  destruct (decode_kids_spec chroms coords nprev n Hinc Hlen Hmaps (gr_pp g) pars (gr_kids g) HF Hadm Hkl Hk)
    as [ds [E [Hl [Hds Hp]]]].
  exists ds. split; [exact E|]. split; [unfold lenZ in *; rewrite Hl; exact Hpp|]. split; assumption.
Qed.

(* ---- all generations: the contracts imply gens_ok ---------------------------------------------- *)

Fixpoint contracts chroms coords (n nprev : Z) (raws : list gen_raw) : Prop :=
  match raws with
  | [] => True
  | g :: r => gen_contract chroms coords n nprev g /\ contracts chroms coords n n r
  end.

Lemma child_ok_gens chroms nprev ds (m : nat) : Z.of_nat m = nprev ->
  Forall (child_ok chroms nprev) ds ->
  Forall (fun d => (length chroms <= length (d_hd d))%nat /\ evs_ok chroms 0 (-1) (d_evs d) /\
                   (d_pop d = 0 -> 0 <= d_ha d < Z.of_nat m /\ 0 <= d_hb d < Z.of_nat m)) ds.
Proof.
  intros <- H. eapply Forall_impl; [|exact H]. cbn beta. intros d [A [B C]].
  split; [exact A|]. split; [exact B|]. intros Hp. destruct (C Hp) as [X [Y _]]. split; assumption.
Qed.

Theorem contracts_gens_ok chroms coords n :
  incr chroms -> length coords = length chroms -> Forall map_ok coords ->
  forall raws (m : nat), contracts chroms coords n (Z.of_nat m) raws ->
  exists gens, decode_all chroms coords raws = Some gens /\ gens_ok chroms m gens.
Proof.
  intros Hinc Hlen Hmaps. induction raws as [|g r IH]; intros m H.
  - exists []. split; [reflexivity|exact I].
  - destruct H as [Hg Hr].
    destruct (decode_gen_spec chroms coords n (Z.of_nat m) g Hinc Hlen Hmaps Hg) as [ds [E [Hl [Hds _]]]].
    assert (Hn : Z.of_nat (length ds) = n) by exact Hl.
    assert (Hr' : contracts chroms coords n (Z.of_nat (length ds)) r) by (rewrite Hn; exact Hr).
    destruct (IH (length ds) Hr') as [gens [Eg Hok]].
    exists (ds :: gens). cbn [decode_all]. rewrite E, Eg. split; [reflexivity|].
    cbn [gens_ok]. split; [exact (child_ok_gens chroms (Z.of_nat m) ds m eq_refl Hds)|exact Hok].
Qed.

(* the markers _prepare_coords returns, as the rows of the coordinate array *)
Theorem run_tiles_from_contracts maps chroms region cs n raws :
  prepare_coords maps chroms region = Ok cs ->
  (region = None \/ length chroms = 1%nat) ->
  incr chroms -> (forall c, In c chroms -> 0 <= c) ->
  Forall map_ok cs ->
  contracts chroms cs n 0 raws ->
  exists gens g, decode_all chroms cs raws = Some gens /\
    sim_generations chroms (ends_of cs) [] gens = Ok g /\ gen_tiles chroms g.
Proof.
  intros Hpc Hreg Hinc Hpos Hmaps Hc.
  assert (Hlen : length cs = length chroms).
  { pose proof (prepare_coords_length maps chroms region cs Hpc Hreg) as H. unfold ends_of in H.
    rewrite map_length in H. exact H. }
  destruct (contracts_gens_ok chroms cs n Hinc Hlen Hmaps raws 0%nat Hc) as [gens [E Hok]].
  destruct (run_tiles maps (mkrun chroms region gens []) cs Hpc Hreg Hinc Hpos Hok) as [g [Hs Ht]].
  exists gens, g. split; [exact E|]. split; [exact Hs|exact Ht].
Qed.
