(* C02 - checker of relation `draws` (harness/c02.py): one case per _simulate call of a recorded run.

   agree: [C02_Draws.decode_gen] of the RAW numpy draws (choice, randint array as drawn, the re-draws of
          the while loops, per child the homolog draws and the mask rand < recomb_probs) equals the
          harness's own decoding (the child_draws the relations child / gen / seq feed to the loop
          model), and every clause of the numpy contract [gen_contract] holds on the recorded draws
          ([gen_contractb], sound by [gen_contractb_sound]) - so the theorems that derive the tiling
          from the contracts alone (C02_run_tiles_from_contracts) apply to the recorded run.
   holds: every child the call returned tiles the chromosomes (the property at this level; demanded
          when the map is in the assumed domain [maps_okb]: positions strictly increasing, at most the
          sentinel, cM never decreasing). *)
From HV Require Import Prelude Tracts Tiling C01_Model C01_Check C02_Model C02_Check C02_Tiling
  C02_Generations C02_Proofs C02_Coords C02_Draws.

Record dcase := mkd {
  dc_chroms : list Z;
  dc_coords : list (list marker);      (* the markers _simulate received, one row per chromosome *)
  dc_n : Z;                            (* samples (the population size) *)
  dc_nprev : Z;                        (* size of the previous generation (0 for the first) *)
  dc_raw : gen_raw;
  dc_decoded : list child_draws;       (* the harness's decoding of the same log *)
  dc_outs : res (list (list seg))      (* the children the call returned *)
}.

Definition ev_eqb (a b : event) : bool :=
  (ev_chrom a =? ev_chrom b) && (ev_bp a =? ev_bp b) && (ev_cm a =? ev_cm b).

Definition cd_eqb (a b : child_draws) : bool :=
  (d_pop a =? d_pop b) && (d_ha a =? d_ha b) && (d_hb a =? d_hb b) && Bool.eqb (d_h0 a) (d_h0 b)
  && list_eqb Bool.eqb (d_hd a) (d_hd b) && list_eqb ev_eqb (d_evs a) (d_evs b).

Definition in_rangeb (n x : Z) : bool := (0 <=? x) && (x <? n).

Definition mask_row_okb (ms : list marker) (row : list bool) : bool :=
  Nat.leb (length ms) (length row)
  && match ms with [] => true | _ => negb (nth 0 row false) end
  && forallb negb (skipn (length ms) row).

Fixpoint forall2b {A B} (f : A -> B -> bool) (l1 : list A) (l2 : list B) : bool :=
  match l1, l2 with
  | [], [] => true
  | a :: r, b :: s => f a b && forall2b f r s
  | _, _ => false
  end.

Definition kid_okb (chroms : list Z) (coords : list (list marker)) (k : kid_raw) : bool :=
  let '(_, hd, mask) := k in Nat.eqb (length hd) (length chroms) && forall2b mask_row_okb coords mask.

Definition gen_contractb (chroms : list Z) (coords : list (list marker)) (n nprev : Z) (g : gen_raw) : bool :=
  (lenZ (gr_pp g) =? n)
  && Nat.eqb (length (gr_kids g)) (length (gr_pp g))
  && forallb (in_rangeb n) (gr_haps g) && forallb (in_rangeb n) (gr_redraw g)
  && match parents (gr_pp g) (gr_haps g) (gr_redraw g) with Some (_, []) => true | _ => false end
  && forallb (fun p => negb (p =? 0) || (nprev =? n)) (gr_pp g)
  && forallb (kid_okb chroms coords) (gr_kids g).

Fixpoint markers_incrb (prev : marker) (ms : list marker) : bool :=
  match ms with
  | [] => true
  | m :: r => (fst prev <? fst m) && (snd prev <=? snd m) && (fst m <=? MAXC) && markers_incrb m r
  end.
Definition map_okb (ms : list marker) : bool :=
  match ms with [] => true | m0 :: r => (0 <=? fst m0) && (fst m0 <=? MAXC) && markers_incrb m0 r end.
Definition maps_okb (coords : list (list marker)) : bool := forallb map_okb coords.

Definition model_draws (k : dcase) := decode_gen (dc_chroms k) (dc_coords k) (dc_raw k).

Definition agree_draws (k : dcase) : bool :=
  opt_eqb (list_eqb cd_eqb) (model_draws k) (Some (dc_decoded k))
  && gen_contractb (dc_chroms k) (dc_coords k) (dc_n k) (dc_nprev k) (dc_raw k).

Definition holds_draws (k : dcase) : bool :=
  match dc_outs k with
  | Err e => e =? E_Unobserved
  | Ok outs => negb (maps_okb (dc_coords k)) || forallb (tilesb (dc_chroms k)) outs
  end.

Definition check_draws (k : dcase) : bool * bool := (agree_draws k, holds_draws k).

(* ---- soundness ------------------------------------------------------------------------------ *)

Lemma forall2b_spec {A B} (f : A -> B -> bool) (P : A -> B -> Prop) :
  (forall a b, f a b = true -> P a b) -> forall l1 l2, forall2b f l1 l2 = true -> Forall2 P l1 l2.
Proof.
  intros Hf. induction l1 as [|a r IH]; intros [|b s] H; cbn [forall2b] in H; try discriminate; [constructor|].
  apply andb_true_iff in H. destruct H as [H1 H2]. constructor; [apply Hf; exact H1|apply IH; exact H2].
Qed.

Lemma skipn_all_false (row : list bool) n : forallb negb (skipn n row) = true ->
  forall k, (n <= k)%nat -> nth k row false = false.
Proof.
  revert n. induction row as [|b r IH]; intros n H k Hk; [destruct k; reflexivity|].
  destruct n as [|n'].
  - cbn [skipn forallb] in H. apply andb_true_iff in H. destruct H as [Hb Hr].
    destruct k as [|k']; cbn [nth]; [destruct b; [discriminate|reflexivity]|].
    apply (IH 0%nat); [destruct r; exact Hr|lia].
  - destruct k as [|k']; [lia|]. cbn [nth]. apply (IH n'); [exact H|lia].
Qed.

Lemma mask_row_okb_sound ms row : mask_row_okb ms row = true -> mask_row_ok ms row.
Proof.
  unfold mask_row_okb. intros H. apply andb_true_iff in H. destruct H as [H H3].
  apply andb_true_iff in H. destruct H as [H1 H2]. apply Nat.leb_le in H1.
  split; [exact H1|]. split.
  - intros Hne. destruct ms; [congruence|]. destruct (nth 0 row false); [discriminate|reflexivity].
  - apply skipn_all_false. exact H3.
Qed.

Lemma markers_incrb_sound : forall ms prev, markers_incrb prev ms = true -> markers_incr prev ms.
Proof.
  induction ms as [|m r IH]; intros prev H; [exact I|]. cbn [markers_incrb] in H.
  apply andb_true_iff in H. destruct H as [H H4]. apply andb_true_iff in H. destruct H as [H H3].
  apply andb_true_iff in H. destruct H as [H1 H2].
  apply Z.ltb_lt in H1. apply Z.leb_le in H2. apply Z.leb_le in H3.
  cbn [markers_incr]. split; [exact H1|]. split; [exact H2|]. split; [exact H3|apply IH; exact H4].
Qed.

Lemma maps_okb_sound coords : maps_okb coords = true -> Forall map_ok coords.
Proof.
  unfold maps_okb. intros H. apply Forall_forall. intros ms Hms. rewrite forallb_forall in H. specialize (H ms Hms).
  destruct ms as [|m0 r]; [exact I|]. cbn [map_okb] in H.
  apply andb_true_iff in H. destruct H as [H H3]. apply andb_true_iff in H. destruct H as [H1 H2].
  apply Z.leb_le in H1. apply Z.leb_le in H2. cbn [map_ok]. split; [exact H1|]. split; [exact H2|].
  apply markers_incrb_sound. exact H3.
Qed.

Lemma in_rangeb_sound n l : forallb (in_rangeb n) l = true -> Forall (in_range n) l.
Proof.
  intros H. apply Forall_forall. intros x Hx. rewrite forallb_forall in H. specialize (H x Hx).
  unfold in_rangeb in H. apply andb_true_iff in H. destruct H as [A B].
  apply Z.leb_le in A. apply Z.ltb_lt in B. split; assumption.
Qed.

(* the boolean contract evaluated on the recorded draws means the contract of the theorems *)
Theorem gen_contractb_sound chroms coords n nprev g :
  gen_contractb chroms coords n nprev g = true -> gen_contract chroms coords n nprev g.
Proof.
  unfold gen_contractb. intros H.
  apply andb_true_iff in H. destruct H as [H H7]. apply andb_true_iff in H. destruct H as [H H6].
  apply andb_true_iff in H. destruct H as [H H5]. apply andb_true_iff in H. destruct H as [H H4].
  apply andb_true_iff in H. destruct H as [H H3]. apply andb_true_iff in H. destruct H as [H1 H2].
  constructor.
  - apply Z.eqb_eq. exact H1.
  - apply Nat.eqb_eq. exact H2.
  - apply in_rangeb_sound. exact H3.
  - apply in_rangeb_sound. exact H4.
  - destruct (parents (gr_pp g) (gr_haps g) (gr_redraw g)) as [[pars [|x s]]|]; try discriminate. exists pars. reflexivity.
  - apply Forall_forall. intros p Hp Hz. rewrite forallb_forall in H6. specialize (H6 p Hp). subst p.
    cbn in H6. apply Z.eqb_eq. exact H6.
  - apply Forall_forall. intros k Hk. rewrite forallb_forall in H7. specialize (H7 k Hk).
    destruct k as [[h0 hd] mask]. unfold kid_okb in H7. apply andb_true_iff in H7. destruct H7 as [A B].
    unfold kid_ok. split; [apply Nat.eqb_eq; exact A|].
    apply (forall2b_spec mask_row_okb mask_row_ok mask_row_okb_sound). exact B.
Qed.

Lemma ev_eqb_spec a b : ev_eqb a b = true <-> a = b.
Proof.
  destruct a as [c1 b1 m1], b as [c2 b2 m2]. unfold ev_eqb. cbn [ev_chrom ev_bp ev_cm].
  rewrite !andb_true_iff, !Z.eqb_eq. split.
  - intros [[-> ->] ->]. reflexivity.
  - intros H; inversion H; auto.
Qed.

Lemma booleqb_spec a b : Bool.eqb a b = true <-> a = b.
Proof. split; [apply Bool.eqb_prop|intros ->; apply Bool.eqb_reflx]. Qed.

Lemma cd_eqb_spec a b : cd_eqb a b = true <-> a = b.
Proof.
  destruct a as [p1 a1 b1 h1 d1 e1], b as [p2 a2 b2 h2 d2 e2]. unfold cd_eqb.
  cbn [d_pop d_ha d_hb d_h0 d_hd d_evs].
  rewrite !andb_true_iff, !Z.eqb_eq, booleqb_spec.
  rewrite (list_eqb_spec Bool.eqb booleqb_spec), (list_eqb_spec ev_eqb ev_eqb_spec). split.
  - intros [[[[[-> ->] ->] ->] ->] ->]. reflexivity.
  - intros H; inversion H; repeat split; reflexivity.
Qed.

(* when the case agrees and the map is in the domain, the harness's decoding is the model's, satisfies
   what the tiling theorems assume of a generation's draws, and an admixed child has distinct parents *)
Theorem agree_draws_sound k :
  agree_draws k = true -> incr (dc_chroms k) -> length (dc_coords k) = length (dc_chroms k) ->
  maps_okb (dc_coords k) = true ->
  decode_gen (dc_chroms k) (dc_coords k) (dc_raw k) = Some (dc_decoded k) /\
  lenZ (dc_decoded k) = dc_n k /\ Forall (child_ok (dc_chroms k) (dc_nprev k)) (dc_decoded k).
Proof.
  unfold agree_draws. intros H Hinc Hlen Hmaps. apply andb_true_iff in H. destruct H as [H1 H2].
  apply gen_contractb_sound in H2. apply maps_okb_sound in Hmaps.
  destruct (decode_gen_spec _ _ _ _ _ Hinc Hlen Hmaps H2) as [ds [E [Hl [Hds _]]]].
  unfold model_draws in H1. rewrite E in H1. cbn [opt_eqb] in H1.
  apply (list_eqb_spec cd_eqb cd_eqb_spec) in H1. subst ds. split; [exact E|]. split; assumption.
Qed.

Theorem holds_draws_sound k outs : holds_draws k = true -> dc_outs k = Ok outs -> maps_okb (dc_coords k) = true ->
  forall h, In h outs -> tiles (dc_chroms k) h.
Proof.
  unfold holds_draws. intros H Ho Hm h Hh. rewrite Ho, Hm in H. cbn [negb orb] in H.
  rewrite forallb_forall in H. apply tilesb_sound. apply H. exact Hh.
Qed.

(* ---- the contracts are satisfiable: two generations on two chromosomes, a re-draw loop that runs
   twice (1,1 -> re-draw 1 -> re-draw 0), one recombination on each chromosome ----------------------- *)
Definition ex_chroms : list Z := [1; 2].
Definition ex_coords : list (list marker) := [[(100, 0); (5000, 1); (MAXC, 2)]; [(10, 0); (MAXC, 5)]].
Definition ex_g1 : gen_raw :=
  mkgr [1; 2] [0; 0; 1; 1] []
       [(false, [true; false], [[false; false; true]; [false; false; false]]);
        (true, [true; true], [[false; false; false]; [false; true; false]])].
Definition ex_g2 : gen_raw :=
  mkgr [0; 1] [1; 1; 0; 0] [1; 0]
       [(true, [false; true], [[false; true; false]; [false; true; false]]);
        (false, [false; false], [[false; false; false]; [false; false; false]])].

Example contracts_example :
  contracts ex_chroms ex_coords 2 0 [ex_g1; ex_g2] /\ Forall map_ok ex_coords /\
  decode_all ex_chroms ex_coords [ex_g1; ex_g2]
    = Some [[mkcd 1 0 0 false [true; false] [mkev 1 5000 1]; mkcd 2 1 1 true [true; true] [mkev 2 10 0]];
            [mkcd 0 1 0 true [false; true] [mkev 1 100 0; mkev 2 10 0]; mkcd 1 0 0 false [false; false] []]] /\
  sim_generations ex_chroms (ends_of ex_coords) [] 
     [[mkcd 1 0 0 false [true; false] [mkev 1 5000 1]; mkcd 2 1 1 true [true; true] [mkev 2 10 0]];
      [mkcd 0 1 0 true [false; true] [mkev 1 100 0; mkev 2 10 0]; mkcd 1 0 0 false [false; false] []]]
    = Ok [[mkseg 1 1 100 0; mkseg 2 1 MAXC 2; mkseg 2 2 10 0; mkseg 1 2 MAXC 5]; [mkseg 1 1 MAXC 2; mkseg 1 2 MAXC 5]].
Proof.
  split; [|split; [|split]].
  - split; [apply gen_contractb_sound; vm_compute; reflexivity|].
    split; [apply gen_contractb_sound; vm_compute; reflexivity|exact I].
  - apply maps_okb_sound. vm_compute. reflexivity.
  - vm_compute. reflexivity.
  - vm_compute. reflexivity.
Qed.
