(* C02 / C01 - discharging get_segment's shape contract for founders and for
   parents that tile the chromosomes, and lifting the tiling invariant over
   whole generations and over any number of generations. *)
From HV Require Import Prelude Tracts Tiling C01_Model C01_Proofs C01_Bsearch C01_Check C01_Kernel C02_Tiling.

Lemma incr_tail a l : incr (a :: l) -> incr l.
Proof. intros H i j x y Hij Hx Hy. apply (H (S i) (S j) x y); [lia|exact Hx|exact Hy]. Qed.

Lemma incr_head a l : incr (a :: l) -> forall b, In b l -> a < b.
Proof.
  intros H b Hb. apply In_nth_error in Hb. destruct Hb as [n Hn].
  apply (H 0%nat (S n) a b); [lia|reflexivity|exact Hn].
Qed.

Lemma tiles_chroms chs : forall l, tiles chs l -> forall s, In s l -> In (chrom s) chs.
Proof.
  induction chs as [|c r IH]; intros l H s Hs; cbn in H.
  - subst l. destruct Hs.
  - destruct H as [t [rest [-> [Ht Hr]]]]. apply in_app_or in Hs. destruct Hs as [Hs|Hs].
    + left. symmetry. exact (proj1 (run_ok_all _ _ _ _ Ht s Hs)).
    + right. exact (IH rest Hr s Hs).
Qed.

Lemma sorted_app l1 l2 : sorted l1 -> sorted l2 ->
  (forall a b, In a l1 -> In b l2 -> lt_seg a b) -> sorted (l1 ++ l2).
Proof.
  induction l1 as [|a r IH]; intros H1 H2 H12; [exact H2|].
  cbn [app sorted]. split.
  - destruct r as [|b r'].
    + cbn [app]. destruct l2 as [|b l2']; [exact I|]. apply H12; left; reflexivity.
    + cbn [app]. destruct H1 as [H1 _]. exact H1.
  - apply IH; [exact (sorted_tail _ _ H1)|exact H2|].
    intros x y Hx Hy. apply H12; [right; exact Hx|exact Hy].
Qed.

Lemma tiles_sorted chs : incr chs -> forall l, tiles chs l -> sorted l.
Proof.
  induction chs as [|c r IH]; intros Hinc l H; cbn in H.
  - subst l. exact I.
  - destruct H as [t [rest [-> [Ht Hr]]]].
    apply sorted_app; [exact (run_ok_sorted _ _ _ _ Ht)|exact (IH (incr_tail _ _ Hinc) rest Hr)|].
    intros a b Ha Hb. left.
    rewrite (proj1 (run_ok_all _ _ _ _ Ht a Ha)).
    apply (incr_head _ _ Hinc). exact (tiles_chroms r rest Hr b Hb).
Qed.

Lemma tiles_reach chs : forall l c e, tiles chs l -> In c chs -> e <= MAXC -> on_c_reach c e l.
Proof.
  induction chs as [|c0 r IH]; intros l c e H Hc He; [destruct Hc|]. cbn in H.
  destruct H as [t [rest [-> [Ht Hr]]]]. destruct Hc as [->|Hc].
  - destruct (run_ok_reach _ _ _ _ Ht) as [s [Hs [Hsc Hse]]]. exists s.
    split; [apply in_or_app; left; exact Hs|]. split; [exact Hsc|lia].
  - destruct (IH rest c e Hr Hc He) as [s [Hs Hrest]]. exists s.
    split; [apply in_or_app; right; exact Hs|exact Hrest].
Qed.

(* the shape contract, for founders *)
Lemma GS_founder chroms p_pop ha hb prev : p_pop <> 0 ->
  forall (h : bool) c a e m, In c chroms -> 0 <= a -> a <= e -> e <= MAXC ->
  exists g, get_segment p_pop (hap_of ha hb h) c a e m prev = Ok g /\ run_ok c (a - 1) g e.
Proof.
  intros Hp h c a e m _ Ha Hae _. rewrite (get_segment_founder _ _ _ _ _ _ _ Hp).
  eexists; split; [reflexivity|]. cbn. split; [reflexivity|]. split; [lia|reflexivity].
Qed.

(* ... and for admixed children whose two parents tile the chromosomes *)
Lemma GS_admixed chroms ha hb prev pa pb :
  incr chroms -> (forall c, In c chroms -> 0 <= c) ->
  nthZ prev ha = Some pa -> nthZ prev hb = Some pb -> tiles chroms pa -> tiles chroms pb ->
  forall (h : bool) c a e m, In c chroms -> 0 <= a -> a <= e -> e <= MAXC ->
  exists g, get_segment 0 (hap_of ha hb h) c a e m prev = Ok g /\ run_ok c (a - 1) g e.
Proof.
  intros Hinc Hpos Hna Hnb Hta Htb h c a e m Hc Ha Hae He.
  assert (Hpar : exists parent, nthZ prev (hap_of ha hb h) = Some parent /\ tiles chroms parent).
  { destruct h; cbn [hap_of]; eauto. }
  destruct Hpar as [parent [Hn Ht]].
  assert (Hwf : wf_call parent c a e).
  { split; [exact (tiles_sorted _ Hinc _ Ht)|]. split; [exact (tiles_reach _ _ _ _ Ht Hc He)|].
    split; [exact Hae|exact (Hpos c Hc)]. }
  destruct (get_segment_spec prev _ parent c a e m Hn Hwf) as [cp [st [E [_ [_ [_ [_ [_ [_ [Hrun _]]]]]]]]]].
  eexists; split; [exact E|exact Hrun].
Qed.

(* ---- one generation ------------------------------------------------------ *)

(* the draws that determine one child *)
Record child_draws := mkcd {
  d_pop : Z;            (* np.random.choice: 0 = admixed, i > 0 = source population i *)
  d_ha : Z; d_hb : Z;   (* np.random.randint(samples): the two parental haplotypes *)
  d_h0 : bool; d_hd : list bool;   (* homolog draws *)
  d_evs : list event    (* the recombination events selected by rand < prob, sorted *)
}.

Fixpoint mapM {A B} (f : A -> res B) (l : list A) : res (list B) :=
  match l with
  | [] => Ok []
  | a :: r => bind (f a) (fun b => bind (mapM f r) (fun bs => Ok (b :: bs)))
  end.

Definition sim_child chroms ends prev (d : child_draws) : res (list seg) :=
  sim_sample get_segment chroms ends (d_pop d) (d_ha d) (d_hb d) prev (d_h0 d) (d_hd d) (d_evs d).

Definition sim_generation chroms ends prev (ds : list child_draws) : res (list (list seg)) :=
  mapM (sim_child chroms ends prev) ds.

Fixpoint sim_generations chroms ends prev (gens : list (list child_draws)) : res (list (list seg)) :=
  match gens with
  | [] => Ok prev
  | ds :: r => bind (sim_generation chroms ends prev ds) (fun g => sim_generations chroms ends g r)
  end.

Definition gen_tiles chroms (g : list (list seg)) : Prop := forall h, In h g -> tiles chroms h.

(* what numpy guarantees about the draws of one child, given the previous generation *)
Definition draws_ok chroms (prev : list (list seg)) (d : child_draws) : Prop :=
  (length chroms <= length (d_hd d))%nat /\ evs_ok chroms 0 (-1) (d_evs d) /\
  (d_pop d = 0 -> 0 <= d_ha d < lenZ prev /\ 0 <= d_hb d < lenZ prev).

Section Gen.
Variables (chroms : list Z) (ends : list (Z * Z)).
Hypothesis ends_len : length ends = length chroms.
Hypothesis ends_max : forall i e, nth_error ends i = Some e -> fst e = MAXC.
Hypothesis chroms_incr : incr chroms.
Hypothesis chroms_pos : forall c, In c chroms -> 0 <= c.
Hypothesis chroms_ne : chroms <> [].

Lemma nthZ_in_range {A} (l : list A) i : 0 <= i < lenZ l -> exists x, nthZ l i = Some x /\ In x l.
Proof.
  intros [H1 H2]. unfold nthZ. destruct (i <? 0) eqn:E; [apply Z.ltb_lt in E; lia|].
  destruct (nth_error l (Z.to_nat i)) as [x|] eqn:En.
  - exists x. split; [reflexivity|]. eapply nth_error_In; eauto.
  - apply nth_error_None in En. unfold lenZ in H2. lia.
Qed.

Theorem child_tiles prev d : gen_tiles chroms prev -> draws_ok chroms prev d ->
  exists out, sim_child chroms ends prev d = Ok out /\ tiles chroms out.
Proof.
  intros Hprev [Hhd [Hev Hpar]]. unfold sim_child.
  destruct (Z.eq_dec (d_pop d) 0) as [Hp|Hp].
  - destruct (Hpar Hp) as [Ha Hb].
    destruct (nthZ_in_range prev _ Ha) as [pa [Hna Hia]].
    destruct (nthZ_in_range prev _ Hb) as [pb [Hnb Hib]].
    rewrite Hp.
    apply (sim_sample_tiles get_segment chroms ends 0 (d_ha d) (d_hb d) prev ends_len ends_max chroms_incr); try assumption.
    apply (GS_admixed chroms (d_ha d) (d_hb d) prev pa pb); auto.
  - apply (sim_sample_tiles get_segment chroms ends (d_pop d) (d_ha d) (d_hb d) prev ends_len ends_max chroms_incr); try assumption.
    apply GS_founder. exact Hp.
Qed.

Theorem generation_tiles prev ds : gen_tiles chroms prev -> Forall (draws_ok chroms prev) ds ->
  exists g, sim_generation chroms ends prev ds = Ok g /\ gen_tiles chroms g /\ length g = length ds.
Proof.
  intros Hprev Hds. unfold sim_generation. induction Hds as [|d r Hd Hr IH]; cbn [mapM].
  - exists []. split; [reflexivity|]. split; [intros ? []|reflexivity].
  - destruct (child_tiles prev d Hprev Hd) as [out [E Ht]]. rewrite E. cbn [bind].
    destruct IH as [g [Eg [Hg Hl]]]. rewrite Eg. cbn [bind]. exists (out :: g).
    split; [reflexivity|]. split; [|cbn; lia].
    intros h [<-|Hh]; [exact Ht|exact (Hg h Hh)].
Qed.

(* any number of generations: each generation's draws are valid w.r.t. the generation before it
   (whose size is the number of children drawn before) *)
Fixpoint gens_ok (n : nat) (gens : list (list child_draws)) : Prop :=
  match gens with
  | [] => True
  | ds :: r =>
      Forall (fun d => (length chroms <= length (d_hd d))%nat /\ evs_ok chroms 0 (-1) (d_evs d) /\
                       (d_pop d = 0 -> 0 <= d_ha d < Z.of_nat n /\ 0 <= d_hb d < Z.of_nat n)) ds
      /\ gens_ok (length ds) r
  end.

Theorem generations_tile gens : forall prev, gen_tiles chroms prev -> gens_ok (length prev) gens ->
  exists g, sim_generations chroms ends prev gens = Ok g /\ gen_tiles chroms g.
Proof.
  induction gens as [|ds r IH]; intros prev Hprev Hok; cbn [sim_generations].
  - exists prev. auto.
  - destruct Hok as [Hds Hr].
    assert (Hds' : Forall (draws_ok chroms prev) ds).
    { eapply Forall_impl; [|exact Hds]. intros d [A [B C]]. unfold draws_ok, lenZ. auto. }
    destruct (generation_tiles prev ds Hprev Hds') as [g [Eg [Hg Hl]]]. rewrite Eg. cbn [bind].
    apply IH; [exact Hg|]. rewrite Hl. exact Hr.
Qed.

(* simulate_gt starts from no previous generation: then the first generation
   may not contain admixed individuals (model files: first line has admixed fraction 0) *)
Corollary simulation_tiles gens :
  gens_ok 0 gens -> exists g, sim_generations chroms ends [] gens = Ok g /\ gen_tiles chroms g.
Proof. intros H. apply generations_tile; [intros ? []|exact H]. Qed.
End Gen.

(* ---- what tiling means, position by position ------------------------------ *)

Lemma run_ok_label c lo g hi : run_ok c lo g hi ->
  forall p, lo < p <= hi -> exists s, In s g /\ label_at g c p = Some (pop s) /\ p <= endc s.
Proof.
  revert lo. induction g as [|x r IH]; intros lo H p Hp; [destruct H|].
  destruct H as [Hc [Hlo Hr]]. cbn [label_at]. rewrite (proj2 (Z.eqb_eq _ _) Hc). cbn [andb].
  destruct (p <=? endc x) eqn:E.
  - apply Z.leb_le in E. exists x. split; [left; reflexivity|]. split; [reflexivity|exact E].
  - apply Z.leb_gt in E. destruct r as [|y r']; [lia|].
    destruct (IH _ Hr p ltac:(lia)) as [s [Hs [Hl He]]]. exists s. split; [right; exact Hs|]. auto.
Qed.

Lemma label_at_app_other l1 l2 c p : (forall s, In s l1 -> chrom s <> c) ->
  label_at (l1 ++ l2) c p = label_at l2 c p.
Proof.
  induction l1 as [|s r IH]; intros H; [reflexivity|].
  cbn [app label_at]. rewrite (proj2 (Z.eqb_neq _ _) (H s (or_introl eq_refl))). cbn [andb].
  apply IH. intros x Hx. apply H. right. exact Hx.
Qed.

Lemma label_at_app_hit l1 l2 c p v : label_at l1 c p = Some v -> label_at (l1 ++ l2) c p = Some v.
Proof.
  induction l1 as [|s r IH]; [discriminate|]. cbn [app label_at].
  destruct ((chrom s =? c) && (p <=? endc s)); [auto|exact IH].
Qed.

(* every position 0..MAXC of every requested chromosome has a label *)
Theorem tiles_cover chs : incr chs -> forall l, tiles chs l ->
  forall c p, In c chs -> 0 <= p <= MAXC -> exists v, label_at l c p = Some v.
Proof.
  induction chs as [|c0 r IH]; intros Hinc l H c p Hc Hp; [destruct Hc|]. cbn in H.
  destruct H as [t [rest [-> [Ht Hr]]]]. destruct Hc as [->|Hc].
  - destruct (run_ok_label _ _ _ _ Ht p ltac:(lia)) as [s [_ [Hl _]]].
    exists (pop s). apply label_at_app_hit. exact Hl.
  - rewrite label_at_app_other.
    + exact (IH (incr_tail _ _ Hinc) rest Hr c p Hc Hp).
    + intros s Hs. rewrite (proj1 (run_ok_all _ _ _ _ Ht s Hs)).
      pose proof (incr_head _ _ Hinc c Hc). lia.
Qed.
