(* C02 - model of write_breakpoints (sim_genotype.py) at token level. *)
From HV Require Import Prelude Tracts Tiling C01_Model.

Definition E_Value2 : Z := 1.

(* one output haplotype: (sample number, strand number, tracts) *)
Definition bprow : Type := (Z * Z * list seg)%type.

Fixpoint write_rows (gen : list (list seg)) (idx : list Z) (ind : Z) : res (list bprow) :=
  match idx with
  | [] => Ok []
  | i :: r =>
      match nthZ gen i with
      | None => Err 2
      | Some h => bind (write_rows gen r (ind + 1))
                       (fun rows => Ok ((ind / 2 + 1, ind mod 2 + 1, h) :: rows))
      end
  end.

(* idx: the 2n indices drawn without replacement by np.random.choice *)
Definition write_breakpoints (gen : list (list seg)) (idx : list Z) : res (list bprow) :=
  write_rows gen idx 0.
