(* C02 - soundness of the boolean tiling checker; provenance of labels. *)
From HV Require Import Prelude Tracts Tiling C01_Model C01_Check C02_Model C02_Check C02_Tiling C02_Generations.

Lemma take_run_sound c : forall l lo rest, take_run c lo l = Some rest ->
  exists t, l = t ++ rest /\ run_ok c lo t MAXC.
Proof.
  induction l as [|s r IH]; intros lo rest H; cbn [take_run] in H; [discriminate|].
  destruct ((chrom s =? c) && (lo <? endc s)) eqn:E; [|discriminate].
  apply andb_true_iff in E. destruct E as [E1 E2]. apply Z.eqb_eq in E1. apply Z.ltb_lt in E2.
  destruct (endc s =? MAXC) eqn:E3.
  - apply Z.eqb_eq in E3. inversion H; subst rest. exists [s]. split; [reflexivity|]. cbn. auto.
  - destruct (IH _ _ H) as [t [-> Ht]]. exists (s :: t). split; [reflexivity|].
    cbn [run_ok]. split; [exact E1|]. split; [exact E2|]. destruct t; [destruct Ht|exact Ht].
Qed.

Theorem tilesb_sound chs : forall l, tilesb chs l = true -> tiles chs l.
Proof.
  induction chs as [|c r IH]; intros l H; cbn [tilesb] in H; cbn [tiles].
  - destruct l; [reflexivity|discriminate].
  - destruct (take_run c (-1) l) as [rest|] eqn:E; [|discriminate].
    destruct (take_run_sound _ _ _ _ E) as [t [-> Ht]]. exists t, rest. auto.
Qed.

(* exactly one label per position of every requested chromosome: from the boolean checker *)
Corollary tilesb_cover chs l : incr chs -> tilesb chs l = true ->
  forall c p, In c chs -> 0 <= p <= MAXC -> exists v, label_at l c p = Some v.
Proof. intros Hi H. apply (tiles_cover chs Hi l). apply tilesb_sound. exact H. Qed.

(* ---- provenance: any predicate true of everything get_segment returns is true of the child ---- *)

Section Forall.
Variable gs : Z -> Z -> Z -> Z -> Z -> Z -> list (list seg) -> res (list seg).
Variables (chroms : list Z) (ends : list (Z * Z)) (p_pop : Z) (ha hb : Z) (prev : list (list seg)).
Variable P : seg -> Prop.
Hypothesis GSP : forall h c a e m g, gs p_pop h c a e m prev = Ok g -> Forall P g.

Lemma emit_forall k : forall i s s', Forall P (segs s) ->
  emit_chroms gs chroms ends p_pop ha hb prev k i s = Ok s' -> Forall P (segs s').
Proof.
  induction k as [|k IH]; intros i s s' Hs H; cbn [emit_chroms] in H.
  - inversion H; subst; exact Hs.
  - destruct (nth_error chroms i) as [c|]; [|discriminate].
    destruct (nth_error ends i) as [[ebp ecm]|]; [|discriminate].
    destruct (gs p_pop (hap_of ha hb (homolog s)) c (start_bp s) ebp ecm prev) as [g|] eqn:Eg; [|discriminate].
    destruct (next_h s) as [[b r]|]; [|discriminate].
    eapply IH; [|exact H]. cbn [segs]. apply Forall_app. split; [exact Hs|exact (GSP _ _ _ _ _ _ Eg)].
Qed.

Lemma step_forall s e s' : Forall P (segs s) ->
  step gs chroms ends p_pop ha hb prev s e = Ok s' -> Forall P (segs s').
Proof.
  intros Hs H. unfold step in H.
  match type of H with bind ?X _ = _ => destruct X as [s1|] eqn:E1; [|discriminate] end.
  cbn [bind] in H.
  match type of H with bind ?X _ = _ => destruct X as [g|] eqn:Eg; [|discriminate] end.
  cbn [bind] in H. inversion H; subst s'. cbn [segs].
  apply Forall_app. split; [|exact (GSP _ _ _ _ _ _ Eg)].
  (* segs s1 satisfies P *)
  clear H Eg g.
  cbn [segs prev_chrom prev_ind homolog hd start_bp] in E1.
  destruct (negb (ev_chrom e =? prev_chrom s)) eqn:En.
  2:{ injection E1 as <-. exact Hs. }
  match type of E1 with bind ?X _ = _ => destruct X as [s0|] eqn:E0; [|discriminate] end.
  cbn [bind] in E1.
  assert (Hs0 : Forall P (segs s0)).
  { destruct (last_opt (segs s)) as [l|].
    - destruct (nth_error ends (prev_ind s)) as [[ebp ecm]|]; [|discriminate].
      destruct (endc l =? ebp).
      + destruct (nth_error chroms (S (prev_ind s))); [|discriminate]. injection E0 as <-. exact Hs.
      + injection E0 as <-. exact Hs.
    - injection E0 as <-. exact Hs. }
  destruct (index_of (ev_chrom e) chroms) as [ci|]; [|discriminate].
  match type of E1 with bind ?X _ = _ => destruct X as [s2|] eqn:E2; [|discriminate] end.
  cbn [bind] in E1. injection E1 as <-. cbn [segs].
  eapply emit_forall; [exact Hs0|exact E2].
Qed.

Lemma run_forall evs : forall s s', Forall P (segs s) ->
  run gs chroms ends p_pop ha hb prev evs s = Ok s' -> Forall P (segs s').
Proof.
  induction evs as [|e r IH]; intros s s' Hs H; cbn [run] in H.
  - inversion H; subst; exact Hs.
  - destruct (step gs chroms ends p_pop ha hb prev s e) as [s1|] eqn:E1; [|discriminate].
    cbn [bind] in H. eapply IH; [|exact H]. eapply step_forall; eauto.
Qed.

Theorem sim_sample_forall h0 hdraws evs out :
  sim_sample gs chroms ends p_pop ha hb prev h0 hdraws evs = Ok out -> Forall P out.
Proof.
  unfold sim_sample. destruct chroms as [|c0 cr] eqn:Ech; [discriminate|]. rewrite <- Ech.
  intros H.
  destruct (run gs chroms ends p_pop ha hb prev evs (mkst [] c0 0 h0 hdraws 0)) as [s|] eqn:Er; [|discriminate].
  cbn [bind] in H. assert (Hs : Forall P (segs s)) by (eapply run_forall; [|exact Er]; constructor).
  unfold finish in H.
  match type of H with bind ?X _ = _ => destruct X as [s1|] eqn:E1; [|discriminate] end.
  cbn [bind] in H.
  match type of H with bind ?X _ = _ => destruct X as [s2|] eqn:E2; [|discriminate] end.
  cbn [bind] in H. inversion H; subst out.
  eapply emit_forall; [|exact E2].
  destruct (last_opt (segs s)) as [l|].
  - destruct (nth_error ends (prev_ind s)) as [[ebp ecm]|]; [|discriminate].
    destruct (endc l =? ebp); injection E1 as <-; exact Hs.
  - injection E1 as <-. exact Hs.
Qed.
End Forall.

(* labels returned by get_segment: the founder's population, or a label of the chosen parent *)
Lemma copy_loop_in c e : forall l lst cp st, copy_loop c e l lst = (cp, Some st) ->
  (forall s, In s cp -> In s l) /\ (In st l \/ lst = Some st).
Proof.
  induction l as [|s r IH]; intros lst cp st H; cbn [copy_loop] in H.
  - inversion H; subst. split; [intros ? []|right; reflexivity].
  - destruct ((e <=? endc s) || (c <? chrom s)).
    + inversion H; subst. split; [intros ? []|left; left; reflexivity].
    + destruct (copy_loop c e r (Some s)) as [cp' st'] eqn:E. inversion H; subst cp st'.
      destruct (IH _ _ _ E) as [A B]. split.
      * intros x [<-|Hx]; [left; reflexivity|right; exact (A x Hx)].
      * destruct B as [B|B]; [left; right; exact B|inversion B; subst; left; left; reflexivity].
Qed.

Lemma get_segment_labels_from p h c a e m prev g :
  get_segment p h c a e m prev = Ok g ->
  Forall (fun s => (p <> 0 /\ pop s = p) \/
                   (p = 0 /\ exists parent t, nthZ prev h = Some parent /\ In t parent /\ pop t = pop s)) g.
Proof.
  unfold get_segment, get_segment_with. destruct (p =? 0) eqn:Ep; cbn [negb].
  - apply Z.eqb_eq in Ep. destruct (nthZ prev h) as [parent|] eqn:En; [|discriminate].
    set (rest := skipn _ parent).
    destruct (copy_loop c e rest None) as [cp [st|]] eqn:EL; [|discriminate].
    intros H. inversion H; subst g. destruct (copy_loop_in _ _ _ _ _ _ EL) as [A B].
    assert (Hrest : forall s, In s rest -> In s parent).
    { intros s Hs. rewrite <- (firstn_skipn (Z.to_nat (start_segment a c parent)) parent).
      apply in_or_app. right. exact Hs. }
    apply Forall_app. split.
    + apply Forall_forall. intros s Hs. right. split; [exact Ep|]. exists parent, s.
      split; [reflexivity|]. split; [apply Hrest, A, Hs|reflexivity].
    + constructor; [|constructor]. right. split; [exact Ep|]. exists parent, st.
      split; [reflexivity|]. split; [|reflexivity]. destruct B as [B|B]; [apply Hrest, B|discriminate].
  - apply Z.eqb_neq in Ep. intros H. inversion H; subst g. constructor; [|constructor].
    left. split; [exact Ep|reflexivity].
Qed.

(* A set of labels closed under "founder draws" is closed under simulation:
   if every founder draw of every generation lies in [allowed] and the
   generation before carries only allowed labels, so does every child. *)
Definition labels_in (allowed : Z -> Prop) (g : list (list seg)) : Prop :=
  forall h s, In h g -> In s h -> allowed (pop s).

Theorem child_labels allowed chroms ends prev d out :
  labels_in allowed prev -> (d_pop d <> 0 -> allowed (d_pop d)) ->
  sim_child chroms ends prev d = Ok out -> forall s, In s out -> allowed (pop s).
Proof.
  intros Hprev Hd H. unfold sim_child in H.
  apply (sim_sample_forall get_segment chroms ends (d_pop d) (d_ha d) (d_hb d) prev
           (fun s => allowed (pop s))) in H.
  - apply Forall_forall. exact H.
  - intros h c a e m g Hg. pose proof (get_segment_labels_from _ _ _ _ _ _ _ _ Hg) as HF.
    eapply Forall_impl; [|exact HF]. cbn beta. intros s [[Hp Hs]|[Hp [parent [t [Hn [Ht Hts]]]]]].
    + rewrite Hs. exact (Hd Hp).
    + rewrite <- Hts. apply (Hprev parent t); [|exact Ht].
      unfold nthZ in Hn. destruct (h <? 0); [discriminate|]. eapply nth_error_In; eauto.
Qed.

Theorem generations_labels allowed chroms ends gens : forall prev g,
  labels_in allowed prev ->
  Forall (Forall (fun d => d_pop d <> 0 -> allowed (d_pop d))) gens ->
  sim_generations chroms ends prev gens = Ok g -> labels_in allowed g.
Proof.
  induction gens as [|ds r IH]; intros prev g Hprev Hall H; cbn [sim_generations] in H.
  - inversion H; subst. exact Hprev.
  - inversion Hall as [|? ? Hds Hr]; subst.
    destruct (sim_generation chroms ends prev ds) as [g1|] eqn:E1; [|discriminate]. cbn [bind] in H.
    apply (IH g1 g); [|exact Hr|exact H].
    (* one generation *)
    clear IH H Hall Hr. unfold sim_generation in E1. revert g1 E1.
    induction Hds as [|d ds' Hd Hds' IHd]; intros g1 E1; cbn [mapM] in E1.
    + inversion E1; subst. intros ? ? [].
    + destruct (sim_child chroms ends prev d) as [out|] eqn:Eo; [|discriminate]. cbn [bind] in E1.
      destruct (mapM (sim_child chroms ends prev) ds') as [outs|] eqn:Em; [|discriminate]. cbn [bind] in E1.
      inversion E1; subst g1. intros h s [<-|Hh] Hs.
      * exact (child_labels allowed chroms ends prev d out Hprev Hd Eo s Hs).
      * exact (IHd outs eq_refl h s Hh Hs).
Qed.

(* the written file: exactly the sampled haplotypes, strand _1 then _2, 2n rows for 2n indices *)
Lemma write_rows_spec gen : forall idx ind rows, write_rows gen idx ind = Ok rows ->
  length rows = length idx /\ headers_ok rows ind = true /\
  Forall2 (fun (row : bprow) i => nthZ gen i = Some (snd row)) rows idx.
Proof.
  induction idx as [|i r IH]; intros ind rows H; cbn [write_rows] in H.
  - inversion H; subst. cbn. auto.
  - destruct (nthZ gen i) as [h|] eqn:En; [|discriminate].
    destruct (write_rows gen r (ind + 1)) as [rows'|] eqn:E; [|discriminate]. cbn [bind] in H.
    inversion H; subst rows. destruct (IH _ _ E) as [A [B C]]. cbn [length headers_ok].
    split; [lia|]. split; [rewrite !Z.eqb_refl; exact B|]. constructor; [exact En|exact C].
Qed.

Theorem write_breakpoints_spec gen idx rows : write_breakpoints gen idx = Ok rows ->
  length rows = length idx /\ headers_ok rows 0 = true /\
  Forall2 (fun (row : bprow) i => nthZ gen i = Some (snd row)) rows idx.
Proof. apply write_rows_spec. Qed.
