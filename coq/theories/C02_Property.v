(* C02 - property theorems only. *)
From HV Require Import Prelude Tracts Tiling C01_Model C01_Check C01_Kernel
  C02_Model C02_Check C02_Tiling C02_Generations C02_Proofs.

(* One child: for every strictly increasing chromosome list, every event list ordered by
   (chromosome, bp) below the sentinel and every stream of homolog draws, the per-child loop of
   _simulate returns (never fails) a haplotype that tiles the chromosomes - given only the shape
   contract of get_segment ... *)
Theorem C02_sim_sample_tiles :
  forall gs chroms ends p_pop ha hb prev,
  length ends = length chroms ->
  (forall i e, nth_error ends i = Some e -> fst e = MAXC) ->
  incr chroms ->
  (forall (h : bool) c a e m, In c chroms -> 0 <= a -> a <= e -> e <= MAXC ->
     exists g, gs p_pop (hap_of ha hb h) c a e m prev = Ok g /\ run_ok c (a - 1) g e) ->
  forall h0 hdraws evs,
  chroms <> [] -> (length chroms <= length hdraws)%nat -> evs_ok chroms 0 (-1) evs ->
  exists out, sim_sample gs chroms ends p_pop ha hb prev h0 hdraws evs = Ok out /\ tiles chroms out.
Proof. exact sim_sample_tiles. Qed.
Print Assumptions C02_sim_sample_tiles.

(* ... which the real get_segment satisfies for founders and for parents that tile: so every
   generation of every simulation tiles, for any number of generations (also the
   "accepted inputs simulate to completion" half of C20: the result is Ok). *)
Theorem C02_generations_tile :
  forall chroms ends,
  length ends = length chroms ->
  (forall i e, nth_error ends i = Some e -> fst e = MAXC) ->
  incr chroms -> (forall c, In c chroms -> 0 <= c) -> chroms <> [] ->
  forall gens prev, gen_tiles chroms prev -> gens_ok chroms (length prev) gens ->
  exists g, sim_generations chroms ends prev gens = Ok g /\ gen_tiles chroms g.
Proof. exact generations_tile. Qed.
Print Assumptions C02_generations_tile.

Theorem C02_simulation_tiles :
  forall chroms ends,
  length ends = length chroms ->
  (forall i e, nth_error ends i = Some e -> fst e = MAXC) ->
  incr chroms -> (forall c, In c chroms -> 0 <= c) -> chroms <> [] ->
  forall gens, gens_ok chroms 0 gens ->
  exists g, sim_generations chroms ends [] gens = Ok g /\ gen_tiles chroms g.
Proof. exact simulation_tiles. Qed.
Print Assumptions C02_simulation_tiles.

(* the hypotheses are satisfiable: two chromosomes, a founder generation, then an admixed child
   with one recombination event on the second chromosome *)
Example C02_nonvacuous :
  let chroms := [1; 2] in let ends := [(MAXC, 10); (MAXC, 20)] in
  let founders := [mkcd 1 0 0 false [true; false] []; mkcd 2 0 0 true [true; true] []] in
  let kid := mkcd 0 0 1 false [true; false] [mkev 2 500 15] in
  gens_ok chroms 0 [founders; [kid]] /\
  sim_generations chroms ends [] [founders; [kid]]
    = Ok [[mkseg 1 1 MAXC 10; mkseg 2 2 500 15; mkseg 1 2 MAXC 20]].
Proof.
  cbn zeta. split; [|vm_compute; reflexivity].
  cbn [gens_ok length]. split; [|split; [|exact I]].
  - constructor; [|constructor; [|constructor]].
    + cbn. split; [lia|]. split; [exact I|]. intros H; discriminate.
    + cbn. split; [lia|]. split; [exact I|]. intros H; discriminate.
  - constructor; [|constructor]. cbn [d_hd d_evs d_pop d_ha d_hb length]. split; [lia|]. split.
    + cbn [evs_ok ev_chrom ev_bp]. exists 1%nat. split; [reflexivity|]. split; [right; lia|].
      split; [unfold MAXC; lia|exact I].
    + intros _. lia.
Qed.
Print Assumptions C02_nonvacuous.

(* tiling = every position of every requested chromosome has exactly one covering tract/label *)
Theorem C02_tiles_cover : forall chs, incr chs -> forall l, tiles chs l ->
  forall c p, In c chs -> 0 <= p <= MAXC -> exists v, label_at l c p = Some v.
Proof. exact tiles_cover. Qed.
Print Assumptions C02_tiles_cover.

(* the boolean checker evaluated on the implementation's .bp file means tiling *)
Theorem C02_tilesb_sound : forall chs l, tilesb chs l = true -> tiles chs l.
Proof. exact tilesb_sound. Qed.
Print Assumptions C02_tilesb_sound.

(* labels: only founder draws ever appear (never the admixed pseudo-population 0 unless drawn
   as a founder, which numpy's choice(p) excludes when its fraction is 0) *)
Theorem C02_generations_labels : forall allowed chroms ends gens prev g,
  labels_in allowed prev ->
  Forall (Forall (fun d => d_pop d <> 0 -> allowed (d_pop d))) gens ->
  sim_generations chroms ends prev gens = Ok g -> labels_in allowed g.
Proof. exact generations_labels. Qed.
Print Assumptions C02_generations_labels.

(* the file: one row per drawn index, Sample_{i/2+1}_{i mod 2+1} in order, the sampled haplotypes *)
Theorem C02_write_breakpoints_spec : forall gen idx rows, write_breakpoints gen idx = Ok rows ->
  length rows = length idx /\ headers_ok rows 0 = true /\
  Forall2 (fun (row : bprow) i => nthZ gen i = Some (snd row)) rows idx.
Proof. exact write_breakpoints_spec. Qed.
Print Assumptions C02_write_breakpoints_spec.

(* centimorgan ends: with a genetic map whose cM is a monotone function of bp on every chromosome,
   every tract end of every generation is a marker point of the map, hence cM ends never decrease *)
From HV Require Import C02_Cm.
Theorem C02_generations_on_map :
  forall (mk : Z -> Z -> Z -> Prop) chroms ends,
  (forall i c ebp ecm, nth_error chroms i = Some c -> nth_error ends i = Some (ebp, ecm) -> mk c ebp ecm) ->
  forall gens prev g, gen_on_map mk prev ->
  Forall (Forall (fun d => evs_on_map mk (d_evs d))) gens ->
  sim_generations chroms ends prev gens = Ok g -> gen_on_map mk g.
Proof. exact generations_on_map. Qed.
Print Assumptions C02_generations_on_map.

Theorem C02_on_map_cm_monotone :
  forall (mk : Z -> Z -> Z -> Prop),
  (forall c b1 m1 b2 m2, mk c b1 m1 -> mk c b2 m2 -> b1 < b2 -> m1 <= m2) ->
  forall l, sorted l -> Forall (on_map mk) l -> cm_monotone l = true.
Proof. exact on_map_cm_monotone. Qed.
Print Assumptions C02_on_map_cm_monotone.

(* ---- _prepare_coords: the sentinel on EVERY chromosome; whole runs; histories of runs -------- *)
From HV Require Import C02_Coords C02_SeqCheck.

(* what _prepare_coords hands to _simulate: per requested chromosome a non-empty marker list that is
   a contiguous piece of that chromosome's map file (the whole file without --region) whose last
   marker's bp position is replaced by the sentinel; as many lists as chromosomes *)
Theorem C02_prepare_coords_spec : forall maps chroms rg cs,
  prepare_coords maps chroms rg = Ok cs ->
  cs <> [] /\ Forall (piece_of maps chroms) cs /\
  (rg = None -> length cs = length chroms) /\
  (rg <> None -> length cs = 1%nat) /\
  (rg = None -> cs = map (fun f : mapfile => seal (snd f)) (filter (wanted chroms) maps)).
Proof. exact prepare_coords_spec. Qed.
Print Assumptions C02_prepare_coords_spec.

(* the end coordinate of every chromosome - first, middle or last - is the sentinel *)
Theorem C02_prepare_coords_ends : forall maps chroms rg cs,
  prepare_coords maps chroms rg = Ok cs ->
  forall i e, nth_error (ends_of cs) i = Some e -> fst e = MAXC.
Proof. exact prepare_coords_ends. Qed.
Print Assumptions C02_prepare_coords_ends.

Theorem C02_seal_spec : forall l, l <> [] ->
  exists pre m, l = pre ++ [m] /\ seal l = pre ++ [(MAXC, snd m)].
Proof. exact seal_spec. Qed.
Print Assumptions C02_seal_spec.

(* the whole run, without any hypothesis on the end coordinates *)
Theorem C02_run_tiles : forall maps r cs,
  prepare_coords maps (r_chroms r) (r_region r) = Ok cs ->
  (r_region r = None \/ length (r_chroms r) = 1%nat) ->
  incr (r_chroms r) -> (forall c, In c (r_chroms r) -> 0 <= c) ->
  gens_ok (r_chroms r) 0 (r_gens r) ->
  exists g, sim_generations (r_chroms r) (ends_of cs) [] (r_gens r) = Ok g /\ gen_tiles (r_chroms r) g.
Proof. exact run_tiles. Qed.
Print Assumptions C02_run_tiles.

(* hypotheses satisfiable: three map files, the middle chromosome's map ends far below the others;
   all three ends are the sentinel; a region ending inside chromosome 2 *)
Example C02_prepare_coords_example :
  let maps := [(1, [(100, 0); (5000, 1); (90000, 2)]); (2, [(10, 0); (400, 1)]); (23, [(7, 0); (800, 3); (9000, 4)])] in
  prepare_coords maps [1; 2; 23] None
    = Ok [[(100, 0); (5000, 1); (MAXC, 2)]; [(10, 0); (MAXC, 1)]; [(7, 0); (800, 3); (MAXC, 4)]]
  /\ prepare_coords maps [23] (Some (5, 700)) = Ok [[(7, 0); (MAXC, 3)]]
  /\ prepare_coords maps [23] (Some (8, 20000)) = Ok [[(800, 3); (MAXC, 4)]]
  /\ prepare_coords maps [1; 3] None = Err E_Exception.
Proof. vm_compute. repeat split; reflexivity. Qed.
Print Assumptions C02_prepare_coords_example.

(* a run of a history of runs is the run alone: the model of a run takes that run's inputs only *)
Theorem C02_run_independent_of_history : forall maps pre r post,
  nth_error (run_seq maps (pre ++ r :: post)) (length pre) = Some (model_run maps r)
  /\ run_seq maps [r] = [model_run maps r].
Proof. intros. split; [apply run_seq_nth|apply run_seq_alone]. Qed.
Print Assumptions C02_run_independent_of_history.

(* the history checker: every run satisfies the file-level property and equals the run alone *)
Theorem C02_holds_seq_sound : forall k, holds_seq k = true ->
  forall r, In r (s_runs k) ->
    holds_bp (bcase_of r) = true /\
    (sr_alone r = Err E_Unobserved \/ sr_obs r = Err E_Unobserved \/ sr_obs r = sr_alone r).
Proof. exact holds_seq_sound. Qed.
Print Assumptions C02_holds_seq_sound.

(* the file-level checker demands the sentinel as an end on every requested chromosome *)
Theorem C02_tilesb_every_chrom_sentinel : forall chs l, tilesb chs l = true ->
  forall c, In c chs -> exists s, In s l /\ chrom s = c /\ endc s = MAXC.
Proof. exact tilesb_every_chrom_sentinel. Qed.
Print Assumptions C02_tilesb_every_chrom_sentinel.
