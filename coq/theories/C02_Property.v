(* C02 - property theorems only. *)
From HV Require Import Prelude Tracts Tiling C01_Model C01_Check C01_Kernel
  C02_Model C02_Check C02_Tiling C02_Generations C02_Proofs.

(* One child: for every strictly increasing chromosome list, every event list ordered by
   (chromosome, bp) below the sentinel and every stream of homolog draws, the per-child loop of
   _simulate returns (never fails) a haplotype that tiles the chromosomes - given only the shape
   contract of get_segment ... *)
Theorem C02_sim_sample_tiles :
  forall gs chroms ends p_pop ha hb prev,
  length ends = length chroms ->
  (forall i e, nth_error ends i = Some e -> fst e = MAXC) ->
  incr chroms ->
  (forall (h : bool) c a e m, In c chroms -> 0 <= a -> a <= e -> e <= MAXC ->
     exists g, gs p_pop (hap_of ha hb h) c a e m prev = Ok g /\ run_ok c (a - 1) g e) ->
  forall h0 hdraws evs,
  chroms <> [] -> (length chroms <= length hdraws)%nat -> evs_ok chroms 0 (-1) evs ->
  exists out, sim_sample gs chroms ends p_pop ha hb prev h0 hdraws evs = Ok out /\ tiles chroms out.
Proof. exact sim_sample_tiles. Qed.
Print Assumptions C02_sim_sample_tiles.

(* ... which the real get_segment satisfies for founders and for parents that tile: so every
   generation of every simulation tiles, for any number of generations (also the
   "accepted inputs simulate to completion" half of C20: the result is Ok). *)
Theorem C02_generations_tile :
  forall chroms ends,
  length ends = length chroms ->
  (forall i e, nth_error ends i = Some e -> fst e = MAXC) ->
  incr chroms -> (forall c, In c chroms -> 0 <= c) -> chroms <> [] ->
  forall gens prev, gen_tiles chroms prev -> gens_ok chroms (length prev) gens ->
  exists g, sim_generations chroms ends prev gens = Ok g /\ gen_tiles chroms g.
Proof. exact generations_tile. Qed.
Print Assumptions C02_generations_tile.

Theorem C02_simulation_tiles :
  forall chroms ends,
  length ends = length chroms ->
  (forall i e, nth_error ends i = Some e -> fst e = MAXC) ->
  incr chroms -> (forall c, In c chroms -> 0 <= c) -> chroms <> [] ->
  forall gens, gens_ok chroms 0 gens ->
  exists g, sim_generations chroms ends [] gens = Ok g /\ gen_tiles chroms g.
Proof. exact simulation_tiles. Qed.
Print Assumptions C02_simulation_tiles.

(* the hypotheses are satisfiable: two chromosomes, a founder generation, then an admixed child
   with one recombination event on the second chromosome *)
Example C02_nonvacuous :
  let chroms := [1; 2] in let ends := [(MAXC, 10); (MAXC, 20)] in
  let founders := [mkcd 1 0 0 false [true; false] []; mkcd 2 0 0 true [true; true] []] in
  let kid := mkcd 0 0 1 false [true; false] [mkev 2 500 15] in
  gens_ok chroms 0 [founders; [kid]] /\
  sim_generations chroms ends [] [founders; [kid]]
    = Ok [[mkseg 1 1 MAXC 10; mkseg 2 2 500 15; mkseg 1 2 MAXC 20]].
Proof.
  cbn zeta. split; [|vm_compute; reflexivity].
  cbn [gens_ok length]. split; [|split; [|exact I]].
  - constructor; [|constructor; [|constructor]].
    + cbn. split; [lia|]. split; [exact I|]. intros H; discriminate.
    + cbn. split; [lia|]. split; [exact I|]. intros H; discriminate.
  - constructor; [|constructor]. cbn [d_hd d_evs d_pop d_ha d_hb length]. split; [lia|]. split.
    + cbn [evs_ok ev_chrom ev_bp]. exists 1%nat. split; [reflexivity|]. split; [right; lia|].
      split; [unfold MAXC; lia|exact I].
    + intros _. lia.
Qed.
Print Assumptions C02_nonvacuous.

(* tiling = every position of every requested chromosome has exactly one covering tract/label *)
Theorem C02_tiles_cover : forall chs, incr chs -> forall l, tiles chs l ->
  forall c p, In c chs -> 0 <= p <= MAXC -> exists v, label_at l c p = Some v.
Proof. exact tiles_cover. Qed.
Print Assumptions C02_tiles_cover.

(* the boolean checker evaluated on the implementation's .bp file means tiling *)
Theorem C02_tilesb_sound : forall chs l, tilesb chs l = true -> tiles chs l.
Proof. exact tilesb_sound. Qed.
Print Assumptions C02_tilesb_sound.

(* labels: only founder draws ever appear (never the admixed pseudo-population 0 unless drawn
   as a founder, which numpy's choice(p) excludes when its fraction is 0) *)
Theorem C02_generations_labels : forall allowed chroms ends gens prev g,
  labels_in allowed prev ->
  Forall (Forall (fun d => d_pop d <> 0 -> allowed (d_pop d))) gens ->
  sim_generations chroms ends prev gens = Ok g -> labels_in allowed g.
Proof. exact generations_labels. Qed.
Print Assumptions C02_generations_labels.

(* the file: one row per drawn index, Sample_{i/2+1}_{i mod 2+1} in order, the sampled haplotypes *)
Theorem C02_write_breakpoints_spec : forall gen idx rows, write_breakpoints gen idx = Ok rows ->
  length rows = length idx /\ headers_ok rows 0 = true /\
  Forall2 (fun (row : bprow) i => nthZ gen i = Some (snd row)) rows idx.
Proof. exact write_breakpoints_spec. Qed.
Print Assumptions C02_write_breakpoints_spec.

(* centimorgan ends: with a genetic map whose cM is a monotone function of bp on every chromosome,
   every tract end of every generation is a marker point of the map, hence cM ends never decrease *)
From HV Require Import C02_Cm.
Theorem C02_generations_on_map :
  forall (mk : Z -> Z -> Z -> Prop) chroms ends,
  (forall i c ebp ecm, nth_error chroms i = Some c -> nth_error ends i = Some (ebp, ecm) -> mk c ebp ecm) ->
  forall gens prev g, gen_on_map mk prev ->
  Forall (Forall (fun d => evs_on_map mk (d_evs d))) gens ->
  sim_generations chroms ends prev gens = Ok g -> gen_on_map mk g.
Proof. exact generations_on_map. Qed.
Print Assumptions C02_generations_on_map.

Theorem C02_on_map_cm_monotone :
  forall (mk : Z -> Z -> Z -> Prop),
  (forall c b1 m1 b2 m2, mk c b1 m1 -> mk c b2 m2 -> b1 < b2 -> m1 <= m2) ->
  forall l, sorted l -> Forall (on_map mk) l -> cm_monotone l = true.
Proof. exact on_map_cm_monotone. Qed.
Print Assumptions C02_on_map_cm_monotone.

(* ---- _prepare_coords: the sentinel on EVERY chromosome; whole runs; histories of runs -------- *)
From HV Require Import C02_Coords C02_SeqCheck.

(* what _prepare_coords hands to _simulate: per requested chromosome a non-empty marker list that is
   a contiguous piece of that chromosome's map file (the whole file without --region) whose last
   marker's bp position is replaced by the sentinel; as many lists as chromosomes *)
Theorem C02_prepare_coords_spec : forall maps chroms rg cs,
  prepare_coords maps chroms rg = Ok cs ->
  cs <> [] /\ Forall (piece_of maps chroms) cs /\
  (rg = None -> length cs = length chroms) /\
  (rg <> None -> length cs = 1%nat) /\
  (rg = None -> cs = map (fun f : mapfile => seal (snd f)) (filter (wanted chroms) maps)).
Proof. exact prepare_coords_spec. Qed.
Print Assumptions C02_prepare_coords_spec.

(* the end coordinate of every chromosome - first, middle or last - is the sentinel *)
Theorem C02_prepare_coords_ends : forall maps chroms rg cs,
  prepare_coords maps chroms rg = Ok cs ->
  forall i e, nth_error (ends_of cs) i = Some e -> fst e = MAXC.
Proof. exact prepare_coords_ends. Qed.
Print Assumptions C02_prepare_coords_ends.

Theorem C02_seal_spec : forall l, l <> [] ->
  exists pre m, l = pre ++ [m] /\ seal l = pre ++ [(MAXC, snd m)].
Proof. exact seal_spec. Qed.
Print Assumptions C02_seal_spec.

(* the whole run, without any hypothesis on the end coordinates *)
Theorem C02_run_tiles : forall maps r cs,
  prepare_coords maps (r_chroms r) (r_region r) = Ok cs ->
  (r_region r = None \/ length (r_chroms r) = 1%nat) ->
  incr (r_chroms r) -> (forall c, In c (r_chroms r) -> 0 <= c) ->
  gens_ok (r_chroms r) 0 (r_gens r) ->
  exists g, sim_generations (r_chroms r) (ends_of cs) [] (r_gens r) = Ok g /\ gen_tiles (r_chroms r) g.
Proof. exact run_tiles. Qed.
Print Assumptions C02_run_tiles.

(* hypotheses satisfiable: three map files, the middle chromosome's map ends far below the others;
   all three ends are the sentinel; a region ending inside chromosome 2 *)
Example C02_prepare_coords_example :
  let maps := [(1, [(100, 0); (5000, 1); (90000, 2)]); (2, [(10, 0); (400, 1)]); (23, [(7, 0); (800, 3); (9000, 4)])] in
  prepare_coords maps [1; 2; 23] None
    = Ok [[(100, 0); (5000, 1); (MAXC, 2)]; [(10, 0); (MAXC, 1)]; [(7, 0); (800, 3); (MAXC, 4)]]
  /\ prepare_coords maps [23] (Some (5, 700)) = Ok [[(7, 0); (MAXC, 3)]]
  /\ prepare_coords maps [23] (Some (8, 20000)) = Ok [[(800, 3); (MAXC, 4)]]
  /\ prepare_coords maps [1; 3] None = Err E_Exception.
Proof. vm_compute. repeat split; reflexivity. Qed.
Print Assumptions C02_prepare_coords_example.

(* a run of a history of runs is the run alone: the model of a run takes that run's inputs only *)
Theorem C02_run_independent_of_history : forall maps pre r post,
  nth_error (run_seq maps (pre ++ r :: post)) (length pre) = Some (model_run maps r)
  /\ run_seq maps [r] = [model_run maps r].
Proof. intros. split; [apply run_seq_nth|apply run_seq_alone]. Qed.
Print Assumptions C02_run_independent_of_history.

(* the history checker: every run satisfies the file-level property and equals the run alone *)
Theorem C02_holds_seq_sound : forall k, holds_seq k = true ->
  forall r, In r (s_runs k) ->
    holds_bp (bcase_of r) = true /\
    (sr_alone r = Err E_Unobserved \/ sr_obs r = Err E_Unobserved \/ sr_obs r = sr_alone r).
Proof. exact holds_seq_sound. Qed.
Print Assumptions C02_holds_seq_sound.

(* the file-level checker demands the sentinel as an end on every requested chromosome *)
Theorem C02_tilesb_every_chrom_sentinel : forall chs l, tilesb chs l = true ->
  forall c, In c chs -> exists s, In s l /\ chrom s = c /\ endc s = MAXC.
Proof. exact tilesb_every_chrom_sentinel. Qed.
Print Assumptions C02_tilesb_every_chrom_sentinel.

(* ---- "in a form that haptools' own breakpoint reader and karyogram accept" ------------------------ *)
From HV Require Import BpText C02_Reader C02_ReaderCheck C02_ReaderRun.
From HV Require C05_Model C18_Model.

(* Breakpoints.read (C05's model, with or without its field-width refusal) of the text write_breakpoints
   writes for 2n drawn haplotypes returns Ok: the samples Sample_1 .. Sample_n in order (C02_table_keys),
   each with its two strands' blocks exactly as written.  Hypotheses: numpy's str -> uint32 inverts
   Python's str(int) ([dec], concrete); per written tract: the label does not start with '#' and has
   AT MOST 6 CHARACTERS (the reader's 'U6' field; labels are copied from the model file's header - see
   C02_long_label_mangled), chromosome number 0..511, end 0..2^32-1, float(repr(cM)) = cM. *)
Theorem C02_reader_accepts :
  forall (pop_name fmt_cm : Z -> str) (strict : bool) (parse_int parse_flt : str -> res Z),
  (forall z, 0 <= z <= 4294967295 -> parse_int (dec z) = Ok z) ->
  forall (gen : list (list seg)) (idx : list Z) (n : nat) (rows : list bprow),
  write_breakpoints gen idx = Ok rows -> length idx = (2 * n)%nat ->
  (forall i h, In i idx -> nthZ gen i = Some h -> Forall (seg_ok pop_name fmt_cm parse_flt) h) ->
  exists hs, Forall2 (fun h i => nthZ gen i = Some h) hs idx /\ length (pair_up hs) = n /\
    C05_Model.bp_read strict parse_int parse_flt None (render pop_name fmt_cm rows)
      = Ok (table pop_name 1 (pair_up hs)).
Proof. exact reader_accepts. Qed.
Print Assumptions C02_reader_accepts.

Theorem C02_table_keys : forall pop_name ps k,
  map fst (table pop_name k ps) = map (fun i => hdr_name (k + Z.of_nat i)) (seq 0 (length ps)).
Proof. exact table_keys. Qed.
Print Assumptions C02_table_keys.

(* karyogram.GetHaplotypeBlocks (C18's model) on the same text, for every written sample m: two strands,
   one block per written line in order ([C02_karyogram_blocks]).  Hypotheses: Python's int() inverts
   str(int), chromosome numbers >= 0, float() reads the cM text. *)
Theorem C02_karyogram_accepts :
  forall (pop_name fmt_cm : Z -> str) (F : Type) (parse_flt : str -> res F) (parse_int : str -> res Z)
         (eps0 : F) (plus_eps : F -> F) (fval : Z -> F),
  (forall z, 0 <= z -> parse_int (dec z) = Ok z) ->
  forall (gen : list (list seg)) (idx : list Z) (n : nat) (rows : list bprow),
  write_breakpoints gen idx = Ok rows -> length idx = (2 * n)%nat ->
  (forall i h, In i idx -> nthZ gen i = Some h -> Forall (seg_ok18 fmt_cm F parse_flt fval) h) ->
  exists hs, Forall2 (fun h i => nthZ gen i = Some h) hs idx /\ length (pair_up hs) = n /\
    forall m a b, 1 <= m -> nth_error (pair_up hs) (Z.to_nat (m - 1)) = Some (a, b) ->
      C18_Model.parse_blocks F parse_flt parse_int eps0 plus_eps (hdr_name m) (render pop_name fmt_cm rows)
        = Ok [kb pop_name F eps0 plus_eps fval [] a; kb pop_name F eps0 plus_eps fval [] b].
Proof. exact karyogram_accepts. Qed.
Print Assumptions C02_karyogram_accepts.

Theorem C02_karyogram_blocks : forall pop_name F eps0 plus_eps fval h,
  length (kb pop_name F eps0 plus_eps fval [] h) = length h /\
  map C18_Model.h_pop (kb pop_name F eps0 plus_eps fval [] h) = map (fun s => pop_name (pop s)) h /\
  map C18_Model.h_chrom (kb pop_name F eps0 plus_eps fval [] h) = map chrom h /\
  map C18_Model.h_end (kb pop_name F eps0 plus_eps fval [] h) = map (fun s => fval (cm s)) h.
Proof. exact kb_facts. Qed.
Print Assumptions C02_karyogram_blocks.

(* the whole run: the per-tract hypotheses follow from the tiling and label theorems; what remains are the
   numpy draw contracts, the codecs and the field-width hypothesis on the names of the populations that
   numpy's choice(p) can return *)
Theorem C02_run_file_accepted :
  forall (pop_name fmt_cm : Z -> str) (strict : bool) (parse_int parse_flt : str -> res Z),
  (forall z, 0 <= z <= 4294967295 -> parse_int (dec z) = Ok z) ->
  (forall m, parse_flt (fmt_cm m) = Ok m) ->
  forall (F : Type) (kparse_flt : str -> res F) (kparse_int : str -> res Z) (eps0 : F) (plus_eps : F -> F) (fval : Z -> F),
  (forall z, 0 <= z -> kparse_int (dec z) = Ok z) ->
  (forall m, kparse_flt (fmt_cm m) = Ok (fval m)) ->
  forall allowed : Z -> Prop,
  (forall i, allowed i -> first_char_is c_hash (pop_name i) = false /\ (length (pop_name i) <= 6)%nat) ->
  forall (maps : list mapfile) (r : run_in) (cs : list (list marker)) (n : nat),
  prepare_coords maps (r_chroms r) (r_region r) = Ok cs ->
  r_region r = None \/ length (r_chroms r) = 1%nat ->
  incr (r_chroms r) -> (forall c, In c (r_chroms r) -> 0 <= c < 512) ->
  gens_ok (r_chroms r) 0 (r_gens r) ->
  Forall (Forall (fun d => d_pop d <> 0 -> allowed (d_pop d))) (r_gens r) ->
  length (r_idx r) = (2 * n)%nat ->
  (forall g, sim_generations (r_chroms r) (ends_of cs) [] (r_gens r) = Ok g ->
             forall i, In i (r_idx r) -> 0 <= i < lenZ g) ->
  exists g rows hs,
    sim_generations (r_chroms r) (ends_of cs) [] (r_gens r) = Ok g /\
    model_run maps r = Ok (cs, rows) /\
    Forall2 (fun h i => nthZ g i = Some h) hs (r_idx r) /\ length (pair_up hs) = n /\
    C05_Model.bp_read strict parse_int parse_flt None (render pop_name fmt_cm rows)
      = Ok (table pop_name 1 (pair_up hs)) /\
    forall m a b, 1 <= m -> nth_error (pair_up hs) (Z.to_nat (m - 1)) = Some (a, b) ->
      C18_Model.parse_blocks F kparse_flt kparse_int eps0 plus_eps (hdr_name m) (render pop_name fmt_cm rows)
        = Ok [kb pop_name F eps0 plus_eps fval [] a; kb pop_name F eps0 plus_eps fval [] b].
Proof. exact run_file_accepted. Qed.
Print Assumptions C02_run_file_accepted.

(* the integer codec hypotheses are satisfiable for every z >= 0: Python's int() on what str() prints;
   str(int) is injective (distinct samples get distinct headers) *)
Theorem C02_dec_codec : forall z, 0 <= z -> undec (dec z) = Ok z.
Proof. exact undec_dec. Qed.
Print Assumptions C02_dec_codec.

Theorem C02_dec_inj : forall a b, 0 <= a -> 0 <= b -> dec a = dec b -> a = b.
Proof. exact dec_inj. Qed.
Print Assumptions C02_dec_inj.

(* the text is C05's bp_write of the paired table (so C05's round-trip theorem applies to it) *)
Theorem C02_render_is_bp_write : forall pop_name fmt_cm ps k,
  render pop_name fmt_cm (rows_of_pairs k ps) = C05_Model.bp_write dec fmt_cm (table pop_name k ps).
Proof. exact render_is_bp_write. Qed.
Print Assumptions C02_render_is_bp_write.

(* hypotheses satisfiable / both readers run on a concrete file *)
Example C02_reader_accepts_example :
  write_breakpoints [[mkseg 2 1 MAXC 30; mkseg 1 23 MAXC 9]; [mkseg 1 1 5000 7; mkseg 2 1 MAXC 30; mkseg 2 23 MAXC 9]] [1; 0]
    = Ok ex_rows /\
  render (pop_of ex_pops) dec ex_rows
    = [[hdr 1 1]; [[67; 69; 85]; [49]; [53; 48; 48; 48]; [55]];
                  [[89; 82; 73]; [49]; [50; 49; 52; 55; 52; 56; 51; 54; 52; 55]; [51; 48]];
                  [[89; 82; 73]; [50; 51]; [50; 49; 52; 55; 52; 56; 51; 54; 52; 55]; [57]];
       [hdr 1 2]; [[89; 82; 73]; [49]; [50; 49; 52; 55; 52; 56; 51; 54; 52; 55]; [51; 48]];
                  [[67; 69; 85]; [50; 51]; [50; 49; 52; 55; 52; 56; 51; 54; 52; 55]; [57]]] /\
  C05_Model.bp_read true undec32 undec None (render (pop_of ex_pops) dec ex_rows)
    = Ok (table (pop_of ex_pops) 1 (pair_up (map (fun r : bprow => snd r) ex_rows))) /\
  C18_Model.parse_blocks Z undec undec (-1) (fun x => x + 1) (hdr_name 1) (render (pop_of ex_pops) dec ex_rows)
    = Ok [[C18_Model.mkhb [67; 69; 85] 1 (-1) 7; C18_Model.mkhb [89; 82; 73] 1 8 30; C18_Model.mkhb [89; 82; 73] 23 (-1) 9];
          [C18_Model.mkhb [89; 82; 73] 1 (-1) 30; C18_Model.mkhb [67; 69; 85] 23 (-1) 9]].
Proof. exact reader_accepts_example. Qed.
Print Assumptions C02_reader_accepts_example.

(* the field-width hypothesis is needed: labels "EuropeB" / "EuropeC" are read back as one label "Europe"
   by the reader without the refusal, refused (ValueError) by the reader with it; the karyogram reads them whole *)
Example C02_long_label_mangled :
  C05_Model.bp_read false undec32 undec None (render (pop_of ex_long_pops) dec ex_long_rows)
    = Ok [(hdr_name 1, ([C05_Model.mkcb [69; 117; 114; 111; 112; 101] [49] MAXC 3],
                        [C05_Model.mkcb [69; 117; 114; 111; 112; 101] [49] MAXC 3]))] /\
  C05_Model.bp_read true undec32 undec None (render (pop_of ex_long_pops) dec ex_long_rows) = Err C05_Model.E_Value /\
  C18_Model.parse_blocks Z undec undec (-1) (fun x => x + 1) (hdr_name 1) (render (pop_of ex_long_pops) dec ex_long_rows)
    = Ok [[C18_Model.mkhb [69; 117; 114; 111; 112; 101; 66] 1 (-1) 3]; [C18_Model.mkhb [69; 117; 114; 111; 112; 101; 67] 1 (-1) 3]].
Proof. exact long_label_mangled. Qed.
Print Assumptions C02_long_label_mangled.

(* the checker of relation bptext, when the reader half is judged, means: Breakpoints.read returned exactly the
   written samples and blocks, the karyogram returned every sample's two strands block by block *)
Theorem C02_holds_text_sound : forall k rows,
  holds_text k = true -> t_judge_read k = true -> t_rows k = Ok rows ->
  let ps := pair_up (map (fun r : bprow => snd r) rows) in
  t_read k = Ok (table (pop_of (t_pops k)) 1 ps) /\
  t_kary k = map (fun ab : list seg * list seg => Ok [kexpect (t_pops k) (fst ab); kexpect (t_pops k) (snd ab)]) ps.
Proof. exact holds_text_sound. Qed.
Print Assumptions C02_holds_text_sound.

(* ---- the numpy statements before the per-child loop: contracts imply gens_ok ------------------------ *)
From HV Require Import C02_Draws C02_DrawsCheck.

(* the re-draw loop ends with a second parent different from the first, taken from the draws *)
Theorem C02_redraw_distinct : forall a s b b' s', redraw a b s = Some (b', s') ->
  a <> b' /\ (b' = b \/ In b' s) /\ exists used, s = used ++ s'.
Proof. exact redraw_spec. Qed.
Print Assumptions C02_redraw_distinct.

(* Python's stable sort by (chromosome, cM) leaves an already ordered selection unchanged *)
Theorem C02_sort_sorted_id : forall l, sorted_kev l -> sort_kev l = l.
Proof. exact sort_sorted_id. Qed.
Print Assumptions C02_sort_sorted_id.

(* boolean-mask selection + sort on a map with increasing positions (<= sentinel) and non-decreasing cM:
   the events are ordered as the per-child loop needs, and the sort changed nothing *)
Theorem C02_decode_events_ok : forall chroms coords mask evs,
  incr chroms -> Forall map_ok coords ->
  decode_events chroms coords mask = Some evs ->
  evs_ok chroms 0 (-1) evs /\
  exists l, all_events chroms coords mask = Some l /\ evs = map (fun k : kev => snd k) l.
Proof. exact decode_events_ok. Qed.
Print Assumptions C02_decode_events_ok.

(* one _simulate call: numpy's contract on the raw draws gives valid draws for every child; an admixed
   child's two parents are in range of the previous generation and distinct *)
Theorem C02_decode_gen_spec : forall chroms coords n nprev g,
  incr chroms -> length coords = length chroms -> Forall map_ok coords ->
  gen_contract chroms coords n nprev g ->
  exists ds, decode_gen chroms coords g = Some ds /\ lenZ ds = n /\
             Forall (child_ok chroms nprev) ds /\ map d_pop ds = gr_pp g.
Proof. exact decode_gen_spec. Qed.
Print Assumptions C02_decode_gen_spec.

(* all generations: the contracts imply the hypothesis gens_ok of C02_generations_tile ... *)
Theorem C02_contracts_gens_ok : forall chroms coords n,
  incr chroms -> length coords = length chroms -> Forall map_ok coords ->
  forall raws (m : nat), contracts chroms coords n (Z.of_nat m) raws ->
  exists gens, decode_all chroms coords raws = Some gens /\ gens_ok chroms m gens.
Proof. exact contracts_gens_ok. Qed.
Print Assumptions C02_contracts_gens_ok.

(* ... so a whole run tiles under the numpy contracts alone *)
Theorem C02_run_tiles_from_contracts : forall maps chroms region cs n raws,
  prepare_coords maps chroms region = Ok cs ->
  (region = None \/ length chroms = 1%nat) ->
  incr chroms -> (forall c, In c chroms -> 0 <= c) ->
  Forall map_ok cs ->
  contracts chroms cs n 0 raws ->
  exists gens g, decode_all chroms cs raws = Some gens /\
    sim_generations chroms (ends_of cs) [] gens = Ok g /\ gen_tiles chroms g.
Proof. exact run_tiles_from_contracts. Qed.
Print Assumptions C02_run_tiles_from_contracts.

Theorem C02_gen_contractb_sound : forall chroms coords n nprev g,
  gen_contractb chroms coords n nprev g = true -> gen_contract chroms coords n nprev g.
Proof. exact gen_contractb_sound. Qed.
Print Assumptions C02_gen_contractb_sound.

Theorem C02_agree_draws_sound : forall k,
  agree_draws k = true -> incr (dc_chroms k) -> length (dc_coords k) = length (dc_chroms k) ->
  maps_okb (dc_coords k) = true ->
  decode_gen (dc_chroms k) (dc_coords k) (dc_raw k) = Some (dc_decoded k) /\
  lenZ (dc_decoded k) = dc_n k /\ Forall (child_ok (dc_chroms k) (dc_nprev k)) (dc_decoded k).
Proof. exact agree_draws_sound. Qed.
Print Assumptions C02_agree_draws_sound.

Theorem C02_holds_draws_sound : forall k outs,
  holds_draws k = true -> dc_outs k = Ok outs -> maps_okb (dc_coords k) = true ->
  forall h, In h outs -> tiles (dc_chroms k) h.
Proof. exact holds_draws_sound. Qed.
Print Assumptions C02_holds_draws_sound.

(* the contracts are satisfiable: two generations, a re-draw loop that runs twice *)
Example C02_contracts_example :
  contracts ex_chroms ex_coords 2 0 [ex_g1; ex_g2] /\ Forall map_ok ex_coords /\
  decode_all ex_chroms ex_coords [ex_g1; ex_g2]
    = Some [[mkcd 1 0 0 false [true; false] [mkev 1 5000 1]; mkcd 2 1 1 true [true; true] [mkev 2 10 0]];
            [mkcd 0 1 0 true [false; true] [mkev 1 100 0; mkev 2 10 0]; mkcd 1 0 0 false [false; false] []]] /\
  sim_generations ex_chroms (ends_of ex_coords) []
     [[mkcd 1 0 0 false [true; false] [mkev 1 5000 1]; mkcd 2 1 1 true [true; true] [mkev 2 10 0]];
      [mkcd 0 1 0 true [false; true] [mkev 1 100 0; mkev 2 10 0]; mkcd 1 0 0 false [false; false] []]]
    = Ok [[mkseg 1 1 100 0; mkseg 2 1 MAXC 2; mkseg 2 2 10 0; mkseg 1 2 MAXC 5]; [mkseg 1 1 MAXC 2; mkseg 1 2 MAXC 5]].
Proof. exact contracts_example. Qed.
Print Assumptions C02_contracts_example.

(* "centimorgan ends never decrease", end to end: from the raw numpy draws on a map whose positions strictly
   increase (up to the sentinel) and whose cM never decreases, the run completes and every haplotype of the last
   generation tiles the requested chromosomes with non-decreasing cM ends within each chromosome *)
From HV Require Import C02_CmRun.
Theorem C02_run_cm_monotone_from_contracts : forall maps chroms region cs n raws,
  prepare_coords maps chroms region = Ok cs ->
  (region = None \/ length chroms = 1%nat) ->
  incr chroms -> (forall c, In c chroms -> 0 <= c) ->
  Forall map_ok cs ->
  contracts chroms cs n 0 raws ->
  exists gens g, decode_all chroms cs raws = Some gens /\
    sim_generations chroms (ends_of cs) [] gens = Ok g /\
    forall h, In h g -> tiles chroms h /\ cm_monotone h = true.
Proof. exact run_cm_monotone_from_contracts. Qed.
Print Assumptions C02_run_cm_monotone_from_contracts.

(* labels, from the raw draws: when every value np.random.choice(arange(K), p=fractions) returned is the admixed
   index 0 or an allowed population (numpy returns only indices of positive probability), the last generation
   carries allowed labels only - never the admixed pseudo-population *)
Theorem C02_run_labels_from_raw : forall (allowed : Z -> Prop) chroms coords ends raws gens g,
  decode_all chroms coords raws = Some gens ->
  Forall (fun r => Forall (fun p => p <> 0 -> allowed p) (gr_pp r)) raws ->
  sim_generations chroms ends [] gens = Ok g -> labels_in allowed g.
Proof. exact run_labels_from_raw. Qed.
Print Assumptions C02_run_labels_from_raw.
