(* C02 - the last clause of the property: the breakpoints file is written "in a form that
   haptools' own breakpoint reader and karyogram accept".

   This file renders the rows of [C02_Model.write_breakpoints] to the text simgenotype writes
   (token lines: header  Sample_<n>_<strand>,  block lines  pop TAB chrom TAB end TAB cM, with
   Python's str(int) as the concrete decimal printer [dec]) and proves, on the models of the
   two readers,
     - C05_Model.bp_read (data/breakpoints.py, Breakpoints.read) returns Ok with the samples
       Sample_1 .. Sample_n in order and, per strand, exactly the written blocks
       ([reader_accepts], through C05's round-trip theorem for bp_write), and
     - C18_Model.parse_blocks (karyogram.GetHaplotypeBlocks) returns, for every written sample,
       two strands with one block per written line, same labels / chromosomes / cM ends
       ([karyogram_accepts]).
   Hypotheses, all explicit: the token codecs of the readers invert the printers (int(str(z)) = z,
   float(repr(x)) = x - as in C05_bp_roundtrip), chromosome numbers 0..511 (simgenotype: 1..23),
   end coordinates 0..2^32-1 (tiling: <= 2^31-1), and the FIELD-WIDTH hypothesis of the reader:
   every written population label has at most 6 characters and does not start with '#'.  The
   last one is not a property of simgenotype (labels are copied from the model file's header):
   see [long_label_mangled] below for what the reader does to a longer label. *)
From HV Require Import Prelude Tracts Tiling BpText C02_Model.
From HV Require C05_Model C05_Check C05_ProofsText C18_Model.

(* ---- Python's str(int) ---------------------------------------------------------- *)

(* decimal digits, least significant first; [fuel] >= number of binary digits suffices *)
Fixpoint digits_rev (fuel : nat) (z : Z) : list Z :=
  match fuel with
  | O => []
  | S f => (48 + z mod 10) :: (if z <? 10 then [] else digits_rev f (z / 10))
  end.

Definition dec_nat (z : Z) : str := rev (digits_rev (S (Z.to_nat (Z.log2 z))) z).
Definition dec (z : Z) : str := if z <? 0 then 45 :: dec_nat (- z) else dec_nat z.

Fixpoint val_rev (l : list Z) : Z :=
  match l with [] => 0 | d :: r => (d - 48) + 10 * val_rev r end.

Definition is_digit (c : Z) : Prop := 48 <= c <= 57.

Lemma digits_rev_digits fuel : forall z, 0 <= z -> Forall is_digit (digits_rev fuel z).
Proof.
  induction fuel as [|f IH]; intros z Hz; cbn [digits_rev]; [constructor|].
  constructor.
  - unfold is_digit. pose proof (Z.mod_pos_bound z 10 ltac:(lia)). lia.
  - destruct (z <? 10); [constructor|]. apply IH. apply Z.div_pos; lia.
Qed.

Lemma digits_rev_val fuel : forall z, 0 <= z -> z < 2 ^ Z.of_nat fuel -> val_rev (digits_rev fuel z) = z.
Proof.
  induction fuel as [|f IH]; intros z Hz Hlt.
  - cbn in Hlt. cbn. lia.
  - cbn [digits_rev val_rev]. destruct (z <? 10) eqn:E.
    + apply Z.ltb_lt in E. cbn [val_rev]. rewrite Z.mod_small by lia. lia.
    + apply Z.ltb_ge in E. rewrite IH.
      * pose proof (Z.div_mod z 10 ltac:(lia)). lia.
      * apply Z.div_pos; lia.
      * rewrite Nat2Z.inj_succ, Z.pow_succ_r in Hlt by lia.
        apply Z.div_lt_upper_bound; lia.
Qed.

Lemma digits_rev_len fuel : forall z, (length (digits_rev fuel z) <= fuel)%nat.
Proof.
  induction fuel as [|f IH]; intros z; cbn [digits_rev length]; [lia|].
  destruct (z <? 10); cbn [length]; [lia|]. specialize (IH (z / 10)). lia.
Qed.

Lemma log2_fuel z : 0 <= z -> z < 2 ^ Z.of_nat (S (Z.to_nat (Z.log2 z))).
Proof.
  intros Hz. rewrite Nat2Z.inj_succ, Z2Nat.id by apply Z.log2_nonneg.
  destruct (Z.eq_dec z 0) as [->|Hn]; [cbn; lia|].
  apply Z.log2_spec. lia.
Qed.

Lemma dec_nat_inj a b : 0 <= a -> 0 <= b -> dec_nat a = dec_nat b -> a = b.
Proof.
  intros Ha Hb H. unfold dec_nat in H.
  assert (H' : digits_rev (S (Z.to_nat (Z.log2 a))) a = digits_rev (S (Z.to_nat (Z.log2 b))) b).
  { rewrite <- (rev_involutive (digits_rev _ a)), H, rev_involutive. reflexivity. }
  rewrite <- (digits_rev_val _ a Ha (log2_fuel a Ha)), H'.
  apply (digits_rev_val _ b Hb (log2_fuel b Hb)).
Qed.

Lemma dec_nonneg z : 0 <= z -> dec z = dec_nat z.
Proof. intros H. unfold dec. destruct (z <? 0) eqn:E; [apply Z.ltb_lt in E; lia|reflexivity]. Qed.

Lemma dec_inj a b : 0 <= a -> 0 <= b -> dec a = dec b -> a = b.
Proof. intros Ha Hb. rewrite !dec_nonneg by assumption. apply dec_nat_inj; assumption. Qed.

Lemma dec_digits z : 0 <= z -> Forall is_digit (dec z).
Proof.
  intros H. rewrite dec_nonneg by exact H. unfold dec_nat. apply Forall_rev.
  apply digits_rev_digits. exact H.
Qed.

Lemma dec_len z : 0 <= z -> (length (dec z) <= S (Z.to_nat (Z.log2 z)))%nat.
Proof. intros H. rewrite dec_nonneg by exact H. unfold dec_nat. rewrite rev_length. apply digits_rev_len. Qed.

Lemma dec_ne z : dec z <> [].
Proof.
  unfold dec. destruct (z <? 0); [discriminate|]. unfold dec_nat. cbn [digits_rev].
  intros H. apply (f_equal (@length Z)) in H. rewrite rev_length in H. cbn in H. lia.
Qed.

(* ---- the text write_breakpoints produces ------------------------------------------ *)

Definition s_Sample : str := [83; 97; 109; 112; 108; 101; 95].     (* "Sample_" *)
Definition hdr_name (n : Z) : str := s_Sample ++ dec n.             (* Sample_<n> *)
Definition hdr (n strand : Z) : str := hdr_name n ++ c_us :: dec strand.

Section Render.
Variable pop_name : Z -> str.    (* pop_dict[segment.get_pop()] *)
Variable fmt_cm : Z -> str.      (* Python's repr of the float behind the cM token *)

Definition blk_line (s : seg) : list str := [pop_name (pop s); dec (chrom s); dec (endc s); fmt_cm (cm s)].

Definition row_lines (r : bprow) : list (list str) :=
  let '(smp, strand, h) := r in [hdr smp strand] :: map blk_line h.

Definition render (rows : list bprow) : list (list str) := flat_map row_lines rows.

(* ---- pairing the rows into samples ------------------------------------------------ *)

Fixpoint rows_of_pairs (k : Z) (ps : list (list seg * list seg)) : list bprow :=
  match ps with
  | [] => []
  | (a, b) :: r => (k, 1, a) :: (k, 2, b) :: rows_of_pairs (k + 1) r
  end.

Definition blk (s : seg) : C05_Model.cblk := C05_Model.mkcb (pop_name (pop s)) (dec (chrom s)) (endc s) (cm s).

Fixpoint table (k : Z) (ps : list (list seg * list seg)) : C05_Model.ctable :=
  match ps with
  | [] => []
  | (a, b) :: r => (hdr_name k, (map blk a, map blk b)) :: table (k + 1) r
  end.

Lemma hdr_1 k : hdr k 1 = hdr_name k ++ sfx_1.
Proof. reflexivity. Qed.
Lemma hdr_2 k : hdr k 2 = hdr_name k ++ sfx_2.
Proof. reflexivity. Qed.

Lemma fmt_blk_blk s : C05_Model.fmt_blk dec fmt_cm (blk s) = blk_line s.
Proof. reflexivity. Qed.

(* the rendered rows are C05's bp_write of the paired table *)
Lemma render_is_bp_write ps : forall k,
  render (rows_of_pairs k ps) = C05_Model.bp_write dec fmt_cm (table k ps).
Proof.
  induction ps as [|[a b] r IH]; intros k; [reflexivity|].
  cbn [rows_of_pairs table]. unfold render, C05_Model.bp_write. cbn [flat_map row_lines fst snd].
  fold (render (rows_of_pairs (k + 1) r)). fold (C05_Model.bp_write dec fmt_cm (table (k + 1) r)).
  rewrite IH, hdr_1, hdr_2, !map_map.
  rewrite (map_ext _ _ fmt_blk_blk a), (map_ext _ _ fmt_blk_blk b).
  cbn [app]. rewrite <- !app_assoc. reflexivity.
Qed.

(* ---- write_rows pairs up ----------------------------------------------------------- *)

Fixpoint pair_up (hs : list (list seg)) : list (list seg * list seg) :=
  match hs with
  | a :: b :: r => (a, b) :: pair_up r
  | _ => []
  end.

Lemma div2_even j : (2 * j) / 2 = j.
Proof. rewrite Z.mul_comm. apply Z.div_mul. lia. Qed.
Lemma mod2_even j : (2 * j) mod 2 = 0.
Proof. rewrite Z.mul_comm. apply Z.mod_mul. lia. Qed.
Lemma div2_odd j : (2 * j + 1) / 2 = j.
Proof. symmetry. apply (Z.div_unique (2 * j + 1) 2 j 1); lia. Qed.
Lemma mod2_odd j : (2 * j + 1) mod 2 = 1.
Proof. symmetry. apply (Z.mod_unique (2 * j + 1) 2 j 1); lia. Qed.

(* 2n drawn indices: the rows are n samples, strand 1 then strand 2, numbered j+1 .. j+n, and
   carry the drawn haplotypes in drawing order *)
Lemma write_rows_pairs gen : forall n idx ind j rows,
  length idx = (2 * n)%nat -> ind = 2 * j -> write_rows gen idx ind = Ok rows ->
  exists hs, Forall2 (fun h i => nthZ gen i = Some h) hs idx /\
             rows = rows_of_pairs (j + 1) (pair_up hs) /\ length (pair_up hs) = n.
Proof.
  induction n as [|n IH]; intros idx ind j rows Hl Hind H.
  - destruct idx; [|discriminate]. cbn in H. inversion H; subst. exists []. repeat split; constructor.
  - destruct idx as [|i0 [|i1 idx]]; try (cbn in Hl; lia).
    cbn [write_rows] in H.
    destruct (nthZ gen i0) as [h0|] eqn:E0; [|discriminate].
    destruct (nthZ gen i1) as [h1|] eqn:E1; [|discriminate].
    destruct (write_rows gen idx (ind + 1 + 1)) as [rs|e] eqn:Er; cbn [bind] in H; [|discriminate].
    injection H as <-.
    destruct (IH idx (ind + 1 + 1) (j + 1) rs ltac:(cbn in Hl; lia) ltac:(lia) Er) as [hs [F [Ers Hlen]]].
    exists (h0 :: h1 :: hs). split; [repeat constructor; assumption|]. split.
    + cbn [pair_up rows_of_pairs]. rewrite Ers, Hind, div2_even, mod2_even, div2_odd, mod2_odd. reflexivity.
    + cbn [pair_up length]. rewrite Hlen. reflexivity.
Qed.

Lemma pair_up_Forall (P : list seg -> Prop) : forall n hs, (length hs <= n)%nat -> Forall P hs ->
  Forall (fun ab : list seg * list seg => P (fst ab) /\ P (snd ab)) (pair_up hs).
Proof.
  induction n as [|n IH]; intros hs Hl HF; destruct hs as [|a [|b r]]; cbn [pair_up].
  - constructor.
  - constructor.
  - cbn in Hl. lia.
  - constructor.
  - constructor.
  - inversion HF as [|? ? Ha HF']; subst. inversion HF' as [|? ? Hb HF'']; subst.
    constructor; [cbn; auto|]. apply IH; [cbn in Hl; lia|exact HF''].
Qed.

End Render.

(* ---- Breakpoints.read accepts the file ------------------------------------------------ *)

Section Accept.
Variable pop_name : Z -> str.
Variable fmt_cm : Z -> str.
Variable strict : bool.                    (* the reader with or without the field-width refusal *)
Variable parse_int parse_flt : str -> res Z.
(* numpy str -> uint32 inverts Python's str(int) on the uint32 range *)
Hypothesis int_codec : forall z, 0 <= z <= 4294967295 -> parse_int (dec z) = Ok z.

(* what the reader needs of one written tract *)
Definition seg_ok (s : seg) : Prop :=
  first_char_is c_hash (pop_name (pop s)) = false /\ (length (pop_name (pop s)) <= 6)%nat /\
  0 <= chrom s < 512 /\ 0 <= endc s <= 4294967295 /\ parse_flt (fmt_cm (cm s)) = Ok (cm s).

Notation wf_blk := (C05_ProofsText.wf_blk parse_int parse_flt dec fmt_cm).
Notation wf_sample := (C05_ProofsText.wf_sample parse_int parse_flt dec fmt_cm).

Lemma dec_len_512 c : 0 <= c < 512 -> (length (dec c) <= 10)%nat.
Proof.
  intros H. pose proof (dec_len c ltac:(lia)) as L.
  assert (Z.log2 c < 9).
  { destruct (Z.eq_dec c 0) as [->|Hn]; [cbn; lia|]. apply Z.log2_lt_pow2; [lia|]. change (2 ^ 9) with 512. lia. }
  pose proof (Z.log2_nonneg c). lia.
Qed.

Lemma blk_wf s : seg_ok s -> wf_blk (blk pop_name s).
Proof.
  intros [Hh [H6 [Hc [He Hf]]]]. unfold C05_ProofsText.wf_blk, blk. cbn [C05_Model.c_pop C05_Model.c_chrom C05_Model.c_bp C05_Model.c_cm].
  split; [exact Hh|]. split; [exact H6|]. split; [apply dec_len_512; exact Hc|].
  split; [apply int_codec; exact He|exact Hf].
Qed.

Lemma blks_wf h : Forall seg_ok h -> Forall wf_blk (map (blk pop_name) h).
Proof. induction 1; cbn [map]; constructor; [apply blk_wf; assumption|assumption]. Qed.

Lemma hdr_name_not_comment k : first_char_is c_hash (hdr_name k) = false.
Proof. reflexivity. Qed.

Lemma hdr_name_inj a b : 0 <= a -> 0 <= b -> hdr_name a = hdr_name b -> a = b.
Proof. intros Ha Hb H. unfold hdr_name in H. apply app_inv_head in H. apply dec_inj; assumption. Qed.

Lemma table_wf ps : forall k,
  Forall (fun ab : list seg * list seg => Forall seg_ok (fst ab) /\ Forall seg_ok (snd ab)) ps ->
  Forall wf_sample (table pop_name k ps).
Proof.
  induction ps as [|[a b] r IH]; intros k HF; cbn [table]; constructor.
  - inversion HF as [|? ? [Ha Hb] _]; subst. cbn [fst snd] in Ha, Hb.
    unfold C05_ProofsText.wf_sample. cbn [fst snd].
    split; [apply hdr_name_not_comment|]. split; apply blks_wf; assumption.
  - apply IH. inversion HF; assumption.
Qed.

Lemma table_names ps : forall k x, In x (map fst (table pop_name k ps)) -> exists j, k <= j /\ x = hdr_name j.
Proof.
  induction ps as [|[a b] r IH]; intros k x H; cbn [table map fst] in H; [destruct H|].
  destruct H as [<-|H]; [exists k; split; [lia|reflexivity]|].
  destruct (IH (k + 1) x H) as [j [Hj E]]. exists j. split; [lia|exact E].
Qed.

Lemma table_nodup ps : forall k, 0 <= k -> NoDup (map fst (table pop_name k ps)).
Proof.
  induction ps as [|[a b] r IH]; intros k Hk; cbn [table map fst]; constructor.
  - intros H. destruct (table_names r (k + 1) _ H) as [j [Hj E]].
    apply hdr_name_inj in E; lia.
  - apply IH. lia.
Qed.

(* the samples are Sample_k, Sample_{k+1}, ... in order *)
Lemma table_keys ps : forall k,
  map fst (table pop_name k ps) = map (fun i => hdr_name (k + Z.of_nat i)) (seq 0 (length ps)).
Proof.
  induction ps as [|[a b] r IH]; intros k; [reflexivity|].
  cbn [table map fst length seq]. rewrite Z.add_0_r. f_equal.
  rewrite IH, <- seq_shift, map_map. apply map_ext. intros i. f_equal. lia.
Qed.

(* Breakpoints.read of the text written for 2n drawn haplotypes returns Ok: n samples named
   Sample_1 .. Sample_n in this order, each with its two strands' blocks exactly as written
   (label, chromosome, end, cM) - with and without the reader's field-width refusal *)
Theorem reader_accepts gen idx n rows :
  write_breakpoints gen idx = Ok rows -> length idx = (2 * n)%nat ->
  (forall i h, In i idx -> nthZ gen i = Some h -> Forall seg_ok h) ->
  exists hs, Forall2 (fun h i => nthZ gen i = Some h) hs idx /\ length (pair_up hs) = n /\
    C05_Model.bp_read strict parse_int parse_flt None (render pop_name fmt_cm rows)
      = Ok (table pop_name 1 (pair_up hs)).
Proof.
  intros Hw Hl Hok. unfold write_breakpoints in Hw.
  destruct (write_rows_pairs gen n idx 0 0 rows Hl eq_refl Hw) as [hs [F [-> Hlen]]].
  exists hs. split; [exact F|]. split; [exact Hlen|].
  rewrite render_is_bp_write. cbn [Z.add].
  apply C05_ProofsText.bp_roundtrip.
  - apply table_wf. apply (pair_up_Forall (Forall seg_ok) (length hs)); [lia|].
    clear - F Hok. induction F as [|h i hs idx Hhi F IH]; constructor.
    + apply (Hok i h); [left; reflexivity|exact Hhi].
    + apply IH. intros i' h' Hi'. apply Hok. right. exact Hi'.
  - apply table_nodup. lia.
Qed.
End Accept.

(* ---- karyogram.GetHaplotypeBlocks accepts the file ----------------------------------------- *)

Section Kary.
Variable pop_name : Z -> str.
Variable fmt_cm : Z -> str.
Variable F : Type.
Variable parse_flt : str -> res F.     (* Python float(token) *)
Variable parse_int : str -> res Z.     (* Python int(token) *)
Variable eps0 : F.
Variable plus_eps : F -> F.
Variable fval : Z -> F.                (* the float behind a cM token *)
Hypothesis int_codec : forall z, 0 <= z -> parse_int (dec z) = Ok z.

Definition seg_ok18 (s : seg) : Prop := 0 <= chrom s /\ parse_flt (fmt_cm (cm s)) = Ok (fval (cm s)).

Notation hblock := (C18_Model.hblock F).
Notation krun := (C18_Model.run F parse_flt parse_int eps0 plus_eps).
Notation kstep := (C18_Model.step F parse_flt parse_int eps0 plus_eps).

(* the blocks GetHaplotypeBlocks builds from the lines of one strand *)
Definition start_of (acc : list hblock) (c : Z) : F :=
  match last_opt acc with
  | None => eps0
  | Some b => if C18_Model.h_chrom b =? c then plus_eps (C18_Model.h_end b) else eps0
  end.

Fixpoint kb (acc : list hblock) (h : list seg) : list hblock :=
  match h with
  | [] => acc
  | s :: r => kb (acc ++ [C18_Model.mkhb (pop_name (pop s)) (chrom s) (start_of acc (chrom s)) (fval (cm s))]) r
  end.

Lemma kb_pops h : forall acc, map C18_Model.h_pop (kb acc h) = map C18_Model.h_pop acc ++ map (fun s => pop_name (pop s)) h.
Proof.
  induction h as [|s r IH]; intros acc; cbn [kb map]; [rewrite app_nil_r; reflexivity|].
  rewrite IH, map_app, <- app_assoc. reflexivity.
Qed.
Lemma kb_chroms h : forall acc, map C18_Model.h_chrom (kb acc h) = map C18_Model.h_chrom acc ++ map chrom h.
Proof.
  induction h as [|s r IH]; intros acc; cbn [kb map]; [rewrite app_nil_r; reflexivity|].
  rewrite IH, map_app, <- app_assoc. reflexivity.
Qed.
Lemma kb_ends h : forall acc, map C18_Model.h_end (kb acc h) = map C18_Model.h_end acc ++ map (fun s => fval (cm s)) h.
Proof.
  induction h as [|s r IH]; intros acc; cbn [kb map]; [rewrite app_nil_r; reflexivity|].
  rewrite IH, map_app, <- app_assoc. reflexivity.
Qed.
Lemma kb_length h : length (kb [] h) = length h.
Proof. rewrite <- (map_length C18_Model.h_chrom), kb_chroms. cbn [map app]. apply map_length. Qed.

Lemma kb_facts h :
  length (kb [] h) = length h /\
  map C18_Model.h_pop (kb [] h) = map (fun s => pop_name (pop s)) h /\
  map C18_Model.h_chrom (kb [] h) = map chrom h /\
  map C18_Model.h_end (kb [] h) = map (fun s => fval (cm s)) h.
Proof.
  split; [apply kb_length|]. split; [apply (kb_pops h [])|]. split; [apply (kb_chroms h [])|apply (kb_ends h [])].
Qed.

Lemma digits_mem ch l : Forall is_digit l -> ~ is_digit ch -> mem_char ch l = false.
Proof.
  intros Hl Hc. unfold mem_char. induction Hl as [|x l Hx _ IH]; [reflexivity|].
  cbn [existsb]. rewrite IH, orb_false_r. apply Z.eqb_neq. intros ->. exact (Hc Hx).
Qed.

Lemma get_chrom_dec c : 0 <= c -> C18_Model.get_chrom parse_int (dec c) = Ok c.
Proof.
  intros Hc. unfold C18_Model.get_chrom.
  rewrite (digits_mem c_X _ (dec_digits c Hc)) by (unfold is_digit, c_X; lia).
  rewrite (digits_mem c_Y _ (dec_digits c Hc)) by (unfold is_digit, c_Y; lia).
  pose proof (dec_digits c Hc) as Hd. pose proof (dec_ne c) as Hn.
  destruct (dec c) as [|d0 dr] eqn:E; [congruence|].
  inversion Hd as [|? ? Hd0 _]; subst.
  assert (Es : starts_with s_chr (d0 :: dr) = false).
  { unfold s_chr. cbn [starts_with]. replace (99 =? d0) with false; [reflexivity|].
    symmetry. apply Z.eqb_neq. unfold is_digit in Hd0. lia. }
  rewrite Es, <- E. apply int_codec. exact Hc.
Qed.

(* the lines of one strand, while its sample is being parsed, are appended block by block *)
Lemma run_strand_parsing name h : forall acc sb rest, Forall seg_ok18 h ->
  krun name (map (blk_line pop_name fmt_cm) h ++ rest) (C18_Model.mkg F sb true acc)
  = krun name rest (C18_Model.mkg F sb true (kb acc h)).
Proof.
  induction h as [|s r IH]; intros acc sb rest HF; [reflexivity|].
  inversion HF as [|? ? [Hc Hf] HF']; subst.
  cbn [map app C18_Model.run]. unfold blk_line at 1. unfold C18_Model.step.
  cbn [C18_Model.g_parsing C18_Model.g_blocks C18_Model.g_sb].
  unfold C18_Model.add_block. rewrite (get_chrom_dec _ Hc). cbn [bind].
  replace (last_opt [pop_name (pop s); dec (chrom s); dec (endc s); fmt_cm (cm s)]) with (Some (fmt_cm (cm s))) by reflexivity.
  rewrite Hf. cbn [bind snd fst].
  rewrite IH by exact HF'. reflexivity.
Qed.

(* ... and skipped while another sample is being looked for *)
Lemma run_strand_skipped name h : forall st rest, C18_Model.g_parsing F st = false ->
  krun name (map (blk_line pop_name fmt_cm) h ++ rest) st = krun name rest st.
Proof.
  induction h as [|s r IH]; intros st rest Hp; [reflexivity|].
  cbn [map app C18_Model.run]. unfold blk_line at 1. unfold C18_Model.step. rewrite Hp. cbn [bind snd fst].
  apply IH. exact Hp.
Qed.

Lemma hdr_before k d : d = c_1 \/ d = c_2 -> before_last c_us (hdr_name k ++ [c_us; d]) = hdr_name k.
Proof. intros [->| ->]; apply before_last_sfx; unfold c_1, c_2, c_us; lia. Qed.

Lemma hdr_ends k : (ends_with sfx_1 (hdr_name k ++ sfx_1) || ends_with sfx_2 (hdr_name k ++ sfx_1) = true)
                /\ (ends_with sfx_1 (hdr_name k ++ sfx_2) || ends_with sfx_2 (hdr_name k ++ sfx_2) = true).
Proof. split; [rewrite ends_with_sfx; reflexivity|rewrite (ends_with_sfx _ sfx_2); apply orb_true_r]. Qed.

Lemma name_eqb m k : 0 <= m -> 0 <= k -> str_eqb (hdr_name m) (hdr_name k) = (m =? k).
Proof.
  intros Hm Hk. destruct (m =? k) eqn:E.
  - apply Z.eqb_eq in E. subst. apply str_eqb_refl.
  - apply Z.eqb_neq in E. destruct (str_eqb (hdr_name m) (hdr_name k)) eqn:Es; [|reflexivity].
    apply str_eqb_spec in Es. apply hdr_name_inj in Es; [contradiction|assumption|assumption].
Qed.

Definition strands_ok18 (ps : list (list seg * list seg)) : Prop :=
  Forall (fun ab : list seg * list seg => Forall seg_ok18 (fst ab) /\ Forall seg_ok18 (snd ab)) ps.

(* looking for Sample_m in the text of the samples k, k+1, ...: the samples before m are skipped,
   m's two strands are collected, the loop is left at the next header or at the end of the file *)
Lemma run_finds m : forall ps k b0, 0 <= k -> k <= m -> strands_ok18 ps ->
  forall a b, nth_error ps (Z.to_nat (m - k)) = Some (a, b) ->
  exists st, krun (hdr_name m) (render pop_name fmt_cm (rows_of_pairs k ps)) (C18_Model.mkg F [] false b0) = Ok st
             /\ C18_Model.finish F st = [kb [] a; kb [] b].
Proof.
  induction ps as [|[a0 b0'] r IH]; intros k b0 Hk Hkm Hok a b Hn.
  - destruct (Z.to_nat (m - k)); discriminate.
  - inversion Hok as [|? ? [Ha0 Hb0] Hok']; subst. cbn [fst snd] in Ha0, Hb0.
    cbn [rows_of_pairs]. unfold render. cbn [flat_map row_lines].
    fold (render pop_name fmt_cm (rows_of_pairs (k + 1) r)).
    rewrite hdr_1, hdr_2. cbn [app C18_Model.run].
    destruct (hdr_ends k) as [He1 He2].
    destruct (Z.eq_dec m k) as [->|Hne].
    + (* the sample looked for *)
      rewrite Z.sub_diag in Hn. cbn in Hn. injection Hn as <- <-.
      unfold C18_Model.step at 1. rewrite He1. cbn [negb C18_Model.g_parsing C18_Model.g_sb length Nat.eqb].
      unfold sfx_1 at 1. rewrite (hdr_before k c_1 (or_introl eq_refl)), str_eqb_refl. cbn [bind snd fst].
      rewrite (run_strand_parsing _ a0 [] [] _ Ha0).
      cbn [app C18_Model.run]. unfold C18_Model.step at 1. rewrite He2.
      cbn [negb C18_Model.g_parsing C18_Model.g_sb C18_Model.g_blocks app length Nat.eqb].
      unfold sfx_2 at 1. rewrite (hdr_before k c_2 (or_intror eq_refl)), str_eqb_refl. cbn [bind snd fst].
      rewrite (run_strand_parsing _ b0' [] [kb [] a0] _ Hb0).
      destruct r as [|[a1 b1] r'].
      * cbn [rows_of_pairs render flat_map C18_Model.run]. eexists. split; [reflexivity|]. reflexivity.
      * cbn [rows_of_pairs]. unfold render. cbn [flat_map row_lines app C18_Model.run].
        rewrite hdr_1. unfold C18_Model.step at 1. destruct (hdr_ends (k + 1)) as [He1' _]. rewrite He1'.
        cbn [negb C18_Model.g_parsing C18_Model.g_sb C18_Model.g_blocks app length Nat.eqb bind snd fst].
        eexists. split; [reflexivity|]. reflexivity.
    + (* an earlier sample: nothing is collected *)
      assert (Hlt : k < m) by lia.
      assert (En : str_eqb (hdr_name m) (hdr_name k) = false).
      { rewrite name_eqb by lia. apply Z.eqb_neq. exact Hne. }
      unfold C18_Model.step at 1. rewrite He1. cbn [negb C18_Model.g_parsing C18_Model.g_sb length Nat.eqb].
      unfold sfx_1 at 1. rewrite (hdr_before k c_1 (or_introl eq_refl)), En. cbn [bind snd fst].
      rewrite run_strand_skipped by reflexivity.
      cbn [app C18_Model.run]. unfold C18_Model.step at 1. rewrite He2.
      cbn [negb C18_Model.g_parsing C18_Model.g_sb length Nat.eqb].
      unfold sfx_2 at 1. rewrite (hdr_before k c_2 (or_intror eq_refl)), En. cbn [bind snd fst].
      rewrite run_strand_skipped by reflexivity.
      apply (IH (k + 1) b0 ltac:(lia) ltac:(lia) Hok' a b).
      replace (Z.to_nat (m - k)) with (S (Z.to_nat (m - (k + 1)))) in Hn by lia. exact Hn.
Qed.

(* GetHaplotypeBlocks(file, "Sample_m") for every written sample m = 1..n: two strands, one block
   per written line, in order, with the written labels, chromosome numbers and cM ends *)
Theorem karyogram_accepts gen idx n rows :
  write_breakpoints gen idx = Ok rows -> length idx = (2 * n)%nat ->
  (forall i h, In i idx -> nthZ gen i = Some h -> Forall seg_ok18 h) ->
  exists hs, Forall2 (fun h i => nthZ gen i = Some h) hs idx /\ length (pair_up hs) = n /\
    forall m a b, 1 <= m -> nth_error (pair_up hs) (Z.to_nat (m - 1)) = Some (a, b) ->
      C18_Model.parse_blocks F parse_flt parse_int eps0 plus_eps (hdr_name m) (render pop_name fmt_cm rows)
        = Ok [kb [] a; kb [] b].
Proof.
  intros Hw Hl Hok. unfold write_breakpoints in Hw.
  destruct (write_rows_pairs gen n idx 0 0 rows Hl eq_refl Hw) as [hs [HF [-> Hlen]]].
  exists hs. split; [exact HF|]. split; [exact Hlen|]. intros m a b Hm Hn.
  assert (Hs : strands_ok18 (pair_up hs)).
  { apply (pair_up_Forall (Forall seg_ok18) (length hs)); [lia|].
    clear - HF Hok. induction HF as [|h i hs idx Hhi HF IH]; constructor.
    - apply (Hok i h); [left; reflexivity|exact Hhi].
    - apply IH. intros i' h' Hi'. apply Hok. right. exact Hi'. }
  cbn [Z.add]. unfold C18_Model.parse_blocks.
  destruct (run_finds m (pair_up hs) 1 [] ltac:(lia) Hm Hs a b Hn) as [st [E Hf]].
  rewrite E. cbn [bind]. rewrite Hf. reflexivity.
Qed.
End Kary.

(* ---- the codec hypotheses are satisfiable: Python's int() on what str(int) prints -------------- *)

Definition E_Value : Z := 1.

Definition is_digitb (c : Z) : bool := (48 <=? c) && (c <=? 57).

Definition undec (s : str) : res Z :=
  match s with
  | [] => Err E_Value
  | _ => if forallb is_digitb s then Ok (val_rev (rev s)) else Err E_Value
  end.

Lemma undec_dec z : 0 <= z -> undec (dec z) = Ok z.
Proof.
  intros Hz. unfold undec. destruct (dec z) as [|d0 dr] eqn:E; [exfalso; exact (dec_ne z E)|]. rewrite <- E.
  pose proof (dec_digits z Hz) as Hd.
  replace (forallb is_digitb (dec z)) with true.
  - f_equal. rewrite dec_nonneg by exact Hz. unfold dec_nat. rewrite rev_involutive.
    apply digits_rev_val; [exact Hz|apply log2_fuel; exact Hz].
  - symmetry. apply forallb_forall. intros c Hc. rewrite Forall_forall in Hd.
    specialize (Hd c Hc). unfold is_digit in Hd. unfold is_digitb. apply andb_true_iff. split; apply Z.leb_le; lia.
Qed.
