(* C02 - checker for the text of the .bp file simgenotype wrote (relation bptext of harness/c02.py).

   agree: (1) the file, split into tab-separated tokens, IS [C02_Reader.render] of the rows (population
              names from the model file's header, Python's str(int) = [dec], the float texts recorded
              per cM token) - so the theorems about the rendered text are about the file;
          (2) splitting the lines on whitespace (karyogram) gives the same tokens as splitting on tabs
              (breakpoint reader);
          (3) C05's model of Breakpoints.read, run on the file's lines, returns what Breakpoints.read
              returned; (4) C18's model of GetHaplotypeBlocks, run on the file's lines for every written
              sample, returns what karyogram.GetHaplotypeBlocks returned (label, chromosome, cM end).
   holds: the clause of the property - "in a form that haptools' own breakpoint reader and karyogram
          accept": Breakpoints.read returned (no exception) the samples Sample_1..Sample_n in order with,
          per strand, exactly the written blocks (label, chromosome, end, cM) - judged when [t_judge_read]
          (harness switch STRICT_LABEL_WIDTH: off, a model naming a population with more than 6 characters
          is not judged on this half) - and
          GetHaplotypeBlocks returned for every written sample two strands with one block per written
          line (label, chromosome number, cM end equal). *)
From HV Require Import Prelude Tracts Tiling BpText C02_Model C02_Check C02_Reader.
From HV Require C05_Model C05_Check C05_ProofsText C18_Model.

(* ---- the concrete codecs of the check ---------------------------------------------- *)

Definition pop_of (pops : list str) (i : Z) : str :=
  match nthZ pops i with Some s => s | None => [] end.

Definition cm_text (tab : list (Z * str)) (m : Z) : str :=
  match assoc Z.eqb m tab with Some s => s | None => [] end.

Fixpoint cm_parse (tab : list (Z * str)) (s : str) : res Z :=
  match tab with
  | [] => Err E_Value
  | (m, t) :: r => if str_eqb s t then Ok m else cm_parse r s
  end.

(* numpy str -> uint32 *)
Definition undec32 (s : str) : res Z :=
  bind (undec s) (fun z => if z <=? 4294967295 then Ok z else Err C05_Model.E_Overflow).

Record tcase := mkt {
  t_pops : list str;                  (* pop_dict: population index -> label (model file header) *)
  t_cms : list (Z * str);             (* cM token -> the text of that float in the file *)
  t_rows : res (list bprow);          (* the file as parsed by the harness's own parser *)
  t_lines : list (list str);          (* the file's lines split on tabs, code points *)
  t_ws_same : bool;                   (* splitting on whitespace gives the same tokens *)
  t_strict : bool;                    (* the reader under test refuses over-long fields (C05's switch) *)
  t_judge_read : bool;                (* judge what Breakpoints.read returned (see harness STRICT_LABEL_WIDTH) *)
  t_read : res C05_Model.ctable;      (* what Breakpoints.read returned *)
  t_kary : list (res (list (list (str * Z * Z))))   (* per written sample: GetHaplotypeBlocks' strands (label, chromosome, cM token) *)
}.

Definition lines_eqb : list (list str) -> list (list str) -> bool := list_eqb (list_eqb str_eqb).

Definition kblk_eqb (a b : str * Z * Z) : bool :=
  let '(p1, c1, e1) := a in let '(p2, c2, e2) := b in str_eqb p1 p2 && (c1 =? c2) && (e1 =? e2).
Definition kary_eqb : res (list (list (str * Z * Z))) -> res (list (list (str * Z * Z))) -> bool :=
  res_eqb (list_eqb (list_eqb kblk_eqb)).

Definition kproj (b : C18_Model.hblock Z) : str * Z * Z := (C18_Model.h_pop b, C18_Model.h_chrom b, C18_Model.h_end b).

(* C18's model of GetHaplotypeBlocks(file, "Sample_m") on token lines; the start coordinates
   (previous end + 0.0001) are not compared: F = the cM tokens, x + 0.0001 = x *)
Definition kary_model (tab : list (Z * str)) (lines : list (list str)) (m : Z) : res (list (list (str * Z * Z))) :=
  bind (C18_Model.parse_blocks Z (cm_parse tab) undec (-1) (fun x => x) (hdr_name m) lines)
       (fun sb => Ok (map (map kproj) sb)).

Fixpoint zrange (k : Z) (n : nat) : list Z :=
  match n with O => [] | S n' => k :: zrange (k + 1) n' end.

Definition read_model (k : tcase) : res C05_Model.ctable :=
  C05_Model.bp_read (t_strict k) undec32 (cm_parse (t_cms k)) None (t_lines k).

Definition model_text (k : tcase) :=
  (match t_rows k with
   | Ok rows => Some (render (pop_of (t_pops k)) (cm_text (t_cms k)) rows)
   | Err _ => None end,
   read_model k).

Definition agree_text (k : tcase) : bool :=
  match t_rows k with
  | Err _ => false
  | Ok rows =>
      lines_eqb (render (pop_of (t_pops k)) (cm_text (t_cms k)) rows) (t_lines k)
      && t_ws_same k
      && res_eqb C05_Check.ctable_eqb (read_model k) (t_read k)
      && list_eqb kary_eqb (map (kary_model (t_cms k) (t_lines k)) (zrange 1 (length (t_kary k)))) (t_kary k)
  end.

(* ---- the clause of the property ------------------------------------------------------ *)

(* what the karyogram must return for a strand: one block per written tract *)
Definition kexpect (pops : list str) (h : list seg) : list (str * Z * Z) :=
  map (fun s => (pop_of pops (pop s), chrom s, cm s)) h.

Definition holds_text (k : tcase) : bool :=
  match t_rows k with
  | Err e => e =? E_Unobserved
  | Ok rows =>
      let ps := pair_up (map (fun r : bprow => snd r) rows) in
      (negb (t_judge_read k) ||
       match t_read k with
       | Ok d => C05_Check.ctable_eqb d (table (pop_of (t_pops k)) 1 ps)
       | Err _ => false
       end)
      && list_eqb kary_eqb (t_kary k)
           (map (fun ab : list seg * list seg => Ok [kexpect (t_pops k) (fst ab); kexpect (t_pops k) (snd ab)]) ps)
  end.

Definition check_text (k : tcase) : bool * bool := (agree_text k, holds_text k).

(* ---- soundness of holds_text ------------------------------------------------------------- *)

Lemma kblk_eqb_spec a b : kblk_eqb a b = true <-> a = b.
Proof.
  destruct a as [[p1 c1] e1], b as [[p2 c2] e2]. unfold kblk_eqb.
  rewrite !andb_true_iff, !Z.eqb_eq, str_eqb_spec. split.
  - intros [[-> ->] ->]. reflexivity.
  - intros H; inversion H; auto.
Qed.

Lemma kary_eqb_spec x y : kary_eqb x y = true <-> x = y.
Proof.
  assert (Hl : forall a b : list (list (str * Z * Z)), list_eqb (list_eqb kblk_eqb) a b = true <-> a = b).
  { apply list_eqb_spec. apply list_eqb_spec. exact kblk_eqb_spec. }
  destruct x as [a|e], y as [b|e']; unfold kary_eqb; cbn [res_eqb]; split; intro H; try discriminate.
  - f_equal. apply Hl. exact H.
  - inversion H. apply Hl. reflexivity.
  - apply Z.eqb_eq in H. subst. reflexivity.
  - inversion H. apply Z.eqb_eq. reflexivity.
Qed.

(* when the reader half is judged, a true [holds_text] says: Breakpoints.read returned exactly the written
   samples and blocks, and the karyogram returned for the m-th sample its two strands block by block *)
Theorem holds_text_sound k rows :
  holds_text k = true -> t_judge_read k = true -> t_rows k = Ok rows ->
  let ps := pair_up (map (fun r : bprow => snd r) rows) in
  t_read k = Ok (table (pop_of (t_pops k)) 1 ps) /\
  t_kary k = map (fun ab : list seg * list seg => Ok [kexpect (t_pops k) (fst ab); kexpect (t_pops k) (snd ab)]) ps.
Proof.
  intros H Hfull Hr ps. unfold holds_text in H. rewrite Hr, Hfull in H. fold ps in H. cbn [negb orb] in H.
  apply andb_true_iff in H. destruct H as [H1 H2]. split.
  - destruct (t_read k) as [d|e]; [|discriminate]. apply C05_ProofsText.ctable_eqb_true in H1. subst. reflexivity.
  - apply (list_eqb_spec kary_eqb kary_eqb_spec). exact H2.
Qed.
