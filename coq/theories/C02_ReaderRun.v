(* C02 - the reader/karyogram clause for a WHOLE run of the model (prepare_coords -> sim_generations
   -> write_breakpoints): the hypotheses of C02_Reader.reader_accepts / karyogram_accepts about the
   written tracts follow from the tiling and label theorems, so that only the numpy draw contracts, the
   token codecs and the field-width hypothesis on the model file's population names remain.
   Examples: the theorems' hypotheses are satisfiable; a label of more than 6 characters is NOT read
   back ([long_label_mangled]). *)
From HV Require Import Prelude Tracts Tiling BpText C01_Model C01_Kernel C02_Model C02_Check
  C02_Tiling C02_Generations C02_Proofs C02_Coords C02_Reader C02_ReaderCheck.
From HV Require C05_Model C18_Model.

Lemma nthZ_ok {A} (l : list A) i : 0 <= i < lenZ l -> exists x, nthZ l i = Some x /\ In x l.
Proof.
  intros [H1 H2]. unfold nthZ. destruct (i <? 0) eqn:E; [apply Z.ltb_lt in E; lia|].
  destruct (nth_error l (Z.to_nat i)) as [x|] eqn:En.
  - exists x. split; [reflexivity|]. eapply nth_error_In; eauto.
  - apply nth_error_None in En. unfold lenZ in H2. lia.
Qed.

Lemma write_rows_ok {gen : list (list seg)} : forall idx ind,
  (forall i, In i idx -> 0 <= i < lenZ gen) -> exists rows, write_rows gen idx ind = Ok rows.
Proof.
  induction idx as [|i r IH]; intros ind H; cbn [write_rows]; [eexists; reflexivity|].
  destruct (nthZ_ok gen i (H i (or_introl eq_refl))) as [h [Hn _]]. rewrite Hn.
  destruct (IH (ind + 1) (fun j Hj => H j (or_intror Hj))) as [rows Hr]. rewrite Hr. cbn [bind].
  eexists; reflexivity.
Qed.

Lemma tiles_bounds chs : forall l, tiles chs l -> forall s, In s l -> In (chrom s) chs /\ 0 <= endc s <= MAXC.
Proof.
  induction chs as [|c r IH]; intros l H s Hs; cbn in H.
  - subst l. destruct Hs.
  - destruct H as [t [rest [-> [Ht Hr]]]]. apply in_app_or in Hs. destruct Hs as [Hs|Hs].
    + destruct (run_ok_all _ _ _ _ Ht s Hs) as [Hc Hb]. split; [left; symmetry; exact Hc|lia].
    + destruct (IH rest Hr s Hs) as [A B]. split; [right; exact A|exact B].
Qed.

Section Run.
Variable pop_name : Z -> str.
Variable fmt_cm : Z -> str.
(* Breakpoints.read's codecs *)
Variable strict : bool.
Variable parse_int parse_flt : str -> res Z.
Hypothesis int_codec : forall z, 0 <= z <= 4294967295 -> parse_int (dec z) = Ok z.
Hypothesis flt_codec : forall m, parse_flt (fmt_cm m) = Ok m.
(* the karyogram's codecs *)
Variable F : Type.
Variable kparse_flt : str -> res F.
Variable kparse_int : str -> res Z.
Variable eps0 : F.
Variable plus_eps : F -> F.
Variable fval : Z -> F.
Hypothesis kint_codec : forall z, 0 <= z -> kparse_int (dec z) = Ok z.
Hypothesis kflt_codec : forall m, kparse_flt (fmt_cm m) = Ok (fval m).

(* the populations numpy's choice(p) can return, and the FIELD-WIDTH hypothesis on their names *)
Variable allowed : Z -> Prop.
Hypothesis names_fit : forall i, allowed i ->
  first_char_is c_hash (pop_name i) = false /\ (length (pop_name i) <= 6)%nat.

(* One run: the map files give the coordinates, the draws numpy may return (gens_ok; founder draws
   among the allowed populations; 2n distinct-or-not indices into the last generation) give the
   simulation, write_breakpoints gives the rows - and the text of those rows is read back by
   Breakpoints.read as n samples Sample_1..Sample_n with exactly the sampled haplotypes' tracts, and
   by GetHaplotypeBlocks, for every sample, as two strands of one block per tract. *)
Theorem run_file_accepted maps r cs n :
  prepare_coords maps (r_chroms r) (r_region r) = Ok cs ->
  (r_region r = None \/ length (r_chroms r) = 1%nat) ->
  incr (r_chroms r) -> (forall c, In c (r_chroms r) -> 0 <= c < 512) ->
  gens_ok (r_chroms r) 0 (r_gens r) ->
  Forall (Forall (fun d => d_pop d <> 0 -> allowed (d_pop d))) (r_gens r) ->
  length (r_idx r) = (2 * n)%nat ->
  (forall g, sim_generations (r_chroms r) (ends_of cs) [] (r_gens r) = Ok g ->
             forall i, In i (r_idx r) -> 0 <= i < lenZ g) ->
  exists g rows hs,
    sim_generations (r_chroms r) (ends_of cs) [] (r_gens r) = Ok g /\
    model_run maps r = Ok (cs, rows) /\
    Forall2 (fun h i => nthZ g i = Some h) hs (r_idx r) /\ length (pair_up hs) = n /\
    C05_Model.bp_read strict parse_int parse_flt None (render pop_name fmt_cm rows)
      = Ok (table pop_name 1 (pair_up hs)) /\
    forall m a b, 1 <= m -> nth_error (pair_up hs) (Z.to_nat (m - 1)) = Some (a, b) ->
      C18_Model.parse_blocks F kparse_flt kparse_int eps0 plus_eps (hdr_name m) (render pop_name fmt_cm rows)
        = Ok [kb pop_name F eps0 plus_eps fval [] a; kb pop_name F eps0 plus_eps fval [] b].
Proof.
  intros Hpc Hreg Hinc Hch Hgens Hlab Hlen Hidx.
  destruct (run_tiles maps r cs Hpc Hreg Hinc (fun c Hc => proj1 (Hch c Hc)) Hgens) as [g [Hsim Htile]].
  assert (Hlabels : labels_in allowed g).
  { apply (generations_labels allowed (r_chroms r) (ends_of cs) (r_gens r) [] g); [intros ? ? []|exact Hlab|exact Hsim]. }
  destruct (@write_rows_ok g (r_idx r) 0 (Hidx g Hsim)) as [rows Hrows].
  assert (Hsegs : forall i h, In i (r_idx r) -> nthZ g i = Some h ->
            Forall (seg_ok pop_name fmt_cm parse_flt) h /\ Forall (seg_ok18 fmt_cm F kparse_flt fval) h).
  { intros i h Hi Hn.
    assert (Hin : In h g).
    { unfold nthZ in Hn. destruct (i <? 0); [discriminate|]. eapply nth_error_In; eauto. }
    pose proof (Htile h Hin) as Ht.
    split; apply Forall_forall; intros s Hs; destruct (tiles_bounds _ _ Ht s Hs) as [Hc He];
      specialize (Hch _ Hc).
    - destruct (names_fit _ (Hlabels h s Hin Hs)) as [N1 N2].
      unfold seg_ok. split; [exact N1|]. split; [exact N2|]. split; [exact Hch|].
      split; [unfold MAXC in He; lia|apply flt_codec].
    - unfold seg_ok18. split; [lia|apply kflt_codec]. }
  destruct (reader_accepts pop_name fmt_cm strict parse_int parse_flt int_codec g (r_idx r) n rows Hrows Hlen
              (fun i h Hi Hn => proj1 (Hsegs i h Hi Hn))) as [hs [HF [Hl Hread]]].
  destruct (karyogram_accepts pop_name fmt_cm F kparse_flt kparse_int eps0 plus_eps fval kint_codec g (r_idx r) n rows
              Hrows Hlen (fun i h Hi Hn => proj2 (Hsegs i h Hi Hn))) as [hs' [HF' [_ Hk]]].
  assert (hs' = hs).
  { clear - HF HF'. revert hs' HF'. induction HF as [|h i hs idx Hh HF IH]; intros hs' HF'; inversion HF'; subst; [reflexivity|].
    f_equal; [congruence|apply IH; assumption]. }
  subst hs'.
  exists g, rows, hs. split; [exact Hsim|]. split.
  - unfold model_run. rewrite Hpc. cbn [bind]. rewrite Hsim. cbn [bind]. unfold write_breakpoints. rewrite Hrows. reflexivity.
  - split; [exact HF|]. split; [exact Hl|]. split; [exact Hread|exact Hk].
Qed.
End Run.

(* ---- examples ---------------------------------------------------------------------------- *)

(* a two-population model file header  "1 Admixed CEU YRI",  cM tokens printed as their number *)
Definition ex_pops : list str := [[65; 100; 109; 105; 120; 101; 100]; [67; 69; 85]; [89; 82; 73]].
Definition ex_rows : list bprow :=
  [(1, 1, [mkseg 1 1 5000 7; mkseg 2 1 MAXC 30; mkseg 2 23 MAXC 9]);
   (1, 2, [mkseg 2 1 MAXC 30; mkseg 1 23 MAXC 9])].

(* the hypotheses of reader_accepts / karyogram_accepts hold for it with Python's int() = undec *)
Example reader_accepts_example :
  write_breakpoints [[mkseg 2 1 MAXC 30; mkseg 1 23 MAXC 9]; [mkseg 1 1 5000 7; mkseg 2 1 MAXC 30; mkseg 2 23 MAXC 9]] [1; 0]
    = Ok ex_rows /\
  render (pop_of ex_pops) dec ex_rows
    = [[hdr 1 1]; [[67; 69; 85]; [49]; [53; 48; 48; 48]; [55]];
                  [[89; 82; 73]; [49]; [50; 49; 52; 55; 52; 56; 51; 54; 52; 55]; [51; 48]];
                  [[89; 82; 73]; [50; 51]; [50; 49; 52; 55; 52; 56; 51; 54; 52; 55]; [57]];
       [hdr 1 2]; [[89; 82; 73]; [49]; [50; 49; 52; 55; 52; 56; 51; 54; 52; 55]; [51; 48]];
                  [[67; 69; 85]; [50; 51]; [50; 49; 52; 55; 52; 56; 51; 54; 52; 55]; [57]]] /\
  C05_Model.bp_read true undec32 undec None (render (pop_of ex_pops) dec ex_rows)
    = Ok (table (pop_of ex_pops) 1 (pair_up (map (fun r : bprow => snd r) ex_rows))) /\
  C18_Model.parse_blocks Z undec undec (-1) (fun x => x + 1) (hdr_name 1) (render (pop_of ex_pops) dec ex_rows)
    = Ok [[C18_Model.mkhb [67; 69; 85] 1 (-1) 7; C18_Model.mkhb [89; 82; 73] 1 8 30; C18_Model.mkhb [89; 82; 73] 23 (-1) 9];
          [C18_Model.mkhb [89; 82; 73] 1 (-1) 30; C18_Model.mkhb [67; 69; 85] 23 (-1) 9]].
Proof. vm_compute. repeat split; reflexivity. Qed.

(* a label of more than 6 characters is not read back: the reader without the field-width refusal
   returns Ok with the label cut to 6 characters - "EuropeB" and "EuropeC" become one population
   "Europe" - and the reader with the refusal raises ValueError; the karyogram reads the full labels *)
Definition ex_long_pops : list str :=
  [[65]; [69; 117; 114; 111; 112; 101; 66]; [69; 117; 114; 111; 112; 101; 67]].   (* A EuropeB EuropeC *)
Definition ex_long_rows : list bprow := [(1, 1, [mkseg 1 1 MAXC 3]); (1, 2, [mkseg 2 1 MAXC 3])].

Example long_label_mangled :
  C05_Model.bp_read false undec32 undec None (render (pop_of ex_long_pops) dec ex_long_rows)
    = Ok [(hdr_name 1, ([C05_Model.mkcb [69; 117; 114; 111; 112; 101] [49] MAXC 3],
                        [C05_Model.mkcb [69; 117; 114; 111; 112; 101] [49] MAXC 3]))] /\
  C05_Model.bp_read true undec32 undec None (render (pop_of ex_long_pops) dec ex_long_rows) = Err C05_Model.E_Value /\
  C18_Model.parse_blocks Z undec undec (-1) (fun x => x + 1) (hdr_name 1) (render (pop_of ex_long_pops) dec ex_long_rows)
    = Ok [[C18_Model.mkhb [69; 117; 114; 111; 112; 101; 66] 1 (-1) 3]; [C18_Model.mkhb [69; 117; 114; 111; 112; 101; 67] 1 (-1) 3]].
Proof. vm_compute. repeat split; reflexivity. Qed.
