(* C02 - checker for HISTORIES of runs: 2-4 simulate_gt + write_breakpoints calls made one
   after the other in ONE interpreter on the SAME map directory, with different regions /
   chromosome subsets / models / seeds.

   What is demanded and why.  The property quantifies over every run ("for all valid models,
   maps, regions, sample counts, population sizes and seeds"); it says nothing about the state
   of the interpreter, so it must hold for a run whatever ran before it in the process (this is
   also C10's "whatever ran earlier in the same process").  Hence
     holds: every run of the history satisfies the file-level property [holds_bp] (tiling up
            to the sentinel on every requested chromosome, cM monotone, labels, framing,
            haptools' reader and karyogram), and the file the run wrote is the file the same
            run (same inputs, same seed) writes when it is made alone in a fresh interpreter;
     agree: the markers _prepare_coords handed to _simulate are [prepare_coords] of this run's
            inputs, and the file is [model_run] of this run's inputs and recorded draws - the
            model has no access to the history ([C02_run_independent_of_history]). *)
From HV Require Import Prelude Tracts Tiling C01_Model C01_Check C02_Model C02_Check
  C02_Tiling C02_Generations C02_Coords.
From Coq Require Import QArith.
Open Scope Z_scope.

Record srun := mksr {
  sr_in : run_in;
  sr_n : Z;                                   (* requested number of samples *)
  sr_fracs : list (list Q);                   (* the model's generation lines *)
  sr_coords : option (list (list marker));    (* markers handed to _simulate (None: the run failed before) *)
  sr_obs : res (list bprow);                  (* the .bp file of the run in the history *)
  sr_reader_ok : bool;
  sr_alone : res (list bprow)                 (* the .bp file of the same run alone in a fresh interpreter *)
}.

Record scase := mks { s_maps : list mapfile; s_runs : list srun }.

Definition marker_eqb : marker -> marker -> bool := pair_eqb Z.eqb Z.eqb.
Definition coords_eqb := list_eqb (list_eqb marker_eqb).
Definition rows_eqb := res_eqb (list_eqb bprow_eqb).

Definition bcase_of (r : srun) : bcase :=
  mkb (r_chroms (sr_in r)) (sr_n r) (sr_fracs r) [] [] (sr_obs r) (sr_reader_ok r).

Definition unobserved {A} (x : res A) : bool :=
  match x with Err e => e =? E_Unobserved | Ok _ => false end.

(* the run in the history wrote what the run alone writes *)
Definition same_as_alone (r : srun) : bool :=
  unobserved (sr_alone r) || unobserved (sr_obs r) || rows_eqb (sr_obs r) (sr_alone r).

Definition holds_run (r : srun) : bool := holds_bp (bcase_of r) && same_as_alone r.
Definition holds_seq (k : scase) : bool := forallb holds_run (s_runs k).

Definition agree_run (maps : list mapfile) (r : srun) : bool :=
  negb (unobserved (sr_alone r))
  && match sr_coords r with
     | None => true
     | Some cs => res_eqb coords_eqb (prepare_coords maps (r_chroms (sr_in r)) (r_region (sr_in r))) (Ok cs)
     end
  && rows_eqb (bind (model_run maps (sr_in r)) (fun x => Ok (snd x))) (sr_obs r).

Definition model_seq (k : scase) := run_seq (s_maps k) (map sr_in (s_runs k)).

Definition check_seq (k : scase) : bool * bool :=
  (forallb (agree_run (s_maps k)) (s_runs k), holds_seq k).

(* ---- soundness --------------------------------------------------------------- *)

Lemma bprow_eqb_spec a b : bprow_eqb a b = true <-> a = b.
Proof.
  destruct a as [[s1 t1] h1], b as [[s2 t2] h2]. unfold bprow_eqb.
  rewrite !andb_true_iff, !Z.eqb_eq.
  assert (Hs : segs_eqb h1 h2 = true <-> h1 = h2) by (apply list_eqb_spec; exact seg_eqb_spec).
  rewrite Hs. split.
  - intros [[-> ->] ->]. reflexivity.
  - intros H; inversion H; auto.
Qed.

Lemma rows_eqb_spec x y : rows_eqb x y = true <-> x = y.
Proof.
  destruct x as [a|k], y as [b|k']; cbn [rows_eqb res_eqb]; split; intro H; try discriminate.
  - f_equal. apply (list_eqb_spec bprow_eqb bprow_eqb_spec). exact H.
  - inversion H. apply (list_eqb_spec bprow_eqb bprow_eqb_spec). reflexivity.
  - apply Z.eqb_eq in H. subst. reflexivity.
  - inversion H. apply Z.eqb_eq. reflexivity.
Qed.

Theorem holds_seq_sound k : holds_seq k = true ->
  forall r, In r (s_runs k) ->
    holds_bp (bcase_of r) = true /\
    (sr_alone r = Err E_Unobserved \/ sr_obs r = Err E_Unobserved \/ sr_obs r = sr_alone r).
Proof.
  unfold holds_seq. intros H r Hr. rewrite forallb_forall in H. specialize (H r Hr).
  unfold holds_run in H. apply andb_true_iff in H. destruct H as [H1 H2]. split; [exact H1|].
  unfold same_as_alone in H2. apply orb_true_iff in H2. destruct H2 as [H2|H2].
  - apply orb_true_iff in H2. destruct H2 as [H2|H2].
    + left. unfold unobserved in H2. destruct (sr_alone r) as [|e]; [discriminate|].
      apply Z.eqb_eq in H2. subst. reflexivity.
    + right. left. unfold unobserved in H2. destruct (sr_obs r) as [|e]; [discriminate|].
      apply Z.eqb_eq in H2. subst. reflexivity.
  - right. right. apply rows_eqb_spec. exact H2.
Qed.

(* every requested chromosome of a row accepted by tilesb has a tract ending at the sentinel *)
Lemma take_run_sentinel c : forall l lo rest, take_run c lo l = Some rest ->
  exists s, In s l /\ chrom s = c /\ endc s = MAXC.
Proof.
  induction l as [|s r IH]; intros lo rest H; cbn [take_run] in H; [discriminate|].
  destruct ((chrom s =? c) && (lo <? endc s)) eqn:E; [|discriminate].
  apply andb_true_iff in E. destruct E as [Ec _]. apply Z.eqb_eq in Ec.
  destruct (endc s =? MAXC) eqn:Em.
  - apply Z.eqb_eq in Em. exists s. split; [left; reflexivity|]. split; assumption.
  - destruct (IH _ _ H) as [s' [Hin [Hc He]]]. exists s'. split; [right; exact Hin|]. split; assumption.
Qed.

Lemma take_run_suffix c : forall l lo rest, take_run c lo l = Some rest -> exists t, l = t ++ rest.
Proof.
  induction l as [|s r IH]; intros lo rest H; cbn [take_run] in H; [discriminate|].
  destruct ((chrom s =? c) && (lo <? endc s)); [|discriminate].
  destruct (endc s =? MAXC).
  - inversion H; subst. exists [s]. reflexivity.
  - destruct (IH _ _ H) as [t Et]. exists (s :: t). rewrite Et. reflexivity.
Qed.

Theorem tilesb_every_chrom_sentinel : forall chs l, tilesb chs l = true ->
  forall c, In c chs -> exists s, In s l /\ chrom s = c /\ endc s = MAXC.
Proof.
  induction chs as [|c0 r IH]; intros l H c Hc; [destruct Hc|]. cbn [tilesb] in H.
  destruct (take_run c0 (-1) l) as [rest|] eqn:E; [|discriminate].
  destruct Hc as [<-|Hc].
  - eapply take_run_sentinel; eauto.
  - destruct (IH rest H c Hc) as [s [Hin Hs]]. destruct (take_run_suffix _ _ _ _ E) as [t Et].
    exists s. split; [|exact Hs]. rewrite Et. apply in_or_app. right. exact Hin.
Qed.
