(* C02 - every child produced by the per-child loop of _simulate tiles the
   requested chromosomes, for every ordered event list and every draw stream,
   given the shape contract of get_segment (discharged in C02_Generations.v). *)
From HV Require Import Prelude Tracts Tiling C01_Model.

Definition incr (l : list Z) : Prop :=
  forall i j a b, (i < j)%nat -> nth_error l i = Some a -> nth_error l j = Some b -> a < b.

Lemma index_of_nth : forall l i c, incr l -> nth_error l i = Some c -> index_of c l = Some i.
Proof.
  induction l as [|a l IH]; intros [|i] c Hinc H; cbn in *; try discriminate.
  - inversion H; subst. rewrite Z.eqb_refl. reflexivity.
  - assert (a < c) by (apply (Hinc 0%nat (S i) a c); [lia|reflexivity|exact H]).
    rewrite (proj2 (Z.eqb_neq a c)) by lia.
    rewrite (IH i c); [reflexivity| |exact H].
    intros i' j' x y Hlt Hx Hy. apply (Hinc (S i') (S j') x y); [lia|exact Hx|exact Hy].
Qed.

Section Inv.
Variable gs : Z -> Z -> Z -> Z -> Z -> Z -> list (list seg) -> res (list seg).
Variables (chroms : list Z) (ends : list (Z * Z)) (p_pop : Z) (ha hb : Z) (prev : list (list seg)).

Hypothesis ends_len : length ends = length chroms.
Hypothesis ends_max : forall i e, nth_error ends i = Some e -> fst e = MAXC.
Hypothesis chroms_incr : incr chroms.
(* shape contract of get_segment for this child's population / parents *)
Hypothesis GS : forall (h : bool) c a e m, In c chroms -> 0 <= a -> a <= e -> e <= MAXC ->
  exists g, gs p_pop (hap_of ha hb h) c a e m prev = Ok g /\ run_ok c (a - 1) g e.

Notation emit := (emit_chroms gs chroms ends p_pop ha hb prev).

Lemma emit_spec k : forall i s done part x c,
  (i + k <= length chroms)%nat -> (k <= length (hd s))%nat ->
  segs s = done ++ part -> tiles (firstn i chroms) done ->
  (k > 0)%nat -> nth_error chroms i = Some c -> chain c (-1) part x -> x < MAXC -> start_bp s = x + 1 ->
  exists s', emit k i s = Ok s' /\
    tiles (firstn (i + k) chroms) (segs s') /\ start_bp s' = 0 /\
    prev_chrom s' = prev_chrom s /\ prev_ind s' = prev_ind s /\ hd s' = skipn k (hd s).
Proof.
  induction k as [|k IH]; intros i s done part x c Hik Hhd Hsegs Hdone Hk Hc Hch Hx Hsb; [lia|].
  cbn [emit_chroms]. rewrite Hc.
  destruct (nth_error ends i) as [[ebp ecm]|] eqn:Ee.
  2:{ exfalso. apply nth_error_None in Ee. lia. }
  pose proof (ends_max _ _ Ee) as Hm. cbn in Hm. subst ebp.
  assert (Hin : In c chroms) by (eapply nth_error_In; eauto).
  pose proof (chain_le _ _ _ _ Hch) as Hx0.
  destruct (GS (homolog s) c (start_bp s) MAXC ecm Hin) as [g [Eg Hg]]; try lia.
  rewrite Eg. rewrite Hsb in Hg. replace (x + 1 - 1) with x in Hg by lia.
  unfold next_h. destruct (hd s) as [|b r] eqn:Ehd; [cbn in Hhd; lia|].
  assert (Hfull : run_ok c (-1) (part ++ g) MAXC) by (eapply chain_app; eauto).
  assert (Hdone' : tiles (firstn (S i) chroms) (done ++ (part ++ g))).
  { rewrite (firstn_S_nth _ _ _ Hc). apply tiles_snoc; assumption. }
  set (s1 := mkst (segs s ++ g) (prev_chrom s) (prev_ind s) b r 0).
  destruct k as [|k'].
  - cbn [emit_chroms]. exists s1. split; [reflexivity|]. unfold s1; cbn [segs start_bp prev_chrom prev_ind hd].
    rewrite Hsegs, <- app_assoc. replace (i + 1)%nat with (S i) by lia.
    cbn [skipn]. auto 6.
  - destruct (nth_error chroms (S i)) as [c'|] eqn:Ec'.
    2:{ exfalso. apply nth_error_None in Ec'. lia. }
    destruct (IH (S i) s1 (done ++ (part ++ g)) [] (-1) c') as [s' [Es' [Ht [Hs0 [Hpc [Hpi Hh]]]]]].
    + lia.
    + unfold s1; cbn [hd]. cbn in Hhd. lia.
    + unfold s1; cbn [segs]. rewrite Hsegs, app_nil_r, <- app_assoc. reflexivity.
    + exact Hdone'.
    + lia.
    + exact Ec'.
    + left; auto.
    + unfold MAXC; lia.
    + reflexivity.
    + exists s'. split; [exact Es'|]. replace (i + S (S k'))%nat with (S i + S k')%nat by lia.
      split; [exact Ht|]. split; [exact Hs0|]. unfold s1 in *; cbn [prev_chrom prev_ind hd] in *.
      cbn [skipn]. auto.
Qed.

Definition Inv (j : nat) (x : Z) (s : st) : Prop :=
  prev_ind s = j /\ nth_error chroms j = Some (prev_chrom s) /\
  (length chroms - j <= length (hd s))%nat /\
  exists done part, segs s = done ++ part /\ tiles (firstn j chroms) done /\
    chain (prev_chrom s) (-1) part x /\ x < MAXC /\ (part = [] -> done = []).

(* what the python code computes as start_bp at the top of an iteration / after the loop *)
Lemma sb_spec j x s : Inv j x s ->
  match last_opt (segs s) with
  | Some l => (if chrom l =? prev_chrom s then endc l + 1 else 0) = x + 1 /\ endc l = x
  | None => x = -1 /\ segs s = []
  end.
Proof.
  intros [_ [_ [_ [done [part [Hs [_ [Hch [_ Hpd]]]]]]]]].
  destruct Hch as [[-> ->]|Hr].
  - rewrite (Hpd eq_refl) in Hs. cbn in Hs. rewrite Hs. cbn. auto.
  - assert (part <> []) by (destruct part; [destruct Hr|discriminate]).
    rewrite Hs, (last_opt_app_ne _ _ H). destruct (run_ok_last _ _ _ _ Hr) as [l [-> [He Hc]]].
    rewrite Hc, Z.eqb_refl. lia.
Qed.

Lemma step_inv j x s e i :
  Inv j x s -> nth_error chroms i = Some (ev_chrom e) ->
  ((i = j /\ x < ev_bp e) \/ ((j < i)%nat /\ 0 <= ev_bp e)) -> ev_bp e < MAXC ->
  exists s', step gs chroms ends p_pop ha hb prev s e = Ok s' /\ Inv i (ev_bp e) s'.
Proof.
  intros HI Hi Hord Hbp. pose proof (sb_spec _ _ _ HI) as Hsb.
  destruct HI as [Hpi [Hpc [Hhd [done [part [Hs [Hdone [Hch [Hx Hpd]]]]]]]]].
  pose proof (chain_le _ _ _ _ Hch) as Hx0.
  assert (Hcin : In (ev_chrom e) chroms) by (eapply nth_error_In; eauto).
  unfold step.
  set (sb := match last_opt (segs s) with Some l => if chrom l =? prev_chrom s then endc l + 1 else 0 | None => 0 end).
  assert (Esb : sb = x + 1).
  { unfold sb. destruct (last_opt (segs s)); [tauto|]. destruct Hsb as [-> _]. reflexivity. }
  cbn [segs prev_chrom prev_ind homolog hd start_bp].
  destruct Hord as [[-> Hlt]|[Hji Hb0]].
  - (* same chromosome *)
    assert (ev_chrom e = prev_chrom s) by congruence. rewrite H, Z.eqb_refl. cbn [negb bind].
    cbn [segs prev_chrom prev_ind homolog hd start_bp].
    destruct (GS (homolog s) (prev_chrom s) sb (ev_bp e) (ev_cm e)) as [g [Eg Hg]]; try lia.
    { rewrite <- H. exact Hcin. }
    rewrite Eg. cbn [bind]. eexists; split; [reflexivity|].
    unfold Inv. cbn [segs prev_chrom prev_ind homolog hd start_bp].
    split; [exact Hpi|]. split; [exact Hpc|]. split; [exact Hhd|].
    exists done, (part ++ g). rewrite Hs, app_assoc. split; [reflexivity|]. split; [exact Hdone|].
    rewrite Esb in Hg. replace (x + 1 - 1) with x in Hg by lia.
    split; [right; eapply chain_app; eauto|]. split; [exact Hbp|].
    intros E. apply app_eq_nil in E. destruct E as [_ ->]. destruct Hg.
  - (* a later chromosome *)
    assert (Hne : ev_chrom e <> prev_chrom s).
    { pose proof (chroms_incr j i _ _ Hji Hpc Hi). lia. }
    rewrite (proj2 (Z.eqb_neq _ _) Hne). cbn [negb].
    (* the "previous chromosome already completed" branch is dead *)
    assert (Es1 : match last_opt (segs s), nth_error ends (prev_ind s) with
                  | Some l, Some (ebp, _) =>
                      if endc l =? ebp then
                        match nth_error chroms (S (prev_ind s)) with
                        | Some c' => Ok (mkst (segs s) c' (S (prev_ind s)) (homolog s) (hd s) 0)
                        | None => Err E_Index end
                      else Ok (mkst (segs s) (prev_chrom s) (prev_ind s) (homolog s) (hd s) sb)
                  | Some _, None => Err E_Index
                  | None, _ => Ok (mkst (segs s) (prev_chrom s) (prev_ind s) (homolog s) (hd s) sb)
                  end = Ok (mkst (segs s) (prev_chrom s) (prev_ind s) (homolog s) (hd s) sb)).
    { destruct (last_opt (segs s)) as [l|]; [|reflexivity].
      destruct (nth_error ends (prev_ind s)) as [[ebp ecm]|] eqn:Ee.
      - pose proof (ends_max _ _ Ee) as Hm. cbn in Hm. subst ebp.
        destruct Hsb as [_ Hl]. rewrite (proj2 (Z.eqb_neq _ _)) by lia. reflexivity.
      - exfalso. apply nth_error_None in Ee.
        assert ((j < length chroms)%nat) by (apply nth_error_Some; congruence). lia. }
    rewrite Es1. cbn [bind]. rewrite (index_of_nth _ _ _ chroms_incr Hi).
    cbn [segs prev_chrom prev_ind homolog hd start_bp]. rewrite Hpi.
    assert (Hil : (i < length chroms)%nat) by (apply nth_error_Some; congruence).
    destruct (emit_spec (i - j) j (mkst (segs s) (prev_chrom s) j (homolog s) (hd s) sb) done part x (prev_chrom s))
      as [s2 [E2 [Ht [Hs0 [_ [_ Hh]]]]]]; cbn [segs prev_chrom prev_ind homolog hd start_bp]; try assumption; try lia.
    rewrite E2. cbn [bind]. replace (j + (i - j))%nat with i in Ht by lia.
    cbn [segs prev_chrom prev_ind homolog hd start_bp].
    destruct (GS (homolog s2) (ev_chrom e) (start_bp s2) (ev_bp e) (ev_cm e)) as [g [Eg Hg]]; try lia; [exact Hcin|].
    rewrite Eg. cbn [bind].
    eexists; split; [reflexivity|]. unfold Inv. cbn [segs prev_chrom prev_ind homolog hd start_bp].
    split; [reflexivity|]. split; [exact Hi|]. split.
    { cbn [hd] in Hh. rewrite Hh, skipn_length. lia. }
    exists (segs s2), g. split; [reflexivity|]. split; [exact Ht|].
    rewrite Hs0 in Hg. replace (0 - 1) with (-1) in Hg by lia.
    split; [right; exact Hg|]. split; [exact Hbp|]. intros ->. destruct Hg.
Qed.

(* the recombination events as the code's (chromosome, cM) sort leaves them:
   strictly increasing in (chromosome index, bp), below the sentinel *)
Fixpoint evs_ok (j : nat) (x : Z) (evs : list event) : Prop :=
  match evs with
  | [] => True
  | e :: r => exists i, nth_error chroms i = Some (ev_chrom e) /\
                ((i = j /\ x < ev_bp e) \/ ((j < i)%nat /\ 0 <= ev_bp e)) /\ ev_bp e < MAXC /\
                evs_ok i (ev_bp e) r
  end.

Lemma run_inv : forall evs j x s, Inv j x s -> evs_ok j x evs ->
  exists s' j' x', run gs chroms ends p_pop ha hb prev evs s = Ok s' /\ Inv j' x' s'.
Proof.
  induction evs as [|e r IH]; intros j x s HI Hok; cbn [run].
  - exists s, j, x. auto.
  - destruct Hok as [i [Hi [Hord [Hbp Hr]]]].
    destruct (step_inv j x s e i HI Hi Hord Hbp) as [s1 [E1 HI1]]. rewrite E1. cbn [bind].
    exact (IH i (ev_bp e) s1 HI1 Hr).
Qed.

Lemma finish_ok j x s : Inv j x s ->
  exists out, finish gs chroms ends p_pop ha hb prev s = Ok out /\ tiles chroms out.
Proof.
  intros HI. pose proof (sb_spec _ _ _ HI) as Hsb.
  destruct HI as [Hpi [Hpc [Hhd [done [part [Hs [Hdone [Hch [Hx Hpd]]]]]]]]].
  assert (Hjl : (j < length chroms)%nat) by (apply nth_error_Some; congruence).
  unfold finish.
  set (s1 := match last_opt (segs s) with
             | None => Ok (mkst (segs s) (prev_chrom s) (prev_ind s) (homolog s) (hd s) 0)
             | Some l => match nth_error ends (prev_ind s) with
                         | Some (ebp, _) => if endc l =? ebp
                             then Ok (mkst (segs s) (prev_chrom s) (S (prev_ind s)) (homolog s) (hd s) (start_bp s))
                             else Ok (mkst (segs s) (prev_chrom s) (prev_ind s) (homolog s) (hd s) (endc l + 1))
                         | None => Err E_Index end
             end).
  assert (E1 : s1 = Ok (mkst (segs s) (prev_chrom s) j (homolog s) (hd s) (x + 1))).
  { unfold s1. destruct (last_opt (segs s)) as [l|].
    - destruct (nth_error ends (prev_ind s)) as [[ebp ecm]|] eqn:Ee.
      + pose proof (ends_max _ _ Ee) as Hm. cbn in Hm. subst ebp. destruct Hsb as [_ Hl].
        rewrite (proj2 (Z.eqb_neq _ _)) by lia. rewrite Hl, Hpi. reflexivity.
      + exfalso. apply nth_error_None in Ee. lia.
    - destruct Hsb as [-> _]. rewrite Hpi. reflexivity. }
  rewrite E1. cbn [bind prev_ind].
  destruct (emit_spec (length chroms - j) j (mkst (segs s) (prev_chrom s) j (homolog s) (hd s) (x + 1)) done part x (prev_chrom s))
    as [s2 [E2 [Ht _]]]; cbn [segs prev_chrom prev_ind homolog hd start_bp]; try assumption; try lia.
  rewrite E2. cbn [bind]. eexists; split; [reflexivity|].
  replace (j + (length chroms - j))%nat with (length chroms) in Ht by lia.
  rewrite firstn_all in Ht. exact Ht.
Qed.

Theorem sim_sample_tiles h0 hdraws evs :
  chroms <> [] -> (length chroms <= length hdraws)%nat -> evs_ok 0 (-1) evs ->
  exists out, sim_sample gs chroms ends p_pop ha hb prev h0 hdraws evs = Ok out /\ tiles chroms out.
Proof.
  intros Hne Hd Hok. unfold sim_sample. destruct chroms as [|c0 cr] eqn:Ech; [congruence|]. rewrite <- Ech in *.
  assert (HI : Inv 0 (-1) (mkst [] c0 0 h0 hdraws 0)).
  { unfold Inv. cbn [segs prev_chrom prev_ind homolog hd start_bp]. split; [reflexivity|].
    split; [rewrite Ech; reflexivity|]. split; [lia|]. exists [], []. cbn.
    split; [reflexivity|]. split; [reflexivity|]. split; [left; auto|]. split; [unfold MAXC; lia|auto]. }
  destruct (run_inv evs _ _ _ HI Hok) as [s' [j' [x' [Er HI']]]]. rewrite Er. cbn [bind].
  exact (finish_ok _ _ _ HI').
Qed.
End Inv.
