(* C03 - boolean checkers evaluated on what output_vcf wrote (read back with
   pysam / pgenlib by the harness).  [agree] compares with the model under the
   recorded draws; [holds] is the property, computed from the inputs and the
   output alone: it never looks at the draws or at the model's assignment. *)
From HV Require Import Prelude Tracts C01_Model C14_Model C03_Model.

Record ocase := mko { o_cfg : config; o_obs : res output }.

(* ---- agreement with the model -------------------------------------------- *)

(* a cell the model leaves unwritten (np.empty) has no predictable content *)
Definition cell_agree (m o : option Z) : bool :=
  match m with None => true | Some a => opt_eqb Z.eqb (Some a) o end.
Definition mat_agree := list_eqb (list_eqb cell_agree).

Definition out_agree (m o : output) : bool :=
  list_eqb Z.eqb (o_vars m) (o_vars o) && mat_agree (o_gt m) (o_gt o)
  && opt_eqb mat_agree (o_pop m) (o_pop o) && opt_eqb mat_agree (o_smp m) (o_smp o).

Definition model_vcf (k : ocase) : res output := output_vcf (o_cfg k).

(* ---- the property --------------------------------------------------------- *)

(* block of the haplotype covering position p of chromosome c: (index of the
   tract in the haplotype, its label) - the first tract of c whose end is >= p *)
Fixpoint block_key (l : list seg) (c p : Z) (i : nat) : option (nat * Z) :=
  match l with
  | [] => None
  | s :: r => if (chrom s =? c) && (p <=? endc s) then Some (i, pop s) else block_key r c p (S i)
  end.

Definition key_eqb (x y : nat * Z) : bool := (fst x =? fst y)%nat && (snd x =? snd y).

(* one written cell of one simulated haplotype *)
Record item := mki {
  i_key : option (nat * Z);     (* block and label the breakpoints give the variant *)
  i_oidx : Z;                   (* the variant's index in the panel *)
  i_gt : option Z; i_pop : option (option Z); i_smp : option (option Z)
     (* outer None: field not written at all *)
}.

Definition nth_or {A} (d : A) (l : list A) (n : nat) : A := nth n l d.

Definition items_of (c : config) (out : output) (h : nat) : list item :=
  let hap := nth_or [] (g_bps c) h in
  let g := nth_or [] (o_gt out) h in
  map (fun jo : nat * Z =>
         let '(j, oidx) := jo in
         let key := match nthZ (g_vars c) oidx with
                    | Some v => block_key hap (rv_chrom v) (rv_pos v) 0
                    | None => None end in
         mki key oidx (nth_or None g j)
             (option_map (fun m => nth_or None (nth_or [] m h) j) (o_pop out))
             (option_map (fun m => nth_or None (nth_or [] m h) j) (o_smp out)))
      (number_nat 0 (o_vars out)).

(* reference samples the sample-info file lists for population l *)
Definition cands (c : config) (l : Z) : list Z :=
  match pt_get (g_tab c) l with
  | Some x => filter (fun r => 0 <=? r) x
  | None => [] end.

(* item [it] lies in block [k]; then: its allele is the one reference
   haplotype (r,u) carries at that variant, and SAMPLE (if written) names r *)
Definition item_from (d : gdata) (k : nat * Z) (r u : Z) (it : item) : bool :=
  match i_key it with
  | Some k' =>
      if key_eqb k k' then
        opt_eqb Z.eqb (i_gt it) (lookup d r (i_oidx it) u)
        && match i_gt it with Some _ => true | None => false end
        && match i_smp it with None => true | Some s => opt_eqb Z.eqb s (Some r) end
      else true
  | None => true
  end.

Definition item_ok (c : config) (its : list item) (it : item) : bool :=
  match i_key it with
  | None => true                      (* the breakpoints say nothing about this position *)
  | Some k =>
      existsb (fun r => existsb (fun u => forallb (item_from (g_data c) k r u) its) [0; 1])
              (cands c (snd k))
      && match i_pop it with None => true | Some p => opt_eqb Z.eqb p (Some (snd k)) end
  end.

(* breakpoints as simgenotype writes and reads them: sorted by (chromosome, end);
   an unsorted tract list gives no well-defined label (malformed stream) *)
Definition hap_ok (c : config) (out : output) (h : nat) : bool :=
  negb (sortedb (nth_or [] (g_bps c) h))
  || let its := items_of c out h in forallb (item_ok c its) its.

(* all contig names of the panel are written the same way *)
Definition uniform_prefix (vars : list rvar) : bool :=
  match vars with
  | [] => true
  | v0 :: _ => forallb (fun v => Bool.eqb (rv_chr v) (rv_chr v0)) vars
  end.

(* records written = the reference's records of the requested chromosomes /
   region, same order (identity incl. ID and allele list is the harness's token) *)
Definition vars_ok (c : config) (out : output) : bool :=
  negb (uniform_prefix (g_vars c))
  || list_eqb Z.eqb (o_vars out)
       (map fst (filter (fun iv : Z * rvar => existsb (Z.eqb (rv_chrom (snd iv))) (g_chroms c))
                        (read_vars (g_region c) (g_vars c)))).

Definition fields_ok (c : config) (out : output) : bool :=
  (negb (g_pop_field c && negb (g_pgen c)) || match o_pop out with Some _ => true | None => false end)
  && (negb (g_sample_field c && negb (g_pgen c)) || match o_smp out with Some _ => true | None => false end).

Definition shape_ok (c : config) (out : output) : bool :=
  (length (o_gt out) =? length (g_bps c))%nat
  && forallb (fun row : list (option Z) => (length row =? length (o_vars out))%nat) (o_gt out).

Definition holds_out (c : config) (out : output) : bool :=
  vars_ok c out && fields_ok c out && shape_ok c out
  && forallb (hap_ok c out) (seq 0 (length (g_bps c))).

Definition holds_vcf (k : ocase) : bool :=
  match o_obs k with
  | Err _ => true        (* nothing was written; completion on well-formed input is C20 *)
  | Ok out => holds_out (o_cfg k) out
  end.

Definition check_vcf (k : ocase) : bool * bool :=
  (match model_vcf k, o_obs k with
   | Ok m, Ok o => out_agree m o
   | Err a, Err b => a =? b
   | _, _ => false
   end,
   holds_vcf k).

(* ---- the pure kernel: searchsorted(side='right') + diff + repeat as numpy computes them ---- *)

Record acase := mka { a_pos : list Z; a_ends : list Z; a_obs : res (list Z) }.

Fixpoint ascending (l : list Z) : bool :=
  match l with
  | [] => true
  | a :: r => match r with [] => true | b :: _ => a <=? b end && ascending r
  end.

Definition model_assign (k : acase) : res (list Z) :=
  bind (assign (a_pos k) (a_ends k)) (fun l => Ok (map Z.of_nat l)).

(* precondition of assign_is_first_ge *)
Definition assign_pre (pos ends : list Z) : bool :=
  ascending pos && ascending ends
  && match last_opt ends with
     | None => match pos with [] => true | _ => false end
     | Some e => forallb (fun p => p <=? e) pos
     end.

Definition holds_assign (k : acase) : bool :=
  if assign_pre (a_pos k) (a_ends k) then
    res_eqb (list_eqb Z.eqb) (a_obs k) (Ok (map (fun p => Z.of_nat (first_ge (a_ends k) p)) (a_pos k)))
  else true.

Definition check_assign (k : acase) : bool * bool :=
  (res_eqb (list_eqb Z.eqb) (model_assign k) (a_obs k), holds_assign k).
