(* C03 - executable model of haptools/sim_genotype.py output_vcf /
   _convert_haplotype (the no-replacement bookkeeping is C14_Model) and of the
   choice of writer / FORMAT fields.  No proofs here.

   Strings that the code only compares are integers: chromosomes are their
   number (X = 23) plus a flag "contig name carries the chr prefix", reference
   samples are their index in the panel (negative = a sample-info name the
   panel lacks), populations are their index in the model file's header
   (0 = Admixed).  Random draws are inputs: the index np.random.choice picked,
   the arrays np.random.randint(2, size=k) returned, the lists as
   np.random.shuffle left them. *)
From HV Require Import Prelude Tracts C01_Model C14_Model.

(* ---- searchsorted / repeat ---------------------------------------------- *)

(* index of the first element >= p (length if none): np.searchsorted(es, p, 'left')
   on an ascending list, and what Breakpoints uses for its lookup (C05) *)
Fixpoint first_ge (es : list Z) (p : Z) : nat :=
  match es with
  | [] => O
  | e :: r => if p <=? e then O else S (first_ge r p)
  end.

(* number of elements <= e: np.searchsorted(ps, e, side='right') on an ascending list *)
Fixpoint count_le (ps : list Z) (e : Z) : Z :=
  match ps with
  | [] => 0
  | p :: r => (if p <=? e then 1 else 0) + count_le r e
  end.

(* np.diff(np.insert(x, 0, prev)) *)
Fixpoint diffs (prev : Z) (l : list Z) : list Z :=
  match l with
  | [] => []
  | x :: r => (x - prev) :: diffs x r
  end.

Definition E_Value : Z := 1.

(* np.repeat(xs, lens): ValueError on a negative count *)
Fixpoint repeat_by {A} (xs : list A) (lens : list Z) : res (list A) :=
  match xs, lens with
  | x :: xr, n :: nr =>
      if n <? 0 then Err E_Value
      else bind (repeat_by xr nr) (fun t => Ok (repeat x (Z.to_nat n) ++ t))
  | _, _ => Ok []
  end.

(* for each of the first (count of positions <= last end) variant positions
   of the chromosome: the index of the block it is assigned to *)
Definition assign (positions ends : list Z) : res (list nat) :=
  repeat_by (seq 0 (length ends)) (diffs 0 (map (count_le positions) ends)).

(* ---- reference panel ----------------------------------------------------- *)

Record rvar := mkrv { rv_chr : bool; rv_chrom : Z; rv_pos : Z }.

Definition gdata := list (list (Z * Z)).     (* [reference sample][variant] = (allele strand 0, allele strand 1) *)

Definition lookup (d : gdata) (r v u : Z) : option Z :=
  match nthZ d r with
  | None => None
  | Some row => match nthZ row v with
                | None => None
                | Some (a0, a1) => if u =? 0 then Some a0 else if u =? 1 then Some a1 else None
                end
  end.

(* A panel given by a formula instead of a table (wide panels: hundreds to 2^16+ reference
   samples).  Variant v carries (mult, shift, modulus); reference haplotype h = 2*sample+strand
   carries allele (h*mult + shift) mod modulus there.  harness/c03.py [ref_data] writes the panel
   file from the same formula. *)
Fixpoint zseq (start : Z) (n : nat) : list Z :=
  match n with
  | O => []
  | S k => start :: zseq (start + 1) k
  end.

Definition fcell (h : Z) (f : Z * Z * Z) : Z := let '(m, s, a) := f in (h * m + s) mod a.

Definition frow (fs : list (Z * Z * Z)) (r : Z) : list (Z * Z) :=
  map (fun f => (fcell (2 * r) f, fcell (2 * r + 1) f)) fs.

Definition fdata (nref : Z) (fs : list (Z * Z * Z)) : gdata := map (frow fs) (zseq 0 (Z.to_nat nref)).

Fixpoint number_from {A} (i : Z) (l : list A) : list (Z * A) :=
  match l with
  | [] => []
  | x :: r => (i, x) :: number_from (i + 1) r
  end.

Record region := mkreg { rg_chrom : Z; rg_start : Z; rg_end : Z }.

(* vcf.read(region="c:start-end"): the region names the contig without prefix *)
Definition in_region (rg : option region) (v : rvar) : bool :=
  match rg with
  | None => true
  | Some g => negb (rv_chr v) && (rv_chrom v =? rg_chrom g) && (rg_start g <=? rv_pos v) && (rv_pos v <=? rg_end g)
  end.

(* (index in the panel, variant) of the variants read *)
Definition read_vars (rg : option region) (vars : list rvar) : list (Z * rvar) :=
  filter (fun iv => in_region rg (snd iv)) (number_from 0 vars).

(* ref_vars["chrom"] == f"{cur_chrom}{chrom}" *)
Definition on_chrom (cur_chr : bool) (c : Z) (v : rvar) : bool :=
  Bool.eqb (rv_chr v) cur_chr && (rv_chrom v =? c).

(* ---- _convert_haplotype, replacement mode -------------------------------- *)

Record dstate := mkds {
  d_tab : poptab; d_hu : list used;
  d_choice : list Z; d_strand : list (list Z); d_shuf : list (list Z) }.

Fixpoint conv_rep (npop : Z) (segs : list seg) (t : poptab) (choices : list Z)
  : res (list block * list Z) :=
  match segs with
  | [] => Ok ([], choices)
  | s :: r =>
    if (pop s <? 0) || (npop <=? pop s) then Err E_Key else
    match pt_get t (pop s) with
    | None | Some [] => Err E_Value                 (* np.random.choice of an empty list *)
    | Some lst =>
      match choices with
      | [] => Err E_Draws
      | i :: ch' =>
        match nthZ lst i with
        | None => Err E_Draws
        | Some smp =>
          if smp <? 0 then Err E_Key else         (* sample_dict[sample_name] *)
          bind (conv_rep npop r t ch')
               (fun x => let '(bl, ch2) := x in Ok (mkb (endc s) (pop s) smp (-1) :: bl, ch2))
        end
      end
    end
  end.

Fixpoint set_strands (bl : list block) (sd : list Z) : list block :=
  match bl, sd with
  | b :: br, u :: ur => mkb (b_end b) (b_pop b) (b_samp b) u :: set_strands br ur
  | _, _ => []
  end.

(* ---- one chromosome of one simulated haplotype --------------------------- *)

Definition cell := (Z * Z * Z)%type.    (* allele, population label, reference sample *)
Definition cvar := (nat * Z * Z)%type.  (* output slot, index in the panel data, position *)

Fixpoint cells_of (d : gdata) (bl : list block) (idxs : list nat) (cv : list cvar)
  : res (list (nat * cell)) :=
  match idxs, cv with
  | bi :: ir, (slot, oidx, _) :: cr =>
      match nth_error bl bi with
      | None => Err E_Index
      | Some b =>
        match lookup d (b_samp b) oidx (b_strand b) with
        | None => Err E_Index
        | Some a => bind (cells_of d bl ir cr) (fun t => Ok ((slot, (a, b_pop b, b_samp b)) :: t))
        end
      end
  | _, _ => Ok []
  end.

Definition hap_chrom (legacy14 norep : bool) (npop : Z) (d : gdata) (hap : list seg) (c : Z)
    (cv : list cvar) (st : dstate) : res (list (nat * cell) * dstate) :=
  let segs := segs_of c hap in
  bind (if norep then
          bind (conv_norep legacy14 npop segs c 0 (d_tab st) (d_hu st) (d_shuf st))
               (fun x => let '(bl, t, hu, sh) := x in
                         Ok (bl, mkds t hu (d_choice st) (d_strand st) sh))
        else
          bind (conv_rep npop segs (d_tab st) (d_choice st))
               (fun x => let '(bl, ch) := x in
                         Ok (bl, mkds (d_tab st) (d_hu st) ch (d_strand st) (d_shuf st))))
  (fun x => let '(bl0, st1) := x in
  bind (assign (map (fun v : cvar => snd v) cv) (map b_end bl0)) (fun idxs =>
  bind (if norep then Ok (bl0, st1) else
          match d_strand st1 with
          | [] => Err E_Draws
          | sd :: sr =>
              if (length sd =? length bl0)%nat
              then Ok (set_strands bl0 sd, mkds (d_tab st1) (d_hu st1) (d_choice st1) sr (d_shuf st1))
              else Err E_Draws
          end)
  (fun y => let '(bl, st2) := y in
  bind (cells_of d bl idxs cv) (fun ws => Ok (ws, st2))))).

(* ---- one simulated haplotype: all requested chromosomes ------------------- *)

Fixpoint write {A} (ws : list (nat * A)) (arr : list (option A)) : list (option A) :=
  match ws with
  | [] => arr
  | (i, x) :: r => write r (set_nth arr i (Some x))
  end.

Fixpoint number_nat {A} (i : nat) (l : list A) : list (nat * A) :=
  match l with
  | [] => []
  | x :: r => (i, x) :: number_nat (S i) r
  end.

(* the output rows: the variants read that lie on a requested chromosome *)
Definition requested (cur_chr : bool) (chroms : list Z) (v : rvar) : bool :=
  existsb (fun c => on_chrom cur_chr c v) chroms.

Definition out_vars (cur_chr : bool) (chroms : list Z) (rd : list (Z * rvar)) : list (Z * rvar) :=
  filter (fun iv => requested cur_chr chroms (snd iv)) rd.

(* the chromosome's own rows among the output rows *)
Definition cvars_of (cur_chr : bool) (c : Z) (ov : list (Z * rvar)) : list cvar :=
  map (fun x : nat * (Z * rvar) => (fst x, fst (snd x), rv_pos (snd (snd x))))
      (filter (fun x : nat * (Z * rvar) => on_chrom cur_chr c (snd (snd x))) (number_nat 0 ov)).

Fixpoint hap_loop (legacy14 norep : bool) (npop : Z) (d : gdata) (cur_chr : bool) (ov : list (Z * rvar))
    (hap : list seg) (chroms : list Z) (arr : list (option cell)) (st : dstate)
  : res (list (option cell) * dstate) :=
  match chroms with
  | [] => Ok (arr, st)
  | c :: cs =>
      bind (hap_chrom legacy14 norep npop d hap c (cvars_of cur_chr c ov) st)
           (fun x => let '(ws, st') := x in
                     hap_loop legacy14 norep npop d cur_chr ov hap cs (write ws arr) st')
  end.

Definition output_hap legacy14 norep npop d cur_chr ov hap chroms st :=
  hap_loop legacy14 norep npop d cur_chr ov hap chroms (repeat None (length ov)) st.

(* the pinned loop: rows of all variants read, a running offset cur_var instead
   of the chromosome's own rows, and the panel data read at the same offset *)
Fixpoint hap_loop_legacy (norep : bool) (npop : Z) (d : gdata) (cur_chr : bool) (rd : list (Z * rvar))
    (hap : list seg) (chroms : list Z) (cur_var : nat) (arr : list (option cell)) (st : dstate)
  : res (list (option cell) * dstate) :=
  match chroms with
  | [] => Ok (arr, st)
  | c :: cs =>
      let positions := map (fun iv : Z * rvar => rv_pos (snd iv))
                           (filter (fun iv : Z * rvar => on_chrom cur_chr c (snd iv)) rd) in
      let cv := map (fun x : nat * Z => (cur_var + fst x, Z.of_nat (cur_var + fst x), snd x)%nat)
                    (number_nat 0 positions) in
      bind (hap_chrom true norep npop d hap c cv st)
           (fun x => let '(ws, st') := x in
                     hap_loop_legacy norep npop d cur_chr rd hap cs (cur_var + length ws) (write ws arr) st')
  end.

(* ---- all simulated haplotypes -------------------------------------------- *)

Fixpoint haps_loop (legacy14 norep : bool) (npop : Z) (d : gdata) (cur_chr : bool) (ov : list (Z * rvar))
    (chroms : list Z) (bps : list (list seg)) (st : dstate)
  : res (list (list (option cell)) * dstate) :=
  match bps with
  | [] => Ok ([], st)
  | hap :: r =>
      bind (output_hap legacy14 norep npop d cur_chr ov hap chroms st)
           (fun x => let '(arr, st') := x in
           bind (haps_loop legacy14 norep npop d cur_chr ov chroms r st')
                (fun y => let '(rest, st'') := y in Ok (arr :: rest, st'')))
  end.

(* ---- choice of writer and FORMAT fields ---------------------------------- *)

(* legacy: valid_labels was only assigned when no POP array had been set up *)
Definition emits_pop (pgen pop_field sample_field : bool) : bool := pop_field && negb pgen.
Definition emits_sample (legacy : bool) (pgen pop_field sample_field : bool) : bool :=
  sample_field && negb pgen && negb (legacy && pop_field).

(* ---- output_vcf ----------------------------------------------------------- *)

Record config := mkcfg {
  g_chroms : list Z;
  g_npop : Z;                       (* labels in the model header incl. Admixed *)
  g_tab : poptab;                   (* sample-info restricted to the model's populations, file order *)
  g_vars : list rvar; g_data : gdata; g_nref : Z;
  g_region : option region;
  g_pop_field : bool; g_sample_field : bool; g_norep : bool; g_pgen : bool;
  g_bps : list (list seg);
  g_choice : list Z; g_strand : list (list Z); g_shuf : list (list Z)
}.

Record output := mkout {
  o_vars : list Z;                            (* written records: index in the panel (-1: no such record) *)
  o_gt : list (list (option Z));              (* per simulated haplotype (2*sample+strand), per record *)
  o_pop : option (list (list (option Z)));    (* POP as label index, when the field is written *)
  o_smp : option (list (list (option Z)))     (* SAMPLE as reference sample index *)
}.

Definition E_Assert : Z := 8.

Definition output_vcf (c : config) : res output :=
  (* every population of the header needs a sample-info entry *)
  if negb (lenZ (g_tab c) =? g_npop c - 1) then Err E_Assert else
  let rd := read_vars (g_region c) (g_vars c) in
  match rd with
  | [] => Err E_Index                          (* ref_vars["chrom"][0] *)
  | (_, v0) :: _ =>
    let cur_chr := rv_chr v0 in
    let ov := out_vars cur_chr (g_chroms c) rd in
    let st := mkds (g_tab c) (repeat [] (Z.to_nat (2 * g_nref c))) (g_choice c) (g_strand c) (g_shuf c) in
    bind (haps_loop false (g_norep c) (g_npop c) (g_data c) cur_chr ov (g_chroms c) (g_bps c) st)
         (fun x => let '(arrs, _) := x in
            let proj (f : cell -> Z) := map (map (option_map f)) arrs in
            Ok (mkout (map fst ov)
                      (proj (fun x => fst (fst x)))
                      (if emits_pop (g_pgen c) (g_pop_field c) (g_sample_field c)
                       then Some (proj (fun x => snd (fst x))) else None)
                      (if emits_sample false (g_pgen c) (g_pop_field c) (g_sample_field c)
                       then Some (proj (fun x => snd x)) else None)))
  end.
