(* C03 - proofs about the model of output_vcf. *)
From HV Require Import Prelude Tracts C01_Model C14_Model C14_Check C14_Proofs C03_Model C03_Check.

(* ---- writer_emits --------------------------------------------------------- *)

Lemma writer_emits pgen pf sf :
  emits_pop pgen pf sf = (pf && negb pgen) /\ emits_sample false pgen pf sf = (sf && negb pgen).
Proof. unfold emits_pop, emits_sample. cbn. rewrite andb_true_r. auto. Qed.

Example legacy_sample_dropped_refuted :
  emits_sample true false true true = false /\ emits_sample false false true true = true.
Proof. vm_compute. split; reflexivity. Qed.

(* ---- assign_is_first_ge ---------------------------------------------------- *)

(* non-decreasing *)
Fixpoint asc (l : list Z) : Prop :=
  match l with
  | [] => True
  | a :: r => (forall b, In b r -> a <= b) /\ asc r
  end.

Lemma ascending_asc l : ascending l = true -> asc l.
Proof.
  induction l as [|a r IH]; cbn [ascending asc]; [trivial|].
  intros H. apply andb_true_iff in H. destruct H as [H1 H2]. specialize (IH H2). split; [|exact IH].
  destruct r as [|b r']; [intros ? []|]. apply Z.leb_le in H1.
  intros x [<-|Hx]; [exact H1|]. destruct IH as [IH1 _]. specialize (IH1 x Hx). lia.
Qed.

Definition le_e (e : Z) := fun p : Z => p <=? e.
Definition gt_e (e : Z) := fun p : Z => negb (p <=? e).

Lemma count_le_nonneg ps e : 0 <= count_le ps e.
Proof. induction ps as [|p r IH]; cbn [count_le]; [lia|]. destruct (p <=? e); lia. Qed.

Lemma count_le_filter ps e : count_le ps e = lenZ (filter (le_e e) ps).
Proof.
  unfold lenZ, le_e. induction ps as [|p r IH]; cbn [count_le filter]; [reflexivity|].
  destruct (p <=? e); cbn [length]; lia.
Qed.

(* for e <= e', counting up to e' = counting up to e + counting, among the elements > e, up to e' *)
Lemma count_le_split ps e e' : e <= e' ->
  count_le ps e' = count_le ps e + count_le (filter (gt_e e) ps) e'.
Proof.
  intros H. unfold gt_e. induction ps as [|p r IH]; cbn [count_le filter]; [reflexivity|].
  destruct (p <=? e) eqn:E1; cbn [negb].
  - apply Z.leb_le in E1. assert (E2 : (p <=? e') = true) by (apply Z.leb_le; lia). rewrite E2. lia.
  - cbn [count_le]. destruct (p <=? e'); lia.
Qed.

(* an ascending list is its elements <= e followed by its elements > e *)
Lemma asc_partition ps e : asc ps -> ps = filter (le_e e) ps ++ filter (gt_e e) ps.
Proof.
  unfold le_e, gt_e. induction ps as [|p r IH]; cbn [filter asc]; [reflexivity|].
  intros [H1 H2]. destruct (p <=? e) eqn:E; cbn [negb].
  - cbn [app]. f_equal. apply IH. exact H2.
  - (* p > e, so no later element is <= e *)
    assert (F : filter (fun q => q <=? e) r = []).
    { apply Z.leb_gt in E. clear IH. induction r as [|q r' IHr]; [reflexivity|].
      cbn [filter]. assert (p <= q) by (apply H1; left; reflexivity).
      destruct (q <=? e) eqn:E2; [apply Z.leb_le in E2; lia|].
      apply IHr; [intros b Hb; apply H1; right; exact Hb|]. destruct H2 as [_ H2]. exact H2. }
    rewrite F. cbn [app]. f_equal.
    assert (G : filter (fun q => negb (q <=? e)) r = r).
    { apply Z.leb_gt in E. clear IH F. induction r as [|q r' IHr]; [reflexivity|].
      cbn [filter]. assert (p <= q) by (apply H1; left; reflexivity).
      destruct (q <=? e) eqn:E2; [apply Z.leb_le in E2; lia|]. cbn [negb]. f_equal.
      apply IHr; [intros b Hb; apply H1; right; exact Hb|]. destruct H2 as [_ H2]. exact H2. }
    rewrite G. reflexivity.
Qed.

Lemma asc_filter f ps : asc ps -> asc (filter f ps).
Proof.
  induction ps as [|p r IH]; cbn [filter asc]; [trivial|]. intros [H1 H2].
  destruct (f p); [|auto]. cbn [asc]. split; [|auto].
  intros b Hb. apply filter_In in Hb. apply H1. tauto.
Qed.

Lemma diffs_shift c k (es : list Z) (f : Z -> Z) :
  diffs (c + k) (map (fun e => c + f e) es) = diffs k (map f es).
Proof.
  revert k. induction es as [|e r IH]; intros k; cbn [map diffs]; [reflexivity|].
  f_equal; [lia|]. apply IH.
Qed.

Lemma map_ext_in' {A B} (f g : A -> B) l : (forall x, In x l -> f x = g x) -> map f l = map g l.
Proof. apply map_ext_in. Qed.

Lemma map_const_repeat {A B} (f : A -> B) (c : B) l :
  (forall x, In x l -> f x = c) -> map f l = repeat c (length l).
Proof.
  induction l as [|x l IH]; intros H; [reflexivity|]. cbn [map length repeat].
  rewrite (H x (or_introl eq_refl)). f_equal. apply IH. intros y Hy. apply H. right. exact Hy.
Qed.

(* the general statement, with the block numbering starting at k *)
Lemma assign_gen ends : forall ps k,
  asc ends -> asc ps ->
  (forall p, In p ps -> exists e, last_opt ends = Some e /\ p <= e) ->
  repeat_by (seq k (length ends)) (diffs 0 (map (count_le ps) ends))
  = Ok (map (fun p => (k + first_ge ends p)%nat) ps).
Proof.
  induction ends as [|e r IH]; intros ps k He Hp Hl.
  - cbn. destruct ps as [|p ps']; [reflexivity|].
    destruct (Hl p (or_introl eq_refl)) as [x [Hx _]]. discriminate.
  - cbn [length seq map diffs repeat_by]. destruct He as [He1 He2].
    pose proof (count_le_nonneg ps e) as Hn.
    destruct (count_le ps e - 0 <? 0) eqn:En; [apply Z.ltb_lt in En; lia|].
    set (ps' := filter (gt_e e) ps).
    assert (Hmap : map (count_le ps) r = map (fun e' => count_le ps e + count_le ps' e') r).
    { apply map_ext_in. intros e' He'. apply count_le_split. apply He1. exact He'. }
    rewrite Hmap.
    replace (count_le ps e) with (count_le ps e + 0) at 1 by lia.
    rewrite (diffs_shift (count_le ps e) 0 r (count_le ps')).
    rewrite (IH ps' (S k) He2).
    + cbn [bind]. f_equal.
      rewrite (asc_partition ps e Hp) at 2. rewrite map_app. f_equal.
      * (* the elements <= e all go to block k *)
        rewrite Z.sub_0_r, count_le_filter. unfold lenZ. rewrite Nat2Z.id.
        symmetry. apply map_const_repeat. intros q Hq. apply filter_In in Hq.
        destruct Hq as [_ Hq]. unfold le_e in Hq. cbn [first_ge]. rewrite Hq. lia.
      * apply map_ext_in. intros p Hp'. apply filter_In in Hp'. destruct Hp' as [_ Hp'].
        unfold gt_e in Hp'. cbn [first_ge]. apply negb_true_iff in Hp'. rewrite Hp'. lia.
    + apply asc_filter. exact Hp.
    + intros p Hp'. apply filter_In in Hp'. destruct Hp' as [Hin Hgt].
      unfold gt_e in Hgt. apply negb_true_iff in Hgt. apply Z.leb_gt in Hgt.
      destruct (Hl p Hin) as [x [Hx Hle]].
      destruct r as [|e2 r2].
      * unfold last_opt in Hx. cbn in Hx. inversion Hx; subst. lia.
      * exists x. split; [|exact Hle].
        unfold last_opt in *. cbn [rev] in *. 
        destruct (rev r2 ++ [e2]) as [|y t] eqn:ER.
        { destruct (rev r2); discriminate. }
        cbn [app] in Hx. exact Hx.
Qed.

(* assign_is_first_ge: searchsorted(side='right') + diff + repeat gives every
   variant the first block whose end is >= its position; in particular a
   variant on a block end belongs to that block *)
Lemma assign_is_first_ge ps ends :
  asc ps -> asc ends ->
  (forall p, In p ps -> exists e, last_opt ends = Some e /\ p <= e) ->
  assign ps ends = Ok (map (first_ge ends) ps).
Proof.
  intros Hp He Hl. unfold assign. rewrite (assign_gen ends ps 0%nat He Hp Hl).
  f_equal.
Qed.

(* ---- first_ge: what the assignment means ----------------------------------- *)

(* the block found ends at or after p, every earlier block ends before p *)
Lemma first_ge_spec ends p :
  (exists e, In e ends /\ p <= e) ->
  exists e, nth_error ends (first_ge ends p) = Some e /\ p <= e /\
            forall j e', (j < first_ge ends p)%nat -> nth_error ends j = Some e' -> e' < p.
Proof.
  induction ends as [|e r IH]; intros [x [Hx Hle]]; [destruct Hx|].
  cbn [first_ge]. destruct (p <=? e) eqn:E.
  - exists e. apply Z.leb_le in E. split; [reflexivity|]. split; [exact E|]. intros j e' Hj. lia.
  - apply Z.leb_gt in E. destruct Hx as [->|Hx]; [lia|].
    destruct (IH (ex_intro _ x (conj Hx Hle))) as [e0 [H1 [H2 H3]]].
    exists e0. split; [exact H1|]. split; [exact H2|].
    intros [|j] e' Hj Hn; cbn in Hn.
    + inversion Hn; subst. exact E.
    + apply (H3 j e'); [lia|exact Hn].
Qed.

(* a variant exactly on a block end belongs to that block (ends strictly increasing) *)
Lemma first_ge_on_end ends : forall i e,
  (forall j e', (j < i)%nat -> nth_error ends j = Some e' -> e' < e) ->
  nth_error ends i = Some e -> first_ge ends e = i.
Proof.
  induction ends as [|x r IH]; intros i e Hlt Hn; [destruct i; discriminate|].
  cbn [first_ge]. destruct i as [|i]; cbn in Hn.
  - inversion Hn; subst. rewrite Z.leb_refl. reflexivity.
  - assert (x < e) by (apply (Hlt O x); [lia|reflexivity]).
    destruct (e <=? x) eqn:E; [apply Z.leb_le in E; lia|]. f_equal.
    apply IH; [|exact Hn]. intros j e' Hj Hj'. apply (Hlt (S j) e'); [lia|exact Hj'].
Qed.

(* on the tracts of one chromosome the assignment is the breakpoints' own lookup:
   label_at (first tract of c whose end >= p) = label of block first_ge *)
Lemma first_ge_label segs c p :
  (forall s, In s segs -> chrom s = c) ->
  label_at segs c p = option_map pop (nth_error segs (first_ge (map endc segs) p)).
Proof.
  induction segs as [|s r IH]; intros H; [reflexivity|].
  cbn [label_at map first_ge]. rewrite (proj2 (Z.eqb_eq _ _) (H s (or_introl eq_refl))). cbn [andb].
  destruct (p <=? endc s); [reflexivity|]. cbn [nth_error]. apply IH. intros x Hx. apply H. right. exact Hx.
Qed.

(* ---- no_uninitialised ------------------------------------------------------- *)

Definition filled {A} (arr : list (option A)) (i : nat) : Prop :=
  exists x, nth_error arr i = Some (Some x).

Lemma set_nth_length {A} (l : list A) n x : length (set_nth l n x) = length l.
Proof. revert n. induction l as [|y l IH]; intros [|n]; cbn; auto. Qed.

Lemma set_nth_same {A} (l : list A) n x : (n < length l)%nat -> nth_error (set_nth l n x) n = Some x.
Proof.
  revert n. induction l as [|y l IH]; intros [|n] H; cbn in *; try lia; [reflexivity|]. apply IH. lia.
Qed.

Lemma set_nth_other {A} (l : list A) n i x : i <> n -> nth_error (set_nth l n x) i = nth_error l i.
Proof.
  revert n i. induction l as [|y l IH]; intros [|n] [|i] H; cbn; auto; try lia.
Qed.

Lemma write_length {A} (ws : list (nat * A)) : forall arr, length (write ws arr) = length arr.
Proof.
  induction ws as [|[i x] r IH]; intros arr; cbn [write]; [reflexivity|].
  rewrite IH. apply set_nth_length.
Qed.

Lemma write_filled_mono {A} (ws : list (nat * A)) : forall arr i, filled arr i -> filled (write ws arr) i.
Proof.
  induction ws as [|[j x] r IH]; intros arr i H; cbn [write]; [exact H|]. apply IH.
  destruct H as [y Hy]. destruct (Nat.eq_dec i j) as [->|Hne].
  - exists x. apply set_nth_same. apply nth_error_Some. rewrite Hy. discriminate.
  - exists y. rewrite set_nth_other; [exact Hy|exact Hne].
Qed.

Lemma write_fills {A} (ws : list (nat * A)) : forall arr i,
  In i (map fst ws) -> (i < length arr)%nat -> filled (write ws arr) i.
Proof.
  induction ws as [|[j x] r IH]; intros arr i Hin Hlt; cbn [write]; [destruct Hin|].
  destruct Hin as [Hj|Hin].
  - cbn in Hj. subst j. apply write_filled_mono. exists x. apply set_nth_same. exact Hlt.
  - apply IH; [exact Hin|]. rewrite set_nth_length. exact Hlt.
Qed.

Definition slot (v : cvar) : nat := fst (fst v).

Lemma cells_of_slots d bl : forall idxs cv ws,
  cells_of d bl idxs cv = Ok ws -> length idxs = length cv -> map fst ws = map slot cv.
Proof.
  induction idxs as [|bi ir IH]; intros [|[[sl oi] po] cr] ws H L; cbn in L; try discriminate.
  - cbn in H. inversion H; reflexivity.
  - cbn [cells_of] in H. destruct (nth_error bl bi) as [b|]; [|discriminate].
    destruct (lookup d (b_samp b) oi (b_strand b)) as [a|]; [|discriminate].
    destruct (cells_of d bl ir cr) as [t|k] eqn:E; cbn [bind] in H; [|discriminate].
    inversion H; subst. cbn [map fst slot]. f_equal. apply (IH cr t E). lia.
Qed.

Lemma conv_rep_ends npop segs : forall t ch bl ch',
  conv_rep npop segs t ch = Ok (bl, ch') -> map b_end bl = map endc segs.
Proof.
  induction segs as [|s r IH]; intros t ch bl ch'; cbn [conv_rep].
  - intros H; inversion H; reflexivity.
  - destruct ((pop s <? 0) || (npop <=? pop s)); [discriminate|].
    destruct (pt_get t (pop s)) as [[|x0 lst]|]; [discriminate| |discriminate].
    destruct ch as [|i ch1]; [discriminate|].
    destruct (nthZ (x0 :: lst) i) as [smp|]; [|discriminate].
    destruct (smp <? 0); [discriminate|].
    destruct (conv_rep npop r t ch1) as [[bl2 ch2]|k] eqn:E; cbn [bind]; [|discriminate].
    intros H; inversion H; subst. cbn [map b_end]. f_equal. eapply IH; eauto.
Qed.

(* the chromosome is covered: its tracts' ends ascend and reach every variant position read *)
Definition chrom_covered (hap : list seg) (c : Z) (cv : list cvar) : Prop :=
  asc (map (fun v : cvar => snd v) cv) /\ asc (map endc (segs_of c hap)) /\
  forall p, In p (map (fun v : cvar => snd v) cv) ->
    exists e, last_opt (map endc (segs_of c hap)) = Some e /\ p <= e.

(* one chromosome: every row of the chromosome is written *)
Lemma hap_chrom_slots norep npop d hap c cv st ws st' :
  hap_chrom false norep npop d hap c cv st = Ok (ws, st') ->
  chrom_covered hap c cv -> map fst ws = map slot cv.
Proof.
  unfold hap_chrom. intros H [C1 [C2 C3]].
  set (segs := segs_of c hap) in *.
  assert (Hends : forall bl0 st1,
    (if norep
     then bind (conv_norep false npop segs c 0 (d_tab st) (d_hu st) (d_shuf st))
            (fun x => let '(bl, t, hu, sh) := x in Ok (bl, mkds t hu (d_choice st) (d_strand st) sh))
     else bind (conv_rep npop segs (d_tab st) (d_choice st))
            (fun x => let '(bl, ch) := x in Ok (bl, mkds (d_tab st) (d_hu st) ch (d_strand st) (d_shuf st))))
    = Ok (bl0, st1) -> map b_end bl0 = map endc segs).
  { intros bl0 st1. destruct norep.
    - destruct (conv_norep false npop segs c 0 (d_tab st) (d_hu st) (d_shuf st)) as [[[[bl t] hu] sh]|k] eqn:E;
        cbn [bind]; [|discriminate]. intros H1; inversion H1; subst.
      apply conv_norep_blocks in E. tauto.
    - destruct (conv_rep npop segs (d_tab st) (d_choice st)) as [[bl ch]|k] eqn:E; cbn [bind]; [|discriminate].
      intros H1; inversion H1; subst. eapply conv_rep_ends; eauto. }
  destruct (if norep then _ else _) as [[bl0 st1]|k] eqn:E0; cbn [bind] in H; [|discriminate].
  specialize (Hends bl0 st1 eq_refl). rewrite Hends in H.
  rewrite (assign_is_first_ge _ _ C1 C2 C3) in H. cbn [bind] in H.
  destruct (if norep then Ok (bl0, st1) else _) as [[bl st2]|k] eqn:E1; cbn [bind] in H; [|discriminate].
  destruct (cells_of d bl _ cv) as [ws0|k] eqn:E2; cbn [bind] in H; [|discriminate].
  inversion H; subst. apply (cells_of_slots _ _ _ _ _ E2). rewrite !map_length. reflexivity.
Qed.

Lemma hap_loop_filled norep npop d cur_chr ov hap : forall chroms arr st arr' st',
  hap_loop false norep npop d cur_chr ov hap chroms arr st = Ok (arr', st') ->
  (forall c, In c chroms -> chrom_covered hap c (cvars_of cur_chr c ov)) ->
  length arr' = length arr /\
  (forall i, filled arr i -> filled arr' i) /\
  (forall c i, In c chroms -> In i (map slot (cvars_of cur_chr c ov)) -> (i < length arr)%nat -> filled arr' i).
Proof.
  induction chroms as [|c cs IH]; intros arr st arr' st' H Hc; cbn [hap_loop] in H.
  - inversion H; subst. split; [reflexivity|]. split; [auto|]. intros c i [].
  - destruct (hap_chrom false norep npop d hap c (cvars_of cur_chr c ov) st) as [[ws st1]|k] eqn:E;
      cbn [bind] in H; [|discriminate].
    pose proof (hap_chrom_slots _ _ _ _ _ _ _ _ _ E (Hc c (or_introl eq_refl))) as Hs.
    destruct (IH _ _ _ _ H (fun c' Hc' => Hc c' (or_intror Hc'))) as [L [M F]].
    rewrite write_length in L. split; [exact L|]. split.
    + intros i Hi. apply M. apply write_filled_mono. exact Hi.
    + intros c' i [<-|Hc'] Hi Hlt.
      * apply M. apply write_fills; [rewrite Hs; exact Hi|exact Hlt].
      * apply (F c' i Hc' Hi). rewrite write_length. exact Hlt.
Qed.

Lemma number_nat_In {A} (l : list A) : forall k i x,
  nth_error l i = Some x -> In ((k + i)%nat, x) (number_nat k l).
Proof.
  induction l as [|y l IH]; intros k [|i] x H; cbn in H; try discriminate.
  - inversion H; subst. rewrite Nat.add_0_r. left. reflexivity.
  - cbn [number_nat]. right. replace (k + S i)%nat with (S k + i)%nat by lia. apply IH. exact H.
Qed.

(* a row whose variant lies on chromosome c is one of c's rows *)
Lemma slot_in_cvars cur_chr c ov i iv :
  nth_error ov i = Some iv -> on_chrom cur_chr c (snd iv) = true ->
  In i (map slot (cvars_of cur_chr c ov)).
Proof.
  intros Hn Hc. unfold cvars_of. rewrite map_map. apply in_map_iff.
  exists (i, iv). split; [reflexivity|]. apply filter_In. split; [|exact Hc].
  apply (number_nat_In ov 0%nat i iv Hn).
Qed.

(* no_uninitialised: with every requested chromosome covered by the haplotype's
   tracts, every output row of the haplotype is written (never left np.empty),
   whatever chromosomes the reference holds and in whatever order *)
Lemma no_uninitialised norep npop d cur_chr chroms rd hap st arr st' :
  let ov := out_vars cur_chr chroms rd in
  output_hap false norep npop d cur_chr ov hap chroms st = Ok (arr, st') ->
  (forall c, In c chroms -> chrom_covered hap c (cvars_of cur_chr c ov)) ->
  length arr = length ov /\ forall i, (i < length ov)%nat -> filled arr i.
Proof.
  intros ov H Hc. unfold output_hap in H.
  destruct (hap_loop_filled _ _ _ _ _ _ _ _ _ _ _ H Hc) as [L [_ F]].
  rewrite repeat_length in L. split; [exact L|]. intros i Hi.
  destruct (nth_error ov i) as [iv|] eqn:En; [|apply nth_error_None in En; lia].
  assert (Hreq : requested cur_chr chroms (snd iv) = true).
  { apply nth_error_In in En. unfold ov, out_vars in En. apply filter_In in En. tauto. }
  unfold requested in Hreq. apply existsb_exists in Hreq. destruct Hreq as [c [Hin Hon]].
  apply (F c i Hin); [eapply slot_in_cvars; eauto|]. rewrite repeat_length. exact Hi.
Qed.

(* the rows written are exactly the reference's variants on the requested
   chromosomes, in the reference's order: nothing else is written *)
Lemma out_vars_spec cur_chr chroms rd iv :
  In iv (out_vars cur_chr chroms rd) <->
  In iv rd /\ exists c, In c chroms /\ on_chrom cur_chr c (snd iv) = true.
Proof.
  unfold out_vars, requested. rewrite filter_In, existsb_exists. tauto.
Qed.

(* ---- the pinned loop is refuted -------------------------------------------- *)

Definition ex_vars := [mkrv false 1 10; mkrv false 2 10; mkrv false 3 10].
Definition ex_data : gdata := [[(0, 1); (2, 3); (1, 0)]; [(2, 3); (0, 1); (3, 2)]].
Definition ex_hap := [mkseg 1 1 2147483647 0; mkseg 2 3 2147483647 0].
Definition ex_st := mkds [(1, [0]); (2, [1])] [[]; []; []; []] [0; 0] [[0]; [0]] [].
Definition arr_of (x : res (list (option cell) * dstate)) : list (option cell) :=
  match x with Ok (a, _) => a | Err _ => [] end.

(* reference holds chromosomes 1,2,3; requested 1,3.  Pinned: chromosome 2's row
   gets chromosome 3's assignment (label 2, reference sample 1) read from the
   panel's chromosome-2 row, chromosome 3's row stays uninitialised.
   Repaired: rows = the variants of chromosomes 1 and 3, both written from
   their own panel rows. *)
Example legacy_extra_chrom_refuted :
  arr_of (hap_loop_legacy false 3 ex_data false (read_vars None ex_vars) ex_hap [1; 3] 0
            (repeat None 3) ex_st)
  = [Some (0, 1, 0); Some (0, 2, 1); None]
  /\ map fst (out_vars false [1; 3] (read_vars None ex_vars)) = [0; 2]
  /\ arr_of (output_hap false false 3 ex_data false (out_vars false [1; 3] (read_vars None ex_vars))
               ex_hap [1; 3] ex_st)
  = [Some (0, 1, 0); Some (3, 2, 1)].
Proof. vm_compute. repeat split; reflexivity. Qed.

(* ---- soundness of the boolean checkers ------------------------------------- *)

Lemma Zeqb_spec a b : (a =? b) = true <-> a = b.
Proof. apply Z.eqb_eq. Qed.

Lemma holds_assign_sound k :
  holds_assign k = true -> assign_pre (a_pos k) (a_ends k) = true ->
  a_obs k = Ok (map (fun p => Z.of_nat (first_ge (a_ends k) p)) (a_pos k)).
Proof.
  unfold holds_assign. intros H Hp. rewrite Hp in H.
  destruct (a_obs k) as [l|e]; cbn [res_eqb] in H; [|discriminate].
  apply (list_eqb_spec Z.eqb Zeqb_spec) in H. subst. reflexivity.
Qed.

(* the precondition evaluated by the checker is the theorem's hypothesis *)
Lemma assign_pre_sound pos ends : assign_pre pos ends = true ->
  asc pos /\ asc ends /\ forall p, In p pos -> exists e, last_opt ends = Some e /\ p <= e.
Proof.
  unfold assign_pre. intros H. apply andb_true_iff in H. destruct H as [H H3].
  apply andb_true_iff in H. destruct H as [H1 H2].
  split; [apply ascending_asc; exact H1|]. split; [apply ascending_asc; exact H2|].
  intros p Hp. destruct (last_opt ends) as [e|].
  - exists e. split; [reflexivity|]. rewrite forallb_forall in H3. apply Z.leb_le. apply H3. exact Hp.
  - destruct pos; [destruct Hp|discriminate].
Qed.

Lemma block_key_label l c p : forall i, option_map snd (block_key l c p i) = label_at l c p.
Proof.
  induction l as [|s r IH]; intros i; cbn [block_key label_at]; [reflexivity|].
  destruct ((chrom s =? c) && (p <=? endc s)); [reflexivity|]. apply IH.
Qed.

Lemma key_eqb_refl k : key_eqb k k = true.
Proof. unfold key_eqb. rewrite Nat.eqb_refl, Z.eqb_refl. reflexivity. Qed.

(* what hap_ok = true says about one simulated haplotype: every written cell
   whose position the breakpoints label lies in a block for which ONE reference
   haplotype (r,u), r listed by the sample-info file under the block's label,
   explains the allele of every cell of the block; SAMPLE (if written) names r,
   POP (if written) is the label *)
Lemma hap_ok_sound c out h :
  hap_ok c out h = true -> sorted (nth_or [] (g_bps c) h) ->
  forall it, In it (items_of c out h) -> forall k, i_key it = Some k ->
  (exists r u, In r (cands c (snd k)) /\ (u = 0 \/ u = 1) /\
     forall it', In it' (items_of c out h) -> i_key it' = Some k ->
       exists a, i_gt it' = Some a /\ lookup (g_data c) r (i_oidx it') u = Some a /\
                 (forall s, i_smp it' = Some s -> s = Some r))
  /\ (forall p, i_pop it = Some p -> p = Some (snd k)).
Proof.
  unfold hap_ok. intros H Hs it Hit k Hk.
  apply sortedb_spec in Hs. rewrite Hs in H. cbn [negb orb] in H.
  rewrite forallb_forall in H. specialize (H it Hit). unfold item_ok in H. rewrite Hk in H.
  apply andb_true_iff in H. destruct H as [H1 H2]. split.
  - apply existsb_exists in H1. destruct H1 as [r [Hr H1]].
    apply existsb_exists in H1. destruct H1 as [u [Hu H1]].
    exists r, u. split; [exact Hr|]. split.
    { destruct Hu as [<-|[<-|[]]]; auto. }
    intros it' Hit' Hk'. rewrite forallb_forall in H1. specialize (H1 it' Hit').
    unfold item_from in H1. rewrite Hk', key_eqb_refl in H1.
    apply andb_true_iff in H1. destruct H1 as [H1 H5]. apply andb_true_iff in H1. destruct H1 as [H3 H4].
    destruct (i_gt it') as [a|]; [|discriminate]. exists a. split; [reflexivity|].
    apply (opt_eqb_spec Z.eqb Zeqb_spec) in H3. split; [symmetry; exact H3|].
    intros s Hsm. rewrite Hsm in H5. apply (opt_eqb_spec Z.eqb Zeqb_spec) in H5. exact H5.
  - intros p Hp. rewrite Hp in H2. apply (opt_eqb_spec Z.eqb Zeqb_spec) in H2. exact H2.
Qed.

(* requested annotations are present, every simulated haplotype is in the output *)
Lemma holds_out_sound c out :
  holds_out c out = true ->
  (g_pop_field c = true -> g_pgen c = false -> o_pop out <> None) /\
  (g_sample_field c = true -> g_pgen c = false -> o_smp out <> None) /\
  length (o_gt out) = length (g_bps c) /\
  (forall h, (h < length (g_bps c))%nat -> hap_ok c out h = true) /\
  (uniform_prefix (g_vars c) = true ->
   o_vars out = map fst (filter (fun iv : Z * rvar => existsb (Z.eqb (rv_chrom (snd iv))) (g_chroms c))
                                (read_vars (g_region c) (g_vars c)))).
Proof.
  unfold holds_out. intros H. apply andb_true_iff in H. destruct H as [H H4].
  apply andb_true_iff in H. destruct H as [H H3]. apply andb_true_iff in H. destruct H as [H1 H2].
  unfold fields_ok in H2. apply andb_true_iff in H2. destruct H2 as [H2a H2b].
  unfold shape_ok in H3. apply andb_true_iff in H3. destruct H3 as [H3 _].
  split; [|split; [|split; [|split]]].
  - intros A B. rewrite A, B in H2a. cbn in H2a. destruct (o_pop out); [discriminate|discriminate].
  - intros A B. rewrite A, B in H2b. cbn in H2b. destruct (o_smp out); [discriminate|discriminate].
  - apply Nat.eqb_eq. exact H3.
  - intros h Hh. rewrite forallb_forall in H4. apply H4. apply in_seq. lia.
  - intros U. unfold vars_ok in H1. rewrite U in H1. cbn [negb orb] in H1.
    apply (list_eqb_spec Z.eqb Zeqb_spec) in H1. exact H1.
Qed.

(* the hypotheses of assign_is_first_ge are satisfiable: positions 10 (on the
   first block's end), 11, 30 and one beyond every marker; ends 10, 25, sentinel *)
Example assign_example :
  asc [10; 11; 30; 5000] /\ asc [10; 25; 2147483647] /\
  (forall p, In p [10; 11; 30; 5000] -> exists e, last_opt [10; 25; 2147483647] = Some e /\ p <= e) /\
  assign [10; 11; 30; 5000] [10; 25; 2147483647] = Ok [0; 1; 2; 2]%nat.
Proof.
  split; [cbn; intuition lia|]. split; [cbn; intuition lia|]. split; [|vm_compute; reflexivity].
  intros p Hp. exists 2147483647. split; [reflexivity|]. cbn in Hp. intuition lia.
Qed.
