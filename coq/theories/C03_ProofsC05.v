(* C03 - cross-file corollary with C05: the POP annotations simgenotype writes are what the model of
   Breakpoints.population_array (C05_Model) returns for the same breakpoints at the output's variants.
   (Kept in its own file: it is the only C03 file that depends on C05's development.) *)
From HV Require Import Prelude Tracts Tiling C01_Model C01_Proofs C01_Bsearch C14_Model C14_Check C14_Proofs
  C03_Model C03_Check C03_Proofs C03_ProofsE2E C03_ProofsSpec.
From HV Require C05_Model C05_Proofs.

(* ---- (4) cross-file corollary with C05 -------------------------------------------------------- *)

Definition var_of (iv : Z * rvar) : C05_Model.variant := C05_Model.mkvar (rv_chrom (snd iv)) (rv_pos (snd iv)).

(* the labels population_array computes for one strand at the given variants *)
Definition labs_of (hap : list seg) (vs : list C05_Model.variant) : list Z := map (C05_Proofs.lab hap) vs.

(* one strand: the POP row written for simulated haplotype h is, cell by cell, what
   Breakpoints.population_array (C05's model: strand_row) looks up in h's tracts at the output's
   variants - simgenotype's block assignment and the breakpoint reader's lookup are one function *)
Theorem pop_is_strand_row (g : config) (out : output) (m : list (list (option Z))) :
  output_vcf g = Ok out -> o_pop out = Some m ->
  NoDup (g_chroms g) -> (forall c, In c (g_chroms g) -> 0 <= c) ->
  (forall hap, In hap (g_bps g) -> sorted hap /\ forall s, In s hap -> 0 <= endc s) ->
  forall cur_chr, (exists i0 v0 r, read_vars (g_region g) (g_vars g) = (i0, v0) :: r /\ cur_chr = rv_chr v0) ->
  let ov := out_vars cur_chr (g_chroms g) (read_vars (g_region g) (g_vars g)) in
  (forall hap, In hap (g_bps g) -> forall c, In c (g_chroms g) -> chrom_covered hap c (cvars_of cur_chr c ov)) ->
  forall h hap, nth_error (g_bps g) h = Some hap ->
    C05_Model.strand_row hap (map var_of ov) = Ok (labs_of hap (map var_of ov)) /\
    nth_error m h = Some (map Some (labs_of hap (map var_of ov))).
Proof.
  intros H Hm Hnd Hnn Hsorted cur_chr Hcur. cbv zeta. intros Hcov h hap Hh.
  set (ov := out_vars cur_chr (g_chroms g) (read_vars (g_region g) (g_vars g))) in *.
  destruct (output_rows g out H Hnd cur_chr Hcur Hcov) as [_ [_ Hrows]].
  destruct (Hrows h hap Hh) as [arr [La [_ [Hpop [_ Hcells]]]]].
  destruct (Hsorted hap (nth_error_In _ _ Hh)) as [Hs Hpos].
  (* every output row: the cell's label is label_at of the row's variant *)
  assert (R : forall i iv, nth_error ov i = Some iv ->
            exists lab, label_at hap (rv_chrom (snd iv)) (rv_pos (snd iv)) = Some lab /\
                        nth_error (map (option_map pop_of) arr) i = Some (Some lab)).
  { intros i [oidx v] Hi. cbn [snd].
    assert (Hreq : exists c, In c (g_chroms g) /\ on_chrom cur_chr c v = true).
    { apply nth_error_In in Hi. apply out_vars_spec in Hi. destruct Hi as [_ Hi]. exact Hi. }
    destruct Hreq as [c [Hc Hon]]. destruct (Hcells c Hc) as [bl [Hbl Hr]].
    destruct (Hr i oidx v Hi Hon) as [b [a [Hb [_ Hcell]]]].
    destruct (block_label _ _ _ _ _ _ _ Hs (Hnn c Hc) Hpos Hbl Hb) as [Hlab _].
    rewrite (on_chrom_chrom _ _ _ Hon). exists (b_pop b). split; [exact Hlab|].
    rewrite nth_error_map, Hcell. reflexivity. }
  split.
  - rewrite C05_Proofs.strand_row_cellwise. apply C05_Proofs.mapM_ok_map.
    intros x Hx. apply in_map_iff in Hx. destruct Hx as [iv [<- Hiv]].
    destruct (In_nth_error _ _ Hiv) as [i Hi]. destruct (R i iv Hi) as [lab [Hlab _]].
    unfold C05_Proofs.cell, C05_Proofs.lab, var_of. cbn [C05_Model.vchrom C05_Model.vpos]. rewrite Hlab. reflexivity.
  - rewrite (Hpop m Hm). f_equal. apply nth_error_ext. intros i.
    unfold labs_of. rewrite !map_map.
    destruct (nth_error ov i) as [iv|] eqn:Hi.
    + destruct (R i iv Hi) as [lab [Hlab Hc]]. rewrite Hc.
      rewrite (map_nth_error _ _ _ Hi).
      unfold C05_Proofs.lab, var_of. cbn [C05_Model.vchrom C05_Model.vpos]. rewrite Hlab. reflexivity.
    + pose proof Hi as Hi2. apply nth_error_None in Hi2.
      transitivity (@None (option Z)).
      * apply nth_error_None. rewrite map_length, La. exact Hi2.
      * symmetry. apply nth_error_None. rewrite map_length. exact Hi2.
Qed.

(* the simulated samples as the table a .bp file holds: sample s = (haplotype 2s, haplotype 2s+1) *)
Fixpoint pair_up (i : Z) (l : list (list seg)) : C05_Model.table :=
  match l with
  | a :: b :: r => (i, (a, b)) :: pair_up (i + 1) r
  | _ => []
  end.

Lemma pair_up_In : forall l i e, In e (pair_up i l) -> In (fst (snd e)) l /\ In (snd (snd e)) l.
Proof.
  fix IH 1. intros [|a [|b r]] i e H; cbn [pair_up] in H; try destruct H.
  - subst e. cbn. auto.
  - destruct (IH r (i + 1) e H) as [A B]. split; right; right; assumption.
Qed.

(* the whole table: population_array over the simulated samples at the output's variants returns, per
   sample, the two strands' labels side by side; and row h of the POP matrix written is strand h's labels *)
Theorem pop_is_population_array (g : config) (out : output) (m : list (list (option Z))) :
  output_vcf g = Ok out -> o_pop out = Some m ->
  NoDup (g_chroms g) -> (forall c, In c (g_chroms g) -> 0 <= c) ->
  (forall hap, In hap (g_bps g) -> sorted hap /\ forall s, In s hap -> 0 <= endc s) ->
  forall cur_chr, (exists i0 v0 r, read_vars (g_region g) (g_vars g) = (i0, v0) :: r /\ cur_chr = rv_chr v0) ->
  let ov := out_vars cur_chr (g_chroms g) (read_vars (g_region g) (g_vars g)) in
  let vs := map var_of ov in
  (forall hap, In hap (g_bps g) -> forall c, In c (g_chroms g) -> chrom_covered hap c (cvars_of cur_chr c ov)) ->
  C05_Model.population_array (pair_up 0 (g_bps g)) vs None
    = Ok (map (fun e => combine (labs_of (fst (snd e)) vs) (labs_of (snd (snd e)) vs)) (pair_up 0 (g_bps g)))
  /\ forall h hap, nth_error (g_bps g) h = Some hap -> nth_error m h = Some (map Some (labs_of hap vs)).
Proof.
  intros H Hm Hnd Hnn Hsorted cur_chr Hcur. cbv zeta. intros Hcov.
  assert (S : forall hap, In hap (g_bps g) ->
            C05_Model.strand_row hap (map var_of (out_vars cur_chr (g_chroms g) (read_vars (g_region g) (g_vars g))))
            = Ok (labs_of hap (map var_of (out_vars cur_chr (g_chroms g) (read_vars (g_region g) (g_vars g)))))).
  { intros hap Hh. destruct (In_nth_error _ _ Hh) as [h Hn].
    apply (pop_is_strand_row g out m H Hm Hnd Hnn Hsorted cur_chr Hcur Hcov h hap Hn). }
  split.
  - unfold C05_Model.population_array, C05_Model.select. cbn [bind]. apply C05_Proofs.mapM_ok_map.
    intros e He. destruct (pair_up_In _ _ _ He) as [A B]. unfold C05_Model.sample_rows.
    rewrite (S _ A). cbn [bind]. rewrite (S _ B). reflexivity.
  - intros h hap Hn. apply (pop_is_strand_row g out m H Hm Hnd Hnn Hsorted cur_chr Hcur Hcov h hap Hn).
Qed.

(* on the example configuration of C03_ProofsE2E *)
Example pop_is_population_array_example :
  C05_Model.population_array (pair_up 0 (g_bps ex_cfg))
     (map var_of (out_vars false (g_chroms ex_cfg) (read_vars (g_region ex_cfg) (g_vars ex_cfg)))) None
  = Ok [[(1, 1); (2, 1)]].
Proof. vm_compute. reflexivity. Qed.
