(* C03 - completeness of the boolean checker with respect to the model (replacement mode):
   whatever the model of output_vcf returns on sorted, covering breakpoints passes [holds_out].
   Together with the soundness theorems (C03_hap_ok_sound, C03_holds_out_sound) this says that
   [holds] demands of an output exactly what the model delivers: evaluated on the
   implementation's files it can fail only where they differ from every output the model allows. *)
From HV Require Import Prelude Tracts Tiling C01_Model C01_Proofs C01_Bsearch C14_Model C14_Check C14_Proofs
  C03_Model C03_Check C03_Proofs C03_SimCheck C03_ProofsE2E C03_ProofsSpec.

(* ---- panel indices ---------------------------------------------------------------------------- *)

Lemma number_from_nthZ {A} (l : list A) : forall k i x, 0 <= k -> In (i, x) (number_from k l) ->
  k <= i /\ nthZ l (i - k) = Some x.
Proof.
  induction l as [|y r IH]; intros k i x Hk H; [destruct H|]. cbn [number_from] in H. destruct H as [H|H].
  - inversion H; subst. split; [lia|]. rewrite Z.sub_diag. reflexivity.
  - destruct (IH (k + 1) i x ltac:(lia) H) as [Hle Hn]. split; [lia|].
    unfold nthZ in *. destruct (i - (k + 1) <? 0) eqn:E; [discriminate|]. apply Z.ltb_ge in E.
    destruct (i - k <? 0) eqn:E2; [apply Z.ltb_lt in E2; lia|].
    replace (i - k) with (Z.succ (i - (k + 1))) by lia. rewrite Z2Nat.inj_succ by lia. exact Hn.
Qed.

Lemma out_var_nthZ cur_chr chroms rg vars oidx v :
  In (oidx, v) (out_vars cur_chr chroms (read_vars rg vars)) -> nthZ vars oidx = Some v.
Proof.
  intros H. apply out_vars_spec in H. destruct H as [H _]. unfold read_vars in H. apply filter_In in H.
  destruct H as [H _]. destruct (number_from_nthZ vars 0 oidx v ltac:(lia) H) as [_ Hn].
  rewrite Z.sub_0_r in Hn. exact Hn.
Qed.

(* ---- the block number inside the chromosome is a function of the tract's index ------------------ *)

Definition rank (c : Z) (l : list seg) (j : nat) : nat := length (filter (on_c c) (firstn j l)).

Lemma block_key_rank l c p : forall i j lab, block_key l c p i = Some (j, lab) ->
  (i <= j)%nat /\ first_ge (map endc (filter (on_c c) l)) p = rank c l (j - i) /\
  exists s, nth_error l (j - i) = Some s /\ chrom s = c /\ pop s = lab.
Proof.
  induction l as [|s r IH]; intros i j lab H; cbn [block_key] in H; [discriminate|].
  destruct ((chrom s =? c) && (p <=? endc s)) eqn:E.
  - inversion H; subst. apply andb_true_iff in E. destruct E as [E1 E2]. split; [lia|].
    rewrite Nat.sub_diag. cbn [filter]. change (on_c c s) with (chrom s =? c). rewrite E1. cbn [map first_ge].
    rewrite E2. split; [reflexivity|]. exists s. apply Z.eqb_eq in E1. auto.
  - destruct (IH _ _ _ H) as [Hle [Hf [s' [Hn [Hc Hl]]]]]. split; [lia|].
    replace (j - i)%nat with (S (j - S i)) by lia. split.
    + unfold rank. cbn [firstn filter]. change (on_c c s) with (chrom s =? c).
      destruct (chrom s =? c) eqn:Ec.
      * cbn [andb] in E. cbn [map first_ge length]. rewrite E. f_equal. exact Hf.
      * exact Hf.
    + exists s'. cbn [nth_error]. auto.
Qed.

Lemma label_block_key hap c p lab : label_at hap c p = Some lab -> exists j, block_key hap c p 0 = Some (j, lab).
Proof.
  intros H. pose proof (block_key_label hap c p 0%nat) as B. rewrite H in B.
  destruct (block_key hap c p 0) as [[j l]|]; [|discriminate]. cbn in B. inversion B; subst. exists j. reflexivity.
Qed.

(* ---- the facts the model gives about one item ---------------------------------------------------- *)

Section OneHap.
Variable g : config.
Variable hap : list seg.
Variable f : Z -> list block.          (* the block list of each requested chromosome *)

Definition item_good (it : item) : Prop :=
  exists jj lab s b a,
    i_key it = Some (jj, lab) /\ nth_error hap jj = Some s /\ In (chrom s) (g_chroms g) /\
    nth_error (f (chrom s)) (rank (chrom s) hap jj) = Some b /\ b_pop b = lab /\
    lookup (g_data g) (b_samp b) (i_oidx it) (b_strand b) = Some a /\ i_gt it = Some a /\
    (forall p, i_pop it = Some p -> p = Some lab) /\
    (forall x, i_smp it = Some x -> x = Some (b_samp b)).

Lemma Zeqb_refl_opt (x : option Z) : opt_eqb Z.eqb x x = true.
Proof. apply (opt_eqb_spec Z.eqb Zeqb_spec). reflexivity. Qed.

Lemma item_ok_of_good (its : list item) :
  (forall c, In c (g_chroms g) -> Forall (listed (g_tab g)) (f c)) ->
  (forall it, In it its -> item_good it) ->
  forall it, In it its -> item_ok g its it = true.
Proof.
  intros Hlisted Hall it Hit. destruct (Hall it Hit) as [jj [lab [s [b [a [Hk [Hs [Hc [Hb [Hl [Hlook [Hgt [Hp Hsm]]]]]]]]]]]]].
  unfold item_ok. rewrite Hk. cbn [snd]. apply andb_true_iff. split.
  - (* one reference haplotype explains every item of the block *)
    specialize (Hlisted _ Hc). rewrite Forall_forall in Hlisted.
    destruct (Hlisted b (nth_error_In _ _ Hb)) as [lst [Hg [Hin H0]]]. rewrite Hl in Hg.
    apply existsb_exists. exists (b_samp b). split.
    { unfold cands. rewrite Hg. apply filter_In. split; [exact Hin|]. apply Z.leb_le. exact H0. }
    destruct (lookup_some _ _ _ _ _ Hlook) as [_ Hu].
    apply existsb_exists. exists (b_strand b). split; [destruct Hu as [->| ->]; cbn; auto|].
    apply forallb_forall. intros it' Hit'.
    destruct (Hall it' Hit') as [jj' [lab' [s' [b' [a' [Hk' [Hs' [Hc' [Hb' [Hl' [Hlook' [Hgt' [Hp' Hsm']]]]]]]]]]]]].
    unfold item_from. rewrite Hk'. destruct (key_eqb (jj, lab) (jj', lab')) eqn:Ek; [|reflexivity].
    unfold key_eqb in Ek. cbn [fst snd] in Ek. apply andb_true_iff in Ek. destruct Ek as [Ej _].
    apply Nat.eqb_eq in Ej. subst jj'. rewrite Hs in Hs'. inversion Hs'; subst s'.
    rewrite Hb in Hb'. inversion Hb'; subst b'.
    rewrite Hgt', Hlook'. rewrite Zeqb_refl_opt. cbn [andb].
    destruct (i_smp it') as [x|] eqn:Ex; [|reflexivity]. rewrite (Hsm' x eq_refl). apply Zeqb_refl_opt.
  - destruct (i_pop it) as [p|] eqn:Ep; [|reflexivity]. rewrite (Hp p eq_refl). apply Zeqb_refl_opt.
Qed.
End OneHap.

(* ---- nth / nth_error ------------------------------------------------------------------------------ *)

Lemma nth_or_nth_error {A} (d : A) l n x : nth_error l n = Some x -> nth_or d l n = x.
Proof. unfold nth_or. intros H. apply nth_error_nth. exact H. Qed.

(* ---- one simulated haplotype passes hap_ok ------------------------------------------------------------ *)

Lemma hap_ok_complete (g : config) (out : output) (cur_chr : bool) (h : nat) (hap : list seg) (arr : list (option cell)) :
  let ov := out_vars cur_chr (g_chroms g) (read_vars (g_region g) (g_vars g)) in
  g_norep g = false ->
  (forall c, In c (g_chroms g) -> 0 <= c) ->
  sorted hap -> (forall s, In s hap -> 0 <= endc s) ->
  o_vars out = map fst ov ->
  nth_error (g_bps g) h = Some hap ->
  length arr = length ov ->
  nth_error (o_gt out) h = Some (map (option_map gt_of) arr) ->
  (forall m, o_pop out = Some m -> nth_error m h = Some (map (option_map pop_of) arr)) ->
  (forall m, o_smp out = Some m -> nth_error m h = Some (map (option_map smp_of) arr)) ->
  (forall c, In c (g_chroms g) -> cells_spec (g_norep g) (g_tab g) (g_data g) cur_chr ov hap c arr) ->
  hap_ok g out h = true.
Proof.
  cbv zeta. intros Hnr Hnn Hs Hpos Hv Hh La Hgt Hpop Hsmp Hcells.
  set (ov := out_vars cur_chr (g_chroms g) (read_vars (g_region g) (g_vars g))) in *.
  unfold hap_ok. rewrite (nth_or_nth_error [] _ _ _ Hh). rewrite (proj2 (sortedb_spec hap) Hs). cbn [negb orb].
  destruct (list_choice _ [] (g_chroms g) Hcells) as [f Hf].
  apply forallb_forall. intros it Hit.
  apply (item_ok_of_good g hap f (items_of g out h)); [| |exact Hit].
  - intros c Hc. destruct (Hf c Hc) as [[_ [_ [L _]]] _]. apply L. exact Hnr.
  - clear it Hit. intros it Hit. unfold items_of in Hit. apply in_map_iff in Hit.
    destruct Hit as [[j oidx] [<- Hj]]. rewrite Hv in Hj. apply number_nat_inv in Hj. destruct Hj as [_ Hj].
    rewrite Nat.sub_0_r in Hj. rewrite nth_error_map in Hj.
    destruct (nth_error ov j) as [[oidx' v]|] eqn:Eov; [|discriminate]. cbn in Hj. inversion Hj; subst oidx'. clear Hj.
    pose proof (out_var_nthZ _ _ _ _ _ _ (nth_error_In _ _ Eov)) as Hnz.
    assert (Hreq : exists c, In c (g_chroms g) /\ on_chrom cur_chr c v = true).
    { apply nth_error_In in Eov. apply out_vars_spec in Eov. destruct Eov as [_ E]. exact E. }
    destruct Hreq as [c [Hc Hon]]. destruct (Hf c Hc) as [Hbl Hr].
    destruct (Hr j oidx v Eov Hon) as [b [a [Hb [Hl Hcell]]]].
    destruct (block_label _ _ _ _ _ _ _ Hs (Hnn c Hc) Hpos Hbl Hb) as [Hlab _].
    rewrite (segs_of_filter c hap Hs (Hnn c Hc) Hpos) in Hb.
    pose proof (on_chrom_chrom _ _ _ Hon) as Hcv.
    destruct (label_block_key _ _ _ _ Hlab) as [jj Hkey].
    destruct (block_key_rank _ _ _ _ _ _ Hkey) as [_ [Hrk [s [Hns [Hsc Hsl]]]]]. rewrite Nat.sub_0_r in *.
    exists jj, (b_pop b), s, b, a. rewrite Hnz, Hcv, (nth_or_nth_error [] _ _ _ Hh). rewrite Hsc.
    split; [exact Hkey|]. split; [exact Hns|]. split; [exact Hc|].
    split; [rewrite <- Hrk; exact Hb|]. split; [reflexivity|]. split; [exact Hl|].
    cbn [i_oidx i_gt i_pop i_smp].
    assert (Q : forall (pr : cell -> Z) m, nth_error m h = Some (map (option_map pr) arr) ->
              nth_or None (nth_or [] m h) j = Some (pr (a, b_pop b, b_samp b))).
    { intros pr m Hm. rewrite (nth_or_nth_error [] _ _ _ Hm). apply nth_or_nth_error.
      rewrite nth_error_map, Hcell. reflexivity. }
    split; [apply (Q gt_of); exact Hgt|]. split.
    + intros p Hp. destruct (o_pop out) as [m|]; [|discriminate]. cbn in Hp. inversion Hp; subst p.
      apply (Q pop_of). apply Hpop. reflexivity.
    + intros x Hx. destruct (o_smp out) as [m|]; [|discriminate]. cbn in Hx. inversion Hx; subst x.
      apply (Q smp_of). apply Hsmp. reflexivity.
Qed.

(* ---- records written ------------------------------------------------------------------------------- *)

Lemma uniform_prefix_all vars v0 v : uniform_prefix vars = true -> In v0 vars -> In v vars -> rv_chr v = rv_chr v0.
Proof.
  destruct vars as [|w r]; intros H H0 Hv; [destruct Hv|]. unfold uniform_prefix in H. rewrite forallb_forall in H.
  pose proof (H v Hv) as A. pose proof (H v0 H0) as B. apply eqb_prop in A. apply eqb_prop in B. congruence.
Qed.

Lemma read_vars_In rg vars i v : In (i, v) (read_vars rg vars) -> In v vars.
Proof.
  unfold read_vars. intros H. apply filter_In in H. destruct H as [H _].
  destruct (number_from_nthZ vars 0 i v ltac:(lia) H) as [_ Hn]. rewrite Z.sub_0_r in Hn.
  eapply nthZ_In; eauto.
Qed.

Lemma vars_ok_complete g out cur_chr i0 v0 r :
  read_vars (g_region g) (g_vars g) = (i0, v0) :: r -> cur_chr = rv_chr v0 ->
  o_vars out = map fst (out_vars cur_chr (g_chroms g) (read_vars (g_region g) (g_vars g))) ->
  vars_ok g out = true.
Proof.
  intros Erd Ecur Hv. unfold vars_ok. destruct (uniform_prefix (g_vars g)) eqn:U; [|reflexivity]. cbn [negb orb].
  apply (list_eqb_spec Z.eqb Zeqb_spec). rewrite Hv. f_equal. unfold out_vars. apply filter_ext_in.
  intros [i v] Hiv. cbn [snd]. unfold requested.
  assert (Hp : rv_chr v = cur_chr).
  { subst cur_chr. apply (uniform_prefix_all (g_vars g)); [exact U| |].
    - apply (read_vars_In (g_region g) (g_vars g) i0). rewrite Erd. left. reflexivity.
    - eapply read_vars_In; eauto. }
  clear Hv. induction (g_chroms g) as [|c cs IH]; [reflexivity|]. cbn [existsb]. rewrite IH.
  replace (on_chrom cur_chr c v) with (rv_chrom v =? c); [reflexivity|].
  unfold on_chrom. rewrite Hp, eqb_reflx. reflexivity.
Qed.

(* ---- holds_out on the model's output ------------------------------------------------------------------ *)

(* In replacement mode, for every configuration on which the model of output_vcf completes, with distinct
   non-negative requested chromosomes and breakpoints sorted by (chromosome, end) that cover the variants read,
   the model's output passes the checker evaluated on the implementation's files. *)
Theorem holds_out_complete (g : config) (out : output) :
  output_vcf g = Ok out -> g_norep g = false ->
  NoDup (g_chroms g) -> (forall c, In c (g_chroms g) -> 0 <= c) ->
  (forall hap, In hap (g_bps g) -> sorted hap /\ forall s, In s hap -> 0 <= endc s) ->
  forall cur_chr, (exists i0 v0 r, read_vars (g_region g) (g_vars g) = (i0, v0) :: r /\ cur_chr = rv_chr v0) ->
  let ov := out_vars cur_chr (g_chroms g) (read_vars (g_region g) (g_vars g)) in
  (forall hap, In hap (g_bps g) -> forall c, In c (g_chroms g) -> chrom_covered hap c (cvars_of cur_chr c ov)) ->
  holds_out g out = true.
Proof.
  intros H Hnr Hnd Hnn Hsorted cur_chr Hcur. cbv zeta. intros Hcov.
  destruct (output_rows g out H Hnd cur_chr Hcur Hcov) as [Hv [Hlen Hrows]].
  unfold holds_out. apply andb_true_iff. split; [apply andb_true_iff; split; [apply andb_true_iff; split|]|].
  - destruct Hcur as [i0 [v0 [r [Erd Ecur]]]]. eapply vars_ok_complete; eauto.
  - (* requested fields are written *)
    unfold fields_ok. unfold output_vcf in H.
    destruct (negb (lenZ (g_tab g) =? g_npop g - 1)); [discriminate|].
    destruct (read_vars (g_region g) (g_vars g)) as [|[i0 v0] r]; [discriminate|].
    destruct (haps_loop _ _ _ _ _ _ _ _ _) as [[arrs st']|k]; cbn [bind] in H; [|discriminate].
    inversion H; subst out. cbn [o_pop o_smp]. unfold emits_pop, emits_sample. cbn [andb negb].
    rewrite andb_true_r.
    destruct (g_pop_field g), (g_sample_field g), (g_pgen g); reflexivity.
  - (* shape *)
    unfold shape_ok. apply andb_true_iff. split; [apply Nat.eqb_eq; exact Hlen|].
    apply forallb_forall. intros row Hrow. apply Nat.eqb_eq.
    destruct (In_nth_error _ _ Hrow) as [h Hh].
    assert (Hlt : (h < length (g_bps g))%nat) by (rewrite <- Hlen; apply nth_error_Some; rewrite Hh; discriminate).
    destruct (nth_error (g_bps g) h) as [hap|] eqn:Eh; [|apply nth_error_None in Eh; lia].
    destruct (Hrows h hap Eh) as [arr [La [Hgt _]]]. rewrite Hgt in Hh. inversion Hh; subst row.
    rewrite map_length, La, Hv, map_length. reflexivity.
  - apply forallb_forall. intros h Hh. apply in_seq in Hh.
    destruct (nth_error (g_bps g) h) as [hap|] eqn:Eh; [|apply nth_error_None in Eh; lia].
    destruct (Hrows h hap Eh) as [arr [La [Hgt [Hpop [Hsmp Hcells]]]]].
    destruct (Hsorted hap (nth_error_In _ _ Eh)) as [Hs Hpos].
    eapply hap_ok_complete; eauto.
Qed.

(* the hypotheses are satisfiable, and the checker indeed accepts the model's output there *)
Example holds_out_complete_example :
  g_norep ex_cfg = false /\ (exists out, output_vcf ex_cfg = Ok out /\ holds_out ex_cfg out = true).
Proof.
  split; [reflexivity|].
  exists (mkout [0; 2] [[Some 0; Some 3]; [Some 0; Some 0]]
                (Some [[Some 1; Some 2]; [Some 1; Some 1]]) (Some [[Some 0; Some 1]; [Some 0; Some 0]])).
  split; vm_compute; reflexivity.
Qed.
