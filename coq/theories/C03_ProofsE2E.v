(* C03 - end-to-end statements about the model of output_vcf:
   (1) breakpoints as simgenotype writes them (sorted, every requested chromosome closed by the
       int32-max sentinel - C02) cover every variant position: nothing is left np.empty, and a
       variant past every other block end falls in the last block;
   (2) [output_allele_spec]: ONE statement about every output cell, composing the assignment
       (searchsorted/diff/repeat = first block whose end >= position), the per-block choice of the
       reference haplotype and the writer's projections. *)
From HV Require Import Prelude Tracts Tiling C01_Model C01_Proofs C01_Bsearch C14_Model C14_Check C14_Proofs
  C03_Model C03_Check C03_Proofs.

(* ---- the tracts _convert_haplotype walks over = the haplotype's tracts of that chromosome ---- *)

Definition on_c (c : Z) (s : seg) : bool := chrom s =? c.

Lemma filter_none {A} (f : A -> bool) l : (forall x, In x l -> f x = false) -> filter f l = [].
Proof.
  induction l as [|a r IH]; intros H; cbn [filter]; [reflexivity|].
  rewrite (H a (or_introl eq_refl)). apply IH. intros x Hx. apply H. right. exact Hx.
Qed.

Lemma take_chrom_filter c l : sorted l -> (forall s, In s l -> c <= chrom s) ->
  take_chrom c l = filter (on_c c) l.
Proof.
  induction l as [|s r IH]; intros Hs Hge; [reflexivity|]. cbn [take_chrom filter]. unfold on_c at 1.
  destruct (chrom s =? c) eqn:E.
  - f_equal. apply IH; [eapply sorted_tail; eauto|]. intros x Hx. apply Hge. right. exact Hx.
  - symmetry. apply filter_none. intros x Hx. unfold on_c. apply Z.eqb_neq.
    apply Z.eqb_neq in E. pose proof (Hge s (or_introl eq_refl)) as H0.
    pose proof (sorted_head_lt s r Hs x Hx) as Hlt. unfold lt_seg in Hlt. lia.
Qed.

Lemma scan_filter c l : sorted l -> (forall s, In s l -> 0 <= endc s) ->
  take_chrom c (skipn (start_scan 0 c l) l) = filter (on_c c) l.
Proof.
  induction l as [|s r IH]; intros Hs Hpos; [reflexivity|]. cbn [start_scan].
  destruct (chrom s =? c) eqn:E.
  - rewrite (proj2 (Z.leb_le _ _) (Hpos s (or_introl eq_refl))). cbn [andb skipn].
    apply take_chrom_filter; [exact Hs|]. apply Z.eqb_eq in E.
    intros x [<-|Hx]; [lia|]. pose proof (sorted_head_lt s r Hs x Hx) as Hlt. unfold lt_seg in Hlt. lia.
  - cbn [andb skipn filter]. replace (on_c c s) with false by (unfold on_c; symmetry; exact E). apply IH; [eapply sorted_tail; eauto|].
    intros x Hx. apply Hpos. right. exact Hx.
Qed.

Lemma segs_of_filter c hap : sorted hap -> 0 <= c -> (forall s, In s hap -> 0 <= endc s) ->
  segs_of c hap = filter (on_c c) hap.
Proof.
  intros Hs Hc Hpos. unfold segs_of. rewrite (bsearch_eq_scan 0 c hap Hs Hc), Nat2Z.id.
  apply scan_filter; assumption.
Qed.

Lemma sorted_filter_asc c l : sorted l -> asc (map endc (filter (on_c c) l)).
Proof.
  induction l as [|s r IH]; intros Hs; [exact I|]. cbn [filter]. unfold on_c at 1.
  destruct (chrom s =? c) eqn:E; [|apply IH; eapply sorted_tail; eauto].
  cbn [map asc]. split; [|apply IH; eapply sorted_tail; eauto].
  intros b Hb. apply in_map_iff in Hb. destruct Hb as [x [<- Hx]]. apply filter_In in Hx.
  destruct Hx as [Hx Hc]. unfold on_c in Hc. apply Z.eqb_eq in Hc. apply Z.eqb_eq in E.
  pose proof (sorted_head_lt s r Hs x Hx) as Hlt. unfold lt_seg in Hlt. lia.
Qed.

Lemma last_opt_cons {A} (a : A) r : r <> [] -> last_opt (a :: r) = last_opt r.
Proof.
  intros H. unfold last_opt. cbn [rev]. destruct (rev r) as [|x t] eqn:E; [|reflexivity].
  exfalso. apply H. rewrite <- (rev_involutive r), E. reflexivity.
Qed.

Lemma asc_last_ge l : asc l -> forall x, In x l -> exists e, last_opt l = Some e /\ x <= e.
Proof.
  induction l as [|a r IH]; intros Ha x Hx; [destruct Hx|]. destruct Ha as [Ha Hr].
  destruct r as [|b r'].
  - destruct Hx as [<-|[]]. exists a. split; [reflexivity|lia].
  - rewrite last_opt_cons by discriminate. destruct Hx as [<-|Hx].
    + destruct (IH Hr b (or_introl eq_refl)) as [e [He Hbe]]. exists e. split; [exact He|].
      specialize (Ha b (or_introl eq_refl)). lia.
    + apply IH; assumption.
Qed.

(* (1) breakpoints sorted by (chromosome, end) whose chromosome c has a tract ending at the sentinel
   cover every position up to the sentinel: the hypothesis of C03_no_uninitialised holds for the
   breakpoints simgenotype writes (C02), wherever the genetic map ended *)
Theorem sentinel_covers hap c (cv : list cvar) :
  sorted hap -> 0 <= c -> (forall s, In s hap -> 0 <= endc s) ->
  (exists s, In s hap /\ chrom s = c /\ endc s = MAXC) ->
  asc (map (fun v : cvar => snd v) cv) -> (forall p, In p (map (fun v : cvar => snd v) cv) -> p <= MAXC) ->
  chrom_covered hap c cv.
Proof.
  intros Hs Hc Hpos [s [Hin [Hsc Hse]]] Hasc Hle. unfold chrom_covered.
  rewrite (segs_of_filter c hap Hs Hc Hpos). split; [exact Hasc|]. split; [apply sorted_filter_asc; exact Hs|].
  intros p Hp.
  assert (Hm : In MAXC (map endc (filter (on_c c) hap))).
  { apply in_map_iff. exists s. split; [exact Hse|]. apply filter_In. split; [exact Hin|].
    unfold on_c. apply Z.eqb_eq. exact Hsc. }
  destruct (asc_last_ge _ (sorted_filter_asc c hap Hs) MAXC Hm) as [e [He Hme]].
  exists e. split; [exact He|]. specialize (Hle p Hp). lia.
Qed.

(* a position above every other block end and at most the last end falls in the last block:
   "variants past the last map coordinate belong to the last block" *)
Theorem first_ge_past pre x p : (forall e, In e pre -> e < p) -> p <= x ->
  first_ge (pre ++ [x]) p = length pre.
Proof.
  induction pre as [|a r IH]; intros H Hx; cbn [app first_ge length].
  - rewrite (proj2 (Z.leb_le _ _) Hx). reflexivity.
  - pose proof (H a (or_introl eq_refl)) as Ha. rewrite (proj2 (Z.leb_gt _ _) Ha). f_equal.
    apply IH; [|exact Hx]. intros e He. apply H. right. exact He.
Qed.

(* ---- (2) every output cell ------------------------------------------------------------------ *)

Lemma cells_of_spec d bl : forall idxs cv ws, cells_of d bl idxs cv = Ok ws -> length idxs = length cv ->
  length ws = length cv /\
  forall k bi sl oidx pos, nth_error idxs k = Some bi -> nth_error cv k = Some (sl, oidx, pos) ->
    exists b a, nth_error bl bi = Some b /\ lookup d (b_samp b) oidx (b_strand b) = Some a /\
                nth_error ws k = Some (sl, (a, b_pop b, b_samp b)).
Proof.
  induction idxs as [|bi0 ir IH]; intros [|[[sl0 oi0] po0] cr] ws H L; cbn in L; try discriminate.
  - cbn in H. inversion H; subst. split; [reflexivity|]. intros [|k]; discriminate.
  - cbn [cells_of] in H. destruct (nth_error bl bi0) as [b0|] eqn:Eb; [|discriminate].
    destruct (lookup d (b_samp b0) oi0 (b_strand b0)) as [a0|] eqn:El; [|discriminate].
    destruct (cells_of d bl ir cr) as [t|e] eqn:E; cbn [bind] in H; [|discriminate].
    inversion H; subst ws. destruct (IH cr t E ltac:(lia)) as [Lt Ht]. split; [cbn; lia|].
    intros [|k] bi sl oidx pos Hi Hc.
    + cbn in Hi, Hc. inversion Hi; inversion Hc; subst. exists b0, a0. auto.
    + cbn in Hi, Hc. cbn [nth_error]. eapply Ht; eauto.
Qed.

(* replacement mode: one block per tract, same end and label, the sample one the table lists under the label *)
Definition listed (t : poptab) (b : block) : Prop :=
  exists lst, pt_get t (b_pop b) = Some lst /\ In (b_samp b) lst /\ 0 <= b_samp b.

Lemma conv_rep_blocks npop segs : forall t ch bl ch',
  conv_rep npop segs t ch = Ok (bl, ch') ->
  map b_end bl = map endc segs /\ map b_pop bl = map pop segs /\ Forall (listed t) bl.
Proof.
  induction segs as [|s r IH]; intros t ch bl ch'; cbn [conv_rep].
  - intros H; inversion H; subst. cbn. auto.
  - destruct ((pop s <? 0) || (npop <=? pop s)); [discriminate|].
    destruct (pt_get t (pop s)) as [[|x0 lst]|] eqn:Et; [discriminate| |discriminate].
    destruct ch as [|i ch1]; [discriminate|].
    destruct (nthZ (x0 :: lst) i) as [smp|] eqn:En; [|discriminate].
    destruct (smp <? 0) eqn:Es; [discriminate|].
    destruct (conv_rep npop r t ch1) as [[bl2 ch2]|k] eqn:E; cbn [bind]; [|discriminate].
    intros H; inversion H; subst. destruct (IH _ _ _ _ E) as [A [B C]]. cbn [map b_end b_pop].
    split; [f_equal; exact A|]. split; [f_equal; exact B|]. constructor; [|exact C].
    exists (x0 :: lst). cbn [b_pop b_samp]. split; [exact Et|]. split; [eapply nthZ_In; eauto|].
    apply Z.ltb_ge in Es. exact Es.
Qed.

Lemma set_strands_spec : forall bl sd, length sd = length bl ->
  map b_end (set_strands bl sd) = map b_end bl /\ map b_pop (set_strands bl sd) = map b_pop bl /\
  map b_samp (set_strands bl sd) = map b_samp bl /\ map b_strand (set_strands bl sd) = sd.
Proof.
  induction bl as [|b r IH]; intros [|u ur] L; cbn in L; try discriminate; cbn [set_strands map].
  - auto.
  - destruct (IH ur ltac:(lia)) as [A [B [C D]]]. cbn [b_end b_pop b_samp b_strand].
    rewrite A, B, C, D. auto.
Qed.

Lemma set_strands_listed t : forall bl sd, length sd = length bl -> Forall (listed t) bl ->
  Forall (listed t) (set_strands bl sd).
Proof.
  induction bl as [|b r IH]; intros [|u ur] L F; cbn in L; try discriminate; cbn [set_strands]; [constructor|].
  inversion F; subst. constructor; [|apply IH; [lia|assumption]]. exact H1.
Qed.

(* one chromosome of one simulated haplotype: the blocks and every cell written *)
Definition blocks_of (norep : bool) (t : poptab) (hap : list seg) (c : Z) (bl : list block) : Prop :=
  map b_end bl = map endc (segs_of c hap) /\ map b_pop bl = map pop (segs_of c hap) /\
  (norep = false -> Forall (listed t) bl) /\
  (norep = true -> Forall (fun b => b_strand b = 0 \/ b_strand b = 1) bl).

Lemma hap_chrom_cells norep npop d hap c cv st ws st' :
  hap_chrom false norep npop d hap c cv st = Ok (ws, st') ->
  chrom_covered hap c cv ->
  (norep = false -> d_tab st' = d_tab st) /\
  exists bl, blocks_of norep (d_tab st) hap c bl /\ length ws = length cv /\
    forall k sl oidx pos, nth_error cv k = Some (sl, oidx, pos) ->
      exists b a, nth_error bl (first_ge (map endc (segs_of c hap)) pos) = Some b /\
                  lookup d (b_samp b) oidx (b_strand b) = Some a /\
                  nth_error ws k = Some (sl, (a, b_pop b, b_samp b)).
Proof.
  unfold hap_chrom. intros H [C1 [C2 C3]].
  set (segs := segs_of c hap) in *.
  destruct norep.
  - (* without replacement *)
    destruct (conv_norep false npop segs c 0 (d_tab st) (d_hu st) (d_shuf st)) as [[[[bl t] hu] sh]|k] eqn:E;
      cbn [bind] in H; [|discriminate].
    destruct (conv_norep_blocks _ _ _ _ _ _ _ _ _ _ _ E) as [A [B S]].
    rewrite A in H. rewrite (assign_is_first_ge _ _ C1 C2 C3) in H. cbn [bind] in H.
    destruct (cells_of d bl _ cv) as [ws0|k] eqn:E2; cbn [bind] in H; [|discriminate].
    inversion H; subst ws st'. split; [discriminate|].
    destruct (cells_of_spec _ _ _ _ _ E2 ltac:(rewrite !map_length; reflexivity)) as [L Hk].
    exists bl. split; [split; [exact A|split; [exact B|split; [discriminate|intros _; exact S]]]|].
    split; [exact L|]. intros k sl oidx pos Hc.
    apply (Hk k (first_ge (map endc segs) pos) sl oidx pos); [|exact Hc].
    rewrite nth_error_map. rewrite nth_error_map. rewrite Hc. reflexivity.
  - (* with replacement *)
    destruct (conv_rep npop segs (d_tab st) (d_choice st)) as [[bl0 ch]|k] eqn:E; cbn [bind] in H; [|discriminate].
    destruct (conv_rep_blocks _ _ _ _ _ _ E) as [A [B F]].
    rewrite A in H. rewrite (assign_is_first_ge _ _ C1 C2 C3) in H. cbn [bind] in H.
    cbn [d_strand d_tab d_hu d_choice d_shuf] in H.
    destruct (d_strand st) as [|sd sr]; cbn [bind] in H; [discriminate|].
    destruct (length sd =? length bl0)%nat eqn:El; cbn [bind] in H; [|discriminate].
    apply Nat.eqb_eq in El.
    destruct (cells_of d (set_strands bl0 sd) _ cv) as [ws0|k] eqn:E2; cbn [bind] in H; [|discriminate].
    inversion H; subst ws st'. split; [reflexivity|].
    destruct (cells_of_spec _ _ _ _ _ E2 ltac:(rewrite !map_length; reflexivity)) as [L Hk].
    destruct (set_strands_spec bl0 sd El) as [A' [B' _]].
    exists (set_strands bl0 sd). split.
    { split; [rewrite A'; exact A|]. split; [rewrite B'; exact B|]. split; [|discriminate].
      intros _. apply set_strands_listed; assumption. }
    split; [exact L|]. intros k sl oidx pos Hc.
    apply (Hk k (first_ge (map endc segs) pos) sl oidx pos); [|exact Hc].
    rewrite nth_error_map. rewrite nth_error_map. rewrite Hc. reflexivity.
Qed.

(* ---- the rows of a chromosome among the output rows ---------------------------------------- *)

Lemma number_nat_inv {A} (l : list A) : forall k i x, In (i, x) (number_nat k l) ->
  (k <= i)%nat /\ nth_error l (i - k) = Some x.
Proof.
  induction l as [|y l IH]; intros k i x H; [destruct H|]. cbn [number_nat] in H. destruct H as [H|H].
  - inversion H; subst. split; [lia|]. rewrite Nat.sub_diag. reflexivity.
  - destruct (IH _ _ _ H) as [Hle Hn]. split; [lia|]. replace (i - k)%nat with (S (i - S k)) by lia. exact Hn.
Qed.

Lemma number_nat_NoDup {A} (l : list A) : forall k, NoDup (map fst (number_nat k l)).
Proof.
  induction l as [|y l IH]; intros k; cbn [number_nat map]; constructor; [|apply IH].
  intros H. apply in_map_iff in H. destruct H as [[i x] [Hi Hx]]. cbn in Hi. subst i.
  apply number_nat_inv in Hx. lia.
Qed.

Lemma filter_fst_NoDup {A B} (f : A * B -> bool) l : NoDup (map fst l) -> NoDup (map fst (filter f l)).
Proof.
  induction l as [|a r IH]; intros H; cbn [filter map]; [constructor|]. inversion H; subst.
  destruct (f a); [|apply IH; assumption]. cbn [map]. constructor; [|apply IH; assumption].
  intros Hin. apply H2. apply in_map_iff in Hin. destruct Hin as [x [Hx Hf]]. apply filter_In in Hf.
  apply in_map_iff. exists x. tauto.
Qed.

Lemma cvars_slots_NoDup cur_chr c ov : NoDup (map slot (cvars_of cur_chr c ov)).
Proof.
  unfold cvars_of. rewrite map_map. cbn [slot fst].
  apply (filter_fst_NoDup (fun x : nat * (Z * rvar) => on_chrom cur_chr c (snd (snd x)))).
  apply number_nat_NoDup.
Qed.

Lemma slot_row cur_chr c ov i : In i (map slot (cvars_of cur_chr c ov)) ->
  exists iv, nth_error ov i = Some iv /\ on_chrom cur_chr c (snd iv) = true.
Proof.
  unfold cvars_of. rewrite map_map. cbn [slot fst]. intros H. apply in_map_iff in H.
  destruct H as [[j iv] [Hj Hf]]. cbn in Hj. subst j. apply filter_In in Hf. destruct Hf as [Hn Hc].
  apply number_nat_inv in Hn. rewrite Nat.sub_0_r in Hn. exists iv. tauto.
Qed.

Lemma row_in_cvars cur_chr c ov i oidx v :
  nth_error ov i = Some (oidx, v) -> on_chrom cur_chr c v = true ->
  exists k, nth_error (cvars_of cur_chr c ov) k = Some (i, oidx, rv_pos v).
Proof.
  intros Hn Hc. apply In_nth_error. unfold cvars_of. apply in_map_iff. exists (i, (oidx, v)).
  split; [reflexivity|]. apply filter_In. split; [|exact Hc]. apply (number_nat_In ov 0%nat i (oidx, v) Hn).
Qed.

Lemma on_chrom_unique cur_chr c c' v : on_chrom cur_chr c v = true -> on_chrom cur_chr c' v = true -> c = c'.
Proof.
  unfold on_chrom. intros H H'. apply andb_true_iff in H. apply andb_true_iff in H'.
  destruct H as [_ H]. destruct H' as [_ H']. apply Z.eqb_eq in H. apply Z.eqb_eq in H'. congruence.
Qed.

Lemma write_untouched {A} (ws : list (nat * A)) : forall arr i, ~ In i (map fst ws) ->
  nth_error (write ws arr) i = nth_error arr i.
Proof.
  induction ws as [|[j x] r IH]; intros arr i H; cbn [write]; [reflexivity|].
  cbn [map fst] in H. rewrite IH by (intros Hx; apply H; right; exact Hx).
  apply set_nth_other. intros E. apply H. left. symmetry. exact E.
Qed.

Lemma write_at {A} (ws : list (nat * A)) : NoDup (map fst ws) -> forall arr k sl x,
  nth_error ws k = Some (sl, x) -> (sl < length arr)%nat -> nth_error (write ws arr) sl = Some (Some x).
Proof.
  induction ws as [|[j y] r IH]; intros Hnd arr k sl x Hk Hlt; [destruct k; discriminate|].
  cbn [map fst] in Hnd. inversion Hnd; subst. cbn [write]. destruct k as [|k].
  - cbn in Hk. inversion Hk; subst. rewrite write_untouched by assumption. apply set_nth_same. exact Hlt.
  - cbn in Hk. apply (IH H2 _ k sl x Hk). rewrite set_nth_length. exact Hlt.
Qed.

Lemma hap_loop_untouched norep npop d cur_chr ov hap : forall chroms arr st arr' st',
  hap_loop false norep npop d cur_chr ov hap chroms arr st = Ok (arr', st') ->
  (forall c, In c chroms -> chrom_covered hap c (cvars_of cur_chr c ov)) ->
  forall i, (forall c, In c chroms -> ~ In i (map slot (cvars_of cur_chr c ov))) ->
  nth_error arr' i = nth_error arr i.
Proof.
  induction chroms as [|c cs IH]; intros arr st arr' st' H Hc i Hi; cbn [hap_loop] in H.
  - inversion H; subst. reflexivity.
  - destruct (hap_chrom false norep npop d hap c (cvars_of cur_chr c ov) st) as [[ws st1]|k] eqn:E;
      cbn [bind] in H; [|discriminate].
    pose proof (hap_chrom_slots _ _ _ _ _ _ _ _ _ E (Hc c (or_introl eq_refl))) as Hs.
    rewrite (IH _ _ _ _ H (fun c' Hc' => Hc c' (or_intror Hc')) i (fun c' Hc' => Hi c' (or_intror Hc'))).
    apply write_untouched. rewrite Hs. apply Hi. left. reflexivity.
Qed.

(* one simulated haplotype, all requested chromosomes: for every chromosome one list of blocks -
   one per tract, same ends and labels - such that every output row whose variant lies on the
   chromosome holds the allele that the block's reference haplotype (sample, strand) carries at
   that variant, the block's label and the block's sample; the block is the first whose end is
   >= the variant's position *)
Definition cells_spec (norep : bool) (t : poptab) (d : gdata) (cur_chr : bool) (ov : list (Z * rvar))
    (hap : list seg) (c : Z) (arr : list (option cell)) : Prop :=
  exists bl, blocks_of norep t hap c bl /\
    forall i oidx v, nth_error ov i = Some (oidx, v) -> on_chrom cur_chr c v = true ->
      exists b a, nth_error bl (first_ge (map endc (segs_of c hap)) (rv_pos v)) = Some b /\
                  lookup d (b_samp b) oidx (b_strand b) = Some a /\
                  nth_error arr i = Some (Some (a, b_pop b, b_samp b)).

Lemma cells_spec_tab norep t t' d cur_chr ov hap c arr : (norep = false -> t = t') ->
  cells_spec norep t d cur_chr ov hap c arr -> cells_spec norep t' d cur_chr ov hap c arr.
Proof.
  intros Ht [bl [[A [B [C D]]] R]]. exists bl. split; [|exact R].
  split; [exact A|]. split; [exact B|]. split; [|exact D].
  intros Hn. rewrite <- (Ht Hn). apply C. exact Hn.
Qed.

Lemma hap_loop_cells norep npop d cur_chr ov hap : forall chroms arr st arr' st',
  hap_loop false norep npop d cur_chr ov hap chroms arr st = Ok (arr', st') ->
  NoDup chroms -> length arr = length ov ->
  (forall c, In c chroms -> chrom_covered hap c (cvars_of cur_chr c ov)) ->
  (norep = false -> d_tab st' = d_tab st) /\
  forall c, In c chroms -> cells_spec norep (d_tab st) d cur_chr ov hap c arr'.
Proof.
  induction chroms as [|c0 cs IH]; intros arr st arr' st' H Hnd Hlen Hc; cbn [hap_loop] in H.
  - inversion H; subst. split; [reflexivity|]. intros c [].
  - destruct (hap_chrom false norep npop d hap c0 (cvars_of cur_chr c0 ov) st) as [[ws st1]|k] eqn:E;
      cbn [bind] in H; [|discriminate].
    inversion Hnd as [|? ? Hnotin Hnd']; subst.
    pose proof (Hc c0 (or_introl eq_refl)) as Hc0.
    pose proof (hap_chrom_slots _ _ _ _ _ _ _ _ _ E Hc0) as Hs.
    destruct (hap_chrom_cells _ _ _ _ _ _ _ _ _ E Hc0) as [Ht [bl [Hbl [Lws Hcells]]]].
    destruct (IH _ _ _ _ H Hnd' ltac:(rewrite write_length; exact Hlen) (fun c' Hc' => Hc c' (or_intror Hc')))
      as [Ht' Hrest].
    split; [intros Hn; rewrite (Ht' Hn); apply Ht; exact Hn|].
    intros c [<-|Hin].
    + exists bl. split; [exact Hbl|]. intros i oidx v Hn Hon.
      destruct (row_in_cvars _ _ _ _ _ _ Hn Hon) as [k Hk].
      destruct (Hcells k i oidx (rv_pos v) Hk) as [b [a [Hb [Hl Hw]]]].
      exists b, a. split; [exact Hb|]. split; [exact Hl|].
      rewrite (hap_loop_untouched _ _ _ _ _ _ _ _ _ _ _ H (fun c' Hc' => Hc c' (or_intror Hc')) i).
      * apply (write_at ws) with (k := k); [rewrite Hs; apply cvars_slots_NoDup|exact Hw|].
        rewrite Hlen. apply nth_error_Some. rewrite Hn. discriminate.
      * intros c' Hc' Hin. destruct (slot_row _ _ _ _ Hin) as [iv [Hiv Hon']].
        rewrite Hn in Hiv. inversion Hiv; subst iv. cbn [snd] in Hon'.
        pose proof (on_chrom_unique _ _ _ _ Hon Hon'). subst c'. contradiction.
    + apply (cells_spec_tab norep (d_tab st1)); [exact Ht|]. apply Hrest. exact Hin.
Qed.

(* all simulated haplotypes *)
Lemma haps_loop_nth norep npop d cur_chr ov chroms : forall bps st arrs st',
  haps_loop false norep npop d cur_chr ov chroms bps st = Ok (arrs, st') ->
  NoDup chroms ->
  (forall hap, In hap bps -> forall c, In c chroms -> chrom_covered hap c (cvars_of cur_chr c ov)) ->
  (norep = false -> d_tab st' = d_tab st) /\ length arrs = length bps /\
  forall h hap, nth_error bps h = Some hap ->
    exists arr, nth_error arrs h = Some arr /\ length arr = length ov /\
      forall c, In c chroms -> cells_spec norep (d_tab st) d cur_chr ov hap c arr.
Proof.
  induction bps as [|hap0 r IH]; intros st arrs st' H Hnd Hc; cbn [haps_loop] in H.
  - inversion H; subst. split; [reflexivity|]. split; [reflexivity|]. intros [|h]; discriminate.
  - destruct (output_hap false norep npop d cur_chr ov hap0 chroms st) as [[arr0 st1]|k] eqn:E;
      cbn [bind] in H; [|discriminate].
    destruct (haps_loop false norep npop d cur_chr ov chroms r st1) as [[rest st2]|k] eqn:E2;
      cbn [bind] in H; [|discriminate].
    inversion H; subst arrs st'. unfold output_hap in E.
    destruct (hap_loop_cells _ _ _ _ _ _ _ _ _ _ _ E Hnd ltac:(apply repeat_length)
                (Hc hap0 (or_introl eq_refl))) as [Ht0 Hcells0].
    destruct (hap_loop_filled _ _ _ _ _ _ _ _ _ _ _ E (Hc hap0 (or_introl eq_refl))) as [L0 _].
    rewrite repeat_length in L0.
    destruct (IH _ _ _ E2 Hnd (fun hap Hh => Hc hap (or_intror Hh))) as [Ht1 [Lr Hrest]].
    split; [intros Hn; rewrite (Ht1 Hn); apply Ht0; exact Hn|]. split; [cbn; lia|].
    intros [|h] hap Hn; cbn in Hn.
    + inversion Hn; subst hap. exists arr0. split; [reflexivity|]. split; [exact L0|]. exact Hcells0.
    + destruct (Hrest h hap Hn) as [arr [Ha [La Hs]]]. exists arr. split; [exact Ha|]. split; [exact La|].
      intros c Hin. apply (cells_spec_tab norep (d_tab st1)); [exact Ht0|]. apply Hs. exact Hin.
Qed.

(* ---- output_allele_spec --------------------------------------------------------------------- *)

Definition cell_at (m : list (list (option Z))) (h i : nat) : option (option Z) :=
  match nth_error m h with Some row => nth_error row i | None => None end.

(* For every configuration on which the model of output_vcf completes, with distinct requested
   chromosomes and breakpoints covering the variants read (C03_sentinel_covers: every haplotype
   simgenotype writes): for every simulated haplotype h and requested chromosome c there is one
   list of blocks, one per tract of c with the tract's end and label (in replacement mode: the
   block's sample is one the sample-info table lists under that label), such that EVERY output
   row i whose variant (panel index oidx, position p) lies on c satisfies, with b the block at
   index first_ge ends p (the first tract whose end >= p):
     GT     = the allele the panel gives reference haplotype (b_samp b, b_strand b) at oidx,
     POP    = b's label   (when the POP field is written),
     SAMPLE = b's sample  (when the SAMPLE field is written);
   the written records are the variants read on the requested chromosomes, in panel order. *)
Theorem output_allele_spec (g : config) (out : output) :
  output_vcf g = Ok out -> NoDup (g_chroms g) ->
  forall cur_chr, (exists i0 v0 r, read_vars (g_region g) (g_vars g) = (i0, v0) :: r /\ cur_chr = rv_chr v0) ->
  let ov := out_vars cur_chr (g_chroms g) (read_vars (g_region g) (g_vars g)) in
  (forall hap, In hap (g_bps g) -> forall c, In c (g_chroms g) -> chrom_covered hap c (cvars_of cur_chr c ov)) ->
  o_vars out = map fst ov /\
  forall h hap, nth_error (g_bps g) h = Some hap ->
  forall c, In c (g_chroms g) ->
  exists bl, blocks_of (g_norep g) (g_tab g) hap c bl /\
    forall i oidx v, nth_error ov i = Some (oidx, v) -> on_chrom cur_chr c v = true ->
      exists b a, nth_error bl (first_ge (map endc (segs_of c hap)) (rv_pos v)) = Some b /\
        lookup (g_data g) (b_samp b) oidx (b_strand b) = Some a /\
        cell_at (o_gt out) h i = Some (Some a) /\
        (forall m, o_pop out = Some m -> cell_at m h i = Some (Some (b_pop b))) /\
        (forall m, o_smp out = Some m -> cell_at m h i = Some (Some (b_samp b))).
Proof.
  unfold output_vcf. intros H Hnd cur_chr [i0 [v0 [r [Erd Ecur]]]]. cbv zeta. intros Hcov.
  destruct (negb (lenZ (g_tab g) =? g_npop g - 1)); [discriminate|].
  rewrite Erd in *. subst cur_chr.
  set (ov := out_vars (rv_chr v0) (g_chroms g) ((i0, v0) :: r)) in *.
  set (st := mkds (g_tab g) _ (g_choice g) (g_strand g) (g_shuf g)) in H.
  destruct (haps_loop false (g_norep g) (g_npop g) (g_data g) (rv_chr v0) ov (g_chroms g) (g_bps g) st)
    as [[arrs st']|k] eqn:E; cbn [bind] in H; [|discriminate].
  inversion H; subst out. clear H. cbn [o_vars o_gt o_pop o_smp].
  split; [reflexivity|].
  destruct (haps_loop_nth _ _ _ _ _ _ _ _ _ _ E Hnd Hcov) as [_ [_ Hn]].
  intros h hap Hh c Hc. destruct (Hn h hap Hh) as [arr [Ha [La Hs]]].
  destruct (Hs c Hc) as [bl [Hbl Hrows]]. exists bl. split; [exact Hbl|].
  intros i oidx v Hi Hon. destruct (Hrows i oidx v Hi Hon) as [b [a [Hb [Hl Hcell]]]].
  exists b, a. split; [exact Hb|]. split; [exact Hl|].
  assert (P : forall f : cell -> Z,
             cell_at (map (map (option_map f)) arrs) h i = Some (Some (f (a, b_pop b, b_samp b)))).
  { intros f. unfold cell_at. rewrite nth_error_map, Ha. cbn [option_map].
    rewrite nth_error_map, Hcell. reflexivity. }
  split; [apply (P (fun x => fst (fst x)))|]. split.
  - intros m Hm. destruct (emits_pop _ _ _); [|discriminate]. inversion Hm; subst m.
    apply (P (fun x => snd (fst x))).
  - intros m Hm. destruct (emits_sample _ _ _ _); [|discriminate]. inversion Hm; subst m.
    apply (P (fun x => snd x)).
Qed.

(* the hypotheses of output_allele_spec are satisfiable: two simulated haplotypes over chromosomes 1 and 3
   of a panel that also holds chromosome 2; the second haplotype has two tracts on chromosome 1 *)
Definition ex_cfg : config :=
  mkcfg [1; 3] 3 [(1, [0]); (2, [1])] ex_vars ex_data 2 None true true false false
        [ex_hap; [mkseg 2 1 5 0; mkseg 1 1 2147483647 0; mkseg 1 3 2147483647 0]]
        [0; 0; 0; 0; 0] [[0]; [0]; [1; 0]; [1]] [].

Example output_allele_example :
  output_vcf ex_cfg = Ok (mkout [0; 2] [[Some 0; Some 3]; [Some 0; Some 0]]
                                (Some [[Some 1; Some 2]; [Some 1; Some 1]])
                                (Some [[Some 0; Some 1]; [Some 0; Some 0]]))
  /\ NoDup (g_chroms ex_cfg)
  /\ (exists i0 v0 r, read_vars (g_region ex_cfg) (g_vars ex_cfg) = (i0, v0) :: r /\ false = rv_chr v0)
  /\ (forall hap, In hap (g_bps ex_cfg) -> forall c, In c (g_chroms ex_cfg) ->
        chrom_covered hap c (cvars_of false c (out_vars false (g_chroms ex_cfg)
                                                 (read_vars (g_region ex_cfg) (g_vars ex_cfg))))).
Proof.
  split; [vm_compute; reflexivity|]. split.
  { cbn. constructor; [cbn; intros [H|[]]; discriminate|]. constructor; [intros []|constructor]. }
  split; [do 3 eexists; split; reflexivity|].
  intros hap Hh c Hc. unfold chrom_covered. apply assign_pre_sound.
  cbn in Hh, Hc. destruct Hh as [<-|[<-|[]]]; destruct Hc as [<-|[<-|[]]]; vm_compute; reflexivity.
Qed.
