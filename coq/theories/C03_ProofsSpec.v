(* C03 - the property as ONE end-to-end statement in the vocabulary of the breakpoints
   (Tracts.label_at, the lookup C05's Breakpoints.population_array implements), and the
   cross-file corollary with C05:

   (1) [output_rows]: row-level inversion of the model of output_vcf (every simulated haplotype
       has one array of cells; GT / POP / SAMPLE are its three projections);
   (2) [output_allele_label_at]: for every simulated haplotype there is ONE assignment
       src : chromosome -> block number -> reference haplotype (sample, strand) such that every
       output row carries the allele of  src c (block of the position),  POP = label_at of the
       position, SAMPLE = that sample; in replacement mode the sample is listed by the sample-info
       table under that label;
   (3) [output_allele_simulated]: the same for breakpoints closed by the int32-max sentinel
       (what simgenotype writes), no covering hypothesis left;
   (4) (in C03_ProofsC05.v) the POP rows written are exactly what C05's model of
       Breakpoints.population_array returns for those breakpoints at the output's variants;
   (5) [fdata_lookup]: meaning of the formula panels used for wide reference panels. *)
From HV Require Import Prelude Tracts Tiling C01_Model C01_Proofs C01_Bsearch C14_Model C14_Check C14_Proofs
  C03_Model C03_Check C03_Proofs C03_ProofsE2E.

(* ---- (5) formula panels -------------------------------------------------------------------- *)

Lemma zseq_nth : forall n s k, (k < n)%nat -> nth_error (zseq s n) k = Some (s + Z.of_nat k).
Proof.
  induction n as [|n IH]; intros s k H; [lia|]. cbn [zseq]. destruct k as [|k].
  - cbn. f_equal. lia.
  - cbn [nth_error]. rewrite IH by lia. f_equal. lia.
Qed.

Lemma zseq_length : forall n s, length (zseq s n) = n.
Proof. induction n as [|n IH]; intros s; cbn [zseq length]; [reflexivity|]. rewrite IH. reflexivity. Qed.

(* reference haplotype 2*r+u of a formula panel carries (h*mult+shift) mod modulus at variant v *)
Theorem fdata_lookup nref fs r v u f :
  0 <= r < nref -> nthZ fs v = Some f -> (u = 0 \/ u = 1) ->
  lookup (fdata nref fs) r v u = Some (fcell (2 * r + u) f).
Proof.
  intros Hr Hv Hu. unfold lookup, fdata, nthZ.
  destruct (r <? 0) eqn:E; [apply Z.ltb_lt in E; lia|].
  rewrite nth_error_map, zseq_nth by lia. cbn [option_map]. rewrite Z2Nat.id by lia. cbn [Z.add].
  unfold nthZ in Hv. destruct (v <? 0); [discriminate|]. unfold frow. rewrite nth_error_map, Hv. cbn [option_map].
  destruct Hu as [->| ->]; cbn [Z.eqb]; [rewrite Z.add_0_r|]; reflexivity.
Qed.

Theorem fdata_shape nref fs : length (fdata nref fs) = Z.to_nat nref /\
  forall row, In row (fdata nref fs) -> length row = length fs.
Proof.
  unfold fdata. split; [rewrite map_length; apply zseq_length|].
  intros row H. apply in_map_iff in H. destruct H as [r [<- _]]. unfold frow. apply map_length.
Qed.

(* ---- (1) rows of the output ------------------------------------------------------------------ *)

Definition gt_of (x : cell) : Z := fst (fst x).
Definition pop_of (x : cell) : Z := snd (fst x).
Definition smp_of (x : cell) : Z := snd x.

Theorem output_rows (g : config) (out : output) :
  output_vcf g = Ok out -> NoDup (g_chroms g) ->
  forall cur_chr, (exists i0 v0 r, read_vars (g_region g) (g_vars g) = (i0, v0) :: r /\ cur_chr = rv_chr v0) ->
  let ov := out_vars cur_chr (g_chroms g) (read_vars (g_region g) (g_vars g)) in
  (forall hap, In hap (g_bps g) -> forall c, In c (g_chroms g) -> chrom_covered hap c (cvars_of cur_chr c ov)) ->
  o_vars out = map fst ov /\ length (o_gt out) = length (g_bps g) /\
  forall h hap, nth_error (g_bps g) h = Some hap ->
    exists arr, length arr = length ov /\
      nth_error (o_gt out) h = Some (map (option_map gt_of) arr) /\
      (forall m, o_pop out = Some m -> nth_error m h = Some (map (option_map pop_of) arr)) /\
      (forall m, o_smp out = Some m -> nth_error m h = Some (map (option_map smp_of) arr)) /\
      forall c, In c (g_chroms g) -> cells_spec (g_norep g) (g_tab g) (g_data g) cur_chr ov hap c arr.
Proof.
  unfold output_vcf. intros H Hnd cur_chr [i0 [v0 [r [Erd Ecur]]]]. cbv zeta. intros Hcov.
  destruct (negb (lenZ (g_tab g) =? g_npop g - 1)); [discriminate|].
  rewrite Erd in *. subst cur_chr.
  set (ov := out_vars (rv_chr v0) (g_chroms g) ((i0, v0) :: r)) in *.
  set (st := mkds (g_tab g) _ (g_choice g) (g_strand g) (g_shuf g)) in H.
  destruct (haps_loop false (g_norep g) (g_npop g) (g_data g) (rv_chr v0) ov (g_chroms g) (g_bps g) st)
    as [[arrs st']|k] eqn:E; cbn [bind] in H; [|discriminate].
  inversion H; subst out. clear H. cbn [o_vars o_gt o_pop o_smp].
  destruct (haps_loop_nth _ _ _ _ _ _ _ _ _ _ E Hnd Hcov) as [_ [Hlen Hn]].
  split; [reflexivity|]. split; [rewrite map_length; exact Hlen|].
  intros h hap Hh. destruct (Hn h hap Hh) as [arr [Ha [La Hs]]].
  exists arr. split; [exact La|].
  assert (P : forall f : cell -> Z, nth_error (map (map (option_map f)) arrs) h = Some (map (option_map f) arr)).
  { intros f. rewrite nth_error_map, Ha. reflexivity. }
  split; [apply (P (fun x => fst (fst x)))|]. split; [|split].
  - intros m Hm. destruct (emits_pop _ _ _); [|discriminate]. inversion Hm; subst m. apply (P (fun x => snd (fst x))).
  - intros m Hm. destruct (emits_sample _ _ _ _); [|discriminate]. inversion Hm; subst m. apply (P (fun x => snd x)).
  - exact Hs.
Qed.

(* ---- label_at on a sorted haplotype ---------------------------------------------------------- *)

(* the breakpoints' lookup, written on the chromosome's own tracts (C05_Proofs.label_at_on_chrom) *)
Lemma label_at_filter hap c p :
  label_at hap c p = nth_error (map pop (filter (on_c c) hap)) (first_ge (map endc (filter (on_c c) hap)) p).
Proof.
  induction hap as [|s r IH]; [reflexivity|]. cbn [label_at filter]. change (on_c c s) with (chrom s =? c).
  destruct (chrom s =? c) eqn:Ec; cbn [andb map first_ge].
  - destruct (p <=? endc s); cbn; [reflexivity|exact IH].
  - exact IH.
Qed.

Lemma ends_on_filter c hap : ends_on c hap = map endc (filter (on_c c) hap).
Proof. reflexivity. Qed.

Lemma nth_error_map_eq {A A' B} (f : A -> B) (g : A' -> B) (l : list A) (l' : list A') k x :
  map f l = map g l' -> nth_error l k = Some x -> exists y, nth_error l' k = Some y /\ g y = f x.
Proof.
  revert l' k. induction l as [|a r IH]; intros [|a' r'] k H Hk; cbn in H; try discriminate.
  - destruct k; discriminate.
  - inversion H. destruct k as [|k]; cbn in Hk |- *.
    + inversion Hk; subst. exists a'. split; [reflexivity|]. symmetry. assumption.
    + eapply IH; eauto.
Qed.

(* a block list with the tracts' labels: the block at the assigned index carries label_at *)
Lemma block_label norep t hap c bl p b :
  sorted hap -> 0 <= c -> (forall s, In s hap -> 0 <= endc s) ->
  blocks_of norep t hap c bl ->
  nth_error bl (first_ge (map endc (segs_of c hap)) p) = Some b ->
  label_at hap c p = Some (b_pop b) /\ first_ge (map endc (segs_of c hap)) p = first_ge (ends_on c hap) p.
Proof.
  intros Hs Hc Hpos [_ [B _]] Hb. rewrite (segs_of_filter c hap Hs Hc Hpos) in *.
  split; [|reflexivity]. rewrite label_at_filter.
  destruct (nth_error_map_eq b_pop pop bl _ _ b B Hb) as [s [Hs' Hp]].
  rewrite nth_error_map, Hs'. cbn [option_map]. f_equal. exact Hp.
Qed.

(* ---- (2) the property, in the breakpoints' vocabulary ----------------------------------------- *)

Lemma list_choice {B} (P : Z -> B -> Prop) (d : B) (l : list Z) :
  (forall c, In c l -> exists x, P c x) -> exists f, forall c, In c l -> P c (f c).
Proof.
  induction l as [|a r IH]; intros H.
  - exists (fun _ => d). intros c [].
  - destruct (H a (or_introl eq_refl)) as [x Hx].
    destruct (IH (fun c Hc => H c (or_intror Hc))) as [f Hf].
    exists (fun c => if c =? a then x else f c). intros c Hc. destruct (c =? a) eqn:E.
    + apply Z.eqb_eq in E. subst c. exact Hx.
    + destruct Hc as [->|Hc]; [rewrite Z.eqb_refl in E; discriminate|]. apply Hf. exact Hc.
Qed.

Lemma lookup_some d r v u a : lookup d r v u = Some a -> 0 <= r /\ (u = 0 \/ u = 1).
Proof.
  unfold lookup, nthZ. destruct (r <? 0) eqn:E; [discriminate|]. apply Z.ltb_ge in E.
  destruct (nth_error d (Z.to_nat r)) as [row|]; [|discriminate].
  destruct (if v <? 0 then None else nth_error row (Z.to_nat v)) as [[a0 a1]|]; [|discriminate].
  destruct (u =? 0) eqn:E0; [apply Z.eqb_eq in E0; intros _; auto|].
  destruct (u =? 1) eqn:E1; [apply Z.eqb_eq in E1; intros _; auto|discriminate].
Qed.

Definition src_of (f : Z -> list block) (c : Z) (k : nat) : Z * Z :=
  match nth_error (f c) k with Some b => (b_samp b, b_strand b) | None => (0, 0) end.

(* For every configuration on which the model of output_vcf completes, with distinct, non-negative
   requested chromosomes, breakpoints sorted by (chromosome, end) and covering the variants read:
   the records written are the reference's on the requested chromosomes, and for every simulated
   haplotype h (= 2*sample + strand) there is ONE assignment
        src : chromosome -> number of the block among the chromosome's tracts -> (reference sample, strand)
   such that for every output row i (variant oidx at position p of requested chromosome c), with
   k = first_ge (ends of c's tracts) p - the block of p: first tract whose end >= p, so a variant
   on a block end belongs to that block - and (r,u) = src c k:
     label_at hap c p = Some lab                (the breakpoints label the position),
     GT     = the allele the panel gives reference haplotype (r,u) at oidx   (a value, never np.empty),
     POP    = lab          whenever POP is written,
     SAMPLE = r            whenever SAMPLE is written,
     replacement mode: r is listed by the sample-info table under lab.
   All rows of one block get the same (r,u): "within one ancestry block all variants come from
   the same reference haplotype". *)
Theorem output_allele_label_at (g : config) (out : output) :
  output_vcf g = Ok out -> NoDup (g_chroms g) -> (forall c, In c (g_chroms g) -> 0 <= c) ->
  (forall hap, In hap (g_bps g) -> sorted hap /\ forall s, In s hap -> 0 <= endc s) ->
  forall cur_chr, (exists i0 v0 r, read_vars (g_region g) (g_vars g) = (i0, v0) :: r /\ cur_chr = rv_chr v0) ->
  let ov := out_vars cur_chr (g_chroms g) (read_vars (g_region g) (g_vars g)) in
  (forall hap, In hap (g_bps g) -> forall c, In c (g_chroms g) -> chrom_covered hap c (cvars_of cur_chr c ov)) ->
  o_vars out = map fst ov /\
  forall h hap, nth_error (g_bps g) h = Some hap ->
  exists src : Z -> nat -> Z * Z,
  forall c, In c (g_chroms g) -> forall i oidx v, nth_error ov i = Some (oidx, v) -> on_chrom cur_chr c v = true ->
    let k := first_ge (ends_on c hap) (rv_pos v) in
    exists lab a,
      label_at hap c (rv_pos v) = Some lab /\
      lookup (g_data g) (fst (src c k)) oidx (snd (src c k)) = Some a /\
      0 <= fst (src c k) /\ (snd (src c k) = 0 \/ snd (src c k) = 1) /\
      (g_norep g = false -> exists lst, pt_get (g_tab g) lab = Some lst /\ In (fst (src c k)) lst) /\
      cell_at (o_gt out) h i = Some (Some a) /\
      (forall m, o_pop out = Some m -> cell_at m h i = Some (Some lab)) /\
      (forall m, o_smp out = Some m -> cell_at m h i = Some (Some (fst (src c k)))).
Proof.
  intros H Hnd Hnn Hsorted cur_chr Hcur. cbv zeta. intros Hcov.
  destruct (output_rows g out H Hnd cur_chr Hcur Hcov) as [Hv [_ Hrows]].
  split; [exact Hv|]. intros h hap Hh.
  destruct (Hrows h hap Hh) as [arr [La [Hgt [Hpop [Hsmp Hcells]]]]].
  destruct (list_choice _ [] (g_chroms g) Hcells) as [f Hf].
  exists (src_of f). intros c Hc i oidx v Hi Hon. cbv zeta.
  destruct (Hsorted hap (nth_error_In _ _ Hh)) as [Hs Hpos].
  destruct (Hf c Hc) as [Hbl Hr]. destruct (Hr i oidx v Hi Hon) as [b [a [Hb [Hl Hcell]]]].
  destruct (block_label _ _ _ _ _ _ _ Hs (Hnn c Hc) Hpos Hbl Hb) as [Hlab Hk].
  rewrite Hk in Hb. unfold src_of. rewrite Hb. cbn [fst snd].
  exists (b_pop b), a. split; [exact Hlab|]. split; [exact Hl|].
  destruct (lookup_some _ _ _ _ _ Hl) as [Hr0 Hu]. split; [exact Hr0|]. split; [exact Hu|].
  assert (Q : forall pr : cell -> Z, forall m, nth_error m h = Some (map (option_map pr) arr) ->
            cell_at m h i = Some (Some (pr (a, b_pop b, b_samp b)))).
  { intros pr m Hm. unfold cell_at. rewrite Hm, nth_error_map, Hcell. reflexivity. }
  split; [|split; [|split]].
  - intros Hn. destruct Hbl as [_ [_ [L _]]]. specialize (L Hn). rewrite Forall_forall in L.
    destruct (L b (nth_error_In _ _ Hb)) as [lst [Hg [Hin _]]]. exists lst. split; assumption.
  - apply (Q gt_of). exact Hgt.
  - intros m Hm. apply (Q pop_of). apply Hpop. exact Hm.
  - intros m Hm. apply (Q smp_of). apply Hsmp. exact Hm.
Qed.

(* ---- (3) breakpoints as simgenotype writes them: no covering hypothesis ------------------------ *)

Definition positions_on (cur_chr : bool) (c : Z) (ov : list (Z * rvar)) : list Z :=
  map (fun v : cvar => snd v) (cvars_of cur_chr c ov).

(* every haplotype sorted with non-negative ends and, on every requested chromosome, a tract ending at
   the int32-max sentinel (C02: what simulate_gt / write_breakpoints produce); the panel's positions
   ascending within a chromosome and at most the sentinel (an indexed VCF / PGEN) *)
Theorem output_allele_simulated (g : config) (out : output) :
  output_vcf g = Ok out -> NoDup (g_chroms g) -> (forall c, In c (g_chroms g) -> 0 <= c) ->
  (forall hap, In hap (g_bps g) -> sorted hap /\ (forall s, In s hap -> 0 <= endc s) /\
     forall c, In c (g_chroms g) -> exists s, In s hap /\ chrom s = c /\ endc s = MAXC) ->
  forall cur_chr, (exists i0 v0 r, read_vars (g_region g) (g_vars g) = (i0, v0) :: r /\ cur_chr = rv_chr v0) ->
  let ov := out_vars cur_chr (g_chroms g) (read_vars (g_region g) (g_vars g)) in
  (forall c, In c (g_chroms g) -> asc (positions_on cur_chr c ov) /\
     forall p, In p (positions_on cur_chr c ov) -> p <= MAXC) ->
  o_vars out = map fst ov /\
  forall h hap, nth_error (g_bps g) h = Some hap ->
  exists src : Z -> nat -> Z * Z,
  forall c, In c (g_chroms g) -> forall i oidx v, nth_error ov i = Some (oidx, v) -> on_chrom cur_chr c v = true ->
    let k := first_ge (ends_on c hap) (rv_pos v) in
    exists lab a,
      label_at hap c (rv_pos v) = Some lab /\
      lookup (g_data g) (fst (src c k)) oidx (snd (src c k)) = Some a /\
      0 <= fst (src c k) /\ (snd (src c k) = 0 \/ snd (src c k) = 1) /\
      (g_norep g = false -> exists lst, pt_get (g_tab g) lab = Some lst /\ In (fst (src c k)) lst) /\
      cell_at (o_gt out) h i = Some (Some a) /\
      (forall m, o_pop out = Some m -> cell_at m h i = Some (Some lab)) /\
      (forall m, o_smp out = Some m -> cell_at m h i = Some (Some (fst (src c k)))).
Proof.
  intros H Hnd Hnn Hb cur_chr Hcur. cbv zeta. intros Hp.
  apply (output_allele_label_at g out H Hnd Hnn); [|exact Hcur|].
  - intros hap Hh. destruct (Hb hap Hh) as [A [B _]]. split; assumption.
  - intros hap Hh c Hc. destruct (Hb hap Hh) as [A [B C]]. destruct (Hp c Hc) as [P1 P2].
    apply sentinel_covers; auto.
Qed.

(* ---- generic list lemmas ---------------------------------------------------------------------- *)

Lemma nth_error_ext {A} : forall (l1 l2 : list A), (forall i, nth_error l1 i = nth_error l2 i) -> l1 = l2.
Proof.
  induction l1 as [|a r IH]; intros [|b r'] H.
  - reflexivity.
  - specialize (H O). discriminate.
  - specialize (H O). discriminate.
  - pose proof (H O) as H0. cbn in H0. inversion H0; subst. f_equal. apply IH. intros i. apply (H (S i)).
Qed.

Lemma on_chrom_chrom cur_chr c v : on_chrom cur_chr c v = true -> rv_chrom v = c.
Proof. unfold on_chrom. intros H. apply andb_true_iff in H. destruct H as [_ H]. apply Z.eqb_eq. exact H. Qed.

(* ---- the hypotheses are satisfiable: the example configuration of C03_ProofsE2E ---------------- *)

Example output_allele_label_at_example :
  (forall c, In c (g_chroms ex_cfg) -> 0 <= c) /\
  (forall hap, In hap (g_bps ex_cfg) -> sorted hap /\ (forall s, In s hap -> 0 <= endc s) /\
     forall c, In c (g_chroms ex_cfg) -> exists s, In s hap /\ chrom s = c /\ endc s = MAXC) /\
  (forall c, In c (g_chroms ex_cfg) ->
     asc (positions_on false c (out_vars false (g_chroms ex_cfg) (read_vars (g_region ex_cfg) (g_vars ex_cfg)))) /\
     forall p, In p (positions_on false c (out_vars false (g_chroms ex_cfg) (read_vars (g_region ex_cfg) (g_vars ex_cfg))))
               -> p <= MAXC).
Proof.
  split; [intros c Hc; cbn in Hc; intuition lia|]. split.
  { intros hap Hh. cbn in Hh. destruct Hh as [<-|[<-|[]]].
    - split; [apply sortedb_spec; reflexivity|]. split; [intros s Hs; cbn in Hs; intuition (subst; cbn; lia)|].
      intros c Hc. cbn in Hc. destruct Hc as [<-|[<-|[]]].
      + exists (mkseg 1 1 2147483647 0). split; [cbn; auto|split; reflexivity].
      + exists (mkseg 2 3 2147483647 0). split; [cbn; auto|split; reflexivity].
    - split; [apply sortedb_spec; reflexivity|]. split; [intros s Hs; cbn in Hs; intuition (subst; cbn; lia)|].
      intros c Hc. cbn in Hc. destruct Hc as [<-|[<-|[]]].
      + exists (mkseg 1 1 2147483647 0). split; [cbn; auto|split; reflexivity].
      + exists (mkseg 1 3 2147483647 0). split; [cbn; auto|split; reflexivity]. }
  intros c Hc. cbn in Hc. destruct Hc as [<-|[<-|[]]]; (split; [cbn; intuition lia|]);
    intros p Hp; vm_compute in Hp; destruct Hp as [<-|[]]; unfold MAXC; lia.
Qed.
