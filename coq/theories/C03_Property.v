(* C03 - property theorems only. *)
From HV Require Import Prelude Tracts C01_Model C14_Model C03_Model C03_Check C03_Proofs.

(* searchsorted(side='right') + np.diff + np.repeat = first block whose end >= position,
   for all ascending position lists and ascending tract ends reaching every position *)
Theorem C03_assign_is_first_ge :
  forall ps ends,
  asc ps -> asc ends ->
  (forall p, In p ps -> exists e, last_opt ends = Some e /\ p <= e) ->
  assign ps ends = Ok (map (first_ge ends) ps).
Proof. exact assign_is_first_ge. Qed.
Print Assumptions C03_assign_is_first_ge.

(* the block found ends at or after the position, all earlier blocks end before it *)
Theorem C03_first_ge_spec :
  forall ends p, (exists e, In e ends /\ p <= e) ->
  exists e, nth_error ends (first_ge ends p) = Some e /\ p <= e /\
            forall j e', (j < first_ge ends p)%nat -> nth_error ends j = Some e' -> e' < p.
Proof. exact first_ge_spec. Qed.
Print Assumptions C03_first_ge_spec.

(* a variant exactly on a block end belongs to that block *)
Theorem C03_variant_on_block_end :
  forall ends i e,
  (forall j e', (j < i)%nat -> nth_error ends j = Some e' -> e' < e) ->
  nth_error ends i = Some e -> first_ge ends e = i.
Proof. exact first_ge_on_end. Qed.
Print Assumptions C03_variant_on_block_end.

(* the assignment is the breakpoints' own lookup (label_at) on the chromosome's tracts *)
Theorem C03_assign_agrees_with_label_at :
  forall segs c p, (forall s, In s segs -> chrom s = c) ->
  label_at segs c p = option_map pop (nth_error segs (first_ge (map endc segs) p)).
Proof. exact first_ge_label. Qed.
Print Assumptions C03_assign_agrees_with_label_at.

(* POP / SAMPLE are emitted exactly when requested (and the output is not PGEN) *)
Theorem C03_writer_emits :
  forall pgen pf sf,
  emits_pop pgen pf sf = (pf && negb pgen) /\ emits_sample false pgen pf sf = (sf && negb pgen).
Proof. exact writer_emits. Qed.
Print Assumptions C03_writer_emits.

(* no output row of a simulated haplotype is left uninitialised, whatever chromosomes the
   reference holds and in whatever order, for all draw streams and both replacement modes *)
Theorem C03_no_uninitialised :
  forall norep npop d cur_chr chroms rd hap st arr st',
  let ov := out_vars cur_chr chroms rd in
  output_hap false norep npop d cur_chr ov hap chroms st = Ok (arr, st') ->
  (forall c, In c chroms -> chrom_covered hap c (cvars_of cur_chr c ov)) ->
  length arr = length ov /\ forall i, (i < length ov)%nat -> filled arr i.
Proof. exact no_uninitialised. Qed.
Print Assumptions C03_no_uninitialised.

(* rows written = the reference's variants on the requested chromosomes (reference order), nothing else *)
Theorem C03_out_vars_spec :
  forall cur_chr chroms rd iv,
  In iv (out_vars cur_chr chroms rd) <->
  In iv rd /\ exists c, In c chroms /\ on_chrom cur_chr c (snd iv) = true.
Proof. exact out_vars_spec. Qed.
Print Assumptions C03_out_vars_spec.

(* soundness of the boolean checkers evaluated on the implementation's output *)
Theorem C03_hap_ok_sound :
  forall c out h,
  hap_ok c out h = true -> sorted (nth_or [] (g_bps c) h) ->
  forall it, In it (items_of c out h) -> forall k, i_key it = Some k ->
  (exists r u, In r (cands c (snd k)) /\ (u = 0 \/ u = 1) /\
     forall it', In it' (items_of c out h) -> i_key it' = Some k ->
       exists a, i_gt it' = Some a /\ lookup (g_data c) r (i_oidx it') u = Some a /\
                 (forall s, i_smp it' = Some s -> s = Some r))
  /\ (forall p, i_pop it = Some p -> p = Some (snd k)).
Proof. exact hap_ok_sound. Qed.
Print Assumptions C03_hap_ok_sound.

Theorem C03_block_key_is_label_at :
  forall l c p i, option_map snd (block_key l c p i) = label_at l c p.
Proof. exact block_key_label. Qed.
Print Assumptions C03_block_key_is_label_at.

Theorem C03_holds_out_sound :
  forall c out,
  holds_out c out = true ->
  (g_pop_field c = true -> g_pgen c = false -> o_pop out <> None) /\
  (g_sample_field c = true -> g_pgen c = false -> o_smp out <> None) /\
  length (o_gt out) = length (g_bps c) /\
  (forall h, (h < length (g_bps c))%nat -> hap_ok c out h = true) /\
  (uniform_prefix (g_vars c) = true ->
   o_vars out = map fst (filter (fun iv : Z * rvar => existsb (Z.eqb (rv_chrom (snd iv))) (g_chroms c))
                                (read_vars (g_region c) (g_vars c)))).
Proof. exact holds_out_sound. Qed.
Print Assumptions C03_holds_out_sound.

Theorem C03_holds_assign_sound :
  forall k, holds_assign k = true -> assign_pre (a_pos k) (a_ends k) = true ->
  a_obs k = Ok (map (fun p => Z.of_nat (first_ge (a_ends k) p)) (a_pos k)).
Proof. exact holds_assign_sound. Qed.
Print Assumptions C03_holds_assign_sound.

Theorem C03_assign_pre_sound :
  forall pos ends, assign_pre pos ends = true ->
  asc pos /\ asc ends /\ forall p, In p pos -> exists e, last_opt ends = Some e /\ p <= e.
Proof. exact assign_pre_sound. Qed.
Print Assumptions C03_assign_pre_sound.

(* the pinned tree violated the property *)
Theorem C03_legacy_sample_dropped_refuted :
  emits_sample true false true true = false /\ emits_sample false false true true = true.
Proof. exact legacy_sample_dropped_refuted. Qed.
Print Assumptions C03_legacy_sample_dropped_refuted.

Theorem C03_legacy_extra_chrom_refuted :
  arr_of (hap_loop_legacy false 3 ex_data false (read_vars None ex_vars) ex_hap [1; 3] 0
            (repeat None 3) ex_st)
  = [Some (0, 1, 0); Some (0, 2, 1); None]
  /\ map fst (out_vars false [1; 3] (read_vars None ex_vars)) = [0; 2]
  /\ arr_of (output_hap false false 3 ex_data false (out_vars false [1; 3] (read_vars None ex_vars))
               ex_hap [1; 3] ex_st)
  = [Some (0, 1, 0); Some (3, 2, 1)].
Proof. exact legacy_extra_chrom_refuted. Qed.
Print Assumptions C03_legacy_extra_chrom_refuted.

(* hypotheses of C03_assign_is_first_ge are satisfiable (variant on a block end, variant past every marker) *)
Theorem C03_assign_example :
  asc [10; 11; 30; 5000] /\ asc [10; 25; 2147483647] /\
  (forall p, In p [10; 11; 30; 5000] -> exists e, last_opt [10; 25; 2147483647] = Some e /\ p <= e) /\
  assign [10; 11; 30; 5000] [10; 25; 2147483647] = Ok [0; 1; 2; 2]%nat.
Proof. exact assign_example. Qed.
Print Assumptions C03_assign_example.

(* ---- simulated breakpoints: variants past the last map coordinate; every output cell ---------- *)
From HV Require Import Tiling C03_ProofsE2E C03_SimCheck.

(* breakpoints as simgenotype writes them - sorted by (chromosome, end), chromosome c closed by the
   int32-max sentinel (C02: on EVERY requested chromosome) - cover every variant position up to the
   sentinel, wherever the genetic map ended: the hypothesis of C03_no_uninitialised holds for them *)
Theorem C03_sentinel_covers : forall hap c (cv : list cvar),
  sorted hap -> 0 <= c -> (forall s, In s hap -> 0 <= endc s) ->
  (exists s, In s hap /\ chrom s = c /\ endc s = MAXC) ->
  asc (map (fun v : cvar => snd v) cv) -> (forall p, In p (map (fun v : cvar => snd v) cv) -> p <= MAXC) ->
  chrom_covered hap c cv.
Proof. exact sentinel_covers. Qed.
Print Assumptions C03_sentinel_covers.

(* the tracts _convert_haplotype walks over (binary search + scan) are the haplotype's tracts of the chromosome *)
Theorem C03_segs_of_filter : forall c hap, sorted hap -> 0 <= c -> (forall s, In s hap -> 0 <= endc s) ->
  segs_of c hap = filter (on_c c) hap.
Proof. exact segs_of_filter. Qed.
Print Assumptions C03_segs_of_filter.

(* a variant past every other block end (past the last map coordinate) belongs to the last block *)
Theorem C03_variant_past_last_coordinate : forall pre x p,
  (forall e, In e pre -> e < p) -> p <= x -> first_ge (pre ++ [x]) p = length pre.
Proof. exact first_ge_past. Qed.
Print Assumptions C03_variant_past_last_coordinate.

(* output_allele_spec: one statement about every output cell of the model, composing the assignment
   (C03_assign_is_first_ge), the per-block choice of the reference haplotype and the writer.
   For every configuration on which the model completes, with distinct requested chromosomes and
   breakpoints covering the variants read: for every simulated haplotype h and requested chromosome c
   there is ONE list of blocks - one per tract of c, with the tract's end and label; in replacement
   mode the block's sample is one the sample-info table lists under that label, without replacement
   its strand is 0 or 1 - such that every output row i whose variant (panel index oidx) lies on c
   holds, with b the block at index first_ge ends position: GT = the allele of reference haplotype
   (b_samp b, b_strand b) at oidx; POP = b's label and SAMPLE = b's sample whenever those fields are
   written; the records written are the variants read on the requested chromosomes.
   (Not proved: that without replacement the sample belongs to the label's population - the recorded
   shuffles are unconstrained inputs of the model; the checker evaluates it on every output.) *)
Theorem C03_output_allele_spec : forall (g : config) (out : output),
  output_vcf g = Ok out -> NoDup (g_chroms g) ->
  forall cur_chr, (exists i0 v0 r, read_vars (g_region g) (g_vars g) = (i0, v0) :: r /\ cur_chr = rv_chr v0) ->
  let ov := out_vars cur_chr (g_chroms g) (read_vars (g_region g) (g_vars g)) in
  (forall hap, In hap (g_bps g) -> forall c, In c (g_chroms g) -> chrom_covered hap c (cvars_of cur_chr c ov)) ->
  o_vars out = map fst ov /\
  forall h hap, nth_error (g_bps g) h = Some hap ->
  forall c, In c (g_chroms g) ->
  exists bl, blocks_of (g_norep g) (g_tab g) hap c bl /\
    forall i oidx v, nth_error ov i = Some (oidx, v) -> on_chrom cur_chr c v = true ->
      exists b a, nth_error bl (first_ge (map endc (segs_of c hap)) (rv_pos v)) = Some b /\
        lookup (g_data g) (b_samp b) oidx (b_strand b) = Some a /\
        cell_at (o_gt out) h i = Some (Some a) /\
        (forall m, o_pop out = Some m -> cell_at m h i = Some (Some (b_pop b))) /\
        (forall m, o_smp out = Some m -> cell_at m h i = Some (Some (b_samp b))).
Proof. exact output_allele_spec. Qed.
Print Assumptions C03_output_allele_spec.

(* its hypotheses are satisfiable *)
Example C03_output_allele_example :
  output_vcf ex_cfg = Ok (mkout [0; 2] [[Some 0; Some 3]; [Some 0; Some 0]]
                                (Some [[Some 1; Some 2]; [Some 1; Some 1]])
                                (Some [[Some 0; Some 1]; [Some 0; Some 0]]))
  /\ NoDup (g_chroms ex_cfg)
  /\ (exists i0 v0 r, read_vars (g_region ex_cfg) (g_vars ex_cfg) = (i0, v0) :: r /\ false = rv_chr v0)
  /\ (forall hap, In hap (g_bps ex_cfg) -> forall c, In c (g_chroms ex_cfg) ->
        chrom_covered hap c (cvars_of false c (out_vars false (g_chroms ex_cfg)
                                                 (read_vars (g_region ex_cfg) (g_vars ex_cfg))))).
Proof. exact output_allele_example. Qed.
Print Assumptions C03_output_allele_example.

(* the end-to-end checker's block rule: first tract of the chromosome reaching the position, else
   the chromosome's last tract; total on every chromosome the haplotype has a tract of *)
Theorem C03_sim_key_spec : forall hap c p j lab, sim_key hap c p = Some (j, lab) ->
  exists s, nth_error hap j = Some s /\ chrom s = c /\ pop s = lab /\
    ((p <= endc s /\ forall m t, (m < j)%nat -> nth_error hap m = Some t -> ~ (chrom t = c /\ p <= endc t))
     \/ ((forall t, In t hap -> chrom t = c -> endc t < p) /\
         forall m t, (j < m)%nat -> nth_error hap m = Some t -> chrom t <> c)).
Proof. exact sim_key_spec. Qed.
Print Assumptions C03_sim_key_spec.

Theorem C03_sim_key_total : forall hap c p, (exists s, In s hap /\ chrom s = c) -> sim_key hap c p <> None.
Proof. exact sim_key_total. Qed.
Print Assumptions C03_sim_key_total.

Theorem C03_hap_ok_sim_sound : forall c out h,
  hap_ok_sim c out h = true -> sorted (nth_or [] (g_bps c) h) ->
  forall it, In it (items_sim c out h) -> forall k, i_key it = Some k ->
  (exists r u, In r (cands c (snd k)) /\ (u = 0 \/ u = 1) /\
     forall it', In it' (items_sim c out h) -> i_key it' = Some k ->
       exists a, i_gt it' = Some a /\ lookup (g_data c) r (i_oidx it') u = Some a /\
                 (forall s, i_smp it' = Some s -> s = Some r))
  /\ (forall p, i_pop it = Some p -> p = Some (snd k)).
Proof. exact hap_ok_sim_sound. Qed.
Print Assumptions C03_hap_ok_sim_sound.

Theorem C03_holds_sim_out_sound : forall c out,
  holds_sim_out c out = true ->
  (g_pop_field c = true -> g_pgen c = false -> o_pop out <> None) /\
  (g_sample_field c = true -> g_pgen c = false -> o_smp out <> None) /\
  length (o_gt out) = length (g_bps c) /\
  (forall h, (h < length (g_bps c))%nat -> hap_ok_sim c out h = true) /\
  (uniform_prefix (g_vars c) = true ->
   o_vars out = map fst (filter (fun iv : Z * rvar => existsb (Z.eqb (rv_chrom (snd iv))) (g_chroms c))
                                (read_vars (g_region c) (g_vars c)))).
Proof. exact holds_sim_out_sound. Qed.
Print Assumptions C03_holds_sim_out_sound.

(* ---- the property as one statement in the breakpoints' vocabulary; C05's lookup; wide panels ---- *)
From HV Require Import C03_ProofsSpec C03_ProofsC05 C03_ProofsComplete.
From HV Require C05_Model C05_Proofs.

(* row-level inversion of the model: one array of cells per simulated haplotype, as long as the list of
   records written; GT / POP / SAMPLE are its projections; every simulated haplotype is in the output *)
Theorem C03_output_rows : forall (g : config) (out : output),
  output_vcf g = Ok out -> NoDup (g_chroms g) ->
  forall cur_chr, (exists i0 v0 r, read_vars (g_region g) (g_vars g) = (i0, v0) :: r /\ cur_chr = rv_chr v0) ->
  let ov := out_vars cur_chr (g_chroms g) (read_vars (g_region g) (g_vars g)) in
  (forall hap, In hap (g_bps g) -> forall c, In c (g_chroms g) -> chrom_covered hap c (cvars_of cur_chr c ov)) ->
  o_vars out = map fst ov /\ length (o_gt out) = length (g_bps g) /\
  forall h hap, nth_error (g_bps g) h = Some hap ->
    exists arr, length arr = length ov /\
      nth_error (o_gt out) h = Some (map (option_map gt_of) arr) /\
      (forall m, o_pop out = Some m -> nth_error m h = Some (map (option_map pop_of) arr)) /\
      (forall m, o_smp out = Some m -> nth_error m h = Some (map (option_map smp_of) arr)) /\
      forall c, In c (g_chroms g) -> cells_spec (g_norep g) (g_tab g) (g_data g) cur_chr ov hap c arr.
Proof. exact output_rows. Qed.
Print Assumptions C03_output_rows.

(* THE PROPERTY, end to end over the model.  For every configuration on which output_vcf completes
   (distinct non-negative requested chromosomes; breakpoints sorted by (chromosome, end) and covering the
   variants read): the records written are the reference's on the requested chromosomes, in reference
   order, and for every simulated haplotype h (= 2*sample + strand) there is ONE assignment
      src : chromosome -> number of the block among the chromosome's tracts -> (reference sample, strand)
   such that every output row i (variant oidx at position p of chromosome c) satisfies, with
   k = first_ge (ends_on c hap) p - the first tract whose end is >= p, so a variant exactly on a block
   end belongs to that block and one past every other end to the last block - and (r,u) = src c k:
      label_at hap c p = Some lab,
      GT = the allele of reference haplotype (r,u) at oidx (a value: never uninitialised memory),
      POP = lab and SAMPLE = r whenever those fields are written (alone or together),
      with replacement: r is listed by the sample-info table under lab.
   src depends on the block only: all variants of one ancestry block come from one reference haplotype. *)
Theorem C03_output_allele_label_at : forall (g : config) (out : output),
  output_vcf g = Ok out -> NoDup (g_chroms g) -> (forall c, In c (g_chroms g) -> 0 <= c) ->
  (forall hap, In hap (g_bps g) -> sorted hap /\ forall s, In s hap -> 0 <= endc s) ->
  forall cur_chr, (exists i0 v0 r, read_vars (g_region g) (g_vars g) = (i0, v0) :: r /\ cur_chr = rv_chr v0) ->
  let ov := out_vars cur_chr (g_chroms g) (read_vars (g_region g) (g_vars g)) in
  (forall hap, In hap (g_bps g) -> forall c, In c (g_chroms g) -> chrom_covered hap c (cvars_of cur_chr c ov)) ->
  o_vars out = map fst ov /\
  forall h hap, nth_error (g_bps g) h = Some hap ->
  exists src : Z -> nat -> Z * Z,
  forall c, In c (g_chroms g) -> forall i oidx v, nth_error ov i = Some (oidx, v) -> on_chrom cur_chr c v = true ->
    let k := first_ge (ends_on c hap) (rv_pos v) in
    exists lab a,
      label_at hap c (rv_pos v) = Some lab /\
      lookup (g_data g) (fst (src c k)) oidx (snd (src c k)) = Some a /\
      0 <= fst (src c k) /\ (snd (src c k) = 0 \/ snd (src c k) = 1) /\
      (g_norep g = false -> exists lst, pt_get (g_tab g) lab = Some lst /\ In (fst (src c k)) lst) /\
      cell_at (o_gt out) h i = Some (Some a) /\
      (forall m, o_pop out = Some m -> cell_at m h i = Some (Some lab)) /\
      (forall m, o_smp out = Some m -> cell_at m h i = Some (Some (fst (src c k)))).
Proof. exact output_allele_label_at. Qed.
Print Assumptions C03_output_allele_label_at.

(* the same for breakpoints as simgenotype writes them (C02: sorted, every requested chromosome closed by
   the int32-max sentinel) and a position-sorted panel: no covering hypothesis is left *)
Theorem C03_output_allele_simulated : forall (g : config) (out : output),
  output_vcf g = Ok out -> NoDup (g_chroms g) -> (forall c, In c (g_chroms g) -> 0 <= c) ->
  (forall hap, In hap (g_bps g) -> sorted hap /\ (forall s, In s hap -> 0 <= endc s) /\
     forall c, In c (g_chroms g) -> exists s, In s hap /\ chrom s = c /\ endc s = MAXC) ->
  forall cur_chr, (exists i0 v0 r, read_vars (g_region g) (g_vars g) = (i0, v0) :: r /\ cur_chr = rv_chr v0) ->
  let ov := out_vars cur_chr (g_chroms g) (read_vars (g_region g) (g_vars g)) in
  (forall c, In c (g_chroms g) -> asc (positions_on cur_chr c ov) /\
     forall p, In p (positions_on cur_chr c ov) -> p <= MAXC) ->
  o_vars out = map fst ov /\
  forall h hap, nth_error (g_bps g) h = Some hap ->
  exists src : Z -> nat -> Z * Z,
  forall c, In c (g_chroms g) -> forall i oidx v, nth_error ov i = Some (oidx, v) -> on_chrom cur_chr c v = true ->
    let k := first_ge (ends_on c hap) (rv_pos v) in
    exists lab a,
      label_at hap c (rv_pos v) = Some lab /\
      lookup (g_data g) (fst (src c k)) oidx (snd (src c k)) = Some a /\
      0 <= fst (src c k) /\ (snd (src c k) = 0 \/ snd (src c k) = 1) /\
      (g_norep g = false -> exists lst, pt_get (g_tab g) lab = Some lst /\ In (fst (src c k)) lst) /\
      cell_at (o_gt out) h i = Some (Some a) /\
      (forall m, o_pop out = Some m -> cell_at m h i = Some (Some lab)) /\
      (forall m, o_smp out = Some m -> cell_at m h i = Some (Some (fst (src c k)))).
Proof. exact output_allele_simulated. Qed.
Print Assumptions C03_output_allele_simulated.

(* cross-file corollary with C05: the POP row written for simulated haplotype h is exactly what the model of
   Breakpoints.population_array (C05_Model.strand_row: per-chromosome searchsorted + scatter) looks up in h's
   tracts at the output's variants - simgenotype's block assignment and the breakpoint reader's lookup agree *)
Theorem C03_pop_is_strand_row : forall (g : config) (out : output) (m : list (list (option Z))),
  output_vcf g = Ok out -> o_pop out = Some m ->
  NoDup (g_chroms g) -> (forall c, In c (g_chroms g) -> 0 <= c) ->
  (forall hap, In hap (g_bps g) -> sorted hap /\ forall s, In s hap -> 0 <= endc s) ->
  forall cur_chr, (exists i0 v0 r, read_vars (g_region g) (g_vars g) = (i0, v0) :: r /\ cur_chr = rv_chr v0) ->
  let ov := out_vars cur_chr (g_chroms g) (read_vars (g_region g) (g_vars g)) in
  (forall hap, In hap (g_bps g) -> forall c, In c (g_chroms g) -> chrom_covered hap c (cvars_of cur_chr c ov)) ->
  forall h hap, nth_error (g_bps g) h = Some hap ->
    C05_Model.strand_row hap (map var_of ov) = Ok (labs_of hap (map var_of ov)) /\
    nth_error m h = Some (map Some (labs_of hap (map var_of ov))).
Proof. exact pop_is_strand_row. Qed.
Print Assumptions C03_pop_is_strand_row.

(* ... and for the whole table (sample s = haplotypes 2s, 2s+1, as in the .bp file): population_array at the
   output's variants returns, per sample, the two strands' labels side by side, and those are the POP rows *)
Theorem C03_pop_is_population_array : forall (g : config) (out : output) (m : list (list (option Z))),
  output_vcf g = Ok out -> o_pop out = Some m ->
  NoDup (g_chroms g) -> (forall c, In c (g_chroms g) -> 0 <= c) ->
  (forall hap, In hap (g_bps g) -> sorted hap /\ forall s, In s hap -> 0 <= endc s) ->
  forall cur_chr, (exists i0 v0 r, read_vars (g_region g) (g_vars g) = (i0, v0) :: r /\ cur_chr = rv_chr v0) ->
  let ov := out_vars cur_chr (g_chroms g) (read_vars (g_region g) (g_vars g)) in
  let vs := map var_of ov in
  (forall hap, In hap (g_bps g) -> forall c, In c (g_chroms g) -> chrom_covered hap c (cvars_of cur_chr c ov)) ->
  C05_Model.population_array (pair_up 0 (g_bps g)) vs None
    = Ok (map (fun e => combine (labs_of (fst (snd e)) vs) (labs_of (snd (snd e)) vs)) (pair_up 0 (g_bps g)))
  /\ forall h hap, nth_error (g_bps g) h = Some hap -> nth_error m h = Some (map Some (labs_of hap vs)).
Proof. exact pop_is_population_array. Qed.
Print Assumptions C03_pop_is_population_array.

(* the hypotheses of the three theorems above are satisfiable (C03_output_allele_example's configuration) *)
Example C03_output_allele_label_at_example :
  (forall c, In c (g_chroms ex_cfg) -> 0 <= c) /\
  (forall hap, In hap (g_bps ex_cfg) -> sorted hap /\ (forall s, In s hap -> 0 <= endc s) /\
     forall c, In c (g_chroms ex_cfg) -> exists s, In s hap /\ chrom s = c /\ endc s = MAXC) /\
  (forall c, In c (g_chroms ex_cfg) ->
     asc (positions_on false c (out_vars false (g_chroms ex_cfg) (read_vars (g_region ex_cfg) (g_vars ex_cfg)))) /\
     forall p, In p (positions_on false c (out_vars false (g_chroms ex_cfg) (read_vars (g_region ex_cfg) (g_vars ex_cfg))))
               -> p <= MAXC).
Proof. exact output_allele_label_at_example. Qed.
Print Assumptions C03_output_allele_label_at_example.

Example C03_pop_is_population_array_example :
  C05_Model.population_array (pair_up 0 (g_bps ex_cfg))
     (map var_of (out_vars false (g_chroms ex_cfg) (read_vars (g_region ex_cfg) (g_vars ex_cfg)))) None
  = Ok [[(1, 1); (2, 1)]].
Proof. exact pop_is_population_array_example. Qed.
Print Assumptions C03_pop_is_population_array_example.

(* completeness of the checker with respect to the model (replacement mode): whatever the model of output_vcf
   returns on sorted, covering breakpoints passes [holds_out] - with the soundness theorems above: the boolean
   evaluated on the implementation's files demands exactly what the model delivers, never more *)
Theorem C03_holds_out_complete : forall (g : config) (out : output),
  output_vcf g = Ok out -> g_norep g = false ->
  NoDup (g_chroms g) -> (forall c, In c (g_chroms g) -> 0 <= c) ->
  (forall hap, In hap (g_bps g) -> sorted hap /\ forall s, In s hap -> 0 <= endc s) ->
  forall cur_chr, (exists i0 v0 r, read_vars (g_region g) (g_vars g) = (i0, v0) :: r /\ cur_chr = rv_chr v0) ->
  let ov := out_vars cur_chr (g_chroms g) (read_vars (g_region g) (g_vars g)) in
  (forall hap, In hap (g_bps g) -> forall c, In c (g_chroms g) -> chrom_covered hap c (cvars_of cur_chr c ov)) ->
  holds_out g out = true.
Proof. exact holds_out_complete. Qed.
Print Assumptions C03_holds_out_complete.

Example C03_holds_out_complete_example :
  g_norep ex_cfg = false /\ (exists out, output_vcf ex_cfg = Ok out /\ holds_out ex_cfg out = true).
Proof. exact holds_out_complete_example. Qed.
Print Assumptions C03_holds_out_complete_example.

(* meaning of the formula panels the correspondence check uses for wide reference panels (hundreds to 2^16+
   samples): reference haplotype 2*r+u carries (h*mult + shift) mod modulus at variant v *)
Theorem C03_fdata_lookup : forall nref fs r v u f,
  0 <= r < nref -> nthZ fs v = Some f -> (u = 0 \/ u = 1) ->
  lookup (fdata nref fs) r v u = Some (fcell (2 * r + u) f).
Proof. exact fdata_lookup. Qed.
Print Assumptions C03_fdata_lookup.
