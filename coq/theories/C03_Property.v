(* C03 - property theorems only. *)
From HV Require Import Prelude Tracts C01_Model C14_Model C03_Model C03_Check C03_Proofs.

Theorem C03_writer_emits :
  forall pgen pf sf,
  emits_pop pgen pf sf = (pf && negb pgen) /\ emits_sample false pgen pf sf = (sf && negb pgen).
Proof. exact writer_emits. Qed.
Print Assumptions C03_writer_emits.

Theorem C03_legacy_sample_dropped_refuted :
  emits_sample true false true true = false /\ emits_sample false false true true = true.
Proof. exact legacy_sample_dropped_refuted. Qed.
Print Assumptions C03_legacy_sample_dropped_refuted.
