(* C03 - checker of the end-to-end relation (simulate_gt -> write_breakpoints -> output_vcf).

   The breakpoints of this relation are the .bp file the command wrote next to the genotypes.
   For such breakpoints the property fixes the block of EVERY variant of a requested
   chromosome: "a variant exactly on a block end belongs to that block, variants past the last
   map coordinate to the last block".  [sim_key] is that rule: the first tract of the
   chromosome whose end is >= the position, else the chromosome's last tract.  (On a tree
   where every chromosome's last tract ends at the int32-max sentinel - C02 - the second case
   never arises; the rule does not assume it.)  Everything else is the vcf relation's checker:
   one reference haplotype of a sample the sample-info file lists under the block's label
   explains every allele of the block, SAMPLE names that sample, POP is the label, every cell
   holds a value (never np.empty memory), records = the reference's. *)
From HV Require Import Prelude Tracts C01_Model C14_Model C03_Model C03_Check C03_Proofs.

(* the last tract of chromosome c *)
Fixpoint last_key (l : list seg) (c : Z) (i : nat) (acc : option (nat * Z)) : option (nat * Z) :=
  match l with
  | [] => acc
  | s :: r => last_key r c (S i) (if chrom s =? c then Some (i, pop s) else acc)
  end.

Definition sim_key (hap : list seg) (c p : Z) : option (nat * Z) :=
  match block_key hap c p 0 with
  | Some k => Some k
  | None => last_key hap c 0 None
  end.

Definition items_sim (c : config) (out : output) (h : nat) : list item :=
  let hap := nth_or [] (g_bps c) h in
  let g := nth_or [] (o_gt out) h in
  map (fun jo : nat * Z =>
         let '(j, oidx) := jo in
         let key := match nthZ (g_vars c) oidx with
                    | Some v => sim_key hap (rv_chrom v) (rv_pos v)
                    | None => None end in
         mki key oidx (nth_or None g j)
             (option_map (fun m => nth_or None (nth_or [] m h) j) (o_pop out))
             (option_map (fun m => nth_or None (nth_or [] m h) j) (o_smp out)))
      (number_nat 0 (o_vars out)).

Definition hap_ok_sim (c : config) (out : output) (h : nat) : bool :=
  negb (sortedb (nth_or [] (g_bps c) h))
  || let its := items_sim c out h in forallb (item_ok c its) its.

Definition holds_sim_out (c : config) (out : output) : bool :=
  vars_ok c out && fields_ok c out && shape_ok c out
  && forallb (hap_ok_sim c out) (seq 0 (length (g_bps c))).

Definition holds_sim (k : ocase) : bool :=
  match o_obs k with
  | Err _ => true        (* nothing was written; completion on well-formed input is C20 *)
  | Ok out => holds_sim_out (o_cfg k) out
  end.

Definition model_sim := model_vcf.

Definition check_sim (k : ocase) : bool * bool := (fst (check_vcf k), holds_sim k).

(* ---- what the rule means ------------------------------------------------------ *)

Lemma block_key_spec l c p : forall i j lab, block_key l c p i = Some (j, lab) ->
  (i <= j)%nat /\ exists s, nth_error l (j - i) = Some s /\ chrom s = c /\ p <= endc s /\ pop s = lab /\
    forall m t, (m < j - i)%nat -> nth_error l m = Some t -> ~ (chrom t = c /\ p <= endc t).
Proof.
  induction l as [|s r IH]; intros i j lab H; cbn [block_key] in H; [discriminate|].
  destruct ((chrom s =? c) && (p <=? endc s)) eqn:E.
  - inversion H; subst. apply andb_true_iff in E. destruct E as [E1 E2].
    apply Z.eqb_eq in E1. apply Z.leb_le in E2. split; [lia|]. exists s. rewrite Nat.sub_diag.
    split; [reflexivity|]. repeat split; auto. intros m t Hm. lia.
  - destruct (IH _ _ _ H) as [Hle [s' [Hn [Hc [Hp [Hl Hb]]]]]]. split; [lia|]. exists s'.
    replace (j - i)%nat with (S (j - S i)) by lia. split; [exact Hn|]. repeat split; auto.
    intros m t Hm Ht. destruct m as [|m].
    + cbn in Ht. inversion Ht; subst t. intros [A B].
      rewrite (proj2 (Z.eqb_eq _ _) A), (proj2 (Z.leb_le _ _) B) in E. discriminate.
    + cbn in Ht. apply (Hb m t); [lia|exact Ht].
Qed.

Lemma block_key_none l c p : forall i, block_key l c p i = None ->
  forall s, In s l -> chrom s = c -> endc s < p.
Proof.
  induction l as [|s r IH]; intros i H x Hx Hc; [destruct Hx|]. cbn [block_key] in H.
  destruct ((chrom s =? c) && (p <=? endc s)) eqn:E; [discriminate|].
  destruct Hx as [<-|Hx].
  - rewrite (proj2 (Z.eqb_eq _ _) Hc) in E. cbn [andb] in E. apply Z.leb_gt in E. exact E.
  - eapply IH; eauto.
Qed.

Lemma last_key_spec l c : forall i acc j lab, last_key l c i acc = Some (j, lab) ->
  (acc = Some (j, lab) /\ forall s, In s l -> chrom s <> c) \/
  ((i <= j)%nat /\ exists s, nth_error l (j - i) = Some s /\ chrom s = c /\ pop s = lab /\
     forall m t, (j - i < m)%nat -> nth_error l m = Some t -> chrom t <> c).
Proof.
  induction l as [|s r IH]; intros i acc j lab H; cbn [last_key] in H.
  - left. split; [exact H|]. intros s [].
  - destruct (IH _ _ _ _ H) as [[Ha Hn]|[Hle [s' [Hnth [Hc [Hl Hafter]]]]]].
    + destruct (chrom s =? c) eqn:E.
      * inversion Ha; subst. apply Z.eqb_eq in E. right. split; [lia|]. exists s. rewrite Nat.sub_diag.
        split; [reflexivity|]. split; [exact E|]. split; [reflexivity|].
        intros m t Hm Ht. destruct m as [|m]; [lia|]. cbn in Ht. apply Hn. eapply nth_error_In; eauto.
      * left. split; [exact Ha|]. intros x [<-|Hx]; [apply Z.eqb_neq; exact E|apply Hn; exact Hx].
    + right. split; [lia|]. exists s'. replace (j - i)%nat with (S (j - S i)) by lia.
      split; [exact Hnth|]. split; [exact Hc|]. split; [exact Hl|].
      intros m t Hm Ht. destruct m as [|m]; [lia|]. cbn in Ht. apply (Hafter m t); [lia|exact Ht].
Qed.

(* the block the checker assigns to a variant: the first tract of its chromosome reaching the
   position ("a variant exactly on a block end belongs to that block"), and, when no tract of
   the chromosome reaches it, the chromosome's last tract *)
Theorem sim_key_spec hap c p j lab : sim_key hap c p = Some (j, lab) ->
  exists s, nth_error hap j = Some s /\ chrom s = c /\ pop s = lab /\
    ((p <= endc s /\ forall m t, (m < j)%nat -> nth_error hap m = Some t -> ~ (chrom t = c /\ p <= endc t))
     \/ ((forall t, In t hap -> chrom t = c -> endc t < p) /\
         forall m t, (j < m)%nat -> nth_error hap m = Some t -> chrom t <> c)).
Proof.
  unfold sim_key. destruct (block_key hap c p 0) as [k|] eqn:E.
  - intros H; inversion H; subst k. destruct (block_key_spec _ _ _ _ _ _ E) as [_ [s [Hn [Hc [Hp [Hl Hb]]]]]].
    rewrite Nat.sub_0_r in *. exists s. split; [exact Hn|]. split; [exact Hc|]. split; [exact Hl|]. left.
    split; [exact Hp|exact Hb].
  - intros H. destruct (last_key_spec _ _ _ _ _ _ H) as [[Ha _]|[_ [s [Hn [Hc [Hl Hafter]]]]]]; [discriminate|].
    rewrite Nat.sub_0_r in *. exists s. split; [exact Hn|]. split; [exact Hc|]. split; [exact Hl|]. right.
    split; [|exact Hafter]. intros t Ht Hct. eapply block_key_none; eauto.
Qed.

(* every variant on a chromosome of which the haplotype has a tract gets a block: nothing on a
   simulated chromosome is outside the property *)
Theorem sim_key_total hap c p : (exists s, In s hap /\ chrom s = c) -> sim_key hap c p <> None.
Proof.
  intros [s [Hin Hc]]. unfold sim_key. destruct (block_key hap c p 0); [discriminate|].
  assert (G : forall l i acc, (acc <> None \/ exists s, In s l /\ chrom s = c) -> last_key l c i acc <> None).
  { induction l as [|x r IH]; intros i acc [Ha|[y [Hy Hyc]]]; cbn [last_key].
    - exact Ha.
    - destruct Hy.
    - apply IH. left. destruct (chrom x =? c); [discriminate|exact Ha].
    - destruct Hy as [<-|Hy].
      + apply IH. left. rewrite (proj2 (Z.eqb_eq _ _) Hyc). discriminate.
      + apply IH. right. exists y. split; assumption. }
  apply G. right. exists s. split; assumption.
Qed.

(* soundness of the checker on one simulated haplotype (same statement as C03_hap_ok_sound,
   over the items keyed by [sim_key]) *)
Theorem hap_ok_sim_sound c out h :
  hap_ok_sim c out h = true -> sorted (nth_or [] (g_bps c) h) ->
  forall it, In it (items_sim c out h) -> forall k, i_key it = Some k ->
  (exists r u, In r (cands c (snd k)) /\ (u = 0 \/ u = 1) /\
     forall it', In it' (items_sim c out h) -> i_key it' = Some k ->
       exists a, i_gt it' = Some a /\ lookup (g_data c) r (i_oidx it') u = Some a /\
                 (forall s, i_smp it' = Some s -> s = Some r))
  /\ (forall p, i_pop it = Some p -> p = Some (snd k)).
Proof.
  unfold hap_ok_sim. intros H Hs it Hit k Hk.
  apply sortedb_spec in Hs. rewrite Hs in H. cbn [negb orb] in H.
  rewrite forallb_forall in H. specialize (H it Hit). unfold item_ok in H. rewrite Hk in H.
  apply andb_true_iff in H. destruct H as [H1 H2]. split.
  - apply existsb_exists in H1. destruct H1 as [r [Hr H1]].
    apply existsb_exists in H1. destruct H1 as [u [Hu H1]].
    exists r, u. split; [exact Hr|]. split.
    { destruct Hu as [<-|[<-|[]]]; auto. }
    intros it' Hit' Hk'. rewrite forallb_forall in H1. specialize (H1 it' Hit').
    unfold item_from in H1. rewrite Hk', key_eqb_refl in H1.
    apply andb_true_iff in H1. destruct H1 as [H1 H5]. apply andb_true_iff in H1. destruct H1 as [H3 H4].
    destruct (i_gt it') as [a|]; [|discriminate]. exists a. split; [reflexivity|].
    apply (opt_eqb_spec Z.eqb Zeqb_spec) in H3. split; [symmetry; exact H3|].
    intros s Hsm. rewrite Hsm in H5. apply (opt_eqb_spec Z.eqb Zeqb_spec) in H5. exact H5.
  - intros p Hp. rewrite Hp in H2. apply (opt_eqb_spec Z.eqb Zeqb_spec) in H2. exact H2.
Qed.

Theorem holds_sim_out_sound c out :
  holds_sim_out c out = true ->
  (g_pop_field c = true -> g_pgen c = false -> o_pop out <> None) /\
  (g_sample_field c = true -> g_pgen c = false -> o_smp out <> None) /\
  length (o_gt out) = length (g_bps c) /\
  (forall h, (h < length (g_bps c))%nat -> hap_ok_sim c out h = true) /\
  (uniform_prefix (g_vars c) = true ->
   o_vars out = map fst (filter (fun iv : Z * rvar => existsb (Z.eqb (rv_chrom (snd iv))) (g_chroms c))
                                (read_vars (g_region c) (g_vars c)))).
Proof.
  unfold holds_sim_out. intros H. apply andb_true_iff in H. destruct H as [H H4].
  apply andb_true_iff in H. destruct H as [H H3]. apply andb_true_iff in H. destruct H as [H1 H2].
  unfold fields_ok in H2. apply andb_true_iff in H2. destruct H2 as [H2a H2b].
  unfold shape_ok in H3. apply andb_true_iff in H3. destruct H3 as [H3 _].
  split; [|split; [|split; [|split]]].
  - intros A B. rewrite A, B in H2a. cbn in H2a. destruct (o_pop out); [discriminate|discriminate].
  - intros A B. rewrite A, B in H2b. cbn in H2b. destruct (o_smp out); [discriminate|discriminate].
  - apply Nat.eqb_eq. exact H3.
  - intros h Hh. rewrite forallb_forall in H4. apply H4. apply in_seq. lia.
  - intros U. unfold vars_ok in H1. rewrite U in H1. cbn [negb orb] in H1.
    apply (list_eqb_spec Z.eqb Zeqb_spec) in H1. exact H1.
Qed.
