(* C04 - boolean checkers evaluated by the correspondence run on what the
   implementation returned.  [agree] compares with the model; [holds] is the
   property itself, written directly over the full input (column look-ups by
   variant ID, allele positions, ancestry labels) and not through the model's
   subsetting pipeline.  Soundness of the [holds] checkers w.r.t. the
   declarative statements is proved in C04_Proofs.v. *)
From HV Require Import Prelude Tracts C04_Model.

Definition bb_eqb (x y : bool * bool) : bool := Bool.eqb (fst x) (fst y) && Bool.eqb (snd x) (snd y).
Definition col_eqb := list_eqb bb_eqb.
Definition mat_eqb := list_eqb col_eqb.
Definition rec_eqb (x y : Z * Z * Z) : bool :=
  let '(a, b, c) := x in let '(a', b', c') := y in (a =? a') && (b =? b') && (c =? c').
Definition recs_eqb := list_eqb rec_eqb.
Definition setout_eqb (x y : list (Z * Z * Z) * list (list (bool * bool))) : bool :=
  recs_eqb (fst x) (fst y) && mat_eqb (snd x) (snd y).

(* ---- the property, cell by cell ----------------------------------------- *)

(* column and allele index of one haplotype allele; None: variant or allele absent *)
Definition var_col (G : geno) (v : hvar) : option (nat * Z) :=
  match find_var (hv_id v) (g_vars G) 0 with
  | Some (j, gv) =>
      match index_of (hv_allele v) (gv_alleles gv) with
      | Some i => Some (j, i)
      | None => None
      end
  | None => None
  end.

Definition var_present (G : geno) (v : hvar) : bool :=
  match find_var (hv_id v) (g_vars G) 0 with Some _ => true | None => false end.

(* the strand carries the listed allele at v *)
Definition vcheck (G : geno) (d : srow) (v : hvar) : bool :=
  match var_col G v with Some (j, i) => i =? cell d j | None => false end.

(* the strand's ancestry at v is the label l *)
Definition acheck (G : geno) (a : srow) (l : Z) (v : hvar) : bool :=
  match find_var (hv_id v) (g_vars G) 0, label_code (g_labels G) l with
  | Some (j, _), Some c => cell a j =? c
  | _, _ => false
  end.

Definition spec_strand (G : geno) (anc : bool) (h : hap) (d a : srow) : bool :=
  forallb (fun v => vcheck G d v && (if anc then acheck G a (h_anc h) v else true)) (h_vars h).

Definition hap_okb (G : geno) (h : hap) : bool :=
  forallb (fun v => match var_col G v with Some _ => true | None => false end) (h_vars h).
Definition hap_presentb (G : geno) (h : hap) : bool := forallb (var_present G) (h_vars h).

(* data rows paired with ancestry rows (dummy ancestry when not used) *)
Definition rows (G : geno) (anc : bool) : list (sample_rows * sample_rows) :=
  if anc then combine (g_data G) (g_anc G)
  else map (fun d => (d, ([], []))) (g_data G).

Definition spec_col (G : geno) (anc : bool) (h : hap) : list (bool * bool) :=
  map (fun da : sample_rows * sample_rows =>
         (spec_strand G anc h (fst (fst da)) (fst (snd da)),
          spec_strand G anc h (snd (fst da)) (snd (snd da))))
      (rows G anc).

Definition spec_mat (G : geno) (anc : bool) (H : list hap) : list (list (bool * bool)) :=
  map (fun da : sample_rows * sample_rows =>
         map (fun h => (spec_strand G anc h (fst (fst da)) (fst (snd da)),
                        spec_strand G anc h (snd (fst da)) (snd (snd da)))) H)
      (rows G anc).

(* ---- API relation -------------------------------------------------------- *)

Record acase := mka {
  a_G : geno;
  a_H : list hap;                                   (* H and R entries, in order *)
  a_anc : bool;
  a_single : list (res (list (bool * bool)));       (* Haplotype[Ancestry].transform per H entry *)
  a_set : res (list (Z * Z * Z) * list (list (bool * bool)))  (* Haplotypes[Ancestry].transform *)
}.

Definition model_single (c : acase) : list (res (list (bool * bool))) :=
  map (fun h => if a_anc c then hap_transform_anc h (a_G c) else hap_transform h (a_G c))
      (real_haps (a_H c)).
Definition model_set (c : acase) :=
  if a_anc c then haps_transform_anc (a_H c) (a_G c) else haps_transform (a_H c) (a_G c).
Definition model_api (c : acase) := (model_single c, model_set c).

(* single: an answer must be the cell-by-cell specification and is only allowed
   when every variant is present; an error is only allowed when a variant or an
   allele is absent (an absent ancestry label is never a reason to fail) *)
Definition holds_single1 (G : geno) (anc : bool) (h : hap) (o : res (list (bool * bool))) : bool :=
  match o with
  | Ok col => hap_presentb G h && col_eqb col (spec_col G anc h)
  | Err _ => negb (hap_okb G h)
  end.

Definition holds_set (G : geno) (anc : bool) (H : list hap)
    (o : res (list (Z * Z * Z) * list (list (bool * bool)))) : bool :=
  match o with
  | Ok out =>
      (* haplotypes with absent variants may only be omitted, never answered *)
      let Hp := filter (hap_presentb G) H in
      setout_eqb out (recs_of Hp, spec_mat G anc Hp)
  | Err _ => negb (forallb (hap_okb G) H)
  end.

Definition holds_api (c : acase) : bool :=
  let G := a_G c in
  let H := real_haps (a_H c) in
  if has_dup (map gv_id (g_vars G)) then true else      (* outside the property's domain *)
  (length (a_single c) =? length H)%nat
  && forallb (fun ho : hap * res (list (bool * bool)) => holds_single1 G (a_anc c) (fst ho) (snd ho))
             (combine H (a_single c))
  && holds_set G (a_anc c) H (a_set c).

Definition check_api (c : acase) : bool * bool :=
  (list_eqb (res_eqb col_eqb) (model_single c) (a_single c)
   && res_eqb setout_eqb (model_set c) (a_set c),
   holds_api c).

(* ---- file / CLI relation -------------------------------------------------- *)

Definition tout := (list (Z * Z * Z) * list Z * list (list (bool * bool)))%type.
Definition tout_eqb (x y : tout) : bool :=
  let '(r, s, m) := x in let '(r', s', m') := y in
  recs_eqb r r' && list_eqb Z.eqb s s' && mat_eqb m m'.

Record fcase := mkf { f_in : tinput; f_obs : res tout; f_warned : bool (* a warning about absent variants was logged *) }.

Definition model_file (c : fcase) : res tout := transform_haps (f_in c).

(* the genotype record a haplotype allele refers to: the record of the file with
   that ID, provided it lies in the requested region *)
Definition in_region_var (rg : option region) (v : gvar) : bool :=
  match rg with
  | None => true
  | Some r => (gv_chrom v =? r_chrom r) && opt_le (r_start r) (gv_pos v) && opt_ge (r_end r) (gv_pos v)
  end.

Definition avail (t : tinput) (v : hvar) : option (nat * gvar) :=
  match find_var (hv_id v) (t_vars t) 0 with
  | Some (j, gv) => if in_region_var (t_region t) gv then Some (j, gv) else None
  | None => None
  end.

Definition uses_anc (t : tinput) : bool := match t_anc t with NoAnc => false | _ => true end.

Definition f_sample_sel (t : tinput) (s : Z) : bool :=
  match t_samp t with None => true | Some l => memZ s l end.

(* POP label rows of the file's samples (dummies unless the source is the POP field) *)
Definition pop_rows (t : tinput) : list sample_rows :=
  match t_anc t with
  | PopField m => m
  | _ => map (fun _ => ([], [])) (t_samples t)
  end.

(* the requested samples of the file, in file order, each with its data rows and POP rows *)
Definition f_rows (t : tinput) : list (Z * (sample_rows * sample_rows)) :=
  filter (fun e : Z * (sample_rows * sample_rows) => f_sample_sel t (fst e))
         (combine (t_samples t) (combine (t_data t) (pop_rows t))).

(* ancestry label of (sample named s with POP row pr, strand, record gv at column j):
   the POP field of that cell, or the .bp tract of the sample *by name* covering gv *)
Definition anc_label (t : tinput) (s : Z) (pr : srow) (strand : bool) (j : nat) (gv : gvar) : option Z :=
  match t_anc t with
  | NoAnc => None
  | PopField _ => nth_error pr j
  | BpFile bp =>
      match find_bp s bp with
      | Some tr => label_at (if strand then snd tr else fst tr) (gv_chrom gv) (gv_pos gv)
      | None => None
      end
  end.

(* the cell the property prescribes for (sample s, strand with data row d and POP row pr, haplotype h) *)
Definition fcell (t : tinput) (s : Z) (d pr : srow) (strand : bool) (h : hap) : bool :=
  forallb (fun v =>
             match avail t v with
             | Some (j, gv) =>
                 match index_of (hv_allele v) (gv_alleles gv) with
                 | Some i =>
                     (cell d j =? i)
                     && (if uses_anc t
                         then match anc_label t s pr strand j gv with
                              | Some l => l =? h_anc h
                              | None => false
                              end
                         else true)
                 | None => false
                 end
             | None => false
             end) (h_vars h).

Definition f_transformable (t : tinput) (h : hap) : bool :=
  forallb (fun v => match avail t v with Some _ => true | None => false end) (h_vars h).

Definition f_selected (t : tinput) : list hap :=
  filter (hap_selected (t_region t) (t_ids t)) (t_haps t).

Definition f_expected_haps (t : tinput) : list hap :=
  filter (f_transformable t) (real_haps (f_selected t)).

Definition f_expected (t : tinput) : tout :=
  let Hs := f_expected_haps t in
  let rs := f_rows t in
  (recs_of Hs,
   map fst rs,
   map (fun e : Z * (sample_rows * sample_rows) =>
          map (fun h => (fcell t (fst e) (fst (fst (snd e))) (fst (snd (snd e))) false h,
                         fcell t (fst e) (snd (fst (snd e))) (snd (snd (snd e))) true h)) Hs) rs).

(* inputs on which the run must succeed: a haplotype was selected, the records
   have distinct IDs, every listed allele of a transformable haplotype exists, and
   (with ancestry) every requested sample has an ancestry at every record that is used *)
Definition f_wellformed (t : tinput) : bool :=
  let Hs := f_expected_haps t in
  match f_selected t with [] => false | _ => true end
  && negb (has_dup (map gv_id (t_vars t)))
  && forallb (fun h => forallb (fun v =>
        match avail t v with
        | Some (j, gv) =>
            match index_of (hv_allele v) (gv_alleles gv) with Some _ => true | None => false end
        | None => false end) (h_vars h)) Hs
  && match t_anc t with
     | BpFile bp => forallb (fun e : Z * (sample_rows * sample_rows) =>
                               match find_bp (fst e) bp with Some _ => true | None => false end)
                            (f_rows t)
     | _ => true
     end
  && (negb (uses_anc t)
      || forallb (fun e : Z * (sample_rows * sample_rows) =>
           forallb (fun h => forallb (fun v =>
                match avail t v with
                | Some (j, gv) =>
                    match anc_label t (fst e) (fst (snd (snd e))) false j gv,
                          anc_label t (fst e) (snd (snd (snd e))) true j gv with
                    | Some _, Some _ => true | _, _ => false end
                | None => true end) (h_vars h)) (real_haps (f_selected t)))
           (f_rows t)).

(* some selected haplotype is omitted from the output *)
Definition f_omitted (t : tinput) : bool :=
  negb (length (f_expected_haps t) =? length (real_haps (f_selected t)))%nat.

Definition holds_file (c : fcase) : bool :=
  match f_obs c with
  | Ok out => tout_eqb out (f_expected (f_in c))
              && (negb (f_omitted (f_in c)) || f_warned c)       (* omitted => reported *)
  | Err k => if k =? E_Unobserved then true else negb (f_wellformed (f_in c))
  end.

Definition check_file (c : fcase) : bool * bool :=
  (res_eqb tout_eqb (model_file c) (f_obs c)
   && match f_obs c with Ok _ => Bool.eqb (warns_missing (f_in c)) (f_warned c) | Err _ => true end,
   holds_file c).
