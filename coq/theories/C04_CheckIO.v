(* C04 - the file / CLI relation with the files as they lie on disk: the case of C04_CheckOpt plus
     - the path of the genotypes file (code points, relative to the scratch directory of the run), whether
       --ancestry was given, the .bp files present (path, tag; tag 0 = the .bp named after the genotypes file, other
       tags = decoys: another data set's .bp under a name that a wrong derivation would pick),
     - the .bp paths the run probed (Path.exists) or opened (Breakpoints.read), as recorded from the harness,
     - the H / R / V lines of the plain .hap file in FILE order ([] for an indexed file).

   [agree] = C04_CheckOpt's agree
             AND every .bp path the run touched is C04_ModelIO.bp_path_of (genotypes path), character by character,
             AND the ancestry source of the logical input (oc_in) is the one C04_ModelIO.resolve_source picks among the
                 files present (the harness names the right .bp "stem.bp"; the model derives it like the code does),
             AND C04_ModelIO.read_lines of the lines as written is the haplotype list of the logical input.
   [holds] = C04_CheckOpt.holds_fileo, unchanged: the property is demanded against f_expected of the logical input,
             whose ancestry is that of the .bp named after the genotypes file (or the POP fields when there is none). *)
From Coq Require Import QArith PrimFloat.
From HV Require Import Prelude Tracts C04_Model C04_Check C04_ModelOpt C04_CheckOpt C04_ModelIO.
Open Scope Z_scope.

Record ncase := mkn {
  n_o : ocase;
  n_gt : list Z;
  n_ancestry : bool;
  n_files : list (list Z * Z);
  n_seen : list (list Z);
  n_lines : list hline
}.

Definition src_agrees (s : asrc) (a : anc_source) : bool :=
  match s, a with
  | SNone, NoAnc => true
  | SPop, PopField _ => true
  | SBp t, BpFile _ => t =? 0
  | _, _ => false
  end.

(* float-free: the components of a case that the new clauses read *)
Definition paths_agree (gt : list Z) (seen : list (list Z)) : bool :=
  forallb (fun p => res_eqb str_eqb (bp_path_of gt) (Ok p)) seen.

Definition lines_agree (lines : list hline) (t : tinput) : bool :=
  match lines with
  | [] => true
  | l => res_eqb (list_eqb hap_eqb) (read_lines l) (Ok (t_haps t))
  end.

Definition io_agrees_of (gt : list Z) (ancestry : bool) (files : list (list Z * Z)) (seen : list (list Z))
                        (lines : list hline) (t : tinput) : bool :=
  paths_agree gt seen
  && src_agrees (resolve_source ancestry gt files) (t_anc t)
  && lines_agree lines t.

Definition io_agrees (c : ncase) : bool :=
  io_agrees_of (n_gt c) (n_ancestry c) (n_files c) (n_seen c) (n_lines c) (oc_in (oc_core (n_o c))).

Definition model_filen (c : ncase) : res tout * res (list Z) := (model_fileo (n_o c), bp_path_of (n_gt c)).

Definition check_filen (c : ncase) : bool * bool :=
  let '(a, h) := check_fileo (n_o c) in (a && io_agrees c, h).
