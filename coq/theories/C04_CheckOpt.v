(* C04 - the file / CLI relation with everything `haptools transform` takes: the case carries, besides the
   logical input of C04_Check.fcase, the calls that are missing / written unphased, --discard-missing, --maf,
   --chunk-size, and what the other runs on the same data answered.

   [agree]: the observed result (or exception kind) and the warning flag are those of C04_ModelOpt.transform_haps_o
            with the IEEE test C13_Check.rareF for --maf, AND the genotype object and haplotype collection that
            transform_haps hands to Haplotypes[Ancestry].transform (recorded by wrapping that method) are the
            model's (C04_ModelOpt.model_geno): what Genotypes.read / check_missing / the .bp loading really
            produced, not only the end result.
   [holds]: the property, on inputs it speaks about ([o_domain]: phased calls; complete calls unless
            --discard-missing; at most 256 ancestry labels).  It is written over C04_Check.f_expected of the WHOLE
            input (every requested sample, every transformable haplotype) and demands of an answer
              - its samples are requested samples in file order; all of them without --discard-missing; with it,
                at least every sample none of whose calls is missing;
              - its records are expected records in .hap order; all of them without --maf; with it, at least those
                whose MAF among the samples of the output is clearly (1e-9) at or above the threshold and none
                whose MAF is clearly below it (the comparison at the threshold itself is left to the code's
                floating-point arithmetic);
              - every cell is f_expected's cell of that sample and haplotype;
              - an omitted haplotype was reported;
            (an answer beyond the label limit is held to the same demands: a wrapped code would be a guess)
            and of a failure that the input is outside the domain or not well-formed (C04_Check.f_wellformed on the
            samples that survive).  Which samples beyond the complete ones are discarded is not the property's
            business (agree pins it to the code's rule: a missing call at a loaded record). *)
From Coq Require Import QArith PrimFloat.
From HV Require Import Prelude Tracts C04_Model C04_Check C04_CheckSeq C04_ProofsFile C04_ModelOpt.
From HV Require C13_Check.
Open Scope Z_scope.

(* the float-free part of a case (what the property clauses read) *)
Record ocore := mkoc {
  oc_in : tinput;
  oc_e : textra;
  oc_obs : res tout;
  oc_warned : bool
}.

(* what the recorder saw at the call hp.transform(gt, hp_gt) inside transform_haps: gt.samples, gt.variants
   (id, chrom, pos), gt.data, gt.ancestry decoded through gt.ancestry_labels ([] without --ancestry), the keys of hp.data *)
Record ogeno := mkog {
  og_samples : list Z;
  og_vars : list (Z * Z * Z);
  og_data : list sample_rows;
  og_anc : list sample_rows;
  og_haps : list Z
}.

Record ocase := mko {
  oc_core : ocore;
  oc_thr : float;                  (* the --maf threshold (unused unless e_maf) *)
  oc_peers : list (res tout);
  oc_geno : option ogeno           (* None: hp.transform was not reached *)
}.

Definition rows_eqb (a b : list sample_rows) : bool :=
  list_eqb (fun x y : sample_rows => list_eqb Z.eqb (fst x) (fst y) && list_eqb Z.eqb (snd x) (snd y)) a b.

Definition geno_agrees (m : option (geno * list hap)) (o : option ogeno) : bool :=
  match m, o with
  | None, None => true
  | Some (G, H), Some g =>
      list_eqb Z.eqb (g_samples G) (og_samples g)
      && recs_eqb (map (fun v => (gv_id v, gv_chrom v, gv_pos v)) (g_vars G)) (og_vars g)
      && rows_eqb (g_data G) (og_data g)
      && rows_eqb (g_anc G) (og_anc g)
      && list_eqb Z.eqb (map h_id H) (og_haps g)
  | _, _ => false
  end.

Definition model_fileo (c : ocase) : res tout :=
  transform_haps_o (C13_Check.rareF (oc_thr c)) (oc_e (oc_core c)) (oc_in (oc_core c)).

(* ---- the inputs the property speaks about ------------------------------------------------------------- *)

Definition all_kept (t : tinput) : list bool := map (fun _ => true) (t_data t).

(* phased calls; complete calls unless --discard-missing *)
Definition o_phased (e : textra) (t : tinput) : bool :=
  (e_discard e || negb (any_missing t))
  && negb (any_unph (t_vm t) (t_sm t) (if e_discard e then dmask t else all_kept t) (t_data t) (e_unph e)).

(* ... and the labels fit the np.uint8 codes: there the run must answer.  (An answer given beyond the limit is
   still held to the specification - a code that wrapped around would be a guess.) *)
Definition o_domain (e : textra) (t : tinput) : bool :=
  o_phased e t
  && negb (pop_overflow t)
  && negb (bp_overflow (surviving e t)).

(* no call of the sample is missing, in any record of the file *)
Definition row_complete (d : sample_rows) : bool :=
  forallb (fun x => x <? 254) (fst d) && forallb (fun x => x <? 254) (snd d).

Definition mem_rec (r : Z * Z * Z) (l : list (Z * Z * Z)) : bool := existsb (rec_eqb r) l.

Definition all_true (l : list bool) : bool := forallb (fun b => b) l.

Section Holds.
  (* [must_keep k n] / [must_drop k n]: a haplotype with k ones among n samples is clearly not rarer / clearly
     rarer than the threshold *)
  Variable must_keep must_drop : Z -> Z -> bool.

  Definition maf_ok (Mk : list (list (bool * bool))) (bi : bool * nat) : bool :=
    let k := col_count Mk (snd bi) in
    let n := lenZ Mk in
    (fst bi || negb (must_keep k n)) && (negb (fst bi) || negb (must_drop k n)).

  Definition holds_out (c : ocore) (out : tout) : bool :=
    let t := oc_in c in
    let e := oc_e c in
    let '(recs, ss, M) := out in
    let '(xr, xs, xM) := f_expected t in
    let sm := map (fun s => memZ s ss) xs in
    let hm := map (fun r => mem_rec r recs) xr in
    let Mk := keep sm xM in                 (* the expected cells of the samples that are output *)
    list_eqb Z.eqb ss (keep sm xs)
    && recs_eqb recs (keep hm xr)
    && mat_eqb M (map (keep hm) Mk)
    && (e_discard e || all_true sm)
    && forallb (fun bc : bool * bool => fst bc || negb (snd bc))
               (combine sm (map (fun r : Z * (sample_rows * sample_rows) => row_complete (fst (snd r))) (f_rows t)))
    && (e_maf e || all_true hm)
    && (negb (e_maf e) || forallb (maf_ok Mk) (combine hm (seq 0 (length xr))))
    && (negb (f_omitted t) || oc_warned c).

  Definition holds_o (c : ocore) : bool :=
    match oc_obs c with
    | Ok out => negb (o_phased (oc_e c) (oc_in c)) || holds_out c out
    | Err k => (k =? E_Unobserved)
               || negb (o_domain (oc_e c) (oc_in c) && f_wellformed (surviving (oc_e c) (oc_in c)))
    end.
End Holds.

(* ---- the margins around the threshold, in exact arithmetic ------------------------------------------- *)

Definition mafQ (k n : Z) : Q := Qmake (Z.min k (2 * n - k)) (Z.to_pos (2 * n)).
Definition epsQ : Q := Qmake 1 1000000000.

(* q: the exact value of the threshold (None: nan / inf) *)
Definition keepQ (q : option Q) (k n : Z) : bool :=
  match q with
  | Some q => (0 <? n) && Qle_bool (q + epsQ) (mafQ k n)
  | None => false
  end.

Definition dropQ (q : option Q) (k n : Z) : bool :=
  match q with
  | Some q => (0 <? n) && Qle_bool (mafQ k n + epsQ) q
  | None => false
  end.

(* the whole checker, float-free: q = the exact value of the --maf threshold *)
Definition holds_fileq (q : option Q) (k : ocore) (peers : list (res tout)) : bool :=
  holds_o (keepQ q) (dropQ q) k
  (* equal answers of the runs on the same data: demanded where the property speaks (an unphased call is stored
     in sorted order by a PGEN file, so answers to unphased data may legitimately depend on the format) *)
  && (negb (o_phased (oc_e k) (oc_in k)) || peers_agree (oc_obs k) peers).

Definition holds_fileo (c : ocase) : bool :=
  holds_fileq (C13_Check.float_to_Q (oc_thr c)) (oc_core c) (oc_peers c).

Definition check_fileo (c : ocase) : bool * bool :=
  let k := oc_core c in
  (res_eqb tout_eqb (model_fileo c) (oc_obs k)
   && match oc_obs k with Ok _ => Bool.eqb (warns_missing (oc_in k)) (oc_warned k) | Err _ => true end
   && geno_agrees (model_geno (oc_e k) (oc_in k)) (oc_geno c),
   holds_fileo c).
