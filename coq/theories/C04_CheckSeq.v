(* C04 - (1) operation sequences on ONE Haplotypes object and ONE genotypes object
   (haptools/data/haplotypes.py Haplotypes.sort / Haplotype.sort / Haplotypes.subset /
   Haplotypes.read, with the single-haplotype and the whole-set transform called after
   every operation), and (2) the group of transform_haps runs made on the same logical
   data (POP-field source, .bp source, VCF / PGEN input and output).  No proofs here.

   The harness interns strings in sorted order, so that the integer order of the
   interned chromosome names, haplotype IDs and variant IDs is Python's string order
   (Haplotype.__lt__ / Repeat.__lt__ / Variant.__lt__ compare them with <). *)
From HV Require Import Prelude Tracts C04_Model C04_Check.

(* ---- a haplotype whose V lines carry their positions --------------------------------- *)

Record pvar := mkpv { pv_start : Z; pv_end : Z; pv_v : hvar }.

(* ph_h: the H / R line (its h_vars field is not used); ph_vs: its V lines, in their current order *)
Record phap := mkph { ph_h : hap; ph_vs : list pvar }.

Definition hap_of (p : phap) : hap :=
  let h := ph_h p in
  mkh (h_id h) (h_chrom h) (h_start h) (h_end h) (h_anc h) (map pv_v (ph_vs p)) (h_rep h).

(* ---- sorted() with the classes' __lt__ ------------------------------------------------- *)

(* Variant.__lt__: start, then end, then ID *)
Definition pv_lt (a b : pvar) : bool :=
  if pv_start a =? pv_start b then
    if pv_end a =? pv_end b then hv_id (pv_v a) <? hv_id (pv_v b)
    else pv_end a <? pv_end b
  else pv_start a <? pv_start b.

(* Haplotype.__lt__ / Repeat.__lt__: chrom, start, end, ID *)
Definition ph_lt (a b : phap) : bool :=
  let x := ph_h a in let y := ph_h b in
  if h_chrom x =? h_chrom y then
    if h_start x =? h_start y then
      if h_end x =? h_end y then h_id x <? h_id y
      else h_end x <? h_end y
    else h_start x <? h_start y
  else h_chrom x <? h_chrom y.

(* stable insertion: x (which preceded every element of l) stays in front of its equals *)
Fixpoint insert_by {A} (lt : A -> A -> bool) (x : A) (l : list A) : list A :=
  match l with
  | [] => [x]
  | y :: r => if lt y x then y :: insert_by lt x r else x :: l
  end.

Fixpoint sort_by {A} (lt : A -> A -> bool) (l : list A) : list A :=
  match l with
  | [] => []
  | x :: r => insert_by lt x (sort_by lt r)
  end.

(* Haplotype.sort(): self.variants = tuple(sorted(self.variants)); a Repeat has no variants *)
Definition sort_vars (p : phap) : phap := mkph (ph_h p) (sort_by pv_lt (ph_vs p)).

(* ---- the operations ------------------------------------------------------------------- *)

Inductive op :=
| ONop                        (* nothing: just transform (again) *)
| OSort                       (* Haplotypes.sort() *)
| OHapSort (id : Z)           (* Haplotypes.data[id].sort() *)
| OSubset (ids : list Z)      (* Haplotypes.subset(ids), in place or as a new object that is used from then on *)
| OReread.                    (* Haplotypes.read() again (the object was read from a file holding q_H) *)

Fixpoint find_ph (id : Z) (S : list phap) : option phap :=
  match S with
  | [] => None
  | p :: r => if h_id (ph_h p) =? id then Some p else find_ph id r
  end.

Definition apply_op (file : list phap) (S : list phap) (o : op) : list phap :=
  match o with
  | ONop => S
  | OSort => map (fun p => if h_rep (ph_h p) then p else sort_vars p) (sort_by ph_lt S)
  | OHapSort id => map (fun p => if (h_id (ph_h p) =? id) && negb (h_rep (ph_h p)) then sort_vars p else p) S
  | OSubset ids =>
      flat_map (fun id => match find_ph id S with Some p => [p] | None => [] end) (dedupZ [] ids)
  | OReread => file
  end.

Fixpoint run_ops (file : list phap) (S : list phap) (ops : list op) : list phap :=
  match ops with
  | [] => S
  | o :: r => run_ops file (apply_op file S o) r
  end.

(* ---- the case --------------------------------------------------------------------------- *)

Definition colres := res (list (bool * bool)).
Definition setres := res (list (Z * Z * Z) * list (list (bool * bool))).

(* what was observed after an operation: the keys of Haplotypes.data in order, the single
   transform of every Haplotype entry (in that order), the whole-set transform *)
Record sobs := mkso { so_order : list Z; so_single : list colres; so_set : setres }.

Record qcase := mkq {
  q_G : geno;
  q_H : list phap;               (* the collection as built / as it stands in the file *)
  q_anc : bool;
  q_steps : list (op * sobs)      (* first entry: ONop = the transforms on the fresh objects *)
}.

Definition acase_of (c : qcase) (H : list hap) (o : sobs) : acase :=
  mka (q_G c) H (q_anc c) (so_single o) (so_set o).

Definition agree_step (c : qcase) (S : list phap) (o : sobs) : bool :=
  let H := map hap_of S in
  list_eqb Z.eqb (map h_id H) (so_order o) && fst (check_api (acase_of c H o)).

(* the property after a step, phrased with the OBSERVED order of the collection: every entry is
   one of the original haplotypes, none twice, and the answers are the cell-by-cell
   specification for these haplotypes in this order *)
Definition obs_haps (c : qcase) (o : sobs) : option (list hap) :=
  all_some (map (fun id => option_map hap_of (find_ph id (q_H c))) (so_order o)).

Definition holds_step (c : qcase) (o : sobs) : bool :=
  match obs_haps c o with
  | Some H => negb (has_dup (so_order o)) && holds_api (acase_of c H o)
  | None => false
  end.

Fixpoint check_steps (c : qcase) (S : list phap) (steps : list (op * sobs)) : bool * bool :=
  match steps with
  | [] => (true, true)
  | (o, ob) :: r =>
      let S' := apply_op (q_H c) S o in
      let '(a, h) := check_steps c S' r in
      (agree_step c S' ob && a, holds_step c ob && h)
  end.

Definition check_seq (c : qcase) : bool * bool := check_steps c (q_H c) (q_steps c).

Fixpoint model_steps (c : qcase) (S : list phap) (steps : list (op * sobs))
  : list (list Z * (list colres * setres)) :=
  match steps with
  | [] => []
  | (o, ob) :: r =>
      let S' := apply_op (q_H c) S o in
      (map (fun p => h_id (ph_h p)) S', model_api (acase_of c (map hap_of S') ob)) :: model_steps c S' r
  end.

Definition model_seq (c : qcase) := model_steps c (q_H c) (q_steps c).

(* ---- transform_haps: the runs made on the same logical data ------------------------------- *)

(* x_peers: what the other runs on the same data returned (the other ancestry source, the other
   input / output format).  "The answer is the same ... whether ancestry comes from POP fields or
   from the accompanying breakpoints file": two answers must be equal. *)
Record xcase := mkx { x_case : fcase; x_peers : list (res tout) }.

Definition peers_agree (o : res tout) (peers : list (res tout)) : bool :=
  match o with
  | Ok out => forallb (fun p => match p with Ok out' => tout_eqb out out' | Err _ => true end) peers
  | Err _ => true
  end.

Definition holds_filex (c : xcase) : bool :=
  holds_file (x_case c) && peers_agree (f_obs (x_case c)) (x_peers c).

Definition check_filex (c : xcase) : bool * bool :=
  (fst (check_file (x_case c)), holds_filex c).

Definition model_filex (c : xcase) : res tout := model_file (x_case c).
