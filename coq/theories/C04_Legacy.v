(* C04 - the pinned tree refuted: concrete witnesses on which the legacy variants
   of the model (which agree with the unfixed code on these inputs; the same
   inputs are in corpus/C04) violate the property, closed by vm_compute; and an
   instance showing that the hypotheses of the theorems are satisfiable. *)
From HV Require Import Prelude Tracts C04_Model C04_Check C04_Proofs C04_ProofsSet C04_ProofsFile C04_ProofsSpec.

Definition MAXI : Z := 2147483647.

(* defect 4: a haplotype whose ancestry label (9) is not in the data *)
Definition G_overflow : geno := mkg [0] [mkgv 1 1 10 [2; 3]] [([1], [0])] [([0], [0])] [(5, 0)].
Definition H_overflow : list hap := [mkh 7 1 10 11 9 [mkhv 1 3] false].

Lemma legacy_absent_label_overflow_refuted_lemma :
  forallb (hap_okb G_overflow) (real_haps H_overflow) = true           (* nothing is absent but the label *)
  /\ haps_transform_anc_legacy H_overflow G_overflow = Err E_Overflow  (* pinned: fails *)
  /\ haps_transform_anc H_overflow G_overflow = Ok ([(7, 1, 10)], [[(false, false)]]).  (* fixed: no match, no failure *)
Proof. vm_compute. auto. Qed.

(* defect 6: the haplotype lists the second ALT (allele 4 = index 2); strand 1 carries it, strand 2 carries ALT 1 *)
Definition G_multi : geno := mkg [0] [mkgv 1 1 10 [2; 3; 4]] [([2], [1])] [([0], [0])] [(5, 0)].
Definition h_multi : hap := mkh 7 1 10 11 5 [mkhv 1 4] false.

Lemma legacy_ancestry_multiallelic_refuted_lemma :
  spec_col G_multi true h_multi = [(true, false)]
  /\ hap_transform_anc_legacy h_multi G_multi = Ok [(false, true)]      (* pinned: the wrong strand *)
  /\ hap_transform_anc h_multi G_multi = Ok [(true, false)]
  /\ haps_transform_anc_gen true false [h_multi] G_multi = Ok ([(7, 1, 10)], [[(false, true)]])
  /\ haps_transform_anc [h_multi] G_multi = Ok ([(7, 1, 10)], [[(true, false)]]).
Proof. vm_compute. auto 6. Qed.

(* defect 5: the .bp file lists sample 2 before sample 1; sample 1 is all label 8, sample 2 all label 9 *)
Definition t_bporder : tinput :=
  mkt [1; 2] [mkgv 3 1 10 [4; 5]] [([1], [1]); ([1], [1])]
      [mkh 7 1 10 11 8 [mkhv 3 5] false] None None None
      (BpFile [(2, ([mkseg 9 1 MAXI 0], [mkseg 9 1 MAXI 0]));
               (1, ([mkseg 8 1 MAXI 0], [mkseg 8 1 MAXI 0]))]).

Lemma legacy_bp_sample_order_refuted_lemma :
  transform_haps_gen false false true false t_bporder
    = Ok ([(7, 1, 10)], [1; 2], [[(false, false)]; [(true, true)]])     (* pinned: ancestries swapped *)
  /\ transform_haps t_bporder = Ok ([(7, 1, 10)], [1; 2], [[(true, true)]; [(false, false)]])
  /\ holds_file (mkf t_bporder (Ok ([(7, 1, 10)], [1; 2], [[(false, false)]; [(true, true)]])) false) = false
  /\ holds_file (mkf t_bporder (transform_haps t_bporder) false) = true.
Proof. vm_compute. auto. Qed.

(* new defect: an R line in the file and a haplotype (8) with a variant (99) absent from the genotypes *)
Definition t_repeat : tinput :=
  mkt [1] [mkgv 3 1 10 [4; 5]] [([1], [0])]
      [mkh 7 1 10 11 0 [mkhv 3 5] false; mkh 20 1 5 8 0 [] true;
       mkh 8 1 10 31 0 [mkhv 3 5; mkhv 99 4] false] None None None NoAnc.

Lemma legacy_repeat_varids_refuted_lemma :
  transform_haps_gen false false false true t_repeat = Err E_Attr       (* pinned: AttributeError *)
  /\ transform_haps t_repeat = Ok ([(7, 1, 10)], [1], [[(true, false)]]) (* fixed: haplotype 8 omitted *)
  /\ holds_file (mkf t_repeat (Err E_Attr) true) = false
  /\ holds_file (mkf t_repeat (transform_haps t_repeat) (warns_missing t_repeat)) = true
  /\ holds_file (mkf t_repeat (transform_haps t_repeat) false) = false.   (* omitting without reporting fails *)
Proof. vm_compute. auto 6. Qed.

(* the hypotheses of haps_transform_eq_single are satisfiable and its Ok branch is inhabited *)
Definition G_ex : geno :=
  mkg [0; 1] [mkgv 1 1 10 [2; 3]; mkgv 4 1 20 [5; 6; 7]]
      [([1; 2], [0; 2]); ([1; 0], [1; 2])] [([0; 0], [1; 1]); ([1; 1], [0; 0])] [(8, 0); (9, 1)].
Definition H_ex : list hap :=
  [mkh 10 1 10 21 8 [mkhv 1 3; mkhv 4 7] false; mkh 30 1 1 5 0 [] true; mkh 11 1 20 21 9 [mkhv 4 7] false].

Lemma hypotheses_satisfiable_lemma :
  has_dup (map gv_id (g_vars G_ex)) = false
  /\ forallb (hap_presentb G_ex) (real_haps H_ex) = true
  /\ haps_transform H_ex G_ex
     = Ok ([(10, 1, 10); (11, 1, 20)], [[(true, false); (true, true)]; [(false, true); (false, true)]])
  /\ haps_transform_anc H_ex G_ex
     = Ok ([(10, 1, 10); (11, 1, 20)], [[(true, false); (false, true)]; [(false, true); (false, false)]]).
Proof. vm_compute. auto. Qed.

(* the hypotheses of transform_haps_meets_spec are satisfiable (with a .bp source and with POP fields) *)
Definition t_pop : tinput :=
  mkt [1; 2] [mkgv 3 1 10 [4; 5]; mkgv 6 1 20 [4; 5; 7]] [([1; 2], [1; 0]); ([0; 2], [1; 2])]
      [mkh 7 1 10 21 8 [mkhv 3 5; mkhv 6 7] false] (Some (mkreg 1 (Some 5) None)) None (Some [2; 1])
      (PopField [([8; 8], [9; 9]); ([9; 8], [8; 8])]).

Lemma wf_file_satisfiable_lemma :
  wf_file t_bporder /\ wf_file t_pop
  /\ transform_haps t_pop = Ok ([(7, 1, 10)], [1; 2], [[(true, false)]; [(false, true)]]).
Proof.
  split; [|split].
  - repeat split.
  - unfold wf_file. cbn. repeat split; repeat constructor.
  - vm_compute. reflexivity.
Qed.
