(* C04 - executable model of the pseudo-genotype transform:
     haptools/data/haplotypes.py  Haplotype.transform, Haplotypes.transform
     haptools/transform.py        HaplotypeAncestry.transform, HaplotypesAncestry.transform,
                                  transform_haps (selection of haplotypes, loading of the
                                  genotypes, ancestry from POP fields or from the .bp file,
                                  discarding of untransformable haplotypes)
   at the level of observable input -> output / exception kind.  No proofs here.

   Strings that are only compared (variant IDs, allele strings, sample names,
   haplotype IDs, contigs, ancestry labels) are interned to Z by the harness.
   A genotype matrix is a list of samples; a sample is a pair of strand rows;
   a strand row lists one cell per variant (numpy layout data[s][v][t] is
   [nth v (strand t of sample s)]).

   The [legacy] booleans reproduce the pinned tree where it differs from the
   tree after the fix commits:
     alt1     - ancestry transforms used int(allele != REF) as the allele index
     overflow - the set-wise ancestry transform stored -1 in a uint8 array
     bporder  - transform_haps took .bp ancestry in the file's sample order
     repattr  - transform_haps asked a Repeat for its varIDs *)
From HV Require Import Prelude Tracts.

Definition E_Value : Z := 1.
Definition E_Index : Z := 2.
Definition E_Key : Z := 3.
Definition E_Attr : Z := 5.
Definition E_Overflow : Z := 7.

Record gvar := mkgv { gv_id : Z; gv_chrom : Z; gv_pos : Z; gv_alleles : list Z }.

Definition srow := list Z.
Definition sample_rows := (srow * srow)%type.

Record geno := mkg {
  g_samples : list Z;
  g_vars : list gvar;
  g_data : list sample_rows;       (* allele indices *)
  g_anc : list sample_rows;        (* ancestry codes, same shape as g_data *)
  g_labels : list (Z * Z)          (* GenotypesAncestry.ancestry_labels: label -> code *)
}.

Record hvar := mkhv { hv_id : Z; hv_allele : Z }.

(* one H or R line of the .hap file with its V lines (in file order) *)
Record hap := mkh {
  h_id : Z; h_chrom : Z; h_start : Z; h_end : Z;
  h_anc : Z;                        (* ancestry label (extra field), 0 if unused *)
  h_vars : list hvar;
  h_rep : bool                      (* true: an R (repeat) line *)
}.

(* ---- small list helpers -------------------------------------------------- *)

(* list.index / tuple.index *)
Fixpoint index_from (x : Z) (l : list Z) (i : Z) : option Z :=
  match l with
  | [] => None
  | y :: r => if y =? x then Some i else index_from x r (i + 1)
  end.
Definition index_of (x : Z) (l : list Z) : option Z := index_from x l 0.

Definition memZ (x : Z) (l : list Z) : bool := existsb (Z.eqb x) l.

Fixpoint has_dup (l : list Z) : bool :=
  match l with
  | [] => false
  | x :: r => memZ x r || has_dup r
  end.

(* Genotypes._var_idx[id]: column and record of the variant with that ID *)
Fixpoint find_var (id : Z) (vs : list gvar) (j : nat) : option (nat * gvar) :=
  match vs with
  | [] => None
  | v :: r => if gv_id v =? id then Some (j, v) else find_var id r (S j)
  end.

(* Genotypes.subset(variants=ids): requested order, unknown IDs dropped *)
Definition lookup (ids : list Z) (vs : list gvar) : list (nat * gvar) :=
  flat_map (fun id => match find_var id vs 0 with Some p => [p] | None => [] end) ids.

Definition cell (r : srow) (j : nat) : Z := nth j r 255.
Definition sub_row (cols : list nat) (r : srow) : srow := map (cell r) cols.

(* ---- allele index --------------------------------------------------------- *)

Definition allele_index (alt1 : bool) (a : Z) (als : list Z) : option Z :=
  if alt1 then
    match als with
    | [] => None
    | r :: _ => Some (if a =? r then 0 else 1)
    end
  else index_of a als.

(* [gts.variants[i]["alleles"].index(allele) for i, allele in enumerate(wanted)]
   against the subsetted variants S: position i pairs with S[i]; running past
   the end of S is numpy's IndexError, an absent allele is ValueError *)
Fixpoint allele_arr (alt1 : bool) (want : list Z) (S : list gvar) : res (list Z) :=
  match want, S with
  | [], _ => Ok []
  | _ :: _, [] => Err E_Index
  | a :: ws, gv :: S' =>
      match allele_index alt1 a (gv_alleles gv) with
      | None => Err E_Value
      | Some i => bind (allele_arr alt1 ws S') (fun r => Ok (i :: r))
      end
  end.

(* ---- Haplotype.transform / HaplotypeAncestry.transform ------------------- *)

Definition row_match (arr : list Z) (cols : list nat) (r : srow) : bool :=
  list_eqb Z.eqb arr (sub_row cols r).

Fixpoint label_code (labels : list (Z * Z)) (l : Z) : option Z :=
  match labels with
  | [] => None
  | (k, c) :: r => if k =? l then Some c else label_code r l
  end.

(* np.all(ancestry == code, axis=1); an absent label is the sentinel -1, which
   equals no uint8 cell *)
Definition anc_match (code : option Z) (cols : list nat) (r : srow) : bool :=
  forallb (fun j => match code with Some c => cell r j =? c | None => false end) cols.

(* the common first half: index(), subset, missing-variant test, allele array *)
Definition hap_prepare (alt1 : bool) (h : hap) (G : geno) : res (list Z * list nat) :=
  if has_dup (map gv_id (g_vars G)) then Err E_Value else
  let ids := map hv_id (h_vars h) in
  let L := lookup ids (g_vars G) in
  if (length L <? length ids)%nat then Err E_Value else
  match allele_arr alt1 (map hv_allele (h_vars h)) (map snd L) with
  | Err k => Err k
  | Ok arr => Ok (arr, map fst L)
  end.

Definition hap_transform (h : hap) (G : geno) : res (list (bool * bool)) :=
  match hap_prepare false h G with
  | Err k => Err k
  | Ok (arr, cols) =>
      Ok (map (fun d : sample_rows => (row_match arr cols (fst d), row_match arr cols (snd d)))
              (g_data G))
  end.

Definition hap_transform_anc_gen (alt1 : bool) (h : hap) (G : geno) : res (list (bool * bool)) :=
  match hap_prepare alt1 h G with
  | Err k => Err k
  | Ok (arr, cols) =>
      let code := label_code (g_labels G) (h_anc h) in
      Ok (map (fun da : sample_rows * sample_rows =>
                 let '(d, a) := da in
                 (row_match arr cols (fst d) && anc_match code cols (fst a),
                  row_match arr cols (snd d) && anc_match code cols (snd a)))
              (combine (g_data G) (g_anc G)))
  end.

Definition hap_transform_anc := hap_transform_anc_gen false.
Definition hap_transform_anc_legacy := hap_transform_anc_gen true.

(* ---- Haplotypes.transform / HaplotypesAncestry.transform ----------------- *)

Definition key := (Z * Z)%type.          (* (variant ID, allele) *)
Definition key_eqb (a b : key) : bool := (fst a =? fst b) && (snd a =? snd b).
Definition key_of (v : hvar) : key := (hv_id v, hv_allele v).
Definition mem_key (k : key) (l : list key) : bool := existsb (key_eqb k) l.

(* keys of an insertion-ordered dict after inserting l in order *)
Fixpoint dedup (seen : list key) (l : list key) : list key :=
  match l with
  | [] => []
  | k :: r => if mem_key k seen then dedup seen r else k :: dedup (k :: seen) r
  end.

Fixpoint key_pos (k : key) (ks : list key) : option nat :=
  match ks with
  | [] => None
  | x :: r => if key_eqb k x then Some O else option_map S (key_pos k r)
  end.

Definition real_haps (H : list hap) : list hap := filter (fun h => negb (h_rep h)) H.

Definition keys_of (H : list hap) : list key :=
  dedup [] (flat_map (fun h => map key_of (h_vars h)) H).

(* idxs[i]: positions of the haplotype's alleles in the dictionary *)
Definition idxs_of (ks : list key) (h : hap) : list nat :=
  map (fun v => match key_pos (key_of v) ks with Some p => p | None => O end) (h_vars h).

Fixpoint map2 {A B C} (f : A -> B -> C) (l1 : list A) (l2 : list B) : list C :=
  match l1, l2 with
  | a :: r, b :: s => f a b :: map2 f r s
  | _, _ => []
  end.

Definition recs_of (H : list hap) : list (Z * Z * Z) :=
  map (fun h => (h_id h, h_chrom h, h_start h)) H.

(* the part shared by both set-wise implementations *)
Definition haps_prepare (alt1 : bool) (H : list hap) (G : geno)
  : res (list key * list Z * list nat) :=
  let ks := keys_of H in
  if has_dup (map gv_id (g_vars G)) then Err E_Value else
  let S := lookup (map fst ks) (g_vars G) in
  match allele_arr alt1 (map snd ks) (map snd S) with
  | Err k => Err k
  | Ok arr => Ok (ks, arr, map fst S)
  end.

(* np.all(equality_arr[:, idxs[i]], axis=1) on one strand *)
Definition set_match (arr : list Z) (cols : list nat) (idxs : list nat) (r : srow) : bool :=
  let eqr := map2 Z.eqb arr (sub_row cols r) in
  forallb (fun p => nth p eqr false) idxs.

Definition set_anc_match (code : option Z) (cols : list nat) (idxs : list nat) (r : srow) : bool :=
  let sub := sub_row cols r in
  forallb (fun p => match code with Some c => nth p sub 255 =? c | None => false end) idxs.

Definition haps_transform (H0 : list hap) (G : geno)
  : res (list (Z * Z * Z) * list (list (bool * bool))) :=
  let H := real_haps H0 in
  match haps_prepare false H G with
  | Err k => Err k
  | Ok (ks, arr, cols) =>
      Ok (recs_of H,
          map (fun d : sample_rows =>
                 map (fun h => let ix := idxs_of ks h in
                               (set_match arr cols ix (fst d), set_match arr cols ix (snd d))) H)
              (g_data G))
  end.

Definition haps_transform_anc_gen (alt1 overflow : bool) (H0 : list hap) (G : geno)
  : res (list (Z * Z * Z) * list (list (bool * bool))) :=
  let H := real_haps H0 in
  if overflow && existsb (fun h => match label_code (g_labels G) (h_anc h) with
                                   | None => true | Some _ => false end) H
  then Err E_Overflow else
  match haps_prepare alt1 H G with
  | Err k => Err k
  | Ok (ks, arr, cols) =>
      Ok (recs_of H,
          map (fun da : sample_rows * sample_rows =>
                 let '(d, a) := da in
                 map (fun h => let ix := idxs_of ks h in
                               let code := label_code (g_labels G) (h_anc h) in
                               (set_anc_match code cols ix (fst a) && set_match arr cols ix (fst d),
                                set_anc_match code cols ix (snd a) && set_match arr cols ix (snd d))) H)
              (combine (g_data G) (g_anc G)))
  end.

Definition haps_transform_anc := haps_transform_anc_gen false false.
Definition haps_transform_anc_legacy := haps_transform_anc_gen true true.

(* ---- transform_haps ------------------------------------------------------ *)

Record region := mkreg { r_chrom : Z; r_start : option Z; r_end : option Z }.

Inductive anc_source :=
| NoAnc
| PopField (labels : list sample_rows)   (* POP labels of every sample x variant of the file *)
| BpFile (bp : list (Z * (list seg * list seg))). (* .bp file: samples in FILE order, strand tracts *)

Record tinput := mkt {
  t_samples : list Z;              (* genotype file: samples in file order *)
  t_vars : list gvar;              (* records in file order *)
  t_data : list sample_rows;
  t_haps : list hap;               (* .hap file: H and R lines in file order *)
  t_region : option region;
  t_ids : option (list Z);         (* --id *)
  t_samp : option (list Z);        (* --sample *)
  t_anc : anc_source
}.

Definition opt_le (a : option Z) (x : Z) : bool := match a with Some v => v <=? x | None => true end.
Definition opt_ge (b : option Z) (x : Z) : bool := match b with Some v => x <=? v | None => true end.

(* Haplotypes.read(region, haplotypes) on an indexed file: lines of the contig
   that lie entirely inside the region, restricted to the requested IDs *)
Definition hap_selected (rg : option region) (ids : option (list Z)) (h : hap) : bool :=
  match rg with
  | None => true
  | Some r => (h_chrom h =? r_chrom r) && opt_le (r_start r) (h_start h) && opt_ge (r_end r) (h_end h)
  end
  && match ids with None => true | Some l => memZ (h_id h) l end.

(* Genotypes.read(region, samples, variants): records of the region whose ID is
   wanted, samples of the file that were requested, both in file order *)
Definition var_selected (rg : option region) (want : list Z) (v : gvar) : bool :=
  match rg with
  | None => true
  | Some r => (gv_chrom v =? r_chrom r) && opt_le (r_start r) (gv_pos v) && opt_ge (r_end r) (gv_pos v)
  end
  && memZ (gv_id v) want.

Fixpoint keep {A} (m : list bool) (l : list A) : list A :=
  match m, l with
  | b :: m', x :: l' => if b then x :: keep m' l' else keep m' l'
  | _, _ => []
  end.

Definition keep_rows (vm : list bool) (d : sample_rows) : sample_rows :=
  (keep vm (fst d), keep vm (snd d)).

Fixpoint dedupZ (seen : list Z) (l : list Z) : list Z :=
  match l with
  | [] => []
  | k :: r => if memZ k seen then dedupZ seen r else k :: dedupZ (k :: seen) r
  end.

Fixpoint find_bp (s : Z) (bp : list (Z * (list seg * list seg))) : option (list seg * list seg) :=
  match bp with
  | [] => None
  | (n, t) :: r => if n =? s then Some t else find_bp s r
  end.

(* Breakpoints.population_array for one strand: label of the first tract of the
   contig whose end is >= pos; None: absent contig or position past the last tract *)
Definition strand_labels (vs : list gvar) (tr : list seg) : list (option Z) :=
  map (fun v => label_at tr (gv_chrom v) (gv_pos v)) vs.

Fixpoint all_some {A} (l : list (option A)) : option (list A) :=
  match l with
  | [] => Some []
  | Some x :: r => option_map (cons x) (all_some r)
  | None :: _ => None
  end.

Fixpoint sequence {A} (l : list (res A)) : res (list A) :=
  match l with
  | [] => Ok []
  | Ok x :: r => bind (sequence r) (fun t => Ok (x :: t))
  | Err k :: _ => Err k
  end.

Definition bp_rows (vs : list gvar) (t : list seg * list seg) : res sample_rows :=
  match all_some (strand_labels vs (fst t)), all_some (strand_labels vs (snd t)) with
  | Some a, Some b => Ok (a, b)
  | _, _ => Err E_Value
  end.

(* ancestry label matrix for the loaded samples x loaded variants *)
Definition ancestry_matrix (bporder : bool) (src : anc_source) (sm vm : list bool)
    (samples : list Z) (vs : list gvar) : res (list sample_rows) :=
  match src with
  | NoAnc => Ok []
  | PopField m => Ok (map (keep_rows vm) (keep sm m))
  | BpFile bp =>
      if bporder then
        (* rows in .bp file order, restricted to the loaded samples *)
        sequence (map (fun e : Z * (list seg * list seg) => bp_rows vs (snd e))
                      (filter (fun e : Z * (list seg * list seg) => memZ (fst e) samples) bp))
      else
        match all_some (map (fun s => find_bp s bp) samples) with
        | None => Err E_Key
        | Some ts => sequence (map (bp_rows vs) ts)
        end
  end.

Definition labels_seen (m : list sample_rows) : list Z :=
  dedupZ [] (flat_map (fun d : sample_rows => fst d ++ snd d) m).

(* Haplotypes.__iter__ probes the tabix index with the region first; a contig
   that no line of the .hap file is on makes the probe fail, the file is then
   read as plain text and the region is not applied to the haplotypes (it still
   is applied to the genotypes) *)
Definition region_for_haps (t : tinput) : option region :=
  match t_region t with
  | Some r => if existsb (fun h => h_chrom h =? r_chrom r) (t_haps t) then Some r else None
  | None => None
  end.

Definition transformable (ids : list Z) (h : hap) : bool :=
  forallb (fun v => memZ (hv_id v) ids) (h_vars h).

(* "N variant(s) could not be found in the genotypes file ...": the warning that reports the
   variants (and hence haplotypes) that cannot be transformed *)
Definition warns_missing (t : tinput) : bool :=
  let sel := filter (hap_selected (region_for_haps t) (t_ids t)) (t_haps t) in
  let want := dedupZ [] (flat_map (fun h => map hv_id (h_vars h)) (real_haps sel)) in
  let vs := keep (map (var_selected (t_region t) want) (t_vars t)) (t_vars t) in
  (length vs <? length want)%nat.

Definition transform_haps_gen (alt1 overflow bporder repattr : bool) (t : tinput)
  : res (list (Z * Z * Z) * list Z * list (list (bool * bool))) :=
  let sel := filter (hap_selected (region_for_haps t) (t_ids t)) (t_haps t) in
  match sel with
  | [] => Err E_Value                        (* "Didn't load any haplotypes" *)
  | _ =>
    let want := dedupZ [] (flat_map (fun h => map hv_id (h_vars h)) (real_haps sel)) in
    let vm := map (var_selected (t_region t) want) (t_vars t) in
    let sm := map (fun s => match t_samp t with None => true | Some l => memZ s l end) (t_samples t) in
    let vs := keep vm (t_vars t) in
    let samples := keep sm (t_samples t) in
    let data := map (keep_rows vm) (keep sm (t_data t)) in
    if has_dup (map gv_id vs) then Err E_Value else
    let missing := (length vs <? length want)%nat in
    if missing && repattr && existsb h_rep sel then Err E_Attr else
    let sel' := if missing then filter (transformable (map gv_id vs)) (real_haps sel) else sel in
    match ancestry_matrix bporder (t_anc t) sm vm samples vs with
    | Err k => Err k
    | Ok anc =>
      let G := mkg samples vs data anc (map (fun l => (l, l)) (labels_seen anc)) in
      match (match t_anc t with
             | NoAnc => haps_transform sel' G
             | _ => haps_transform_anc_gen alt1 overflow sel' G
             end) with
      | Err k => Err k
      | Ok (recs, M) => Ok (recs, samples, M)
      end
    end
  end.

Definition transform_haps := transform_haps_gen false false false false.
Definition transform_haps_legacy := transform_haps_gen true true true true.
