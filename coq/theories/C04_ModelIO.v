(* C04 - two pieces of transform_haps' input handling below the level of C04_Model.tinput:

   (1) haptools/data/haplotypes.py  Haplotypes.read - the loop that collects the lines of a .hap file read in full:
         for line in self.__iter__(...):
             if H or R line:  self.data[line.id] = line
             elif V line:     var_haps.setdefault(line.hap, []).append(line)
         for hap in var_haps: self.data[hap].variants = tuple(var_haps[hap])
       over a list of lines in FILE order ([read_lines]).  A V line names its haplotype, so the V lines of
       different haplotypes may be interleaved and may stand before their H line; [read_spec] is the closed form
       (the H/R lines in order, each with the V lines that name it, in order).

   (2) haptools/transform.py  transform_haps - the path of the accompanying breakpoints file
         if genotypes.suffix == ".gz": bps_file = genotypes.with_suffix("").with_suffix(".bp")
         else:                         bps_file = genotypes.with_suffix(".bp")
       at the level of characters (code points), with pathlib's PurePath.suffix / with_suffix (Python 3.11):
         suffix      = name[i:] where i = name.rfind('.'), if 0 < i < len(name) - 1, else ''
         with_suffix = name minus its suffix, plus the new one (ValueError for an empty name)
       over the LAST component of a normalised path (no trailing '/'); the directory part is untouched
       ([bp_path_of]).  [resolve_source]: which ancestry source the run uses given the files present.

   No proofs here. *)
From HV Require Import Prelude Tracts C04_Model.

(* ---- (1) the lines of a .hap file ------------------------------------------------------------------------- *)

Inductive hline :=
| LH (h : hap)                 (* an H or R line (h_rep); h_vars is what the line object starts with: [] *)
| LV (hid : Z) (v : hvar).     (* a V line: the haplotype it names, (variant ID, allele) *)

(* self.data[line.id] = line : a dict keeps the position of the first insertion of a key *)
Fixpoint dict_set (h : hap) (data : list hap) : list hap :=
  match data with
  | [] => [h]
  | x :: r => if h_id x =? h_id h then h :: r else x :: dict_set h r
  end.

(* var_haps.setdefault(k, []).append(v) *)
Fixpoint vh_app (k : Z) (v : hvar) (vh : list (Z * list hvar)) : list (Z * list hvar) :=
  match vh with
  | [] => [(k, [v])]
  | (k', vs) :: r => if k' =? k then (k', vs ++ [v]) :: r else (k', vs) :: vh_app k v r
  end.

Fixpoint read_loop (lines : list hline) (data : list hap) (vh : list (Z * list hvar))
  : list hap * list (Z * list hvar) :=
  match lines with
  | [] => (data, vh)
  | LH h :: r => read_loop r (dict_set h data) vh
  | LV k v :: r => read_loop r data (vh_app k v vh)
  end.

Definition with_vars (h : hap) (vs : list hvar) : hap :=
  mkh (h_id h) (h_chrom h) (h_start h) (h_end h) (h_anc h) vs (h_rep h).

Definition has_id (k : Z) (data : list hap) : bool := existsb (fun h => h_id h =? k) data.

Definition set_vars (k : Z) (vs : list hvar) (data : list hap) : list hap :=
  map (fun h => if h_id h =? k then with_vars h vs else h) data.

(* for hap in var_haps: self.data[hap].variants = ... (KeyError: V lines that name no H / R line) *)
Fixpoint assign_vars (vh : list (Z * list hvar)) (data : list hap) : res (list hap) :=
  match vh with
  | [] => Ok data
  | (k, vs) :: r => if has_id k data then assign_vars r (set_vars k vs data) else Err E_Key
  end.

Definition read_lines (lines : list hline) : res (list hap) :=
  let '(data, vh) := read_loop lines [] [] in assign_vars vh data.

(* the closed form *)
Definition heads (l : list hline) : list hap :=
  flat_map (fun x => match x with LH h => [h] | LV _ _ => [] end) l.

Definition vpairs (l : list hline) : list (Z * hvar) :=
  flat_map (fun x => match x with LH _ => [] | LV k v => [(k, v)] end) l.

Definition vlines_of (k : Z) (l : list hline) : list hvar :=
  flat_map (fun x => match x with LH _ => [] | LV k' v => if k' =? k then [v] else [] end) l.

Definition dict_of (hs : list hap) : list hap := fold_left (fun d h => dict_set h d) hs [].

Definition read_spec (l : list hline) : res (list hap) :=
  let data := dict_of (heads l) in
  if forallb (fun kv : Z * hvar => has_id (fst kv) data) (vpairs l)
  then Ok (map (fun h => match vlines_of (h_id h) l with [] => h | vs => with_vars h vs end) data)
  else Err E_Key.

(* the layout "all H/R lines, then the V lines haplotype by haplotype" of a list of haplotypes *)
Definition lines_HV (H : list hap) : list hline :=
  map (fun h => LH (with_vars h [])) H ++ flat_map (fun h => map (LV (h_id h)) (h_vars h)) H.

Definition hvar_eqb (a b : hvar) : bool := (hv_id a =? hv_id b) && (hv_allele a =? hv_allele b).

Definition hap_eqb (a b : hap) : bool :=
  (h_id a =? h_id b) && (h_chrom a =? h_chrom b) && (h_start a =? h_start b) && (h_end a =? h_end b)
  && (h_anc a =? h_anc b) && list_eqb hvar_eqb (h_vars a) (h_vars b) && Bool.eqb (h_rep a) (h_rep b).

(* ---- (2) the path of the breakpoints file ----------------------------------------------------------------- *)

Definition c_dot : Z := 46.
Definition c_slash : Z := 47.
Definition s_bp : list Z := [46; 98; 112].            (* ".bp" *)
Definition s_gz : list Z := [46; 103; 122].           (* ".gz" *)
Definition s_pgen : list Z := [46; 112; 103; 101; 110]. (* ".pgen" *)

(* l = a ++ [c] ++ b with c the LAST occurrence of the character: Some (a, b) *)
Fixpoint split_last (c : Z) (l : list Z) : option (list Z * list Z) :=
  match l with
  | [] => None
  | x :: r =>
      match split_last c r with
      | Some (a, b) => Some (x :: a, b)
      | None => if x =? c then Some ([], r) else None
      end
  end.

Definition nonempty (l : list Z) : bool := match l with [] => false | _ => true end.

(* (name minus PurePath.suffix, PurePath.suffix) *)
Definition suffix_split (name : list Z) : list Z * list Z :=
  match split_last c_dot name with
  | Some (a, b) => if nonempty a && nonempty b then (a, c_dot :: b) else (name, [])
  | None => (name, [])
  end.

Definition suffix_of (name : list Z) : list Z := snd (suffix_split name).
(* PurePath.with_suffix(s) on a non-empty name *)
Definition with_suffix (name s : list Z) : list Z := fst (suffix_split name) ++ s.

Definition str_eqb := list_eqb Z.eqb.

Definition bp_name_of (name : list Z) : list Z :=
  if str_eqb (suffix_of name) s_gz then with_suffix (with_suffix name []) s_bp else with_suffix name s_bp.

(* (directory part incl. its final '/', last component) *)
Definition split_dir (path : list Z) : list Z * list Z :=
  match split_last c_slash path with
  | Some (d, n) => (d ++ [c_slash], n)
  | None => ([], path)
  end.

Definition bp_path_of (path : list Z) : res (list Z) :=
  let '(d, n) := split_dir path in
  if nonempty n then Ok (d ++ bp_name_of n) else Err E_Value.

Definition is_pgen (path : list Z) : bool := str_eqb (suffix_of (snd (split_dir path))) s_pgen.

(* which ancestry source transform_haps uses: the files present are listed as (path, tag); tag 0 = the .bp that
   belongs to the genotypes *)
Inductive asrc := SNone | SPop | SBp (tag : Z) | SFail (k : Z).

Fixpoint file_tag (p : list Z) (files : list (list Z * Z)) : option Z :=
  match files with
  | [] => None
  | (q, t) :: r => if str_eqb q p then Some t else file_tag p r
  end.

Definition resolve_source (ancestry : bool) (gt : list Z) (files : list (list Z * Z)) : asrc :=
  if negb ancestry then SNone
  else match bp_path_of gt with
       | Err k => SFail k
       | Ok p =>
           match file_tag p files with
           | Some t => SBp t
           | None => if is_pgen gt then SFail E_Value else SPop
           end
       end.
