(* C04 - executable model of the parts of haptools/transform.py transform_haps that C04_Model leaves out:

     * the calls the genotype file really holds: missing calls (255 after the uint8 cast), calls written
       unphased, and what gt.check_missing(discard_also=discard_missing) / gt.check_phase() do with them
       before anything is transformed;
     * --discard-missing (samples with a missing call at a LOADED record are dropped, also from the ancestry
       rows / from the samples asked of the .bp file), --maf (Genotypes.check_maf(threshold, discard_also=True)
       on the OUTPUT pseudo-genotypes), --chunk-size (PGEN reading / writing in chunks: no effect on values);
     * the fixed width of the ancestry codes: GenotypesAncestry._iterate numbers the POP labels of the loaded
       cells in order of appearance and stores the numbers in a np.uint8 array, Breakpoints.encode numbers the
       labels of ALL tracts of the loaded samples and stores them in a np.uint8 field; the 257th distinct label
       gets number 256, and numpy (>= 2) raises OverflowError ("Python integer 256 out of bounds for uint8")
       at that store.  Nothing wraps: 256 labels (numbers 0..255) work, 257 fail loudly.

   transform_haps_o is transform_haps (C04_Model) on the input restricted to the samples that survive
   check_missing, between the failures that precede it and the --maf filter that follows it.  The MAF test
   [rare k n] ("k ones among n samples: min(f, 1-f) < threshold, f = k / 2n") is a parameter; the
   correspondence instantiates it with IEEE doubles (C13_Check.rareF), the theorems hold for every test.
   No proofs here (C04_ProofsFile is imported for the names t_vm / t_sm / t_sel of the pieces of
   transform_haps). *)
From HV Require Import Prelude Tracts C04_Model C04_Check C04_ProofsFile.

Record textra := mke {
  e_unph : list (list bool);   (* per file sample, per file record: the call is written unphased ("0/1") *)
  e_discard : bool;            (* --discard-missing *)
  e_maf : bool;                (* --maf given *)
  e_chunk : option Z           (* --chunk-size *)
}.

Definition e_none : textra := mke [] false false None.

(* ---- the input restricted to some of the file's samples ------------------------------------------ *)

Definition restrict (m : list bool) (t : tinput) : tinput :=
  mkt (keep m (t_samples t)) (t_vars t) (keep m (t_data t)) (t_haps t) (t_region t) (t_ids t) (t_samp t)
      (match t_anc t with PopField p => PopField (keep m p) | a => a end).

(* ---- check_missing ---------------------------------------------------------------------------------- *)

Definition is_pop (t : tinput) : bool := match t_anc t with PopField _ => true | _ => false end.

(* Genotypes.check_missing: a cell >= 254 (255 = '.', 254 = end of a haploid call);
   GenotypesAncestry.check_missing (the object that reads POP fields): only 255 *)
Definition miss_cell (pop : bool) (x : Z) : bool := if pop then x =? 255 else 254 <=? x.

(* a missing call of the sample among the loaded records *)
Definition row_missing (pop : bool) (vm : list bool) (d : sample_rows) : bool :=
  existsb (miss_cell pop) (keep vm (fst d)) || existsb (miss_cell pop) (keep vm (snd d)).

(* per file sample: the sample has no missing call among the loaded records *)
Definition dmask (t : tinput) : list bool :=
  map (fun d => negb (row_missing (is_pop t) (t_vm t) d)) (t_data t).

Fixpoint and_mask (a b : list bool) : list bool :=
  match a, b with
  | x :: a', y :: b' => (x && y) :: and_mask a' b'
  | _, _ => []
  end.

(* some LOADED sample has a missing call among the loaded records *)
Definition any_missing (t : tinput) : bool :=
  existsb (fun b => b) (and_mask (t_sm t) (map negb (dmask t))).

(* ---- check_phase ------------------------------------------------------------------------------------- *)

(* heterozygous, both alleles present, written unphased *)
Definition het_unph (a b : Z) (u : bool) : bool :=
  u && negb (a =? b) && (a <? 254) && (b <? 254).

Fixpoint row_unph (vm : list bool) (d0 d1 : srow) (u : list bool) : bool :=
  match vm, d0, d1, u with
  | v :: vm', a :: d0', b :: d1', x :: u' => (v && het_unph a b x) || row_unph vm' d0' d1' u'
  | _, _, _, _ => false
  end.

(* some sample that is loaded (sm) and kept (km) has an unphased heterozygous call among the loaded records *)
Fixpoint any_unph (vm sm km : list bool) (data : list sample_rows) (un : list (list bool)) : bool :=
  match sm, km, data, un with
  | s :: sm', k :: km', d :: data', u :: un' =>
      (s && k && row_unph vm (fst d) (snd d) u) || any_unph vm sm' km' data' un'
  | _, _, _, _ => false
  end.

(* ---- the width of the ancestry codes -------------------------------------------------------------- *)

Definition capacity : nat := 256.       (* np.uint8 *)

(* POP labels of the loaded samples x loaded records, in order of first appearance *)
Definition pop_labels (t : tinput) : list Z :=
  match t_anc t with
  | PopField m => labels_seen (map (keep_rows (t_vm t)) (keep (t_sm t) m))
  | _ => []
  end.

Definition tract_labels (tr : list seg * list seg) : list Z := map pop (fst tr) ++ map pop (snd tr).

(* labels of all tracts of the samples that Breakpoints.read(samples=...) finds *)
Definition bp_labels (t : tinput) : list Z :=
  match t_anc t with
  | BpFile bp =>
      dedupZ [] (flat_map (fun s => match find_bp s bp with Some tr => tract_labels tr | None => [] end)
                          (t_out_samples t))
  | _ => []
  end.

Definition pop_overflow (t : tinput) : bool := (capacity <? length (pop_labels t))%nat.
Definition bp_overflow (t : tinput) : bool := (capacity <? length (bp_labels t))%nat.

(* ---- --maf on the output --------------------------------------------------------------------------- *)

Definition b2z (b : bool) : Z := if b then 1 else 0.

(* data[:, i, :2].astype(bool).sum(): the number of 1s in column i *)
Definition col_count (M : list (list (bool * bool))) (i : nat) : Z :=
  fold_right (fun row acc => let c := nth i row (false, false) in b2z (fst c) + b2z (snd c) + acc) 0 M.

Section Opt.
  Variable rare : Z -> Z -> bool.

  Definition maf_mask (n : nat) (M : list (list (bool * bool))) : list bool :=
    map (fun i => negb (rare (col_count M i) (lenZ M))) (seq 0 n).

  Definition maf_filter (out : tout) : tout :=
    let '(recs, ss, M) := out in
    let km := maf_mask (length recs) M in
    (keep km recs, ss, map (keep km) M).

  (* the samples transform_haps works on *)
  Definition surviving (e : textra) (t : tinput) : tinput :=
    if e_discard e && any_missing t then restrict (dmask t) t else t.

  Definition transform_haps_o (e : textra) (t : tinput) : res tout :=
    match t_sel t with
    | [] => Err E_Value                                   (* "Didn't load any haplotypes" *)
    | _ =>
      if pop_overflow t then Err E_Overflow else          (* GenotypesAncestry.read, 257th POP label *)
      if any_missing t && negb (e_discard e) then Err E_Value else      (* check_missing *)
      let km := if e_discard e then dmask t else map (fun _ => true) (t_data t) in
      if any_unph (t_vm t) (t_sm t) km (t_data t) (e_unph e) then Err E_Value else   (* check_phase *)
      let t1 := surviving e t in
      if bp_overflow t1 then Err E_Overflow else          (* Breakpoints.encode, 257th label *)
      match transform_haps t1 with
      | Err k => Err k
      | Ok out => Ok (if e_maf e then maf_filter out else out)
      end
    end.
End Opt.

(* ---- what transform_haps hands to Haplotypes[Ancestry].transform ------------------------------------------------ *)

(* the genotype object (samples, records, cells, ancestry labels of the surviving samples x loaded records) and the
   collection of haplotypes at the moment hp.transform(gt, hp_gt) is called; None: the run fails before that *)
Definition model_geno (e : textra) (t : tinput) : option (geno * list hap) :=
  match t_sel t with
  | [] => None
  | _ =>
    if pop_overflow t then None else
    if any_missing t && negb (e_discard e) then None else
    let km := if e_discard e then dmask t else map (fun _ => true) (t_data t) in
    if any_unph (t_vm t) (t_sm t) km (t_data t) (e_unph e) then None else
    let t1 := surviving e t in
    if bp_overflow t1 then None else
    if has_dup (map gv_id (t_loaded t1)) then None else
    match ancestry_matrix false (t_anc t1) (t_sm t1) (t_vm t1) (t_out_samples t1) (t_loaded t1) with
    | Err _ => None
    | Ok anc =>
        Some (t_geno t1 anc,
              if (length (t_loaded t1) <? length (t_want t1))%nat then t_out_haps t1 else t_sel t1)
    end
  end.
