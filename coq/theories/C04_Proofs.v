(* C04 - proofs, part 1: the single-haplotype transforms.
   Main results:
     hap_transform_closed / hap_transform_anc_closed : the model of
        Haplotype.transform / HaplotypeAncestry.transform equals the cell-by-cell
        specification [spec_col] (or ValueError when a variant or allele is absent)
     hap_transform_spec / hap_transform_anc_spec : the declarative reading
     holds_single1_sound : what the boolean checker means *)
From HV Require Import Prelude Tracts C04_Model C04_Check.

(* ---- generic list facts -------------------------------------------------- *)

Lemma forallb_andb {A} (f g : A -> bool) l :
  forallb (fun x => f x && g x) l = forallb f l && forallb g l.
Proof.
  induction l as [|x r IH]; cbn; [reflexivity|]. rewrite IH.
  destruct (f x), (g x), (forallb f r), (forallb g r); reflexivity.
Qed.

Lemma all_some_Forall2 {A B} (f : A -> option B) l r :
  all_some (map f l) = Some r -> Forall2 (fun a b => f a = Some b) l r.
Proof.
  revert r. induction l as [|a l IH]; cbn; intros r H.
  - inversion H. constructor.
  - destruct (f a) eqn:E; [|discriminate].
    destruct (all_some (map f l)) eqn:E2; cbn in H; [|discriminate].
    inversion H; subst. constructor; auto.
Qed.

Lemma all_some_None {A B} (f : A -> option B) l :
  all_some (map f l) = None -> exists a, In a l /\ f a = None.
Proof.
  induction l as [|a l IH]; cbn; intros H; [discriminate|].
  destruct (f a) eqn:E.
  - destruct (all_some (map f l)) eqn:E2; cbn in H; [discriminate|].
    destruct (IH eq_refl) as [x [Hin Hx]]. exists x. auto.
  - exists a. auto.
Qed.

Lemma all_some_In_None {A B} (f : A -> option B) l a :
  In a l -> f a = None -> all_some (map f l) = None.
Proof.
  induction l as [|x l IH]; cbn; intros Hin Hf; [contradiction|].
  destruct Hin as [->|Hin].
  - rewrite Hf. reflexivity.
  - destruct (f x); [|reflexivity]. rewrite (IH Hin Hf). reflexivity.
Qed.

Lemma all_some_forallb {A B} (f : A -> option B) l :
  forallb (fun a => match f a with Some _ => true | None => false end) l = true ->
  exists r, all_some (map f l) = Some r.
Proof.
  induction l as [|a l IH]; cbn; intros H.
  - eexists; reflexivity.
  - apply andb_true_iff in H. destruct H as [H1 H2].
    destruct (f a); [|discriminate]. destruct (IH H2) as [r Hr]. rewrite Hr. eexists; reflexivity.
Qed.

Lemma forallb_ext' {A} (f g : A -> bool) l : (forall x, f x = g x) -> forallb f l = forallb g l.
Proof. intros H. induction l as [|x r IH]; cbn; [reflexivity|]. rewrite H, IH. reflexivity. Qed.

Lemma F2_length {A B} (R : A -> B -> Prop) l r : Forall2 R l r -> length l = length r.
Proof. induction 1; cbn; congruence. Qed.

Lemma forallb_false_ex {A} (f : A -> bool) l :
  forallb f l = false -> exists a, In a l /\ f a = false.
Proof.
  induction l as [|a l IH]; cbn; intros H; [discriminate|].
  destruct (f a) eqn:E.
  - destruct (IH H) as [x [Hin Hx]]. exists x; auto.
  - exists a; auto.
Qed.

(* ---- list.index and the ID index ----------------------------------------- *)

Lemma index_from_spec x l : forall i k,
  index_from x l i = Some k ->
  i <= k /\ nth_error l (Z.to_nat (k - i)) = Some x
  /\ forall m, (m < Z.to_nat (k - i))%nat -> nth_error l m <> Some x.
Proof.
  induction l as [|y r IH]; cbn; intros i k H; [discriminate|].
  destruct (y =? x) eqn:E.
  - inversion H; subst. apply Z.eqb_eq in E. subst. rewrite Z.sub_diag. cbn.
    split; [lia|]. split; [reflexivity|]. intros m Hm. lia.
  - apply IH in H. destruct H as [H1 [H2 H3]].
    replace (k - i) with (Z.succ (k - (i + 1))) by lia.
    rewrite Z2Nat.inj_succ by lia. cbn.
    split; [lia|]. split; [exact H2|].
    intros [|m] Hm; cbn.
    + intros Heq. inversion Heq. subst. rewrite Z.eqb_refl in E. discriminate.
    + apply H3. lia.
Qed.

(* index_of is Python's list.index: the first position holding the allele *)
Lemma index_of_spec x l k :
  index_of x l = Some k ->
  0 <= k /\ nth_error l (Z.to_nat k) = Some x
  /\ forall m, (m < Z.to_nat k)%nat -> nth_error l m <> Some x.
Proof.
  unfold index_of. intros H. apply index_from_spec in H.
  rewrite Z.sub_0_r in H. exact H.
Qed.

Lemma find_var_spec id vs : forall j0 j gv,
  find_var id vs j0 = Some (j, gv) ->
  (j0 <= j)%nat /\ nth_error vs (j - j0) = Some gv /\ gv_id gv = id.
Proof.
  induction vs as [|v r IH]; cbn; intros j0 j gv H; [discriminate|].
  destruct (gv_id v =? id) eqn:E.
  - inversion H; subst. apply Z.eqb_eq in E. rewrite Nat.sub_diag. cbn. auto.
  - apply IH in H. destruct H as [H1 [H2 H3]].
    split; [lia|]. split; [|exact H3].
    replace (j - j0)%nat with (S (j - S j0)) by lia. exact H2.
Qed.

(* ---- subset by IDs -------------------------------------------------------- *)

Lemma lookup_length ids vs : (length (lookup ids vs) <= length ids)%nat.
Proof.
  unfold lookup. induction ids as [|id r IH]; cbn; [lia|].
  rewrite app_length. destruct (find_var id vs 0); cbn; lia.
Qed.

Lemma lookup_found ids vs L :
  all_some (map (fun id => find_var id vs 0) ids) = Some L -> lookup ids vs = L.
Proof.
  unfold lookup. revert L. induction ids as [|id r IH]; cbn; intros L H.
  - inversion H. reflexivity.
  - destruct (find_var id vs 0) as [p|]; [|discriminate].
    destruct (all_some (map (fun id0 => find_var id0 vs 0) r)) as [L'|] eqn:E; cbn in H; [|discriminate].
    inversion H; subst. cbn. f_equal. apply IH. reflexivity.
Qed.

Lemma lookup_notfound ids vs :
  all_some (map (fun id => find_var id vs 0) ids) = None ->
  (length (lookup ids vs) < length ids)%nat.
Proof.
  induction ids as [|id r IH]; cbn; intros H; [discriminate|].
  unfold lookup. cbn. rewrite app_length. fold (lookup r vs).
  destruct (find_var id vs 0) as [p|]; cbn.
  - destruct (all_some (map (fun id0 => find_var id0 vs 0) r)) eqn:E; cbn in H; [discriminate|].
    specialize (IH eq_refl). lia.
  - pose proof (lookup_length r vs). lia.
Qed.

(* ---- the allele array ------------------------------------------------------ *)

Lemma var_col_found G v j gv :
  find_var (hv_id v) (g_vars G) 0 = Some (j, gv) ->
  var_col G v = match index_of (hv_allele v) (gv_alleles gv) with
                | Some i => Some (j, i) | None => None end.
Proof. intros H. unfold var_col. rewrite H. reflexivity. Qed.

Lemma var_col_notfound G v :
  find_var (hv_id v) (g_vars G) 0 = None -> var_col G v = None.
Proof. intros H. unfold var_col. rewrite H. reflexivity. Qed.

Lemma allele_arr_closed G hv L :
  Forall2 (fun v p => find_var (hv_id v) (g_vars G) 0 = Some p) hv L ->
  allele_arr false (map hv_allele hv) (map snd L) =
    match all_some (map (var_col G) hv) with
    | Some jis => Ok (map snd jis)
    | None => Err E_Value
    end
  /\ forall jis, all_some (map (var_col G) hv) = Some jis -> map fst jis = map fst L.
Proof.
  induction 1 as [|v p hv L Hf HF IH]; cbn.
  - split; [reflexivity|]. intros jis H; inversion H; reflexivity.
  - destruct p as [j gv]. cbn. destruct IH as [IH1 IH2].
    rewrite (var_col_found G v j gv Hf). unfold allele_index.
    destruct (index_of (hv_allele v) (gv_alleles gv)) as [i|] eqn:Ei.
    + rewrite IH1. destruct (all_some (map (var_col G) hv)) as [jis|] eqn:Ea; cbn.
      * split; [reflexivity|]. intros jis' H; inversion H; subst; cbn. f_equal. apply IH2. reflexivity.
      * split; [reflexivity|]. intros jis' H; discriminate.
    + split; [reflexivity|]. intros jis' H; discriminate.
Qed.

Lemma hap_prepare_closed G h :
  has_dup (map gv_id (g_vars G)) = false ->
  hap_prepare false h G =
    match all_some (map (var_col G) (h_vars h)) with
    | Some jis => Ok (map snd jis, map fst jis)
    | None => Err E_Value
    end.
Proof.
  intros Hd. unfold hap_prepare. rewrite Hd.
  destruct (all_some (map (fun id => find_var id (g_vars G) 0) (map hv_id (h_vars h)))) as [L|] eqn:EL.
  - rewrite (lookup_found _ _ _ EL). rewrite map_map in EL.
    apply all_some_Forall2 in EL.
    pose proof (F2_length _ _ _ EL) as Hlen. rewrite map_length, Hlen, Nat.ltb_irrefl.
    destruct (allele_arr_closed G (h_vars h) L EL) as [H1 H2]. rewrite H1.
    destruct (all_some (map (var_col G) (h_vars h))) as [jis|] eqn:Ea; [|reflexivity].
    rewrite (H2 jis eq_refl). reflexivity.
  - pose proof (lookup_notfound _ _ EL) as Hlt. apply Nat.ltb_lt in Hlt. rewrite Hlt.
    rewrite map_map in EL. apply all_some_None in EL. destruct EL as [v [Hin Hv]].
    rewrite (all_some_In_None (var_col G) (h_vars h) v Hin (var_col_notfound G v Hv)). reflexivity.
Qed.

Lemma hap_okb_all_some G h :
  hap_okb G h = true -> exists jis, all_some (map (var_col G) (h_vars h)) = Some jis.
Proof. unfold hap_okb. apply all_some_forallb. Qed.

Lemma hap_okb_false G h :
  hap_okb G h = false -> all_some (map (var_col G) (h_vars h)) = None.
Proof.
  unfold hap_okb. intros H. apply forallb_false_ex in H. destruct H as [v [Hin Hv]].
  apply (all_some_In_None (var_col G) _ v Hin). destruct (var_col G v); [discriminate|reflexivity].
Qed.

(* ---- matching one strand --------------------------------------------------- *)

Lemma row_match_vcheck G r hv : forall jis,
  Forall2 (fun v ji => var_col G v = Some ji) hv jis ->
  row_match (map snd jis) (map fst jis) r = forallb (vcheck G r) hv.
Proof.
  unfold row_match, sub_row. induction hv as [|v hv IH]; intros jis HF; inversion HF; subst; cbn.
  - reflexivity.
  - rewrite IH by assumption. unfold vcheck at 2.
    match goal with Hx : var_col G v = Some ?y |- _ => rewrite Hx; destruct y as [j i] end.
    reflexivity.
Qed.

Lemma anc_match_acheck G r l hv : forall jis,
  Forall2 (fun v ji => var_col G v = Some ji) hv jis ->
  anc_match (label_code (g_labels G) l) (map fst jis) r = forallb (acheck G r l) hv.
Proof.
  unfold anc_match. induction hv as [|v hv IH]; intros jis HF; inversion HF; subst; cbn.
  - reflexivity.
  - rewrite IH by assumption. f_equal.
    match goal with Hx : var_col G v = Some ?y |- _ => destruct y as [j i]; rename Hx into Hv end.
    unfold var_col in Hv. unfold acheck.
    destruct (find_var (hv_id v) (g_vars G) 0) as [[j' gv]|]; [|discriminate].
    destruct (index_of (hv_allele v) (gv_alleles gv)); [|discriminate].
    inversion Hv; subst. reflexivity.
Qed.

(* ---- closed forms of the two single-haplotype transforms -------------------- *)

Theorem hap_transform_closed G h :
  has_dup (map gv_id (g_vars G)) = false ->
  hap_transform h G = if hap_okb G h then Ok (spec_col G false h) else Err E_Value.
Proof.
  intros Hd. unfold hap_transform. rewrite (hap_prepare_closed G h Hd).
  destruct (hap_okb G h) eqn:Eok.
  - destruct (hap_okb_all_some G h Eok) as [jis Hj]. rewrite Hj.
    apply all_some_Forall2 in Hj.
    unfold spec_col, rows. rewrite map_map. f_equal. apply map_ext. intros d. cbn.
    rewrite !(row_match_vcheck G _ (h_vars h) jis Hj).
    unfold spec_strand. f_equal; apply forallb_ext'; intros v; rewrite andb_true_r; reflexivity.
  - rewrite (hap_okb_false G h Eok). reflexivity.
Qed.

Theorem hap_transform_anc_closed G h :
  has_dup (map gv_id (g_vars G)) = false ->
  hap_transform_anc h G = if hap_okb G h then Ok (spec_col G true h) else Err E_Value.
Proof.
  intros Hd. unfold hap_transform_anc, hap_transform_anc_gen. rewrite (hap_prepare_closed G h Hd).
  destruct (hap_okb G h) eqn:Eok.
  - destruct (hap_okb_all_some G h Eok) as [jis Hj]. rewrite Hj.
    apply all_some_Forall2 in Hj.
    unfold spec_col, rows. f_equal. apply map_ext. intros [d a]. cbn.
    rewrite !(row_match_vcheck G _ (h_vars h) jis Hj).
    rewrite !(anc_match_acheck G _ (h_anc h) (h_vars h) jis Hj).
    unfold spec_strand. rewrite !forallb_andb. reflexivity.
  - rewrite (hap_okb_false G h Eok). reflexivity.
Qed.

(* ---- declarative reading ----------------------------------------------------- *)

(* the strand [d] carries the allele listed for v: the genotype record with v's ID
   sits in column j, the allele is the i-th of its allele list, and the cell is i *)
Definition carries (G : geno) (d : srow) (v : hvar) : Prop :=
  exists j gv i, find_var (hv_id v) (g_vars G) 0 = Some (j, gv)
              /\ index_of (hv_allele v) (gv_alleles gv) = Some i /\ cell d j = i.

(* the strand's local ancestry [a] at v's record is the label l *)
Definition has_anc (G : geno) (a : srow) (l : Z) (v : hvar) : Prop :=
  exists j gv c, find_var (hv_id v) (g_vars G) 0 = Some (j, gv)
              /\ label_code (g_labels G) l = Some c /\ cell a j = c.

Lemma vcheck_spec G d v : vcheck G d v = true <-> carries G d v.
Proof.
  unfold vcheck, var_col, carries. split.
  - destruct (find_var (hv_id v) (g_vars G) 0) as [[j gv]|] eqn:E1; [|discriminate].
    destruct (index_of (hv_allele v) (gv_alleles gv)) as [i|] eqn:E2; [|discriminate].
    intros H. apply Z.eqb_eq in H. exists j, gv, i.
    split; [reflexivity|]. split; [exact E2|]. symmetry; exact H.
  - intros [j [gv [i [H1 [H2 H3]]]]]. rewrite H1, H2. apply Z.eqb_eq. symmetry; exact H3.
Qed.

Lemma acheck_spec G a l v : acheck G a l v = true <-> has_anc G a l v.
Proof.
  unfold acheck, has_anc. split.
  - destruct (find_var (hv_id v) (g_vars G) 0) as [[j gv]|] eqn:E1; [|discriminate].
    destruct (label_code (g_labels G) l) as [c|] eqn:E2; [|discriminate].
    intros H. apply Z.eqb_eq in H. exists j, gv, c.
    split; [reflexivity|]. split; [reflexivity|]. exact H.
  - intros [j [gv [c [H1 [H2 H3]]]]]. rewrite H1, H2. apply Z.eqb_eq. exact H3.
Qed.

Definition strand_prop (G : geno) (anc : bool) (h : hap) (d a : srow) : Prop :=
  forall v, In v (h_vars h) ->
    carries G d v /\ (anc = true -> has_anc G a (h_anc h) v).

Lemma spec_strand_spec G anc h d a :
  spec_strand G anc h d a = true <-> strand_prop G anc h d a.
Proof.
  unfold spec_strand, strand_prop. rewrite forallb_forall. split.
  - intros H v Hin. specialize (H v Hin). apply andb_true_iff in H. destruct H as [H1 H2].
    split; [apply vcheck_spec; exact H1|]. intros ->. apply acheck_spec. exact H2.
  - intros H v Hin. destruct (H v Hin) as [H1 H2]. apply andb_true_iff. split.
    + apply vcheck_spec. exact H1.
    + destruct anc; [|reflexivity]. apply acheck_spec. apply H2. reflexivity.
Qed.

(* a label that is not in the data's label dictionary matches nowhere (given at
   least one variant) and is never a reason to fail: see hap_transform_anc_closed,
   whose success condition [hap_okb] does not mention the label *)
Lemma absent_label_no_match G h d a :
  label_code (g_labels G) (h_anc h) = None -> h_vars h <> [] ->
  spec_strand G true h d a = false.
Proof.
  intros Hl Hne. unfold spec_strand. destruct (h_vars h) as [|v r]; [contradiction|]. cbn.
  unfold acheck. rewrite Hl.
  destruct (find_var (hv_id v) (g_vars G) 0) as [[j gv]|]; rewrite andb_false_r; reflexivity.
Qed.

(* cells of a specification column *)
Lemma spec_col_nth G anc h s da :
  nth_error (rows G anc) s = Some da ->
  nth_error (spec_col G anc h) s =
    Some (spec_strand G anc h (fst (fst da)) (fst (snd da)),
          spec_strand G anc h (snd (fst da)) (snd (snd da))).
Proof. intros H. unfold spec_col. rewrite nth_error_map, H. reflexivity. Qed.

Theorem hap_transform_spec_gen G (anc : bool) h col :
  has_dup (map gv_id (g_vars G)) = false ->
  (if anc then hap_transform_anc h G else hap_transform h G) = Ok col ->
  length col = length (rows G anc) /\
  forall s da, nth_error (rows G anc) s = Some da ->
    exists b0 b1, nth_error col s = Some (b0, b1)
      /\ (b0 = true <-> strand_prop G anc h (fst (fst da)) (fst (snd da)))
      /\ (b1 = true <-> strand_prop G anc h (snd (fst da)) (snd (snd da))).
Proof.
  intros Hd H.
  assert (Hc : col = spec_col G anc h).
  { destruct anc.
    - rewrite (hap_transform_anc_closed G h Hd) in H. destruct (hap_okb G h); inversion H; reflexivity.
    - rewrite (hap_transform_closed G h Hd) in H. destruct (hap_okb G h); inversion H; reflexivity. }
  subst col. split.
  - unfold spec_col. apply map_length.
  - intros s da Hs. rewrite (spec_col_nth G anc h s da Hs).
    eexists. eexists. split; [reflexivity|]. split; apply spec_strand_spec.
Qed.

(* the transform answers exactly when every variant and allele is present; an
   absent ancestry label never makes it fail *)
Theorem hap_transform_total G (anc : bool) h :
  has_dup (map gv_id (g_vars G)) = false ->
  (hap_okb G h = true ->
     exists col, (if anc then hap_transform_anc h G else hap_transform h G) = Ok col)
  /\ (hap_okb G h = false ->
     (if anc then hap_transform_anc h G else hap_transform h G) = Err E_Value).
Proof.
  intros Hd. destruct anc.
  - rewrite (hap_transform_anc_closed G h Hd). split; intros ->; [eexists|]; reflexivity.
  - rewrite (hap_transform_closed G h Hd). split; intros ->; [eexists|]; reflexivity.
Qed.

(* ---- soundness of the boolean checker for one haplotype ----------------------- *)

Lemma bb_eqb_spec x y : bb_eqb x y = true <-> x = y.
Proof.
  destruct x as [a b], y as [c d]. unfold bb_eqb. cbn. rewrite andb_true_iff, !Bool.eqb_true_iff.
  split; [intros [-> ->]; reflexivity | intros H; inversion H; auto].
Qed.

Lemma col_eqb_spec x y : col_eqb x y = true <-> x = y.
Proof. apply list_eqb_spec. apply bb_eqb_spec. Qed.

Lemma mat_eqb_spec x y : mat_eqb x y = true <-> x = y.
Proof. apply list_eqb_spec. apply col_eqb_spec. Qed.

Theorem holds_single1_sound G anc h o :
  holds_single1 G anc h o = true ->
  match o with
  | Ok col =>
      hap_presentb G h = true /\
      length col = length (rows G anc) /\
      forall s da, nth_error (rows G anc) s = Some da ->
        exists b0 b1, nth_error col s = Some (b0, b1)
          /\ (b0 = true <-> strand_prop G anc h (fst (fst da)) (fst (snd da)))
          /\ (b1 = true <-> strand_prop G anc h (snd (fst da)) (snd (snd da)))
  | Err _ => exists v, In v (h_vars h) /\ var_col G v = None   (* a variant or allele is absent *)
  end.
Proof.
  unfold holds_single1. destruct o as [col|k]; intros H.
  - apply andb_true_iff in H. destruct H as [H1 H2]. apply col_eqb_spec in H2. subst col.
    split; [exact H1|]. split; [unfold spec_col; apply map_length|].
    intros s da Hs. rewrite (spec_col_nth G anc h s da Hs).
    eexists. eexists. split; [reflexivity|]. split; apply spec_strand_spec.
  - apply negb_true_iff in H. unfold hap_okb in H. apply forallb_false_ex in H.
    destruct H as [v [Hin Hv]]. exists v. split; [exact Hin|]. destruct (var_col G v); [discriminate|reflexivity].
Qed.
