(* C04 - proofs, part 5: POP fields that say what the .bp file says give the same output.
     pop_bp_same_lemma : if the POP label of every sample x record of the genotype file is the label
        of the .bp tract covering that record (what simgenotype writes), transform_haps gives the same
        result whether ancestry is read from the POP fields or from the .bp file. *)
From HV Require Import Prelude Tracts C04_Model C04_Check C04_Proofs C04_ProofsSet C04_ProofsFile.

(* the POP matrix a .bp file prescribes for the samples and records of a genotype file *)
Definition bp_sample_rows (bp : list (Z * (list seg * list seg))) (vars : list gvar) (s : Z)
  : option sample_rows :=
  match find_bp s bp with
  | Some tr =>
      match all_some (strand_labels vars (fst tr)), all_some (strand_labels vars (snd tr)) with
      | Some a, Some b => Some (a, b)
      | _, _ => None
      end
  | None => None
  end.

Definition pop_from_bp (bp : list (Z * (list seg * list seg))) (samples : list Z) (vars : list gvar)
  : option (list sample_rows) :=
  all_some (map (bp_sample_rows bp vars) samples).

Lemma all_some_keep {A B} (f : A -> option B) : forall (l : list A) (m : list bool) (r : list B),
  all_some (map f l) = Some r -> all_some (map f (keep m l)) = Some (keep m r).
Proof.
  induction l as [|x l IH]; intros m r H; cbn in H.
  - inversion H. destruct m; reflexivity.
  - destruct (f x) as [y|] eqn:Ef; [|discriminate].
    destruct (all_some (map f l)) as [r'|] eqn:Er; cbn in H; [|discriminate].
    inversion H; subst. destruct m as [|b m]; [reflexivity|]. cbn [keep].
    destruct b; cbn; rewrite ?Ef, (IH m r' eq_refl); reflexivity.
Qed.

Lemma F2_keep {A B} (R : A -> B -> Prop) : forall l r (m : list bool),
  Forall2 R l r -> Forall2 R (keep m l) (keep m r).
Proof.
  intros l r m H. revert m. induction H as [|x y l r Hxy H IH]; intros m.
  - destruct m; constructor.
  - destruct m as [|b m]; [constructor|]. cbn. destruct b; [constructor; auto|auto].
Qed.

Lemma F2_impl' {A B} (R S : A -> B -> Prop) l r :
  (forall a b, R a b -> S a b) -> Forall2 R l r -> Forall2 S l r.
Proof. intros H HF. induction HF; constructor; auto. Qed.

Lemma bp_matrix_of_F2 bp vs : forall ss ms,
  Forall2 (fun s row => exists tr, find_bp s bp = Some tr /\ bp_rows vs tr = Ok row) ss ms ->
  exists ts, all_some (map (fun s => find_bp s bp) ss) = Some ts
             /\ sequence (map (bp_rows vs) ts) = Ok ms.
Proof.
  induction 1 as [|s row ss ms [tr [H1 H2]] HF [ts [I1 I2]]].
  - exists []. split; reflexivity.
  - exists (tr :: ts). cbn. rewrite H1, I1, H2, I2. split; reflexivity.
Qed.

Theorem pop_bp_same_lemma t bp m :
  pop_from_bp bp (t_samples t) (t_vars t) = Some m ->
  transform_haps (with_anc t (PopField m)) = transform_haps (with_anc t (BpFile bp)).
Proof.
  intros Hm. apply ancestry_source_irrelevant_lemma; [discriminate|discriminate|].
  cbn [ancestry_matrix].
  unfold pop_from_bp in Hm. apply all_some_Forall2 in Hm.
  assert (HF : Forall2 (fun s row => exists tr, find_bp s bp = Some tr
                          /\ bp_rows (t_loaded t) tr = Ok (keep_rows (t_vm t) row))
                       (t_out_samples t) (keep (t_sm t) m)).
  { unfold t_out_samples. apply F2_keep. eapply F2_impl'; [|exact Hm].
    intros s row Hs. unfold bp_sample_rows in Hs.
    destruct (find_bp s bp) as [tr|]; [|discriminate]. exists tr. split; [reflexivity|].
    destruct (all_some (strand_labels (t_vars t) (fst tr))) as [a|] eqn:Ea; [|discriminate].
    destruct (all_some (strand_labels (t_vars t) (snd tr))) as [b|] eqn:Eb; [|discriminate].
    inversion Hs; subst row. unfold bp_rows, strand_labels, t_loaded, keep_rows in *. cbn [fst snd].
    rewrite (all_some_keep _ _ (t_vm t) a Ea), (all_some_keep _ _ (t_vm t) b Eb). reflexivity. }
  assert (HF' : Forall2 (fun s row => exists tr, find_bp s bp = Some tr /\ bp_rows (t_loaded t) tr = Ok row)
                        (t_out_samples t) (map (keep_rows (t_vm t)) (keep (t_sm t) m))).
  { clear - HF. induction HF; cbn; constructor; auto. }
  destruct (bp_matrix_of_F2 bp (t_loaded t) _ _ HF') as [ts [T1 T2]].
  rewrite T1, T2. reflexivity.
Qed.
