(* C04 - proofs, part 5: POP fields that say what the .bp file says give the same output.
     pop_bp_same_lemma : if the POP label of every sample x record of the genotype file is the label
        of the .bp tract covering that record (what simgenotype writes), transform_haps gives the same
        result whether ancestry is read from the POP fields or from the .bp file. *)
From HV Require Import Prelude Tracts C04_Model C04_Check C04_Proofs C04_ProofsSet C04_ProofsFile.

(* the POP matrix a .bp file prescribes for the samples and records of a genotype file *)
Definition bp_sample_rows (bp : list (Z * (list seg * list seg))) (vars : list gvar) (s : Z)
  : option sample_rows :=
  match find_bp s bp with
  | Some tr =>
      match all_some (strand_labels vars (fst tr)), all_some (strand_labels vars (snd tr)) with
      | Some a, Some b => Some (a, b)
      | _, _ => None
      end
  | None => None
  end.

Definition pop_from_bp (bp : list (Z * (list seg * list seg))) (samples : list Z) (vars : list gvar)
  : option (list sample_rows) :=
  all_some (map (bp_sample_rows bp vars) samples).

Lemma all_some_keep {A B} (f : A -> option B) : forall (l : list A) (m : list bool) (r : list B),
  all_some (map f l) = Some r -> all_some (map f (keep m l)) = Some (keep m r).
Proof.
  induction l as [|x l IH]; intros m r H; cbn in H.
  - inversion H. destruct m; reflexivity.
  - destruct (f x) as [y|] eqn:Ef; [|discriminate].
    destruct (all_some (map f l)) as [r'|] eqn:Er; cbn in H; [|discriminate].
    inversion H; subst. destruct m as [|b m]; [reflexivity|]. cbn [keep].
    destruct b; cbn; rewrite ?Ef, (IH m r' eq_refl); reflexivity.
Qed.

Lemma F2_keep {A B} (R : A -> B -> Prop) : forall l r (m : list bool),
  Forall2 R l r -> Forall2 R (keep m l) (keep m r).
Proof.
  intros l r m H. revert m. induction H as [|x y l r Hxy H IH]; intros m.
  - destruct m; constructor.
  - destruct m as [|b m]; [constructor|]. cbn. destruct b; [constructor; auto|auto].
Qed.

Lemma F2_impl' {A B} (R S : A -> B -> Prop) l r :
  (forall a b, R a b -> S a b) -> Forall2 R l r -> Forall2 S l r.
Proof. intros H HF. induction HF; constructor; auto. Qed.

Lemma bp_matrix_of_F2 bp vs : forall ss ms,
  Forall2 (fun s row => exists tr, find_bp s bp = Some tr /\ bp_rows vs tr = Ok row) ss ms ->
  exists ts, all_some (map (fun s => find_bp s bp) ss) = Some ts
             /\ sequence (map (bp_rows vs) ts) = Ok ms.
Proof.
  induction 1 as [|s row ss ms [tr [H1 H2]] HF [ts [I1 I2]]].
  - exists []. split; reflexivity.
  - exists (tr :: ts). cbn. rewrite H1, I1, H2, I2. split; reflexivity.
Qed.

Theorem pop_bp_same_lemma t bp m :
  pop_from_bp bp (t_samples t) (t_vars t) = Some m ->
  transform_haps (with_anc t (PopField m)) = transform_haps (with_anc t (BpFile bp)).
Proof.
  intros Hm. apply ancestry_source_irrelevant_lemma; [discriminate|discriminate|].
  cbn [ancestry_matrix].
  unfold pop_from_bp in Hm. apply all_some_Forall2 in Hm.
  assert (HF : Forall2 (fun s row => exists tr, find_bp s bp = Some tr
                          /\ bp_rows (t_loaded t) tr = Ok (keep_rows (t_vm t) row))
                       (t_out_samples t) (keep (t_sm t) m)).
  { unfold t_out_samples. apply F2_keep. eapply F2_impl'; [|exact Hm].
    intros s row Hs. unfold bp_sample_rows in Hs.
    destruct (find_bp s bp) as [tr|]; [|discriminate]. exists tr. split; [reflexivity|].
    destruct (all_some (strand_labels (t_vars t) (fst tr))) as [a|] eqn:Ea; [|discriminate].
    destruct (all_some (strand_labels (t_vars t) (snd tr))) as [b|] eqn:Eb; [|discriminate].
    inversion Hs; subst row. unfold bp_rows, strand_labels, t_loaded, keep_rows in *. cbn [fst snd].
    rewrite (all_some_keep _ _ (t_vm t) a Ea), (all_some_keep _ _ (t_vm t) b Eb). reflexivity. }
  assert (HF' : Forall2 (fun s row => exists tr, find_bp s bp = Some tr /\ bp_rows (t_loaded t) tr = Ok row)
                        (t_out_samples t) (map (keep_rows (t_vm t)) (keep (t_sm t) m))).
  { clear - HF. induction HF; cbn; constructor; auto. }
  destruct (bp_matrix_of_F2 bp (t_loaded t) _ _ HF') as [ts [T1 T2]].
  rewrite T1, T2. reflexivity.
Qed.

(* ---- the repair of the allele index changes nothing on biallelic variants -------------------- *)

(* v's variant is present, has exactly two alleles, and v lists one of them *)
Definition bi_ok (G : geno) (v : hvar) : bool :=
  match find_var (hv_id v) (g_vars G) 0 with
  | Some (_, gv) =>
      match gv_alleles gv with
      | [r; b] => (hv_allele v =? r) || (hv_allele v =? b)
      | _ => false
      end
  | None => false
  end.

Lemma allele_index_bi a r b :
  (a =? r) || (a =? b) = true -> allele_index true a [r; b] = allele_index false a [r; b].
Proof.
  intros H. unfold allele_index, index_of. cbn. rewrite (Z.eqb_sym r a), (Z.eqb_sym b a).
  destruct (a =? r) eqn:E1; [reflexivity|]. cbn in H. rewrite H. reflexivity.
Qed.

Lemma allele_arr_legacy_eq G hv :
  forallb (bi_ok G) hv = true ->
  allele_arr true (map hv_allele hv) (map snd (lookup (map hv_id hv) (g_vars G)))
  = allele_arr false (map hv_allele hv) (map snd (lookup (map hv_id hv) (g_vars G))).
Proof.
  induction hv as [|v hv IH]; cbn; intros H; [reflexivity|].
  apply andb_true_iff in H. destruct H as [Hv Hr]. unfold lookup. cbn [map flat_map]. fold (lookup (map hv_id hv) (g_vars G)).
  unfold bi_ok in Hv. destruct (find_var (hv_id v) (g_vars G) 0) as [[j gv]|]; [|discriminate].
  cbn [app map snd allele_arr].
  destruct (gv_alleles gv) as [|r [|b [|c rest]]]; try discriminate.
  pose proof (allele_index_bi _ r b Hv) as E. unfold allele_index in E. rewrite <- E, (IH Hr). reflexivity.
Qed.

Theorem legacy_agrees_on_biallelic_lemma G h :
  forallb (bi_ok G) (h_vars h) = true ->
  hap_transform_anc_legacy h G = hap_transform_anc h G.
Proof.
  intros H. unfold hap_transform_anc_legacy, hap_transform_anc, hap_transform_anc_gen, hap_prepare.
  rewrite (allele_arr_legacy_eq G (h_vars h) H). reflexivity.
Qed.

Theorem legacy_set_agrees_on_biallelic_lemma G H0 :
  forallb (fun h => forallb (bi_ok G) (h_vars h)) (real_haps H0) = true ->
  haps_transform_anc_gen true false H0 G = haps_transform_anc H0 G.
Proof.
  intros H. unfold haps_transform_anc, haps_transform_anc_gen, haps_prepare.
  pose proof (allele_arr_legacy_eq G (map kv (keys_of (real_haps H0)))) as P.
  rewrite !map_map in P. cbn in P.
  change (fun x : key => fst x) with (@fst Z Z) in P.
  change (fun x : key => snd x) with (@snd Z Z) in P.
  unfold key in *. rewrite P; [reflexivity|].
  apply forallb_forall. intros v Hv. apply in_map_iff in Hv. destruct Hv as [k [<- Hk]].
  apply keys_of_In in Hk. destruct Hk as [h [v [Hh [Hv <-]]]].
  rewrite forallb_forall in H. specialize (H h Hh). rewrite forallb_forall in H. exact (H v Hv).
Qed.

(* ---- cells of the set-wise result, declaratively ------------------------------------------------ *)

Theorem set_cells_spec_lemma G (anc : bool) H0 recs M :
  has_dup (map gv_id (g_vars G)) = false ->
  set_tr anc H0 G = Ok (recs, M) ->
  forall s da i h, nth_error (rows G anc) s = Some da -> nth_error (real_haps H0) i = Some h ->
    exists row b0 b1, nth_error M s = Some row /\ nth_error row i = Some (b0, b1)
      /\ (b0 = true <-> strand_prop G anc h (fst (fst da)) (fst (snd da)))
      /\ (b1 = true <-> strand_prop G anc h (snd (fst da)) (snd (snd da))).
Proof.
  intros Hd Hs s da i h Hr Hi.
  destruct (haps_transform_closed_gen G anc H0 Hd) as [C1 C2].
  destruct (forallb (hap_okb G) (real_haps H0)) eqn:Eok.
  - rewrite (C1 eq_refl) in Hs. inversion Hs; subst.
    destruct (spec_mat_cell G anc (real_haps H0) s da i h Hr Hi) as [row [R1 R2]].
    exists row. eexists. eexists. split; [exact R1|]. split; [exact R2|]. split; apply spec_strand_spec.
  - destruct (C2 eq_refl) as [k [Hk _]]. rewrite Hk in Hs. discriminate.
Qed.
