(* C04 - the .bp loading of transform_haps, tied to C05's model of Breakpoints.population_array.
     bp_matrix_is_population_array_lemma :
        the label matrix the C04 model takes from a .bp file (label_at per sample, strand, record) is, for
        EVERY list of records - any order, chromosomes interleaved or not - exactly what C05's model of
        population_array (chromosome loop, boolean mask, searchsorted, scatter) returns; same errors
     pop_bp_closed_lemma :
        composed with C04_pop_bp_same: POP fields holding population_array's answer for the file's samples and
        records give the same transform_haps output as the .bp file itself
     bp_matrix_pick_lemma :
        re-ordering (any re-indexing of) the record list re-orders the matrix columns and nothing else *)
From HV Require Import Prelude Tracts C04_Model C04_Check C04_Proofs C04_ProofsSet C04_ProofsFile C04_ProofsAnc.
From HV Require BpText C05_Model C05_Proofs.

Definition var5 (v : gvar) : C05_Model.variant := C05_Model.mkvar (gv_chrom v) (gv_pos v).

(* a row of (strand 1, strand 2) label pairs as the pair of strand rows, and back *)
Definition unzip_row (row : list (Z * Z)) : sample_rows := (map fst row, map snd row).
Definition zip_row (ab : sample_rows) : list (Z * Z) := combine (fst ab) (snd ab).

Definition rmap {A B} (f : A -> B) (x : res A) : res B :=
  match x with Ok a => Ok (f a) | Err k => Err k end.

(* ---- one strand ------------------------------------------------------------------------------- *)

Lemma strand_cells blocks vs :
  C05_Model.mapM (C05_Proofs.cell blocks) (map var5 vs)
  = match all_some (strand_labels vs blocks) with Some a => Ok a | None => Err E_Value end.
Proof.
  unfold strand_labels. induction vs as [|v vs IH]; cbn [map C05_Model.mapM all_some]; [reflexivity|].
  unfold C05_Proofs.cell at 1. cbn [var5 C05_Model.vchrom C05_Model.vpos].
  destruct (label_at blocks (gv_chrom v) (gv_pos v)) as [l|]; cbn [bind]; [|reflexivity].
  rewrite IH. destruct (all_some (map (fun v0 => label_at blocks (gv_chrom v0) (gv_pos v0)) vs)); reflexivity.
Qed.

Lemma all_some_length {A} (l : list (option A)) r : all_some l = Some r -> length r = length l.
Proof.
  revert r. induction l as [|x l IH]; cbn; intros r H.
  - inversion H. reflexivity.
  - destruct x as [a|]; [|discriminate]. destruct (all_some l) as [t|]; cbn in H; [|discriminate].
    inversion H. cbn. f_equal. apply IH. reflexivity.
Qed.

Lemma map_fst_combine (a b : list Z) : length a = length b -> map fst (combine a b) = a.
Proof.
  revert b. induction a as [|x a IH]; intros [|y b] H; cbn in H; try discriminate; [reflexivity|].
  cbn. f_equal. apply IH. lia.
Qed.

Lemma map_snd_combine_Z (a b : list Z) : length a = length b -> map snd (combine a b) = b.
Proof.
  revert b. induction a as [|x a IH]; intros [|y b] H; cbn in H; try discriminate; [reflexivity|].
  cbn. f_equal. apply IH. lia.
Qed.

Lemma unzip_combine (a b : list Z) : length a = length b -> unzip_row (combine a b) = (a, b).
Proof.
  intros H. unfold unzip_row. rewrite (map_fst_combine a b H), (map_snd_combine_Z a b H). reflexivity.
Qed.

(* ---- one sample ---------------------------------------------------------------------------------- *)

Lemma sample_rows_bp vs (s : Z) (tr : list seg * list seg) :
  C05_Model.sample_rows (map var5 vs) (s, tr) = rmap zip_row (bp_rows vs tr).
Proof.
  unfold C05_Model.sample_rows, bp_rows. cbn [fst snd]. rewrite !C05_Proofs.strand_row_cellwise, !strand_cells.
  destruct (all_some (strand_labels vs (fst tr))) as [a|]; cbn [bind]; [|reflexivity].
  destruct (all_some (strand_labels vs (snd tr))) as [b|]; cbn [bind]; reflexivity.
Qed.

Lemma bp_rows_lengths vs tr ab :
  bp_rows vs tr = Ok ab -> length (fst ab) = length vs /\ length (snd ab) = length vs.
Proof.
  unfold bp_rows. destruct (all_some (strand_labels vs (fst tr))) as [a|] eqn:Ea; [|discriminate].
  destruct (all_some (strand_labels vs (snd tr))) as [b|] eqn:Eb; [|discriminate].
  intros H. inversion H; subst. cbn [fst snd]. apply all_some_length in Ea. apply all_some_length in Eb.
  unfold strand_labels in Ea, Eb. rewrite map_length in Ea, Eb. auto.
Qed.

(* ---- the matrix ------------------------------------------------------------------------------------ *)

Lemma zassoc_find_bp s (bp : list (Z * (list seg * list seg))) : C05_Model.zassoc s bp = find_bp s bp.
Proof.
  unfold C05_Model.zassoc. induction bp as [|[n t] r IH]; cbn [BpText.assoc find_bp]; [reflexivity|].
  rewrite (Z.eqb_sym s n). destruct (n =? s); [reflexivity|exact IH].
Qed.

Definition sel_fun (bp : list (Z * (list seg * list seg))) (s : Z) : res (Z * (list seg * list seg)) :=
  match C05_Model.zassoc s bp with Some b => Ok (s, b) | None => Err C05_Model.E_Key end.

Lemma select_all_some bp samples :
  C05_Model.mapM (sel_fun bp) samples
  = match all_some (map (fun s => find_bp s bp) samples) with
    | Some ts => Ok (combine samples ts)
    | None => Err E_Key
    end.
Proof.
  induction samples as [|s r IH]; cbn [C05_Model.mapM map all_some]; [reflexivity|].
  unfold sel_fun at 1. rewrite zassoc_find_bp. destruct (find_bp s bp) as [t|]; cbn [bind]; [|reflexivity].
  rewrite IH. destruct (all_some (map (fun s0 => find_bp s0 bp) r)) as [ts|]; reflexivity.
Qed.

Lemma rows_sequence vs (l : list (Z * (list seg * list seg))) :
  C05_Model.mapM (C05_Model.sample_rows (map var5 vs)) l
  = rmap (map zip_row) (sequence (map (fun e => bp_rows vs (snd e)) l)).
Proof.
  induction l as [|[s t] r IH]; cbn [C05_Model.mapM map sequence snd]; [reflexivity|].
  rewrite sample_rows_bp, IH. destruct (bp_rows vs t) as [ab|k]; cbn [rmap bind]; [|reflexivity].
  destruct (sequence (map (fun e => bp_rows vs (snd e)) r)) as [m|k]; reflexivity.
Qed.

Lemma map_snd_combine {A B C} (f : B -> C) : forall (l : list A) (r : list B),
  length r = length l -> map (fun e => f (snd e)) (combine l r) = map f r.
Proof.
  induction l as [|x l IH]; intros [|y r] H; cbn in H; try discriminate; [reflexivity|].
  cbn. f_equal. apply IH. lia.
Qed.

(* C05's population_array on the .bp table, for the loaded samples and ANY list of records, is the
   model's ancestry matrix (strand rows zipped into label pairs); errors included *)
Theorem bp_matrix_is_population_array_lemma bp samples vs sm vm :
  NoDup samples ->
  C05_Model.population_array bp (map var5 vs) (Some samples)
  = rmap (map zip_row) (ancestry_matrix false (BpFile bp) sm vm samples vs).
Proof.
  intros Hnd. unfold C05_Model.population_array, C05_Model.select. rewrite (C05_Proofs.dedup_NoDup samples Hnd).
  change (C05_Model.mapM _ samples) with (C05_Model.mapM (sel_fun bp) samples).
  rewrite select_all_some. cbn [ancestry_matrix].
  destruct (all_some (map (fun s => find_bp s bp) samples)) as [ts|] eqn:Ets; cbn [bind]; [|reflexivity].
  rewrite rows_sequence, map_snd_combine; [reflexivity|].
  apply all_some_length in Ets. rewrite map_length in Ets. exact Ets.
Qed.

Lemma sequence_rows_len (vs : list gvar) ts m :
  sequence (map (bp_rows vs) ts) = Ok m ->
  Forall (fun ab : sample_rows => length (fst ab) = length vs /\ length (snd ab) = length vs) m.
Proof.
  revert m. induction ts as [|t ts IH]; cbn [map sequence]; intros m H.
  - inversion H. constructor.
  - destruct (bp_rows vs t) as [ab|k] eqn:Eb; [|discriminate].
    destruct (sequence (map (bp_rows vs) ts)) as [m'|k]; cbn [bind] in H; [|discriminate].
    inversion H; subst. constructor; [apply (bp_rows_lengths vs t ab Eb)|apply IH; reflexivity].
Qed.

Lemma matrix_rows_len bp samples vs sm vm m :
  ancestry_matrix false (BpFile bp) sm vm samples vs = Ok m ->
  Forall (fun ab : sample_rows => length (fst ab) = length vs /\ length (snd ab) = length vs) m.
Proof.
  cbn [ancestry_matrix]. destruct (all_some (map (fun s => find_bp s bp) samples)) as [ts|]; [|discriminate].
  apply sequence_rows_len.
Qed.

Lemma unzip_zip_rows (vs : list gvar) (m : list sample_rows) :
  Forall (fun ab : sample_rows => length (fst ab) = length vs /\ length (snd ab) = length vs) m ->
  map unzip_row (map zip_row m) = m.
Proof.
  induction 1 as [|[a b] m [H1 H2] HF IH]; cbn [map]; [reflexivity|]. rewrite IH. f_equal.
  unfold zip_row. cbn [fst snd] in *. apply unzip_combine. congruence.
Qed.

Theorem bp_matrix_from_population_array_lemma bp samples vs sm vm arr :
  NoDup samples ->
  C05_Model.population_array bp (map var5 vs) (Some samples) = Ok arr ->
  ancestry_matrix false (BpFile bp) sm vm samples vs = Ok (map unzip_row arr).
Proof.
  intros Hnd H. rewrite (bp_matrix_is_population_array_lemma bp samples vs sm vm Hnd) in H.
  destruct (ancestry_matrix false (BpFile bp) sm vm samples vs) as [m|k] eqn:Em; cbn [rmap] in H; [|discriminate].
  inversion H; subst. rewrite (unzip_zip_rows vs m (matrix_rows_len bp samples vs sm vm m Em)). reflexivity.
Qed.

(* ---- composition with pop_bp_same ------------------------------------------------------------------ *)

Lemma bp_sample_rows_eq bp vs s :
  bp_sample_rows bp vs s
  = match find_bp s bp with
    | Some tr => match bp_rows vs tr with Ok ab => Some ab | Err _ => None end
    | None => None
    end.
Proof.
  unfold bp_sample_rows, bp_rows. destruct (find_bp s bp) as [tr|]; [|reflexivity].
  destruct (all_some (strand_labels vs (fst tr))); [|reflexivity].
  destruct (all_some (strand_labels vs (snd tr))); reflexivity.
Qed.

Lemma pop_from_bp_of_matrix bp vs sm vm : forall samples m,
  ancestry_matrix false (BpFile bp) sm vm samples vs = Ok m -> pop_from_bp bp samples vs = Some m.
Proof.
  unfold pop_from_bp. cbn [ancestry_matrix].
  induction samples as [|s r IH]; intros m H; cbn [map all_some] in *.
  - cbn in H. inversion H. reflexivity.
  - rewrite bp_sample_rows_eq. destruct (find_bp s bp) as [t|]; [|discriminate].
    destruct (all_some (map (fun s0 => find_bp s0 bp) r)) as [ts|]; cbn [option_map] in H; [|discriminate].
    cbn [map sequence] in H. destruct (bp_rows vs t) as [ab|k]; [|discriminate].
    destruct (sequence (map (bp_rows vs) ts)) as [m'|k] eqn:Es; cbn [bind] in H; [|discriminate].
    inversion H; subst. rewrite (IH m' eq_refl). reflexivity.
Qed.

(* POP fields that hold what Breakpoints.population_array (C05's model) returns for the samples and records
   of the genotype file - in whatever order the records are - give the same output as the .bp file *)
Theorem pop_bp_closed_lemma t bp arr :
  NoDup (t_samples t) ->
  C05_Model.population_array bp (map var5 (t_vars t)) (Some (t_samples t)) = Ok arr ->
  transform_haps (with_anc t (PopField (map unzip_row arr))) = transform_haps (with_anc t (BpFile bp)).
Proof.
  intros Hnd H. apply pop_bp_same_lemma.
  apply (pop_from_bp_of_matrix bp (t_vars t) [] [] (t_samples t)).
  apply bp_matrix_from_population_array_lemma; assumption.
Qed.

(* ---- re-ordering the records ----------------------------------------------------------------------- *)

Definition pick {A} (d : A) (idx : list nat) (l : list A) : list A := map (fun i => nth i l d) idx.
Definition pick_rows (idx : list nat) (ab : sample_rows) : sample_rows :=
  (pick 255 idx (fst ab), pick 255 idx (snd ab)).
Definition dgv : gvar := mkgv 0 0 0 [].

Lemma F2_nth {A B} (R : A -> B -> Prop) (da : A) (db : B) l r :
  Forall2 R l r -> forall i, (i < length l)%nat -> R (nth i l da) (nth i r db).
Proof.
  induction 1 as [|x y l r Hxy HF IH]; intros i Hi; cbn in Hi; [lia|].
  destruct i as [|i]; cbn; [exact Hxy|apply IH; lia].
Qed.

Lemma all_some_pick {A B} (f : A -> option B) (da : A) (db : B) l r idx :
  all_some (map f l) = Some r -> (forall i, In i idx -> (i < length l)%nat) ->
  all_some (map f (pick da idx l)) = Some (pick db idx r).
Proof.
  intros H Hi. apply all_some_Forall2 in H. unfold pick. induction idx as [|i idx IH]; cbn [map all_some]; [reflexivity|].
  rewrite (F2_nth _ da db l r H i (Hi i (or_introl eq_refl))).
  rewrite IH; [reflexivity|]. intros j Hj. apply Hi. right. exact Hj.
Qed.

Lemma bp_rows_pick vs tr ab idx :
  bp_rows vs tr = Ok ab -> (forall i, In i idx -> (i < length vs)%nat) ->
  bp_rows (pick dgv idx vs) tr = Ok (pick_rows idx ab).
Proof.
  unfold bp_rows, strand_labels. intros H Hi.
  destruct (all_some (map (fun v => label_at (fst tr) (gv_chrom v) (gv_pos v)) vs)) as [a|] eqn:Ea; [|discriminate].
  destruct (all_some (map (fun v => label_at (snd tr) (gv_chrom v) (gv_pos v)) vs)) as [b|] eqn:Eb; [|discriminate].
  inversion H; subst.
  rewrite (all_some_pick _ dgv 255 vs a idx Ea Hi), (all_some_pick _ dgv 255 vs b idx Eb Hi). reflexivity.
Qed.

(* for ANY re-indexing of the record list (in particular any permutation): the matrix of the re-ordered
   list is the matrix with its columns re-ordered the same way *)
Theorem bp_matrix_pick_lemma bp samples vs sm vm sm' vm' m idx :
  ancestry_matrix false (BpFile bp) sm vm samples vs = Ok m ->
  (forall i, In i idx -> (i < length vs)%nat) ->
  ancestry_matrix false (BpFile bp) sm' vm' samples (pick dgv idx vs) = Ok (map (pick_rows idx) m).
Proof.
  cbn [ancestry_matrix]. intros H Hi.
  destruct (all_some (map (fun s => find_bp s bp) samples)) as [ts|]; [|discriminate].
  revert m H. induction ts as [|t ts IH]; intros m H; cbn [map sequence] in *.
  - inversion H. reflexivity.
  - destruct (bp_rows vs t) as [ab|k] eqn:Eb; [|discriminate].
    destruct (sequence (map (bp_rows vs) ts)) as [m'|k]; cbn [bind] in H; [|discriminate].
    inversion H; subst. rewrite (bp_rows_pick vs t ab idx Eb Hi), (IH m' eq_refl). reflexivity.
Qed.
