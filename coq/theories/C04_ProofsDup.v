(* C04 - duplicate genotype IDs: what the in-memory transforms return for them, and the closed
   forms of all four transforms for EVERY genotype object (no "IDs are distinct" hypothesis).
     dup_ids_rejected_lemma   : two records with one ID -> all four transforms raise ValueError
                                (Genotypes.index refuses to build the ID index), whatever the haplotypes
     single_tr_closed_all     : single = Err if duplicate IDs, else spec column / Err if something absent
     set_tr_closed_all        : the same for the whole set
     single_tr_perm_all       : the order of a haplotype's V lines is irrelevant, for every G *)
From HV Require Import Prelude Tracts C04_Model C04_Check C04_Proofs C04_ProofsSet C04_ProofsPerm.
From Coq Require Import Permutation.

Definition dup_ids (G : geno) : bool := has_dup (map gv_id (g_vars G)).

Lemma hap_prepare_dup alt1 h G : dup_ids G = true -> hap_prepare alt1 h G = Err E_Value.
Proof. unfold dup_ids, hap_prepare. intros ->. reflexivity. Qed.

Lemma haps_prepare_dup alt1 H G : dup_ids G = true -> haps_prepare alt1 H G = Err E_Value.
Proof. unfold dup_ids, haps_prepare. cbv zeta. intros ->. reflexivity. Qed.

Theorem dup_ids_rejected_lemma G :
  dup_ids G = true ->
  (forall h, hap_transform h G = Err E_Value /\ hap_transform_anc h G = Err E_Value)
  /\ (forall H0, haps_transform H0 G = Err E_Value /\ haps_transform_anc H0 G = Err E_Value).
Proof.
  intros Hd. split.
  - intros h. unfold hap_transform, hap_transform_anc, hap_transform_anc_gen.
    rewrite !(hap_prepare_dup false h G Hd). split; reflexivity.
  - intros H0. unfold haps_transform, haps_transform_anc, haps_transform_anc_gen. cbn [andb].
    rewrite !(haps_prepare_dup false (real_haps H0) G Hd). split; reflexivity.
Qed.

Theorem single_tr_closed_all G (anc : bool) h :
  single_tr anc h G =
    if dup_ids G then Err E_Value
    else if hap_okb G h then Ok (spec_col G anc h) else Err E_Value.
Proof.
  destruct (dup_ids G) eqn:Ed.
  - destruct (dup_ids_rejected_lemma G Ed) as [S _]. destruct (S h) as [S1 S2].
    destruct anc; [exact S2|exact S1].
  - apply single_tr_closed. exact Ed.
Qed.

Theorem set_tr_closed_all G (anc : bool) H0 :
  let H := real_haps H0 in
  if dup_ids G then set_tr anc H0 G = Err E_Value
  else if forallb (hap_okb G) H then set_tr anc H0 G = Ok (recs_of H, spec_mat G anc H)
  else exists k, set_tr anc H0 G = Err k /\ (forallb (hap_presentb G) H = true -> k = E_Value).
Proof.
  intros H. destruct (dup_ids G) eqn:Ed.
  - destruct (dup_ids_rejected_lemma G Ed) as [_ S]. destruct (S H0) as [S1 S2].
    destruct anc; [exact S2|exact S1].
  - destruct (haps_transform_closed_gen G anc H0 Ed) as [C1 C2]. fold H in C1, C2.
    destruct (forallb (hap_okb G) H); [apply C1|apply C2]; reflexivity.
Qed.

(* the order of the V lines of a haplotype is irrelevant - for every genotype object *)
Theorem single_tr_perm_all G (anc : bool) h h' :
  Permutation (h_vars h) (h_vars h') -> h_anc h = h_anc h' ->
  single_tr anc h G = single_tr anc h' G.
Proof.
  intros P E. rewrite !single_tr_closed_all.
  rewrite (hap_okb_perm G h h' P), (spec_col_perm G anc h h' P E). reflexivity.
Qed.

(* the set-wise answer is the column-by-column single answer - for every genotype object *)
Theorem set_eq_single_all G (anc : bool) H0 recs M :
  set_tr anc H0 G = Ok (recs, M) ->
  recs = recs_of (real_haps H0)
  /\ forall i h, nth_error (real_haps H0) i = Some h -> single_tr anc h G = Ok (column_of M i).
Proof.
  intros Hs. pose proof (set_tr_closed_all G anc H0) as C. cbv zeta in C.
  destruct (dup_ids G) eqn:Ed; [congruence|].
  destruct (forallb (hap_okb G) (real_haps H0)) eqn:Eok.
  - rewrite C in Hs. inversion Hs; subst. split; [reflexivity|].
    intros i h Hn. rewrite single_tr_closed_all, Ed.
    rewrite forallb_forall in Eok. rewrite (Eok h (nth_error_In _ _ Hn)).
    rewrite (column_spec_mat G anc _ i h Hn). reflexivity.
  - destruct C as [k [Hk _]]. congruence.
Qed.
