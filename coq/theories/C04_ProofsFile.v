(* C04 - proofs (in progress) *)
From HV Require Import Prelude Tracts C04_Model C04_Check.
