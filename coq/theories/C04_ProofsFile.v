(* C04 - proofs, part 3: transform_haps.
     transform_haps_records_lemma : a successful run outputs exactly the selected
        haplotypes all of whose variants were loaded, in .hap order, with their
        (id, chrom, start); the samples are the requested ones in input order; and
        the matrix is the cell-by-cell specification on the loaded genotypes with
        the ancestry matrix of the chosen source.
     ancestry_source_irrelevant_lemma : POP fields and a .bp file describing the
        same ancestry give the same output. *)
From HV Require Import Prelude Tracts C04_Model C04_Check C04_Proofs C04_ProofsSet.

(* ---- the pieces of transform_haps, named ------------------------------------ *)

Definition t_sel (t : tinput) : list hap :=
  filter (hap_selected (region_for_haps t) (t_ids t)) (t_haps t).
Definition t_want (t : tinput) : list Z :=
  dedupZ [] (flat_map (fun h => map hv_id (h_vars h)) (real_haps (t_sel t))).
Definition t_vm (t : tinput) : list bool := map (var_selected (t_region t) (t_want t)) (t_vars t).
Definition t_sm (t : tinput) : list bool :=
  map (fun s => match t_samp t with None => true | Some l => memZ s l end) (t_samples t).
Definition t_loaded (t : tinput) : list gvar := keep (t_vm t) (t_vars t).
Definition t_out_samples (t : tinput) : list Z := keep (t_sm t) (t_samples t).
Definition t_loaded_data (t : tinput) : list sample_rows :=
  map (keep_rows (t_vm t)) (keep (t_sm t) (t_data t)).
(* the haplotypes that are written: selected H lines whose variants were all loaded *)
Definition t_out_haps (t : tinput) : list hap :=
  filter (transformable (map gv_id (t_loaded t))) (real_haps (t_sel t)).
Definition t_geno (t : tinput) (anc : list sample_rows) : geno :=
  mkg (t_out_samples t) (t_loaded t) (t_loaded_data t) anc (map (fun l => (l, l)) (labels_seen anc)).

Definition transform_haps_alt (t : tinput) : res tout :=
  match t_sel t with
  | [] => Err E_Value
  | _ =>
    if has_dup (map gv_id (t_loaded t)) then Err E_Value else
    let missing := (length (t_loaded t) <? length (t_want t))%nat in
    let sel' := if missing then t_out_haps t else t_sel t in
    match ancestry_matrix false (t_anc t) (t_sm t) (t_vm t) (t_out_samples t) (t_loaded t) with
    | Err k => Err k
    | Ok anc =>
      match set_tr (uses_anc t) sel' (t_geno t anc) with
      | Err k => Err k
      | Ok (recs, M) => Ok (recs, t_out_samples t, M)
      end
    end
  end.

Lemma transform_haps_alt_eq t : transform_haps t = transform_haps_alt t.
Proof.
  unfold transform_haps, transform_haps_gen, transform_haps_alt.
  cbv zeta. fold (t_sel t). destruct (t_sel t) as [|h0 sel0] eqn:Es; [reflexivity|]. rewrite <- Es.
  fold (t_want t). fold (t_vm t). fold (t_sm t). fold (t_loaded t). fold (t_out_samples t).
  fold (t_loaded_data t).
  destruct (has_dup (map gv_id (t_loaded t))); [reflexivity|].
  rewrite andb_false_r. cbn [andb]. fold (t_out_haps t).
  destruct (ancestry_matrix false (t_anc t) (t_sm t) (t_vm t) (t_out_samples t) (t_loaded t)) as [anc|k];
    [|reflexivity].
  fold (t_geno t anc). unfold set_tr, uses_anc, haps_transform_anc.
  destruct (t_anc t); reflexivity.
Qed.

(* ---- list facts ----------------------------------------------------------------- *)

Lemma keep_map_filter {A} (f : A -> bool) l : keep (map f l) l = filter f l.
Proof. induction l as [|x r IH]; cbn; [reflexivity|]. rewrite IH. reflexivity. Qed.

Lemma memZ_In x l : memZ x l = true <-> In x l.
Proof.
  unfold memZ. rewrite existsb_exists. split.
  - intros [y [Hin Hy]]. apply Z.eqb_eq in Hy. subst. exact Hin.
  - intros Hin. exists x. split; [exact Hin|apply Z.eqb_refl].
Qed.

Lemma has_dup_NoDup l : has_dup l = false -> NoDup l.
Proof.
  induction l as [|x r IH]; cbn; intros H; [constructor|].
  apply orb_false_iff in H. destruct H as [H1 H2]. constructor.
  - intros Hin. apply memZ_In in Hin. congruence.
  - apply IH. exact H2.
Qed.

Lemma dedupZ_In l : forall seen k, In k (dedupZ seen l) <-> In k l /\ ~ In k seen.
Proof.
  induction l as [|x r IH]; intros seen k; cbn.
  - tauto.
  - destruct (memZ x seen) eqn:E.
    + apply memZ_In in E. rewrite IH. split.
      * intros [H1 H2]. auto.
      * intros [[->|H1] H2]; [contradiction|auto].
    + assert (Hx : ~ In x seen).
      { intros Hc. apply memZ_In in Hc. congruence. }
      cbn. rewrite IH. cbn. split.
      * intros [->|[H1 H2]]; [auto|]. split; [auto|]. intros Hc. apply H2. auto.
      * intros [[->|H1] H2]; [auto|].
        destruct (Z.eq_dec x k) as [->|Hne]; [auto|].
        right. split; [exact H1|]. intros [Hc|Hc]; [contradiction|contradiction].
Qed.

Lemma dedupZ_NoDup l : forall seen, NoDup (dedupZ seen l).
Proof.
  induction l as [|x r IH]; intros seen; cbn; [constructor|].
  destruct (memZ x seen); [apply IH|]. constructor; [|apply IH].
  intros Hin. apply dedupZ_In in Hin. destruct Hin as [_ Hn]. apply Hn. left. reflexivity.
Qed.

Lemma filter_all_true {A} (g : A -> bool) l : (forall x, In x l -> g x = true) -> filter g l = l.
Proof.
  induction l as [|x r IH]; cbn; intros H; [reflexivity|].
  rewrite (H x (or_introl eq_refl)). f_equal. apply IH. intros y Hy. apply H. right. exact Hy.
Qed.

Lemma real_haps_idem_filter f l : real_haps (filter f (real_haps l)) = filter f (real_haps l).
Proof.
  unfold real_haps. apply filter_all_true. intros x Hx.
  apply filter_In in Hx. destruct Hx as [Hx _]. apply filter_In in Hx. destruct Hx as [_ Hx]. exact Hx.
Qed.

(* ---- when no wanted variant is missing, every selected haplotype is transformable ---- *)

Lemma loaded_ids_wanted t : incl (map gv_id (t_loaded t)) (t_want t).
Proof.
  intros id Hin. apply in_map_iff in Hin. destruct Hin as [v [<- Hv]].
  unfold t_loaded, t_vm in Hv. rewrite keep_map_filter in Hv. apply filter_In in Hv.
  destruct Hv as [_ Hs]. unfold var_selected in Hs. apply andb_true_iff in Hs. destruct Hs as [_ Hs].
  apply memZ_In. exact Hs.
Qed.

Lemma none_missing_all_transformable t :
  has_dup (map gv_id (t_loaded t)) = false ->
  (length (t_loaded t) <? length (t_want t))%nat = false ->
  t_out_haps t = real_haps (t_sel t).
Proof.
  intros Hd Hlen. apply Nat.ltb_ge in Hlen.
  assert (Hincl : incl (t_want t) (map gv_id (t_loaded t))).
  { apply NoDup_length_incl.
    - apply has_dup_NoDup. exact Hd.
    - rewrite map_length. exact Hlen.
    - apply loaded_ids_wanted. }
  unfold t_out_haps. apply filter_all_true. intros h Hh. unfold transformable.
  apply forallb_forall. intros v Hv. apply memZ_In. apply Hincl.
  unfold t_want. apply dedupZ_In. split; [|intros []].
  apply in_flat_map. exists h. split; [exact Hh|]. apply in_map. exact Hv.
Qed.

(* ---- the theorem -------------------------------------------------------------------- *)

Theorem transform_haps_records_lemma t recs samples M :
  transform_haps t = Ok (recs, samples, M) ->
  recs = recs_of (t_out_haps t)
  /\ samples = t_out_samples t
  /\ exists anc,
       ancestry_matrix false (t_anc t) (t_sm t) (t_vm t) (t_out_samples t) (t_loaded t) = Ok anc
       /\ M = spec_mat (t_geno t anc) (uses_anc t) (t_out_haps t)
       /\ forallb (hap_okb (t_geno t anc)) (t_out_haps t) = true.
Proof.
  rewrite transform_haps_alt_eq. unfold transform_haps_alt.
  destruct (t_sel t) as [|h0 sel0] eqn:Es; [discriminate|]. rewrite <- Es. clear h0 sel0 Es.
  destruct (has_dup (map gv_id (t_loaded t))) eqn:Ed; [discriminate|]. cbv zeta.
  destruct (ancestry_matrix false (t_anc t) (t_sm t) (t_vm t) (t_out_samples t) (t_loaded t)) as [anc|k] eqn:Ea;
    [|discriminate].
  set (sel' := if (length (t_loaded t) <? length (t_want t))%nat then t_out_haps t else t_sel t).
  assert (Hreal : real_haps sel' = t_out_haps t).
  { unfold sel'. destruct (length (t_loaded t) <? length (t_want t))%nat eqn:El.
    - unfold t_out_haps. apply real_haps_idem_filter.
    - symmetry. apply none_missing_all_transformable; assumption. }
  destruct (haps_transform_closed_gen (t_geno t anc) (uses_anc t) sel' Ed) as [C1 C2].
  rewrite Hreal in C1, C2.
  destruct (forallb (hap_okb (t_geno t anc)) (t_out_haps t)) eqn:Eok.
  - rewrite (C1 eq_refl). intros H. inversion H; subst.
    split; [reflexivity|]. split; [reflexivity|]. exists anc. auto.
  - destruct (C2 eq_refl) as [k [Hk _]]. rewrite Hk. discriminate.
Qed.

(* ---- the ancestry source is irrelevant ------------------------------------------------- *)

(* transform_haps uses the ancestry source only through the label matrix of the
   loaded samples x loaded variants: two inputs that differ only in the source and
   whose sources yield the same matrix give the same result (in particular POP
   fields and a .bp file that describe the same tracts) *)
Definition with_anc (t : tinput) (a : anc_source) : tinput :=
  mkt (t_samples t) (t_vars t) (t_data t) (t_haps t) (t_region t) (t_ids t) (t_samp t) a.

Theorem ancestry_source_irrelevant_lemma t a1 a2 :
  a1 <> NoAnc -> a2 <> NoAnc ->
  ancestry_matrix false a1 (t_sm t) (t_vm t) (t_out_samples t) (t_loaded t)
  = ancestry_matrix false a2 (t_sm t) (t_vm t) (t_out_samples t) (t_loaded t) ->
  transform_haps (with_anc t a1) = transform_haps (with_anc t a2).
Proof.
  intros H1 H2 Heq. rewrite !transform_haps_alt_eq. unfold transform_haps_alt.
  change (t_sel (with_anc t a1)) with (t_sel t). change (t_sel (with_anc t a2)) with (t_sel t).
  change (t_loaded (with_anc t a1)) with (t_loaded t). change (t_loaded (with_anc t a2)) with (t_loaded t).
  change (t_want (with_anc t a1)) with (t_want t). change (t_want (with_anc t a2)) with (t_want t).
  change (t_out_haps (with_anc t a1)) with (t_out_haps t). change (t_out_haps (with_anc t a2)) with (t_out_haps t).
  change (t_sm (with_anc t a1)) with (t_sm t). change (t_sm (with_anc t a2)) with (t_sm t).
  change (t_vm (with_anc t a1)) with (t_vm t). change (t_vm (with_anc t a2)) with (t_vm t).
  change (t_out_samples (with_anc t a1)) with (t_out_samples t).
  change (t_out_samples (with_anc t a2)) with (t_out_samples t).
  change (t_anc (with_anc t a1)) with a1. change (t_anc (with_anc t a2)) with a2.
  rewrite Heq.
  assert (U : uses_anc (with_anc t a1) = uses_anc (with_anc t a2)).
  { unfold uses_anc. cbn. destruct a1, a2; try reflexivity; contradiction. }
  rewrite U.
  destruct (t_sel t); [reflexivity|].
  destruct (has_dup (map gv_id (t_loaded t))); [reflexivity|]. cbv zeta.
  destruct (ancestry_matrix false a2 (t_sm t) (t_vm t) (t_out_samples t) (t_loaded t)); reflexivity.
Qed.

(* the matrix written into POP fields by a simulation is the one the .bp lookup
   yields: with [pop_of_bp] as the POP matrix both sources coincide *)
Definition pop_of_bp (bp : list (Z * (list seg * list seg))) (samples : list Z) (vs : list gvar)
  : res (list sample_rows) :=
  match all_some (map (fun s => find_bp s bp) samples) with
  | None => Err E_Key
  | Some ts => sequence (map (bp_rows vs) ts)
  end.
