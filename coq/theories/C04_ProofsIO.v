(* C04 - proofs about C04_ModelIO:
     read_lines_spec_lemma      Haplotypes.read's collection loop = its closed form, for EVERY list of lines
     read_lines_layout_lemma    the result depends only on the sequence of H/R lines and, per haplotype ID, on the
                                sequence of V lines naming it: V lines of different haplotypes may be interleaved in
                                any way, and stand before or after the H lines
     read_lines_HV_lemma        the lines of a haplotype list with distinct IDs read back as that list
     read_lines_any_layout_lemma  ... in every layout with the same projections
     bp_path_spec_lemma         bp_path_of (dir ++ stem ++ "." ++ ext) = dir ++ stem ++ ".bp" and the same for
                                "." ++ ext ++ ".gz", for EVERY stem (dots included) and directory (dots included)
     resolve_decoy_lemma        a .bp under any other name does not change the ancestry source *)
From HV Require Import Prelude Tracts C04_Model C04_ModelIO.

(* ---- (1) read_lines --------------------------------------------------------------------------------------- *)

Definition dstep (d : list hap) (h : hap) : list hap := dict_set h d.
Definition vstep (vh : list (Z * list hvar)) (kv : Z * hvar) : list (Z * list hvar) := vh_app (fst kv) (snd kv) vh.

Lemma read_loop_folds l : forall d vh,
  read_loop l d vh = (fold_left dstep (heads l) d, fold_left vstep (vpairs l) vh).
Proof.
  induction l as [|x l IH]; intros d vh; [reflexivity|].
  destruct x as [h|k v]; cbn [read_loop heads vpairs flat_map app]; rewrite IH; reflexivity.
Qed.

Definition get (k : Z) (vh : list (Z * list hvar)) : list hvar :=
  match find (fun kv : Z * list hvar => fst kv =? k) vh with Some kv => snd kv | None => [] end.

Definition keys (vh : list (Z * list hvar)) : list Z := map fst vh.

Definition vals (k : Z) (ps : list (Z * hvar)) : list hvar :=
  flat_map (fun kv : Z * hvar => if fst kv =? k then [snd kv] else []) ps.

Lemma get_vh_app k k' v vh : get k (vh_app k' v vh) = if k' =? k then get k vh ++ [v] else get k vh.
Proof.
  induction vh as [|[k0 vs] r IH].
  - unfold get. cbn. destruct (k' =? k); reflexivity.
  - cbn [vh_app]. destruct (k0 =? k') eqn:E0.
    + apply Z.eqb_eq in E0. subst k0. unfold get. cbn [find fst snd].
      destruct (k' =? k); reflexivity.
    + unfold get in *. cbn [find fst snd]. destruct (k0 =? k) eqn:E1.
      * apply Z.eqb_eq in E1. subst k0. rewrite Z.eqb_sym in E0. rewrite E0. reflexivity.
      * exact IH.
Qed.

Lemma keys_vh_app k v vh :
  keys (vh_app k v vh) = if existsb (Z.eqb k) (keys vh) then keys vh else keys vh ++ [k].
Proof.
  induction vh as [|[k0 vs] r IH]; [reflexivity|].
  cbn [vh_app keys map fst existsb]. destruct (k0 =? k) eqn:E0.
  - rewrite Z.eqb_sym in E0. rewrite E0. reflexivity.
  - rewrite Z.eqb_sym in E0. rewrite E0. cbn [orb map fst]. fold (keys r). fold (keys (vh_app k v r)).
    rewrite IH. destruct (existsb (Z.eqb k) (keys r)); reflexivity.
Qed.

Lemma existsb_eqb_In k l : existsb (Z.eqb k) l = true <-> In k l.
Proof.
  rewrite existsb_exists. split.
  - intros [x [Hx E]]. apply Z.eqb_eq in E. subst. exact Hx.
  - intros H. exists k. split; [exact H|apply Z.eqb_refl].
Qed.

Lemma nodup_snoc (l : list Z) k : NoDup l -> ~ In k l -> NoDup (l ++ [k]).
Proof.
  induction l as [|x r IH]; intros N H; cbn [app].
  - constructor; [intros []|constructor].
  - inversion N as [|? ? N1 N2]; subst. constructor.
    + intros Hin. apply in_app_iff in Hin. destruct Hin as [Hin|[Hin|[]]]; [auto|].
      subst. apply H. left. reflexivity.
    + apply IH; [exact N2|]. intros Hin. apply H. right. exact Hin.
Qed.

Lemma nodup_vh_app k v vh : NoDup (keys vh) -> NoDup (keys (vh_app k v vh)).
Proof.
  intros N. rewrite keys_vh_app. destruct (existsb (Z.eqb k) (keys vh)) eqn:E; [exact N|].
  apply nodup_snoc; [exact N|].
  intros Hin. apply existsb_eqb_In in Hin. congruence.
Qed.

Lemma In_keys_vh_app x k v vh : In x (keys (vh_app k v vh)) <-> In x (keys vh) \/ x = k.
Proof.
  rewrite keys_vh_app. destruct (existsb (Z.eqb k) (keys vh)) eqn:E.
  - apply existsb_eqb_In in E. split; [intros H; left; exact H|intros [H|H]; [exact H|subst; exact E]].
  - rewrite in_app_iff. cbn. intuition congruence.
Qed.

Definition vals_nonempty (vh : list (Z * list hvar)) : Prop := Forall (fun kv : Z * list hvar => snd kv <> []) vh.

Lemma nonempty_vh_app k v vh : vals_nonempty vh -> vals_nonempty (vh_app k v vh).
Proof.
  unfold vals_nonempty. induction vh as [|[k0 vs] r IH]; intros F.
  - constructor; [cbn; discriminate|constructor].
  - cbn [vh_app]. inversion F as [|? ? F1 F2]; subst. destruct (k0 =? k).
    + constructor; [cbn; destruct vs; discriminate|exact F2].
    + constructor; [exact F1|apply IH; exact F2].
Qed.

Lemma fold_vstep_props ps : forall vh,
  NoDup (keys vh) -> vals_nonempty vh ->
  let r := fold_left vstep ps vh in
  NoDup (keys r) /\ vals_nonempty r
  /\ (forall k, get k r = get k vh ++ vals k ps)
  /\ (forall x, In x (keys r) <-> In x (keys vh) \/ In x (map fst ps)).
Proof.
  induction ps as [|[k v] ps IH]; intros vh N E; cbn [fold_left].
  - repeat split; try assumption.
    + intros k. cbn. rewrite app_nil_r. reflexivity.
    + intros H. left. exact H.
    + intros [H|[]]. exact H.
  - unfold vstep at 2. cbn [fst snd].
    destruct (IH (vh_app k v vh) (nodup_vh_app k v vh N) (nonempty_vh_app k v vh E)) as [A [B [C D]]].
    repeat split; try assumption.
    + intros k0. rewrite C, get_vh_app. cbn [vals flat_map fst snd]. fold (vals k0 ps).
      destruct (k =? k0); [rewrite <- app_assoc|]; reflexivity.
    + intros H. apply D in H. destruct H as [H|H].
      * apply In_keys_vh_app in H. destruct H as [H|H]; [left; exact H|right; left; symmetry; exact H].
      * right. right. exact H.
    + intros H. apply D. destruct H as [H|[H|H]].
      * left. apply In_keys_vh_app. left. exact H.
      * left. apply In_keys_vh_app. right. cbn in H. symmetry. exact H.
      * right. exact H.
Qed.

Lemma vals_vpairs k l : vals k (vpairs l) = vlines_of k l.
Proof.
  induction l as [|x l IH]; [reflexivity|].
  destruct x as [h|k' v]; cbn [vpairs vlines_of flat_map app].
  - exact IH.
  - unfold vals. cbn [flat_map fst snd]. fold (vals k (vpairs l)). fold (vpairs l). fold (vlines_of k l).
    rewrite <- IH. reflexivity.
Qed.

(* assign_vars on a well-formed var_haps *)
Definition fill (vh : list (Z * list hvar)) (h : hap) : hap :=
  match get (h_id h) vh with [] => h | vs => with_vars h vs end.

Lemma has_id_set_vars k' k vs data : has_id k' (set_vars k vs data) = has_id k' data.
Proof.
  unfold has_id, set_vars. induction data as [|h r IH]; [reflexivity|].
  cbn [map existsb]. rewrite IH. destruct (h_id h =? k); reflexivity.
Qed.

Lemma get_not_key k vh : ~ In k (keys vh) -> get k vh = [].
Proof.
  unfold get. induction vh as [|[k0 vs] r IH]; intros H; [reflexivity|].
  cbn [find fst]. destruct (k0 =? k) eqn:E.
  - apply Z.eqb_eq in E. subst. exfalso. apply H. left. reflexivity.
  - apply IH. intros Hin. apply H. right. exact Hin.
Qed.

Lemma forallb_ext' {A} (f g : A -> bool) l : (forall x, f x = g x) -> forallb f l = forallb g l.
Proof. intros H. induction l as [|x r IH]; [reflexivity|]. cbn. rewrite H, IH. reflexivity. Qed.

Lemma assign_vars_closed vh : forall data,
  NoDup (keys vh) -> vals_nonempty vh ->
  assign_vars vh data =
    if forallb (fun kv : Z * list hvar => has_id (fst kv) data) vh then Ok (map (fill vh) data) else Err E_Key.
Proof.
  induction vh as [|[k vs] r IH]; intros data N E.
  - cbn. f_equal. symmetry. rewrite <- (map_id data) at 2. apply map_ext. intros h. reflexivity.
  - cbn [assign_vars forallb fst]. inversion N as [|? ? N1 N2]; subst. inversion E as [|? ? E1 E2]; subst.
    cbn [snd] in E1. destruct (has_id k data) eqn:Hk; [|reflexivity]. cbn [andb].
    rewrite (IH _ N2 E2).
    assert (Hf : forallb (fun kv : Z * list hvar => has_id (fst kv) (set_vars k vs data)) r
                 = forallb (fun kv : Z * list hvar => has_id (fst kv) data) r).
    { apply forallb_ext'. intros kv. apply has_id_set_vars. }
    rewrite Hf. clear Hf. destruct (forallb (fun kv : Z * list hvar => has_id (fst kv) data) r); [|reflexivity]. f_equal.
    unfold set_vars. rewrite map_map. apply map_ext. intros h.
    unfold fill at 2. unfold get. cbn [find fst snd]. rewrite (Z.eqb_sym k (h_id h)).
    destruct (h_id h =? k) eqn:Eh.
    + apply Z.eqb_eq in Eh. unfold fill. cbn [with_vars h_id]. rewrite Eh.
      rewrite (get_not_key k r N1). destruct vs; [congruence|reflexivity].
    + reflexivity.
Qed.

Lemma forallb_keys_equiv (P : Z -> bool) (A : list (Z * list hvar)) (B : list (Z * hvar)) :
  (forall x, In x (keys A) <-> In x (map fst B)) ->
  forallb (fun kv => P (fst kv)) A = forallb (fun kv => P (fst kv)) B.
Proof.
  intros H.
  destruct (forallb (fun kv => P (fst kv)) B) eqn:EB.
  - apply forallb_forall. intros kv Hin. rewrite forallb_forall in EB.
    assert (Hk : In (fst kv) (map fst B)) by (apply H; apply in_map; exact Hin).
    apply in_map_iff in Hk. destruct Hk as [kv' [E' Hin']]. rewrite <- E'. apply EB. exact Hin'.
  - destruct (forallb (fun kv => P (fst kv)) A) eqn:EA; [|reflexivity].
    rewrite forallb_forall in EA. assert (X : forallb (fun kv => P (fst kv)) B = true); [|congruence].
    apply forallb_forall. intros kv Hin.
    assert (Hk : In (fst kv) (keys A)) by (apply H; apply in_map; exact Hin).
    apply in_map_iff in Hk. destruct Hk as [kv' [E' Hin']]. rewrite <- E'. apply EA. exact Hin'.
Qed.

Theorem read_lines_spec_lemma l : read_lines l = read_spec l.
Proof.
  unfold read_lines, read_spec. rewrite read_loop_folds.
  destruct (fold_vstep_props (vpairs l) [] (NoDup_nil _) (Forall_nil _)) as [A [B [C D]]].
  rewrite (assign_vars_closed _ _ A B).
  change (fold_left dstep (heads l) []) with (dict_of (heads l)).
  rewrite (forallb_keys_equiv (fun k => has_id k (dict_of (heads l))) _ (vpairs l)).
  2:{ intros x. rewrite D. cbn. split; [intros [[]|H]; exact H|intros H; right; exact H]. }
  destruct (forallb _ (vpairs l)); [|reflexivity]. f_equal. apply map_ext. intros h.
  unfold fill. rewrite C. cbn [get find app]. rewrite vals_vpairs. reflexivity.
Qed.

Lemma forallb_vpairs_iff (P : Z -> bool) l :
  forallb (fun kv : Z * hvar => P (fst kv)) (vpairs l) = true <-> (forall k, vlines_of k l <> [] -> P k = true).
Proof.
  induction l as [|x l IH].
  - cbn. split; [intros _ k H; congruence|reflexivity].
  - destruct x as [h|k' v]; cbn [vpairs vlines_of flat_map app].
    + exact IH.
    + cbn [forallb fst]. fold (vpairs l). rewrite andb_true_iff, IH. split.
      * intros [H1 H2] k Hk. destruct (k' =? k) eqn:E.
        -- apply Z.eqb_eq in E. subst. exact H1.
        -- apply H2. exact Hk.
      * intros H. split.
        -- apply H. rewrite Z.eqb_refl. discriminate.
        -- intros k Hk. apply H. destruct (k' =? k); [discriminate|exact Hk].
Qed.

Theorem read_lines_layout_lemma l l' :
  heads l = heads l' -> (forall k, vlines_of k l = vlines_of k l') -> read_lines l = read_lines l'.
Proof.
  intros Hh Hv. rewrite !read_lines_spec_lemma. unfold read_spec. rewrite <- Hh.
  assert (Hf : forallb (fun kv : Z * hvar => has_id (fst kv) (dict_of (heads l))) (vpairs l)
               = forallb (fun kv : Z * hvar => has_id (fst kv) (dict_of (heads l))) (vpairs l')).
  { apply eq_true_iff_eq.
    rewrite (forallb_vpairs_iff (fun k => has_id k (dict_of (heads l))) l).
    rewrite (forallb_vpairs_iff (fun k => has_id k (dict_of (heads l))) l').
    split; intros H k Hk; apply H; [rewrite Hv|rewrite <- Hv]; exact Hk. }
  rewrite <- Hf. destruct (forallb _ (vpairs l)); [|reflexivity]. f_equal. apply map_ext. intros h.
  rewrite Hv. reflexivity.
Qed.

(* ---- the lines of a haplotype list read back as that list ------------------------------------------------- *)

Definition strip (h : hap) : hap := with_vars h [].

Lemma dict_set_fresh h d : ~ In (h_id h) (map h_id d) -> dict_set h d = d ++ [h].
Proof.
  induction d as [|x r IH]; intros H; [reflexivity|].
  cbn [dict_set]. destruct (h_id x =? h_id h) eqn:E.
  - apply Z.eqb_eq in E. exfalso. apply H. left. exact E.
  - cbn [app]. f_equal. apply IH. intros Hin. apply H. right. exact Hin.
Qed.

Lemma fold_dstep_nodup hs : forall d,
  NoDup (map h_id (d ++ hs)) -> fold_left dstep hs d = d ++ hs.
Proof.
  induction hs as [|h hs IH]; intros d N; cbn [fold_left].
  - rewrite app_nil_r. reflexivity.
  - unfold dstep at 2. rewrite dict_set_fresh.
    + rewrite IH; rewrite <- app_assoc; [reflexivity|exact N].
    + rewrite map_app in N. cbn [map] in N. apply NoDup_remove_2 in N. intros Hin. apply N.
      rewrite in_app_iff. left. exact Hin.
Qed.

Lemma heads_app a b : heads (a ++ b) = heads a ++ heads b.
Proof. unfold heads. apply flat_map_app. Qed.
Lemma vpairs_app a b : vpairs (a ++ b) = vpairs a ++ vpairs b.
Proof. unfold vpairs. apply flat_map_app. Qed.
Lemma vlines_of_app k a b : vlines_of k (a ++ b) = vlines_of k a ++ vlines_of k b.
Proof. unfold vlines_of. apply flat_map_app. Qed.

Lemma heads_LH hs : heads (map LH hs) = hs.
Proof. induction hs as [|h r IH]; [reflexivity|]. cbn. f_equal. exact IH. Qed.
Lemma vpairs_LH hs : vpairs (map LH hs) = [].
Proof. induction hs as [|h r IH]; [reflexivity|]. cbn. exact IH. Qed.
Lemma vlines_of_LH k hs : vlines_of k (map LH hs) = [].
Proof. induction hs as [|h r IH]; [reflexivity|]. cbn. exact IH. Qed.
Lemma heads_LV k vs : heads (map (LV k) vs) = [].
Proof. induction vs as [|v r IH]; [reflexivity|]. cbn. exact IH. Qed.
Lemma vlines_of_LV k k' vs : vlines_of k (map (LV k') vs) = if k' =? k then vs else [].
Proof.
  induction vs as [|v r IH]; [destruct (k' =? k); reflexivity|].
  cbn [map vlines_of flat_map]. fold (vlines_of k (map (LV k') r)). rewrite IH.
  destruct (k' =? k); reflexivity.
Qed.

Definition vblock (H : list hap) : list hline := flat_map (fun h => map (LV (h_id h)) (h_vars h)) H.

Lemma heads_vblock H : heads (vblock H) = [].
Proof.
  induction H as [|h r IH]; [reflexivity|]. unfold vblock. cbn [flat_map]. rewrite heads_app, heads_LV. exact IH.
Qed.

Lemma vlines_of_vblock_absent k H : ~ In k (map h_id H) -> vlines_of k (vblock H) = [].
Proof.
  induction H as [|h r IH]; intros Hn; [reflexivity|].
  unfold vblock. cbn [flat_map]. rewrite vlines_of_app, vlines_of_LV.
  destruct (h_id h =? k) eqn:E.
  - apply Z.eqb_eq in E. exfalso. apply Hn. left. exact E.
  - apply IH. intros Hin. apply Hn. right. exact Hin.
Qed.

Lemma vlines_of_vblock H : NoDup (map h_id H) -> forall h, In h H -> vlines_of (h_id h) (vblock H) = h_vars h.
Proof.
  induction H as [|x r IH]; intros N h Hin; [destruct Hin|].
  cbn [map] in N. inversion N as [|? ? N1 N2]; subst.
  unfold vblock. cbn [flat_map]. rewrite vlines_of_app, vlines_of_LV. fold (vblock r). destruct Hin as [->|Hin].
  - rewrite Z.eqb_refl. rewrite (vlines_of_vblock_absent _ _ N1). apply app_nil_r.
  - destruct (h_id x =? h_id h) eqn:E.
    + apply Z.eqb_eq in E. exfalso. apply N1. rewrite E. apply in_map. exact Hin.
    + apply IH; assumption.
Qed.

Lemma has_id_In k d : has_id k d = true <-> In k (map h_id d).
Proof.
  unfold has_id. rewrite existsb_exists. split.
  - intros [h [Hin E]]. apply Z.eqb_eq in E. subst. apply in_map. exact Hin.
  - intros H. apply in_map_iff in H. destruct H as [h [E Hin]]. exists h. split; [exact Hin|apply Z.eqb_eq; exact E].
Qed.

Lemma map_id_strip H : map h_id (map strip H) = map h_id H.
Proof. rewrite map_map. reflexivity. Qed.

Theorem read_lines_HV_lemma H : NoDup (map h_id H) -> read_lines (lines_HV H) = Ok H.
Proof.
  intros N. rewrite read_lines_spec_lemma. unfold read_spec, lines_HV.
  change (flat_map (fun h => map (LV (h_id h)) (h_vars h)) H) with (vblock H).
  change (map (fun h => LH (with_vars h [])) H) with (map (fun h => LH (strip h)) H).
  rewrite <- (map_map strip LH). rewrite heads_app, heads_LH, heads_vblock, app_nil_r.
  change (dict_of (map strip H)) with (fold_left dstep (map strip H) []). rewrite (fold_dstep_nodup (map strip H) []); [|cbn [app]; rewrite map_id_strip; exact N].
  cbn [app].
  assert (Hall : forallb (fun kv : Z * hvar => has_id (fst kv) (map strip H))
                         (vpairs (map LH (map strip H) ++ vblock H)) = true).
  { apply (forallb_vpairs_iff (fun k => has_id k (map strip H))). intros k Hk.
    apply has_id_In. rewrite map_id_strip.
    destruct (in_dec Z.eq_dec k (map h_id H)) as [Hin|Hn]; [exact Hin|].
    exfalso. apply Hk. rewrite vlines_of_app, vlines_of_LH. cbn [app]. apply vlines_of_vblock_absent. exact Hn. }
  rewrite Hall. f_equal. rewrite map_map. rewrite <- (map_id H) at 2. apply map_ext_in. intros h Hin.
  rewrite vlines_of_app, vlines_of_LH. cbn [app strip with_vars h_id].
  rewrite (vlines_of_vblock H N h Hin).
  destruct h as [i c s e a vs rp]. cbn. destruct vs; reflexivity.
Qed.

Theorem read_lines_any_layout_lemma H l :
  NoDup (map h_id H) ->
  heads l = map strip H -> (forall h, In h H -> vlines_of (h_id h) l = h_vars h) ->
  (forall k, ~ In k (map h_id H) -> vlines_of k l = []) ->
  read_lines l = Ok H.
Proof.
  intros N Hh Hv Hn. rewrite <- (read_lines_HV_lemma H N). apply read_lines_layout_lemma.
  - unfold lines_HV. change (map (fun h => LH (with_vars h [])) H) with (map (fun h => LH (strip h)) H).
    rewrite <- (map_map strip LH). rewrite heads_app, heads_LH. fold (vblock H). rewrite heads_vblock, app_nil_r.
    exact Hh.
  - intros k. unfold lines_HV. rewrite vlines_of_app.
    change (map (fun h => LH (with_vars h [])) H) with (map (fun h => LH (strip h)) H).
    rewrite <- (map_map strip LH). rewrite vlines_of_LH. cbn [app]. fold (vblock H).
    destruct (in_dec Z.eq_dec k (map h_id H)) as [Hin|Hno].
    + apply in_map_iff in Hin. destruct Hin as [h [E Hin]]. subst k.
      rewrite (Hv h Hin), (vlines_of_vblock H N h Hin). reflexivity.
    + rewrite (Hn k Hno), (vlines_of_vblock_absent k H Hno). reflexivity.
Qed.

(* an instance: two haplotypes, V lines round-robin / around the H lines / V lines first *)
Definition ex_h0 := mkh 1 7 10 21 0 [mkhv 50 3; mkhv 51 4] false.
Definition ex_h1 := mkh 2 7 10 21 0 [mkhv 50 2; mkhv 51 4] false.
Definition ex_r := mkh 3 7 12 14 0 [] true.

Lemma read_lines_example :
  NoDup (map h_id [ex_h0; ex_r; ex_h1])
  /\ read_lines [LH (strip ex_h0); LH ex_r; LH (strip ex_h1);
                 LV 1 (mkhv 50 3); LV 2 (mkhv 50 2); LV 1 (mkhv 51 4); LV 2 (mkhv 51 4)] = Ok [ex_h0; ex_r; ex_h1]
  /\ read_lines [LV 2 (mkhv 50 2); LV 1 (mkhv 50 3); LH (strip ex_h0); LV 2 (mkhv 51 4); LH ex_r; LH (strip ex_h1);
                 LV 1 (mkhv 51 4)] = Ok [ex_h0; ex_r; ex_h1]
  /\ read_lines [LH (strip ex_h0); LV 9 (mkhv 50 3)] = Err E_Key.
Proof.
  split; [|vm_compute; repeat split].
  repeat constructor; cbn; intuition discriminate.
Qed.

(* ---- (2) the path of the breakpoints file ----------------------------------------------------------------- *)

Lemma split_last_none c l : ~ In c l -> split_last c l = None.
Proof.
  induction l as [|x r IH]; intros H; [reflexivity|].
  cbn [split_last]. rewrite IH; [|intros Hin; apply H; right; exact Hin].
  destruct (x =? c) eqn:E; [|reflexivity]. apply Z.eqb_eq in E. exfalso. apply H. left. exact E.
Qed.

Lemma split_last_app c a b : ~ In c b -> split_last c (a ++ c :: b) = Some (a, b).
Proof.
  intros H. induction a as [|x r IH].
  - cbn [app split_last]. rewrite (split_last_none c b H), Z.eqb_refl. reflexivity.
  - cbn [app split_last]. rewrite IH. reflexivity.
Qed.

Lemma suffix_split_ext stem ext :
  stem <> [] -> ext <> [] -> ~ In c_dot ext -> suffix_split (stem ++ c_dot :: ext) = (stem, c_dot :: ext).
Proof.
  intros Hs He Hd. unfold suffix_split. rewrite (split_last_app c_dot stem ext Hd).
  destruct stem; [congruence|]. destruct ext; [congruence|]. reflexivity.
Qed.

Lemma str_eqb_spec a b : str_eqb a b = true <-> a = b.
Proof. apply list_eqb_spec. intros x y. apply Z.eqb_eq. Qed.

Lemma str_eqb_neq a b : a <> b -> str_eqb a b = false.
Proof. intros H. destruct (str_eqb a b) eqn:E; [|reflexivity]. apply str_eqb_spec in E. congruence. Qed.

Lemma bp_name_ext stem ext :
  stem <> [] -> ext <> [] -> ~ In c_dot ext -> ext <> [103; 122] ->
  bp_name_of (stem ++ c_dot :: ext) = stem ++ s_bp.
Proof.
  intros Hs He Hd Hg. unfold bp_name_of, suffix_of, with_suffix.
  rewrite (suffix_split_ext stem ext Hs He Hd). cbn [fst snd].
  rewrite str_eqb_neq; [reflexivity|]. unfold s_gz, c_dot. intros E. inversion E. congruence.
Qed.

Lemma bp_name_gz stem ext :
  stem <> [] -> ext <> [] -> ~ In c_dot ext ->
  bp_name_of (stem ++ c_dot :: ext ++ s_gz) = stem ++ s_bp.
Proof.
  intros Hs He Hd. unfold bp_name_of, suffix_of, with_suffix.
  assert (E1 : suffix_split (stem ++ c_dot :: ext ++ s_gz) = (stem ++ c_dot :: ext, s_gz)).
  { change (stem ++ c_dot :: ext ++ s_gz) with (stem ++ (c_dot :: ext) ++ c_dot :: [103; 122]).
    rewrite app_assoc. apply suffix_split_ext.
    - destruct stem; discriminate.
    - discriminate.
    - unfold c_dot. cbn. intuition discriminate. }
  rewrite E1. cbn [fst snd]. assert (Eg : str_eqb s_gz s_gz = true) by (apply str_eqb_spec; reflexivity).
  rewrite Eg. cbn [fst]. rewrite app_nil_r. rewrite (suffix_split_ext stem ext Hs He Hd). reflexivity.
Qed.

Definition dir_part (d : list Z) : Prop := d = [] \/ exists d', d = d' ++ [c_slash].

Lemma split_dir_join d n : dir_part d -> ~ In c_slash n -> split_dir (d ++ n) = (d, n).
Proof.
  intros [->|[d' ->]] Hn; unfold split_dir.
  - cbn [app]. rewrite (split_last_none c_slash n Hn). reflexivity.
  - rewrite <- app_assoc. cbn [app]. rewrite (split_last_app c_slash d' n Hn). reflexivity.
Qed.

Lemma not_in_app (c : Z) a b : ~ In c a -> ~ In c b -> ~ In c (a ++ b).
Proof. intros Ha Hb H. apply in_app_iff in H. destruct H; auto. Qed.

Theorem bp_path_spec_lemma d stem ext :
  dir_part d -> stem <> [] -> ~ In c_slash stem ->
  ext <> [] -> ~ In c_dot ext -> ~ In c_slash ext ->
  (ext <> [103; 122] -> bp_path_of (d ++ stem ++ c_dot :: ext) = Ok (d ++ stem ++ s_bp))
  /\ bp_path_of (d ++ stem ++ c_dot :: ext ++ s_gz) = Ok (d ++ stem ++ s_bp).
Proof.
  intros Hd Hs Hss He Hed Hes. split.
  - intros Hg. unfold bp_path_of. rewrite (split_dir_join d (stem ++ c_dot :: ext) Hd).
    + rewrite (bp_name_ext stem ext Hs He Hed Hg). destruct stem; [congruence|reflexivity].
    + apply not_in_app; [exact Hss|]. intros [H|H]; [discriminate|auto].
  - unfold bp_path_of. rewrite (split_dir_join d (stem ++ c_dot :: ext ++ s_gz) Hd).
    + rewrite (bp_name_gz stem ext Hs He Hed). destruct stem; [congruence|reflexivity].
    + apply not_in_app; [exact Hss|]. intros [H|H]; [discriminate|].
      apply in_app_iff in H. destruct H as [H|H]; [auto|]. cbn in H. intuition discriminate.
Qed.

(* "d.v1/cohort.chr1.vcf.gz", "sim.v2.pgen", ".hidden.vcf", "x.vcf.vcf.gz", "a.b/c.d/g.bcf"; what a derivation that
   strips every suffix would answer differs; an upper-case ".GZ" is not recognised (recorded behaviour) *)
Lemma bp_path_examples :
  bp_path_of [100;46;118;49;47;99;111;104;111;114;116;46;99;104;114;49;46;118;99;102;46;103;122]
    = Ok [100;46;118;49;47;99;111;104;111;114;116;46;99;104;114;49;46;98;112]
  /\ bp_path_of [115;105;109;46;118;50;46;112;103;101;110] = Ok [115;105;109;46;118;50;46;98;112]
  /\ bp_path_of [46;104;105;100;100;101;110;46;118;99;102] = Ok [46;104;105;100;100;101;110;46;98;112]
  /\ bp_path_of [120;46;118;99;102;46;118;99;102;46;103;122] = Ok [120;46;118;99;102;46;98;112]
  /\ bp_path_of [97;46;98;47;99;46;100;47;103;46;98;99;102] = Ok [97;46;98;47;99;46;100;47;103;46;98;112]
  /\ bp_path_of [120;46;86;67;70;46;71;90] = Ok [120;46;86;67;70;46;98;112]
  /\ bp_path_of [46;118;99;102] = Ok [46;118;99;102;46;98;112]
  /\ bp_path_of [100;47] = Err E_Value
  /\ is_pgen [115;105;109;46;118;50;46;112;103;101;110] = true
  /\ is_pgen [83;46;112;103;101;110;46;118;99;102;46;103;122] = false.
Proof. vm_compute. repeat split. Qed.

(* a .bp under any other name - another data set's, a stale one - does not change the ancestry source *)
Theorem resolve_decoy_lemma anc gt p q t files :
  bp_path_of gt = Ok p -> q <> p ->
  resolve_source anc gt ((q, t) :: files) = resolve_source anc gt files.
Proof.
  intros Hp Hq. unfold resolve_source. rewrite Hp. cbn [file_tag]. rewrite (str_eqb_neq q p Hq). reflexivity.
Qed.

(* with --ancestry: the .bp named after the genotypes file when it exists; else POP fields (VCF/BCF) or a refusal (PGEN) *)
Theorem resolve_source_spec_lemma gt p files :
  bp_path_of gt = Ok p ->
  resolve_source false gt files = SNone
  /\ (forall t, file_tag p files = Some t -> resolve_source true gt files = SBp t)
  /\ (file_tag p files = None ->
      resolve_source true gt files = if is_pgen gt then SFail E_Value else SPop).
Proof.
  intros Hp. unfold resolve_source. rewrite Hp. cbn [negb]. repeat split.
  - intros t ->. reflexivity.
  - intros ->. reflexivity.
Qed.

(* ---- what the new clauses of agree mean, and that holds is the one of C04_CheckOpt ------------------------- *)
From HV Require Import C04_Check C04_ModelOpt C04_CheckOpt C04_CheckIO.

Lemma hvar_eqb_spec a b : hvar_eqb a b = true <-> a = b.
Proof.
  unfold hvar_eqb. rewrite andb_true_iff, !Z.eqb_eq. destruct a, b; cbn. split.
  - intros [-> ->]. reflexivity.
  - intros E. inversion E. split; reflexivity.
Qed.

Lemma hap_eqb_spec a b : hap_eqb a b = true <-> a = b.
Proof.
  unfold hap_eqb. rewrite !andb_true_iff, !Z.eqb_eq, (list_eqb_spec hvar_eqb hvar_eqb_spec), Bool.eqb_true_iff.
  destruct a, b; cbn. split.
  - intros [[[[[[-> ->] ->] ->] ->] ->] ->]. reflexivity.
  - intros E. inversion E. repeat split; reflexivity.
Qed.

Theorem check_filen_holds_lemma c : snd (check_filen c) = holds_fileo (n_o c).
Proof. unfold check_filen, check_fileo. reflexivity. Qed.

Theorem check_filen_agree_lemma c :
  fst (check_filen c) = true -> fst (check_fileo (n_o c)) = true /\ io_agrees c = true.
Proof.
  unfold check_filen. destruct (check_fileo (n_o c)) as [a h]. cbn [fst]. intros H.
  apply andb_true_iff in H. exact H.
Qed.

Theorem io_agrees_sound_lemma gt anc files seen lines t :
  io_agrees_of gt anc files seen lines t = true ->
  (forall p, In p seen -> bp_path_of gt = Ok p)
  /\ src_agrees (resolve_source anc gt files) (t_anc t) = true
  /\ (lines <> [] -> read_lines lines = Ok (t_haps t)).
Proof.
  unfold io_agrees_of. rewrite !andb_true_iff. intros [[Hp Hs] Hl]. repeat split.
  - intros p Hin. unfold paths_agree in Hp. rewrite forallb_forall in Hp. specialize (Hp p Hin).
    destruct (bp_path_of gt) as [q|k]; cbn in Hp; [|discriminate].
    apply str_eqb_spec in Hp. subst. reflexivity.
  - exact Hs.
  - intros Hne. unfold lines_agree in Hl. destruct lines as [|x l]; [congruence|].
    destruct (read_lines (x :: l)) as [hs|k]; cbn in Hl; [|discriminate].
    apply (list_eqb_spec hap_eqb hap_eqb_spec) in Hl. subst. reflexivity.
Qed.

(* the resolved source agrees with the logical input: POP fields only when no .bp of the derived name exists, a .bp
   only when it is the one tagged 0 *)
Theorem src_agrees_meaning_lemma s a :
  src_agrees s a = true ->
  match a with
  | NoAnc => s = SNone
  | PopField _ => s = SPop
  | BpFile _ => s = SBp 0
  end.
Proof.
  destruct s, a; cbn; intros H; try discriminate; try reflexivity.
  apply Z.eqb_eq in H. subst. reflexivity.
Qed.
