(* C04 - proofs about C04_ModelOpt / C04_CheckOpt: missing and unphased calls, --discard-missing, --maf,
   --chunk-size, the width of the ancestry codes.
     opt_default_lemma         without options, missing / unphased calls and with <= 256 labels, transform_haps_o IS
                               transform_haps: every theorem about transform_haps carries over
     opt_ok_domain_lemma       an answer is only ever given on an input of the property's domain (phased; complete
                               unless --discard-missing; <= 256 labels)
     expected_restrict_lemma   the file-level specification of the input restricted to some samples = the rows of
                               those samples in the specification of the whole input
     opt_closed_lemma          on the domain and a well-formed surviving input, the answer is the specification of
                               the surviving samples, filtered by --maf
     maf_filter_spec_lemma     what the --maf filter keeps
     holds_o_sound_lemma       soundness of the checker evaluated on the implementation's output *)
From HV Require Import Prelude Tracts C04_Model C04_Check C04_CheckSeq C04_Proofs C04_ProofsSet C04_ProofsFile
  C04_ProofsSpec C04_ProofsTotal C04_ModelOpt C04_CheckOpt.

(* ---- list facts about keep ------------------------------------------------------------------------------ *)

Lemma keep_nil_r {A} (m : list bool) : keep m (@nil A) = [].
Proof. destruct m as [|[] m]; reflexivity. Qed.

Lemma keep_map_comm {A B} (f : A -> B) : forall m l, map f (keep m l) = keep m (map f l).
Proof.
  induction m as [|b m IH]; intros l; [reflexivity|].
  destruct l as [|x l]; [reflexivity|]. cbn. destruct b; cbn; rewrite IH; reflexivity.
Qed.

Lemma keep_combine2 {A B} : forall m (a : list A) (b : list B),
  combine (keep m a) (keep m b) = keep m (combine a b).
Proof.
  induction m as [|x m IH]; intros a b; [reflexivity|].
  destruct a as [|p a]; [reflexivity|].
  destruct b as [|q b].
  - cbn. destruct x; cbn; destruct (keep m a); reflexivity.
  - cbn. destruct x; cbn; rewrite IH; reflexivity.
Qed.

Lemma filter_keep {A} (f : A -> bool) : forall l m,
  filter f (keep m l) = keep (keep (map f l) m) (filter f l).
Proof.
  induction l as [|x l IH]; intros m.
  - rewrite keep_nil_r. cbn. reflexivity.
  - destruct m as [|b m]; [reflexivity|].
    cbn. destruct (f x) eqn:Ef; destruct b; cbn; rewrite ?Ef, IH; reflexivity.
Qed.

Lemma keep_all_true {A} : forall m (l : list A),
  all_true m = true -> length m = length l -> keep m l = l.
Proof.
  induction m as [|b m IH]; intros l Ht Hl; destruct l as [|x l]; try discriminate; [reflexivity|].
  cbn in Ht. apply andb_true_iff in Ht. destruct Ht as [Hb Ht]. subst b. cbn.
  f_equal. apply IH; [exact Ht|]. cbn in Hl. congruence.
Qed.

Lemma keep_const_true {A B} : forall (d : list B) (l : list A),
  length d = length l -> keep (map (fun _ => true) d) l = l.
Proof.
  induction d as [|y d IH]; intros l Hl; destruct l as [|x l]; try discriminate; [reflexivity|].
  cbn. f_equal. apply IH. cbn in Hl. congruence.
Qed.

Lemma nth_keep_mask_length {A} : forall (m : list bool) (l : list A),
  length m = length l -> length (keep m l) = length (filter (fun b => b) m).
Proof.
  induction m as [|b m IH]; intros l Hl; destruct l as [|x l]; try discriminate; [reflexivity|].
  cbn in Hl. cbn. destruct b; cbn; rewrite IH; congruence.
Qed.

(* ---- the restricted input ---------------------------------------------------------------------------------- *)

Lemma pop_rows_restrict m t : pop_rows (restrict m t) = keep m (pop_rows t).
Proof.
  unfold pop_rows, restrict. cbn [t_anc t_samples].
  destruct (t_anc t); try reflexivity; apply keep_map_comm.
Qed.

Lemma fcell_restrict m t s d pr strand h : fcell (restrict m t) s d pr strand h = fcell t s d pr strand h.
Proof.
  unfold fcell, uses_anc, anc_label, avail, restrict. cbn [t_vars t_region t_anc].
  destruct (t_anc t); reflexivity.
Qed.

Lemma expected_haps_restrict m t : f_expected_haps (restrict m t) = f_expected_haps t.
Proof. reflexivity. Qed.

Lemma t_sel_restrict m t : t_sel (restrict m t) = t_sel t.
Proof. reflexivity. Qed.

Lemma t_vm_restrict m t : t_vm (restrict m t) = t_vm t.
Proof. reflexivity. Qed.

Lemma warns_missing_restrict m t : warns_missing (restrict m t) = warns_missing t.
Proof. reflexivity. Qed.

(* the entries (sample, (data rows, POP rows)) of the file *)
Definition entries (t : tinput) : list (Z * (sample_rows * sample_rows)) :=
  combine (t_samples t) (combine (t_data t) (pop_rows t)).

(* the mask m over the file's samples, read over the REQUESTED samples *)
Definition omask (t : tinput) (m : list bool) : list bool :=
  keep (map (fun e : Z * (sample_rows * sample_rows) => f_sample_sel t (fst e)) (entries t)) m.

Lemma f_rows_restrict m t : f_rows (restrict m t) = keep (omask t m) (f_rows t).
Proof.
  unfold f_rows. rewrite pop_rows_restrict.
  change (t_samples (restrict m t)) with (keep m (t_samples t)).
  change (t_data (restrict m t)) with (keep m (t_data t)).
  change (fun e : Z * (sample_rows * sample_rows) => f_sample_sel (restrict m t) (fst e))
    with (fun e : Z * (sample_rows * sample_rows) => f_sample_sel t (fst e)).
  rewrite !keep_combine2. apply filter_keep.
Qed.

Theorem expected_restrict_lemma m t :
  f_expected (restrict m t)
  = let '(r, s, M) := f_expected t in (r, keep (omask t m) s, keep (omask t m) M).
Proof.
  unfold f_expected. rewrite expected_haps_restrict, f_rows_restrict.
  rewrite !keep_map_comm. apply f_equal. apply f_equal.
  apply map_ext. intros e. apply map_ext. intros h. rewrite !fcell_restrict. reflexivity.
Qed.

Lemma omask_loaded t m :
  length (t_data t) = length (t_samples t) -> length (pop_rows t) = length (t_samples t) ->
  omask t m = keep (t_sm t) m.
Proof.
  intros Hd Hp. unfold omask, entries. f_equal. rewrite t_sm_eq.
  revert Hd Hp. generalize (t_data t) (pop_rows t). induction (t_samples t) as [|s ss IH]; intros ds ps Hd Hp.
  - reflexivity.
  - destruct ds as [|d ds]; [discriminate|]. destruct ps as [|q ps]; [discriminate|].
    cbn. f_equal. apply IH; cbn in Hd, Hp; congruence.
Qed.

(* ---- the pieces of transform_haps_o ---------------------------------------------------------------------------- *)

Lemma any_unph_nil vm sm km data : any_unph vm sm km data [] = false.
Proof. destruct sm, km, data; reflexivity. Qed.

Lemma transform_haps_nosel t : t_sel t = [] -> transform_haps t = Err E_Value.
Proof. intros H. rewrite transform_haps_alt_eq. unfold transform_haps_alt. rewrite H. reflexivity. Qed.

Theorem opt_default_lemma rare t c :
  pop_overflow t = false -> bp_overflow t = false -> any_missing t = false ->
  transform_haps_o rare (mke [] false false c) t = transform_haps t.
Proof.
  intros Hp Hb Hm. unfold transform_haps_o, surviving. cbn [e_discard e_maf e_unph].
  destruct (t_sel t) as [|h0 r] eqn:Es; [symmetry; apply transform_haps_nosel; exact Es|].
  rewrite Hp, Hm, any_unph_nil. cbn [andb]. rewrite Hb.
  destruct (transform_haps t); reflexivity.
Qed.

Theorem opt_chunk_irrelevant_lemma rare u d m c c' t :
  transform_haps_o rare (mke u d m c) t = transform_haps_o rare (mke u d m c') t.
Proof. reflexivity. Qed.

Theorem opt_ok_domain_lemma rare e t out :
  transform_haps_o rare e t = Ok out -> o_domain e t = true.
Proof.
  unfold transform_haps_o, o_domain, o_phased, all_kept.
  destruct (t_sel t); [discriminate|].
  destruct (pop_overflow t); [discriminate|].
  destruct (any_missing t) eqn:Em; destruct (e_discard e) eqn:Ed; cbn [andb negb orb]; try discriminate;
    match goal with |- context [any_unph ?a ?b ?c ?d ?u] => destruct (any_unph a b c d u) end; try discriminate;
    destruct (bp_overflow (surviving e t)); try discriminate; reflexivity.
Qed.

Lemma surviving_cases e t : surviving e t = t \/ surviving e t = restrict (dmask t) t.
Proof. unfold surviving. destruct (e_discard e && any_missing t); auto. Qed.

Lemma t_sel_surviving e t : t_sel (surviving e t) = t_sel t.
Proof. destruct (surviving_cases e t) as [-> | ->]; reflexivity. Qed.

Lemma warns_missing_surviving e t : warns_missing (surviving e t) = warns_missing t.
Proof. destruct (surviving_cases e t) as [-> | ->]; reflexivity. Qed.

Theorem opt_closed_lemma rare e t :
  o_domain e t = true -> wf_file (surviving e t) -> f_wellformed (surviving e t) = true ->
  transform_haps_o rare e t
  = Ok (if e_maf e then maf_filter rare (f_expected (surviving e t)) else f_expected (surviving e t)).
Proof.
  intros Hdom W Hw.
  pose proof (model_total_lemma _ W Hw) as Hm.
  assert (Hsel : t_sel t <> []).
  { rewrite <- (t_sel_surviving e t). intros E. rewrite (transform_haps_nosel _ E) in Hm. discriminate. }
  unfold o_domain, o_phased, all_kept in Hdom. rewrite !andb_true_iff, !negb_true_iff in Hdom.
  destruct Hdom as [[[H1 H2] H3] H4].
  unfold transform_haps_o. destruct (t_sel t) as [|h0 r]; [contradiction Hsel; reflexivity|].
  rewrite H3.
  assert (E1 : any_missing t && negb (e_discard e) = false).
  { destruct (e_discard e); [apply andb_false_r|]. cbn in H1. apply negb_true_iff in H1. rewrite H1. reflexivity. }
  rewrite E1, H2, H4, Hm. reflexivity.
Qed.

(* ---- the --maf filter ------------------------------------------------------------------------------------------ *)

Theorem maf_filter_spec_lemma rare recs ss M :
  exists km, length km = length recs
    /\ maf_filter rare (recs, ss, M) = (keep km recs, ss, map (keep km) M)
    /\ forall i, (i < length recs)%nat -> nth i km false = negb (rare (col_count M i) (lenZ M)).
Proof.
  exists (maf_mask rare (length recs) M). unfold maf_mask. split; [rewrite map_length, seq_length; reflexivity|].
  split; [reflexivity|]. intros i Hi.
  rewrite (nth_indep _ false (negb (rare (col_count M (length recs)) (lenZ M)))) by (rewrite map_length, seq_length; exact Hi).
  rewrite (map_nth (fun i => negb (rare (col_count M i) (lenZ M))) (seq 0 (length recs)) (length recs) i).
  rewrite seq_nth by exact Hi. reflexivity.
Qed.

(* no haplotype rarer than the threshold: nothing is removed *)
Theorem maf_filter_none_rare_lemma rare recs ss M :
  (forall i, (i < length recs)%nat -> rare (col_count M i) (lenZ M) = false) ->
  Forall (fun row => length row = length recs) M ->
  maf_filter rare (recs, ss, M) = (recs, ss, M).
Proof.
  intros Hr HM. unfold maf_filter.
  assert (Ht : all_true (maf_mask rare (length recs) M) = true).
  { unfold all_true, maf_mask. apply forallb_forall. intros b Hb. apply in_map_iff in Hb.
    destruct Hb as [i [<- Hi]]. apply in_seq in Hi. rewrite Hr by lia. reflexivity. }
  assert (Hl : length (maf_mask rare (length recs) M) = length recs).
  { unfold maf_mask. rewrite map_length, seq_length. reflexivity. }
  rewrite (keep_all_true _ recs Ht Hl). f_equal.
  transitivity (map (fun x : list (bool * bool) => x) M); [|apply map_id].
  apply map_ext_in. intros row Hrow.
  apply keep_all_true; [exact Ht|]. rewrite Hl. symmetry. exact (proj1 (Forall_forall _ M) HM row Hrow).
Qed.

(* ---- soundness of the checker --------------------------------------------------------------------------------- *)

Lemma forallb_combine_nth {A B} (p : A * B -> bool) (da : A) (db : B) : forall (la : list A) (lb : list B),
  forallb p (combine la lb) = true ->
  forall i, (i < length la)%nat -> (i < length lb)%nat -> p (nth i la da, nth i lb db) = true.
Proof.
  induction la as [|a la IH]; intros lb H i Ha Hb; [cbn in Ha; lia|].
  destruct lb as [|b lb]; [cbn in Hb; lia|].
  cbn in H. apply andb_true_iff in H. destruct H as [H0 H].
  destruct i as [|i]; [exact H0|]. cbn. apply IH; [exact H|cbn in Ha; lia|cbn in Hb; lia].
Qed.

Theorem holds_o_sound_lemma mk md c :
  holds_o mk md c = true ->
  match oc_obs c with
  | Ok (recs, ss, M) =>
      o_phased (oc_e c) (oc_in c) = true ->
      let '(xr, xs, xM) := f_expected (oc_in c) in
      exists sm hm,
        length sm = length xs /\ length hm = length xr
        /\ ss = keep sm xs /\ recs = keep hm xr /\ M = map (keep hm) (keep sm xM)
        /\ (e_discard (oc_e c) = false -> ss = xs)
        /\ (e_maf (oc_e c) = false -> recs = xr)
        /\ (forall i r, nth_error (f_rows (oc_in c)) i = Some r -> row_complete (fst (snd r)) = true ->
              nth i sm false = true)
        /\ (e_maf (oc_e c) = true -> forall i, (i < length xr)%nat ->
              let k := col_count (keep sm xM) i in
              let n := lenZ (keep sm xM) in
              (mk k n = true -> nth i hm false = true) /\ (md k n = true -> nth i hm false = false))
        /\ (f_omitted (oc_in c) = true -> oc_warned c = true)
  | Err k => k = E_Unobserved \/ o_domain (oc_e c) (oc_in c) = false
             \/ f_wellformed (surviving (oc_e c) (oc_in c)) = false
  end.
Proof.
  unfold holds_o. destruct (oc_obs c) as [[[recs ss] M]|k]; intros H.
  - intros Hdom. rewrite Hdom in H. cbn [negb orb] in H. unfold holds_out in H.
    assert (Hlen : length (map fst (f_rows (oc_in c))) = length (f_rows (oc_in c))) by apply map_length.
    unfold f_expected in *. cbv zeta in *.
    set (xr := recs_of (f_expected_haps (oc_in c))) in *.
    set (xs := map fst (f_rows (oc_in c))) in *.
    rewrite !andb_true_iff in H.
    destruct H as [[[[[[[H1 H2] H3] H4] H5] H6] H7] H8].
    apply (list_eqb_spec Z.eqb Z.eqb_eq) in H1. apply recs_eqb_spec in H2. apply mat_eqb_spec in H3.
    exists (map (fun s => memZ s ss) xs), (map (fun r => mem_rec r recs) xr).
    split; [apply map_length|]. split; [apply map_length|].
    split; [exact H1|]. split; [exact H2|]. split; [exact H3|].
    split.
    { intros Ed. rewrite Ed in H4. cbn [orb] in H4. rewrite H1 at 1. apply keep_all_true; [exact H4|apply map_length]. }
    split.
    { intros Em. rewrite Em in H6. cbn [orb] in H6. rewrite H2 at 1. apply keep_all_true; [exact H6|apply map_length]. }
    split.
    { intros i r Hi Hc.
      assert (Hil : (i < length (f_rows (oc_in c)))%nat) by (apply nth_error_Some; rewrite Hi; discriminate).
      pose proof (forallb_combine_nth _ false false _ _ H5 i) as P.
      assert (L1 : (i < length (map (fun s => memZ s ss) xs))%nat) by (unfold xs; rewrite !map_length; exact Hil).
      assert (L2 : (i < length (map (fun r0 : Z * (sample_rows * sample_rows) => row_complete (fst (snd r0)))
                                    (f_rows (oc_in c))))%nat) by (rewrite map_length; exact Hil).
      specialize (P L1 L2). cbn [fst snd] in P.
      set (rc := fun r0 : Z * (sample_rows * sample_rows) => row_complete (fst (snd r0))) in *.
      rewrite (nth_indep (map rc (f_rows (oc_in c))) false (rc r) L2) in P.
      rewrite (map_nth rc) in P. rewrite (nth_error_nth _ _ r Hi) in P. unfold rc in P.
      rewrite Hc in P. cbn [negb] in P. rewrite orb_false_r in P. exact P. }
    split.
    { intros Em i Hi. rewrite Em in H7. cbn [negb orb] in H7.
      pose proof (forallb_combine_nth _ false O _ _ H7 i) as P.
      assert (L1 : (i < length (map (fun r => mem_rec r recs) xr))%nat) by (rewrite map_length; exact Hi).
      assert (L2 : (i < length (seq 0 (length xr)))%nat) by (rewrite seq_length; exact Hi).
      specialize (P L1 L2).
      rewrite seq_nth in P by exact Hi. cbn [plus] in P. unfold maf_ok in P. cbn [fst snd] in P.
      apply andb_true_iff in P. destruct P as [P1 P2]. cbv zeta. split.
      - intros E. rewrite E in P1. cbn in P1. rewrite orb_false_r in P1. exact P1.
      - intros E. rewrite E in P2. cbn in P2. rewrite orb_false_r in P2. apply negb_true_iff in P2. exact P2. }
    intros Ho. rewrite Ho in H8. exact H8.
  - destruct (k =? E_Unobserved) eqn:E; [left; apply Z.eqb_eq; exact E|]. right.
    cbn [orb] in H. apply negb_true_iff in H. apply andb_false_iff in H. exact H.
Qed.

(* ---- the hypotheses are satisfiable; the refusals ------------------------------------------------------------ *)

(* three samples, the second with a missing call at the first record; a biallelic and a triallelic record; three
   haplotypes; sample 3 has a homozygous call written unphased *)
Definition t_o : tinput :=
  mkt [1; 2; 3] [mkgv 10 1 100 [1; 2]; mkgv 11 1 200 [3; 4; 5]]
      [([1; 2], [0; 1]); ([255; 0], [255; 2]); ([1; 2], [1; 0])]
      [mkh 70 1 100 101 0 [mkhv 10 2] false; mkh 71 1 100 201 0 [mkhv 10 2; mkhv 11 5] false;
       mkh 72 1 200 201 0 [mkhv 11 4] false]
      None None None NoAnc.

(* MAF < 1/2, in integers: min(k, 2n - k) / 2n < 1/2 *)
Definition rare_half (k n : Z) : bool := Z.min k (2 * n - k) <? n.
Definition e_o : textra := mke [[false; false]; [false; false]; [true; false]] true true (Some 1).

Definition out_o : tout := ([(71, 1, 100)], [1; 3], [[(true, false)]; [(true, false)]]).

Lemma opt_example_lemma :
  wf_file (surviving e_o t_o) /\ o_domain e_o t_o = true /\ f_wellformed (surviving e_o t_o) = true
  /\ transform_haps_o rare_half e_o t_o = Ok out_o
  /\ transform_haps_o rare_half (mke [] true false None) t_o
     = Ok ([(70, 1, 100); (71, 1, 100); (72, 1, 200)], [1; 3],
           [[(true, false); (true, false); (false, true)]; [(true, true); (true, false); (false, false)]])
  (* without --discard-missing the missing call is refused; an unphased heterozygote (sample 1, record 2) too *)
  /\ transform_haps_o rare_half (mke [] false true None) t_o = Err E_Value
  /\ transform_haps_o rare_half (mke [[false; true]] true true None) t_o = Err E_Value
  (* the checker: the model's answer passes; dropping the complete sample 3, a guessed cell, or keeping the rare
     haplotype 70 does not *)
  /\ holds_o (fun k n => negb (rare_half k n)) rare_half (mkoc t_o e_o (Ok out_o) false) = true
  /\ holds_o (fun k n => negb (rare_half k n)) rare_half
       (mkoc t_o e_o (Ok ([(71, 1, 100)], [1], [[(true, false)]])) false) = false
  /\ holds_o (fun k n => negb (rare_half k n)) rare_half
       (mkoc t_o e_o (Ok ([(71, 1, 100)], [1; 3], [[(true, false)]; [(true, true)]])) false) = false
  /\ holds_o (fun k n => negb (rare_half k n)) rare_half
       (mkoc t_o e_o
             (Ok ([(70, 1, 100); (71, 1, 100)], [1; 3], [[(true, false); (true, false)]; [(true, true); (true, false)]]))
             false) = false.
Proof.
  split.
  { unfold wf_file. vm_compute. repeat split; reflexivity. }
  vm_compute. repeat split; reflexivity.
Qed.

(* 129 records, one sample, a haplotype listing every record; the POP fields hold nl distinct labels *)
Definition wide_vars (p : nat) : list gvar :=
  map (fun j => mkgv (1000 + Z.of_nat j) 1 (10 * (Z.of_nat j + 1)) [1; 2]) (seq 0 p).
Definition wide_t (nl : Z) : tinput :=
  mkt [1] (wide_vars 129) [(repeat 0 129, repeat 0 129)]
      [mkh 7 1 10 1300 1 (map (fun j => mkhv (1000 + Z.of_nat j) 1) (seq 0 129)) false]
      None None None
      (PopField [(map (fun j => Z.of_nat j mod nl + 1) (seq 0 129),
                  map (fun j => (Z.of_nat j + 129) mod nl + 1) (seq 0 129))]).

(* 256 labels are answered, the 257th is refused (OverflowError); the width-free model of C04_Model answers both *)
Lemma label_capacity_example_lemma :
  length (pop_labels (wide_t 256)) = 256%nat
  /\ transform_haps_o rare_half e_none (wide_t 256) = Ok ([(7, 1, 10)], [1], [[(false, false)]])
  /\ length (pop_labels (wide_t 257)) = 257%nat
  /\ transform_haps_o rare_half e_none (wide_t 257) = Err E_Overflow
  /\ transform_haps (wide_t 257) = Ok ([(7, 1, 10)], [1], [[(false, false)]]).
Proof. vm_compute. repeat split; reflexivity. Qed.

(* ---- a haplotype without variants -------------------------------------------------------------------------------- *)

(* outside the property's quantifier ("1..many variants"); in the model it matches every strand, whatever its
   ancestry label - also an absent one - because "at every variant" is vacuous *)
Theorem no_variants_vacuous_lemma G anc h d a : h_vars h = [] -> spec_strand G anc h d a = true.
Proof. intros H. unfold spec_strand. rewrite H. reflexivity. Qed.

(* ---- the checker with the exact-arithmetic margins and the peer runs ---------------------------------------------- *)

Theorem peers_agree_sound_lemma o peers :
  peers_agree o peers = true -> forall out out', o = Ok out -> In (Ok out') peers -> out = out'.
Proof.
  intros H2 out out' Eo Hin. unfold peers_agree in H2. rewrite Eo in H2.
  rewrite forallb_forall in H2. specialize (H2 _ Hin). apply tout_eqb_spec. exact H2.
Qed.

From Coq Require Import QArith.
Open Scope Z_scope.

Theorem holds_fileq_sound_lemma q k peers :
  holds_fileq q k peers = true ->
  holds_o (keepQ q) (dropQ q) k = true
  /\ (o_phased (oc_e k) (oc_in k) = true ->
      forall out out', oc_obs k = Ok out -> In (Ok out') peers -> out = out').
Proof.
  unfold holds_fileq. intros H. apply andb_true_iff in H. destruct H as [H1 H2]. split; [exact H1|].
  intros Hp. rewrite Hp in H2. cbn [negb orb] in H2. exact (peers_agree_sound_lemma _ _ H2).
Qed.

(* must-keep / must-drop: the exact MAF min(k, 2n-k)/2n is at least 1e-9 above / below the exact value of the
   threshold *)
Theorem margins_meaning_lemma thr k n :
  (keepQ thr k n = true ->
     exists q, thr = Some q /\ 0 < n /\ (q + epsQ <= mafQ k n)%Q)
  /\ (dropQ thr k n = true ->
     exists q, thr = Some q /\ 0 < n /\ (mafQ k n + epsQ <= q)%Q).
Proof.
  unfold keepQ, dropQ. destruct thr as [q|]; [|split; discriminate].
  split; intros H; apply andb_true_iff in H; destruct H as [Hn Hq]; exists q;
    (split; [reflexivity|]); (split; [apply Z.ltb_lt; exact Hn|]); apply Qle_bool_iff; exact Hq.
Qed.

(* the two never hold together *)
Theorem margins_exclusive_lemma thr k n : keepQ thr k n = true -> dropQ thr k n = true -> False.
Proof.
  intros Hk Hd. destruct (margins_meaning_lemma thr k n) as [A B].
  destruct (A Hk) as [q [E1 [_ L1]]]. destruct (B Hd) as [q' [E2 [_ L2]]].
  rewrite E1 in E2. inversion E2; subst q'.
  assert (L : (q + epsQ + epsQ <= q)%Q).
  { eapply Qle_trans; [|exact L2]. apply Qplus_le_compat; [exact L1|apply Qle_refl]. }
  assert (P : (0 < epsQ + epsQ)%Q) by reflexivity.
  apply (Qlt_irrefl q). eapply Qlt_le_trans; [|exact L].
  rewrite <- Qplus_assoc. rewrite <- (Qplus_0_r q) at 1. apply Qplus_lt_r. exact P.
Qed.

(* ---- the recorded intermediate: what is handed to Haplotypes[Ancestry].transform ------------------------------- *)

Lemma uses_anc_surviving e t : uses_anc (surviving e t) = uses_anc t.
Proof.
  destruct (surviving_cases e t) as [-> | ->]; [reflexivity|].
  unfold uses_anc, restrict. cbn [t_anc]. destruct (t_anc t); reflexivity.
Qed.

(* the answer of transform_haps IS the set-wise transform of exactly that genotype object and that collection
   (then the samples are attached and --maf is applied) *)
Theorem geno_transformed_lemma rare e t G H :
  model_geno e t = Some (G, H) ->
  transform_haps_o rare e t
  = match set_tr (uses_anc t) H G with
    | Err k => Err k
    | Ok (recs, M) =>
        Ok (if e_maf e then maf_filter rare (recs, g_samples G, M) else (recs, g_samples G, M))
    end.
Proof.
  unfold model_geno, transform_haps_o.
  pose proof (t_sel_surviving e t) as Hs.
  destruct (t_sel t) as [|h0 r] eqn:Es; [discriminate|].
  destruct (pop_overflow t); [discriminate|].
  destruct (any_missing t && negb (e_discard e)); [discriminate|].
  match goal with |- context [any_unph ?a ?b ?c ?d ?u] => destruct (any_unph a b c d u) end; [discriminate|].
  set (t1 := surviving e t) in *.
  destruct (bp_overflow t1); [discriminate|].
  destruct (has_dup (map gv_id (t_loaded t1))) eqn:Ed; [discriminate|].
  destruct (ancestry_matrix false (t_anc t1) (t_sm t1) (t_vm t1) (t_out_samples t1) (t_loaded t1)) as [anc|k] eqn:Ea;
    [|discriminate].
  intros HG. inversion HG; subst G H; clear HG.
  rewrite transform_haps_alt_eq. unfold transform_haps_alt. rewrite Hs, Ed, Ea.
  unfold t1 at 1. rewrite uses_anc_surviving. fold t1.
  destruct (set_tr (uses_anc t) _ (t_geno t1 anc)) as [[recs M]|k]; reflexivity.
Qed.
