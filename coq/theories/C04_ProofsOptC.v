(* C04 - the model's own answer passes the checker holds_o (completeness of the checker on the model), for every
   MAF test [rare] that is consistent with the margins [mk] / [md]. *)
From HV Require Import Prelude Tracts C04_Model C04_Check C04_CheckSeq C04_Proofs C04_ProofsSet C04_ProofsFile
  C04_ProofsSpec C04_ProofsTotal C04_ModelOpt C04_CheckOpt C04_ProofsOpt.

(* ---- membership masks --------------------------------------------------------------------------------------- *)

Section Mem.
  Context {A : Type} (eqb : A -> A -> bool) (eqb_spec : forall x y, eqb x y = true <-> x = y).

  Definition memb (x : A) (l : list A) : bool := existsb (eqb x) l.

  Lemma memb_In x l : memb x l = true <-> In x l.
  Proof.
    unfold memb. rewrite existsb_exists. split.
    - intros [y [Hy E]]. apply eqb_spec in E. subst. exact Hy.
    - intros H. exists x. split; [exact H|]. apply eqb_spec. reflexivity.
  Qed.

  Lemma keep_incl : forall m (l : list A) x, In x (keep m l) -> In x l.
  Proof.
    induction m as [|b m IH]; intros l x H; [destruct H|].
    destruct l as [|y l]; [destruct H|]. cbn in H. destruct b.
    - destruct H as [H|H]; [left; exact H|right; apply IH; exact H].
    - right. apply IH. exact H.
  Qed.

  (* reading the kept elements back by membership gives the mask *)
  Lemma mem_mask : forall (l : list A) m, NoDup l -> length m = length l ->
    map (fun x => memb x (keep m l)) l = m.
  Proof.
    induction l as [|x l IH]; intros m Hn Hl; destruct m as [|b m]; try discriminate; [reflexivity|].
    inversion Hn as [|? ? Hx Hn']; subst. cbn in Hl. cbn [keep map]. destruct b.
    - f_equal.
      + apply memb_In. left. reflexivity.
      + transitivity (map (fun y => memb y (keep m l)) l); [|apply IH; [exact Hn'|congruence]].
        apply map_ext_in. intros y Hy.
        unfold memb. cbn [existsb]. destruct (eqb y x) eqn:E; [|reflexivity].
        apply eqb_spec in E. subst. contradiction.
    - f_equal.
      + destruct (memb x (keep m l)) eqn:E; [|reflexivity]. apply memb_In in E. apply keep_incl in E. contradiction.
      + apply IH; [exact Hn'|congruence].
  Qed.

  Lemma mem_self : forall (l : list A), map (fun x => memb x l) l = map (fun _ => true) l.
  Proof. intros l. apply map_ext_in. intros x Hx. apply memb_In. exact Hx. Qed.
End Mem.

Lemma memZ_memb x l : memZ x l = memb Z.eqb x l.
Proof. reflexivity. Qed.

Lemma all_true_const {A} (l : list A) : all_true (map (fun _ => true) l) = true.
Proof. induction l; [reflexivity|exact IHl]. Qed.

(* ---- complete rows are never discarded --------------------------------------------------------------------------- *)

Lemma existsb_keep_false {A} (p : A -> bool) : forall m l, existsb p l = false -> existsb p (keep m l) = false.
Proof.
  induction m as [|b m IH]; intros l H; [reflexivity|]. destruct l as [|x l]; [reflexivity|].
  cbn in H. apply orb_false_iff in H. destruct H as [H0 H]. cbn. destruct b; cbn; rewrite ?H0; apply IH; exact H.
Qed.

Lemma complete_not_missing pop vm d : row_complete d = true -> row_missing pop vm d = false.
Proof.
  unfold row_complete, row_missing. intros H. apply andb_true_iff in H. destruct H as [H0 H1].
  assert (P : forall r, forallb (fun x => x <? 254) r = true -> existsb (miss_cell pop) r = false).
  { induction r as [|x r IH]; [reflexivity|]. cbn. intros Hr. apply andb_true_iff in Hr. destruct Hr as [Hx Hr].
    rewrite (IH Hr), orb_false_r. apply Z.ltb_lt in Hx. unfold miss_cell.
    destruct pop; [apply Z.eqb_neq; lia|apply Z.leb_gt; lia]. }
  rewrite (existsb_keep_false _ _ _ (P _ H0)), (existsb_keep_false _ _ _ (P _ H1)). reflexivity.
Qed.

(* ---- the answer of the model passes ------------------------------------------------------------------------------- *)

Section Pass.
  Variable rare mk md : Z -> Z -> bool.
  Hypothesis mk_ok : forall k n, mk k n = true -> rare k n = false.
  Hypothesis md_ok : forall k n, md k n = true -> rare k n = true.

  (* the clauses of holds_out for an answer (keep hm xr, keep om xs, map (keep hm) (keep om xM)) *)
  Lemma pass_core (c : ocore) (om : list bool) xr xs xM :
    let t := oc_in c in
    let e := oc_e c in
    f_expected t = (xr, xs, xM) ->
    NoDup xs -> NoDup xr -> length om = length xs ->
    (e_discard e = false -> all_true om = true) ->
    forallb (fun bc : bool * bool => fst bc || negb (snd bc))
            (combine om (map (fun r : Z * (sample_rows * sample_rows) => row_complete (fst (snd r))) (f_rows t))) = true ->
    (f_omitted t = true -> oc_warned c = true) ->
    let Mk := keep om xM in
    let hm := if e_maf e then maf_mask rare (length xr) Mk else map (fun _ => true) xr in
    holds_out mk md c (keep hm xr, keep om xs, map (keep hm) Mk) = true.
  Proof.
    intros t e Ef Hns Hnr Hlo Hdis Hcomp Hwarn Mk hm.
    assert (Hlh : length hm = length xr).
    { unfold hm. destruct (e_maf e); [unfold maf_mask; rewrite map_length, seq_length|rewrite map_length]; reflexivity. }
    unfold holds_out. fold t e. rewrite Ef.
    assert (Esm : map (fun s => memZ s (keep om xs)) xs = om).
    { apply (mem_mask Z.eqb Z.eqb_eq); assumption. }
    assert (Ehm : map (fun r => mem_rec r (keep hm xr)) xr = hm).
    { apply (mem_mask rec_eqb rec_eqb_spec); assumption. }
    rewrite Esm, Ehm. fold Mk.
    rewrite !andb_true_iff. repeat split.
    - apply (list_eqb_spec Z.eqb Z.eqb_eq). reflexivity.
    - apply recs_eqb_spec. reflexivity.
    - apply mat_eqb_spec. reflexivity.
    - destruct (e_discard e) eqn:Ed; [reflexivity|]. cbn. apply Hdis. reflexivity.
    - exact Hcomp.
    - unfold hm. destruct (e_maf e); [reflexivity|]. cbn. apply all_true_const.
    - unfold hm. destruct (e_maf e) eqn:Em; [|reflexivity]. cbn [negb orb].
      unfold maf_mask. rewrite <- (map_id (seq 0 (length xr))) at 2. rewrite combine_map_same.
      rewrite forallb_forall. intros [b i] Hin. apply in_map_iff in Hin. destruct Hin as [j [Ej _]].
      inversion Ej; subst b i. unfold maf_ok. cbn [fst snd].
      destruct (mk (col_count Mk j) (lenZ Mk)) eqn:E1; destruct (md (col_count Mk j) (lenZ Mk)) eqn:E2;
        rewrite ?(mk_ok _ _ E1), ?(md_ok _ _ E2); cbn; try reflexivity.
      + rewrite (mk_ok _ _ E1) in *. pose proof (md_ok _ _ E2) as X. rewrite (mk_ok _ _ E1) in X. discriminate.
      + destruct (rare (col_count Mk j) (lenZ Mk)); reflexivity.
    - destruct (f_omitted t) eqn:Eo; [|reflexivity]. cbn. apply Hwarn. reflexivity.
  Qed.
End Pass.

(* ---- list facts ------------------------------------------------------------------------------------------------------ *)

Lemma map_fst_combine {A B} : forall (a : list A) (b : list B), length b = length a -> map fst (combine a b) = a.
Proof.
  induction a as [|x a IH]; intros b H; destruct b as [|y b]; try discriminate; [reflexivity|].
  cbn. f_equal. apply IH. cbn in H. congruence.
Qed.

Lemma length_filter_map {A} (f : A -> bool) l : length (filter f l) = length (filter (fun b => b) (map f l)).
Proof. induction l as [|x l IH]; [reflexivity|]. cbn. destruct (f x); cbn; rewrite IH; reflexivity. Qed.

Lemma forallb_combine_true {B} (p : bool * B -> bool) : forall (a : list unit) (l : list B),
  (forall y, p (true, y) = true) ->
  forallb p (combine (map (fun _ => true) a) l) = true.
Proof.
  induction a as [|x a IH]; intros l H; [reflexivity|]. destruct l as [|y l]; [reflexivity|].
  cbn. rewrite H. apply IH. exact H.
Qed.

Lemma forallb_combine_true' {A B} (p : bool * B -> bool) : forall (a : list A) (l : list B),
  (forall y, p (true, y) = true) ->
  forallb p (combine (map (fun _ => true) a) l) = true.
Proof.
  induction a as [|x a IH]; intros l H; [reflexivity|]. destruct l as [|y l]; [reflexivity|].
  cbn. rewrite H. apply IH. exact H.
Qed.

Lemma keep_rows_const_true {A B} (xr : list A) (M : list (list B)) :
  Forall (fun row => length row = length xr) M ->
  map (keep (map (fun _ => true) xr)) M = M.
Proof.
  intros H. rewrite <- (map_id M) at 2. apply map_ext_in. intros row Hr.
  apply keep_const_true. symmetry. exact (proj1 (Forall_forall _ M) H row Hr).
Qed.

Lemma f_omitted_surviving e t : f_omitted (surviving e t) = f_omitted t.
Proof. destruct (surviving_cases e t) as [-> | ->]; reflexivity. Qed.

Lemma map_data_combine {A B C} : forall (ss : list A) (ds : list B) (ps : list C),
  length ds = length ss -> length ps = length ss ->
  map (fun e : A * (B * C) => fst (snd e)) (combine ss (combine ds ps)) = ds.
Proof.
  induction ss as [|s ss IH]; intros ds ps Hd Hp.
  - destruct ds; [reflexivity|discriminate].
  - destruct ds as [|d ds]; [discriminate|]. destruct ps as [|q ps]; [discriminate|].
    cbn. f_equal. apply IH; [cbn in Hd; congruence|cbn in Hp; congruence].
Qed.

Lemma entries_length t :
  length (t_data t) = length (t_samples t) -> length (pop_rows t) = length (t_samples t) ->
  length (entries t) = length (t_samples t) /\ map fst (entries t) = t_samples t
  /\ map (fun e : Z * (sample_rows * sample_rows) => fst (snd e)) (entries t) = t_data t.
Proof.
  intros Hd Hp. unfold entries.
  assert (Hc : length (combine (t_data t) (pop_rows t)) = length (t_samples t)).
  { rewrite combine_length, Hd, Hp. apply Nat.min_id. }
  split; [rewrite combine_length, Hc; apply Nat.min_id|].
  split; [apply map_fst_combine; exact Hc|].
  apply map_data_combine; assumption.
Qed.

Lemma Ok_inj {A} (a b : A) : @Ok A a = Ok b -> a = b.
Proof. intros H. inversion H. reflexivity. Qed.

(* ---- the theorem --------------------------------------------------------------------------------------------------------- *)

Theorem model_passes_holds_o_lemma rare mk md e t out :
  (forall k n, mk k n = true -> rare k n = false) ->
  (forall k n, md k n = true -> rare k n = true) ->
  wf_file t -> NoDup (t_samples t) -> NoDup (recs_of (f_expected_haps t)) ->
  wf_file (surviving e t) -> f_wellformed (surviving e t) = true ->
  transform_haps_o rare e t = Ok out ->
  holds_o mk md (mkoc t e (Ok out) (warns_missing t)) = true.
Proof.
  intros mk_ok md_ok W Hns Hnr W1 Hw1 Hout.
  pose proof (opt_ok_domain_lemma _ _ _ _ Hout) as Hdom.
  assert (Hph : o_phased e t = true).
  { unfold o_domain in Hdom. rewrite !andb_true_iff in Hdom. tauto. }
  rewrite (opt_closed_lemma rare e t Hdom W1 Hw1) in Hout. apply Ok_inj in Hout. rename Hout into Eo. symmetry in Eo.
  unfold holds_o. cbn [oc_obs oc_e oc_in]. rewrite Hph. cbn [negb orb].
  destruct W as [Hd [Hld [Hlp _]]].
  destruct (entries_length t Hld Hlp) as [HEl [HEs HEd]].
  destruct (f_expected t) as [[xr xs] xM] eqn:Ef.
  assert (Exr : xr = recs_of (f_expected_haps t)) by (unfold f_expected in Ef; inversion Ef; reflexivity).
  assert (Exs : xs = map fst (f_rows t)) by (unfold f_expected in Ef; inversion Ef; reflexivity).
  assert (HxM : length xM = length xs /\ Forall (fun row => length row = length xr) xM).
  { unfold f_expected in Ef. inversion Ef. rewrite !map_length. split; [reflexivity|].
    apply Forall_forall. intros row Hr. apply in_map_iff in Hr. destruct Hr as [x [<- _]].
    unfold recs_of. rewrite !map_length. reflexivity. }
  destruct HxM as [HlM HrM].
  assert (Hnxs : NoDup xs).
  { rewrite Exs. unfold f_rows. fold (entries t). apply NoDup_map_filter. rewrite HEs. exact Hns. }
  assert (Hnxr : NoDup xr) by (rewrite Exr; exact Hnr).
  assert (Hwarn : f_omitted t = true -> warns_missing t = true).
  { intros Ho. rewrite <- (warns_missing_surviving e t).
    apply (omitted_is_reported_lemma _ _ W1 (model_total_lemma _ W1 Hw1)).
    rewrite f_omitted_surviving. exact Ho. }
  assert (Es : surviving e t = if e_discard e && any_missing t then restrict (dmask t) t else t) by reflexivity.
  destruct (e_discard e && any_missing t) eqn:X.
  - (* --discard-missing removes the samples with a missing call at a loaded record *)
    assert (Ed : e_discard e = true) by (apply andb_true_iff in X; tauto).
    rewrite Es, expected_restrict_lemma, Ef in Eo.
    set (om := omask t (dmask t)) in *.
    assert (Hlo : length om = length xs).
    { unfold om, omask. rewrite nth_keep_mask_length.
      - rewrite Exs, map_length. unfold f_rows. fold (entries t). symmetry. apply length_filter_map.
      - unfold dmask. rewrite !map_length. rewrite HEl. symmetry. exact Hld. }
    pose proof (pass_core rare mk md mk_ok md_ok (mkoc t e (Ok out) (warns_missing t))
                  om xr xs xM Ef Hnxs Hnxr Hlo) as P.
    cbn [oc_in oc_e oc_warned] in P.
    assert (Q : (if e_maf e then maf_filter rare (xr, keep om xs, keep om xM) else (xr, keep om xs, keep om xM))
                = (keep (if e_maf e then maf_mask rare (length xr) (keep om xM) else map (fun _ => true) xr) xr,
                   keep om xs,
                   map (keep (if e_maf e then maf_mask rare (length xr) (keep om xM) else map (fun _ => true) xr))
                       (keep om xM))).
    { destruct (e_maf e); [reflexivity|].
      rewrite (keep_const_true xr xr eq_refl). rewrite keep_rows_const_true; [reflexivity|].
      apply Forall_forall. intros row Hr. apply (keep_incl om xM row) in Hr.
      exact (proj1 (Forall_forall _ xM) HrM row Hr). }
    rewrite Q in Eo. rewrite Eo. apply P.
    + intros X0. rewrite Ed in X0. discriminate.
    + (* a complete row is never discarded *)
      unfold om, omask, dmask. rewrite <- HEd. rewrite map_map.
      rewrite <- keep_map_comm. rewrite keep_map_filter. unfold f_rows. fold (entries t).
      rewrite combine_map_same. rewrite forallb_forall. intros [b cpl] Hin.
      apply in_map_iff in Hin. destruct Hin as [x [Ex _]]. inversion Ex; subst b cpl. cbn [fst snd].
      destruct (row_complete (fst (snd x))) eqn:Ec; [|apply orb_true_r].
      rewrite (complete_not_missing _ _ _ Ec). reflexivity.
    + exact Hwarn.
  - (* nobody is discarded *)
    rewrite Es, Ef in Eo.
    pose proof (pass_core rare mk md mk_ok md_ok (mkoc t e (Ok out) (warns_missing t))
                  (map (fun _ => true) xs) xr xs xM Ef Hnxs Hnxr (map_length _ _)) as P.
    cbn [oc_in oc_e oc_warned] in P.
    rewrite (keep_const_true xs xs eq_refl) in P.
    rewrite (keep_const_true xs xM) in P by (symmetry; exact HlM).
    assert (Q : (if e_maf e then maf_filter rare (xr, xs, xM) else (xr, xs, xM))
                = (keep (if e_maf e then maf_mask rare (length xr) xM else map (fun _ => true) xr) xr, xs,
                   map (keep (if e_maf e then maf_mask rare (length xr) xM else map (fun _ => true) xr)) xM)).
    { destruct (e_maf e); [reflexivity|].
      rewrite (keep_const_true xr xr eq_refl), (keep_rows_const_true xr xM HrM). reflexivity. }
    rewrite Q in Eo. rewrite Eo. apply P.
    + intros _. apply all_true_const.
    + apply forallb_combine_true'. intros y. reflexivity.
    + exact Hwarn.
Qed.
