(* C04 - the file-level answer does not depend on the ORDER of the records of the genotype file
   (any permutation: chromosomes interleaved, positions descending, ...) nor on the layout of the
   .hap file (order of the V lines of a haplotype; H lines anywhere: each output column is a function
   of its own H line and the genotypes, and the columns come in the order of the H lines).
     reorder idx t          the same file with its records (and the GT / POP columns) in the order idx
     expected_gt_order_irrelevant_lemma   f_expected (reorder idx t) = f_expected t
     wellformed_gt_order_irrelevant_lemma f_wellformed likewise: the checker's verdict on any output is the same
     transform_haps_gt_order_irrelevant_lemma  two successful runs of the model give the same output
     expected_vline_order_irrelevant_lemma, expected_columnwise_lemma  the .hap layout *)
From HV Require Import Prelude Tracts C04_Model C04_Check C04_Proofs C04_ProofsSet C04_ProofsFile C04_ProofsSpec
  C04_ProofsAnc C04_ProofsPerm C04_ProofsBp.
From Coq Require Import Permutation.

(* ---- the re-ordered file -------------------------------------------------------------------------- *)

Definition reorder_anc (idx : list nat) (a : anc_source) : anc_source :=
  match a with
  | PopField m => PopField (map (pick_rows idx) m)
  | x => x
  end.

Definition reorder (idx : list nat) (t : tinput) : tinput :=
  mkt (t_samples t) (pick dgv idx (t_vars t)) (map (pick_rows idx) (t_data t)) (t_haps t)
      (t_region t) (t_ids t) (t_samp t) (reorder_anc idx (t_anc t)).

Definition is_perm (idx : list nat) (n : nat) : Prop := Permutation idx (seq 0 n).

(* ---- list facts -------------------------------------------------------------------------------------- *)

Lemma pick_seq {A} (d : A) l : pick d (seq 0 (length l)) l = l.
Proof.
  unfold pick. induction l as [|x l IH]; cbn [length seq map]; [reflexivity|].
  cbn [nth]. f_equal. rewrite <- seq_shift, map_map. cbn [nth]. exact IH.
Qed.

Lemma pick_perm {A} (d : A) idx l : is_perm idx (length l) -> Permutation (pick d idx l) l.
Proof.
  intros P. rewrite <- (pick_seq d l) at 2. unfold pick. apply Permutation_map. exact P.
Qed.

Lemma is_perm_lt idx n i : is_perm idx n -> In i idx -> (i < n)%nat.
Proof. intros P Hi. apply (Permutation_in _ P) in Hi. apply in_seq in Hi. lia. Qed.

Lemma NoDup_has_dup l : NoDup l -> has_dup l = false.
Proof.
  induction 1 as [|x l Hn Hd IH]; cbn; [reflexivity|]. rewrite IH, orb_false_r.
  destruct (memZ x l) eqn:E; [|reflexivity]. apply memZ_In in E. contradiction.
Qed.

Lemma NoDup_map_inv' {A B} (f : A -> B) l : NoDup (map f l) -> NoDup l.
Proof.
  induction l as [|x l IH]; cbn; intros H; [constructor|]. inversion H; subst. constructor; [|auto].
  intros Hin. apply H2. apply in_map. exact Hin.
Qed.

Lemma find_var_complete l : NoDup (map gv_id l) -> forall j gv,
  nth_error l j = Some gv -> find_var (gv_id gv) l 0 = Some (j, gv).
Proof.
  induction l as [|v r IH]; intros Hnd j gv Hn; [destruct j; discriminate|].
  cbn [map] in Hnd. inversion Hnd as [|x l' Hnotin Hnd']; subst. rewrite find_var_cons.
  destruct j as [|k]; cbn in Hn.
  - inversion Hn; subst. rewrite Z.eqb_refl. reflexivity.
  - destruct (gv_id v =? gv_id gv) eqn:E.
    + exfalso. apply Hnotin. apply Z.eqb_eq in E. rewrite E. apply in_map. apply (nth_error_In _ _ Hn).
    + rewrite (IH Hnd' k gv Hn). reflexivity.
Qed.

Lemma nth_error_pick {A} (d : A) idx l j' x :
  nth_error (pick d idx l) j' = Some x -> exists i, nth_error idx j' = Some i /\ nth i l d = x.
Proof.
  unfold pick. rewrite nth_error_map. destruct (nth_error idx j') as [i|]; cbn; [|discriminate].
  intros H. inversion H. exists i. auto.
Qed.

Lemma nth_pick {A} (d : A) idx l j' j : nth_error idx j' = Some j -> nth j' (pick d idx l) d = nth j l d.
Proof.
  intros H. apply nth_of_nth_error. unfold pick. rewrite nth_error_map, H. reflexivity.
Qed.

Lemma nth_error_pick_some {A} (d : A) idx l j' j :
  nth_error idx j' = Some j -> nth_error (pick d idx l) j' = Some (nth j l d).
Proof. intros H. unfold pick. rewrite nth_error_map, H. reflexivity. Qed.

(* ---- a record is found in the re-ordered file exactly when it is found in the file ---------------- *)

Lemma find_var_pick vs idx id :
  NoDup (map gv_id vs) -> is_perm idx (length vs) ->
  match find_var id vs 0 with
  | Some (j, gv) => exists j', find_var id (pick dgv idx vs) 0 = Some (j', gv) /\ nth_error idx j' = Some j
  | None => find_var id (pick dgv idx vs) 0 = None
  end.
Proof.
  intros Hnd P. pose proof (pick_perm dgv idx vs P) as PP.
  destruct (find_var id vs 0) as [[j gv]|] eqn:Ef.
  - apply find_var_spec in Ef. destruct Ef as [_ [Hn Hid]]. rewrite Nat.sub_0_r in Hn.
    assert (Hin : In gv (pick dgv idx vs)).
    { apply (Permutation_in _ (Permutation_sym PP)). apply (nth_error_In _ _ Hn). }
    apply In_nth_error in Hin. destruct Hin as [j' Hj'].
    assert (Hnd' : NoDup (map gv_id (pick dgv idx vs))).
    { apply (Permutation_NoDup (Permutation_sym (Permutation_map gv_id PP))). exact Hnd. }
    exists j'. split.
    + rewrite <- Hid. apply find_var_complete; assumption.
    + destruct (nth_error_pick dgv idx vs j' gv Hj') as [i [Hi Hgv]]. rewrite Hi. f_equal.
      assert (Hlt : (i < length vs)%nat) by (apply (is_perm_lt idx _ i P); apply (nth_error_In _ _ Hi)).
      assert (Hni : nth_error vs i = Some gv) by (rewrite <- Hgv; apply nth_error_nth'; exact Hlt).
      apply (proj1 (NoDup_nth_error vs) (NoDup_map_inv' gv_id vs Hnd) i j Hlt). congruence.
  - apply find_var_None. intros x Hx. apply (Permutation_in _ PP) in Hx.
    apply (proj1 (find_var_None id vs) Ef x Hx).
Qed.

Lemma avail_reorder t idx v :
  NoDup (map gv_id (t_vars t)) -> is_perm idx (length (t_vars t)) ->
  match avail t v with
  | Some (j, gv) => exists j', avail (reorder idx t) v = Some (j', gv) /\ nth_error idx j' = Some j
  | None => avail (reorder idx t) v = None
  end.
Proof.
  intros Hnd P. unfold avail. cbn [reorder t_vars t_region].
  pose proof (find_var_pick (t_vars t) idx (hv_id v) Hnd P) as F.
  destruct (find_var (hv_id v) (t_vars t) 0) as [[j gv]|].
  - destruct F as [j' [F1 F2]]. rewrite F1. destruct (in_region_var (t_region t) gv); [|reflexivity].
    exists j'. auto.
  - rewrite F. reflexivity.
Qed.

Lemma uses_anc_reorder t idx : uses_anc (reorder idx t) = uses_anc t.
Proof. unfold uses_anc. cbn [reorder t_anc]. destruct (t_anc t); reflexivity. Qed.

(* the POP row that goes with a data row in the re-ordered file *)
Definition pop_ok (t : tinput) (idx : list nat) (pr pr' : srow) : Prop :=
  match t_anc t with
  | PopField _ => pr' = pick 255 idx pr /\ length pr = length (t_vars t)
  | _ => True
  end.

Lemma anc_label_reorder t idx s pr pr' strand j j' gv :
  is_perm idx (length (t_vars t)) -> pop_ok t idx pr pr' -> nth_error idx j' = Some j ->
  anc_label (reorder idx t) s pr' strand j' gv = anc_label t s pr strand j gv.
Proof.
  intros P HP Hj. unfold anc_label, pop_ok in *. cbn [reorder t_anc]. destruct (t_anc t) as [|m|bp]; cbn [reorder_anc].
  - reflexivity.
  - destruct HP as [-> Hlen]. rewrite (nth_error_pick_some 255 idx pr j' j Hj).
    symmetry. apply nth_error_nth'. rewrite Hlen. apply (is_perm_lt idx _ j P). apply (nth_error_In _ _ Hj).
  - reflexivity.
Qed.

Lemma fcell_reorder t idx s d pr pr' strand h :
  NoDup (map gv_id (t_vars t)) -> is_perm idx (length (t_vars t)) -> pop_ok t idx pr pr' ->
  fcell (reorder idx t) s (pick 255 idx d) pr' strand h = fcell t s d pr strand h.
Proof.
  intros Hnd P HP. unfold fcell. apply forallb_ext'. intros v.
  pose proof (avail_reorder t idx v Hnd P) as A. rewrite uses_anc_reorder.
  destruct (avail t v) as [[j gv]|].
  - destruct A as [j' [A1 A2]]. rewrite A1.
    destruct (index_of (hv_allele v) (gv_alleles gv)); [|reflexivity].
    unfold cell. rewrite (nth_pick 255 idx d j' j A2).
    rewrite (anc_label_reorder t idx s pr pr' strand j j' gv P HP A2). reflexivity.
  - rewrite A. reflexivity.
Qed.

Lemma f_transformable_reorder t idx h :
  NoDup (map gv_id (t_vars t)) -> is_perm idx (length (t_vars t)) ->
  f_transformable (reorder idx t) h = f_transformable t h.
Proof.
  intros Hnd P. unfold f_transformable. apply forallb_ext'. intros v.
  pose proof (avail_reorder t idx v Hnd P) as A. destruct (avail t v) as [[j gv]|].
  - destruct A as [j' [A1 _]]. rewrite A1. reflexivity.
  - rewrite A. reflexivity.
Qed.

(* ---- the rows ------------------------------------------------------------------------------------------ *)

Definition popg (t : tinput) (idx : list nat) : sample_rows -> sample_rows :=
  match t_anc t with PopField _ => pick_rows idx | _ => fun x => x end.

Lemma pop_rows_reorder t idx : pop_rows (reorder idx t) = map (popg t idx) (pop_rows t).
Proof.
  unfold pop_rows, popg. cbn [reorder t_anc t_samples]. destruct (t_anc t); cbn [reorder_anc].
  - rewrite map_map. reflexivity.
  - reflexivity.
  - rewrite map_map. reflexivity.
Qed.

Definition rowg (t : tinput) (idx : list nat) (e : Z * (sample_rows * sample_rows)) : Z * (sample_rows * sample_rows) :=
  (fst e, (pick_rows idx (fst (snd e)), popg t idx (snd (snd e)))).

Lemma combine_map3 {A B C} (f : A -> A) (g : B -> B) : forall (ss : list C) (ds : list A) (ps : list B),
  combine ss (combine (map f ds) (map g ps))
  = map (fun e : C * (A * B) => (fst e, (f (fst (snd e)), g (snd (snd e))))) (combine ss (combine ds ps)).
Proof.
  induction ss as [|s ss IH]; intros ds ps; [reflexivity|].
  destruct ds as [|d ds]; [reflexivity|]. destruct ps as [|p ps]; [reflexivity|].
  cbn. f_equal. apply IH.
Qed.

Lemma filter_map_comm {A} (p : A -> bool) (G : A -> A) l :
  (forall x, p (G x) = p x) -> filter p (map G l) = map G (filter p l).
Proof.
  intros H. induction l as [|x l IH]; cbn; [reflexivity|]. rewrite H. destruct (p x); cbn; rewrite IH; reflexivity.
Qed.

Lemma f_rows_reorder t idx : f_rows (reorder idx t) = map (rowg t idx) (f_rows t).
Proof.
  unfold f_rows. rewrite pop_rows_reorder. cbn [reorder t_samples t_data].
  rewrite combine_map3. apply filter_map_comm. intros e. reflexivity.
Qed.

Lemma f_rows_pop_ok t idx e :
  wf_file t -> In e (f_rows t) ->
  pop_ok t idx (fst (snd (snd e))) (fst (popg t idx (snd (snd e))))
  /\ pop_ok t idx (snd (snd (snd e))) (snd (popg t idx (snd (snd e)))).
Proof.
  intros [_ [_ [_ [_ Hshape]]]] He. unfold pop_ok, popg. destruct (t_anc t) as [|m|bp] eqn:Ea; auto.
  assert (Hin : In (snd (snd e)) m).
  { unfold f_rows in He. apply filter_In in He. destruct He as [He _].
    destruct e as [s [d p]]. apply in_combine_r in He. apply in_combine_r in He.
    unfold pop_rows in He. rewrite Ea in He. exact He. }
  rewrite Forall_forall in Hshape. destruct (Hshape _ Hin) as [L1 L2].
  split; (split; [reflexivity|assumption]).
Qed.

(* ---- the theorems ---------------------------------------------------------------------------------------- *)

Lemma f_expected_haps_reorder t idx :
  NoDup (map gv_id (t_vars t)) -> is_perm idx (length (t_vars t)) ->
  f_expected_haps (reorder idx t) = f_expected_haps t.
Proof.
  intros Hnd P. unfold f_expected_haps. change (f_selected (reorder idx t)) with (f_selected t).
  apply filter_ext_in'. intros h _. apply f_transformable_reorder; assumption.
Qed.

Theorem expected_gt_order_irrelevant_lemma t idx :
  wf_file t -> is_perm idx (length (t_vars t)) -> f_expected (reorder idx t) = f_expected t.
Proof.
  intros W P. pose proof W as [Hd _]. pose proof (has_dup_NoDup _ Hd) as Hnd.
  unfold f_expected. rewrite (f_expected_haps_reorder t idx Hnd P), f_rows_reorder, !map_map.
  f_equal. apply map_ext_in. intros e He. apply map_ext. intros h.
  destruct (f_rows_pop_ok t idx e W He) as [O1 O2]. cbn [rowg fst snd pick_rows].
  f_equal; apply fcell_reorder; assumption.
Qed.

Theorem wf_file_reorder_lemma t idx :
  wf_file t -> is_perm idx (length (t_vars t)) -> wf_file (reorder idx t).
Proof.
  intros [Hd [Hlen [Hplen [Hreg Hshape]]]] P. pose proof (has_dup_NoDup _ Hd) as Hnd.
  split.
  { cbn [reorder t_vars]. apply NoDup_has_dup.
    apply (Permutation_NoDup (Permutation_sym (Permutation_map gv_id (pick_perm dgv idx (t_vars t) P)))). exact Hnd. }
  split; [cbn [reorder t_data t_samples]; rewrite map_length; exact Hlen|].
  split; [rewrite pop_rows_reorder, map_length; exact Hplen|].
  split; [exact Hreg|].
  cbn [reorder t_anc t_vars]. destruct (t_anc t) as [|m|bp]; cbn [reorder_anc]; auto.
  apply Forall_forall. intros p Hp. apply in_map_iff in Hp. destruct Hp as [q [<- _]].
  unfold pick_rows, pick. cbn [fst snd]. rewrite !map_length. auto.
Qed.

(* the runs that must succeed are the same ones *)
Theorem wellformed_gt_order_irrelevant_lemma t idx :
  wf_file t -> is_perm idx (length (t_vars t)) -> f_wellformed (reorder idx t) = f_wellformed t.
Proof.
  intros W P. pose proof W as [Hd _]. pose proof (has_dup_NoDup _ Hd) as Hnd.
  pose proof (wf_file_reorder_lemma t idx W P) as [Hd' _].
  unfold f_wellformed. rewrite (f_expected_haps_reorder t idx Hnd P), f_rows_reorder, uses_anc_reorder.
  change (f_selected (reorder idx t)) with (f_selected t). rewrite Hd, Hd'.
  f_equal; [f_equal; [f_equal|]|].
  - apply forallb_ext'. intros h. apply forallb_ext'. intros v.
    pose proof (avail_reorder t idx v Hnd P) as A. destruct (avail t v) as [[j gv]|].
    + destruct A as [j' [A1 _]]. rewrite A1. reflexivity.
    + rewrite A. reflexivity.
  - cbn [reorder t_anc]. destruct (t_anc t) as [|m|bp]; cbn [reorder_anc]; try reflexivity.
    rewrite forallb_map. apply forallb_ext'. intros e. reflexivity.
  - destruct (uses_anc t); [|reflexivity]. cbn [negb orb].
    rewrite forallb_map. apply forallb_ext_in. intros e He.
    destruct (f_rows_pop_ok t idx e W He) as [O1 O2].
    apply forallb_ext'. intros h. apply forallb_ext'. intros v.
    pose proof (avail_reorder t idx v Hnd P) as A. destruct (avail t v) as [[j gv]|].
    + destruct A as [j' [A1 A2]]. rewrite A1. cbn [rowg fst snd].
      rewrite (anc_label_reorder t idx (fst e) _ _ false j j' gv P O1 A2).
      rewrite (anc_label_reorder t idx (fst e) _ _ true j j' gv P O2 A2). reflexivity.
    + rewrite A. reflexivity.
Qed.

(* hence the checker's verdict on ANY observed output is the same for both orders *)
Theorem holds_file_gt_order_irrelevant_lemma t idx o w :
  wf_file t -> is_perm idx (length (t_vars t)) ->
  holds_file (mkf (reorder idx t) o w) = holds_file (mkf t o w).
Proof.
  intros W P. unfold holds_file. cbn [f_obs f_in f_warned].
  rewrite (expected_gt_order_irrelevant_lemma t idx W P), (wellformed_gt_order_irrelevant_lemma t idx W P).
  unfold f_omitted. rewrite (f_expected_haps_reorder t idx (has_dup_NoDup _ (proj1 W)) P).
  change (f_selected (reorder idx t)) with (f_selected t). reflexivity.
Qed.

(* the model: whenever it answers for both orders, it gives the same answer *)
Theorem transform_haps_gt_order_irrelevant_lemma t idx out out' :
  wf_file t -> is_perm idx (length (t_vars t)) ->
  transform_haps t = Ok out -> transform_haps (reorder idx t) = Ok out' -> out' = out.
Proof.
  intros W P H H'.
  rewrite (transform_haps_meets_spec_lemma t out W H).
  rewrite (transform_haps_meets_spec_lemma (reorder idx t) out' (wf_file_reorder_lemma t idx W P) H').
  apply expected_gt_order_irrelevant_lemma; assumption.
Qed.

(* ---- the layout of the .hap file --------------------------------------------------------------------- *)

Definition with_haps (t : tinput) (H : list hap) : tinput :=
  mkt (t_samples t) (t_vars t) (t_data t) H (t_region t) (t_ids t) (t_samp t) (t_anc t).

(* the same H / R line with its V lines in another order *)
Definition same_line (h h' : hap) : Prop :=
  h_id h = h_id h' /\ h_chrom h = h_chrom h' /\ h_start h = h_start h' /\ h_end h = h_end h'
  /\ h_anc h = h_anc h' /\ h_rep h = h_rep h' /\ Permutation (h_vars h) (h_vars h').

Lemma F2_filter {A} (R : A -> A -> Prop) (p p' : A -> bool) l l' :
  (forall x y, R x y -> p x = p' y) -> Forall2 R l l' -> Forall2 R (filter p l) (filter p' l').
Proof.
  intros Hp HF. induction HF as [|x y l l' Hxy HF IH]; cbn; [constructor|].
  rewrite (Hp x y Hxy). destruct (p' y); [constructor; assumption|exact IH].
Qed.

Lemma fcell_same_line t s d pr strand h h' :
  same_line h h' -> fcell t s d pr strand h = fcell t s d pr strand h'.
Proof.
  intros [_ [_ [_ [_ [Ea [_ P]]]]]]. unfold fcell. rewrite Ea. apply forallb_perm. exact P.
Qed.

Lemma f_transformable_same_line t h h' : same_line h h' -> f_transformable t h = f_transformable t h'.
Proof. intros [_ [_ [_ [_ [_ [_ P]]]]]]. unfold f_transformable. apply forallb_perm. exact P. Qed.

Lemma hap_selected_same_line rg ids h h' : same_line h h' -> hap_selected rg ids h = hap_selected rg ids h'.
Proof.
  intros [E1 [E2 [E3 [E4 _]]]]. unfold hap_selected. rewrite E1, E2, E3, E4. reflexivity.
Qed.

Theorem expected_vline_order_irrelevant_lemma t H H' :
  Forall2 same_line H H' -> f_expected (with_haps t H) = f_expected (with_haps t H').
Proof.
  intros HF.
  assert (HE : Forall2 same_line (f_expected_haps (with_haps t H)) (f_expected_haps (with_haps t H'))).
  { unfold f_expected_haps, real_haps, f_selected. cbn [with_haps t_haps t_region t_ids].
    apply F2_filter; [intros x y Hxy; apply (f_transformable_same_line (with_haps t H) x y Hxy)|].
    apply F2_filter; [intros x y [_ [_ [_ [_ [_ [Er _]]]]]]; rewrite Er; reflexivity|].
    apply F2_filter; [intros x y Hxy; apply hap_selected_same_line; exact Hxy|exact HF]. }
  unfold f_expected. change (f_rows (with_haps t H')) with (f_rows (with_haps t H)).
  f_equal; [f_equal|].
  - unfold recs_of. apply map_eq_F2. eapply F2_impl'; [|exact HE].
    intros a b [E1 [E2 [E3 _]]]. rewrite E1, E2, E3. reflexivity.
  - apply map_ext. intros e. apply map_eq_F2. eapply F2_impl'; [|exact HE].
    intros a b Hab. f_equal; apply (fcell_same_line (with_haps t H) _ _ _ _ a b Hab).
Qed.

(* each output column is a function of its own H line (and the genotypes); the columns are those of the
   kept H lines, in the order of the H lines - wherever the V lines and the other lines stand *)
Definition f_keep (t : tinput) (h : hap) : bool :=
  hap_selected (t_region t) (t_ids t) h && negb (h_rep h) && f_transformable t h.

Definition f_column (t : tinput) (h : hap) : (Z * Z * Z) * list (bool * bool) :=
  ((h_id h, h_chrom h, h_start h),
   map (fun e : Z * (sample_rows * sample_rows) =>
          (fcell t (fst e) (fst (fst (snd e))) (fst (snd (snd e))) false h,
           fcell t (fst e) (snd (fst (snd e))) (snd (snd (snd e))) true h)) (f_rows t)).

Lemma filter_filter {A} (p q : A -> bool) l : filter p (filter q l) = filter (fun x => q x && p x) l.
Proof.
  induction l as [|x l IH]; cbn; [reflexivity|]. destruct (q x); cbn; [destruct (p x)|]; rewrite IH; reflexivity.
Qed.

Theorem expected_columnwise_lemma t H :
  let cols := map (f_column t) (filter (f_keep t) H) in
  f_expected (with_haps t H)
  = (map fst cols, map fst (f_rows t),
     map (fun k => map (fun c : (Z * Z * Z) * list (bool * bool) => nth k (snd c) (false, false)) cols)
         (seq 0 (length (f_rows t)))).
Proof.
  intros cols.
  assert (EH : f_expected_haps (with_haps t H) = filter (f_keep t) H).
  { unfold f_expected_haps, real_haps, f_selected. cbn [with_haps t_haps t_region t_ids].
    rewrite !filter_filter. apply filter_ext. intros h. unfold f_keep.
    change (f_transformable (with_haps t H) h) with (f_transformable t h). rewrite andb_assoc. reflexivity. }
  unfold f_expected. rewrite EH. change (f_rows (with_haps t H)) with (f_rows t).
  unfold cols. rewrite !map_map.
  assert (G : forall (rs0 : list (Z * (sample_rows * sample_rows))) (F : Z * (sample_rows * sample_rows) -> hap -> bool * bool) (Hs : list hap),
             map (fun e => map (F e) Hs) rs0
             = map (fun k => map (fun h => nth k (map (fun e => F e h) rs0) (false, false)) Hs) (seq 0 (length rs0))).
  { clear. intros rs0 F Hs. induction rs0 as [|e rs0 IH]; [reflexivity|].
    cbn [map length seq]. f_equal. rewrite <- seq_shift, map_map. cbn [nth]. exact IH. }
  rewrite (G (f_rows t) (fun e h => (fcell (with_haps t H) (fst e) (fst (fst (snd e))) (fst (snd (snd e))) false h,
                                      fcell (with_haps t H) (fst e) (snd (fst (snd e))) (snd (snd (snd e))) true h))).
  apply f_equal2; [reflexivity|].
  apply map_ext. intros k. rewrite map_map. reflexivity.
Qed.
