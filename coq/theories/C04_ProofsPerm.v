(* C04 - the order in which a haplotype lists its variants (the order of its V lines in the
   .hap file) does not matter to Haplotype.transform / HaplotypeAncestry.transform. *)
From HV Require Import Prelude Tracts C04_Model C04_Check C04_Proofs.
From Coq Require Import Permutation.

Lemma forallb_perm {A} (f : A -> bool) l l' : Permutation l l' -> forallb f l = forallb f l'.
Proof.
  induction 1 as [|x l l' P IH|x y l|l1 l2 l3 P1 IH1 P2 IH2]; cbn [forallb].
  - reflexivity.
  - rewrite IH. reflexivity.
  - destruct (f x), (f y); reflexivity.
  - rewrite IH1. exact IH2.
Qed.

Lemma hap_okb_perm G h h' : Permutation (h_vars h) (h_vars h') -> hap_okb G h = hap_okb G h'.
Proof. intro P. unfold hap_okb. apply forallb_perm. exact P. Qed.

Lemma spec_strand_perm G anc h h' d a :
  Permutation (h_vars h) (h_vars h') -> h_anc h = h_anc h' ->
  spec_strand G anc h d a = spec_strand G anc h' d a.
Proof. intros P E. unfold spec_strand. rewrite E. apply forallb_perm. exact P. Qed.

Lemma spec_col_perm G anc h h' :
  Permutation (h_vars h) (h_vars h') -> h_anc h = h_anc h' -> spec_col G anc h = spec_col G anc h'.
Proof.
  intros P E. unfold spec_col. apply map_ext. intro da.
  rewrite !(spec_strand_perm G anc h h' _ _ P E). reflexivity.
Qed.

(* same answer - the same column or the same error - for every order of the variant list *)
Lemma hap_transform_perm G (anc : bool) h h' :
  has_dup (map gv_id (g_vars G)) = false ->
  Permutation (h_vars h) (h_vars h') -> h_anc h = h_anc h' ->
  (if anc then hap_transform_anc h G else hap_transform h G)
  = (if anc then hap_transform_anc h' G else hap_transform h' G).
Proof.
  intros Hd P E. destruct anc.
  - rewrite !(hap_transform_anc_closed G _ Hd), (hap_okb_perm G h h' P), (spec_col_perm G true h h' P E). reflexivity.
  - rewrite !(hap_transform_closed G _ Hd), (hap_okb_perm G h h' P), (spec_col_perm G false h h' P E). reflexivity.
Qed.
