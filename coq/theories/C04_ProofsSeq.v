(* C04 - operation sequences on one Haplotypes object (C04_CheckSeq): whatever history of
   Haplotypes.sort / Haplotype.sort / Haplotypes.subset / Haplotypes.read lies between two
   transforms, every haplotype of the collection is one of the file's haplotypes with its V
   lines permuted, hence (the transforms being invariant under that permutation) every
   single-haplotype answer and every column of the whole-set answer is the one the file's
   haplotype gets on fresh objects.  Also: soundness of the step checker and of the
   cross-run ("POP fields vs .bp file", VCF vs PGEN) checker. *)
From HV Require Import Prelude Tracts C04_Model C04_Check C04_CheckSeq C04_Proofs C04_ProofsSet
  C04_ProofsFile C04_ProofsSpec C04_ProofsPerm C04_ProofsDup.
From Coq Require Import Permutation.

(* ---- sorted() only permutes ------------------------------------------------------------- *)

Lemma insert_by_perm {A} (lt : A -> A -> bool) x l : Permutation (x :: l) (insert_by lt x l).
Proof.
  induction l as [|y r IH]; cbn [insert_by]; [apply Permutation_refl|].
  destruct (lt y x); [|apply Permutation_refl].
  eapply Permutation_trans; [apply perm_swap|]. apply perm_skip. exact IH.
Qed.

Lemma sort_by_perm {A} (lt : A -> A -> bool) l : Permutation l (sort_by lt l).
Proof.
  induction l as [|x r IH]; cbn [sort_by]; [apply Permutation_refl|].
  eapply Permutation_trans; [apply perm_skip; exact IH|]. apply insert_by_perm.
Qed.

(* ---- the invariant of every history ---------------------------------------------------------- *)

(* p is a haplotype of the file with its V lines in some other order *)
Definition from_file (file : list phap) (p : phap) : Prop :=
  exists p0, In p0 file /\ ph_h p = ph_h p0 /\ Permutation (ph_vs p0) (ph_vs p).

Lemma from_file_self file p : In p file -> from_file file p.
Proof. intros H. exists p. split; [exact H|]. split; [reflexivity|apply Permutation_refl]. Qed.

Lemma from_file_sort_vars file p : from_file file p -> from_file file (sort_vars p).
Proof.
  intros [p0 [H1 [H2 H3]]]. exists p0. split; [exact H1|]. split; [exact H2|].
  cbn. eapply Permutation_trans; [exact H3|apply sort_by_perm].
Qed.

Lemma find_ph_In id S p : find_ph id S = Some p -> In p S /\ h_id (ph_h p) = id.
Proof.
  induction S as [|q r IH]; cbn; [discriminate|].
  destruct (h_id (ph_h q) =? id) eqn:E.
  - intros H. inversion H; subst. split; [left; reflexivity|apply Z.eqb_eq; exact E].
  - intros H. destruct (IH H) as [I1 I2]. split; [right; exact I1|exact I2].
Qed.

Lemma apply_op_inv file S o :
  Forall (from_file file) S -> Forall (from_file file) (apply_op file S o).
Proof.
  intros HS. rewrite Forall_forall in HS. apply Forall_forall. intros p Hp. destruct o as [| |id|ids|]; cbn in Hp.
  - apply HS. exact Hp.
  - apply in_map_iff in Hp. destruct Hp as [q [<- Hq]].
    assert (Hq' : In q S).
    { eapply Permutation_in; [apply Permutation_sym; apply sort_by_perm|exact Hq]. }
    destruct (h_rep (ph_h q)); [apply HS; exact Hq'|apply from_file_sort_vars; apply HS; exact Hq'].
  - apply in_map_iff in Hp. destruct Hp as [q [<- Hq]].
    destruct ((h_id (ph_h q) =? id) && negb (h_rep (ph_h q))); [apply from_file_sort_vars|]; apply HS; exact Hq.
  - apply in_flat_map in Hp. destruct Hp as [id [_ Hp]].
    destruct (find_ph id S) as [q|] eqn:Ef; [|inversion Hp].
    destruct Hp as [<-|[]]. apply HS. apply (find_ph_In id S q Ef).
  - apply from_file_self. exact Hp.
Qed.

Lemma run_ops_inv file ops : forall S,
  Forall (from_file file) S -> Forall (from_file file) (run_ops file S ops).
Proof.
  induction ops as [|o r IH]; intros S HS; cbn [run_ops]; [exact HS|].
  apply IH. apply apply_op_inv. exact HS.
Qed.

Lemma hap_of_from_file file p :
  from_file file p ->
  exists p0, In p0 file
    /\ h_id (hap_of p) = h_id (hap_of p0) /\ h_chrom (hap_of p) = h_chrom (hap_of p0)
    /\ h_start (hap_of p) = h_start (hap_of p0) /\ h_anc (hap_of p) = h_anc (hap_of p0)
    /\ Permutation (h_vars (hap_of p)) (h_vars (hap_of p0)).
Proof.
  intros [p0 [H1 [H2 H3]]]. exists p0. split; [exact H1|]. unfold hap_of. cbn. rewrite H2.
  repeat split; try reflexivity. apply Permutation_map. apply Permutation_sym. exact H3.
Qed.

(* History is irrelevant: after ANY sequence of operations every haplotype of the collection gets,
   from the single-haplotype transform, the answer (column or error) that the file's haplotype
   with that ID line gets; its specification column - the column of the whole-set answer by
   set_tr_closed_all - is the same too.  For every genotype object, every ancestry mode. *)
Theorem history_irrelevant_lemma file ops p :
  In p (run_ops file file ops) ->
  exists p0, In p0 file
    /\ h_id (hap_of p) = h_id (hap_of p0) /\ h_chrom (hap_of p) = h_chrom (hap_of p0)
    /\ h_start (hap_of p) = h_start (hap_of p0)
    /\ forall G (anc : bool),
         single_tr anc (hap_of p) G = single_tr anc (hap_of p0) G
         /\ spec_col G anc (hap_of p) = spec_col G anc (hap_of p0)
         /\ hap_okb G (hap_of p) = hap_okb G (hap_of p0).
Proof.
  intros Hp.
  assert (HF : Forall (from_file file) (run_ops file file ops)).
  { apply run_ops_inv. apply Forall_forall. intros q Hq. apply from_file_self. exact Hq. }
  rewrite Forall_forall in HF. destruct (hap_of_from_file file p (HF p Hp)) as [p0 [I [E1 [E2 [E3 [E4 P]]]]]].
  exists p0. split; [exact I|]. split; [exact E1|]. split; [exact E2|]. split; [exact E3|].
  intros G anc. split; [apply single_tr_perm_all; assumption|].
  split; [apply spec_col_perm; assumption|apply hap_okb_perm; exact P].
Qed.

(* the whole-set answer after any history, in closed form: the records of the current collection
   in its current order, each column the specification column of the FILE's haplotype *)
Theorem set_after_history_lemma file ops G (anc : bool) :
  dup_ids G = false ->
  let H := real_haps (map hap_of (run_ops file file ops)) in
  forallb (hap_okb G) H = true ->
  set_tr anc (map hap_of (run_ops file file ops)) G = Ok (recs_of H, spec_mat G anc H).
Proof.
  intros Hd H Hok. pose proof (set_tr_closed_all G anc (map hap_of (run_ops file file ops))) as C.
  cbv zeta in C. rewrite Hd in C. fold H in C. rewrite Hok in C. exact C.
Qed.

(* ---- soundness of the step checker --------------------------------------------------------------- *)

Lemma obs_haps_spec c o H :
  obs_haps c o = Some H ->
  map h_id H = so_order o
  /\ forall h, In h H -> exists p0, In p0 (q_H c) /\ h = hap_of p0.
Proof.
  unfold obs_haps. intros E. apply all_some_Forall2 in E.
  remember (so_order o) as ids eqn:Eo. clear Eo. induction E as [|id h ids H Hx HF IH].
  - split; [reflexivity|intros h []].
  - destruct IH as [I1 I2].
    destruct (find_ph id (q_H c)) as [p0|] eqn:Ef; [|discriminate]. cbn in Hx. inversion Hx; subst h.
    destruct (find_ph_In id (q_H c) p0 Ef) as [F1 F2]. split.
    + cbn [map]. f_equal; [exact F2|exact I1].
    + intros h [<-|Hh]; [exists p0; auto|apply I2; exact Hh].
Qed.

Theorem holds_step_sound_lemma c o :
  holds_step c o = true ->
  exists H, map h_id H = so_order o
    /\ NoDup (so_order o)
    /\ (forall h, In h H -> exists p0, In p0 (q_H c) /\ h = hap_of p0)
    /\ holds_api (mka (q_G c) H (q_anc c) (so_single o) (so_set o)) = true.
Proof.
  unfold holds_step. destruct (obs_haps c o) as [H|] eqn:E; [|discriminate].
  intros Hh. apply andb_true_iff in Hh. destruct Hh as [H1 H2].
  destruct (obs_haps_spec c o H E) as [S1 S2].
  exists H. split; [exact S1|]. split; [apply has_dup_NoDup; apply negb_true_iff; exact H1|].
  split; [exact S2|exact H2].
Qed.

Theorem holds_seq_sound_lemma c :
  snd (check_seq c) = true ->
  Forall (fun s : op * sobs => holds_step c (snd s) = true) (q_steps c).
Proof.
  unfold check_seq. generalize (q_H c) at 1. induction (q_steps c) as [|[o ob] r IH]; intros S; cbn [check_steps].
  - constructor.
  - destruct (check_steps c (apply_op (q_H c) S o) r) as [a h] eqn:E. cbn [snd]. intros Hh.
    apply andb_true_iff in Hh. destruct Hh as [H1 H2]. constructor; [exact H1|].
    apply (IH (apply_op (q_H c) S o)). rewrite E. exact H2.
Qed.

(* ---- soundness of the cross-run checker ---------------------------------------------------------- *)

Theorem holds_filex_sound_lemma c :
  holds_filex c = true ->
  holds_file (x_case c) = true
  /\ forall out out', f_obs (x_case c) = Ok out -> In (Ok out') (x_peers c) -> out = out'.
Proof.
  unfold holds_filex. intros H. apply andb_true_iff in H. destruct H as [H1 H2].
  split; [exact H1|]. intros out out' Eo Hin. unfold peers_agree in H2. rewrite Eo in H2.
  rewrite forallb_forall in H2. specialize (H2 _ Hin). apply tout_eqb_spec. exact H2.
Qed.

(* a concrete history: V lines against the positional order, sort, and the state afterwards *)
Definition ph_ex : phap :=
  mkph (mkh 10 1 10 21 8 [] false) [mkpv 20 21 (mkhv 4 7); mkpv 10 11 (mkhv 1 3)].
Definition rp_ex : phap := mkph (mkh 3 1 5 9 0 [] true) [].

Lemma history_example_lemma :
  run_ops [ph_ex; rp_ex] [ph_ex; rp_ex] [OSort]
  = [rp_ex; mkph (mkh 10 1 10 21 8 [] false) [mkpv 10 11 (mkhv 1 3); mkpv 20 21 (mkhv 4 7)]]
  /\ run_ops [ph_ex; rp_ex] [ph_ex; rp_ex] [OSort; OSubset [10; 99]; OReread] = [ph_ex; rp_ex].
Proof. split; reflexivity. Qed.
