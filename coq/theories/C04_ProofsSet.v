(* C04 - proofs, part 2: the set-wise transforms (allele dictionary, broadcast
   equality, per-haplotype AND) compute the same cells as the single-haplotype
   transforms.
     haps_transform_closed_gen : Haplotypes[Ancestry].transform = spec_mat
     haps_transform_eq_single_gen : column i of the set-wise result is the
        single transform of haplotype i; the set-wise call fails exactly when
        some single call fails
     holds_set_sound, holds_api_sound : what the boolean checkers mean *)
From HV Require Import Prelude Tracts C04_Model C04_Check C04_Proofs.

(* ---- generic ---------------------------------------------------------------- *)

Lemma forallb_map {A B} (f : B -> bool) (g : A -> B) l :
  forallb f (map g l) = forallb (fun x => f (g x)) l.
Proof. induction l as [|x r IH]; cbn; [reflexivity|]. rewrite IH. reflexivity. Qed.

Lemma forallb_ext_in {A} (f g : A -> bool) l :
  (forall x, In x l -> f x = g x) -> forallb f l = forallb g l.
Proof.
  induction l as [|x r IH]; cbn; intros H; [reflexivity|].
  rewrite (H x (or_introl eq_refl)), IH; [reflexivity|]. intros y Hy. apply H. right. exact Hy.
Qed.

Lemma nth_of_nth_error {A} (l : list A) n x d : nth_error l n = Some x -> nth n l d = x.
Proof.
  revert n. induction l as [|a l IH]; intros [|n]; cbn; intros H; try discriminate.
  - inversion H. reflexivity.
  - apply IH. exact H.
Qed.

Lemma F2_nth_error {A B} (R : A -> B -> Prop) l r n a :
  Forall2 R l r -> nth_error l n = Some a -> exists b, nth_error r n = Some b /\ R a b.
Proof.
  intros HF. revert n. induction HF as [|x y l r Hxy HF IH]; intros [|n]; cbn; intros H; try discriminate.
  - inversion H; subst. exists y. auto.
  - apply IH. exact H.
Qed.

(* ---- the allele dictionary ---------------------------------------------------- *)

Lemma key_eqb_eq a b : key_eqb a b = true <-> a = b.
Proof.
  destruct a as [a1 a2], b as [b1 b2]. unfold key_eqb. cbn. rewrite andb_true_iff, !Z.eqb_eq.
  split; [intros [-> ->]; reflexivity | intros H; inversion H; auto].
Qed.

Lemma mem_key_In k l : mem_key k l = true <-> In k l.
Proof.
  unfold mem_key. rewrite existsb_exists. split.
  - intros [x [Hin Hx]]. apply key_eqb_eq in Hx. subst. exact Hin.
  - intros Hin. exists k. split; [exact Hin|]. apply key_eqb_eq. reflexivity.
Qed.

Lemma dedup_In l : forall seen k, In k (dedup seen l) <-> In k l /\ ~ In k seen.
Proof.
  induction l as [|x r IH]; intros seen k; cbn.
  - tauto.
  - destruct (mem_key x seen) eqn:E.
    + apply mem_key_In in E. rewrite IH. split.
      * intros [H1 H2]. auto.
      * intros [[->|H1] H2]; [contradiction|auto].
    + assert (Hx : ~ In x seen).
      { intros Hc. apply mem_key_In in Hc. congruence. }
      cbn. rewrite IH. cbn. split.
      * intros [->|[H1 H2]]; [auto|]. split; [auto|]. intros Hc. apply H2. auto.
      * intros [[->|H1] H2]; [auto|].
        destruct (key_eqb x k) eqn:Ek.
        -- apply key_eqb_eq in Ek. auto.
        -- right. split; [exact H1|]. intros [->|Hc]; [|contradiction].
           assert (key_eqb k k = true) by (apply key_eqb_eq; reflexivity). congruence.
Qed.

Lemma keys_of_In H k :
  In k (keys_of H) <-> exists h v, In h H /\ In v (h_vars h) /\ key_of v = k.
Proof.
  unfold keys_of. rewrite dedup_In. rewrite in_flat_map. split.
  - intros [[h [Hh Hk]] _]. apply in_map_iff in Hk. destruct Hk as [v [Hv Hin]]. exists h, v. auto.
  - intros [h [v [Hh [Hv Hk]]]]. split; [|intros []]. exists h. split; [exact Hh|].
    apply in_map_iff. exists v. auto.
Qed.

Lemma key_pos_nth k ks : In k ks -> exists p, key_pos k ks = Some p /\ nth_error ks p = Some k.
Proof.
  induction ks as [|x r IH]; cbn; intros Hin; [contradiction|].
  destruct (key_eqb k x) eqn:E.
  - apply key_eqb_eq in E. subst. exists O. auto.
  - destruct Hin as [->|Hin].
    + assert (key_eqb k k = true) by (apply key_eqb_eq; reflexivity). congruence.
    + destruct (IH Hin) as [p [H1 H2]]. exists (S p). rewrite H1. auto.
Qed.

(* a dictionary key seen as a haplotype allele *)
Definition kv (k : key) : hvar := mkhv (fst k) (snd k).
Definition kcol (G : geno) (k : key) : option (nat * Z) := var_col G (kv k).

Lemma var_col_key G v : var_col G v = kcol G (key_of v).
Proof. reflexivity. Qed.

(* ---- the allele array without the length guard -------------------------------- *)

Lemma allele_arr_len want : forall S arr,
  allele_arr false want S = Ok arr -> (length want <= length S)%nat.
Proof.
  induction want as [|a ws IH]; cbn; intros S arr H; [lia|].
  destruct S as [|gv S']; [discriminate|]. cbn in H. unfold allele_index in H.
  destruct (index_of a (gv_alleles gv)); [|discriminate].
  destruct (allele_arr false ws S') as [r|] eqn:E; cbn in H; [|discriminate].
  specialize (IH S' r E). cbn. lia.
Qed.

Lemma prepare_nolen G hv :
  match allele_arr false (map hv_allele hv) (map snd (lookup (map hv_id hv) (g_vars G))) with
  | Ok arr => exists jis, all_some (map (var_col G) hv) = Some jis /\ arr = map snd jis
                          /\ map fst (lookup (map hv_id hv) (g_vars G)) = map fst jis
  | Err k => all_some (map (var_col G) hv) = None
             /\ ((forall v, In v hv -> find_var (hv_id v) (g_vars G) 0 <> None) -> k = E_Value)
  end.
Proof.
  destruct (all_some (map (fun id => find_var id (g_vars G) 0) (map hv_id hv))) as [L|] eqn:EL.
  - rewrite (lookup_found _ _ _ EL). rewrite map_map in EL. apply all_some_Forall2 in EL.
    destruct (allele_arr_closed G hv L EL) as [H1 H2]. rewrite H1.
    destruct (all_some (map (var_col G) hv)) as [jis|] eqn:Ea.
    + exists jis. split; [reflexivity|]. split; [reflexivity|]. symmetry. apply H2. reflexivity.
    + split; [reflexivity|]. intros _. reflexivity.
  - pose proof (lookup_notfound _ _ EL) as Hlt.
    rewrite map_map in EL. apply all_some_None in EL. destruct EL as [v [Hin Hv]].
    destruct (allele_arr false (map hv_allele hv) (map snd (lookup (map hv_id hv) (g_vars G)))) as [arr|k] eqn:Ea.
    + apply allele_arr_len in Ea. rewrite !map_length in *. lia.
    + split.
      * apply (all_some_In_None (var_col G) hv v Hin). apply var_col_notfound. exact Hv.
      * intros Hall. exfalso. apply (Hall v Hin). exact Hv.
Qed.

Lemma haps_prepare_cases G H :
  has_dup (map gv_id (g_vars G)) = false ->
  match haps_prepare false H G with
  | Ok (ks, arr, cols) =>
      ks = keys_of H /\
      exists jis, all_some (map (kcol G) ks) = Some jis /\ arr = map snd jis /\ cols = map fst jis
  | Err k => all_some (map (kcol G) (keys_of H)) = None
             /\ ((forall k', In k' (keys_of H) -> find_var (fst k') (g_vars G) 0 <> None) -> k = E_Value)
  end.
Proof.
  intros Hd. unfold haps_prepare. rewrite Hd.
  pose proof (prepare_nolen G (map kv (keys_of H))) as P.
  rewrite !map_map in P. cbn in P.
  change (fun x : key => fst x) with (@fst Z Z) in P.
  change (fun x : key => snd x) with (@snd Z Z) in P.
  unfold key in *.
  destruct (allele_arr false (map snd (keys_of H)) (map snd (lookup (map fst (keys_of H)) (g_vars G)))) as [arr|k].
  - cbv beta iota in P |- *. destruct P as [jis [P1 [P2 P3]]]. split; [reflexivity|]. exists jis. auto.
  - cbv beta iota in P |- *. destruct P as [P1 P2]. split; [exact P1|]. intros Hall. apply P2.
    intros v Hv. apply in_map_iff in Hv. destruct Hv as [k' [<- Hk']]. cbn. apply Hall. exact Hk'.
Qed.

(* ---- one haplotype's AND over the dictionary ----------------------------------- *)

Lemma map2_eqb_jis r (jis : list (nat * Z)) :
  map2 Z.eqb (map snd jis) (sub_row (map fst jis) r)
  = map (fun ji : nat * Z => snd ji =? cell r (fst ji)) jis.
Proof. unfold sub_row. induction jis as [|ji l IH]; cbn; [reflexivity|]. rewrite IH. reflexivity. Qed.

Lemma set_match_vcheck G ks jis h r :
  Forall2 (fun k ji => kcol G k = Some ji) ks jis ->
  (forall v, In v (h_vars h) -> In (key_of v) ks) ->
  set_match (map snd jis) (map fst jis) (idxs_of ks h) r = forallb (vcheck G r) (h_vars h).
Proof.
  intros HF Hin. unfold set_match, idxs_of. rewrite map2_eqb_jis, forallb_map.
  apply forallb_ext_in. intros v Hv.
  destruct (key_pos_nth _ _ (Hin v Hv)) as [p [Hp Hn]]. rewrite Hp.
  destruct (F2_nth_error _ _ _ _ _ HF Hn) as [ji [Hj Hk]].
  rewrite (nth_of_nth_error _ p (snd ji =? cell r (fst ji)) false).
  - unfold vcheck. rewrite (var_col_key G v), Hk. destruct ji. reflexivity.
  - rewrite nth_error_map, Hj. reflexivity.
Qed.

Lemma set_anc_match_acheck G ks jis h a l :
  Forall2 (fun k ji => kcol G k = Some ji) ks jis ->
  (forall v, In v (h_vars h) -> In (key_of v) ks) ->
  set_anc_match (label_code (g_labels G) l) (map fst jis) (idxs_of ks h) a
  = forallb (acheck G a l) (h_vars h).
Proof.
  intros HF Hin. unfold set_anc_match, idxs_of, sub_row. rewrite forallb_map.
  apply forallb_ext_in. intros v Hv.
  destruct (key_pos_nth _ _ (Hin v Hv)) as [p [Hp Hn]]. rewrite Hp.
  destruct (F2_nth_error _ _ _ _ _ HF Hn) as [ji [Hj Hk]].
  rewrite (nth_of_nth_error (map (cell a) (map fst jis)) p (cell a (fst ji)) 255).
  - rewrite <- (var_col_key G v) in Hk. unfold var_col in Hk. unfold acheck.
    destruct (find_var (hv_id v) (g_vars G) 0) as [[j gv]|]; [|discriminate].
    destruct (index_of (hv_allele v) (gv_alleles gv)); [|discriminate].
    inversion Hk; subst. reflexivity.
  - rewrite map_map, nth_error_map, Hj. reflexivity.
Qed.

(* ---- hap_okb for all haplotypes <-> every dictionary key resolves ---------------- *)

Lemma all_ok_keys G H :
  forallb (hap_okb G) H = true -> exists jis, all_some (map (kcol G) (keys_of H)) = Some jis.
Proof.
  intros Hok. apply all_some_forallb. apply forallb_forall. intros k Hk.
  apply keys_of_In in Hk. destruct Hk as [h [v [Hh [Hv <-]]]].
  rewrite forallb_forall in Hok. specialize (Hok h Hh). unfold hap_okb in Hok.
  rewrite forallb_forall in Hok. specialize (Hok v Hv). rewrite <- var_col_key. exact Hok.
Qed.

Lemma not_all_ok_keys G H :
  forallb (hap_okb G) H = false -> all_some (map (kcol G) (keys_of H)) = None.
Proof.
  intros Hok. apply forallb_false_ex in Hok. destruct Hok as [h [Hh Hf]].
  unfold hap_okb in Hf. apply forallb_false_ex in Hf. destruct Hf as [v [Hv Hc]].
  apply (all_some_In_None (kcol G) _ (key_of v)).
  - apply keys_of_In. exists h, v. auto.
  - rewrite <- var_col_key. destruct (var_col G v); [discriminate|reflexivity].
Qed.

Lemma present_keys G H :
  forallb (hap_presentb G) H = true ->
  forall k, In k (keys_of H) -> find_var (fst k) (g_vars G) 0 <> None.
Proof.
  intros Hp k Hk. apply keys_of_In in Hk. destruct Hk as [h [v [Hh [Hv <-]]]].
  rewrite forallb_forall in Hp. specialize (Hp h Hh). unfold hap_presentb in Hp.
  rewrite forallb_forall in Hp. specialize (Hp v Hv). unfold var_present in Hp. cbn.
  destruct (find_var (hv_id v) (g_vars G) 0); [discriminate|discriminate].
Qed.

(* ---- closed form of both set-wise transforms --------------------------------------- *)

Definition set_tr (anc : bool) := if anc then haps_transform_anc else haps_transform.
Definition single_tr (anc : bool) := if anc then hap_transform_anc else hap_transform.

Theorem haps_transform_closed_gen G (anc : bool) H0 :
  has_dup (map gv_id (g_vars G)) = false ->
  let H := real_haps H0 in
  (forallb (hap_okb G) H = true -> set_tr anc H0 G = Ok (recs_of H, spec_mat G anc H))
  /\ (forallb (hap_okb G) H = false ->
        exists k, set_tr anc H0 G = Err k /\ (forallb (hap_presentb G) H = true -> k = E_Value)).
Proof.
  intros Hd H. pose proof (haps_prepare_cases G H Hd) as P. split.
  - intros Hok. destruct (all_ok_keys G H Hok) as [jis0 Hj0].
    assert (Hset : forall ks arr cols, haps_prepare false H G = Ok (ks, arr, cols) ->
              ks = keys_of H /\ exists jis, Forall2 (fun k ji => kcol G k = Some ji) ks jis
                                            /\ arr = map snd jis /\ cols = map fst jis).
    { intros ks arr cols E. rewrite E in P. destruct P as [-> [jis [P1 [P2 P3]]]].
      split; [reflexivity|]. exists jis. split; [apply all_some_Forall2; exact P1|auto]. }
    destruct (haps_prepare false H G) as [[[ks arr] cols]|k] eqn:E.
    2:{ destruct P as [P1 _]. congruence. }
    destruct (Hset ks arr cols eq_refl) as [-> [jis [HF [-> ->]]]].
    assert (Hin : forall h, In h H -> forall v, In v (h_vars h) -> In (key_of v) (keys_of H)).
    { intros h Hh v Hv. apply keys_of_In. exists h, v. auto. }
    destruct anc; unfold set_tr.
    + unfold haps_transform_anc, haps_transform_anc_gen. fold H. cbn [andb]. rewrite E.
      f_equal. f_equal. unfold spec_mat, rows. apply map_ext. intros [d a].
      apply map_ext_in. intros h Hh. cbn.
      rewrite !(set_match_vcheck G _ jis h _ HF (Hin h Hh)).
      rewrite !(set_anc_match_acheck G _ jis h _ _ HF (Hin h Hh)).
      unfold spec_strand. rewrite !forallb_andb.
      f_equal; apply andb_comm.
    + unfold haps_transform. fold H. rewrite E.
      f_equal. f_equal. unfold spec_mat, rows. rewrite map_map. apply map_ext. intros d.
      apply map_ext_in. intros h Hh. cbn.
      rewrite !(set_match_vcheck G _ jis h _ HF (Hin h Hh)).
      unfold spec_strand. f_equal; apply forallb_ext'; intros v; rewrite andb_true_r; reflexivity.
  - intros Hok. pose proof (not_all_ok_keys G H Hok) as Hn.
    destruct (haps_prepare false H G) as [[[ks arr] cols]|k] eqn:E.
    { destruct P as [-> [jis [P1 _]]]. congruence. }
    destruct P as [_ P2]. exists k. split.
    + destruct anc; unfold set_tr.
      * unfold haps_transform_anc, haps_transform_anc_gen. fold H. cbn [andb]. rewrite E. reflexivity.
      * unfold haps_transform. fold H. rewrite E. reflexivity.
    + intros Hp. apply P2. apply present_keys. exact Hp.
Qed.

(* ---- set-wise = single --------------------------------------------------------------- *)

Definition column_of (M : list (list (bool * bool))) (i : nat) : list (bool * bool) :=
  map (fun row => nth i row (false, false)) M.

Lemma column_spec_mat G anc H i h :
  nth_error H i = Some h -> column_of (spec_mat G anc H) i = spec_col G anc h.
Proof.
  intros Hn. unfold column_of, spec_mat, spec_col. rewrite map_map. apply map_ext. intros da.
  apply nth_of_nth_error. rewrite nth_error_map, Hn. reflexivity.
Qed.

Lemma single_tr_closed G (anc : bool) h :
  has_dup (map gv_id (g_vars G)) = false ->
  single_tr anc h G = if hap_okb G h then Ok (spec_col G anc h) else Err E_Value.
Proof.
  intros Hd. destruct anc; unfold single_tr.
  - apply hap_transform_anc_closed. exact Hd.
  - apply hap_transform_closed. exact Hd.
Qed.

Theorem haps_transform_eq_single_gen G (anc : bool) H0 :
  has_dup (map gv_id (g_vars G)) = false ->
  forallb (hap_presentb G) (real_haps H0) = true ->
  match set_tr anc H0 G with
  | Ok (recs, M) =>
      recs = recs_of (real_haps H0) /\
      length M = length (rows G anc) /\
      forall i h, nth_error (real_haps H0) i = Some h -> single_tr anc h G = Ok (column_of M i)
  | Err k =>
      k = E_Value /\ exists h, In h (real_haps H0) /\ single_tr anc h G = Err E_Value
  end.
Proof.
  intros Hd Hp. destruct (haps_transform_closed_gen G anc H0 Hd) as [C1 C2].
  destruct (forallb (hap_okb G) (real_haps H0)) eqn:Eok.
  - rewrite (C1 eq_refl). split; [reflexivity|]. split; [unfold spec_mat; apply map_length|].
    intros i h Hn. rewrite (single_tr_closed G anc h Hd).
    rewrite forallb_forall in Eok. rewrite (Eok h (nth_error_In _ _ Hn)).
    rewrite (column_spec_mat G anc _ i h Hn). reflexivity.
  - destruct (C2 eq_refl) as [k [Hk Hv]]. rewrite Hk. split; [apply Hv; exact Hp|].
    apply forallb_false_ex in Eok. destruct Eok as [h [Hh Hf]]. exists h. split; [exact Hh|].
    rewrite (single_tr_closed G anc h Hd), Hf. reflexivity.
Qed.

(* ---- soundness of the set-wise and API checkers ----------------------------------------- *)

Lemma rec_eqb_spec x y : rec_eqb x y = true <-> x = y.
Proof.
  destruct x as [[a b] c], y as [[a' b'] c']. unfold rec_eqb.
  rewrite !andb_true_iff, !Z.eqb_eq. split; [intros [[-> ->] ->]; reflexivity|intros H; inversion H; auto].
Qed.

Lemma recs_eqb_spec x y : recs_eqb x y = true <-> x = y.
Proof. apply list_eqb_spec. apply rec_eqb_spec. Qed.

Theorem holds_set_sound G anc H o :
  holds_set G anc H o = true ->
  match o with
  | Ok (recs, M) =>
      let Hp := filter (hap_presentb G) H in
      recs = recs_of Hp /\ M = spec_mat G anc Hp
  | Err _ => exists h v, In h H /\ In v (h_vars h) /\ var_col G v = None
  end.
Proof.
  unfold holds_set. destruct o as [[recs M]|k]; intros Hh.
  - unfold setout_eqb in Hh. cbn in Hh. apply andb_true_iff in Hh. destruct Hh as [H1 H2].
    apply recs_eqb_spec in H1. apply mat_eqb_spec in H2. auto.
  - apply negb_true_iff in Hh. apply forallb_false_ex in Hh. destruct Hh as [h [Hin Hf]].
    unfold hap_okb in Hf. apply forallb_false_ex in Hf. destruct Hf as [v [Hv Hc]].
    exists h, v. split; [exact Hin|]. split; [exact Hv|]. destruct (var_col G v); [discriminate|reflexivity].
Qed.

(* cells of the specification matrix: row s, haplotype i *)
Lemma spec_mat_cell G anc H s da i h :
  nth_error (rows G anc) s = Some da -> nth_error H i = Some h ->
  exists row, nth_error (spec_mat G anc H) s = Some row /\
    nth_error row i = Some (spec_strand G anc h (fst (fst da)) (fst (snd da)),
                            spec_strand G anc h (snd (fst da)) (snd (snd da))).
Proof.
  intros Hs Hi. unfold spec_mat. rewrite nth_error_map, Hs. cbn. eexists. split; [reflexivity|].
  rewrite nth_error_map, Hi. reflexivity.
Qed.

Theorem holds_api_sound c :
  holds_api c = true ->
  has_dup (map gv_id (g_vars (a_G c))) = false ->
  let G := a_G c in let anc := a_anc c in let H := real_haps (a_H c) in
  (* every single-haplotype answer is the specification; every failure has a cause *)
  (forall i h o, nth_error H i = Some h -> nth_error (a_single c) i = Some o ->
     match o with
     | Ok col => hap_presentb G h = true /\ col = spec_col G anc h
     | Err _ => exists v, In v (h_vars h) /\ var_col G v = None
     end)
  (* the set-wise answer is the specification for the haplotypes it may answer for *)
  /\ match a_set c with
     | Ok (recs, M) =>
         let Hp := filter (hap_presentb G) H in
         recs = recs_of Hp /\ M = spec_mat G anc Hp
     | Err _ => exists h v, In h H /\ In v (h_vars h) /\ var_col G v = None
     end.
Proof.
  unfold holds_api. intros Hh Hd. rewrite Hd in Hh.
  apply andb_true_iff in Hh. destruct Hh as [Hh Hset].
  apply andb_true_iff in Hh. destruct Hh as [Hlen Hs].
  cbn zeta. split.
  - intros i h o Hi Ho. rewrite forallb_forall in Hs.
    assert (Hin : In (h, o) (combine (real_haps (a_H c)) (a_single c))).
    { clear - Hi Ho. revert i Hi Ho. generalize (real_haps (a_H c)) as l, (a_single c) as r.
      induction l as [|x l IH]; intros r [|i]; cbn; intros Hi Ho; try discriminate.
      - destruct r as [|y r]; [discriminate|]. cbn in Ho. inversion Hi; inversion Ho; subst. left. reflexivity.
      - destruct r as [|y r]; [discriminate|]. cbn in Ho. right. apply (IH r i Hi Ho). }
    specialize (Hs _ Hin). cbn in Hs. unfold holds_single1 in Hs. destruct o as [col|k].
    + apply andb_true_iff in Hs. destruct Hs as [H1 H2]. apply col_eqb_spec in H2. auto.
    + apply negb_true_iff in Hs. unfold hap_okb in Hs. apply forallb_false_ex in Hs.
      destruct Hs as [v [Hv Hc]]. exists v. split; [exact Hv|]. destruct (var_col (a_G c) v); [discriminate|reflexivity].
  - apply holds_set_sound in Hset. exact Hset.
Qed.
