(* C04 - proofs, part 4: the model of transform_haps meets the file-level
   specification [f_expected] (the function the boolean checker [holds_file]
   compares the implementation's output with): look-ups on the *full* genotype
   file by variant ID, region test, allele index, ancestry label of the sample by
   *name* - none of the subsetting the code performs.
     transform_haps_meets_spec : transform_haps t = Ok out -> out = f_expected t
     fcell_spec, holds_file_sound : declarative reading of the checker *)
From HV Require Import Prelude Tracts C04_Model C04_Check C04_Proofs C04_ProofsSet C04_ProofsFile.

(* ---- find_var under a column filter ---------------------------------------------- *)

Lemma find_var_shift id vs : forall j0,
  find_var id vs j0 = option_map (fun p : nat * gvar => ((j0 + fst p)%nat, snd p)) (find_var id vs 0).
Proof.
  induction vs as [|v r IH]; intros j0; cbn; [reflexivity|].
  destruct (gv_id v =? id).
  - cbn. rewrite Nat.add_0_r. reflexivity.
  - rewrite (IH (S j0)), (IH 1%nat). destruct (find_var id r 0) as [[j gv]|]; cbn; [|reflexivity].
    f_equal. f_equal. lia.
Qed.

Lemma find_var_cons id v vs :
  find_var id (v :: vs) 0 =
    if gv_id v =? id then Some (O, v)
    else option_map (fun p : nat * gvar => (S (fst p), snd p)) (find_var id vs 0).
Proof.
  cbn. destruct (gv_id v =? id); [reflexivity|]. rewrite find_var_shift.
  destruct (find_var id vs 0) as [[j gv]|]; reflexivity.
Qed.

Lemma find_var_None id vs : find_var id vs 0 = None <-> forall x, In x vs -> gv_id x <> id.
Proof.
  induction vs as [|v r IH].
  - cbn. split; [intros _ x []|reflexivity].
  - rewrite find_var_cons. destruct (gv_id v =? id) eqn:E.
    + split; [discriminate|]. intros H. exfalso. apply (H v (or_introl eq_refl)). apply Z.eqb_eq. exact E.
    + destruct (find_var id r 0) as [p|] eqn:Ef; cbn.
      * split; [discriminate|]. intros H. destruct IH as [_ IH2].
        assert (Hc : Some p = None).
        { apply IH2. intros x Hx. apply H. right. exact Hx. }
        discriminate.
      * split; [|reflexivity]. intros _ x [<-|Hx].
        -- apply Z.eqb_neq. exact E.
        -- destruct IH as [IH1 _]. apply (IH1 eq_refl). exact Hx.
Qed.

Lemma find_var_In id vs j gv : find_var id vs 0 = Some (j, gv) -> In gv vs /\ gv_id gv = id.
Proof.
  intros H. apply find_var_spec in H. destruct H as [_ [H2 H3]]. split; [|exact H3].
  apply nth_error_In in H2. exact H2.
Qed.

Lemma nth_nil_Z (j : nat) : nth j (@nil Z) 255 = 255.
Proof. destruct j; reflexivity. Qed.

Lemma nth_error_nil_Z (j : nat) : nth_error (@nil Z) j = None.
Proof. destruct j; reflexivity. Qed.

Lemma find_keep (f : gvar -> bool) : forall vs, NoDup (map gv_id vs) -> forall id,
  match find_var id vs 0 with
  | Some (j, gv) =>
      if f gv then
        exists j', find_var id (filter f vs) 0 = Some (j', gv)
                   /\ (forall r : list Z, cell (keep (map f vs) r) j' = cell r j)
                   /\ (forall r : list Z, nth_error (keep (map f vs) r) j' = nth_error r j)
      else find_var id (filter f vs) 0 = None
  | None => find_var id (filter f vs) 0 = None
  end.
Proof.
  induction vs as [|v vs IH]; intros Hnd id.
  - cbn. reflexivity.
  - cbn [map] in Hnd. inversion Hnd as [|x l Hnotin Hnd']; subst.
    rewrite find_var_cons. destruct (gv_id v =? id) eqn:E.
    + destruct (f v) eqn:Ef.
      * cbn [filter]. rewrite Ef. exists O. split.
        { rewrite find_var_cons, E. reflexivity. }
        split; intros r; cbn [map keep]; rewrite Ef; destruct r; reflexivity.
      * cbn [filter]. rewrite Ef. apply find_var_None. intros x Hx Heq.
        apply filter_In in Hx. destruct Hx as [Hx _]. apply Hnotin.
        apply Z.eqb_eq in E. rewrite E, <- Heq. apply in_map. exact Hx.
    + specialize (IH Hnd' id). destruct (find_var id vs 0) as [[j1 gv]|] eqn:Ef1; cbn [option_map fst snd].
      * destruct (f gv) eqn:Efg.
        -- destruct IH as [j1' [I1 [I2 I3]]]. destruct (f v) eqn:Efv; cbn [filter]; rewrite Efv.
           ++ exists (S j1'). split.
              { rewrite find_var_cons, E, I1. reflexivity. }
              split; intros r; cbn [map keep]; rewrite Efv; destruct r as [|x r']; try reflexivity.
              ** unfold cell. cbn. apply I2.
              ** cbn. apply I3.
           ++ exists j1'. split; [exact I1|].
              split; intros r; cbn [map keep]; rewrite Efv; destruct r as [|x r'].
              ** unfold cell. cbn. apply nth_nil_Z.
              ** unfold cell. cbn. apply I2.
              ** cbn. apply nth_error_nil_Z.
              ** cbn. apply I3.
        -- destruct (f v) eqn:Efv; cbn [filter]; rewrite Efv.
           ++ rewrite find_var_cons, E, IH. reflexivity.
           ++ exact IH.
      * destruct (f v) eqn:Efv; cbn [filter]; rewrite Efv.
        -- rewrite find_var_cons, E, IH. reflexivity.
        -- exact IH.
Qed.

(* ---- more list facts ------------------------------------------------------------------ *)

Lemma keep_combine {A B} (p : Z -> bool) : forall (ss : list Z) (ds : list A) (ps : list B),
  length ds = length ss -> length ps = length ss ->
  let F := filter (fun e : Z * (A * B) => p (fst e)) (combine ss (combine ds ps)) in
  keep (map p ss) ss = map fst F
  /\ keep (map p ss) ds = map (fun e => fst (snd e)) F
  /\ keep (map p ss) ps = map (fun e => snd (snd e)) F.
Proof.
  induction ss as [|s ss IH]; intros ds ps Hd Hp; cbn.
  - destruct ds, ps; cbn; auto.
  - destruct ds as [|d ds]; [discriminate|]. destruct ps as [|q ps]; [discriminate|].
    cbn in Hd, Hp. inversion Hd. inversion Hp.
    destruct (IH ds ps H0 H1) as [I1 [I2 I3]]. cbn.
    destruct (p s); cbn; rewrite ?I1, ?I2, ?I3; auto.
Qed.

Lemma combine_map_same {A B C} (a : A -> B) (b : A -> C) l :
  combine (map a l) (map b l) = map (fun x => (a x, b x)) l.
Proof. induction l as [|x r IH]; cbn; [reflexivity|]. rewrite IH. reflexivity. Qed.

Lemma map_eq_F2 {A B C} (g : A -> C) (g' : B -> C) l1 l2 :
  Forall2 (fun x y => g x = g' y) l1 l2 -> map g l1 = map g' l2.
Proof. induction 1; cbn; congruence. Qed.

Lemma F2_map_l {A B C} (R : B -> C -> Prop) (f : A -> B) l r :
  Forall2 R (map f l) r <-> Forall2 (fun x y => R (f x) y) l r.
Proof.
  revert r. induction l as [|x l IH]; intros r; cbn; split; intros H; inversion H; subst; constructor; auto;
    apply IH; assumption.
Qed.

Lemma F2_trans {A B C} (R : A -> B -> Prop) (S : B -> C -> Prop) l1 l2 l3 :
  Forall2 R l1 l2 -> Forall2 S l2 l3 -> Forall2 (fun a c => exists b, R a b /\ S b c) l1 l3.
Proof.
  intros H. revert l3. induction H; intros l3 H3; inversion H3; subst; constructor; eauto.
Qed.

Lemma F2_combine_map {A B C} (g : A -> B) (Q : A -> C -> Prop) l r :
  Forall2 Q l r -> Forall2 (fun e da => fst da = g e /\ Q e (snd da)) l (combine (map g l) r).
Proof. induction 1; cbn; constructor; auto. Qed.

Lemma F2_self_map {A B} (g : A -> B) (l : list A) : Forall2 (fun e y => y = g e) l (map g l).
Proof. induction l; cbn; constructor; auto. Qed.

Lemma F2_impl_in {A B} (R S : A -> B -> Prop) l r :
  (forall a b, In a l -> In b r -> R a b -> S a b) -> Forall2 R l r -> Forall2 S l r.
Proof.
  intros H HF. induction HF; constructor.
  - apply H; cbn; auto.
  - apply IHHF. intros a b Ha Hb. apply H; cbn; auto.
Qed.

Lemma sequence_F2 {A} (l : list (res A)) r : sequence l = Ok r -> Forall2 (fun x y => x = Ok y) l r.
Proof.
  revert r. induction l as [|x l IH]; cbn; intros r H.
  - inversion H. constructor.
  - destruct x as [a|k]; [|discriminate]. destruct (sequence l) as [t|] eqn:E; cbn in H; [|discriminate].
    inversion H; subst. constructor; auto.
Qed.

Lemma label_code_id seen x :
  label_code (map (fun l : Z => (l, l)) seen) x = if memZ x seen then Some x else None.
Proof.
  induction seen as [|y r IH]; cbn; [reflexivity|].
  rewrite (Z.eqb_sym x y). destruct (y =? x) eqn:E.
  - apply Z.eqb_eq in E. subst. reflexivity.
  - cbn. exact IH.
Qed.

Lemma labels_seen_In (m : list sample_rows) d l :
  In d m -> In l (fst d) \/ In l (snd d) -> In l (labels_seen m).
Proof.
  intros Hd Hl. unfold labels_seen. apply dedupZ_In. split; [|intros []].
  apply in_flat_map. exists d. split; [exact Hd|]. apply in_or_app. exact Hl.
Qed.

(* ---- resolution of one haplotype allele: loaded genotypes vs the file ------------------- *)

Definition wf_file (t : tinput) : Prop :=
  has_dup (map gv_id (t_vars t)) = false                   (* distinct variant IDs in the file *)
  /\ length (t_data t) = length (t_samples t)
  /\ length (pop_rows t) = length (t_samples t)
  /\ region_for_haps t = t_region t                         (* the region's contig occurs in the .hap file *)
  /\ match t_anc t with
     | PopField m => Forall (fun p : sample_rows => length (fst p) = length (t_vars t)
                                                   /\ length (snd p) = length (t_vars t)) m
     | _ => True
     end.

Definition fsel (t : tinput) : gvar -> bool := var_selected (t_region t) (t_want t).

Lemma t_vm_eq t : t_vm t = map (fsel t) (t_vars t).
Proof. reflexivity. Qed.

Lemma t_loaded_eq t : t_loaded t = filter (fsel t) (t_vars t).
Proof. unfold t_loaded. rewrite t_vm_eq. apply keep_map_filter. Qed.

Lemma want_In t h v :
  In h (real_haps (t_sel t)) -> In v (h_vars h) -> memZ (hv_id v) (t_want t) = true.
Proof.
  intros Hh Hv. apply memZ_In. unfold t_want. apply dedupZ_In. split; [|intros []].
  apply in_flat_map. exists h. split; [exact Hh|]. apply in_map. exact Hv.
Qed.

Lemma fsel_found t h v j gv :
  In h (real_haps (t_sel t)) -> In v (h_vars h) ->
  find_var (hv_id v) (t_vars t) 0 = Some (j, gv) ->
  fsel t gv = in_region_var (t_region t) gv.
Proof.
  intros Hh Hv Hf. apply find_var_In in Hf. destruct Hf as [_ Hid].
  unfold fsel, var_selected, in_region_var. rewrite Hid, (want_In t h v Hh Hv). apply andb_true_r.
Qed.

Lemma resolve t h v :
  NoDup (map gv_id (t_vars t)) -> In h (real_haps (t_sel t)) -> In v (h_vars h) ->
  match avail t v with
  | Some (j, gv) =>
      exists j', find_var (hv_id v) (t_loaded t) 0 = Some (j', gv)
                 /\ find_var (hv_id v) (t_vars t) 0 = Some (j, gv)
                 /\ (forall r : list Z, cell (keep (t_vm t) r) j' = cell r j)
                 /\ (forall r : list Z, nth_error (keep (t_vm t) r) j' = nth_error r j)
  | None => find_var (hv_id v) (t_loaded t) 0 = None
  end.
Proof.
  intros Hnd Hh Hv. pose proof (find_keep (fsel t) (t_vars t) Hnd (hv_id v)) as K.
  unfold avail. destruct (find_var (hv_id v) (t_vars t) 0) as [[j gv]|] eqn:Ef.
  - rewrite (fsel_found t h v j gv Hh Hv Ef) in K.
    destruct (in_region_var (t_region t) gv); rewrite t_loaded_eq, ?t_vm_eq.
    + destruct K as [j' [K1 [K2 K3]]]. exists j'. auto.
    + exact K.
  - rewrite t_loaded_eq. exact K.
Qed.

Lemma filter_ext_in' {A} (f g : A -> bool) l :
  (forall x, In x l -> f x = g x) -> filter f l = filter g l.
Proof.
  induction l as [|x r IH]; cbn; intros H; [reflexivity|].
  rewrite (H x (or_introl eq_refl)), IH; [reflexivity|]. intros y Hy. apply H. right. exact Hy.
Qed.

Lemma transformable_eq t h :
  NoDup (map gv_id (t_vars t)) -> In h (real_haps (t_sel t)) ->
  transformable (map gv_id (t_loaded t)) h = f_transformable t h.
Proof.
  intros Hnd Hh. unfold transformable, f_transformable. apply forallb_ext_in. intros v Hv.
  pose proof (resolve t h v Hnd Hh Hv) as R. destruct (avail t v) as [[j gv]|].
  - destruct R as [j' [F1 _]]. apply memZ_In. apply find_var_In in F1. destruct F1 as [F1 F2].
    apply in_map_iff. exists gv. auto.
  - destruct (memZ (hv_id v) (map gv_id (t_loaded t))) eqn:E; [|reflexivity].
    apply memZ_In in E. apply in_map_iff in E. destruct E as [x [Hx1 Hx2]].
    exfalso. apply (proj1 (find_var_None _ _) R x Hx2 Hx1).
Qed.

Lemma vcheck_loaded t ancM h v r :
  NoDup (map gv_id (t_vars t)) -> In h (real_haps (t_sel t)) -> In v (h_vars h) ->
  vcheck (t_geno t ancM) (keep (t_vm t) r) v =
    match avail t v with
    | Some (j, gv) => match index_of (hv_allele v) (gv_alleles gv) with
                      | Some i => cell r j =? i | None => false end
    | None => false
    end.
Proof.
  intros Hnd Hh Hv. unfold vcheck, var_col. change (g_vars (t_geno t ancM)) with (t_loaded t).
  pose proof (resolve t h v Hnd Hh Hv) as R. destruct (avail t v) as [[j gv]|].
  - destruct R as [j' [F1 [_ [C1 _]]]]. rewrite F1.
    destruct (index_of (hv_allele v) (gv_alleles gv)); [|reflexivity]. rewrite C1. apply Z.eqb_sym.
  - rewrite R. reflexivity.
Qed.

(* what relates a strand's ancestry row on the loaded genotypes to the file-level label look-up *)
Definition AncRelS (t : tinput) (s : Z) (pr : srow) (strand : bool) (a : srow) : Prop :=
  forall id j gv j',
    find_var id (t_vars t) 0 = Some (j, gv) -> find_var id (t_loaded t) 0 = Some (j', gv) ->
    (forall r : list Z, nth_error (keep (t_vm t) r) j' = nth_error r j) ->
    exists l', nth_error a j' = Some l' /\ anc_label t s pr strand j gv = Some l'.

Lemma acheck_loaded t ancM h v a s pr strand :
  NoDup (map gv_id (t_vars t)) -> In h (real_haps (t_sel t)) -> In v (h_vars h) ->
  (forall l, In l a -> In l (labels_seen ancM)) ->
  AncRelS t s pr strand a ->
  acheck (t_geno t ancM) a (h_anc h) v =
    match avail t v with
    | Some (j, gv) => match anc_label t s pr strand j gv with
                      | Some l => l =? h_anc h | None => false end
    | None => false
    end.
Proof.
  intros Hnd Hh Hv Hseen HR. unfold acheck. change (g_vars (t_geno t ancM)) with (t_loaded t).
  change (g_labels (t_geno t ancM)) with (map (fun l : Z => (l, l)) (labels_seen ancM)).
  rewrite label_code_id.
  pose proof (resolve t h v Hnd Hh Hv) as R. destruct (avail t v) as [[j gv]|].
  - destruct R as [j' [F1 [F2 [_ C2]]]]. rewrite F1.
    destruct (HR _ _ _ _ F2 F1 C2) as [l' [N1 N2]]. rewrite N2.
    unfold cell. rewrite (nth_of_nth_error a j' l' 255 N1).
    destruct (memZ (h_anc h) (labels_seen ancM)) eqn:Em; [reflexivity|].
    symmetry. apply Z.eqb_neq. intros ->.
    assert (Hin : In (h_anc h) (labels_seen ancM)) by (apply Hseen; apply (nth_error_In _ _ N1)).
    apply memZ_In in Hin. congruence.
  - rewrite R. reflexivity.
Qed.

Lemma strand_eq t ancM h s d pr a strand :
  NoDup (map gv_id (t_vars t)) -> In h (real_haps (t_sel t)) ->
  (uses_anc t = true -> (forall l, In l a -> In l (labels_seen ancM)) /\ AncRelS t s pr strand a) ->
  spec_strand (t_geno t ancM) (uses_anc t) h (keep (t_vm t) d) a = fcell t s d pr strand h.
Proof.
  intros Hnd Hh HA. unfold spec_strand, fcell. apply forallb_ext_in. intros v Hv.
  rewrite (vcheck_loaded t ancM h v d Hnd Hh Hv).
  destruct (uses_anc t) eqn:Eu.
  - destruct (HA eq_refl) as [Hseen HR].
    rewrite (acheck_loaded t ancM h v a s pr strand Hnd Hh Hv Hseen HR).
    destruct (avail t v) as [[j gv]|]; [|reflexivity].
    destruct (index_of (hv_allele v) (gv_alleles gv)); reflexivity.
  - rewrite andb_true_r. destruct (avail t v) as [[j gv]|]; [|reflexivity].
    destruct (index_of (hv_allele v) (gv_alleles gv)); [|reflexivity]. rewrite andb_true_r. reflexivity.
Qed.

(* ---- the loaded rows correspond, one by one, to the requested rows of the file ------------- *)

Definition RowRel (t : tinput) (ancM : list sample_rows)
    (e : Z * (sample_rows * sample_rows)) (da : sample_rows * sample_rows) : Prop :=
  fst da = keep_rows (t_vm t) (fst (snd e))
  /\ (uses_anc t = true ->
        In (snd da) ancM
        /\ AncRelS t (fst e) (fst (snd (snd e))) false (fst (snd da))
        /\ AncRelS t (fst e) (snd (snd (snd e))) true (snd (snd da))).

Lemma t_sm_eq t : t_sm t = map (f_sample_sel t) (t_samples t).
Proof. reflexivity. Qed.

Lemma bp_rows_inv vs tr a :
  bp_rows vs tr = Ok a ->
  all_some (strand_labels vs (fst tr)) = Some (fst a) /\ all_some (strand_labels vs (snd tr)) = Some (snd a).
Proof.
  unfold bp_rows. destruct (all_some (strand_labels vs (fst tr))) as [x|]; [|discriminate].
  destruct (all_some (strand_labels vs (snd tr))) as [y|]; [|discriminate].
  intros H. inversion H. auto.
Qed.

Lemma bp_strand_rel t bp s tr (strand : bool) a pr :
  t_anc t = BpFile bp -> find_bp s bp = Some tr ->
  all_some (strand_labels (t_loaded t) (if strand then snd tr else fst tr)) = Some a ->
  AncRelS t s pr strand a.
Proof.
  intros Ea Hf Hall id j gv j' F1 F2 _.
  unfold strand_labels in Hall. apply all_some_Forall2 in Hall.
  apply find_var_spec in F2. destruct F2 as [_ [F2 _]]. rewrite Nat.sub_0_r in F2.
  destruct (F2_nth_error _ _ _ _ _ Hall F2) as [l' [N1 N2]].
  exists l'. split; [exact N1|]. unfold anc_label. rewrite Ea, Hf. exact N2.
Qed.

Lemma pop_strand_rel t m s pr (strand : bool) :
  t_anc t = PopField m -> length pr = length (t_vars t) ->
  AncRelS t s pr strand (keep (t_vm t) pr).
Proof.
  intros Ea Hlen id j gv j' F1 _ C. rewrite C.
  apply find_var_spec in F1. destruct F1 as [_ [F1 _]]. rewrite Nat.sub_0_r in F1.
  assert (Hj : (j < length pr)%nat).
  { rewrite Hlen. apply nth_error_Some. congruence. }
  destruct (nth_error pr j) as [l'|] eqn:En.
  - exists l'. split; [reflexivity|]. unfold anc_label. rewrite Ea. exact En.
  - apply nth_error_None in En. lia.
Qed.

Lemma rows_rel t ancM :
  wf_file t ->
  ancestry_matrix false (t_anc t) (t_sm t) (t_vm t) (t_out_samples t) (t_loaded t) = Ok ancM ->
  Forall2 (RowRel t ancM) (f_rows t) (rows (t_geno t ancM) (uses_anc t)).
Proof.
  intros [Hd [Hlen [Hplen [_ Hshape]]]] Ha.
  destruct (keep_combine (f_sample_sel t) (t_samples t) (t_data t) (pop_rows t) Hlen Hplen) as [K1 [K2 K3]].
  fold (f_rows t) in K1, K2, K3. rewrite <- t_sm_eq in K1, K2, K3.
  unfold rows. change (g_data (t_geno t ancM)) with (t_loaded_data t).
  change (g_anc (t_geno t ancM)) with ancM.
  unfold t_loaded_data. rewrite K2, map_map.
  unfold uses_anc, RowRel, uses_anc. destruct (t_anc t) as [|m|bp] eqn:Eanc.
  - (* no ancestry *)
    rewrite map_map. eapply F2_impl_in; [|apply F2_self_map].
    intros e da _ _ ->. cbn. split; [reflexivity|discriminate].
  - (* POP fields *)
    cbn in Ha. inversion Ha; subst ancM. clear Ha.
    assert (Em : pop_rows t = m) by (unfold pop_rows; rewrite Eanc; reflexivity).
    rewrite Em in K3. rewrite K3, map_map, combine_map_same.
    eapply F2_impl_in; [|apply F2_self_map].
    intros e da He _ ->. cbn. split; [reflexivity|]. intros _.
    assert (Hin : In (snd (snd e)) m).
    { unfold f_rows in He. apply filter_In in He. destruct He as [He _].
      destruct e as [s [d p]]. apply in_combine_r in He. apply in_combine_r in He. rewrite Em in He. exact He. }
    rewrite Forall_forall in Hshape. destruct (Hshape _ Hin) as [L1 L2].
    split.
    + apply in_map_iff. exists e. split; [reflexivity|exact He].
    + split; apply (pop_strand_rel t m); assumption.
  - (* .bp file *)
    cbn in Ha.
    destruct (all_some (map (fun s => find_bp s bp) (t_out_samples t))) as [ts|] eqn:Ets; [|discriminate].
    apply all_some_Forall2 in Ets. unfold t_out_samples in Ets. rewrite K1 in Ets.
    apply F2_map_l in Ets.
    apply sequence_F2 in Ha. apply F2_map_l in Ha.
    pose proof (F2_trans _ _ _ _ _ Ets Ha) as Q.
    pose proof (F2_combine_map (fun e : Z * (sample_rows * sample_rows) => keep_rows (t_vm t) (fst (snd e))) _ _ _ Q) as Q2.
    eapply F2_impl_in; [|exact Q2].
    intros e da _ Hda [E1 [tr [T1 T2]]]. split; [exact E1|]. intros _.
    apply bp_rows_inv in T2. destruct T2 as [B1 B2].
    split; [destruct da as [dd aa]; apply in_combine_r in Hda; exact Hda|].
    split.
    + apply (bp_strand_rel t bp (fst e) tr false); assumption.
    + apply (bp_strand_rel t bp (fst e) tr true); assumption.
Qed.

(* ---- the theorem ------------------------------------------------------------------------------ *)

Lemma t_sel_eq t : region_for_haps t = t_region t -> t_sel t = f_selected t.
Proof. intros H. unfold t_sel, f_selected. rewrite H. reflexivity. Qed.

Theorem transform_haps_meets_spec_lemma t out :
  wf_file t -> transform_haps t = Ok out -> out = f_expected t.
Proof.
  intros W H. destruct out as [[recs samples] M].
  destruct (transform_haps_records_lemma t recs samples M H) as [-> [-> [ancM [Ha [-> Hok]]]]].
  pose proof (rows_rel t ancM W Ha) as RR.
  destruct W as [Hd [Hlen [Hplen [Hreg Hshape]]]].
  pose proof (has_dup_NoDup _ Hd) as Hnd.
  assert (EH : t_out_haps t = f_expected_haps t).
  { unfold t_out_haps, f_expected_haps. rewrite <- (t_sel_eq t Hreg).
    apply filter_ext_in'. intros h Hh. apply transformable_eq; assumption. }
  assert (Hsub : forall h, In h (f_expected_haps t) -> In h (real_haps (t_sel t))).
  { intros h Hh. rewrite <- EH in Hh. unfold t_out_haps in Hh. apply filter_In in Hh. tauto. }
  destruct (keep_combine (f_sample_sel t) (t_samples t) (t_data t) (pop_rows t) Hlen Hplen) as [K1 _].
  fold (f_rows t) in K1. rewrite <- t_sm_eq in K1.
  unfold f_expected. rewrite EH. f_equal; [f_equal; exact K1|].
  unfold spec_mat. symmetry. apply map_eq_F2.
  eapply F2_impl_in; [|exact RR].
  intros e da _ Hda [R1 R2]. apply map_ext_in. intros h Hh.
  destruct da as [dd aa]. cbn [fst snd] in *. subst dd. unfold keep_rows. cbn [fst snd].
  f_equal; symmetry; apply strand_eq; auto.
  - intros Hu. destruct (R2 Hu) as [Hin [A1 _]]. split; [|exact A1].
    intros l Hl. apply (labels_seen_In ancM aa l Hin). left. exact Hl.
  - intros Hu. destruct (R2 Hu) as [Hin [_ A2]]. split; [|exact A2].
    intros l Hl. apply (labels_seen_In ancM aa l Hin). right. exact Hl.
Qed.

(* ---- declarative reading of the file-level checker ---------------------------------------------- *)

Lemma fcell_spec t s d pr strand h :
  fcell t s d pr strand h = true <->
  forall v, In v (h_vars h) ->
    exists j gv i, avail t v = Some (j, gv)
      /\ index_of (hv_allele v) (gv_alleles gv) = Some i
      /\ cell d j = i
      /\ (uses_anc t = true -> anc_label t s pr strand j gv = Some (h_anc h)).
Proof.
  unfold fcell. rewrite forallb_forall. split.
  - intros H v Hv. specialize (H v Hv).
    destruct (avail t v) as [[j gv]|] eqn:Ea; [|discriminate].
    destruct (index_of (hv_allele v) (gv_alleles gv)) as [i|] eqn:Ei; [|discriminate].
    apply andb_true_iff in H. destruct H as [H1 H2]. apply Z.eqb_eq in H1.
    exists j, gv, i. split; [reflexivity|]. split; [exact Ei|]. split; [exact H1|].
    intros Hu. rewrite Hu in H2.
    destruct (anc_label t s pr strand j gv) as [l|]; [|discriminate].
    apply Z.eqb_eq in H2. subst. reflexivity.
  - intros H v Hv. destruct (H v Hv) as [j [gv [i [H1 [H2 [H3 H4]]]]]].
    rewrite H1, H2. apply andb_true_iff. split; [apply Z.eqb_eq; exact H3|].
    destruct (uses_anc t); [|reflexivity]. rewrite (H4 eq_refl). apply Z.eqb_refl.
Qed.

Lemma tout_eqb_spec x y : tout_eqb x y = true <-> x = y.
Proof.
  destruct x as [[r s] m], y as [[r' s'] m']. unfold tout_eqb.
  rewrite !andb_true_iff, recs_eqb_spec, mat_eqb_spec.
  rewrite (list_eqb_spec Z.eqb Z.eqb_eq). split.
  - intros [[-> ->] ->]. reflexivity.
  - intros H. inversion H. auto.
Qed.

Theorem holds_file_sound_lemma c :
  holds_file c = true ->
  match f_obs c with
  | Ok out => out = f_expected (f_in c) /\ (f_omitted (f_in c) = true -> f_warned c = true)
  | Err k => k = E_Unobserved \/ f_wellformed (f_in c) = false
  end.
Proof.
  unfold holds_file. destruct (f_obs c) as [out|k]; intros H.
  - apply andb_true_iff in H. destruct H as [H1 H2]. split; [apply tout_eqb_spec; exact H1|].
    intros Ho. rewrite Ho in H2. exact H2.
  - destruct (k =? E_Unobserved) eqn:E.
    + left. apply Z.eqb_eq. exact E.
    + right. apply negb_true_iff. exact H.
Qed.

(* whatever the model answers on a well-formed file passes the checker *)
Lemma warns_missing_eq t : warns_missing t = (length (t_loaded t) <? length (t_want t))%nat.
Proof. reflexivity. Qed.

(* whenever a selected haplotype is omitted from the output, the model logs the warning *)
Theorem omitted_is_reported_lemma t out :
  wf_file t -> transform_haps t = Ok out -> f_omitted t = true -> warns_missing t = true.
Proof.
  intros W H Ho. rewrite warns_missing_eq.
  destruct (length (t_loaded t) <? length (t_want t))%nat eqn:El; [reflexivity|]. exfalso.
  destruct W as [Hd [_ [_ [Hreg _]]]].
  assert (Hdl : has_dup (map gv_id (t_loaded t)) = false).
  { rewrite transform_haps_alt_eq in H. unfold transform_haps_alt in H.
    destruct (t_sel t); [discriminate|].
    destruct (has_dup (map gv_id (t_loaded t))); [discriminate|reflexivity]. }
  pose proof (none_missing_all_transformable t Hdl El) as E.
  assert (EH : t_out_haps t = f_expected_haps t).
  { unfold t_out_haps, f_expected_haps. rewrite <- (t_sel_eq t Hreg).
    apply filter_ext_in'. intros h Hh. apply transformable_eq; [apply has_dup_NoDup; exact Hd|exact Hh]. }
  unfold f_omitted in Ho. rewrite <- EH, E, <- (t_sel_eq t Hreg), Nat.eqb_refl in Ho. discriminate.
Qed.

(* whatever the model answers (and logs) on a well-formed file passes the checker *)
Theorem model_passes_holds_file_lemma t out :
  wf_file t -> transform_haps t = Ok out -> holds_file (mkf t (Ok out) (warns_missing t)) = true.
Proof.
  intros W H. unfold holds_file. cbn. apply andb_true_iff. split.
  - apply tout_eqb_spec. apply transform_haps_meets_spec_lemma; assumption.
  - destruct (f_omitted t) eqn:Eo; [|reflexivity]. cbn.
    apply (omitted_is_reported_lemma t out W H Eo).
Qed.
