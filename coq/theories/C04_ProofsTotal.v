(* C04 - the model of transform_haps answers on every input on which the checker demands an answer
   (f_wellformed), so that with transform_haps_meets_spec:
       wf_file t -> f_wellformed t = true -> transform_haps t = Ok (f_expected t)
   and the invariance theorems of C04_ProofsOrder hold for the model's result itself. *)
From HV Require Import Prelude Tracts C04_Model C04_Check C04_Proofs C04_ProofsSet C04_ProofsFile C04_ProofsSpec
  C04_ProofsAnc C04_ProofsPerm C04_ProofsBp C04_ProofsOrder.
From Coq Require Import Permutation.

Lemma NoDup_map_filter {A B} (f : A -> B) (p : A -> bool) l : NoDup (map f l) -> NoDup (map f (filter p l)).
Proof.
  induction l as [|x l IH]; cbn; intros H; [constructor|]. inversion H; subst.
  destruct (p x); cbn; [|auto]. constructor; [|auto].
  intros Hin. apply H2. apply in_map_iff in Hin. destruct Hin as [y [Hy Hin]]. apply filter_In in Hin.
  rewrite <- Hy. apply in_map. tauto.
Qed.

Lemma all_some_total {A B} (f : A -> option B) l :
  (forall x, In x l -> f x <> None) -> exists r, all_some (map f l) = Some r.
Proof.
  induction l as [|x l IH]; intros H; [exists []; reflexivity|].
  cbn [map all_some]. destruct (f x) as [y|] eqn:E; [|exfalso; apply (H x (or_introl eq_refl)); exact E].
  destruct IH as [r Hr]; [intros z Hz; apply H; right; exact Hz|]. rewrite Hr. exists (y :: r). reflexivity.
Qed.

Lemma sequence_total {A B} (f : A -> res B) l :
  (forall x, In x l -> exists y, f x = Ok y) -> exists r, sequence (map f l) = Ok r.
Proof.
  induction l as [|x l IH]; intros H; [exists []; reflexivity|].
  cbn [map sequence]. destruct (H x (or_introl eq_refl)) as [y Hy]. rewrite Hy.
  destruct IH as [r Hr]; [intros z Hz; apply H; right; exact Hz|]. rewrite Hr. exists (y :: r). reflexivity.
Qed.

Lemma all_some_In {A B} (f : A -> option B) l r y :
  all_some (map f l) = Some r -> In y r -> exists x, In x l /\ f x = Some y.
Proof.
  intros H Hy. apply all_some_Forall2 in H. induction H as [|a b l r Hab HF IH]; [inversion Hy|].
  destruct Hy as [<-|Hy]; [exists a; split; [left; reflexivity|exact Hab]|].
  destruct (IH Hy) as [x [Hx Hfx]]. exists x. split; [right; exact Hx|exact Hfx].
Qed.

(* a loaded record is the record of some variant of a selected haplotype *)
Lemma loaded_used t gv :
  NoDup (map gv_id (t_vars t)) -> In gv (t_loaded t) ->
  exists h v j, In h (real_haps (t_sel t)) /\ In v (h_vars h) /\ avail t v = Some (j, gv).
Proof.
  intros Hnd Hin. rewrite t_loaded_eq in Hin. apply filter_In in Hin. destruct Hin as [Hin Hs].
  unfold fsel, var_selected in Hs. apply andb_true_iff in Hs. destruct Hs as [Hr Hw].
  apply memZ_In in Hw. unfold t_want in Hw. apply dedupZ_In in Hw. destruct Hw as [Hw _].
  apply in_flat_map in Hw. destruct Hw as [h [Hh Hv]]. apply in_map_iff in Hv. destruct Hv as [v [Hid Hv]].
  apply In_nth_error in Hin. destruct Hin as [j Hj].
  exists h, v, j. split; [exact Hh|]. split; [exact Hv|]. unfold avail. rewrite Hid.
  rewrite (find_var_complete (t_vars t) Hnd j gv Hj). unfold in_region_var. rewrite Hr. reflexivity.
Qed.

Theorem model_total_lemma t :
  wf_file t -> f_wellformed t = true -> transform_haps t = Ok (f_expected t).
Proof.
  intros W F. pose proof W as [Hd [Hlen [Hplen [Hreg Hshape]]]]. pose proof (has_dup_NoDup _ Hd) as Hnd.
  assert (Hex : exists out, transform_haps t = Ok out).
  2:{ destruct Hex as [out Ho]. rewrite Ho. f_equal. apply transform_haps_meets_spec_lemma; assumption. }
  unfold f_wellformed in F. rewrite !andb_true_iff in F. destruct F as [[[[F1 _] F3] F4] F5].
  rewrite transform_haps_alt_eq. unfold transform_haps_alt.
  rewrite (t_sel_eq t Hreg). destruct (f_selected t) as [|h0 sel0] eqn:Es; [discriminate|]. rewrite <- Es.
  rewrite <- (t_sel_eq t Hreg).
  assert (Hdl : has_dup (map gv_id (t_loaded t)) = false).
  { apply NoDup_has_dup. rewrite t_loaded_eq. apply NoDup_map_filter. exact Hnd. }
  rewrite Hdl. cbv zeta.
  assert (EH : t_out_haps t = f_expected_haps t).
  { unfold t_out_haps, f_expected_haps. rewrite <- (t_sel_eq t Hreg).
    apply filter_ext_in'. intros h Hh. apply transformable_eq; assumption. }
  destruct (keep_combine (f_sample_sel t) (t_samples t) (t_data t) (pop_rows t) Hlen Hplen) as [K1 _].
  fold (f_rows t) in K1. rewrite <- t_sm_eq in K1. fold (t_out_samples t) in K1.
  (* the ancestry matrix exists *)
  assert (HA : exists anc, ancestry_matrix false (t_anc t) (t_sm t) (t_vm t) (t_out_samples t) (t_loaded t) = Ok anc).
  { destruct (t_anc t) as [|m|bp] eqn:Ea; cbn [ancestry_matrix]; [eexists; reflexivity|eexists; reflexivity|].
    rewrite forallb_forall in F4.
    destruct (all_some_total (fun s => find_bp s bp) (t_out_samples t)) as [ts Hts].
    { intros s Hs. rewrite K1 in Hs. apply in_map_iff in Hs. destruct Hs as [e [<- He]].
      specialize (F4 e He). destruct (find_bp (fst e) bp); [discriminate|discriminate]. }
    rewrite Hts.
    apply sequence_total. intros tr Htr.
    destruct (all_some_In _ _ _ tr Hts Htr) as [s [Hs Hf]].
    rewrite K1 in Hs. apply in_map_iff in Hs. destruct Hs as [e [Hse He]].
    assert (Hu : uses_anc t = true) by (unfold uses_anc; rewrite Ea; reflexivity).
    rewrite Hu in F5. cbn [negb orb] in F5. rewrite forallb_forall in F5. specialize (F5 e He).
    rewrite forallb_forall in F5.
    assert (Hlab : forall gv, In gv (t_loaded t) ->
              label_at (fst tr) (gv_chrom gv) (gv_pos gv) <> None /\ label_at (snd tr) (gv_chrom gv) (gv_pos gv) <> None).
    { intros gv Hgv. destruct (loaded_used t gv Hnd Hgv) as [h [v [j [Hh [Hv Hav]]]]].
      rewrite (t_sel_eq t Hreg), Es in Hh. specialize (F5 h Hh). rewrite forallb_forall in F5. specialize (F5 v Hv).
      rewrite Hav in F5. unfold anc_label in F5. rewrite Ea, Hse, Hf in F5.
      destruct (label_at (fst tr) (gv_chrom gv) (gv_pos gv)); [|discriminate].
      destruct (label_at (snd tr) (gv_chrom gv) (gv_pos gv)); [|discriminate]. split; discriminate. }
    unfold bp_rows, strand_labels.
    destruct (all_some_total (fun v => label_at (fst tr) (gv_chrom v) (gv_pos v)) (t_loaded t)) as [a Ha];
      [intros gv Hgv; apply (Hlab gv Hgv)|].
    destruct (all_some_total (fun v => label_at (snd tr) (gv_chrom v) (gv_pos v)) (t_loaded t)) as [b Hb];
      [intros gv Hgv; apply (Hlab gv Hgv)|].
    rewrite Ha, Hb. eexists. reflexivity. }
  destruct HA as [anc Ha]. rewrite Ha.
  set (sel' := if (length (t_loaded t) <? length (t_want t))%nat then t_out_haps t else t_sel t).
  assert (Hreal : real_haps sel' = t_out_haps t).
  { unfold sel'. destruct (length (t_loaded t) <? length (t_want t))%nat eqn:El.
    - unfold t_out_haps. apply real_haps_idem_filter.
    - symmetry. apply none_missing_all_transformable; assumption. }
  destruct (haps_transform_closed_gen (t_geno t anc) (uses_anc t) sel' Hdl) as [C1 _].
  rewrite Hreal in C1.
  assert (Hok : forallb (hap_okb (t_geno t anc)) (t_out_haps t) = true).
  { apply forallb_forall. intros h Hh. unfold hap_okb. apply forallb_forall. intros v Hv.
    rewrite EH in Hh. rewrite forallb_forall in F3. specialize (F3 h Hh). rewrite forallb_forall in F3.
    specialize (F3 v Hv).
    assert (Hh' : In h (real_haps (t_sel t))).
    { rewrite <- EH in Hh. unfold t_out_haps in Hh. apply filter_In in Hh. tauto. }
    pose proof (resolve t h v Hnd Hh' Hv) as R.
    destruct (avail t v) as [[j gv]|]; [|discriminate].
    destruct R as [j' [R1 _]]. unfold var_col. change (g_vars (t_geno t anc)) with (t_loaded t). rewrite R1.
    destruct (index_of (hv_allele v) (gv_alleles gv)); [reflexivity|discriminate]. }
  rewrite (C1 Hok). eexists. reflexivity.
Qed.

(* ---- the invariance theorems for the model's result itself ------------------------------------------- *)

Theorem transform_haps_gt_order_total_lemma t idx :
  wf_file t -> f_wellformed t = true -> is_perm idx (length (t_vars t)) ->
  transform_haps (reorder idx t) = transform_haps t.
Proof.
  intros W F P. rewrite (model_total_lemma t W F).
  rewrite (model_total_lemma (reorder idx t) (wf_file_reorder_lemma t idx W P)).
  - f_equal. apply expected_gt_order_irrelevant_lemma; assumption.
  - rewrite wellformed_gt_order_irrelevant_lemma; assumption.
Qed.

(* ---- the layout of the .hap file, for the model's result ------------------------------------------------ *)

Lemma forallb_F2 {A} (R : A -> A -> Prop) (p p' : A -> bool) l l' :
  (forall x y, R x y -> p x = p' y) -> Forall2 R l l' -> forallb p l = forallb p' l'.
Proof.
  intros Hp HF. induction HF as [|x y l l' Hxy HF IH]; cbn; [reflexivity|]. rewrite (Hp x y Hxy), IH. reflexivity.
Qed.

Lemma selected_same_line t H H' :
  Forall2 same_line H H' -> Forall2 same_line (f_selected (with_haps t H)) (f_selected (with_haps t H')).
Proof.
  intros HF. unfold f_selected. cbn [with_haps t_haps t_region t_ids].
  apply F2_filter; [intros x y Hxy; apply hap_selected_same_line; exact Hxy|exact HF].
Qed.

Lemma real_same_line l l' : Forall2 same_line l l' -> Forall2 same_line (real_haps l) (real_haps l').
Proof.
  intros HF. unfold real_haps. apply F2_filter; [|exact HF].
  intros x y [_ [_ [_ [_ [_ [Er _]]]]]]. rewrite Er. reflexivity.
Qed.

Lemma expected_haps_same_line t H H' :
  Forall2 same_line H H' ->
  Forall2 same_line (f_expected_haps (with_haps t H)) (f_expected_haps (with_haps t H')).
Proof.
  intros HF. unfold f_expected_haps.
  apply F2_filter; [intros x y Hxy; apply (f_transformable_same_line (with_haps t H) x y Hxy)|].
  apply real_same_line. apply selected_same_line. exact HF.
Qed.

Lemma region_for_haps_same_line t H H' :
  Forall2 same_line H H' -> region_for_haps (with_haps t H) = region_for_haps (with_haps t H').
Proof.
  intros HF. unfold region_for_haps. cbn [with_haps t_region t_haps]. destruct (t_region t) as [r|]; [|reflexivity].
  assert (E : existsb (fun h => h_chrom h =? r_chrom r) H = existsb (fun h => h_chrom h =? r_chrom r) H').
  { induction HF as [|x y l l' [_ [Ec _]] HF IH]; cbn; [reflexivity|]. rewrite Ec, IH. reflexivity. }
  rewrite E. reflexivity.
Qed.

Lemma wf_file_same_line t H H' : Forall2 same_line H H' -> wf_file (with_haps t H) -> wf_file (with_haps t H').
Proof.
  intros HF [W1 [W2 [W3 [W4 W5]]]]. split; [exact W1|]. split; [exact W2|]. split; [exact W3|]. split; [|exact W5].
  rewrite <- (region_for_haps_same_line t H H' HF). exact W4.
Qed.

Lemma wellformed_same_line t H H' :
  Forall2 same_line H H' -> f_wellformed (with_haps t H) = f_wellformed (with_haps t H').
Proof.
  intros HF. pose proof (selected_same_line t H H' HF) as HS.
  pose proof (expected_haps_same_line t H H' HF) as HE.
  unfold f_wellformed. change (f_rows (with_haps t H')) with (f_rows (with_haps t H)).
  change (uses_anc (with_haps t H')) with (uses_anc (with_haps t H)).
  apply (f_equal2 andb); [apply (f_equal2 andb); [apply (f_equal2 andb); [apply (f_equal2 andb)|]|]|].
  - destruct HS; reflexivity.
  - reflexivity.
  - apply (forallb_F2 same_line); [|exact HE]. intros x y [_ [_ [_ [_ [_ [_ P]]]]]]. apply forallb_perm. exact P.
  - reflexivity.
  - destruct (uses_anc (with_haps t H)); [|reflexivity]. cbn [negb orb].
    apply forallb_ext'. intros e. apply (forallb_F2 same_line); [|apply real_same_line; exact HS].
    intros x y [_ [_ [_ [_ [_ [_ P]]]]]]. apply forallb_perm. exact P.
Qed.

(* the V lines of every haplotype in any order: the same result *)
Theorem transform_haps_vline_order_total_lemma t H H' :
  Forall2 same_line H H' -> wf_file (with_haps t H) -> f_wellformed (with_haps t H) = true ->
  transform_haps (with_haps t H') = transform_haps (with_haps t H).
Proof.
  intros HF W F. rewrite (model_total_lemma _ W F).
  rewrite (model_total_lemma _ (wf_file_same_line t H H' HF W)).
  - f_equal. symmetry. apply expected_vline_order_irrelevant_lemma. exact HF.
  - rewrite <- (wellformed_same_line t H H' HF). exact F.
Qed.

(* the result column by column: the kept H lines in file order, each with its own column *)
Theorem transform_haps_columnwise_lemma t H :
  wf_file (with_haps t H) -> f_wellformed (with_haps t H) = true ->
  let cols := map (f_column t) (filter (f_keep t) H) in
  transform_haps (with_haps t H)
  = Ok (map fst cols, map fst (f_rows t),
        map (fun k => map (fun c : (Z * Z * Z) * list (bool * bool) => nth k (snd c) (false, false)) cols)
            (seq 0 (length (f_rows t)))).
Proof.
  intros W F cols. rewrite (model_total_lemma _ W F). f_equal. apply expected_columnwise_lemma.
Qed.

(* ---- an instance: two chromosomes interleaved in the genotype file (1,2,1,2), equal coordinates on
        both, different ancestry there; ancestry from the .bp file and from POP fields ---------------- *)

Definition bp_inter : list (Z * (list seg * list seg)) :=
  [(2, ([mkseg 8 1 150 0; mkseg 9 1 300 0; mkseg 9 2 100 0; mkseg 8 2 300 0],
        [mkseg 9 1 300 0; mkseg 8 2 199 0; mkseg 9 2 300 0]));
   (1, ([mkseg 9 1 99 0; mkseg 8 1 300 0; mkseg 8 2 300 0],
        [mkseg 8 2 150 0; mkseg 9 2 300 0; mkseg 8 1 100 0; mkseg 9 1 200 0]))].

(* records: (id 11: chr 1 pos 100) (id 21: chr 2 pos 100) (id 12: chr 1 pos 200) (id 22: chr 2 pos 200) *)
Definition t_inter : tinput :=
  mkt [1; 2]
      [mkgv 11 1 100 [4; 5]; mkgv 21 2 100 [4; 5]; mkgv 12 1 200 [4; 5; 6]; mkgv 22 2 200 [4; 5]]
      [([1; 1; 2; 1], [1; 0; 1; 1]); ([1; 1; 0; 0], [0; 1; 2; 1])]
      [mkh 70 1 100 201 8 [mkhv 12 6; mkhv 11 5] false; mkh 71 2 100 201 8 [mkhv 21 5; mkhv 22 5] false;
       mkh 72 2 100 101 9 [mkhv 21 5] false]
      None None None (BpFile bp_inter).

Definition pop_inter : list sample_rows :=
  [([8; 8; 8; 8], [8; 8; 9; 9]); ([8; 9; 9; 8], [9; 8; 9; 9])].

Lemma interleaved_example_lemma :
  wf_file t_inter /\ f_wellformed t_inter = true
  /\ is_perm [2; 0; 3; 1]%nat (length (t_vars t_inter))
  /\ transform_haps t_inter
     = Ok ([(70, 1, 100); (71, 2, 100); (72, 2, 100)], [1; 2],
           [[(true, false); (true, false); (false, false)]; [(false, false); (false, false); (true, false)]])
  /\ transform_haps (reorder [2; 0; 3; 1]%nat t_inter) = transform_haps t_inter
  /\ C05_Model.population_array bp_inter (map var5 (t_vars t_inter)) (Some (t_samples t_inter))
     = Ok (map zip_row pop_inter)
  /\ transform_haps (with_anc t_inter (PopField pop_inter)) = transform_haps t_inter.
Proof.
  split; [unfold wf_file; cbn; repeat split|].
  split; [vm_compute; reflexivity|].
  split.
  { unfold is_perm. cbn.
    apply (Permutation_trans (l' := [0; 2; 3; 1]%nat)); [apply perm_swap|]. apply perm_skip.
    apply (Permutation_trans (l' := [2; 1; 3]%nat)); [apply perm_skip; apply perm_swap|].
    apply (Permutation_trans (l' := [1; 2; 3]%nat)); [apply perm_swap|]. apply Permutation_refl. }
  vm_compute. repeat split; reflexivity.
Qed.
