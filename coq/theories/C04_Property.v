(* C04 - property theorems only.  Vocabulary (C04_Model / C04_Check / C04_Proofs):
     geno            samples, variant records (id, chrom, pos, alleles), data and ancestry rows
                     (one pair of strand rows per sample), label -> code dictionary
     find_var        Genotypes._var_idx: column and record of a variant ID
     index_of        Python's list.index: first position of an allele in the allele list
     carries G d v   strand row d holds, in the column of v's variant, the index of v's allele
     has_anc G a l v strand ancestry row a holds, in that column, the code of label l
     strand_prop     every variant of the haplotype is carried (and, with ancestry, has the label)
     rows G anc      the samples' (data, ancestry) rows
     hap_okb / hap_presentb   every variant and allele / every variant of the haplotype exists in G
     spec_col / spec_mat      the cell-by-cell specification as a column / matrix *)
From HV Require Import Prelude Tracts C04_Model C04_Check C04_Proofs C04_ProofsSet C04_ProofsFile C04_ProofsSpec C04_ProofsAnc C04_Legacy C04_ProofsPerm.
From Coq Require Import Permutation.

(* -- meaning of the two look-ups the statements are phrased with ------------------------- *)

Theorem C04_index_of_spec : forall x l k,
  index_of x l = Some k ->
  0 <= k /\ nth_error l (Z.to_nat k) = Some x
  /\ forall m, (m < Z.to_nat k)%nat -> nth_error l m <> Some x.
Proof. exact index_of_spec. Qed.
Print Assumptions C04_index_of_spec.

Theorem C04_find_var_spec : forall id vs j gv,
  find_var id vs 0 = Some (j, gv) ->
  (0 <= j)%nat /\ nth_error vs (j - 0) = Some gv /\ gv_id gv = id.
Proof. intros id vs. exact (find_var_spec id vs 0%nat). Qed.
Print Assumptions C04_find_var_spec.

(* -- hap_transform_spec: Haplotype.transform and HaplotypeAncestry.transform ---------------- *)

(* result (s,t) = true <-> for every variant of the haplotype the strand's cell is the index of
   the listed allele (and, with ancestry, the strand's ancestry cell is the code of the label) *)
Theorem C04_hap_transform_spec : forall G (anc : bool) h col,
  has_dup (map gv_id (g_vars G)) = false ->
  (if anc then hap_transform_anc h G else hap_transform h G) = Ok col ->
  length col = length (rows G anc) /\
  forall s da, nth_error (rows G anc) s = Some da ->
    exists b0 b1, nth_error col s = Some (b0, b1)
      /\ (b0 = true <-> strand_prop G anc h (fst (fst da)) (fst (snd da)))
      /\ (b1 = true <-> strand_prop G anc h (snd (fst da)) (snd (snd da))).
Proof. exact hap_transform_spec_gen. Qed.
Print Assumptions C04_hap_transform_spec.

(* it answers exactly when every variant and allele exists (whatever the ancestry label);
   otherwise it raises ValueError - it never guesses *)
Theorem C04_hap_transform_total : forall G (anc : bool) h,
  has_dup (map gv_id (g_vars G)) = false ->
  (hap_okb G h = true ->
     exists col, (if anc then hap_transform_anc h G else hap_transform h G) = Ok col)
  /\ (hap_okb G h = false ->
     (if anc then hap_transform_anc h G else hap_transform h G) = Err E_Value).
Proof. exact hap_transform_total. Qed.
Print Assumptions C04_hap_transform_total.

(* a label occurring nowhere in the data never matches *)
Theorem C04_absent_label_no_match : forall G h d a,
  label_code (g_labels G) (h_anc h) = None -> h_vars h <> [] ->
  spec_strand G true h d a = false.
Proof. exact absent_label_no_match. Qed.
Print Assumptions C04_absent_label_no_match.

(* -- haps_transform_eq_single: the set-wise implementations equal the single ones ------------ *)

Theorem C04_haps_transform_eq_single : forall G H0,
  has_dup (map gv_id (g_vars G)) = false ->
  forallb (hap_presentb G) (real_haps H0) = true ->
  match haps_transform H0 G with
  | Ok (recs, M) =>
      recs = recs_of (real_haps H0) /\
      length M = length (rows G false) /\
      forall i h, nth_error (real_haps H0) i = Some h -> hap_transform h G = Ok (column_of M i)
  | Err k =>
      k = E_Value /\ exists h, In h (real_haps H0) /\ hap_transform h G = Err E_Value
  end.
Proof. intros G H0. exact (haps_transform_eq_single_gen G false H0). Qed.
Print Assumptions C04_haps_transform_eq_single.

Theorem C04_haps_transform_anc_eq_single : forall G H0,
  has_dup (map gv_id (g_vars G)) = false ->
  forallb (hap_presentb G) (real_haps H0) = true ->
  match haps_transform_anc H0 G with
  | Ok (recs, M) =>
      recs = recs_of (real_haps H0) /\
      length M = length (rows G true) /\
      forall i h, nth_error (real_haps H0) i = Some h -> hap_transform_anc h G = Ok (column_of M i)
  | Err k =>
      k = E_Value /\ exists h, In h (real_haps H0) /\ hap_transform_anc h G = Err E_Value
  end.
Proof. intros G H0. exact (haps_transform_eq_single_gen G true H0). Qed.
Print Assumptions C04_haps_transform_anc_eq_single.

(* closed form: the set-wise result is the specification matrix; it fails iff something is absent *)
Theorem C04_haps_transform_closed : forall G (anc : bool) H0,
  has_dup (map gv_id (g_vars G)) = false ->
  let H := real_haps H0 in
  (forallb (hap_okb G) H = true -> set_tr anc H0 G = Ok (recs_of H, spec_mat G anc H))
  /\ (forallb (hap_okb G) H = false ->
        exists k, set_tr anc H0 G = Err k /\ (forallb (hap_presentb G) H = true -> k = E_Value)).
Proof. exact haps_transform_closed_gen. Qed.
Print Assumptions C04_haps_transform_closed.

(* -- transform_haps_records ---------------------------------------------------------------------- *)

Theorem C04_transform_haps_records : forall t recs samples M,
  transform_haps t = Ok (recs, samples, M) ->
  recs = recs_of (t_out_haps t)
  /\ samples = t_out_samples t
  /\ exists anc,
       ancestry_matrix false (t_anc t) (t_sm t) (t_vm t) (t_out_samples t) (t_loaded t) = Ok anc
       /\ M = spec_mat (t_geno t anc) (uses_anc t) (t_out_haps t)
       /\ forallb (hap_okb (t_geno t anc)) (t_out_haps t) = true.
Proof. exact transform_haps_records_lemma. Qed.
Print Assumptions C04_transform_haps_records.

(* the model's answer on a well-formed file IS the file-level specification f_expected: records of
   the selected haplotypes whose variants all lie in the file and region, in .hap order; requested
   samples in file order; each cell decided on the full file by variant ID, allele position and the
   ancestry label of the sample *by name* (POP cell or .bp tract) - see fcell_spec below *)
Theorem C04_transform_haps_meets_spec : forall t out,
  wf_file t -> transform_haps t = Ok out -> out = f_expected t.
Proof. exact transform_haps_meets_spec_lemma. Qed.
Print Assumptions C04_transform_haps_meets_spec.

Theorem C04_fcell_spec : forall t s d pr strand h,
  fcell t s d pr strand h = true <->
  forall v, In v (h_vars h) ->
    exists j gv i, avail t v = Some (j, gv)
      /\ index_of (hv_allele v) (gv_alleles gv) = Some i
      /\ cell d j = i
      /\ (uses_anc t = true -> anc_label t s pr strand j gv = Some (h_anc h)).
Proof. exact fcell_spec. Qed.
Print Assumptions C04_fcell_spec.

(* -- ancestry_source_irrelevant -------------------------------------------------------------------- *)

Theorem C04_ancestry_source_irrelevant : forall t a1 a2,
  a1 <> NoAnc -> a2 <> NoAnc ->
  ancestry_matrix false a1 (t_sm t) (t_vm t) (t_out_samples t) (t_loaded t)
  = ancestry_matrix false a2 (t_sm t) (t_vm t) (t_out_samples t) (t_loaded t) ->
  transform_haps (with_anc t a1) = transform_haps (with_anc t a2).
Proof. exact ancestry_source_irrelevant_lemma. Qed.
Print Assumptions C04_ancestry_source_irrelevant.

(* -- soundness of the boolean checkers evaluated on the implementation's output --------------------- *)

Theorem C04_holds_single_sound : forall G anc h o,
  holds_single1 G anc h o = true ->
  match o with
  | Ok col =>
      hap_presentb G h = true /\
      length col = length (rows G anc) /\
      forall s da, nth_error (rows G anc) s = Some da ->
        exists b0 b1, nth_error col s = Some (b0, b1)
          /\ (b0 = true <-> strand_prop G anc h (fst (fst da)) (fst (snd da)))
          /\ (b1 = true <-> strand_prop G anc h (snd (fst da)) (snd (snd da)))
  | Err _ => exists v, In v (h_vars h) /\ var_col G v = None
  end.
Proof. exact holds_single1_sound. Qed.
Print Assumptions C04_holds_single_sound.

Theorem C04_holds_api_sound : forall c,
  holds_api c = true ->
  has_dup (map gv_id (g_vars (a_G c))) = false ->
  let G := a_G c in let anc := a_anc c in let H := real_haps (a_H c) in
  (forall i h o, nth_error H i = Some h -> nth_error (a_single c) i = Some o ->
     match o with
     | Ok col => hap_presentb G h = true /\ col = spec_col G anc h
     | Err _ => exists v, In v (h_vars h) /\ var_col G v = None
     end)
  /\ match a_set c with
     | Ok (recs, M) =>
         let Hp := filter (hap_presentb G) H in
         recs = recs_of Hp /\ M = spec_mat G anc Hp
     | Err _ => exists h v, In h H /\ In v (h_vars h) /\ var_col G v = None
     end.
Proof. exact holds_api_sound. Qed.
Print Assumptions C04_holds_api_sound.

Theorem C04_holds_file_sound : forall c,
  holds_file c = true ->
  match f_obs c with
  | Ok out => out = f_expected (f_in c) /\ (f_omitted (f_in c) = true -> f_warned c = true)
  | Err k => k = E_Unobserved \/ f_wellformed (f_in c) = false
  end.
Proof. exact holds_file_sound_lemma. Qed.
Print Assumptions C04_holds_file_sound.

Theorem C04_model_passes_holds_file : forall t out,
  wf_file t -> transform_haps t = Ok out -> holds_file (mkf t (Ok out) (warns_missing t)) = true.
Proof. exact model_passes_holds_file_lemma. Qed.
Print Assumptions C04_model_passes_holds_file.

(* "reported and omitted": whenever a selected haplotype is left out, the warning is logged *)
Theorem C04_omitted_is_reported : forall t out,
  wf_file t -> transform_haps t = Ok out -> f_omitted t = true -> warns_missing t = true.
Proof. exact omitted_is_reported_lemma. Qed.
Print Assumptions C04_omitted_is_reported.

(* POP fields that say what the .bp file says give the same output as the .bp file *)
Theorem C04_pop_bp_same : forall t bp m,
  pop_from_bp bp (t_samples t) (t_vars t) = Some m ->
  transform_haps (with_anc t (PopField m)) = transform_haps (with_anc t (BpFile bp)).
Proof. exact pop_bp_same_lemma. Qed.
Print Assumptions C04_pop_bp_same.

(* -- the pinned tree refuted (witnesses = corpus/C04) and satisfiable hypotheses ---------------------- *)

Example C04_legacy_absent_label_overflow_refuted :
  forallb (hap_okb G_overflow) (real_haps H_overflow) = true
  /\ haps_transform_anc_legacy H_overflow G_overflow = Err E_Overflow
  /\ haps_transform_anc H_overflow G_overflow = Ok ([(7, 1, 10)], [[(false, false)]]).
Proof. exact legacy_absent_label_overflow_refuted_lemma. Qed.
Print Assumptions C04_legacy_absent_label_overflow_refuted.

Example C04_legacy_ancestry_multiallelic_refuted :
  spec_col G_multi true h_multi = [(true, false)]
  /\ hap_transform_anc_legacy h_multi G_multi = Ok [(false, true)]
  /\ hap_transform_anc h_multi G_multi = Ok [(true, false)]
  /\ haps_transform_anc_gen true false [h_multi] G_multi = Ok ([(7, 1, 10)], [[(false, true)]])
  /\ haps_transform_anc [h_multi] G_multi = Ok ([(7, 1, 10)], [[(true, false)]]).
Proof. exact legacy_ancestry_multiallelic_refuted_lemma. Qed.
Print Assumptions C04_legacy_ancestry_multiallelic_refuted.

Example C04_legacy_bp_sample_order_refuted :
  transform_haps_gen false false true false t_bporder
    = Ok ([(7, 1, 10)], [1; 2], [[(false, false)]; [(true, true)]])
  /\ transform_haps t_bporder = Ok ([(7, 1, 10)], [1; 2], [[(true, true)]; [(false, false)]])
  /\ holds_file (mkf t_bporder (Ok ([(7, 1, 10)], [1; 2], [[(false, false)]; [(true, true)]])) false) = false
  /\ holds_file (mkf t_bporder (transform_haps t_bporder) false) = true.
Proof. exact legacy_bp_sample_order_refuted_lemma. Qed.
Print Assumptions C04_legacy_bp_sample_order_refuted.

Example C04_legacy_repeat_varids_refuted :
  transform_haps_gen false false false true t_repeat = Err E_Attr
  /\ transform_haps t_repeat = Ok ([(7, 1, 10)], [1], [[(true, false)]])
  /\ holds_file (mkf t_repeat (Err E_Attr) true) = false
  /\ holds_file (mkf t_repeat (transform_haps t_repeat) (warns_missing t_repeat)) = true
  /\ holds_file (mkf t_repeat (transform_haps t_repeat) false) = false.
Proof. exact legacy_repeat_varids_refuted_lemma. Qed.
Print Assumptions C04_legacy_repeat_varids_refuted.

Example C04_hypotheses_satisfiable :
  has_dup (map gv_id (g_vars G_ex)) = false
  /\ forallb (hap_presentb G_ex) (real_haps H_ex) = true
  /\ haps_transform H_ex G_ex
     = Ok ([(10, 1, 10); (11, 1, 20)], [[(true, false); (true, true)]; [(false, true); (false, true)]])
  /\ haps_transform_anc H_ex G_ex
     = Ok ([(10, 1, 10); (11, 1, 20)], [[(true, false); (false, true)]; [(false, true); (false, false)]]).
Proof. exact hypotheses_satisfiable_lemma. Qed.
Print Assumptions C04_hypotheses_satisfiable.

Example C04_wf_file_satisfiable :
  wf_file t_bporder /\ wf_file t_pop
  /\ transform_haps t_pop = Ok ([(7, 1, 10)], [1; 2], [[(true, false)]; [(false, true)]]).
Proof. exact wf_file_satisfiable_lemma. Qed.
Print Assumptions C04_wf_file_satisfiable.

(* -- the repair of the allele index (defect 6) changes nothing on biallelic variants ------------------ *)

Theorem C04_legacy_agrees_on_biallelic : forall G h,
  forallb (bi_ok G) (h_vars h) = true ->
  hap_transform_anc_legacy h G = hap_transform_anc h G.
Proof. exact legacy_agrees_on_biallelic_lemma. Qed.
Print Assumptions C04_legacy_agrees_on_biallelic.

Theorem C04_legacy_set_agrees_on_biallelic : forall G H0,
  forallb (fun h => forallb (bi_ok G) (h_vars h)) (real_haps H0) = true ->
  haps_transform_anc_gen true false H0 G = haps_transform_anc H0 G.
Proof. exact legacy_set_agrees_on_biallelic_lemma. Qed.
Print Assumptions C04_legacy_set_agrees_on_biallelic.

(* -- cells of the set-wise result, declaratively ---------------------------------------------------------- *)

Theorem C04_set_cells_spec : forall G (anc : bool) H0 recs M,
  has_dup (map gv_id (g_vars G)) = false ->
  set_tr anc H0 G = Ok (recs, M) ->
  forall s da i h, nth_error (rows G anc) s = Some da -> nth_error (real_haps H0) i = Some h ->
    exists row b0 b1, nth_error M s = Some row /\ nth_error row i = Some (b0, b1)
      /\ (b0 = true <-> strand_prop G anc h (fst (fst da)) (fst (snd da)))
      /\ (b1 = true <-> strand_prop G anc h (snd (fst da)) (snd (snd da))).
Proof. exact set_cells_spec_lemma. Qed.
Print Assumptions C04_set_cells_spec.

(* The order in which a haplotype lists its variants (the order of its V lines in the .hap file,
   which need not be the order of the genotype records) does not matter: the single-haplotype
   transforms give the same column, or the same error, for every permutation of the list. *)
Theorem C04_hap_transform_vline_order_irrelevant : forall G (anc : bool) h h',
  has_dup (map gv_id (g_vars G)) = false ->
  Permutation (h_vars h) (h_vars h') -> h_anc h = h_anc h' ->
  (if anc then hap_transform_anc h G else hap_transform h G)
  = (if anc then hap_transform_anc h' G else hap_transform h' G).
Proof. exact hap_transform_perm. Qed.
Print Assumptions C04_hap_transform_vline_order_irrelevant.

(* content: the two-variant haplotype of the example with its V lines in reverse order of the
   genotype records (its alleles are an ALT of the first and the second ALT of the other record) *)
Example C04_vline_order_example :
  hap_transform (mkh 10 1 10 21 8 [mkhv 4 7; mkhv 1 3] false) G_ex = Ok [(true, false); (false, true)]
  /\ hap_transform (mkh 10 1 10 21 8 [mkhv 1 3; mkhv 4 7] false) G_ex = Ok [(true, false); (false, true)]
  /\ hap_transform_anc (mkh 10 1 10 21 8 [mkhv 4 7; mkhv 1 3] false) G_ex = Ok [(true, false); (false, true)].
Proof. vm_compute. repeat split; reflexivity. Qed.
Print Assumptions C04_vline_order_example.
