(* C04 - property theorems only.  Vocabulary (C04_Model / C04_Check / C04_Proofs):
     geno            samples, variant records (id, chrom, pos, alleles), data and ancestry rows
                     (one pair of strand rows per sample), label -> code dictionary
     find_var        Genotypes._var_idx: column and record of a variant ID
     index_of        Python's list.index: first position of an allele in the allele list
     carries G d v   strand row d holds, in the column of v's variant, the index of v's allele
     has_anc G a l v strand ancestry row a holds, in that column, the code of label l
     strand_prop     every variant of the haplotype is carried (and, with ancestry, has the label)
     rows G anc      the samples' (data, ancestry) rows
     hap_okb / hap_presentb   every variant and allele / every variant of the haplotype exists in G
     spec_col / spec_mat      the cell-by-cell specification as a column / matrix *)
From HV Require Import Prelude Tracts C04_Model C04_Check C04_CheckSeq C04_Proofs C04_ProofsSet C04_ProofsFile C04_ProofsSpec
  C04_ProofsAnc C04_Legacy C04_ProofsPerm C04_ProofsDup C04_ProofsSeq C04_ProofsBp C04_ProofsOrder C04_ProofsTotal
  C04_ModelOpt C04_CheckOpt C04_ProofsOpt C04_ProofsOptC C04_ModelIO C04_CheckIO C04_ProofsIO.
From HV Require C05_Model.
From Coq Require Import Permutation QArith.
Open Scope Z_scope.

(* -- meaning of the two look-ups the statements are phrased with ------------------------- *)

Theorem C04_index_of_spec : forall x l k,
  index_of x l = Some k ->
  0 <= k /\ nth_error l (Z.to_nat k) = Some x
  /\ forall m, (m < Z.to_nat k)%nat -> nth_error l m <> Some x.
Proof. exact index_of_spec. Qed.
Print Assumptions C04_index_of_spec.

Theorem C04_find_var_spec : forall id vs j gv,
  find_var id vs 0 = Some (j, gv) ->
  (0 <= j)%nat /\ nth_error vs (j - 0) = Some gv /\ gv_id gv = id.
Proof. intros id vs. exact (find_var_spec id vs 0%nat). Qed.
Print Assumptions C04_find_var_spec.

(* -- hap_transform_spec: Haplotype.transform and HaplotypeAncestry.transform ---------------- *)

(* result (s,t) = true <-> for every variant of the haplotype the strand's cell is the index of
   the listed allele (and, with ancestry, the strand's ancestry cell is the code of the label) *)
Theorem C04_hap_transform_spec : forall G (anc : bool) h col,
  has_dup (map gv_id (g_vars G)) = false ->
  (if anc then hap_transform_anc h G else hap_transform h G) = Ok col ->
  length col = length (rows G anc) /\
  forall s da, nth_error (rows G anc) s = Some da ->
    exists b0 b1, nth_error col s = Some (b0, b1)
      /\ (b0 = true <-> strand_prop G anc h (fst (fst da)) (fst (snd da)))
      /\ (b1 = true <-> strand_prop G anc h (snd (fst da)) (snd (snd da))).
Proof. exact hap_transform_spec_gen. Qed.
Print Assumptions C04_hap_transform_spec.

(* it answers exactly when every variant and allele exists (whatever the ancestry label);
   otherwise it raises ValueError - it never guesses *)
Theorem C04_hap_transform_total : forall G (anc : bool) h,
  has_dup (map gv_id (g_vars G)) = false ->
  (hap_okb G h = true ->
     exists col, (if anc then hap_transform_anc h G else hap_transform h G) = Ok col)
  /\ (hap_okb G h = false ->
     (if anc then hap_transform_anc h G else hap_transform h G) = Err E_Value).
Proof. exact hap_transform_total. Qed.
Print Assumptions C04_hap_transform_total.

(* a label occurring nowhere in the data never matches *)
Theorem C04_absent_label_no_match : forall G h d a,
  label_code (g_labels G) (h_anc h) = None -> h_vars h <> [] ->
  spec_strand G true h d a = false.
Proof. exact absent_label_no_match. Qed.
Print Assumptions C04_absent_label_no_match.

(* -- haps_transform_eq_single: the set-wise implementations equal the single ones ------------ *)

Theorem C04_haps_transform_eq_single : forall G H0,
  has_dup (map gv_id (g_vars G)) = false ->
  forallb (hap_presentb G) (real_haps H0) = true ->
  match haps_transform H0 G with
  | Ok (recs, M) =>
      recs = recs_of (real_haps H0) /\
      length M = length (rows G false) /\
      forall i h, nth_error (real_haps H0) i = Some h -> hap_transform h G = Ok (column_of M i)
  | Err k =>
      k = E_Value /\ exists h, In h (real_haps H0) /\ hap_transform h G = Err E_Value
  end.
Proof. intros G H0. exact (haps_transform_eq_single_gen G false H0). Qed.
Print Assumptions C04_haps_transform_eq_single.

Theorem C04_haps_transform_anc_eq_single : forall G H0,
  has_dup (map gv_id (g_vars G)) = false ->
  forallb (hap_presentb G) (real_haps H0) = true ->
  match haps_transform_anc H0 G with
  | Ok (recs, M) =>
      recs = recs_of (real_haps H0) /\
      length M = length (rows G true) /\
      forall i h, nth_error (real_haps H0) i = Some h -> hap_transform_anc h G = Ok (column_of M i)
  | Err k =>
      k = E_Value /\ exists h, In h (real_haps H0) /\ hap_transform_anc h G = Err E_Value
  end.
Proof. intros G H0. exact (haps_transform_eq_single_gen G true H0). Qed.
Print Assumptions C04_haps_transform_anc_eq_single.

(* closed form: the set-wise result is the specification matrix; it fails iff something is absent *)
Theorem C04_haps_transform_closed : forall G (anc : bool) H0,
  has_dup (map gv_id (g_vars G)) = false ->
  let H := real_haps H0 in
  (forallb (hap_okb G) H = true -> set_tr anc H0 G = Ok (recs_of H, spec_mat G anc H))
  /\ (forallb (hap_okb G) H = false ->
        exists k, set_tr anc H0 G = Err k /\ (forallb (hap_presentb G) H = true -> k = E_Value)).
Proof. exact haps_transform_closed_gen. Qed.
Print Assumptions C04_haps_transform_closed.

(* -- transform_haps_records ---------------------------------------------------------------------- *)

Theorem C04_transform_haps_records : forall t recs samples M,
  transform_haps t = Ok (recs, samples, M) ->
  recs = recs_of (t_out_haps t)
  /\ samples = t_out_samples t
  /\ exists anc,
       ancestry_matrix false (t_anc t) (t_sm t) (t_vm t) (t_out_samples t) (t_loaded t) = Ok anc
       /\ M = spec_mat (t_geno t anc) (uses_anc t) (t_out_haps t)
       /\ forallb (hap_okb (t_geno t anc)) (t_out_haps t) = true.
Proof. exact transform_haps_records_lemma. Qed.
Print Assumptions C04_transform_haps_records.

(* the model's answer on a well-formed file IS the file-level specification f_expected: records of
   the selected haplotypes whose variants all lie in the file and region, in .hap order; requested
   samples in file order; each cell decided on the full file by variant ID, allele position and the
   ancestry label of the sample *by name* (POP cell or .bp tract) - see fcell_spec below *)
Theorem C04_transform_haps_meets_spec : forall t out,
  wf_file t -> transform_haps t = Ok out -> out = f_expected t.
Proof. exact transform_haps_meets_spec_lemma. Qed.
Print Assumptions C04_transform_haps_meets_spec.

Theorem C04_fcell_spec : forall t s d pr strand h,
  fcell t s d pr strand h = true <->
  forall v, In v (h_vars h) ->
    exists j gv i, avail t v = Some (j, gv)
      /\ index_of (hv_allele v) (gv_alleles gv) = Some i
      /\ cell d j = i
      /\ (uses_anc t = true -> anc_label t s pr strand j gv = Some (h_anc h)).
Proof. exact fcell_spec. Qed.
Print Assumptions C04_fcell_spec.

(* -- ancestry_source_irrelevant -------------------------------------------------------------------- *)

Theorem C04_ancestry_source_irrelevant : forall t a1 a2,
  a1 <> NoAnc -> a2 <> NoAnc ->
  ancestry_matrix false a1 (t_sm t) (t_vm t) (t_out_samples t) (t_loaded t)
  = ancestry_matrix false a2 (t_sm t) (t_vm t) (t_out_samples t) (t_loaded t) ->
  transform_haps (with_anc t a1) = transform_haps (with_anc t a2).
Proof. exact ancestry_source_irrelevant_lemma. Qed.
Print Assumptions C04_ancestry_source_irrelevant.

(* -- soundness of the boolean checkers evaluated on the implementation's output --------------------- *)

Theorem C04_holds_single_sound : forall G anc h o,
  holds_single1 G anc h o = true ->
  match o with
  | Ok col =>
      hap_presentb G h = true /\
      length col = length (rows G anc) /\
      forall s da, nth_error (rows G anc) s = Some da ->
        exists b0 b1, nth_error col s = Some (b0, b1)
          /\ (b0 = true <-> strand_prop G anc h (fst (fst da)) (fst (snd da)))
          /\ (b1 = true <-> strand_prop G anc h (snd (fst da)) (snd (snd da)))
  | Err _ => exists v, In v (h_vars h) /\ var_col G v = None
  end.
Proof. exact holds_single1_sound. Qed.
Print Assumptions C04_holds_single_sound.

Theorem C04_holds_api_sound : forall c,
  holds_api c = true ->
  has_dup (map gv_id (g_vars (a_G c))) = false ->
  let G := a_G c in let anc := a_anc c in let H := real_haps (a_H c) in
  (forall i h o, nth_error H i = Some h -> nth_error (a_single c) i = Some o ->
     match o with
     | Ok col => hap_presentb G h = true /\ col = spec_col G anc h
     | Err _ => exists v, In v (h_vars h) /\ var_col G v = None
     end)
  /\ match a_set c with
     | Ok (recs, M) =>
         let Hp := filter (hap_presentb G) H in
         recs = recs_of Hp /\ M = spec_mat G anc Hp
     | Err _ => exists h v, In h H /\ In v (h_vars h) /\ var_col G v = None
     end.
Proof. exact holds_api_sound. Qed.
Print Assumptions C04_holds_api_sound.

Theorem C04_holds_file_sound : forall c,
  holds_file c = true ->
  match f_obs c with
  | Ok out => out = f_expected (f_in c) /\ (f_omitted (f_in c) = true -> f_warned c = true)
  | Err k => k = E_Unobserved \/ f_wellformed (f_in c) = false
  end.
Proof. exact holds_file_sound_lemma. Qed.
Print Assumptions C04_holds_file_sound.

Theorem C04_model_passes_holds_file : forall t out,
  wf_file t -> transform_haps t = Ok out -> holds_file (mkf t (Ok out) (warns_missing t)) = true.
Proof. exact model_passes_holds_file_lemma. Qed.
Print Assumptions C04_model_passes_holds_file.

(* "reported and omitted": whenever a selected haplotype is left out, the warning is logged *)
Theorem C04_omitted_is_reported : forall t out,
  wf_file t -> transform_haps t = Ok out -> f_omitted t = true -> warns_missing t = true.
Proof. exact omitted_is_reported_lemma. Qed.
Print Assumptions C04_omitted_is_reported.

(* POP fields that say what the .bp file says give the same output as the .bp file *)
Theorem C04_pop_bp_same : forall t bp m,
  pop_from_bp bp (t_samples t) (t_vars t) = Some m ->
  transform_haps (with_anc t (PopField m)) = transform_haps (with_anc t (BpFile bp)).
Proof. exact pop_bp_same_lemma. Qed.
Print Assumptions C04_pop_bp_same.

(* -- the pinned tree refuted (witnesses = corpus/C04) and satisfiable hypotheses ---------------------- *)

Example C04_legacy_absent_label_overflow_refuted :
  forallb (hap_okb G_overflow) (real_haps H_overflow) = true
  /\ haps_transform_anc_legacy H_overflow G_overflow = Err E_Overflow
  /\ haps_transform_anc H_overflow G_overflow = Ok ([(7, 1, 10)], [[(false, false)]]).
Proof. exact legacy_absent_label_overflow_refuted_lemma. Qed.
Print Assumptions C04_legacy_absent_label_overflow_refuted.

Example C04_legacy_ancestry_multiallelic_refuted :
  spec_col G_multi true h_multi = [(true, false)]
  /\ hap_transform_anc_legacy h_multi G_multi = Ok [(false, true)]
  /\ hap_transform_anc h_multi G_multi = Ok [(true, false)]
  /\ haps_transform_anc_gen true false [h_multi] G_multi = Ok ([(7, 1, 10)], [[(false, true)]])
  /\ haps_transform_anc [h_multi] G_multi = Ok ([(7, 1, 10)], [[(true, false)]]).
Proof. exact legacy_ancestry_multiallelic_refuted_lemma. Qed.
Print Assumptions C04_legacy_ancestry_multiallelic_refuted.

Example C04_legacy_bp_sample_order_refuted :
  transform_haps_gen false false true false t_bporder
    = Ok ([(7, 1, 10)], [1; 2], [[(false, false)]; [(true, true)]])
  /\ transform_haps t_bporder = Ok ([(7, 1, 10)], [1; 2], [[(true, true)]; [(false, false)]])
  /\ holds_file (mkf t_bporder (Ok ([(7, 1, 10)], [1; 2], [[(false, false)]; [(true, true)]])) false) = false
  /\ holds_file (mkf t_bporder (transform_haps t_bporder) false) = true.
Proof. exact legacy_bp_sample_order_refuted_lemma. Qed.
Print Assumptions C04_legacy_bp_sample_order_refuted.

Example C04_legacy_repeat_varids_refuted :
  transform_haps_gen false false false true t_repeat = Err E_Attr
  /\ transform_haps t_repeat = Ok ([(7, 1, 10)], [1], [[(true, false)]])
  /\ holds_file (mkf t_repeat (Err E_Attr) true) = false
  /\ holds_file (mkf t_repeat (transform_haps t_repeat) (warns_missing t_repeat)) = true
  /\ holds_file (mkf t_repeat (transform_haps t_repeat) false) = false.
Proof. exact legacy_repeat_varids_refuted_lemma. Qed.
Print Assumptions C04_legacy_repeat_varids_refuted.

Example C04_hypotheses_satisfiable :
  has_dup (map gv_id (g_vars G_ex)) = false
  /\ forallb (hap_presentb G_ex) (real_haps H_ex) = true
  /\ haps_transform H_ex G_ex
     = Ok ([(10, 1, 10); (11, 1, 20)], [[(true, false); (true, true)]; [(false, true); (false, true)]])
  /\ haps_transform_anc H_ex G_ex
     = Ok ([(10, 1, 10); (11, 1, 20)], [[(true, false); (false, true)]; [(false, true); (false, false)]]).
Proof. exact hypotheses_satisfiable_lemma. Qed.
Print Assumptions C04_hypotheses_satisfiable.

Example C04_wf_file_satisfiable :
  wf_file t_bporder /\ wf_file t_pop
  /\ transform_haps t_pop = Ok ([(7, 1, 10)], [1; 2], [[(true, false)]; [(false, true)]]).
Proof. exact wf_file_satisfiable_lemma. Qed.
Print Assumptions C04_wf_file_satisfiable.

(* -- the repair of the allele index (defect 6) changes nothing on biallelic variants ------------------ *)

Theorem C04_legacy_agrees_on_biallelic : forall G h,
  forallb (bi_ok G) (h_vars h) = true ->
  hap_transform_anc_legacy h G = hap_transform_anc h G.
Proof. exact legacy_agrees_on_biallelic_lemma. Qed.
Print Assumptions C04_legacy_agrees_on_biallelic.

Theorem C04_legacy_set_agrees_on_biallelic : forall G H0,
  forallb (fun h => forallb (bi_ok G) (h_vars h)) (real_haps H0) = true ->
  haps_transform_anc_gen true false H0 G = haps_transform_anc H0 G.
Proof. exact legacy_set_agrees_on_biallelic_lemma. Qed.
Print Assumptions C04_legacy_set_agrees_on_biallelic.

(* -- cells of the set-wise result, declaratively ---------------------------------------------------------- *)

Theorem C04_set_cells_spec : forall G (anc : bool) H0 recs M,
  has_dup (map gv_id (g_vars G)) = false ->
  set_tr anc H0 G = Ok (recs, M) ->
  forall s da i h, nth_error (rows G anc) s = Some da -> nth_error (real_haps H0) i = Some h ->
    exists row b0 b1, nth_error M s = Some row /\ nth_error row i = Some (b0, b1)
      /\ (b0 = true <-> strand_prop G anc h (fst (fst da)) (fst (snd da)))
      /\ (b1 = true <-> strand_prop G anc h (snd (fst da)) (snd (snd da))).
Proof. exact set_cells_spec_lemma. Qed.
Print Assumptions C04_set_cells_spec.

(* The order in which a haplotype lists its variants (the order of its V lines in the .hap file,
   which need not be the order of the genotype records) does not matter: the single-haplotype
   transforms give the same column, or the same error, for every permutation of the list. *)
Theorem C04_hap_transform_vline_order_irrelevant : forall G (anc : bool) h h',
  has_dup (map gv_id (g_vars G)) = false ->
  Permutation (h_vars h) (h_vars h') -> h_anc h = h_anc h' ->
  (if anc then hap_transform_anc h G else hap_transform h G)
  = (if anc then hap_transform_anc h' G else hap_transform h' G).
Proof. exact hap_transform_perm. Qed.
Print Assumptions C04_hap_transform_vline_order_irrelevant.

(* content: the two-variant haplotype of the example with its V lines in reverse order of the
   genotype records (its alleles are an ALT of the first and the second ALT of the other record) *)
Example C04_vline_order_example :
  hap_transform (mkh 10 1 10 21 8 [mkhv 4 7; mkhv 1 3] false) G_ex = Ok [(true, false); (false, true)]
  /\ hap_transform (mkh 10 1 10 21 8 [mkhv 1 3; mkhv 4 7] false) G_ex = Ok [(true, false); (false, true)]
  /\ hap_transform_anc (mkh 10 1 10 21 8 [mkhv 4 7; mkhv 1 3] false) G_ex = Ok [(true, false); (false, true)].
Proof. vm_compute. repeat split; reflexivity. Qed.
Print Assumptions C04_vline_order_example.

(* ============================================================================================================
   Added in the strengthening round.  Further vocabulary:
     dup_ids G            two records of the genotype object share an ID
     single_tr / set_tr   the single-haplotype / whole-set transform (plain or ancestry, by the boolean)
     phap, hap_of         a haplotype whose V lines carry their positions; its plain form
     op, apply_op, run_ops  Haplotypes.sort / Haplotype.sort / Haplotypes.subset / Haplotypes.read on one object
     reorder idx t        the genotype file t with its records (and GT / POP columns) in the order idx
     with_haps t H        the input t with the .hap lines H;  same_line: same H line, V lines permuted
     var5, zip_row, unzip_row   C04 records / label rows in the types of C05's model of population_array
   ============================================================================================================ *)

(* -- duplicate genotype IDs: the hypothesis "IDs are distinct" of the theorems above, discharged --------- *)

(* what the transforms return when two records share an ID: ValueError (Genotypes.index), always *)
Theorem C04_dup_ids_rejected : forall G,
  dup_ids G = true ->
  (forall h, hap_transform h G = Err E_Value /\ hap_transform_anc h G = Err E_Value)
  /\ (forall H0, haps_transform H0 G = Err E_Value /\ haps_transform_anc H0 G = Err E_Value).
Proof. exact dup_ids_rejected_lemma. Qed.
Print Assumptions C04_dup_ids_rejected.

(* closed form of the single transforms for EVERY genotype object and haplotype *)
Theorem C04_single_closed_all : forall G (anc : bool) h,
  single_tr anc h G =
    if dup_ids G then Err E_Value
    else if hap_okb G h then Ok (spec_col G anc h) else Err E_Value.
Proof. exact single_tr_closed_all. Qed.
Print Assumptions C04_single_closed_all.

Theorem C04_set_closed_all : forall G (anc : bool) H0,
  let H := real_haps H0 in
  if dup_ids G then set_tr anc H0 G = Err E_Value
  else if forallb (hap_okb G) H then set_tr anc H0 G = Ok (recs_of H, spec_mat G anc H)
  else exists k, set_tr anc H0 G = Err k /\ (forallb (hap_presentb G) H = true -> k = E_Value).
Proof. exact set_tr_closed_all. Qed.
Print Assumptions C04_set_closed_all.

(* "the answer is the same for a single haplotype and for the whole set", without any hypothesis *)
Theorem C04_set_eq_single_all : forall G (anc : bool) H0 recs M,
  set_tr anc H0 G = Ok (recs, M) ->
  recs = recs_of (real_haps H0)
  /\ forall i h, nth_error (real_haps H0) i = Some h -> single_tr anc h G = Ok (column_of M i).
Proof. exact set_eq_single_all. Qed.
Print Assumptions C04_set_eq_single_all.

Theorem C04_vline_order_irrelevant_all : forall G (anc : bool) h h',
  Permutation (h_vars h) (h_vars h') -> h_anc h = h_anc h' ->
  single_tr anc h G = single_tr anc h' G.
Proof. exact single_tr_perm_all. Qed.
Print Assumptions C04_vline_order_irrelevant_all.

(* -- operation sequences on ONE Haplotypes object ------------------------------------------------------------ *)

(* sorted() with Variant.__lt__ / Haplotype.__lt__ (stable insertion) only permutes *)
Theorem C04_sort_by_permutes : forall (A : Type) (lt : A -> A -> bool) l, Permutation l (sort_by lt l).
Proof. exact @sort_by_perm. Qed.
Print Assumptions C04_sort_by_permutes.

(* After ANY history of sort / Haplotype.sort / subset / re-read, every haplotype of the collection gets from
   the single-haplotype transform exactly the answer of the file's haplotype with that H line, and has the same
   specification column (= its column in the whole-set answer, C04_set_closed_all): nothing may depend on an
   earlier call.  For every genotype object and both ancestry modes. *)
Theorem C04_history_irrelevant : forall file ops p,
  In p (run_ops file file ops) ->
  exists p0, In p0 file
    /\ h_id (hap_of p) = h_id (hap_of p0) /\ h_chrom (hap_of p) = h_chrom (hap_of p0)
    /\ h_start (hap_of p) = h_start (hap_of p0)
    /\ forall G (anc : bool),
         single_tr anc (hap_of p) G = single_tr anc (hap_of p0) G
         /\ spec_col G anc (hap_of p) = spec_col G anc (hap_of p0)
         /\ hap_okb G (hap_of p) = hap_okb G (hap_of p0).
Proof. exact history_irrelevant_lemma. Qed.
Print Assumptions C04_history_irrelevant.

Theorem C04_set_after_history : forall file ops G (anc : bool),
  dup_ids G = false ->
  let H := real_haps (map hap_of (run_ops file file ops)) in
  forallb (hap_okb G) H = true ->
  set_tr anc (map hap_of (run_ops file file ops)) G = Ok (recs_of H, spec_mat G anc H).
Proof. exact set_after_history_lemma. Qed.
Print Assumptions C04_set_after_history.

Example C04_history_example :
  run_ops [ph_ex; rp_ex] [ph_ex; rp_ex] [OSort]
  = [rp_ex; mkph (mkh 10 1 10 21 8 [] false) [mkpv 10 11 (mkhv 1 3); mkpv 20 21 (mkhv 4 7)]]
  /\ run_ops [ph_ex; rp_ex] [ph_ex; rp_ex] [OSort; OSubset [10; 99]; OReread] = [ph_ex; rp_ex].
Proof. exact history_example_lemma. Qed.
Print Assumptions C04_history_example.

(* soundness of the step checker evaluated after every operation: the observed collection consists of original
   haplotypes, none twice, and the observed answers pass holds_api (C04_holds_api_sound) for them in that order *)
Theorem C04_holds_step_sound : forall c o,
  holds_step c o = true ->
  exists H, map h_id H = so_order o
    /\ NoDup (so_order o)
    /\ (forall h, In h H -> exists p0, In p0 (q_H c) /\ h = hap_of p0)
    /\ holds_api (mka (q_G c) H (q_anc c) (so_single o) (so_set o)) = true.
Proof. exact holds_step_sound_lemma. Qed.
Print Assumptions C04_holds_step_sound.

Theorem C04_holds_seq_sound : forall c,
  snd (check_seq c) = true ->
  Forall (fun s : op * sobs => holds_step c (snd s) = true) (q_steps c).
Proof. exact holds_seq_sound_lemma. Qed.
Print Assumptions C04_holds_seq_sound.

(* soundness of the cross-run checker: the run passes holds_file and its answer equals every answer of the other
   runs on the same data (POP fields vs .bp file, VCF vs PGEN) *)
Theorem C04_holds_filex_sound : forall c,
  holds_filex c = true ->
  holds_file (x_case c) = true
  /\ forall out out', f_obs (x_case c) = Ok out -> In (Ok out') (x_peers c) -> out = out'.
Proof. exact holds_filex_sound_lemma. Qed.
Print Assumptions C04_holds_filex_sound.

(* -- the .bp loading, closed with C05's model of Breakpoints.population_array ------------------------------- *)

(* for EVERY list of records (any order; chromosomes interleaved or not) C05's population_array - chromosome
   loop, boolean mask, searchsorted, scatter - on the .bp table returns the model's label matrix; errors included *)
Theorem C04_bp_matrix_is_population_array : forall bp samples vs sm vm,
  NoDup samples ->
  C05_Model.population_array bp (map var5 vs) (Some samples)
  = rmap (map zip_row) (ancestry_matrix false (BpFile bp) sm vm samples vs).
Proof. exact bp_matrix_is_population_array_lemma. Qed.
Print Assumptions C04_bp_matrix_is_population_array.

Theorem C04_bp_matrix_from_population_array : forall bp samples vs sm vm arr,
  NoDup samples ->
  C05_Model.population_array bp (map var5 vs) (Some samples) = Ok arr ->
  ancestry_matrix false (BpFile bp) sm vm samples vs = Ok (map unzip_row arr).
Proof. exact bp_matrix_from_population_array_lemma. Qed.
Print Assumptions C04_bp_matrix_from_population_array.

(* C04_pop_bp_same composed with it: POP fields that hold population_array's answer for the file's samples and
   records give the same transform_haps result as the .bp file *)
Theorem C04_pop_bp_closed : forall t bp arr,
  NoDup (t_samples t) ->
  C05_Model.population_array bp (map var5 (t_vars t)) (Some (t_samples t)) = Ok arr ->
  transform_haps (with_anc t (PopField (map unzip_row arr))) = transform_haps (with_anc t (BpFile bp)).
Proof. exact pop_bp_closed_lemma. Qed.
Print Assumptions C04_pop_bp_closed.

(* re-ordering (any re-indexing of) the record list re-orders the columns of the matrix and nothing else *)
Theorem C04_bp_matrix_reorder : forall bp samples vs sm vm sm' vm' m idx,
  ancestry_matrix false (BpFile bp) sm vm samples vs = Ok m ->
  (forall i, In i idx -> (i < length vs)%nat) ->
  ancestry_matrix false (BpFile bp) sm' vm' samples (pick dgv idx vs) = Ok (map (pick_rows idx) m).
Proof. exact bp_matrix_pick_lemma. Qed.
Print Assumptions C04_bp_matrix_reorder.

(* -- the model answers wherever the checker demands an answer ------------------------------------------------ *)

Theorem C04_model_total : forall t,
  wf_file t -> f_wellformed t = true -> transform_haps t = Ok (f_expected t).
Proof. exact model_total_lemma. Qed.
Print Assumptions C04_model_total.

(* -- the order of the records of the genotype file is irrelevant ----------------------------------------------- *)

Theorem C04_expected_gt_order_irrelevant : forall t idx,
  wf_file t -> is_perm idx (length (t_vars t)) -> f_expected (reorder idx t) = f_expected t.
Proof. exact expected_gt_order_irrelevant_lemma. Qed.
Print Assumptions C04_expected_gt_order_irrelevant.

Theorem C04_wf_file_reorder : forall t idx,
  wf_file t -> is_perm idx (length (t_vars t)) -> wf_file (reorder idx t).
Proof. exact wf_file_reorder_lemma. Qed.
Print Assumptions C04_wf_file_reorder.

(* the checker's verdict on ANY observed output is the same for every order of the records *)
Theorem C04_holds_file_gt_order_irrelevant : forall t idx o w,
  wf_file t -> is_perm idx (length (t_vars t)) ->
  holds_file (mkf (reorder idx t) o w) = holds_file (mkf t o w).
Proof. exact holds_file_gt_order_irrelevant_lemma. Qed.
Print Assumptions C04_holds_file_gt_order_irrelevant.

(* the model: the same result for every permutation of the genotype file's records *)
Theorem C04_transform_haps_gt_order_irrelevant : forall t idx,
  wf_file t -> f_wellformed t = true -> is_perm idx (length (t_vars t)) ->
  transform_haps (reorder idx t) = transform_haps t.
Proof. exact transform_haps_gt_order_total_lemma. Qed.
Print Assumptions C04_transform_haps_gt_order_irrelevant.

(* -- the layout of the .hap file is irrelevant (up to the order of the output records) -------------------------- *)

Theorem C04_expected_vline_order_irrelevant : forall t H H',
  Forall2 same_line H H' -> f_expected (with_haps t H) = f_expected (with_haps t H').
Proof. exact expected_vline_order_irrelevant_lemma. Qed.
Print Assumptions C04_expected_vline_order_irrelevant.

Theorem C04_transform_haps_vline_order_irrelevant : forall t H H',
  Forall2 same_line H H' -> wf_file (with_haps t H) -> f_wellformed (with_haps t H) = true ->
  transform_haps (with_haps t H') = transform_haps (with_haps t H).
Proof. exact transform_haps_vline_order_total_lemma. Qed.
Print Assumptions C04_transform_haps_vline_order_irrelevant.

(* each output column (record and cells) is a function of its own H line and the genotypes - f_column t h does not
   mention the other lines - and the columns are those of the kept H lines in the order of the H lines: moving an
   H line moves its column, nothing else changes *)
Theorem C04_transform_haps_columnwise : forall t H,
  wf_file (with_haps t H) -> f_wellformed (with_haps t H) = true ->
  let cols := map (f_column t) (filter (f_keep t) H) in
  transform_haps (with_haps t H)
  = Ok (map fst cols, map fst (f_rows t),
        map (fun k => map (fun c : (Z * Z * Z) * list (bool * bool) => nth k (snd c) (false, false)) cols)
            (seq 0 (length (f_rows t)))).
Proof. exact transform_haps_columnwise_lemma. Qed.
Print Assumptions C04_transform_haps_columnwise.

(* the hypotheses are satisfiable: two chromosomes interleaved in the genotype file, equal coordinates on both,
   different ancestry there; the .bp run, the re-ordered file, C05's population_array and the POP-field run *)
Example C04_interleaved_example :
  wf_file t_inter /\ f_wellformed t_inter = true
  /\ is_perm [2; 0; 3; 1]%nat (length (t_vars t_inter))
  /\ transform_haps t_inter
     = Ok ([(70, 1, 100); (71, 2, 100); (72, 2, 100)], [1; 2],
           [[(true, false); (true, false); (false, false)]; [(false, false); (false, false); (true, false)]])
  /\ transform_haps (reorder [2; 0; 3; 1]%nat t_inter) = transform_haps t_inter
  /\ C05_Model.population_array bp_inter (map var5 (t_vars t_inter)) (Some (t_samples t_inter))
     = Ok (map zip_row pop_inter)
  /\ transform_haps (with_anc t_inter (PopField pop_inter)) = transform_haps t_inter.
Proof. exact interleaved_example_lemma. Qed.
Print Assumptions C04_interleaved_example.

(* ============================================================================================================
   Second strengthening round: everything `haptools transform` takes.  Further vocabulary (C04_ModelOpt / C04_CheckOpt):
     textra                 the calls written unphased, --discard-missing, --maf (given or not), --chunk-size
     transform_haps_o rare e t   transform_haps with check_missing / check_phase before it, the np.uint8 limit of
                            the ancestry codes (256 labels) and the --maf filter after it; [rare k n] = "k ones among
                            n samples is rarer than the threshold" (any test; IEEE doubles in the correspondence)
     restrict m t           the input with the file samples selected by the mask m;  dmask t: samples without a
                            missing call among the loaded records;  surviving e t: what transform_haps works on
     o_phased e t           phased calls, complete calls unless --discard-missing
     o_domain e t           o_phased and <= 256 labels (there the run must answer)
     omask t m              the mask m read over the requested samples (the rows of f_expected)
     holds_o mk md          the checker; mk / md k n = clearly not rarer / clearly rarer than the threshold
   ============================================================================================================ *)

(* without options, missing calls and with <= 256 labels it IS transform_haps: all theorems above carry over *)
Theorem C04_opts_default : forall rare t c,
  pop_overflow t = false -> bp_overflow t = false -> any_missing t = false ->
  transform_haps_o rare (mke [] false false c) t = transform_haps t.
Proof. exact opt_default_lemma. Qed.
Print Assumptions C04_opts_default.

(* --chunk-size changes nothing *)
Theorem C04_opts_chunk_irrelevant : forall rare u d m c c' t,
  transform_haps_o rare (mke u d m c) t = transform_haps_o rare (mke u d m c') t.
Proof. exact opt_chunk_irrelevant_lemma. Qed.
Print Assumptions C04_opts_chunk_irrelevant.

(* "never guessed": an answer is only given when no loaded call is missing (or --discard-missing), no loaded
   heterozygous call is unphased, and the labels fit the code width - otherwise the run fails *)
Theorem C04_opts_answer_only_on_domain : forall rare e t out,
  transform_haps_o rare e t = Ok out -> o_domain e t = true.
Proof. exact opt_ok_domain_lemma. Qed.
Print Assumptions C04_opts_answer_only_on_domain.

(* the specification of the input restricted to some samples = those samples' rows of the specification of the
   whole input: discarding a sample changes no other sample's cells and no record *)
Theorem C04_expected_restrict : forall m t,
  f_expected (restrict m t)
  = let '(r, s, M) := f_expected t in (r, keep (omask t m) s, keep (omask t m) M).
Proof. exact expected_restrict_lemma. Qed.
Print Assumptions C04_expected_restrict.

Theorem C04_omask_is_loaded_mask : forall t m,
  length (t_data t) = length (t_samples t) -> length (pop_rows t) = length (t_samples t) ->
  omask t m = keep (t_sm t) m.
Proof. exact omask_loaded. Qed.
Print Assumptions C04_omask_is_loaded_mask.

(* on the domain and a well-formed surviving input: the file-level specification of the surviving samples,
   filtered by --maf *)
Theorem C04_opts_closed : forall rare e t,
  o_domain e t = true -> wf_file (surviving e t) -> f_wellformed (surviving e t) = true ->
  transform_haps_o rare e t
  = Ok (if e_maf e then maf_filter rare (f_expected (surviving e t)) else f_expected (surviving e t)).
Proof. exact opt_closed_lemma. Qed.
Print Assumptions C04_opts_closed.

(* --maf keeps exactly the haplotypes that are not rare, in order, with their cells; the samples stay *)
Theorem C04_maf_filter_spec : forall rare recs ss M,
  exists km, length km = length recs
    /\ maf_filter rare (recs, ss, M) = (keep km recs, ss, map (keep km) M)
    /\ forall i, (i < length recs)%nat -> nth i km false = negb (rare (col_count M i) (lenZ M)).
Proof. exact maf_filter_spec_lemma. Qed.
Print Assumptions C04_maf_filter_spec.

Theorem C04_maf_filter_none_rare : forall rare recs ss M,
  (forall i, (i < length recs)%nat -> rare (col_count M i) (lenZ M) = false) ->
  Forall (fun row => length row = length recs) M ->
  maf_filter rare (recs, ss, M) = (recs, ss, M).
Proof. exact maf_filter_none_rare_lemma. Qed.
Print Assumptions C04_maf_filter_none_rare.

(* soundness of the checker evaluated on the implementation's output *)
Theorem C04_holds_o_sound : forall mk md c,
  holds_o mk md c = true ->
  match oc_obs c with
  | Ok (recs, ss, M) =>
      o_phased (oc_e c) (oc_in c) = true ->
      let '(xr, xs, xM) := f_expected (oc_in c) in
      exists sm hm,
        length sm = length xs /\ length hm = length xr
        /\ ss = keep sm xs /\ recs = keep hm xr /\ M = map (keep hm) (keep sm xM)
        /\ (e_discard (oc_e c) = false -> ss = xs)
        /\ (e_maf (oc_e c) = false -> recs = xr)
        /\ (forall i r, nth_error (f_rows (oc_in c)) i = Some r -> row_complete (fst (snd r)) = true ->
              nth i sm false = true)
        /\ (e_maf (oc_e c) = true -> forall i, (i < length xr)%nat ->
              let k := col_count (keep sm xM) i in
              let n := lenZ (keep sm xM) in
              (mk k n = true -> nth i hm false = true) /\ (md k n = true -> nth i hm false = false))
        /\ (f_omitted (oc_in c) = true -> oc_warned c = true)
  | Err k => k = E_Unobserved \/ o_domain (oc_e c) (oc_in c) = false
             \/ f_wellformed (surviving (oc_e c) (oc_in c)) = false
  end.
Proof. exact holds_o_sound_lemma. Qed.
Print Assumptions C04_holds_o_sound.

(* the cross-run clause: the run's answer equals every answer of the other runs on the same data *)
Theorem C04_peers_agree_sound : forall o peers,
  peers_agree o peers = true -> forall out out', o = Ok out -> In (Ok out') peers -> out = out'.
Proof. exact peers_agree_sound_lemma. Qed.
Print Assumptions C04_peers_agree_sound.

(* the whole checker of the file relation (q = the exact value of the --maf threshold; the case's float is only
   converted to q): holds_o with the margins below, and equal answers of all runs on the same data *)
Theorem C04_holds_fileq_sound : forall q k peers,
  holds_fileq q k peers = true ->
  holds_o (keepQ q) (dropQ q) k = true
  /\ (o_phased (oc_e k) (oc_in k) = true ->
      forall out out', oc_obs k = Ok out -> In (Ok out') peers -> out = out').
Proof. exact holds_fileq_sound_lemma. Qed.
Print Assumptions C04_holds_fileq_sound.

(* the margins of the --maf clause (q = the exact value of the threshold): at least 1e-9 above / below; they never
   contradict each other *)
Theorem C04_maf_margins_meaning : forall thr k n,
  (keepQ thr k n = true -> exists q, thr = Some q /\ 0 < n /\ (q + epsQ <= mafQ k n)%Q)
  /\ (dropQ thr k n = true -> exists q, thr = Some q /\ 0 < n /\ (mafQ k n + epsQ <= q)%Q).
Proof. exact margins_meaning_lemma. Qed.
Print Assumptions C04_maf_margins_meaning.

Theorem C04_maf_margins_exclusive : forall thr k n, keepQ thr k n = true -> dropQ thr k n = true -> False.
Proof. exact margins_exclusive_lemma. Qed.
Print Assumptions C04_maf_margins_exclusive.

(* the hypotheses are satisfiable; what is refused; what the checker rejects *)
Example C04_opts_example :
  wf_file (surviving e_o t_o) /\ o_domain e_o t_o = true /\ f_wellformed (surviving e_o t_o) = true
  /\ transform_haps_o rare_half e_o t_o = Ok out_o
  /\ transform_haps_o rare_half (mke [] true false None) t_o
     = Ok ([(70, 1, 100); (71, 1, 100); (72, 1, 200)], [1; 3],
           [[(true, false); (true, false); (false, true)]; [(true, true); (true, false); (false, false)]])
  /\ transform_haps_o rare_half (mke [] false true None) t_o = Err E_Value
  /\ transform_haps_o rare_half (mke [[false; true]] true true None) t_o = Err E_Value
  /\ holds_o (fun k n => negb (rare_half k n)) rare_half (mkoc t_o e_o (Ok out_o) false) = true
  /\ holds_o (fun k n => negb (rare_half k n)) rare_half
       (mkoc t_o e_o (Ok ([(71, 1, 100)], [1], [[(true, false)]])) false) = false
  /\ holds_o (fun k n => negb (rare_half k n)) rare_half
       (mkoc t_o e_o (Ok ([(71, 1, 100)], [1; 3], [[(true, false)]; [(true, true)]])) false) = false
  /\ holds_o (fun k n => negb (rare_half k n)) rare_half
       (mkoc t_o e_o
             (Ok ([(70, 1, 100); (71, 1, 100)], [1; 3], [[(true, false); (true, false)]; [(true, true); (true, false)]]))
             false) = false.
Proof. exact opt_example_lemma. Qed.
Print Assumptions C04_opts_example.

(* the np.uint8 ancestry codes: 256 labels are answered, the 257th is refused; C04_Model alone has no width *)
Example C04_label_capacity_example :
  length (pop_labels (wide_t 256)) = 256%nat
  /\ transform_haps_o rare_half e_none (wide_t 256) = Ok ([(7, 1, 10)], [1], [[(false, false)]])
  /\ length (pop_labels (wide_t 257)) = 257%nat
  /\ transform_haps_o rare_half e_none (wide_t 257) = Err E_Overflow
  /\ transform_haps (wide_t 257) = Ok ([(7, 1, 10)], [1], [[(false, false)]]).
Proof. exact label_capacity_example_lemma. Qed.
Print Assumptions C04_label_capacity_example.

(* a haplotype without variants (outside the quantifier "1..many variants") matches vacuously in the specification,
   whatever its label *)
Theorem C04_no_variants_vacuous : forall G anc h d a, h_vars h = [] -> spec_strand G anc h d a = true.
Proof. exact no_variants_vacuous_lemma. Qed.
Print Assumptions C04_no_variants_vacuous.

(* what the recorder compares (agree): model_geno e t = the genotype object and the haplotype collection at the call
   hp.transform(gt, hp_gt).  The answer of transform_haps is the set-wise transform (C04_set_closed_all) of exactly
   these, with the samples attached and --maf applied: the loaded genotypes are tied to the result *)
Theorem C04_geno_is_what_is_transformed : forall rare e t G H,
  model_geno e t = Some (G, H) ->
  transform_haps_o rare e t
  = match set_tr (uses_anc t) H G with
    | Err k => Err k
    | Ok (recs, M) =>
        Ok (if e_maf e then maf_filter rare (recs, g_samples G, M) else (recs, g_samples G, M))
    end.
Proof. exact geno_transformed_lemma. Qed.
Print Assumptions C04_geno_is_what_is_transformed.

(* whatever the model answers passes the checker, for every MAF test that respects the margins (distinct sample names
   and distinct output records; C04_opts_example is an instance) *)
Theorem C04_model_passes_holds_o : forall rare mk md e t out,
  (forall k n, mk k n = true -> rare k n = false) ->
  (forall k n, md k n = true -> rare k n = true) ->
  wf_file t -> NoDup (t_samples t) -> NoDup (recs_of (f_expected_haps t)) ->
  wf_file (surviving e t) -> f_wellformed (surviving e t) = true ->
  transform_haps_o rare e t = Ok out ->
  holds_o mk md (mkoc t e (Ok out) (warns_missing t)) = true.
Proof. exact model_passes_holds_o_lemma. Qed.
Print Assumptions C04_model_passes_holds_o.

(* ============================================================================================================
   Third round: below tinput - the lines of the .hap file and the names of the files.  Vocabulary (C04_ModelIO):
     hline                  LH h (an H or R line) | LV k v (a V line naming haplotype k)
     read_lines             the collection loop of Haplotypes.read over the lines in FILE order (dict assignment,
                            setdefault/append per haplotype ID, KeyError for V lines that name no H/R line)
     heads / vlines_of k    the H/R lines in order / the V lines naming k in order
     bp_path_of             transform_haps' derivation of the breakpoints path from the genotypes path with pathlib's
                            suffix / with_suffix, over code points; resolve_source: the ancestry source it then uses
   ============================================================================================================ *)

(* the loop = its closed form, for every list of lines (duplicate IDs, V lines without an H line included) *)
Theorem C04_read_lines_spec : forall l, read_lines l = read_spec l.
Proof. exact read_lines_spec_lemma. Qed.
Print Assumptions C04_read_lines_spec.

(* the layout of the file is irrelevant: only the sequence of H/R lines and, per haplotype ID, the sequence of the V
   lines naming it matter - V lines of different haplotypes interleaved in any way, before or after the H lines *)
Theorem C04_read_lines_layout_irrelevant : forall l l',
  heads l = heads l' -> (forall k, vlines_of k l = vlines_of k l') -> read_lines l = read_lines l'.
Proof. exact read_lines_layout_lemma. Qed.
Print Assumptions C04_read_lines_layout_irrelevant.

(* a haplotype list with distinct IDs, written in ANY layout that keeps those sequences, reads back as that list -
   every haplotype with ALL its V lines (none dropped, whichever runs they come in) *)
Theorem C04_read_lines_any_layout : forall H l,
  NoDup (map h_id H) ->
  heads l = map strip H -> (forall h, In h H -> vlines_of (h_id h) l = h_vars h) ->
  (forall k, ~ In k (map h_id H) -> vlines_of k l = []) ->
  read_lines l = Ok H.
Proof. exact read_lines_any_layout_lemma. Qed.
Print Assumptions C04_read_lines_any_layout.

(* the hypotheses are satisfiable (the canonical layout), and instances: V lines round-robin over two haplotypes;
   V lines before, between and after the H/R lines; a V line naming no haplotype -> KeyError *)
Theorem C04_read_lines_canonical : forall H, NoDup (map h_id H) -> read_lines (lines_HV H) = Ok H.
Proof. exact read_lines_HV_lemma. Qed.
Print Assumptions C04_read_lines_canonical.

Example C04_read_lines_example :
  NoDup (map h_id [ex_h0; ex_r; ex_h1])
  /\ read_lines [LH (strip ex_h0); LH ex_r; LH (strip ex_h1);
                 LV 1 (mkhv 50 3); LV 2 (mkhv 50 2); LV 1 (mkhv 51 4); LV 2 (mkhv 51 4)] = Ok [ex_h0; ex_r; ex_h1]
  /\ read_lines [LV 2 (mkhv 50 2); LV 1 (mkhv 50 3); LH (strip ex_h0); LV 2 (mkhv 51 4); LH ex_r; LH (strip ex_h1);
                 LV 1 (mkhv 51 4)] = Ok [ex_h0; ex_r; ex_h1]
  /\ read_lines [LH (strip ex_h0); LV 9 (mkhv 50 3)] = Err E_Key.
Proof. exact read_lines_example. Qed.
Print Assumptions C04_read_lines_example.

(* the breakpoints file of <dir><stem>.<ext> and of <dir><stem>.<ext>.gz is <dir><stem>.bp - for EVERY stem (dots
   included, only '/' excluded), every directory part (dots included) and every dot-free extension (vcf, bcf, pgen, VCF, ...):
   exactly one suffix, or one suffix + ".gz", is replaced *)
Theorem C04_bp_path_of_spec : forall d stem ext,
  dir_part d -> stem <> [] -> ~ In c_slash stem ->
  ext <> [] -> ~ In c_dot ext -> ~ In c_slash ext ->
  (ext <> [103; 122] -> bp_path_of (d ++ stem ++ c_dot :: ext) = Ok (d ++ stem ++ s_bp))
  /\ bp_path_of (d ++ stem ++ c_dot :: ext ++ s_gz) = Ok (d ++ stem ++ s_bp).
Proof. exact bp_path_spec_lemma. Qed.
Print Assumptions C04_bp_path_of_spec.

(* "d.v1/cohort.chr1.vcf.gz" -> "d.v1/cohort.chr1.bp", "sim.v2.pgen" -> "sim.v2.bp", ".hidden.vcf" -> ".hidden.bp",
   "x.vcf.vcf.gz" -> "x.vcf.bp", "a.b/c.d/g.bcf" -> "a.b/c.d/g.bp"; recorded: "x.VCF.GZ" -> "x.VCF.bp" (an upper-case
   .GZ is not recognised), ".vcf" -> ".vcf.bp" (a leading dot starts no suffix), "d/" has no name *)
Example C04_bp_path_examples :
  bp_path_of [100;46;118;49;47;99;111;104;111;114;116;46;99;104;114;49;46;118;99;102;46;103;122]
    = Ok [100;46;118;49;47;99;111;104;111;114;116;46;99;104;114;49;46;98;112]
  /\ bp_path_of [115;105;109;46;118;50;46;112;103;101;110] = Ok [115;105;109;46;118;50;46;98;112]
  /\ bp_path_of [46;104;105;100;100;101;110;46;118;99;102] = Ok [46;104;105;100;100;101;110;46;98;112]
  /\ bp_path_of [120;46;118;99;102;46;118;99;102;46;103;122] = Ok [120;46;118;99;102;46;98;112]
  /\ bp_path_of [97;46;98;47;99;46;100;47;103;46;98;99;102] = Ok [97;46;98;47;99;46;100;47;103;46;98;112]
  /\ bp_path_of [120;46;86;67;70;46;71;90] = Ok [120;46;86;67;70;46;98;112]
  /\ bp_path_of [46;118;99;102] = Ok [46;118;99;102;46;98;112]
  /\ bp_path_of [100;47] = Err E_Value
  /\ is_pgen [115;105;109;46;118;50;46;112;103;101;110] = true
  /\ is_pgen [83;46;112;103;101;110;46;118;99;102;46;103;122] = false.
Proof. exact bp_path_examples. Qed.
Print Assumptions C04_bp_path_examples.

(* with --ancestry the source is the .bp of that name when it exists, else the POP fields (VCF/BCF) or a refusal (PGEN);
   a .bp under ANY other name - another data set's, a stale one - changes nothing *)
Theorem C04_resolve_source_spec : forall gt p files,
  bp_path_of gt = Ok p ->
  resolve_source false gt files = SNone
  /\ (forall t, file_tag p files = Some t -> resolve_source true gt files = SBp t)
  /\ (file_tag p files = None ->
      resolve_source true gt files = if is_pgen gt then SFail E_Value else SPop).
Proof. exact resolve_source_spec_lemma. Qed.
Print Assumptions C04_resolve_source_spec.

Theorem C04_resolve_decoy_irrelevant : forall anc gt p q t files,
  bp_path_of gt = Ok p -> q <> p ->
  resolve_source anc gt ((q, t) :: files) = resolve_source anc gt files.
Proof. exact resolve_decoy_lemma. Qed.
Print Assumptions C04_resolve_decoy_irrelevant.

(* the checker of the file relation: holds is C04_CheckOpt's, unchanged (check_filen c = (agree_o && io_agrees c,
   holds_fileo): C04_holds_fileq_sound applies as before); the added agree clause, float-free, means: every .bp path
   the run touched is bp_path_of of the genotypes path, the logical input's ancestry source is the resolved one
   (POP fields only when no .bp of the derived name exists; a .bp only the one named after the genotypes), and
   the lines as written read back as the logical input's haplotypes *)
Theorem C04_io_agrees_sound : forall gt anc files seen lines t,
  io_agrees_of gt anc files seen lines t = true ->
  (forall p, In p seen -> bp_path_of gt = Ok p)
  /\ src_agrees (resolve_source anc gt files) (t_anc t) = true
  /\ (lines <> [] -> read_lines lines = Ok (t_haps t)).
Proof. exact io_agrees_sound_lemma. Qed.
Print Assumptions C04_io_agrees_sound.

Theorem C04_src_agrees_meaning : forall s a,
  src_agrees s a = true ->
  match a with
  | NoAnc => s = SNone
  | PopField _ => s = SPop
  | BpFile _ => s = SBp 0
  end.
Proof. exact src_agrees_meaning_lemma. Qed.
Print Assumptions C04_src_agrees_meaning.
