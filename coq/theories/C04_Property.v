(* C04 - property theorems only. *)
From HV Require Import Prelude Tracts C04_Model C04_Check C04_Proofs.
