(* C05 - boolean checkers evaluated by the correspondence run on what
   haptools.data.Breakpoints returned.  [agree] compares with the model of
   C05_Model; [holds] is the property text as a finite check of the observed output
   against the input, written with Tracts.label_at and not with the model
   (soundness lemmas: C05_Proofs). *)
From HV Require Import Prelude Tracts BpText C05_Model.

Definition zz_eqb : Z * Z -> Z * Z -> bool := pair_eqb Z.eqb Z.eqb.
Definition arr_eqb : list (list (Z * Z)) -> list (list (Z * Z)) -> bool := list_eqb (list_eqb zz_eqb).
Definition segs_eqb := list_eqb seg_eqb.
Definition strands_eqb : strands -> strands -> bool := pair_eqb segs_eqb segs_eqb.
Definition table_eqb : table -> table -> bool := list_eqb (pair_eqb Z.eqb strands_eqb).
Definition labels_eqb : list (Z * Z) -> list (Z * Z) -> bool := list_eqb zz_eqb.

Fixpoint ascending (l : list Z) : bool :=
  match l with
  | [] => true
  | a :: r => match r with [] => true | b :: _ => a <=? b end && ascending r
  end.

Fixpoint nodupb (l : list Z) : bool :=
  match l with
  | [] => true
  | x :: r => negb (existsb (Z.eqb x) r) && nodupb r
  end.

(* -------- relation find: Breakpoints._find_blocks -------------------------- *)

Record fcase := mkf { f_ends : list Z; f_pos : list Z; f_obs : res (list Z) }.

(* i is the index of the first end >= p *)
Definition find_ok (ends : list Z) (p i : Z) : bool :=
  match nthZ ends i with
  | Some e => (p <=? e) && forallb (fun e' => e' <? p) (firstn (Z.to_nat i) ends)
  | None => false
  end.

Fixpoint forallb2 {A B} (f : A -> B -> bool) (l1 : list A) (l2 : list B) : bool :=
  match l1, l2 with
  | [], [] => true
  | a :: r, b :: s => f a b && forallb2 f r s
  | _, _ => false
  end.

Definition uncovered (ends : list Z) (p : Z) : bool := forallb (fun e => e <? p) ends.

Definition holds_find (k : fcase) : bool :=
  if ascending (f_ends k) then
    match f_obs k with
    | Ok idx => forallb2 (find_ok (f_ends k)) (f_pos k) idx
    | Err _ => existsb (uncovered (f_ends k)) (f_pos k)
    end
  else true.

Definition model_find (k : fcase) : res (list Z) :=
  match find_blocks (f_ends k) (f_pos k) with
  | Ok idx => Ok (map Z.of_nat idx)
  | Err e => Err e
  end.

Definition check_find (k : fcase) : bool * bool :=
  (res_eqb (list_eqb Z.eqb) (model_find k) (f_obs k), holds_find k).

(* -------- relation lookup: Breakpoints.population_array -------------------- *)

Record lcase := mkl {
  l_tbl : table; l_vs : list variant; l_req : option (list Z);
  l_obs : res (list (list (Z * Z)))
}.

Definition optZ_eqb := opt_eqb Z.eqb.

(* the cell reported for variant v on the two strands is the label of the first
   block on v's chromosome whose end is >= v's position *)
Definition cell_ok (sb : strands) (v : variant) (c : Z * Z) : bool :=
  optZ_eqb (label_at (fst sb) (vchrom v) (vpos v)) (Some (fst c))
  && optZ_eqb (label_at (snd sb) (vchrom v) (vpos v)) (Some (snd c)).

Definition cell_uncovered (sb : strands) (v : variant) : bool :=
  match label_at (fst sb) (vchrom v) (vpos v), label_at (snd sb) (vchrom v) (vpos v) with
  | Some _, Some _ => false
  | _, _ => true
  end.

Definition row_ok (d : table) (vs : list variant) (s : Z) (row : list (Z * Z)) : bool :=
  match zassoc s d with
  | Some sb => forallb2 (cell_ok sb) vs row
  | None => false
  end.

(* a reason for an error: a requested sample the table lacks, or a cell no block covers *)
Definition has_reason (d : table) (vs : list variant) (names : list Z) : bool :=
  existsb (fun s => match zassoc s d with
                    | None => true
                    | Some sb => existsb (cell_uncovered sb) vs
                    end) names.

Definition holds_lookup_gen (d : table) (vs : list variant) (req : option (list Z))
    (obs : res (list (list (Z * Z)))) : bool :=
  let names := match req with Some l => l | None => map fst d end in
  if nodupb names && nodupb (map fst d) then
    match obs with
    | Ok arr => forallb2 (row_ok d vs) names arr
    | Err _ => has_reason d vs names
    end
  else true.

Definition holds_lookup (k : lcase) : bool := holds_lookup_gen (l_tbl k) (l_vs k) (l_req k) (l_obs k).

Definition model_lookup (k : lcase) := population_array (l_tbl k) (l_vs k) (l_req k).

Definition check_lookup (k : lcase) : bool * bool :=
  (res_eqb arr_eqb (model_lookup k) (l_obs k), holds_lookup k).

(* -------- relation codec: encode, query, encode again, recode, recode again -- *)

Record ecase := mke {
  e_tbl : table; e_given : option (list Z); e_vs : list variant; e_req : option (list Z);
  e_enc : res (table * list (Z * Z));       (* data and labels.items() after encode(given) *)
  e_arr : res (list (list (Z * Z)));        (* population_array on the encoded object *)
  e_again : res Z;                          (* a second encode: Err kind (Ok 0 if it returned) *)
  e_rec : res table;                        (* data after recode (labels must be None again) *)
  e_rec_again : res Z                       (* a second recode *)
}.

Definition enc_obs_eqb : table * list (Z * Z) -> table * list (Z * Z) -> bool :=
  pair_eqb table_eqb labels_eqb.

Definition model_codec (k : ecase) :=
  let st0 := mkbp (e_tbl k) None in
  let r1 := encode (e_given k) st0 in
  let st1 := match r1 with Ok s => s | Err _ => st0 end in
  let o_enc := bind r1 (fun s => Ok (bdata s, match blabels s with Some l => l | None => [] end)) in
  let o_arr := population_array (bdata st1) (e_vs k) (e_req k) in
  let o_again := bind (encode (e_given k) st1) (fun _ => Ok 0) in
  let r2 := recode st1 in
  let st2 := match r2 with Ok s => s | Err _ => st1 end in
  let o_rec := bind r2 (fun s => Ok (bdata s)) in
  let o_rec_again := bind (recode st2) (fun _ => Ok 0) in
  (o_enc, o_arr, o_again, o_rec, o_rec_again).

Definition strands_nonempty (d : table) : bool :=
  forallb (fun sb : Z * strands => negb (match fst (snd sb) with [] => true | _ => false end)
                                   && negb (match snd (snd sb) with [] => true | _ => false end)) d.

(* the codec's domain in the property: distinct given labels, every strand has a block *)
Definition codec_domain (k : ecase) : bool :=
  strands_nonempty (e_tbl k) && nodupb (map fst (e_tbl k))
  && match e_given k with Some g => nodupb g | None => true end.

Definition map_pop_strands (f : Z -> Z) (sb : strands) : strands :=
  (map (fun s => set_pop s (f (pop s))) (fst sb), map (fun s => set_pop s (f (pop s))) (snd sb)).

Definition holds_codec (k : ecase) : bool :=
  if codec_domain k then
    (* decoding restores the data *)
    res_eqb table_eqb (e_rec k) (Ok (e_tbl k))
    (* encoded queries return the codes of the same labels: decoding every code of the
       answer with the observed labels dictionary gives an answer correct for the
       original table; an error needs a reason in the original table *)
    && match e_enc k with
       | Err _ => false
       | Ok (_, labels) =>
         nodupb (map snd labels)
         && match e_arr k with
            | Ok arr =>
                forallb (forallb (fun c : Z * Z => existsb (fun kv : Z * Z => snd kv =? fst c) labels
                                                   && existsb (fun kv : Z * Z => snd kv =? snd c) labels)) arr
                && holds_lookup_gen (e_tbl k) (e_vs k) (e_req k)
                     (Ok (map (map (fun c : Z * Z => (label_of labels (fst c), label_of labels (snd c)))) arr))
            | Err e => holds_lookup_gen (e_tbl k) (e_vs k) (e_req k) (Err e)
            end
       end
  else true.

Definition check_codec (k : ecase) : bool * bool :=
  let '(o_enc, o_arr, o_again, o_rec, o_rec_again) := model_codec k in
  (res_eqb enc_obs_eqb o_enc (e_enc k) && res_eqb arr_eqb o_arr (e_arr k)
   && res_eqb Z.eqb o_again (e_again k) && res_eqb table_eqb o_rec (e_rec k)
   && res_eqb Z.eqb o_rec_again (e_rec_again k),
   holds_codec k).

(* -------- text level: codecs as tables recorded from Python/numpy ----------- *)

Definition ptable : Type := list (str * (res Z * res Z)).   (* token -> (as uint32, as float64 bits) *)

Definition tbl_int (t : ptable) (s : str) : res Z :=
  match assoc str_eqb s t with Some (a, _) => a | None => Err E_Unobserved end.
Definition tbl_flt (t : ptable) (s : str) : res Z :=
  match assoc str_eqb s t with Some (_, b) => b | None => Err E_Unobserved end.
Definition tbl_fmt (t : list (Z * str)) (x : Z) : str :=
  match zassoc x t with Some s => s | None => [] end.

Definition cblk_eqb (a b : cblk) : bool :=
  str_eqb (c_pop a) (c_pop b) && str_eqb (c_chrom a) (c_chrom b)
  && (c_bp a =? c_bp b) && (c_cm a =? c_cm b).
Definition ctable_eqb : ctable -> ctable -> bool :=
  list_eqb (pair_eqb str_eqb (pair_eqb (list_eqb cblk_eqb) (list_eqb cblk_eqb))).
Definition lines_eqb : list (list str) -> list (list str) -> bool := list_eqb (list_eqb str_eqb).

(* relation read: Breakpoints.read(samples) on a generated file *)
Record rcase := mkr {
  r_lines : list (list str); r_samples : option (list str); r_ptab : ptable;
  r_obs : res ctable
}.

Definition model_read (k : rcase) : res ctable :=
  bp_read (tbl_int (r_ptab k)) (tbl_flt (r_ptab k)) (r_samples k) (r_lines k).

(* the property says nothing about arbitrary files: this relation ties the reader's
   model to the code (the round trip is judged in relation write) *)
Definition check_read (k : rcase) : bool * bool :=
  (res_eqb ctable_eqb (model_read k) (r_obs k), true).

(* relation write: Breakpoints.write() then Breakpoints.read() of the written file *)
Record wcase := mkw {
  w_tbl : ctable; w_fint : list (Z * str); w_fflt : list (Z * str); w_ptab : ptable;
  w_lines : res (list (list str));     (* the written file, split on newline and tab *)
  w_reread : res ctable                (* Breakpoints.load of the written file *)
}.

Definition model_write (k : wcase) : list (list str) :=
  bp_write (tbl_fmt (w_fint k)) (tbl_fmt (w_fflt k)) (w_tbl k).

Fixpoint nodup_str (l : list str) : bool :=
  match l with
  | [] => true
  | x :: r => negb (existsb (str_eqb x) r) && nodup_str r
  end.

(* the writer's domain: distinct sample names; no name or label starts with '#';
   labels and chromosome names fit the array fields ('U6', 'U10') *)
Definition write_domain (d : ctable) : bool :=
  nodup_str (map fst d)
  && forallb (fun sb : str * (list cblk * list cblk) =>
       negb (first_char_is c_hash (fst sb))
       && forallb (fun b => negb (first_char_is c_hash (c_pop b))
                            && Nat.leb (length (c_pop b)) 6 && Nat.leb (length (c_chrom b)) 10)
                  (fst (snd sb) ++ snd (snd sb))) d.

Definition holds_write (k : wcase) : bool :=
  if write_domain (w_tbl k) then res_eqb ctable_eqb (w_reread k) (Ok (w_tbl k)) else true.

Definition check_write (k : wcase) : bool * bool :=
  (match w_lines k with
   | Ok ls => lines_eqb (model_write k) ls
              && res_eqb ctable_eqb
                   (bp_read (tbl_int (w_ptab k)) (tbl_flt (w_ptab k)) None ls) (w_reread k)
   | Err _ => false
   end,
   holds_write k).
