(* C05 - boolean checkers evaluated by the correspondence run on what
   haptools.data.Breakpoints returned.  [agree] compares with the model of
   C05_Model; [holds] is the property text as a finite check of the observed output
   against the input, written with Tracts.label_at and not with the model
   (soundness lemmas: C05_Proofs). *)
From HV Require Import Prelude Tracts BpText C05_Model.

Definition zz_eqb : Z * Z -> Z * Z -> bool := pair_eqb Z.eqb Z.eqb.
Definition arr_eqb : list (list (Z * Z)) -> list (list (Z * Z)) -> bool := list_eqb (list_eqb zz_eqb).
Definition segs_eqb := list_eqb seg_eqb.
Definition strands_eqb : strands -> strands -> bool := pair_eqb segs_eqb segs_eqb.
Definition table_eqb : table -> table -> bool := list_eqb (pair_eqb Z.eqb strands_eqb).
Definition labels_eqb : list (Z * Z) -> list (Z * Z) -> bool := list_eqb zz_eqb.

Fixpoint ascending (l : list Z) : bool :=
  match l with
  | [] => true
  | a :: r => match r with [] => true | b :: _ => a <=? b end && ascending r
  end.

Fixpoint nodupb (l : list Z) : bool :=
  match l with
  | [] => true
  | x :: r => negb (existsb (Z.eqb x) r) && nodupb r
  end.

(* -------- relation find: Breakpoints._find_blocks -------------------------- *)

(* [step; 2*step; ...; n*step]: compact form of a long ends array (65 537 ends are a term,
   not a literal) *)
Definition arith_list (n step : Z) : list Z :=
  rev_append (fst (Z.iter n (fun li : list Z * Z => (snd li * step :: fst li, snd li + 1)) ([], 1))) [].

Record fcase := mkf { f_ends : list Z; f_pos : list Z; f_obs : res (list Z) }.

(* i is the index of the first end >= p *)
Definition find_ok (ends : list Z) (p i : Z) : bool :=
  match nthZ ends i with
  | Some e => (p <=? e) && forallb (fun e' => e' <? p) (firstn (Z.to_nat i) ends)
  | None => false
  end.

Fixpoint forallb2 {A B} (f : A -> B -> bool) (l1 : list A) (l2 : list B) : bool :=
  match l1, l2 with
  | [], [] => true
  | a :: r, b :: s => f a b && forallb2 f r s
  | _, _ => false
  end.

Definition uncovered (ends : list Z) (p : Z) : bool := forallb (fun e => e <? p) ends.

Definition holds_find (k : fcase) : bool :=
  if ascending (f_ends k) then
    match f_obs k with
    | Ok idx => forallb2 (find_ok (f_ends k)) (f_pos k) idx
    | Err _ => existsb (uncovered (f_ends k)) (f_pos k)
    end
  else true.

Definition model_find (k : fcase) : res (list Z) :=
  match find_blocks_np (f_ends k) (f_pos k) with
  | Ok idx => Ok (map Z.of_nat idx)
  | Err e => Err e
  end.

Definition check_find (k : fcase) : bool * bool :=
  (res_eqb (list_eqb Z.eqb) (model_find k) (f_obs k), holds_find k).

(* -------- relation lookup: Breakpoints.population_array -------------------- *)

Record lcase := mkl {
  l_tbl : table; l_vs : list variant; l_req : option (list Z);
  l_obs : res (list (list (Z * Z)))
}.

Definition optZ_eqb := opt_eqb Z.eqb.

(* the cell reported for variant v on the two strands is the label of the first
   block on v's chromosome whose end is >= v's position *)
Definition cell_ok (sb : strands) (v : variant) (c : Z * Z) : bool :=
  optZ_eqb (label_at (fst sb) (vchrom v) (vpos v)) (Some (fst c))
  && optZ_eqb (label_at (snd sb) (vchrom v) (vpos v)) (Some (snd c)).

Definition cell_uncovered (sb : strands) (v : variant) : bool :=
  match label_at (fst sb) (vchrom v) (vpos v), label_at (snd sb) (vchrom v) (vpos v) with
  | Some _, Some _ => false
  | _, _ => true
  end.

Definition row_ok (d : table) (vs : list variant) (s : Z) (row : list (Z * Z)) : bool :=
  match zassoc s d with
  | Some sb => forallb2 (cell_ok sb) vs row
  | None => false
  end.

(* a reason for an error: a requested sample the table lacks, or a cell no block covers *)
Definition has_reason (d : table) (vs : list variant) (names : list Z) : bool :=
  existsb (fun s => match zassoc s d with
                    | None => true
                    | Some sb => existsb (cell_uncovered sb) vs
                    end) names.

Definition holds_lookup_gen (d : table) (vs : list variant) (req : option (list Z))
    (obs : res (list (list (Z * Z)))) : bool :=
  let names := match req with Some l => l | None => map fst d end in
  if nodupb names && nodupb (map fst d) then
    match obs with
    | Ok arr => forallb2 (row_ok d vs) names arr
    | Err _ => has_reason d vs names
    end
  else true.

(* the documented format: within a strand the block ends of a chromosome are ascending
   (docs/formats/breakpoints.rst: "sorted according to chrom, bp"); np.searchsorted's
   precondition.  Tables outside it are compared with the model only. *)
Definition chrom_ascb (blocks : list seg) : bool :=
  forallb (fun c => ascending (map endc (on_chrom c blocks))) (map chrom blocks).
Definition table_ascb (d : table) : bool :=
  forallb (fun nsb : Z * strands => chrom_ascb (fst (snd nsb)) && chrom_ascb (snd (snd nsb))) d.

Definition holds_lookup (k : lcase) : bool :=
  if table_ascb (l_tbl k) then holds_lookup_gen (l_tbl k) (l_vs k) (l_req k) (l_obs k) else true.

Definition model_lookup (k : lcase) := population_array_np (l_tbl k) (l_vs k) (l_req k).

Definition check_lookup (k : lcase) : bool * bool :=
  (res_eqb arr_eqb (model_lookup k) (l_obs k), holds_lookup k).

(* -------- relation codec: encode, query, encode again, recode, recode again -- *)

Record ecase := mke {
  e_tbl : table; e_given : option (list Z); e_vs : list variant; e_req : option (list Z);
  e_enc : res (table * list (Z * Z));       (* data and labels.items() after encode(given) *)
  e_part : option table;                    (* data left behind by an encode that raised OverflowError *)
  e_arr : res (list (list (Z * Z)));        (* population_array on the encoded object *)
  e_again : res Z;                          (* a second encode: Err kind (Ok 0 if it returned) *)
  e_rec : res table;                        (* data after recode (labels must be None again) *)
  e_rec_again : res Z                       (* a second recode *)
}.

Definition enc_obs_eqb : table * list (Z * Z) -> table * list (Z * Z) -> bool :=
  pair_eqb table_eqb labels_eqb.

(* steps the harness does not run (after an encode that overflowed np.uint8) *)
Definition E_Skip : Z := 98.

Definition model_codec (k : ecase) :=
  let st0 := mkbp (e_tbl k) None in
  let r1 := encode (e_given k) st0 in
  match r1 with
  | Err e =>
    if e =? E_Overflow then
      (* the object is left half encoded (labels None): its data and one query are observed *)
      let part := encode_partial (e_given k) (e_tbl k) in
      (Err e, Some part, population_array_np part (e_vs k) (e_req k), Err E_Skip, Err E_Skip, Err E_Skip)
    else
      (Err e, None, population_array_np (e_tbl k) (e_vs k) (e_req k), Err E_Skip, Err E_Skip, Err E_Skip)
  | Ok st1 =>
    let o_enc := Ok (bdata st1, match blabels st1 with Some l => l | None => [] end) in
    let o_arr := population_array_np (bdata st1) (e_vs k) (e_req k) in
    let o_again := bind (encode (e_given k) st1) (fun _ => Ok 0) in
    let r2 := recode st1 in
    let st2 := match r2 with Ok s => s | Err _ => st1 end in
    let o_rec := bind r2 (fun s => Ok (bdata s)) in
    let o_rec_again := bind (recode st2) (fun _ => Ok 0) in
    (o_enc, None, o_arr, o_again, o_rec, o_rec_again)
  end.

Definition strands_nonempty (d : table) : bool :=
  forallb (fun sb : Z * strands => negb (match fst (snd sb) with [] => true | _ => false end)
                                   && negb (match snd (snd sb) with [] => true | _ => false end)) d.

Definition pops_of (d : table) : list Z :=
  flat_map (fun nsb : Z * strands => map pop (fst (snd nsb)) ++ map pop (snd (snd nsb))) d.

(* the codec's domain in the property: distinct given labels, every strand has a block, block
   ends ascending *)
Definition codec_domain0 (k : ecase) : bool :=
  strands_nonempty (e_tbl k) && nodupb (map fst (e_tbl k))
  && match e_given k with Some g => nodupb g | None => true end
  && table_ascb (e_tbl k).

(* distinct labels, given or present: np.uint8 has codes for 256 of them *)
Definition label_count (k : ecase) : Z :=
  lenZ (dedup (match e_given k with Some g => g | None => [] end ++ pops_of (e_tbl k))).

Definition codec_domain (k : ecase) : bool := codec_domain0 k && (label_count k <=? 256).

Definition map_pop_strands (f : Z -> Z) (sb : strands) : strands :=
  (map (fun s => set_pop s (f (pop s))) (fst sb), map (fun s => set_pop s (f (pop s))) (snd sb)).

Definition holds_codec (k : ecase) : bool :=
  if codec_domain0 k then
    match e_enc k with
    (* beyond 256 labels encode may refuse (it raises OverflowError); it may never refuse
       within them, and whenever it does encode - also beyond - everything below is demanded,
       so that codes wrapping around silently are a violation, not a limit *)
    | Err _ => 256 <? label_count k
    | Ok (_, labels) =>
      (* decoding restores the data *)
      res_eqb table_eqb (e_rec k) (Ok (e_tbl k))
      (* encoded queries return the codes of the same labels: decoding every code of the
         answer with the observed labels dictionary gives an answer correct for the
         original table; an error needs a reason in the original table *)
      && nodupb (map snd labels)
      && match e_arr k with
         | Ok arr =>
             forallb (forallb (fun c : Z * Z => existsb (fun kv : Z * Z => snd kv =? fst c) labels
                                                && existsb (fun kv : Z * Z => snd kv =? snd c) labels)) arr
             && holds_lookup_gen (e_tbl k) (e_vs k) (e_req k)
                  (Ok (map (map (fun c : Z * Z => (label_of labels (fst c), label_of labels (snd c)))) arr))
         | Err e => holds_lookup_gen (e_tbl k) (e_vs k) (e_req k) (Err e)
         end
    end
  else true.

Definition check_codec (k : ecase) : bool * bool :=
  let '(o_enc, o_part, o_arr, o_again, o_rec, o_rec_again) := model_codec k in
  (res_eqb enc_obs_eqb o_enc (e_enc k) && opt_eqb table_eqb o_part (e_part k)
   && res_eqb arr_eqb o_arr (e_arr k)
   && res_eqb Z.eqb o_again (e_again k) && res_eqb table_eqb o_rec (e_rec k)
   && res_eqb Z.eqb o_rec_again (e_rec_again k),
   holds_codec k).

(* -------- text level: codecs as tables recorded from Python/numpy ----------- *)

Definition ptable : Type := list (str * (res Z * res Z)).   (* token -> (as uint32, as float64 bits) *)

Definition tbl_int (t : ptable) (s : str) : res Z :=
  match assoc str_eqb s t with Some (a, _) => a | None => Err E_Unobserved end.
Definition tbl_flt (t : ptable) (s : str) : res Z :=
  match assoc str_eqb s t with Some (_, b) => b | None => Err E_Unobserved end.
Definition tbl_fmt (t : list (Z * str)) (x : Z) : str :=
  match zassoc x t with Some s => s | None => [] end.

Definition cblk_eqb (a b : cblk) : bool :=
  str_eqb (c_pop a) (c_pop b) && str_eqb (c_chrom a) (c_chrom b)
  && (c_bp a =? c_bp b) && (c_cm a =? c_cm b).
Definition ctable_eqb : ctable -> ctable -> bool :=
  list_eqb (pair_eqb str_eqb (pair_eqb (list_eqb cblk_eqb) (list_eqb cblk_eqb))).
Definition lines_eqb : list (list str) -> list (list str) -> bool := list_eqb (list_eqb str_eqb).

(* relation read: Breakpoints.read(samples) on a generated file *)
Record rcase := mkr {
  r_strict : bool;                         (* harness switch STRICT_FIELD_WIDTH *)
  r_lines : list (list str); r_samples : option (list str); r_ptab : ptable;
  r_obs : res ctable
}.

Definition model_read (k : rcase) : res ctable :=
  bp_read (r_strict k) (tbl_int (r_ptab k)) (tbl_flt (r_ptab k)) (r_samples k) (r_lines k).

(* the property says nothing about arbitrary files: this relation ties the reader's
   model to the code (the round trip is judged in relation write) *)
Definition check_read (k : rcase) : bool * bool :=
  (res_eqb ctable_eqb (model_read k) (r_obs k), true).

(* relation write: Breakpoints.write() then Breakpoints.read() of the written file *)
Record wcase := mkw {
  w_strict : bool;
  w_tbl : ctable; w_fint : list (Z * str); w_fflt : list (Z * str); w_ptab : ptable;
  w_lines : res (list (list str));     (* the written file, split on newline and tab *)
  w_reread : res ctable                (* Breakpoints.load of the written file *)
}.

Definition model_write (k : wcase) : list (list str) :=
  bp_write (tbl_fmt (w_fint k)) (tbl_fmt (w_fflt k)) (w_tbl k).

Fixpoint nodup_str (l : list str) : bool :=
  match l with
  | [] => true
  | x :: r => negb (existsb (str_eqb x) r) && nodup_str r
  end.

(* the writer's domain: distinct sample names; no name or label starts with '#';
   labels and chromosome names fit the array fields ('U6', 'U10') *)
Definition write_domain (d : ctable) : bool :=
  nodup_str (map fst d)
  && forallb (fun sb : str * (list cblk * list cblk) =>
       negb (first_char_is c_hash (fst sb))
       && forallb (fun b => negb (first_char_is c_hash (c_pop b))
                            && Nat.leb (length (c_pop b)) 6 && Nat.leb (length (c_chrom b)) 10)
                  (fst (snd sb) ++ snd (snd sb))) d.

Definition holds_write (k : wcase) : bool :=
  if write_domain (w_tbl k) then res_eqb ctable_eqb (w_reread k) (Ok (w_tbl k)) else true.

Definition check_write (k : wcase) : bool * bool :=
  (match w_lines k with
   | Ok ls => lines_eqb (model_write k) ls
              && res_eqb ctable_eqb
                   (bp_read (w_strict k) (tbl_int (w_ptab k)) (tbl_flt (w_ptab k)) None ls) (w_reread k)
   | Err _ => false
   end,
   holds_write k).

(* -------- relation flookup: a file with full-length strings, read and queried ------- *)

Record flcase := mkfl {
  fl_strict : bool;                     (* harness switch STRICT_FIELD_WIDTH *)
  fl_tbl : ctable;                      (* the table the harness wrote: strings of any length, any bp *)
  fl_fint : list (Z * str); fl_fflt : list (Z * str);   (* the tokens it wrote for bp / cM *)
  fl_ptab : ptable;                     (* numpy's conversion of those tokens *)
  fl_qs : list (str * Z);               (* (chromosome, position) as population_array received them *)
  fl_req : option (list str);
  fl_obs : res (list (list (str * str)))
}.

Definition blocks_of (d : ctable) : list cblk :=
  flat_map (fun sb : str * (list cblk * list cblk) => fst (snd sb) ++ snd (snd sb)) d.

(* every string of the case, so that [index_of] is injective on them: those of the table, what
   the reader may store of them, the queries, the request and the observed labels *)
Definition fl_universe (k : flcase) : list str :=
  let bs := blocks_of (fl_tbl k) in
  map fst (fl_tbl k) ++ map c_pop bs ++ map (fun b => firstn 6 (c_pop b)) bs
  ++ map c_chrom bs ++ map (fun b => firstn 10 (c_chrom b)) bs
  ++ map fst (fl_qs k) ++ match fl_req k with Some r => r | None => [] end
  ++ match fl_obs k with
     | Ok arr => flat_map (flat_map (fun c : str * str => [fst c; snd c])) arr
     | Err _ => []
     end.

Definition fl_key (k : flcase) : str -> Z := index_of (fl_universe k).

Definition fl_obsZ (k : flcase) : res (list (list (Z * Z))) :=
  match fl_obs k with
  | Ok arr => Ok (map (map (fun c : str * str => (fl_key k (fst c), fl_key k (snd c)))) arr)
  | Err e => Err e
  end.

Definition model_flookup (k : flcase) : res (list (list (Z * Z))) :=
  file_lookup (fl_strict k) (tbl_int (fl_ptab k)) (tbl_flt (fl_ptab k)) (fl_key k)
    (bp_write (tbl_fmt (fl_fint k)) (tbl_fmt (fl_fflt k)) (fl_tbl k)) (fl_qs k) (fl_req k).

Definition long_chrom (d : ctable) : bool :=
  existsb (fun b => Nat.ltb 10 (length (c_chrom b))) (blocks_of d).

(* the files of the property's quantifier: distinct sample names, nothing starting with '#',
   labels of at most the 6 characters the format stores, positions a uint32 holds, block
   ends ascending; chromosome names of at most 10 characters unless the switch is on *)
Definition fl_domain (k : flcase) : bool :=
  nodup_str (map fst (fl_tbl k))
  && forallb (fun sb : str * (list cblk * list cblk) => negb (first_char_is c_hash (fst sb))) (fl_tbl k)
  && forallb (fun b => negb (first_char_is c_hash (c_pop b)) && Nat.leb (length (c_pop b)) 6
                       && (0 <=? c_bp b) && (c_bp b <=? 4294967295)) (blocks_of (fl_tbl k))
  && (fl_strict k || negb (long_chrom (fl_tbl k)))
  && table_ascb (table_of (fl_key k) (fl_tbl k)).

(* the property on the strings of the file: every reported label is the label of the first
   block of that strand on that chromosome whose end is >= the position; an error needs a
   reason - an unknown sample, a cell no block covers, or a chromosome name the format cannot
   store (a refusal, never a silent truncation) *)
Definition holds_flookup (k : flcase) : bool :=
  if fl_domain k then
    let d := table_of (fl_key k) (fl_tbl k) in
    let vs := map (var_of (fl_key k)) (fl_qs k) in
    let req := option_map (map (fl_key k)) (fl_req k) in
    match fl_obsZ k with
    | Ok arr => holds_lookup_gen d vs req (Ok arr)
    | Err e => holds_lookup_gen d vs req (Err e) || long_chrom (fl_tbl k)
    end
  else true.

Definition check_flookup (k : flcase) : bool * bool :=
  (res_eqb arr_eqb (model_flookup k) (fl_obsZ k), holds_flookup k).
