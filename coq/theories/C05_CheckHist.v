(* C05 - calls that share their argument objects.

   The single-call relations of C05_Check hand fresh arguments to every call, so a reader that
   uses the caller's [samples] set as its work-list (and leaves it empty) answers every one of
   them correctly.  Here
   * the wrappers [lcaseA], [ecaseA], [rcaseA], [flcaseA] carry what the argument objects
     (variants array, samples list / set, labels list) hold AFTER the call(s): [agree] demands
     they are what they were before (the model is pure: it cannot change them);
   * relation hist: ONE samples object, ONE variants array and ONE order object are handed to
     every call of a short history  read f / write g / population_array  over up to three files
     (the harness-written one, a plain and a gzipped one written by Breakpoints.write).
     [agree]: the model of the history (bp_read / bp_write / population_array_np threaded
     through the files) = what every call returned, and every argument object is unchanged
     after every call.  [holds]: the property on the observations - every read returns the
     requested samples of the table that file holds (so a second read returns what the first
     did, and the written subset reads back identical), every lookup reports the covering
     block's label for the samples in the order requested.  [holds] is written with [filter]
     and [label_at], not with the reader's model. *)
From HV Require Import Prelude Tracts BpText C05_Model C05_Check.

Definition variant_eqb (a b : variant) : bool := (vchrom a =? vchrom b) && (vpos a =? vpos b).
Definition zs_eqb : list Z -> list Z -> bool := list_eqb Z.eqb.
Definition strs_eqb : list str -> list str -> bool := list_eqb str_eqb.
Definition qs_eqb : list (str * Z) -> list (str * Z) -> bool := list_eqb (pair_eqb str_eqb Z.eqb).

(* -------- single calls: the arguments after the call ------------------------------- *)

Record lcaseA := mklA {
  la_k : lcase;
  la_vs_after : list variant;           (* the variants array after population_array *)
  la_req_after : option (list Z)        (* the samples list / tuple after it *)
}.
Definition model_lookupA (k : lcaseA) := model_lookup (la_k k).
Definition check_lookupA (k : lcaseA) : bool * bool :=
  let ah := check_lookup (la_k k) in
  (fst ah && list_eqb variant_eqb (l_vs (la_k k)) (la_vs_after k)
   && opt_eqb zs_eqb (l_req (la_k k)) (la_req_after k), snd ah).

Record ecaseA := mkeA {
  ea_k : ecase;
  ea_given_after : option (list Z);     (* the labels list after both encode calls *)
  ea_vs_after : list variant;
  ea_req_after : option (list Z)
}.
Definition model_codecA (k : ecaseA) := model_codec (ea_k k).
Definition check_codecA (k : ecaseA) : bool * bool :=
  let ah := check_codec (ea_k k) in
  (fst ah && opt_eqb zs_eqb (e_given (ea_k k)) (ea_given_after k)
   && list_eqb variant_eqb (e_vs (ea_k k)) (ea_vs_after k)
   && opt_eqb zs_eqb (e_req (ea_k k)) (ea_req_after k), snd ah).

Record rcaseA := mkrA {
  ra_k : rcase;                          (* r_samples: the elements of the set, sorted *)
  ra_samples_after : option (list str);  (* the set after the call(s), sorted *)
  ra_again : option (res ctable)         (* a second read of the file with the same set object *)
}.
Definition model_readA (k : rcaseA) := model_read (ra_k k).
Definition check_readA (k : rcaseA) : bool * bool :=
  let ah := check_read (ra_k k) in
  (fst ah && opt_eqb strs_eqb (r_samples (ra_k k)) (ra_samples_after k)
   && match ra_again k with
      | Some o => res_eqb ctable_eqb (model_read (ra_k k)) o
      | None => true
      end, snd ah).

Record flcaseA := mkflA {
  fla_k : flcase;
  fla_qs_after : list (str * Z);
  fla_req_after : option (list str)
}.
Definition model_flookupA (k : flcaseA) := model_flookup (fla_k k).
Definition check_flookupA (k : flcaseA) : bool * bool :=
  let ah := check_flookup (fla_k k) in
  (fst ah && qs_eqb (fl_qs (fla_k k)) (fla_qs_after k)
   && opt_eqb strs_eqb (fl_req (fla_k k)) (fla_req_after k), snd ah).

(* -------- histories ------------------------------------------------------------------ *)

Inductive hop :=
| HRead (f : Z)        (* Breakpoints(file f).read(samples=S): a new object, the shared S *)
| HWrite (f : Z)       (* the object loaded last: fname = file f; write() *)
| HLook.               (* the object loaded last: population_array(V, samples=order) *)

(* what one call returned, and its argument objects afterwards *)
Inductive hobs :=
| ORead (r : res ctable) (req_after : option (list str))
| OWrite (r : res (list (list str)))
| OLook (r : res (list (list (str * str)))) (qs_after : list (str * Z)) (order_after : option (list str)).

Definition E_NoFile : Z := 15.

Definition fset {V} (f : Z) (v : V) (d : list (Z * V)) : list (Z * V) := dict_set Z.eqb f v d.

Record hstate := mkhs { hs_files : list (Z * list (list str)); hs_cur : option ctable }.

Inductive mobs :=
| MRead (r : res ctable)
| MWrite (r : res (list (list str)))
| MLook (r : res (list (list (Z * Z)))).

Definition restrict (req : option (list str)) (d : ctable) : ctable :=
  filter (fun sb => selected req (fst sb)) d.

Section Hist.
Variable strict : bool.
Variable parse_int parse_flt : str -> res Z.
Variable fmt_int fmt_flt : Z -> str.
Variable key : str -> Z.
Variable req : option (list str).      (* the samples object of every read *)
Variable qs : list (str * Z).          (* the variants array of every lookup *)
Variable order : option (list str).    (* the samples object of every lookup *)

(* the model: pure, so the request of the n-th call is the request of the first *)
Definition hstep (st : hstate) (op : hop) : hstate * mobs :=
  match op with
  | HRead f =>
      match zassoc f (hs_files st) with
      | None => (st, MRead (Err E_NoFile))
      | Some ls =>
          let r := bp_read strict parse_int parse_flt req ls in
          (match r with Ok d => mkhs (hs_files st) (Some d) | Err _ => st end, MRead r)
      end
  | HWrite f =>
      match hs_cur st with
      | None => (st, MWrite (Err E_Unobserved))
      | Some d =>
          let ls := bp_write fmt_int fmt_flt d in
          (mkhs (fset f ls (hs_files st)) (hs_cur st), MWrite (Ok ls))
      end
  | HLook =>
      match hs_cur st with
      | None => (st, MLook (Err E_Unobserved))
      | Some d => (st, MLook (population_array_np (table_of key d) (map (var_of key) qs)
                                                    (option_map (map key) order)))
      end
  end.

Fixpoint hrun (st : hstate) (ops : list hop) : list mobs :=
  match ops with
  | [] => []
  | op :: r => let so := hstep st op in snd so :: hrun (fst so) r
  end.

(* the property on the observations.  Spec state: the TABLE each file holds, the table loaded
   last.  A read of file f must return the requested samples of f's table, in file order; a
   write puts the loaded table into the file; a lookup is judged by holds_lookup_gen. *)
Definition obsZ (r : res (list (list (str * str)))) : res (list (list (Z * Z))) :=
  match r with
  | Ok arr => Ok (map (map (fun c : str * str => (key (fst c), key (snd c)))) arr)
  | Err e => Err e
  end.

Definition look_ok (d : ctable) (r : res (list (list (str * str)))) : bool :=
  holds_lookup_gen (table_of key d) (map (var_of key) qs) (option_map (map key) order) (obsZ r).

Definition sstate : Type := (list (Z * ctable) * option ctable)%type.

Definition sstep (s : sstate) (op : hop) : sstate :=
  match op with
  | HRead f => match zassoc f (fst s) with
               | Some t => (fst s, Some (restrict req t))
               | None => s
               end
  | HWrite f => match snd s with
                | Some d => (fset f d (fst s), snd s)
                | None => s
                end
  | HLook => s
  end.

(* the history is one the spec speaks about: files are read after they exist, written and
   queried after something was loaded (the generator produces only such histories) *)
Definition op_wf (s : sstate) (op : hop) : bool :=
  match op with
  | HRead f => match zassoc f (fst s) with Some _ => true | None => false end
  | HWrite _ | HLook => match snd s with Some _ => true | None => false end
  end.

Fixpoint hist_wf (s : sstate) (ops : list hop) : bool :=
  match ops with
  | [] => true
  | op :: r => op_wf s op && hist_wf (sstep s op) r
  end.

Definition obs_ok (s : sstate) (op : hop) (o : hobs) : bool :=
  match op, o with
  | HRead f, ORead r _ =>
      match zassoc f (fst s) with
      | Some t => res_eqb ctable_eqb r (Ok (restrict req t))
      | None => true
      end
  | HWrite _, OWrite _ => true      (* judged by the read that follows *)
  | HLook, OLook r _ _ =>
      match snd s with
      | Some d => look_ok d r
      | None => true
      end
  | _, _ => true                    (* an observation of another call: the recorder's trouble, agree fails *)
  end.

Fixpoint holds_run (s : sstate) (ops : list hop) (obs : list hobs) : bool :=
  match ops, obs with
  | op :: ops', o :: obs' => if obs_ok s op o then holds_run (sstep s op) ops' obs' else false
  | _, _ => true
  end.
End Hist.

Record hcase := mkh {
  h_strict : bool;
  h_tbl : ctable;                         (* the table the harness wrote as file 0 *)
  h_fint : list (Z * str); h_fflt : list (Z * str);   (* str(np.uint32) / str(np.float64) of its numbers *)
  h_ptab : ptable;                        (* numpy's conversion of those tokens *)
  h_req : option (list str);              (* the samples object of the reads (a set: its elements sorted) *)
  h_qs : list (str * Z);                  (* the variants array as population_array receives it *)
  h_order : option (list str);            (* the samples object of the lookups *)
  h_ops : list hop;
  h_obs : list hobs
}.

Definition h_universe (k : hcase) : list str :=
  let bs := blocks_of (h_tbl k) in
  map fst (h_tbl k) ++ map c_pop bs ++ map (fun b => firstn 6 (c_pop b)) bs
  ++ map c_chrom bs ++ map (fun b => firstn 10 (c_chrom b)) bs
  ++ map fst (h_qs k)
  ++ match h_req k with Some r => r | None => [] end
  ++ match h_order k with Some r => r | None => [] end
  ++ flat_map (fun o => match o with
                        | OLook (Ok arr) _ _ => flat_map (flat_map (fun c : str * str => [fst c; snd c])) arr
                        | _ => []
                        end) (h_obs k).

Definition h_key (k : hcase) : str -> Z := index_of (h_universe k).

Definition h_file0 (k : hcase) : list (list str) :=
  bp_write (tbl_fmt (h_fint k)) (tbl_fmt (h_fflt k)) (h_tbl k).

Definition model_hist (k : hcase) : list mobs :=
  hrun (h_strict k) (tbl_int (h_ptab k)) (tbl_flt (h_ptab k)) (tbl_fmt (h_fint k)) (tbl_fmt (h_fflt k))
       (h_key k) (h_req k) (h_qs k) (h_order k)
       (mkhs [(0, h_file0 k)] None) (h_ops k).

Definition obs_agree (k : hcase) (m : mobs) (o : hobs) : bool :=
  match m, o with
  | MRead r, ORead r' a => res_eqb ctable_eqb r r' && opt_eqb strs_eqb (h_req k) a
  | MWrite r, OWrite r' => res_eqb lines_eqb r r'
  | MLook r, OLook r' qa oa =>
      res_eqb arr_eqb r (obsZ (h_key k) r') && qs_eqb (h_qs k) qa && opt_eqb strs_eqb (h_order k) oa
  | _, _ => false
  end.

(* the histories the property's quantifier covers: a table inside the writer's domain whose
   positions fit uint32 and whose block ends ascend, a history the spec speaks about *)
Definition hist_domain (k : hcase) : bool :=
  write_domain (h_tbl k)
  && forallb (fun b => (0 <=? c_bp b) && (c_bp b <=? 4294967295)) (blocks_of (h_tbl k))
  && table_ascb (table_of (h_key k) (h_tbl k))
  && hist_wf (h_req k) ([(0, h_tbl k)], None) (h_ops k).

Definition holds_hist (k : hcase) : bool :=
  if hist_domain k then
    holds_run (h_key k) (h_req k) (h_qs k) (h_order k) ([(0, h_tbl k)], None) (h_ops k) (h_obs k)
  else true.

Definition check_hist (k : hcase) : bool * bool :=
  (forallb2 (obs_agree k) (model_hist k) (h_obs k), holds_hist k).
