(* C05 - executable model of haptools/data/breakpoints.py:
   Breakpoints._find_blocks, population_array, encode, recode, __iter__/read, write.
   No proofs here.

   Two levels of data:
   * lookup level (population_array / encode / recode): labels, chromosome names and
     sample names are only compared, so they are interned to Z by the harness; a
     block is a [Tracts.seg] (pop, chrom, end bp, cM token).
   * text level (__iter__ / write): a line is the list of its tab-separated tokens,
     a token its list of code points; Python's/numpy's int and float token codecs are
     Section variables. *)
From HV Require Import Prelude Tracts BpText.

Definition E_Value : Z := 1.
Definition E_Index : Z := 2.
Definition E_Key : Z := 3.
Definition E_Type : Z := 4.
Definition E_Unbound : Z := 6.
Definition E_Overflow : Z := 7.

(* ---- _find_blocks --------------------------------------------------------- *)

(* np.searchsorted(ends, p, side='left') on an ascending array: index of the first
   end >= p (length if none) *)
Fixpoint first_ge (es : list Z) (p : Z) : nat :=
  match es with
  | [] => O
  | e :: r => if p <=? e then O else S (first_ge r p)
  end.

Definition find_blocks (ends positions : list Z) : res (list nat) :=
  let idx := map (first_ge ends) positions in
  if existsb (fun i => Nat.leb (length ends) i) idx then Err E_Value else Ok idx.

(* np.searchsorted(arr, k, side='left') exactly as numpy 2.x computes it, for ANY array
   (sorted or not): a stateless, branch-free lower-bound bisection
       base = 0; len = n
       while len > 1: half = len >> 1; if arr[base+half] < k: base += half; len -= half
       return base + (arr[base] < k)                      (0 for an empty array)
   (validated against np.searchsorted on unsorted uint32/int64/float64 arrays, contiguous
   and strided; relation find compares it on every run).  On an ascending array it is
   [first_ge] (theorem np_search_first_ge in C05_ProofsNp). *)
Fixpoint bl_loop (fuel : nat) (arr : list Z) (k : Z) (base len : nat) : nat :=
  match fuel with
  | O => base
  | S f =>
      if Nat.leb len 1 then base else
      let half := Nat.div2 len in
      bl_loop f arr k (if nth (base + half) arr 0 <? k then (base + half)%nat else base) (len - half)
  end.

Definition np_search (arr : list Z) (k : Z) : nat :=
  match arr with
  | [] => O
  | _ => let b := bl_loop (length arr) arr k O (length arr) in
         if nth b arr 0 <? k then S b else b
  end.

(* _find_blocks with numpy's bisection: the faithful model on every input *)
Definition find_blocks_np (ends positions : list Z) : res (list nat) :=
  let idx := map (np_search ends) positions in
  if existsb (fun i => Nat.leb (length ends) i) idx then Err E_Value else Ok idx.

(* ---- population_array ----------------------------------------------------- *)

Record variant := mkvar { vchrom : Z; vpos : Z }.

Definition strands : Type := (list seg * list seg)%type.
Definition table : Type := list (Z * strands).   (* dict sample -> [strand 1, strand 2] *)

Definition zassoc {V} := @assoc Z V Z.eqb.

Fixpoint dedup (l : list Z) : list Z :=
  match l with
  | [] => []
  | x :: r => x :: filter (fun y => negb (y =? x)) (dedup r)
  end.

(* arr[k, mask, t] = vals *)
Fixpoint scatter {A} (mask : list bool) (vals : list A) (row : list (option A)) : list (option A) :=
  match mask, row with
  | true :: m, _ :: r =>
      match vals with
      | v :: vs => Some v :: scatter m vs r
      | [] => None :: scatter m [] r
      end
  | false :: m, x :: r => x :: scatter m vals r
  | _, _ => row
  end.

Definition on_chrom (c : Z) (blocks : list seg) : list seg :=
  filter (fun s => chrom s =? c) blocks.

(* one pass of the body of the chromosome loop for one strand *)
Definition fill_chrom (blocks : list seg) (vs : list variant) (c : Z) (row : list (option Z))
  : res (list (option Z)) :=
  let cb := on_chrom c blocks in
  match cb with
  | [] => Err E_Value                       (* "Chromosome ... is absent in the breakpoints" *)
  | _ :: _ =>
    let mask := map (fun v => vchrom v =? c) vs in
    let positions := map vpos (filter (fun v => vchrom v =? c) vs) in
    bind (find_blocks (map endc cb) positions) (fun idx =>
      Ok (scatter mask (map (fun i => nth i (map pop cb) 0) idx) row))
  end.

Fixpoint fold_chroms (blocks : list seg) (vs : list variant) (cs : list Z) (row : list (option Z))
  : res (list (option Z)) :=
  match cs with
  | [] => Ok row
  | c :: r => bind (fill_chrom blocks vs c row) (fold_chroms blocks vs r)
  end.

(* np.empty cell that was never assigned: None (never happens, see C05_Proofs) *)
Definition cell_get (o : option Z) : Z := match o with Some x => x | None => -1 end.

(* the code's loop nest is chromosome > sample > strand; every exception it can raise
   there is a ValueError, so the nest order is unobservable and the model runs
   sample > strand > chromosome *)
Definition strand_row (blocks : list seg) (vs : list variant) : res (list Z) :=
  bind (fold_chroms blocks vs (dedup (map vchrom vs)) (repeat None (length vs)))
       (fun row => Ok (map cell_get row)).

Fixpoint mapM {A B} (f : A -> res B) (l : list A) : res (list B) :=
  match l with
  | [] => Ok []
  | a :: r => bind (f a) (fun b => bind (mapM f r) (fun bs => Ok (b :: bs)))
  end.

(* data = self.data  |  {samp: self.data[samp] for samp in samples} *)
Definition select (d : table) (req : option (list Z)) : res table :=
  match req with
  | None => Ok d
  | Some names =>
      mapM (fun s => match zassoc s d with Some b => Ok (s, b) | None => Err E_Key end) (dedup names)
  end.

Definition sample_rows (vs : list variant) (sb : Z * strands) : res (list (Z * Z)) :=
  bind (strand_row (fst (snd sb)) vs) (fun r1 =>
  bind (strand_row (snd (snd sb)) vs) (fun r2 => Ok (combine r1 r2))).

Definition population_array (d : table) (vs : list variant) (req : option (list Z))
  : res (list (list (Z * Z))) :=
  bind (select d req) (mapM (sample_rows vs)).

(* the same loop nest with numpy's bisection in place of the linear scan: what the code
   computes on every table, also one whose block ends are not ascending *)
Definition fill_chrom_np (blocks : list seg) (vs : list variant) (c : Z) (row : list (option Z))
  : res (list (option Z)) :=
  let cb := on_chrom c blocks in
  match cb with
  | [] => Err E_Value
  | _ :: _ =>
    let mask := map (fun v => vchrom v =? c) vs in
    let positions := map vpos (filter (fun v => vchrom v =? c) vs) in
    bind (find_blocks_np (map endc cb) positions) (fun idx =>
      Ok (scatter mask (map (fun i => nth i (map pop cb) 0) idx) row))
  end.

Fixpoint fold_chroms_np (blocks : list seg) (vs : list variant) (cs : list Z) (row : list (option Z))
  : res (list (option Z)) :=
  match cs with
  | [] => Ok row
  | c :: r => bind (fill_chrom_np blocks vs c row) (fold_chroms_np blocks vs r)
  end.

Definition strand_row_np (blocks : list seg) (vs : list variant) : res (list Z) :=
  bind (fold_chroms_np blocks vs (dedup (map vchrom vs)) (repeat None (length vs)))
       (fun row => Ok (map cell_get row)).

Definition sample_rows_np (vs : list variant) (sb : Z * strands) : res (list (Z * Z)) :=
  bind (strand_row_np (fst (snd sb)) vs) (fun r1 =>
  bind (strand_row_np (snd (snd sb)) vs) (fun r2 => Ok (combine r1 r2))).

Definition population_array_np (d : table) (vs : list variant) (req : option (list Z))
  : res (list (list (Z * Z))) :=
  bind (select d req) (mapM (sample_rows_np vs)).

(* ---- encode / recode ------------------------------------------------------ *)

Record bpstate := mkbp { bdata : table; blabels : option (list (Z * Z)) }.

Definition set_pop (s : seg) (p : Z) : seg := mkseg p (chrom s) (endc s) (cm s).

(* running state of encode: labels dict (label -> code, insertion order) and seen set *)
Definition lstate : Type := (list (Z * Z) * list Z)%type.

Definition enc_block (st : lstate) (s : seg) : seg * lstate :=
  let '(labels, seen) := st in
  let labels' := match zassoc (pop s) labels with
                 | Some _ => labels
                 | None => labels ++ [(pop s, lenZ labels)]
                 end in
  let code := match zassoc (pop s) labels' with Some c => c | None => -1 end in
  (set_pop s code, (labels', pop s :: seen)).

Fixpoint enc_blocks (st : lstate) (l : list seg) : list seg * lstate :=
  match l with
  | [] => ([], st)
  | s :: r => let '(s', st1) := enc_block st s in
              let '(r', st2) := enc_blocks st1 r in (s' :: r', st2)
  end.

Fixpoint enc_table (st : lstate) (d : table) : table * lstate :=
  match d with
  | [] => ([], st)
  | (name, (b1, b2)) :: r =>
      let '(b1', st1) := enc_blocks st b1 in
      let '(b2', st2) := enc_blocks st1 b2 in
      let '(r', st3) := enc_table st2 r in
      ((name, (b1', b2')) :: r', st3)
  end.

(* {pop: i for i, pop in enumerate(labels)} *)
Fixpoint enum_dict (i : Z) (l : list Z) (d : list (Z * Z)) : list (Z * Z) :=
  match l with
  | [] => d
  | x :: r => enum_dict (i + 1) r (dict_set Z.eqb x i d)
  end.

(* every code of an encoded strand / table fits np.uint8 *)
Definition fits8 (l : list seg) : bool := forallb (fun s => pop s <=? 255) l.
Definition codes_fit (d : table) : bool :=
  forallb (fun nsb : Z * strands => fits8 (fst (snd nsb)) && fits8 (snd (snd nsb))) d.

Definition encode (given : option (list Z)) (st : bpstate) : res bpstate :=
  match blabels st with
  | Some _ => Err E_Value                   (* "The data has already been encoded." *)
  | None =>
    let l0 := match given with None => [] | Some g => enum_dict 0 g [] end in
    let '(d', (labels, seen)) := enc_table (l0, []) (bdata st) in
    (* ints = np.zeros(.., dtype=[("pop", np.uint8)]); ints[i] = labels[pop]: numpy 2 raises
       OverflowError for a Python int > 255 ("out of bounds for uint8"), it does not wrap *)
    if codes_fit d' then
      Ok (mkbp d' (Some (filter (fun kv => existsb (Z.eqb (fst kv)) seen) labels)))
    else Err E_Overflow
  end.

(* self.data after an encode that raised OverflowError: the strands before the one holding
   the first code > 255 have been replaced by their encoded arrays, that strand and the
   later ones are untouched; self.labels is still None *)
Fixpoint enc_partial (st : lstate) (d : table) : table :=
  match d with
  | [] => []
  | (name, (b1, b2)) :: r =>
      let '(b1', st1) := enc_blocks st b1 in
      if negb (fits8 b1') then d else
      let '(b2', st2) := enc_blocks st1 b2 in
      if negb (fits8 b2') then (name, (b1', b2)) :: r else
      (name, (b1', b2')) :: enc_partial st2 r
  end.

Definition encode_partial (given : option (list Z)) (d : table) : table :=
  enc_partial (match given with None => [] | Some g => enum_dict 0 g [] end, []) d.

(* {v: k for k, v in labels.items()}.get : the last entry with that code wins;
   a code without a label gives Python's None, which astype(str) renders 'None'
   (interned as -1 by the harness) *)
Definition label_of (labels : list (Z * Z)) (code : Z) : Z :=
  match find (fun kv => snd kv =? code) (rev labels) with
  | Some kv => fst kv
  | None => -1
  end.

Definition rec_blocks (labels : list (Z * Z)) (l : list seg) : res (list seg) :=
  match l with
  | [] => Err E_Value                       (* np.vectorize refuses size-0 input *)
  | _ => Ok (map (fun s => set_pop s (label_of labels (pop s))) l)
  end.

Definition recode (st : bpstate) : res bpstate :=
  match blabels st with
  | None => Err E_Value                     (* "The data has already been recoded." *)
  | Some labels =>
    bind (mapM (fun sb : Z * strands =>
                  bind (rec_blocks labels (fst (snd sb))) (fun b1 =>
                  bind (rec_blocks labels (snd (snd sb))) (fun b2 => Ok (fst sb, (b1, b2)))))
               (bdata st))
         (fun d' => Ok (mkbp d' None))
  end.

(* ---- __iter__ / read / write over token lines ----------------------------- *)

Record cblk := mkcb { c_pop : str; c_chrom : str; c_bp : Z; c_cm : Z }.
  (* c_cm: the float64 as its IEEE-754 bit pattern *)
Definition rblk : Type := (str * str * str * str)%type.   (* tuple(line) *)
Definition ctable : Type := list (str * (list cblk * list cblk)).

Inductive strand_st := SUnbound | SInt (second : bool) | SStr.

Record ist := mkist {
  i_cur : option (str * list rblk * list rblk);  (* samp with blocks = [[..],[..]]; None: samp is None, blocks = {} *)
  i_strand : strand_st;                          (* the Python variable strand_num *)
  i_out : ctable                                 (* what has been yielded so far *)
}.

Section Text.
(* [strict] = the reader refuses a block line whose label / chromosome name does not fit the
   array fields ('U6' / 'U10') with a ValueError; false = the tree without that check, where
   np.array(..., dtype=HapBlock) silently truncates them *)
Variable strict : bool.
Variable parse_int : str -> res Z.   (* numpy str -> uint32: ValueError / OverflowError *)
Variable parse_flt : str -> res Z.   (* numpy str -> float64 (bit pattern): ValueError *)
Variable fmt_int : Z -> str.         (* str(np.uint32) *)
Variable fmt_flt : Z -> str.         (* str(np.float64) *)

(* np.array(b, dtype=HapBlock): 'U6', 'U10' truncate; fields converted row by row *)
Definition conv_blk (r : rblk) : res cblk :=
  let '(a, b, c, d) := r in
  bind (parse_int c) (fun bp => bind (parse_flt d) (fun f =>
    Ok (mkcb (firstn 6 a) (firstn 10 b) bp f))).

Definition selected (samples : option (list str)) (samp : str) : bool :=
  match samples with None => true | Some l => existsb (str_eqb samp) l end.

Definition yield_cur (samples : option (list str)) (st : ist) : res ctable :=
  match i_cur st with
  | Some (samp, b0, b1) =>
      if selected samples samp then
        bind (mapM conv_blk b0) (fun c0 => bind (mapM conv_blk b1) (fun c1 =>
          Ok (i_out st ++ [(samp, (c0, c1))])))
      else Ok (i_out st)
  | None => Ok (i_out st)
  end.

Definition iter_step (samples : option (list str)) (st : ist) (line : list str) : res ist :=
  match line with
  | [] => Err E_Index                                    (* line[0] on a blank line *)
  | t0 :: rest =>
    if first_char_is c_hash t0 then Ok st else
    match rest with
    | [] =>
        let sfx := after_last c_us t0 in
        if negb (str_eqb sfx s_1 || str_eqb sfx s_2) then
          Ok (mkist (i_cur st) SStr (i_out st))          (* warning; strand_num is left a str *)
        else if str_eqb sfx s_2 then
          Ok (mkist (i_cur st) (SInt true) (i_out st))   (* framing problems are only logged *)
        else
          bind (yield_cur samples st) (fun out =>
            Ok (mkist (Some (drop_last 2 t0, [], [])) (SInt false) out))
    | [t1; t2; t3] =>
        if strict && (Nat.ltb 6 (length t0) || Nat.ltb 10 (length t1)) then Err E_Value else
        match i_strand st, i_cur st with
        | SUnbound, _ => Err E_Unbound
        | _, None => Err E_Key                           (* blocks is still {} *)
        | SStr, Some _ => Err E_Type                     (* list index is a str *)
        | SInt false, Some (s, b0, b1) =>
            Ok (mkist (Some (s, b0 ++ [(t0, t1, t2, t3)], b1)) (i_strand st) (i_out st))
        | SInt true, Some (s, b0, b1) =>
            Ok (mkist (Some (s, b0, b1 ++ [(t0, t1, t2, t3)])) (i_strand st) (i_out st))
        end
    | _ => Ok st                                         (* warning *)
    end
  end.

Fixpoint iter_run (samples : option (list str)) (lines : list (list str)) (st : ist) : res ist :=
  match lines with
  | [] => Ok st
  | l :: r => bind (iter_step samples st l) (iter_run samples r)
  end.

Definition bp_iter (samples : option (list str)) (lines : list (list str)) : res ctable :=
  bind (iter_run samples lines (mkist None SUnbound [])) (yield_cur samples).

(* read: self.data = dict(self.__iter__(samples)) *)
Definition bp_read (samples : option (list str)) (lines : list (list str)) : res ctable :=
  bind (bp_iter samples lines) (fun l => Ok (dict_of_list str_eqb l)).

Definition fmt_blk (b : cblk) : list str := [c_pop b; c_chrom b; fmt_int (c_bp b); fmt_flt (c_cm b)].

Definition bp_write (d : ctable) : list (list str) :=
  flat_map (fun sb : str * (list cblk * list cblk) =>
              [fst sb ++ sfx_1] :: map fmt_blk (fst (snd sb))
              ++ [fst sb ++ sfx_2] :: map fmt_blk (snd (snd sb))) d.

(* ---- a file, read and then queried: the two levels composed ------------------ *)

(* strings become the integers the lookup level compares, through any [key] (the checker
   uses the position in the list of all strings of the case: injective on them) *)
Variable key : str -> Z.

Definition seg_of (b : cblk) : seg := mkseg (key (c_pop b)) (key (c_chrom b)) (c_bp b) (c_cm b).

Definition table_of (d : ctable) : table :=
  map (fun sb : str * (list cblk * list cblk) =>
         (key (fst sb), (map seg_of (fst (snd sb)), map seg_of (snd (snd sb))))) d.

Definition var_of (q : str * Z) : variant := mkvar (key (fst q)) (snd q).

(* Breakpoints.load(file).population_array(variants, samples): labels and chromosome names
   reach the lookup as the reader stored them (truncated to 6 / 10 characters when not strict) *)
Definition file_lookup (lines : list (list str)) (qs : list (str * Z)) (req : option (list str))
  : res (list (list (Z * Z))) :=
  bind (bp_read None lines) (fun d =>
    population_array_np (table_of d) (map var_of qs) (option_map (map key) req)).
End Text.

(* position of a string in a list of strings (its length if absent) *)
Fixpoint index_of (u : list str) (s : str) : Z :=
  match u with
  | [] => 0
  | x :: r => if str_eqb s x then 0 else 1 + index_of r s
  end.

(* the property's lookup on strings: label of the first block on chromosome c with end >= p *)
Fixpoint clabel_at (l : list cblk) (c : str) (p : Z) : option str :=
  match l with
  | [] => None
  | b :: r => if str_eqb (c_chrom b) c && (p <=? c_bp b) then Some (c_pop b) else clabel_at r c p
  end.
