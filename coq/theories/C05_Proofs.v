(* C05 - proofs about the lookup-level model: _find_blocks, population_array,
   soundness of the boolean checkers of C05_Check. (encode/recode: C05_ProofsCodec,
   text level: C05_ProofsText.) *)
From HV Require Import Prelude Tracts BpText C05_Model C05_Check.

(* ---- generic list / result lemmas ----------------------------------------- *)

Lemma mapM_spec {A B} (f : A -> res B) l :
  match mapM f l with
  | Ok bs => Forall2 (fun a b => f a = Ok b) l bs
  | Err k => exists a, In a l /\ f a = Err k
  end.
Proof.
  induction l as [|a r IH]; cbn [mapM]; [constructor|].
  destruct (f a) as [b|k] eqn:Ea; cbn [bind].
  - destruct (mapM f r) as [bs|k]; cbn [bind].
    + constructor; assumption.
    + destruct IH as [x [Hx Hfx]]. exists x. split; [right; exact Hx|exact Hfx].
  - exists a. split; [left; reflexivity|exact Ea].
Qed.

Lemma mapM_ok_map {A B} (f : A -> res B) (g : A -> B) l :
  (forall a, In a l -> f a = Ok (g a)) -> mapM f l = Ok (map g l).
Proof.
  induction l as [|a r IH]; intros H; cbn [mapM map]; [reflexivity|].
  rewrite (H a (or_introl eq_refl)). cbn [bind]. rewrite IH; [reflexivity|].
  intros x Hx. apply H. right. exact Hx.
Qed.

Lemma mapM_err_kind {A B} (f : A -> res B) l k0 :
  (forall a k, In a l -> f a = Err k -> k = k0) ->
  (exists a, In a l /\ exists k, f a = Err k) -> mapM f l = Err k0.
Proof.
  induction l as [|a r IH]; intros Hk [x [Hx [k Hfx]]]; [inversion Hx|].
  cbn [mapM]. destruct (f a) as [b|k'] eqn:Ea; cbn [bind].
  - destruct Hx as [->|Hx]; [congruence|].
    rewrite IH; [reflexivity| |].
    + intros y ky Hy Hfy. apply (Hk y ky); [right; exact Hy|exact Hfy].
    + exists x. split; [exact Hx|exists k; exact Hfx].
  - f_equal. apply (Hk a k'); [left; reflexivity|exact Ea].
Qed.

Lemma forallb2_Forall2 {A B} (f : A -> B -> bool) l1 l2 :
  forallb2 f l1 l2 = true -> Forall2 (fun a b => f a b = true) l1 l2.
Proof.
  revert l2. induction l1 as [|a r IH]; intros [|b s] H; cbn in H; try discriminate; [constructor|].
  apply andb_true_iff in H. destruct H as [H1 H2]. constructor; [exact H1|apply IH; exact H2].
Qed.

Lemma Forall2_impl {A B} (P Q : A -> B -> Prop) l1 l2 :
  (forall a b, P a b -> Q a b) -> Forall2 P l1 l2 -> Forall2 Q l1 l2.
Proof. intros H F. induction F; constructor; auto. Qed.

Lemma Forall2_combine {A B C} (P : A -> B -> Prop) (Q : A -> C -> Prop) l r1 r2 :
  Forall2 P l r1 -> Forall2 Q l r2 ->
  Forall2 (fun a c => P a (fst c) /\ Q a (snd c)) l (combine r1 r2).
Proof.
  intros H1. revert r2. induction H1 as [|a b l r1 Hab H1 IH]; intros r2 H2; inversion H2; subst; cbn [combine].
  - constructor.
  - constructor; [split; assumption|apply IH; assumption].
Qed.

Lemma nodupb_NoDup l : nodupb l = true -> NoDup l.
Proof.
  induction l as [|x r IH]; cbn [nodupb]; intros H; [constructor|].
  apply andb_true_iff in H. destruct H as [H1 H2]. constructor; [|apply IH; exact H2].
  intros Hin. apply negb_true_iff in H1.
  assert (existsb (Z.eqb x) r = true) as E.
  { apply existsb_exists. exists x. split; [exact Hin|apply Z.eqb_refl]. }
  congruence.
Qed.

Lemma filter_id {A} (f : A -> bool) l : (forall x, In x l -> f x = true) -> filter f l = l.
Proof.
  induction l as [|a r IH]; intros H; cbn [filter]; [reflexivity|].
  rewrite (H a (or_introl eq_refl)). f_equal. apply IH. intros x Hx. apply H. right. exact Hx.
Qed.

Lemma dedup_In x l : In x (dedup l) <-> In x l.
Proof.
  induction l as [|a r IH]; cbn [dedup]; [tauto|]. split.
  - intros [->|H]; [left; reflexivity|]. apply filter_In in H. right. apply IH. tauto.
  - intros [->|H]; [left; reflexivity|].
    destruct (Z.eq_dec x a) as [->|Hne]; [left; reflexivity|right].
    apply filter_In. split; [apply IH; exact H|]. apply negb_true_iff. apply Z.eqb_neq. exact Hne.
Qed.

Lemma dedup_NoDup l : NoDup l -> dedup l = l.
Proof.
  induction l as [|a r IH]; intros H; cbn [dedup]; [reflexivity|].
  inversion H as [|? ? Hnot Hr]; subst. rewrite (IH Hr). f_equal.
  apply filter_id. intros x Hx. apply negb_true_iff. apply Z.eqb_neq. intros ->. contradiction.
Qed.

(* ---- _find_blocks ---------------------------------------------------------- *)

Lemma first_ge_le es p : (first_ge es p <= length es)%nat.
Proof. induction es as [|e r IH]; cbn; [lia|]. destruct (p <=? e); cbn; lia. Qed.

Lemma first_ge_before es p j e :
  (j < first_ge es p)%nat -> nth_error es j = Some e -> e < p.
Proof.
  revert j. induction es as [|x r IH]; intros j Hj Hn; cbn in Hj; [lia|].
  destruct (p <=? x) eqn:E; [lia|]. apply Z.leb_gt in E.
  destruct j as [|j]; cbn in Hn; [inversion Hn; subst; exact E|].
  apply (IH j); [lia|exact Hn].
Qed.

Lemma first_ge_at es p e : nth_error es (first_ge es p) = Some e -> p <= e.
Proof.
  induction es as [|x r IH]; cbn; [discriminate|].
  destruct (p <=? x) eqn:E; cbn; [intros H; inversion H; subst; apply Z.leb_le; exact E|exact IH].
Qed.

Lemma first_ge_none es p : first_ge es p = length es <-> (forall e, In e es -> e < p).
Proof.
  induction es as [|x r IH]; cbn; [split; [intros _ e []|reflexivity]|].
  destruct (p <=? x) eqn:E.
  - split; [discriminate|]. intros H. apply Z.leb_le in E. specialize (H x (or_introl eq_refl)). lia.
  - apply Z.leb_gt in E. split.
    + intros H e [<-|He]; [exact E|]. apply IH; [lia|exact He].
    + intros H. f_equal. apply IH. intros e He. apply H. right. exact He.
Qed.

Theorem find_blocks_spec ends ps :
  match find_blocks ends ps with
  | Ok idx =>
      Forall2 (fun p i => exists e, nth_error ends i = Some e /\ p <= e /\
                          forall j e', (j < i)%nat -> nth_error ends j = Some e' -> e' < p) ps idx
  | Err k => k = E_Value /\ exists p, In p ps /\ forall e, In e ends -> e < p
  end.
Proof.
  unfold find_blocks. destruct (existsb _ _) eqn:E.
  - split; [reflexivity|]. apply existsb_exists in E. destruct E as [i [Hi Hle]].
    apply in_map_iff in Hi. destruct Hi as [p [<- Hp]]. exists p. split; [exact Hp|].
    apply first_ge_none. apply Nat.leb_le in Hle. pose proof (first_ge_le ends p). lia.
  - assert (H : forall p, In p ps -> (first_ge ends p < length ends)%nat).
    { intros p Hp. destruct (Nat.leb (length ends) (first_ge ends p)) eqn:E2; [|apply Nat.leb_gt; exact E2].
      exfalso. assert (existsb (fun i => Nat.leb (length ends) i) (map (first_ge ends) ps) = true); [|congruence].
      apply existsb_exists. exists (first_ge ends p). split; [apply in_map; exact Hp|exact E2]. }
    clear E. induction ps as [|p r IH]; cbn [map]; constructor.
    + specialize (H p (or_introl eq_refl)).
      destruct (nth_error ends (first_ge ends p)) as [e|] eqn:En.
      * exists e. split; [reflexivity|]. split; [apply (first_ge_at ends); exact En|].
        intros j e' Hj Hn. apply (first_ge_before ends p j); assumption.
      * apply nth_error_None in En. lia.
    + apply IH. intros q Hq. apply H. right. exact Hq.
Qed.

(* on an ascending array "no end reaches p" is "p is beyond the last end" *)
Lemma ascending_last_max es l : ascending es = true -> last_opt es = Some l -> forall e, In e es -> e <= l.
Proof.
  revert l. induction es as [|a r IH]; intros l Ha Hl e He; [inversion He|].
  cbn [ascending] in Ha. apply andb_true_iff in Ha. destruct Ha as [Ha1 Ha2].
  destruct r as [|b r'].
  - cbn in Hl. inversion Hl; subst. destruct He as [<-|[]]. lia.
  - assert (Hl' : last_opt (b :: r') = Some l).
    { unfold last_opt in *. cbn [rev] in *. destruct (rev r' ++ [b]) eqn:Er.
      - destruct (rev r'); discriminate.
      - cbn in Hl. exact Hl. }
    apply Z.leb_le in Ha1. destruct He as [<-|He].
    + specialize (IH l Ha2 Hl' b (or_introl eq_refl)). lia.
    + apply (IH l Ha2 Hl' e He).
Qed.

Lemma last_opt_In {A} (l : list A) x : last_opt l = Some x -> In x l.
Proof.
  unfold last_opt. destruct (rev l) eqn:E; [discriminate|]. intros H; inversion H; subst.
  apply in_rev. rewrite E. left. reflexivity.
Qed.

Theorem find_blocks_error_iff_beyond_last ends ps l :
  ascending ends = true -> last_opt ends = Some l ->
  ((exists k, find_blocks ends ps = Err k) <-> exists p, In p ps /\ l < p).
Proof.
  intros Ha Hl. pose proof (find_blocks_spec ends ps) as S. split.
  - intros [k Hk]. rewrite Hk in S. destruct S as [_ [p [Hp Hall]]]. exists p. split; [exact Hp|].
    apply Hall. apply last_opt_In. exact Hl.
  - intros [p [Hp Hlt]]. destruct (find_blocks ends ps) as [idx|k]; [|exists k; reflexivity]. exfalso.
    assert (exists i, exists e, nth_error ends i = Some e /\ p <= e) as [i [e [Hn Hpe]]].
    { clear -S Hp. induction S as [|q i ps idx Hq S IH]; [inversion Hp|].
      destruct Hp as [->|Hp]; [|apply IH; exact Hp].
      destruct Hq as [e [Hn [Hpe _]]]. exists i, e. split; assumption. }
    apply nth_error_In in Hn. pose proof (ascending_last_max ends l Ha Hl e Hn). lia.
Qed.

(* ---- population_array ------------------------------------------------------ *)

Definition cell (blocks : list seg) (v : variant) : res Z :=
  match label_at blocks (vchrom v) (vpos v) with Some l => Ok l | None => Err E_Value end.

Definition lab (blocks : list seg) (v : variant) : Z :=
  match label_at blocks (vchrom v) (vpos v) with Some l => l | None => 0 end.

Lemma label_at_on_chrom blocks c p :
  label_at blocks c p =
  nth_error (map pop (on_chrom c blocks)) (first_ge (map endc (on_chrom c blocks)) p).
Proof.
  induction blocks as [|s r IH]; [reflexivity|].
  unfold on_chrom in *. cbn [label_at filter]. destruct (chrom s =? c) eqn:Ec; cbn [andb map first_ge].
  - destruct (p <=? endc s); cbn; [reflexivity|exact IH].
  - exact IH.
Qed.

Definition merge {A} (f : variant -> bool) (g : variant -> A) (vs : list variant) (row : list (option A)) :=
  map (fun vo : variant * option A => if f (fst vo) then Some (g (fst vo)) else snd vo) (combine vs row).

Lemma scatter_merge {A} (f : variant -> bool) (g : variant -> A) vs row :
  length row = length vs ->
  scatter (map f vs) (map g (filter f vs)) row = merge f g vs row.
Proof.
  revert row. induction vs as [|v vs IH]; intros [|x r] H; cbn in H; try discriminate; [reflexivity|].
  unfold merge in *. cbn [map filter combine fst snd]. destruct (f v) eqn:Ef; cbn [map scatter].
  - f_equal. apply IH. lia.
  - f_equal. apply IH. lia.
Qed.

Lemma merge_ext {A} (f : variant -> bool) (g g' : variant -> A) vs row :
  (forall v, In v vs -> f v = true -> g v = g' v) -> merge f g vs row = merge f g' vs row.
Proof.
  revert row. induction vs as [|v vs IH]; intros row H; [reflexivity|].
  destruct row as [|x r]; [reflexivity|]. unfold merge in *. cbn [combine map fst snd].
  destruct (f v) eqn:Ef.
  - rewrite (H v (or_introl eq_refl) Ef). f_equal. apply IH. intros w Hw. apply H. right. exact Hw.
  - f_equal. apply IH. intros w Hw. apply H. right. exact Hw.
Qed.

Lemma merge_length {A} (f : variant -> bool) (g : variant -> A) vs row :
  length row = length vs -> length (merge f g vs row) = length vs.
Proof. intros H. unfold merge. rewrite map_length, combine_length. lia. Qed.

Lemma find_blocks_ok_inv ends ps idx :
  find_blocks ends ps = Ok idx ->
  idx = map (first_ge ends) ps /\ forall p, In p ps -> (first_ge ends p < length ends)%nat.
Proof.
  unfold find_blocks. destruct (existsb _ _) eqn:E; [discriminate|]. intros H; inversion H; subst.
  split; [reflexivity|]. intros p Hp.
  destruct (Nat.leb (length ends) (first_ge ends p)) eqn:E2; [|apply Nat.leb_gt; exact E2].
  exfalso. assert (existsb (fun i => Nat.leb (length ends) i) (map (first_ge ends) ps) = true); [|congruence].
  apply existsb_exists. exists (first_ge ends p). split; [apply in_map; exact Hp|exact E2].
Qed.

Lemma find_blocks_err_inv ends ps k :
  find_blocks ends ps = Err k ->
  k = E_Value /\ exists p, In p ps /\ (length ends <= first_ge ends p)%nat.
Proof.
  unfold find_blocks. destruct (existsb _ _) eqn:E; [|discriminate]. intros H; inversion H; subst.
  split; [reflexivity|]. apply existsb_exists in E. destruct E as [i [Hi Hle]].
  apply in_map_iff in Hi. destruct Hi as [p [<- Hp]]. exists p. split; [exact Hp|apply Nat.leb_le; exact Hle].
Qed.

Lemma fill_chrom_ok blocks vs c row row' :
  length row = length vs ->
  fill_chrom blocks vs c row = Ok row' ->
  row' = merge (fun v => vchrom v =? c) (lab blocks) vs row /\
  (forall v, In v vs -> vchrom v = c -> label_at blocks c (vpos v) <> None).
Proof.
  intros Hlen. unfold fill_chrom. destruct (on_chrom c blocks) as [|s0 cb0] eqn:Ecb; [discriminate|].
  rewrite <- Ecb. set (cb := on_chrom c blocks).
  destruct (find_blocks _ _) as [idx|k] eqn:Efb; cbn [bind]; [|discriminate].
  intros H. inversion H; subst row'. clear H.
  apply find_blocks_ok_inv in Efb. destruct Efb as [Hidx Hlt].
  assert (Hcov : forall v, In v vs -> vchrom v = c -> label_at blocks c (vpos v) <> None).
  { intros v Hv Hc. rewrite label_at_on_chrom. fold cb.
    assert (Hin : In (vpos v) (map vpos (filter (fun v => vchrom v =? c) vs))).
    { apply in_map. apply filter_In. split; [exact Hv|apply Z.eqb_eq; exact Hc]. }
    specialize (Hlt _ Hin). rewrite map_length in Hlt.
    intros Hn. apply nth_error_None in Hn. rewrite map_length in Hn. lia. }
  split; [|exact Hcov].
  rewrite Hidx, !map_map. rewrite scatter_merge by exact Hlen.
  apply merge_ext. intros v Hv Hf. apply Z.eqb_eq in Hf.
  unfold lab. rewrite Hf. specialize (Hcov v Hv Hf). rewrite label_at_on_chrom in *. fold cb in Hcov |- *.
  destruct (nth_error (map pop cb) (first_ge (map endc cb) (vpos v))) as [l|] eqn:En; [|congruence].
  apply nth_error_nth. exact En.
Qed.

Lemma fill_chrom_err blocks vs c row k :
  (exists v, In v vs /\ vchrom v = c) ->
  fill_chrom blocks vs c row = Err k ->
  k = E_Value /\ exists v, In v vs /\ vchrom v = c /\ label_at blocks c (vpos v) = None.
Proof.
  intros [v0 [Hv0 Hc0]]. unfold fill_chrom. destruct (on_chrom c blocks) as [|s0 cb0] eqn:Ecb.
  - intros H; injection H as <-. split; [reflexivity|]. exists v0. split; [exact Hv0|]. split; [exact Hc0|].
    rewrite label_at_on_chrom, Ecb. reflexivity.
  - rewrite <- Ecb. set (cb := on_chrom c blocks).
    destruct (find_blocks _ _) as [idx|k'] eqn:Efb; cbn [bind]; [discriminate|].
    intros H; injection H as ->. apply find_blocks_err_inv in Efb. destruct Efb as [-> [p [Hp Hle]]].
    split; [reflexivity|]. apply in_map_iff in Hp. destruct Hp as [v [<- Hv]]. apply filter_In in Hv.
    destruct Hv as [Hv Hc]. apply Z.eqb_eq in Hc. exists v. split; [exact Hv|]. split; [exact Hc|].
    rewrite label_at_on_chrom. fold cb. apply nth_error_None. rewrite map_length in *. exact Hle.
Qed.

Lemma fold_chroms_ok blocks vs cs : forall row,
  length row = length vs ->
  (forall c, In c cs -> forall v, In v vs -> vchrom v = c -> label_at blocks c (vpos v) <> None) ->
  (forall c, In c cs -> exists v, In v vs /\ vchrom v = c) ->
  fold_chroms blocks vs cs row =
  Ok (merge (fun v => existsb (Z.eqb (vchrom v)) cs) (lab blocks) vs row).
Proof.
  induction cs as [|c r IH]; intros row Hlen Hcov Hne; cbn [fold_chroms].
  - f_equal. unfold merge. cbn [existsb]. clear -Hlen. revert row Hlen.
    induction vs as [|v vs IH]; intros [|x row] H; cbn in H; try discriminate; [reflexivity|].
    cbn [combine map fst snd]. f_equal. apply IH. lia.
  - destruct (fill_chrom blocks vs c row) as [row1|k] eqn:Ef; cbn [bind].
    + apply fill_chrom_ok in Ef; [|exact Hlen]. destruct Ef as [-> _].
      rewrite IH.
      * f_equal. unfold merge. clear -Hlen. revert row Hlen.
        induction vs as [|v vs IHv]; intros [|x row] H; cbn in H; try discriminate; [reflexivity|].
        cbn [combine map fst snd existsb]. rewrite (Z.eqb_sym (vchrom v) c).
        destruct (existsb (Z.eqb (vchrom v)) r); destruct (c =? vchrom v); cbn [orb]; f_equal; apply IHv; lia.
      * apply merge_length. exact Hlen.
      * intros c' Hc'. apply Hcov. right. exact Hc'.
      * intros c' Hc'. apply Hne. right. exact Hc'.
    + exfalso. apply fill_chrom_err in Ef; [|apply Hne; left; reflexivity].
      destruct Ef as [_ [v [Hv [Hc Hn]]]]. apply (Hcov c (or_introl eq_refl) v Hv Hc Hn).
Qed.

Lemma fold_chroms_err blocks vs cs : forall row,
  length row = length vs ->
  (forall c, In c cs -> exists v, In v vs /\ vchrom v = c) ->
  (exists c v, In c cs /\ In v vs /\ vchrom v = c /\ label_at blocks c (vpos v) = None) ->
  fold_chroms blocks vs cs row = Err E_Value.
Proof.
  induction cs as [|c r IH]; intros row Hlen Hne [c0 [v [Hc0 [Hv [Hvc Hn]]]]]; [inversion Hc0|].
  cbn [fold_chroms]. destruct (fill_chrom blocks vs c row) as [row1|k] eqn:Ef; cbn [bind].
  - pose proof Ef as Ef'. apply fill_chrom_ok in Ef'; [|exact Hlen]. destruct Ef' as [-> Hcov].
    destruct Hc0 as [<-|Hc0]; [exfalso; apply (Hcov v Hv Hvc Hn)|].
    apply IH.
    + apply merge_length. exact Hlen.
    + intros c' Hc'. apply Hne. right. exact Hc'.
    + exists c0, v. repeat split; assumption.
  - apply fill_chrom_err in Ef; [|apply Hne; left; reflexivity]. destruct Ef as [-> _]. reflexivity.
Qed.

Lemma merge_all blocks vs :
  map cell_get (merge (fun v => existsb (Z.eqb (vchrom v)) (dedup (map vchrom vs))) (lab blocks) vs
                      (repeat None (length vs))) = map (lab blocks) vs.
Proof.
  assert (H : forall ws, (forall v, In v ws -> existsb (Z.eqb (vchrom v)) (dedup (map vchrom vs)) = true) ->
    map cell_get (merge (fun v => existsb (Z.eqb (vchrom v)) (dedup (map vchrom vs))) (lab blocks) ws
                        (repeat None (length ws))) = map (lab blocks) ws).
  { induction ws as [|w ws IH]; intros Hw; [reflexivity|].
    unfold merge in *. cbn [length repeat combine map fst snd].
    rewrite (Hw w (or_introl eq_refl)). cbn [cell_get]. f_equal. apply IH.
    intros v Hv. apply Hw. right. exact Hv. }
  apply H. intros v Hv. apply existsb_exists. exists (vchrom v). split; [|apply Z.eqb_refl].
  apply (proj2 (dedup_In _ _)). apply in_map. exact Hv.
Qed.

Lemma cell_ok_inv blocks v l : cell blocks v = Ok l -> label_at blocks (vchrom v) (vpos v) = Some l.
Proof. unfold cell. destruct (label_at _ _ _); intros H; inversion H; reflexivity. Qed.

Lemma cell_err_inv blocks v k : cell blocks v = Err k -> k = E_Value /\ label_at blocks (vchrom v) (vpos v) = None.
Proof. unfold cell. destruct (label_at _ _ _); intros H; inversion H; split; reflexivity. Qed.

(* the chromosome-wise scatter computes, cell by cell, the label of the first block
   on the variant's chromosome whose end is >= the variant's position *)
Lemma strand_row_cellwise blocks vs : strand_row blocks vs = mapM (cell blocks) vs.
Proof.
  unfold strand_row.
  assert (Hne : forall c, In c (dedup (map vchrom vs)) -> exists v, In v vs /\ vchrom v = c).
  { intros c Hc. apply (proj1 (dedup_In _ _)) in Hc. apply in_map_iff in Hc. destruct Hc as [v [Hvc Hv]]. exists v. tauto. }
  destruct (existsb (fun v => match label_at blocks (vchrom v) (vpos v) with Some _ => false | None => true end) vs) eqn:E.
  - apply existsb_exists in E. destruct E as [v [Hv Hn]].
    destruct (label_at blocks (vchrom v) (vpos v)) eqn:El; [discriminate|].
    rewrite fold_chroms_err; [| apply repeat_length | exact Hne |].
    + cbn [bind]. symmetry. apply mapM_err_kind.
      * intros a k _ Hk. apply cell_err_inv in Hk. tauto.
      * exists v. split; [exact Hv|]. exists E_Value. unfold cell. rewrite El. reflexivity.
    + exists (vchrom v), v. split; [apply (proj2 (dedup_In _ _)); apply in_map; exact Hv|]. repeat split; [exact Hv|exact El].
  - assert (Hcov : forall v, In v vs -> label_at blocks (vchrom v) (vpos v) <> None).
    { intros v Hv Hn. assert (existsb (fun v => match label_at blocks (vchrom v) (vpos v) with Some _ => false | None => true end) vs = true); [|congruence].
      apply existsb_exists. exists v. split; [exact Hv|]. rewrite Hn. reflexivity. }
    rewrite fold_chroms_ok; [| apply repeat_length | | exact Hne].
    + cbn [bind]. rewrite merge_all. symmetry. apply mapM_ok_map.
      intros v Hv. unfold cell, lab. specialize (Hcov v Hv). destruct (label_at _ _ _); [reflexivity|congruence].
    + intros c _ v Hv Hc. subst c. apply Hcov. exact Hv.
Qed.

(* the declarative content of one sample's rows *)
Definition cells_ok (sb : strands) (vs : list variant) (row : list (Z * Z)) : Prop :=
  Forall2 (fun v c => label_at (fst sb) (vchrom v) (vpos v) = Some (fst c) /\
                      label_at (snd sb) (vchrom v) (vpos v) = Some (snd c)) vs row.

Definition uncovered_cell (sb : strands) (vs : list variant) : Prop :=
  exists v, In v vs /\ (label_at (fst sb) (vchrom v) (vpos v) = None \/
                        label_at (snd sb) (vchrom v) (vpos v) = None).

Lemma sample_rows_spec vs (nsb : Z * strands) :
  match sample_rows vs nsb with
  | Ok row => cells_ok (snd nsb) vs row
  | Err k => k = E_Value /\ uncovered_cell (snd nsb) vs
  end.
Proof.
  unfold sample_rows. rewrite !strand_row_cellwise.
  pose proof (mapM_spec (cell (fst (snd nsb))) vs) as S1.
  pose proof (mapM_spec (cell (snd (snd nsb))) vs) as S2.
  destruct (mapM (cell (fst (snd nsb))) vs) as [r1|k1]; cbn [bind].
  - destruct (mapM (cell (snd (snd nsb))) vs) as [r2|k2]; cbn [bind].
    + unfold cells_ok.
      apply (Forall2_combine (fun v l => label_at (fst (snd nsb)) (vchrom v) (vpos v) = Some l)
                             (fun v l => label_at (snd (snd nsb)) (vchrom v) (vpos v) = Some l)).
      * eapply Forall2_impl; [|exact S1]. intros a b. apply cell_ok_inv.
      * eapply Forall2_impl; [|exact S2]. intros a b. apply cell_ok_inv.
    + destruct S2 as [v [Hv Hk]]. apply cell_err_inv in Hk. destruct Hk as [-> Hn].
      split; [reflexivity|]. exists v. split; [exact Hv|right; exact Hn].
  - destruct S1 as [v [Hv Hk]]. apply cell_err_inv in Hk. destruct Hk as [-> Hn].
    split; [reflexivity|]. exists v. split; [exact Hv|left; exact Hn].
Qed.

(* population_array over the whole table (samples=None): row k is sample k of the table *)
Theorem population_array_all_spec d vs :
  match population_array d vs None with
  | Ok arr => Forall2 (fun nsb row => cells_ok (snd nsb) vs row) d arr
  | Err k => k = E_Value /\ exists nsb, In nsb d /\ uncovered_cell (snd nsb) vs
  end.
Proof.
  unfold population_array, select. cbn [bind].
  pose proof (mapM_spec (sample_rows vs) d) as S. destruct (mapM (sample_rows vs) d) as [arr|k].
  - eapply Forall2_impl; [|exact S]. intros nsb row H.
    pose proof (sample_rows_spec vs nsb) as R. rewrite H in R. exact R.
  - destruct S as [nsb [Hin H]]. pose proof (sample_rows_spec vs nsb) as R. rewrite H in R.
    destruct R as [-> R]. split; [reflexivity|]. exists nsb. split; assumption.
Qed.

(* population_array for requested samples: row k belongs to the k-th requested sample;
   an uncovered position / absent chromosome / unknown sample is an error, never an answer *)
Theorem population_array_spec d vs req :
  NoDup req ->
  match population_array d vs (Some req) with
  | Ok arr =>
      Forall2 (fun s row => exists sb, zassoc s d = Some sb /\ cells_ok sb vs row) req arr
  | Err k =>
      (k = E_Key /\ exists s, In s req /\ zassoc s d = None) \/
      (k = E_Value /\ exists s sb, In s req /\ zassoc s d = Some sb /\ uncovered_cell sb vs)
  end.
Proof.
  intros Hnd. unfold population_array, select. rewrite (dedup_NoDup req Hnd).
  set (f := fun s => match zassoc s d with Some b => Ok (s, b) | None => Err E_Key end).
  pose proof (mapM_spec f req) as S1. destruct (mapM f req) as [tbl|k]; cbn [bind].
  - pose proof (mapM_spec (sample_rows vs) tbl) as S2. destruct (mapM (sample_rows vs) tbl) as [arr|k].
    + clear -S1 S2. revert arr S2. induction S1 as [|s nsb req tbl Hs S1 IH]; intros arr S2; inversion S2; subst.
      * constructor.
      * constructor; [|apply IH; assumption].
        unfold f in Hs. destruct (zassoc s d) as [sb|] eqn:Ea; inversion Hs; subst.
        exists sb. split; [reflexivity|].
        match goal with H : sample_rows vs _ = Ok _ |- _ =>
          pose proof (sample_rows_spec vs (s, sb)) as R; rewrite H in R; exact R end.
    + right. destruct S2 as [nsb [Hin H]]. pose proof (sample_rows_spec vs nsb) as R. rewrite H in R.
      destruct R as [-> R]. split; [reflexivity|].
      clear -S1 Hin R. induction S1 as [|s nsb' req tbl Hs S1 IH]; [inversion Hin|].
      destruct Hin as [->|Hin].
      * unfold f in Hs. destruct (zassoc s d) as [sb|] eqn:Ea; inversion Hs; subst.
        exists s, sb. split; [left; reflexivity|]. split; [exact Ea|exact R].
      * destruct (IH Hin) as [s' [sb' [H1 H2]]]. exists s', sb'. split; [right; exact H1|exact H2].
  - left. destruct S1 as [s [Hin H]]. unfold f in H. destruct (zassoc s d) eqn:Ea; inversion H; subst.
    split; [reflexivity|]. exists s. split; assumption.
Qed.

(* ---- soundness of the boolean checkers ------------------------------------- *)

Lemma optZ_eqb_true a b : optZ_eqb a b = true -> a = b.
Proof. apply (opt_eqb_spec Z.eqb Zeqb_iff). Qed.

Lemma cell_ok_sound sb vs row :
  forallb2 (cell_ok sb) vs row = true -> cells_ok sb vs row.
Proof.
  intros H. apply forallb2_Forall2 in H. eapply Forall2_impl; [|exact H].
  intros v c Hc. unfold cell_ok in Hc. apply andb_true_iff in Hc. destruct Hc as [H1 H2].
  split; apply optZ_eqb_true; assumption.
Qed.

(* evaluating holds_lookup on the implementation's answer means what the property says *)
Theorem holds_lookup_sound d vs req obs :
  holds_lookup_gen d vs (Some req) obs = true -> nodupb req = true -> nodupb (map fst d) = true ->
  match obs with
  | Ok arr => Forall2 (fun s row => exists sb, zassoc s d = Some sb /\ cells_ok sb vs row) req arr
  | Err _ => exists s, In s req /\ (zassoc s d = None \/ exists sb, zassoc s d = Some sb /\ uncovered_cell sb vs)
  end.
Proof.
  unfold holds_lookup_gen. intros H N1 N2. rewrite N1, N2 in H. cbn [andb] in H. destruct obs as [arr|k].
  - apply forallb2_Forall2 in H. eapply Forall2_impl; [|exact H].
    intros s row Hr. unfold row_ok in Hr. destruct (zassoc s d) as [sb|]; [|discriminate].
    exists sb. split; [reflexivity|apply cell_ok_sound; exact Hr].
  - unfold has_reason in H. apply existsb_exists in H. destruct H as [s [Hs Hr]]. exists s. split; [exact Hs|].
    destruct (zassoc s d) as [sb|]; [right|left; reflexivity]. exists sb. split; [reflexivity|].
    apply existsb_exists in Hr. destruct Hr as [v [Hv Hu]]. exists v. split; [exact Hv|].
    unfold cell_uncovered in Hu.
    destruct (label_at (fst sb) (vchrom v) (vpos v)); [|left; reflexivity].
    destruct (label_at (snd sb) (vchrom v) (vpos v)); [discriminate|right; reflexivity].
Qed.

Lemma find_ok_sound ends p i :
  find_ok ends p i = true ->
  exists e, nthZ ends i = Some e /\ p <= e /\ forall e', In e' (firstn (Z.to_nat i) ends) -> e' < p.
Proof.
  unfold find_ok. destruct (nthZ ends i) as [e|]; [|discriminate]. intros H.
  apply andb_true_iff in H. destruct H as [H1 H2]. exists e. split; [reflexivity|].
  split; [apply Z.leb_le; exact H1|]. intros e' He'. rewrite forallb_forall in H2.
  apply Z.ltb_lt. apply H2. exact He'.
Qed.

Theorem holds_find_sound ends ps obs :
  holds_find (mkf ends ps obs) = true -> ascending ends = true ->
  match obs with
  | Ok idx => Forall2 (fun p i => exists e, nthZ ends i = Some e /\ p <= e /\
                         forall e', In e' (firstn (Z.to_nat i) ends) -> e' < p) ps idx
  | Err _ => exists p, In p ps /\ forall e, In e ends -> e < p
  end.
Proof.
  unfold holds_find. cbn [f_ends f_obs f_pos]. intros H Ha. rewrite Ha in H. destruct obs as [idx|k].
  - apply forallb2_Forall2 in H. eapply Forall2_impl; [|exact H]. intros p i. apply find_ok_sound.
  - apply existsb_exists in H. destruct H as [p [Hp Hu]]. exists p. split; [exact Hp|].
    unfold uncovered in Hu. rewrite forallb_forall in Hu. intros e He. apply Z.ltb_lt. apply Hu. exact He.
Qed.
