(* C05 - proofs about the lookup-level model (placeholder, filled below). *)
From HV Require Import Prelude Tracts BpText C05_Model C05_Check.
