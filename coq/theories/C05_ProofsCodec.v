(* C05 - proofs about encode / recode and about queries on encoded data. *)
From HV Require Import Prelude Tracts BpText C05_Model C05_Check C05_Proofs C05_ProofsNp.

Definition code_of (L : list (Z * Z)) (p : Z) : Z :=
  match zassoc p L with Some c => c | None => -1 end.

Definition map_pop (f : Z -> Z) (l : list seg) : list seg := map (fun s => set_pop s (f (pop s))) l.

Definition map_strands (f : Z -> Z) (sb : strands) : strands := (map_pop f (fst sb), map_pop f (snd sb)).

Definition map_table (f : Z -> Z) (d : table) : table :=
  map (fun nsb : Z * strands => (fst nsb, map_strands f (snd nsb))) d.

Definition rmap {A B} (g : A -> B) (x : res A) : res B :=
  match x with Ok a => Ok (g a) | Err k => Err k end.

(* ---- association lists ------------------------------------------------------ *)

Lemma zassoc_app_l {V} k (L E : list (Z * V)) c : zassoc k L = Some c -> zassoc k (L ++ E) = Some c.
Proof.
  unfold zassoc. induction L as [|[k' v] r IH]; cbn [assoc app]; [discriminate|].
  destruct (k =? k'); [auto|exact IH].
Qed.

Lemma zassoc_In {V} k (L : list (Z * V)) c : zassoc k L = Some c -> In (k, c) L.
Proof.
  unfold zassoc. induction L as [|[k' v] r IH]; cbn [assoc]; [discriminate|].
  destruct (k =? k') eqn:E.
  - intros H; inversion H; subst. apply Z.eqb_eq in E. subst. left. reflexivity.
  - intros H. right. apply IH. exact H.
Qed.

Lemma zassoc_None {V} k (L : list (Z * V)) : zassoc k L = None -> ~ In k (map fst L).
Proof.
  unfold zassoc. induction L as [|[k' v] r IH]; cbn [assoc map fst]; [intros _ []|].
  destruct (k =? k') eqn:E; [discriminate|]. apply Z.eqb_neq in E.
  intros H [Hk|Hk]; [congruence|]. apply (IH H Hk).
Qed.

Lemma zassoc_app_fresh {V} k (L : list (Z * V)) c : zassoc k L = None -> zassoc k (L ++ [(k, c)]) = Some c.
Proof.
  unfold zassoc. induction L as [|[k' v] r IH]; cbn [assoc app].
  - rewrite Z.eqb_refl. reflexivity.
  - destruct (k =? k'); [discriminate|exact IH].
Qed.

Lemma zassoc_filter_key {V} (h : Z -> bool) k (L : list (Z * V)) :
  zassoc k (filter (fun kv => h (fst kv)) L) = if h k then zassoc k L else None.
Proof.
  unfold zassoc. induction L as [|[k' v] r IH]; cbn [filter assoc fst]; [destruct (h k); reflexivity|].
  destruct (h k') eqn:Eh; cbn [assoc].
  - destruct (k =? k') eqn:E; [apply Z.eqb_eq in E; subst; rewrite Eh; reflexivity|exact IH].
  - destruct (k =? k') eqn:E; [apply Z.eqb_eq in E; subst; rewrite IH, Eh; reflexivity|exact IH].
Qed.

Lemma dict_set_fresh k v (d : list (Z * Z)) : ~ In k (map fst d) -> dict_set Z.eqb k v d = d ++ [(k, v)].
Proof.
  induction d as [|[k' v'] r IH]; cbn [dict_set map fst app]; intros H; [reflexivity|].
  destruct (k =? k') eqn:E; [apply Z.eqb_eq in E; subst; exfalso; apply H; left; reflexivity|].
  f_equal. apply IH. intros Hin. apply H. right. exact Hin.
Qed.

(* ---- the labels dictionary stays injective ----------------------------------- *)

Record linv (L : list (Z * Z)) : Prop := mklinv {
  li_keys : NoDup (map fst L);
  li_codes : NoDup (map snd L);
  li_bound : forall kv, In kv L -> 0 <= snd kv < lenZ L
}.

Lemma lenZ_app {A} (a b : list A) : lenZ (a ++ b) = lenZ a + lenZ b.
Proof. unfold lenZ. rewrite app_length. lia. Qed.

Lemma NoDup_snoc {A} (l : list A) x : NoDup l -> ~ In x l -> NoDup (l ++ [x]).
Proof.
  intros Hl Hx. induction l as [|a r IH]; cbn [app]; [constructor; [intros []|constructor]|].
  inversion Hl as [|? ? Ha Hr]; subst. constructor.
  - intros Hin. apply in_app_or in Hin. destruct Hin as [Hin|[->|[]]]; [contradiction|].
    apply Hx. left. reflexivity.
  - apply IH; [exact Hr|]. intros Hin. apply Hx. right. exact Hin.
Qed.

Lemma linv_snoc L k : linv L -> ~ In k (map fst L) -> linv (L ++ [(k, lenZ L)]).
Proof.
  intros [H1 H2 H3] Hk. constructor.
  - rewrite map_app. cbn [map fst]. apply NoDup_snoc; assumption.
  - rewrite map_app. cbn [map snd]. apply NoDup_snoc; [assumption|].
    intros Hin. apply in_map_iff in Hin. destruct Hin as [kv [Hs Hin]]. specialize (H3 kv Hin). lia.
  - intros kv Hin. rewrite lenZ_app. unfold lenZ at 2. cbn [length]. apply in_app_or in Hin.
    destruct Hin as [Hin|[<-|[]]]; [specialize (H3 kv Hin); lia|]. cbn [snd]. unfold lenZ. lia.
Qed.

Lemma linv_nil : linv [].
Proof. constructor; cbn; [constructor|constructor|intros ? []]. Qed.

Lemma enum_dict_inv g : forall d, NoDup g -> (forall x, In x g -> ~ In x (map fst d)) -> linv d ->
  linv (enum_dict (lenZ d) g d).
Proof.
  induction g as [|x g IH]; intros d Hg Hfresh Hd; cbn [enum_dict]; [exact Hd|].
  inversion Hg as [|? ? Hx Hg']; subst.
  rewrite dict_set_fresh by (apply Hfresh; left; reflexivity).
  replace (lenZ d + 1) with (lenZ (d ++ [(x, lenZ d)])) by (rewrite lenZ_app; reflexivity).
  apply IH.
  - exact Hg'.
  - intros y Hy. rewrite map_app. cbn [map fst]. intros Hin. apply in_app_or in Hin.
    destruct Hin as [Hin|[<-|[]]]; [apply (Hfresh y (or_intror Hy) Hin)|contradiction].
  - apply linv_snoc; [exact Hd|apply Hfresh; left; reflexivity].
Qed.

(* ---- what encode computes --------------------------------------------------- *)

Lemma enc_block_spec L S s s' L' S' :
  enc_block (L, S) s = (s', (L', S')) ->
  (exists E, L' = L ++ E) /\ S' = pop s :: S /\ (linv L -> linv L') /\
  exists c, zassoc (pop s) L' = Some c /\ s' = set_pop s c.
Proof.
  unfold enc_block. destruct (zassoc (pop s) L) as [c|] eqn:Ea.
  - rewrite Ea. intros H; inversion H; subst. split; [exists []; rewrite app_nil_r; reflexivity|].
    split; [reflexivity|]. split; [auto|]. exists c. split; [exact Ea|reflexivity].
  - rewrite (zassoc_app_fresh _ _ (lenZ L) Ea). intros H; inversion H; subst.
    split; [eexists; reflexivity|]. split; [reflexivity|]. split.
    + intros HL. apply linv_snoc; [exact HL|apply zassoc_None; exact Ea].
    + exists (lenZ L). split; [apply zassoc_app_fresh; exact Ea|reflexivity].
Qed.

Lemma code_of_ext L E p c : zassoc p L = Some c -> code_of (L ++ E) p = c.
Proof. intros H. unfold code_of. rewrite (zassoc_app_l _ _ E _ H). reflexivity. Qed.

Lemma enc_blocks_spec l : forall L S l' L' S',
  enc_blocks (L, S) l = (l', (L', S')) ->
  (exists E, L' = L ++ E) /\ (forall x, In x S' <-> In x S \/ In x (map pop l)) /\ (linv L -> linv L') /\
  (forall s, In s l -> zassoc (pop s) L' <> None) /\ l' = map_pop (code_of L') l.
Proof.
  induction l as [|s r IH]; intros L S l' L' S'; cbn [enc_blocks].
  - intros H; inversion H; subst. split; [exists []; rewrite app_nil_r; reflexivity|].
    split; [cbn; tauto|]. split; [auto|]. split; [intros ? []|reflexivity].
  - destruct (enc_block (L, S) s) as [s1 [L1 S1]] eqn:E1.
    destruct (enc_blocks (L1, S1) r) as [r1 [L2 S2]] eqn:E2.
    intros H; inversion H; subst. clear H.
    apply enc_block_spec in E1. destruct E1 as [[Ea ->] [-> [Hi1 [c [Hc ->]]]]].
    apply IH in E2. destruct E2 as [[Eb ->] [HS [Hi2 [Hall ->]]]].
    split; [exists (Ea ++ Eb); rewrite app_assoc; reflexivity|]. split.
    { intros x. rewrite HS. cbn [map In]. tauto. }
    split; [auto|]. split.
    { intros s0 [<-|Hs0]; [rewrite (zassoc_app_l _ _ Eb _ Hc); discriminate|apply Hall; exact Hs0]. }
    unfold map_pop. cbn [map]. f_equal. rewrite (code_of_ext _ Eb _ _ Hc). reflexivity.
Qed.

Lemma map_pop_ext f g l : (forall s, In s l -> f (pop s) = g (pop s)) -> map_pop f l = map_pop g l.
Proof. intros H. unfold map_pop. apply map_ext_in. intros s Hs. rewrite (H s Hs). reflexivity. Qed.

Lemma enc_table_spec d : forall L S d' L' S',
  enc_table (L, S) d = (d', (L', S')) ->
  (exists E, L' = L ++ E) /\ (forall x, In x S' <-> In x S \/ In x (pops_of d)) /\ (linv L -> linv L') /\
  (forall p, In p (pops_of d) -> zassoc p L' <> None) /\ d' = map_table (code_of L') d.
Proof.
  induction d as [|[name [b1 b2]] r IH]; intros L S d' L' S'; cbn [enc_table].
  - intros H; inversion H; subst. split; [exists []; rewrite app_nil_r; reflexivity|].
    split; [cbn; tauto|]. split; [auto|]. split; [intros ? []|reflexivity].
  - destruct (enc_blocks (L, S) b1) as [b1' [L1 S1]] eqn:E1.
    destruct (enc_blocks (L1, S1) b2) as [b2' [L2 S2]] eqn:E2.
    destruct (enc_table (L2, S2) r) as [r' [L3 S3]] eqn:E3.
    intros H; inversion H; subst. clear H.
    apply enc_blocks_spec in E1. destruct E1 as [[Ea ->] [HS1 [Hi1 [Hall1 ->]]]].
    apply enc_blocks_spec in E2. destruct E2 as [[Eb ->] [HS2 [Hi2 [Hall2 ->]]]].
    apply IH in E3. destruct E3 as [[Ec ->] [HS3 [Hi3 [Hall3 ->]]]].
    assert (K1 : forall s, In s b1 -> zassoc (pop s) (((L ++ Ea) ++ Eb) ++ Ec) <> None).
    { intros s Hs. specialize (Hall1 s Hs). destruct (zassoc (pop s) (L ++ Ea)) as [c|] eqn:Ez; [|congruence].
      rewrite (zassoc_app_l _ _ Ec c (zassoc_app_l _ _ Eb c Ez)). discriminate. }
    assert (K2 : forall s, In s b2 -> zassoc (pop s) (((L ++ Ea) ++ Eb) ++ Ec) <> None).
    { intros s Hs. specialize (Hall2 s Hs). destruct (zassoc (pop s) ((L ++ Ea) ++ Eb)) as [c|] eqn:Ez; [|congruence].
      rewrite (zassoc_app_l _ _ Ec c Ez). discriminate. }
    split; [exists ((Ea ++ Eb) ++ Ec); rewrite !app_assoc; reflexivity|]. split.
    { intros x. rewrite HS3, HS2, HS1. cbn [pops_of flat_map fst snd]. rewrite !in_app_iff. tauto. }
    split; [auto|]. split.
    { intros p Hp. cbn [pops_of flat_map fst snd] in Hp. rewrite !in_app_iff in Hp.
      destruct Hp as [[Hp|Hp]|Hp].
      - apply in_map_iff in Hp. destruct Hp as [s [<- Hs]]. apply K1. exact Hs.
      - apply in_map_iff in Hp. destruct Hp as [s [<- Hs]]. apply K2. exact Hs.
      - apply Hall3. exact Hp. }
    assert (A1 : map_pop (code_of (L ++ Ea)) b1 = map_pop (code_of (((L ++ Ea) ++ Eb) ++ Ec)) b1).
    { apply map_pop_ext. intros s Hs. specialize (Hall1 s Hs).
      destruct (zassoc (pop s) (L ++ Ea)) as [c|] eqn:Ez; [|congruence].
      unfold code_of at 1. rewrite Ez. symmetry. apply code_of_ext. apply zassoc_app_l. exact Ez. }
    assert (A2 : map_pop (code_of ((L ++ Ea) ++ Eb)) b2 = map_pop (code_of (((L ++ Ea) ++ Eb) ++ Ec)) b2).
    { apply map_pop_ext. intros s Hs. specialize (Hall2 s Hs).
      destruct (zassoc (pop s) ((L ++ Ea) ++ Eb)) as [c|] eqn:Ez; [|congruence].
      unfold code_of at 1. rewrite Ez. symmetry. apply code_of_ext. exact Ez. }
    rewrite A1, A2. reflexivity.
Qed.

Definition seen_filter (Sf : list Z) (Lf : list (Z * Z)) : list (Z * Z) :=
  filter (fun kv => existsb (Z.eqb (fst kv)) Sf) Lf.

(* keys of the labels dictionary: only given labels and labels of the data *)
Lemma dict_set_keys k x v (d : list (Z * Z)) :
  In k (map fst (dict_set Z.eqb x v d)) -> k = x \/ In k (map fst d).
Proof.
  induction d as [|[k' v'] r IH]; cbn [dict_set map fst In].
  - intros [H|[]]. left. symmetry. exact H.
  - destruct (x =? k') eqn:E; cbn [map fst In]; [tauto|]. intros [H|H]; [tauto|]. destruct (IH H); tauto.
Qed.

Lemma enum_dict_keys g : forall i d k, In k (map fst (enum_dict i g d)) -> In k (map fst d) \/ In k g.
Proof.
  induction g as [|x g IH]; intros i d k; cbn [enum_dict]; [tauto|].
  intros H. apply IH in H. destruct H as [H|H]; [|right; right; exact H].
  apply dict_set_keys in H. destruct H as [->|H]; [right; left; reflexivity|left; exact H].
Qed.

Lemma enc_block_keys L S s s' L' S' k :
  enc_block (L, S) s = (s', (L', S')) -> In k (map fst L') -> In k (map fst L) \/ k = pop s.
Proof.
  unfold enc_block. destruct (zassoc (pop s) L); intros H; inversion H; subst; [tauto|].
  rewrite map_app. cbn [map fst]. intros Hin. apply in_app_or in Hin. destruct Hin as [Hin|[<-|[]]]; tauto.
Qed.

Lemma enc_blocks_keys l : forall L S l' L' S' k,
  enc_blocks (L, S) l = (l', (L', S')) -> In k (map fst L') -> In k (map fst L) \/ In k (map pop l).
Proof.
  induction l as [|s r IH]; intros L S l' L' S' k; cbn [enc_blocks].
  - intros H; inversion H; subst. tauto.
  - destruct (enc_block (L, S) s) as [s1 [L1 S1]] eqn:E1.
    destruct (enc_blocks (L1, S1) r) as [r1 [L2 S2]] eqn:E2.
    intros H; inversion H; subst. clear H. intros Hin.
    destruct (IH _ _ _ _ _ k E2 Hin) as [H1|H1]; [|right; right; exact H1].
    destruct (enc_block_keys _ _ _ _ _ _ k E1 H1) as [H2|H2]; [left; exact H2|right; left; symmetry; exact H2].
Qed.

Lemma enc_table_keys d : forall L S d' L' S' k,
  enc_table (L, S) d = (d', (L', S')) -> In k (map fst L') -> In k (map fst L) \/ In k (pops_of d).
Proof.
  induction d as [|[name [b1 b2]] r IH]; intros L S d' L' S' k; cbn [enc_table].
  - intros H; inversion H; subst. tauto.
  - destruct (enc_blocks (L, S) b1) as [b1' [L1 S1]] eqn:E1.
    destruct (enc_blocks (L1, S1) b2) as [b2' [L2 S2]] eqn:E2.
    destruct (enc_table (L2, S2) r) as [r' [L3 S3]] eqn:E3.
    intros H; inversion H; subst. clear H. intros Hin. cbn [pops_of flat_map fst snd]. rewrite !in_app_iff.
    destruct (IH _ _ _ _ _ k E3 Hin) as [H1|H1]; [|tauto].
    destruct (enc_blocks_keys _ _ _ _ _ _ k E2 H1) as [H2|H2]; [|tauto].
    destruct (enc_blocks_keys _ _ _ _ _ _ k E1 H2) as [H3|H3]; tauto.
Qed.

Definition given_list (given : option (list Z)) : list Z := match given with Some g => g | None => [] end.

(* encode either encodes the whole table or raises OverflowError (a code > 255) *)
Lemma encode_spec d given :
  exists Lf Sf,
    encode given (mkbp d None) =
      (if codes_fit (map_table (code_of Lf) d)
       then Ok (mkbp (map_table (code_of Lf) d) (Some (seen_filter Sf Lf))) else Err E_Overflow) /\
    (forall p, In p (pops_of d) -> In p Sf /\ zassoc p Lf <> None) /\
    (match given with Some g => NoDup g | None => True end -> linv Lf) /\
    (forall k, In k (map fst Lf) -> In k (given_list given) \/ In k (pops_of d)).
Proof.
  unfold encode. cbn [blabels bdata].
  set (l0 := match given with None => [] | Some g => enum_dict 0 g [] end).
  destruct (enc_table (l0, []) d) as [d' [Lf Sf]] eqn:E.
  pose proof (fun k => enc_table_keys d l0 [] d' Lf Sf k E) as HK.
  apply enc_table_spec in E. destruct E as [_ [HS [Hi [Hall ->]]]].
  exists Lf, Sf. split; [reflexivity|]. split; [|split].
  - intros p Hp. split; [apply HS; right; exact Hp|apply Hall; exact Hp].
  - intros Hg. apply Hi. unfold l0. destruct given as [g|]; [|apply linv_nil].
    apply (enum_dict_inv g [] Hg); [intros ? _ []|apply linv_nil].
  - intros k Hk. destruct (HK k Hk) as [H|H]; [|right; exact H]. left.
    unfold l0 in H. destruct given as [g|]; [|inversion H]. cbn [given_list].
    apply enum_dict_keys in H. destruct H as [[]|H]. exact H.
Qed.

Lemma codes_fit_map_table f d : (forall p, In p (pops_of d) -> f p <= 255) -> codes_fit (map_table f d) = true.
Proof.
  intros H. unfold codes_fit, map_table. apply forallb_forall. intros nsb Hin.
  apply in_map_iff in Hin. destruct Hin as [[name [b1 b2]] [<- Hin]]. cbn [fst snd map_strands].
  assert (K : forall b, (forall s, In s b -> In (pop s) (pops_of d)) -> fits8 (map_pop f b) = true).
  { intros b Hb. unfold fits8, map_pop. apply forallb_forall. intros s' Hs'. apply in_map_iff in Hs'.
    destruct Hs' as [s [<- Hs]]. cbn [pop set_pop]. apply Z.leb_le. apply H. apply Hb. exact Hs. }
  apply andb_true_iff. split; apply K; intros s Hs; unfold pops_of; apply in_flat_map;
    exists (name, (b1, b2)); (split; [exact Hin|]); cbn [fst snd]; apply in_or_app; [left|right]; apply in_map; exact Hs.
Qed.

(* with at most 256 distinct labels (given or present) every code fits np.uint8 *)
Lemma codes_fit_bound d given Lf :
  linv Lf -> (forall k, In k (map fst Lf) -> In k (given_list given) \/ In k (pops_of d)) ->
  (length (dedup (given_list given ++ pops_of d)) <= 256)%nat ->
  forall p, zassoc p Lf <> None -> code_of Lf p <= 255.
Proof.
  intros [Hk _ Hb] Hkeys Hlen p Hp. unfold code_of. destruct (zassoc p Lf) as [c|] eqn:E; [|congruence].
  apply zassoc_In in E. specialize (Hb _ E). cbn [snd] in Hb.
  assert (length (map fst Lf) <= length (dedup (given_list given ++ pops_of d)))%nat as Hl.
  { apply NoDup_incl_length; [exact Hk|]. intros k Hin. apply dedup_In. apply in_or_app. apply Hkeys. exact Hin. }
  rewrite map_length in Hl. unfold lenZ in Hb. lia.
Qed.

(* ---- recode inverts encode --------------------------------------------------- *)

Lemma unique_by_snd (F : list (Z * Z)) a b :
  NoDup (map snd F) -> In a F -> In b F -> snd a = snd b -> a = b.
Proof.
  induction F as [|x r IH]; intros Hn Ha Hb Hs; [inversion Ha|].
  cbn [map] in Hn. inversion Hn as [|? ? Hx Hr]; subst.
  destruct Ha as [->|Ha]; destruct Hb as [->|Hb]; [reflexivity| | |apply IH; assumption].
  - exfalso. apply Hx. rewrite Hs. apply in_map. exact Hb.
  - exfalso. apply Hx. rewrite <- Hs. apply in_map. exact Ha.
Qed.

Lemma label_of_unique F p c : NoDup (map snd F) -> In (p, c) F -> label_of F c = p.
Proof.
  intros Hn Hin. unfold label_of. destruct (find (fun kv => snd kv =? c) (rev F)) as [kv|] eqn:Ef.
  - apply find_some in Ef. destruct Ef as [Hk Hs]. apply in_rev in Hk. apply Z.eqb_eq in Hs.
    rewrite (unique_by_snd F kv (p, c) Hn Hk Hin Hs). reflexivity.
  - exfalso. assert (Hr : In (p, c) (rev F)) by (apply -> in_rev; exact Hin).
    pose proof (find_none _ _ Ef (p, c) Hr) as Hf. cbn [snd] in Hf. rewrite Z.eqb_refl in Hf. discriminate.
Qed.

Lemma NoDup_map_filter {A B} (f : A -> B) (g : A -> bool) l : NoDup (map f l) -> NoDup (map f (filter g l)).
Proof.
  induction l as [|a r IH]; cbn [map filter]; intros H; [constructor|].
  inversion H as [|? ? Ha Hr]; subst. destruct (g a); cbn [map]; [|apply IH; exact Hr].
  constructor; [|apply IH; exact Hr]. intros Hin. apply Ha. apply in_map_iff in Hin.
  destruct Hin as [x [Hx Hin]]. apply filter_In in Hin. rewrite <- Hx. apply in_map. tauto.
Qed.

Lemma set_pop_back s c : set_pop (set_pop s c) (pop s) = s.
Proof. destruct s. reflexivity. Qed.

Lemma mapM_map_id {A B} (f : B -> res A) (h : A -> B) l :
  (forall x, In x l -> f (h x) = Ok x) -> mapM f (map h l) = Ok l.
Proof.
  induction l as [|a r IH]; intros H; cbn [map mapM]; [reflexivity|].
  rewrite (H a (or_introl eq_refl)). cbn [bind]. rewrite IH; [reflexivity|].
  intros x Hx. apply H. right. exact Hx.
Qed.

Lemma rec_blocks_back F f l :
  l <> [] -> (forall s, In s l -> label_of F (f (pop s)) = pop s) -> rec_blocks F (map_pop f l) = Ok l.
Proof.
  intros Hne H. unfold rec_blocks. destruct (map_pop f l) as [|x0 t0] eqn:E.
  - destruct l; [congruence|discriminate].
  - rewrite <- E. f_equal. unfold map_pop. rewrite map_map. rewrite <- (map_id l) at 2.
    apply map_ext_in. intros s Hs. cbn [pop set_pop]. rewrite (H s Hs). apply set_pop_back.
Qed.

(* Encoding labels as integers and decoding restores the data - for any distinct labels
   given in any order (or none), provided every strand has a block (np.vectorize). *)
Theorem encode_recode_id d given :
  (match given with Some g => NoDup g | None => True end) ->
  (forall nsb, In nsb d -> fst (snd nsb) <> [] /\ snd (snd nsb) <> []) ->
  (length (dedup (given_list given ++ pops_of d)) <= 256)%nat ->
  exists st', encode given (mkbp d None) = Ok st' /\ recode st' = Ok (mkbp d None).
Proof.
  intros Hg Hne Hlen. destruct (encode_spec d given) as [Lf [Sf [He [Hall [Hi Hkeys]]]]].
  specialize (Hi Hg).
  rewrite codes_fit_map_table in He
    by (intros p Hp; apply (codes_fit_bound d given Lf Hi Hkeys Hlen); apply Hall; exact Hp).
  eexists. split; [exact He|]. destruct Hi as [_ Hcodes _].
  unfold recode. cbn [blabels bdata]. set (F := seen_filter Sf Lf).
  assert (HF : NoDup (map snd F)) by (apply NoDup_map_filter; exact Hcodes).
  assert (Hback : forall p, In p (pops_of d) -> label_of F (code_of Lf p) = p).
  { intros p Hp. destruct (Hall p Hp) as [Hs Hz]. unfold code_of.
    destruct (zassoc p Lf) as [c|] eqn:Ez; [|congruence]. apply label_of_unique; [exact HF|].
    unfold F, seen_filter. apply filter_In. split; [apply zassoc_In; exact Ez|].
    cbn [fst]. apply existsb_exists. exists p. split; [exact Hs|apply Z.eqb_refl]. }
  unfold map_table. rewrite mapM_map_id; [reflexivity|].
  intros [name [b1 b2]] Hin. cbn [fst snd map_strands]. destruct (Hne _ Hin) as [N1 N2]. cbn [fst snd] in N1, N2.
  assert (P1 : forall s, In s b1 -> In (pop s) (pops_of d)).
  { intros s Hs. unfold pops_of. apply in_flat_map. exists (name, (b1, b2)). split; [exact Hin|].
    cbn [fst snd]. apply in_or_app. left. apply in_map. exact Hs. }
  assert (P2 : forall s, In s b2 -> In (pop s) (pops_of d)).
  { intros s Hs. unfold pops_of. apply in_flat_map. exists (name, (b1, b2)). split; [exact Hin|].
    cbn [fst snd]. apply in_or_app. right. apply in_map. exact Hs. }
  rewrite rec_blocks_back; [|exact N1|intros s Hs; apply Hback; apply P1; exact Hs]. cbn [bind].
  rewrite rec_blocks_back; [|exact N2|intros s Hs; apply Hback; apply P2; exact Hs]. reflexivity.
Qed.

(* ---- queries on encoded data -------------------------------------------------- *)

Lemma label_at_map_pop f l c p : label_at (map_pop f l) c p = option_map f (label_at l c p).
Proof.
  induction l as [|s r IH]; [reflexivity|]. unfold map_pop in *. cbn [map label_at chrom endc pop set_pop].
  destruct ((chrom s =? c) && (p <=? endc s)); [reflexivity|exact IH].
Qed.

Lemma mapM_rmap {A B C} (f : A -> res B) (f' : A -> res C) (g : B -> C) l :
  (forall a, In a l -> f' a = rmap g (f a)) -> mapM f' l = rmap (map g) (mapM f l).
Proof.
  induction l as [|a r IH]; intros H; cbn [mapM]; [reflexivity|].
  rewrite (H a (or_introl eq_refl)). destruct (f a) as [b|k]; cbn [rmap bind]; [|reflexivity].
  rewrite IH by (intros x Hx; apply H; right; exact Hx).
  destruct (mapM f r); reflexivity.
Qed.

Lemma mapM_map {A B C} (f : B -> res C) (h : A -> B) l : mapM f (map h l) = mapM (fun a => f (h a)) l.
Proof. induction l as [|a r IH]; cbn [map mapM]; [reflexivity|]. rewrite IH. reflexivity. Qed.

Lemma combine_map {A B} (f : A -> B) r1 r2 :
  combine (map f r1) (map f r2) = map (fun c => (f (fst c), f (snd c))) (combine r1 r2).
Proof.
  revert r2. induction r1 as [|a r1 IH]; intros [|b r2]; cbn [map combine]; try reflexivity.
  cbn [fst snd]. f_equal. apply IH.
Qed.

Definition pair_map (f : Z -> Z) (c : Z * Z) : Z * Z := (f (fst c), f (snd c)).

Lemma strand_row_map_pop f l vs : strand_row (map_pop f l) vs = rmap (map f) (strand_row l vs).
Proof.
  rewrite !strand_row_cellwise. apply mapM_rmap. intros v _. unfold cell.
  rewrite label_at_map_pop. destruct (label_at l (vchrom v) (vpos v)); reflexivity.
Qed.

Lemma sample_rows_map f vs nsb :
  sample_rows vs (fst nsb, map_strands f (snd nsb)) = rmap (map (pair_map f)) (sample_rows vs nsb).
Proof.
  unfold sample_rows, map_strands. cbn [fst snd]. rewrite !strand_row_map_pop.
  destruct (strand_row (fst (snd nsb)) vs) as [r1|k]; cbn [rmap bind]; [|reflexivity].
  destruct (strand_row (snd (snd nsb)) vs) as [r2|k]; cbn [rmap bind]; [|reflexivity].
  f_equal. apply combine_map.
Qed.

Lemma zassoc_map_table f s d : zassoc s (map_table f d) = option_map (map_strands f) (zassoc s d).
Proof.
  unfold zassoc, map_table. induction d as [|[n sb] r IH]; cbn [map assoc fst snd]; [reflexivity|].
  destruct (s =? n); [reflexivity|exact IH].
Qed.

Lemma select_map_table f d req : select (map_table f d) req = rmap (map_table f) (select d req).
Proof.
  destruct req as [names|]; cbn [select rmap]; [|reflexivity].
  unfold map_table at 2. apply mapM_rmap. intros s _. rewrite zassoc_map_table.
  destruct (zassoc s d); reflexivity.
Qed.

(* a relabelling of the table relabels every answer and keeps every error *)
Lemma population_array_map_table f d vs req :
  population_array (map_table f d) vs req = rmap (map (map (pair_map f))) (population_array d vs req).
Proof.
  unfold population_array. rewrite select_map_table.
  destruct (select d req) as [tbl|k]; cbn [rmap bind]; [|reflexivity].
  unfold map_table. rewrite mapM_map. apply mapM_rmap. intros nsb _. apply sample_rows_map.
Qed.

Lemma map_table_ext f g d : (forall p, In p (pops_of d) -> f p = g p) -> map_table f d = map_table g d.
Proof.
  intros H. unfold map_table. apply map_ext_in. intros [name [b1 b2]] Hin. cbn [fst snd]. f_equal.
  unfold map_strands. cbn [fst snd]. f_equal; apply map_pop_ext; intros s Hs; apply H; unfold pops_of;
    apply in_flat_map; exists (name, (b1, b2)); (split; [exact Hin|]); cbn [fst snd]; apply in_or_app;
    [left|right]; apply in_map; exact Hs.
Qed.

(* encoded queries return the codes of the same labels (no hypothesis on the given labels) *)
Theorem encoded_lookup_commutes d given st' vs req :
  encode given (mkbp d None) = Ok st' ->
  exists labels, blabels st' = Some labels /\
    (forall p, In p (pops_of d) -> zassoc p labels <> None) /\
    bdata st' = map_table (code_of labels) d /\
    population_array (bdata st') vs req =
      rmap (map (map (pair_map (code_of labels)))) (population_array d vs req).
Proof.
  intros He. destruct (encode_spec d given) as [Lf [Sf [He' [Hall _]]]]. rewrite He' in He.
  destruct (codes_fit (map_table (code_of Lf) d)); [|discriminate].
  inversion He; subst st'. clear He. cbn [blabels bdata]. exists (seen_filter Sf Lf).
  assert (Hz : forall p, In p (pops_of d) -> zassoc p (seen_filter Sf Lf) = zassoc p Lf).
  { intros p Hp. unfold seen_filter. rewrite (zassoc_filter_key (fun k => existsb (Z.eqb k) Sf)).
    destruct (Hall p Hp) as [Hs _].
    replace (existsb (Z.eqb p) Sf) with true; [reflexivity|]. symmetry. apply existsb_exists.
    exists p. split; [exact Hs|apply Z.eqb_refl]. }
  assert (Ht : map_table (code_of Lf) d = map_table (code_of (seen_filter Sf Lf)) d).
  { apply map_table_ext. intros p Hp. unfold code_of. rewrite (Hz p Hp). reflexivity. }
  split; [reflexivity|]. split; [intros p Hp; rewrite (Hz p Hp); apply Hall; exact Hp|].
  split; [exact Ht|]. rewrite Ht. apply population_array_map_table.
Qed.

(* an encode that fails fails with OverflowError, and only when more than 256 distinct labels
   (given or present) would need a code *)
Theorem encode_error_is_overflow d given k :
  encode given (mkbp d None) = Err k ->
  k = E_Overflow /\
  ((match given with Some g => NoDup g | None => True end) ->
   (256 < length (dedup (given_list given ++ pops_of d)))%nat).
Proof.
  intros He. destruct (encode_spec d given) as [Lf [Sf [He' [Hall [Hi Hkeys]]]]]. rewrite He' in He.
  destruct (codes_fit (map_table (code_of Lf) d)) eqn:Ef; [discriminate|]. inversion He; subst k.
  split; [reflexivity|]. intros Hg. specialize (Hi Hg).
  destruct (Nat.lt_ge_cases 256 (length (dedup (given_list given ++ pops_of d)))) as [H|H]; [exact H|].
  exfalso. rewrite codes_fit_map_table in Ef; [discriminate|].
  intros p Hp. apply (codes_fit_bound d given Lf Hi Hkeys H). apply Hall. exact Hp.
Qed.

(* the state recode refuses: a strand without blocks (np.vectorize on a size-0 array) *)
Theorem recode_empty_strand st labels :
  blabels st = Some labels ->
  (exists nsb, In nsb (bdata st) /\ (fst (snd nsb) = [] \/ snd (snd nsb) = [])) ->
  recode st = Err E_Value.
Proof.
  intros Hl [nsb [Hin Hemp]]. unfold recode. rewrite Hl.
  rewrite (mapM_err_kind _ (bdata st) E_Value); [reflexivity| |].
  - intros a k _. unfold rec_blocks. destruct (fst (snd a)); cbn [bind]; [intros H; inversion H; reflexivity|].
    destruct (snd (snd a)); cbn [bind]; intros H; inversion H; reflexivity.
  - exists nsb. split; [exact Hin|]. exists E_Value. unfold rec_blocks.
    destruct Hemp as [->| ->]; cbn [bind]; [reflexivity|]. destruct (fst (snd nsb)); reflexivity.
Qed.

(* 256 labels are encoded and decoded; the 257th raises OverflowError and leaves the first
   strand encoded, the second untouched *)
Definition wide_strand (n : nat) : list seg := map (fun i => mkseg (1000 + Z.of_nat i) 1 (Z.of_nat i + 1) 0) (seq 0 n).

Example encode_256_labels :
  let d := [(0, (wide_strand 256, [mkseg 1000 1 5 0]))] in
  bind (encode None (mkbp d None)) recode = Ok (mkbp d None).
Proof. vm_compute. reflexivity. Qed.

Example encode_257_labels_overflow :
  let d := [(0, (wide_strand 256, [mkseg 1256 1 5 0]))] in
  encode None (mkbp d None) = Err E_Overflow /\
  (256 < length (dedup (pops_of d)))%nat /\
  encode_partial None d = [(0, (map (fun i => mkseg (Z.of_nat i) 1 (Z.of_nat i + 1) 0) (seq 0 256), [mkseg 1256 1 5 0]))].
Proof. vm_compute. repeat split. apply Nat.leb_le. reflexivity. Qed.

(* a label given twice is outside the encoder's domain: {pop: i} keeps its LAST index while the
   counter starts at the number of distinct labels, so a new label can receive a code that is
   taken - here labels 7 and 9 both get code 2 and decoding does not restore the data *)
Example encode_repeated_given_collides :
  let d := [(0, ([mkseg 7 1 10 0; mkseg 9 1 20 0], [mkseg 7 1 10 0]))] in
  exists st', encode (Some [7; 8; 7]) (mkbp d None) = Ok st' /\
              blabels st' = Some [(7, 2); (9, 2)] /\ recode st' <> Ok (mkbp d None).
Proof. eexists. vm_compute. repeat split. discriminate. Qed.

(* encoding keeps chromosomes and ends, hence the documented format; so the statement above
   also holds for the faithful model (numpy's bisection) on such a table *)
Lemma ends_on_map_pop f l c : map endc (on_chrom c (map_pop f l)) = map endc (on_chrom c l).
Proof.
  unfold on_chrom, map_pop. induction l as [|s r IH]; [reflexivity|]. cbn [map filter chrom set_pop].
  destruct (chrom s =? c); cbn [map endc set_pop]; rewrite IH; reflexivity.
Qed.

Lemma table_asc_map_table f d : table_asc d -> table_asc (map_table f d).
Proof.
  intros H nsb Hin. unfold map_table in Hin. apply in_map_iff in Hin. destruct Hin as [x [<- Hx]].
  destruct (H x Hx) as [H1 H2]. cbn [fst snd map_strands]. split; intros c; rewrite ends_on_map_pop; [apply H1|apply H2].
Qed.

Theorem encoded_lookup_commutes_np d given st' vs req :
  table_asc d -> encode given (mkbp d None) = Ok st' ->
  exists labels, blabels st' = Some labels /\
    population_array_np (bdata st') vs req =
      rmap (map (map (pair_map (code_of labels)))) (population_array_np d vs req).
Proof.
  intros Ha He. destruct (encoded_lookup_commutes d given st' vs req He) as [labels [Hl [_ [Hd Hp]]]].
  exists labels. split; [exact Hl|].
  rewrite (population_array_np_eq d vs req Ha).
  rewrite population_array_np_eq; [exact Hp|]. rewrite Hd. apply table_asc_map_table. exact Ha.
Qed.

(* satisfiability of the hypotheses, on the labels of tests/data/simple.bp *)
Example encode_recode_example :
  let d := [(0, ([mkseg 7 1 10122 3], [mkseg 8 1 10115 0; mkseg 7 1 10116 1; mkseg 9 1 10120 2; mkseg 7 1 10122 3]))] in
  exists st', encode (Some [9; 8; 7]) (mkbp d None) = Ok st' /\
              blabels st' = Some [(9, 0); (8, 1); (7, 2)] /\ recode st' = Ok (mkbp d None).
Proof. eexists. vm_compute. repeat split. Qed.

(* soundness of the codec checker: on a table of the codec's domain, holds_codec = true means
   the data observed after encode + recode is the original table *)
Lemma table_eqb_true a b : table_eqb a b = true -> a = b.
Proof.
  unfold table_eqb. apply list_eqb_spec. intros [n1 [x1 y1]] [n2 [x2 y2]].
  unfold pair_eqb, strands_eqb, pair_eqb. cbn [fst snd].
  assert (Hs : forall p q, segs_eqb p q = true <-> p = q) by (apply list_eqb_spec; exact seg_eqb_spec).
  rewrite !andb_true_iff, Z.eqb_eq, !Hs. split.
  - intros [-> [-> ->]]. reflexivity.
  - intros H; inversion H; subst. auto.
Qed.

(* inside the domain (at most 256 labels) a refusal is a violation *)
Theorem holds_codec_never_refuses k e :
  holds_codec k = true -> codec_domain k = true -> e_enc k <> Err e.
Proof.
  unfold holds_codec, codec_domain. intros H D. apply andb_true_iff in D. destruct D as [D0 Dn].
  rewrite D0 in H. intros He. rewrite He in H. apply Z.ltb_lt in H. apply Z.leb_le in Dn. lia.
Qed.

(* beyond it the only alternative to a refusal is a correct round trip: codes that wrapped
   around would not decode to the original data *)
Theorem holds_codec_beyond_256 k :
  holds_codec k = true -> codec_domain0 k = true ->
  (exists e, e_enc k = Err e /\ 256 < label_count k) \/ e_rec k = Ok (e_tbl k).
Proof.
  unfold holds_codec. intros H D0. rewrite D0 in H. destruct (e_enc k) as [[dd labels]|e0].
  - right. apply andb_true_iff in H. destruct H as [H _]. apply andb_true_iff in H. destruct H as [H _].
    destruct (e_rec k) as [t|e]; cbn in H; [|discriminate]. apply table_eqb_true in H. subst. reflexivity.
  - left. exists e0. split; [reflexivity|apply Z.ltb_lt; exact H].
Qed.

Theorem holds_codec_sound k :
  holds_codec k = true -> codec_domain k = true -> e_rec k = Ok (e_tbl k).
Proof.
  unfold holds_codec, codec_domain. intros H D. apply andb_true_iff in D. destruct D as [D0 Dn].
  rewrite D0 in H. destruct (e_enc k) as [[dd labels]|e0].
  - apply andb_true_iff in H. destruct H as [H _]. apply andb_true_iff in H. destruct H as [H _].
    destruct (e_rec k) as [t|e]; cbn in H; [|discriminate]. apply table_eqb_true in H. subst. reflexivity.
  - apply Z.ltb_lt in H. apply Z.leb_le in Dn. lia.
Qed.

(* ---- the encoded/decoded state machine; codes are injective and fit a byte ------------- *)

(* encode refuses encoded data, recode refuses decoded data: after a successful encode a
   second encode is refused, and after the recode that follows a second recode is refused *)
Theorem codec_state_guard d given st' :
  encode given (mkbp d None) = Ok st' ->
  (forall g2, encode g2 st' = Err E_Value) /\
  recode (mkbp d None) = Err E_Value /\
  (forall st'', recode st' = Ok st'' -> blabels st'' = None /\ recode st'' = Err E_Value).
Proof.
  intros He. destruct (encode_spec d given) as [Lf [Sf [He' _]]]. rewrite He' in He.
  destruct (codes_fit (map_table (code_of Lf) d)); [|discriminate].
  inversion He; subst st'. clear He. split; [|split].
  - intros g2. reflexivity.
  - reflexivity.
  - intros st'' Hr. unfold recode in Hr. cbn [blabels bdata] in Hr.
    match type of Hr with bind ?m _ = _ => destruct m as [dd|e]; cbn [bind] in Hr; [|discriminate] end.
    inversion Hr; subst st''. split; reflexivity.
Qed.

(* distinct labels present in the data get distinct codes, every code is in 0..255, and a
   given (distinct) label list fixes the code of each of its labels: its position *)
Theorem encode_codes_injective d given st' :
  (match given with Some g => NoDup g | None => True end) ->
  encode given (mkbp d None) = Ok st' ->
  exists labels, blabels st' = Some labels /\
    NoDup (map fst labels) /\ NoDup (map snd labels) /\
    (forall p, In p (pops_of d) -> 0 <= code_of labels p <= 255) /\
    (forall p q, In p (pops_of d) -> In q (pops_of d) ->
                 code_of labels p = code_of labels q -> p = q).
Proof.
  intros Hg He. destruct (encode_spec d given) as [Lf [Sf [He' [Hall [Hi _]]]]]. rewrite He' in He.
  destruct (codes_fit (map_table (code_of Lf) d)) eqn:Ef; [|discriminate].
  inversion He; subst st'. clear He. cbn [blabels]. exists (seen_filter Sf Lf).
  specialize (Hi Hg). destruct Hi as [Hk Hc Hb].
  assert (Hz : forall p, In p (pops_of d) -> zassoc p (seen_filter Sf Lf) = zassoc p Lf).
  { intros p Hp. unfold seen_filter. rewrite (zassoc_filter_key (fun k => existsb (Z.eqb k) Sf)).
    destruct (Hall p Hp) as [Hs _].
    replace (existsb (Z.eqb p) Sf) with true; [reflexivity|]. symmetry. apply existsb_exists.
    exists p. split; [exact Hs|apply Z.eqb_refl]. }
  split; [reflexivity|]. split; [apply NoDup_map_filter; exact Hk|].
  split; [apply NoDup_map_filter; exact Hc|]. split.
  - intros p Hp. unfold code_of. rewrite (Hz p Hp). destruct (Hall p Hp) as [_ Hn].
    destruct (zassoc p Lf) as [c|] eqn:Ez; [|congruence]. split.
    + apply zassoc_In in Ez. specialize (Hb _ Ez). cbn [snd] in Hb. lia.
    + (* the code was stored into a np.uint8 cell: codes_fit *)
      unfold codes_fit in Ef. rewrite forallb_forall in Ef.
      unfold pops_of in Hp. apply in_flat_map in Hp. destruct Hp as [[name [b1 b2]] [Hin Hp]].
      cbn [fst snd] in Hp.
      assert (Hin' : In (name, (map_pop (code_of Lf) b1, map_pop (code_of Lf) b2)) (map_table (code_of Lf) d)).
      { unfold map_table. apply in_map_iff. exists (name, (b1, b2)). split; [reflexivity|exact Hin]. }
      specialize (Ef _ Hin'). cbn [fst snd] in Ef. apply andb_true_iff in Ef. destruct Ef as [F1 F2].
      unfold fits8 in F1, F2. rewrite forallb_forall in F1, F2.
      assert (K : forall s, In s b1 \/ In s b2 -> code_of Lf (pop s) <= 255).
      { intros s [Hs|Hs]; [specialize (F1 (set_pop s (code_of Lf (pop s))))|specialize (F2 (set_pop s (code_of Lf (pop s))))];
          cbn [pop set_pop] in *; apply Z.leb_le; [apply F1|apply F2]; unfold map_pop; apply in_map_iff; exists s; split; auto. }
      apply in_app_or in Hp. destruct Hp as [Hp|Hp]; apply in_map_iff in Hp; destruct Hp as [s [Hs Hin2]];
        [specialize (K s (or_introl Hin2))|specialize (K s (or_intror Hin2))];
        rewrite Hs in K; unfold code_of in K; rewrite Ez in K; exact K.
  - intros p q Hp Hq. unfold code_of. rewrite (Hz p Hp), (Hz q Hq).
    destruct (Hall p Hp) as [_ Hnp]. destruct (Hall q Hq) as [_ Hnq].
    destruct (zassoc p Lf) as [c|] eqn:Ep; [|congruence].
    destruct (zassoc q Lf) as [c'|] eqn:Eq; [|congruence]. intros ->.
    apply zassoc_In in Ep. apply zassoc_In in Eq.
    pose proof (unique_by_snd Lf (p, c') (q, c') Hc Ep Eq eq_refl) as H. congruence.
Qed.

Theorem encode_codes_injective_example :
  let d := [(0, ([mkseg 7 1 10122 3], [mkseg 8 1 10115 0; mkseg 7 1 10116 1; mkseg 9 1 10120 2]))] in
  exists st', encode (Some [9; 8; 7]) (mkbp d None) = Ok st' /\
              map (code_of (match blabels st' with Some l => l | None => [] end)) [7; 8; 9] = [2; 1; 0] /\
              encode None st' = Err E_Value.
Proof. eexists. split; [vm_compute; reflexivity|]. split; vm_compute; reflexivity. Qed.
