(* C05 - the two levels composed: a table written to a .bp file, read back and queried
   (Breakpoints.write / read / population_array), stated on the strings of the file. *)
From HV Require Import Prelude Tracts BpText C05_Model C05_Check C05_Proofs C05_ProofsNp C05_ProofsText.

(* ---- keys --------------------------------------------------------------------- *)

Definition inj_on (key : str -> Z) (u : list str) : Prop :=
  forall a b, In a u -> In b u -> key a = key b -> a = b.

Lemma index_of_lt u s : In s u -> 0 <= index_of u s < lenZ u.
Proof.
  induction u as [|x r IH]; intros H; [inversion H|]. cbn [index_of]. unfold lenZ in *. cbn [length].
  destruct (str_eqb s x) eqn:E; [lia|].
  destruct H as [->|H]; [rewrite str_eqb_refl in E; discriminate|]. specialize (IH H). lia.
Qed.

Lemma index_of_nonneg u s : 0 <= index_of u s.
Proof. induction u as [|x r IH]; cbn [index_of]; [lia|]. destruct (str_eqb s x); lia. Qed.

(* the checker's key - the position in the list of all strings of the case - is injective on them *)
Theorem index_of_inj u : inj_on (index_of u) u.
Proof.
  unfold inj_on. induction u as [|x r IH]; intros a b Ha Hb; [inversion Ha|]. cbn [index_of].
  destruct (str_eqb a x) eqn:Ea; destruct (str_eqb b x) eqn:Eb.
  - apply str_eqb_spec in Ea. apply str_eqb_spec in Eb. congruence.
  - intros H. pose proof (index_of_nonneg r b). lia.
  - intros H. pose proof (index_of_nonneg r a). lia.
  - intros H. apply IH; [| |lia].
    + destruct Ha as [->|Ha]; [rewrite str_eqb_refl in Ea; discriminate|exact Ha].
    + destruct Hb as [->|Hb]; [rewrite str_eqb_refl in Eb; discriminate|exact Hb].
Qed.

Lemma inj_on_incl key u v : inj_on key u -> incl v u -> inj_on key v.
Proof. intros H Hi a b Ha Hb. apply H; apply Hi; assumption. Qed.

(* ---- label_at on interned blocks = clabel_at on the strings --------------------- *)

Lemma label_at_seg_of key l c p :
  inj_on key (c :: map c_chrom l) ->
  label_at (map (seg_of key) l) (key c) p = option_map key (clabel_at l c p).
Proof.
  induction l as [|b r IH]; intros Hinj; [reflexivity|].
  cbn [map label_at clabel_at seg_of chrom endc pop].
  assert (E : (key (c_chrom b) =? key c) = str_eqb (c_chrom b) c).
  { destruct (str_eqb (c_chrom b) c) eqn:Es.
    - apply str_eqb_spec in Es. rewrite Es. apply Z.eqb_refl.
    - apply Z.eqb_neq. intros Hk. apply Hinj in Hk; [|right; left; reflexivity|left; reflexivity].
      subst c. rewrite str_eqb_refl in Es. discriminate. }
  rewrite E. destruct (str_eqb (c_chrom b) c && (p <=? c_bp b)); [reflexivity|].
  apply IH. eapply inj_on_incl; [exact Hinj|]. intros x [<-|Hx]; [left; reflexivity|right; right; exact Hx].
Qed.

(* ---- write, read, query ---------------------------------------------------------- *)

(* Querying the file that write() wrote is querying the table itself: whatever the token
   codecs (with their round-trip hypotheses), the key, the queries and the request, and for
   either reader (with or without the field-width check) *)
Theorem file_lookup_written strict parse_int parse_flt fmt_int fmt_flt key d qs req :
  Forall (wf_sample parse_int parse_flt fmt_int fmt_flt) d -> NoDup (map fst d) ->
  file_lookup strict parse_int parse_flt key (bp_write fmt_int fmt_flt d) qs req =
  population_array_np (table_of key d) (map (var_of key) qs) (option_map (map key) req).
Proof.
  intros Hd Hn. unfold file_lookup. rewrite (bp_roundtrip strict parse_int parse_flt fmt_int fmt_flt d Hd Hn).
  reflexivity.
Qed.

Lemma Forall2_map_l {A A' B} (f : A -> A') (P : A' -> B -> Prop) l l' :
  Forall2 P (map f l) l' <-> Forall2 (fun a b => P (f a) b) l l'.
Proof.
  revert l'. induction l as [|a r IH]; intros l'; cbn [map]; split; intros H; inversion H; subst; constructor;
    try assumption; apply IH; assumption.
Qed.

Definition strs_of (d : ctable) (qs : list (str * Z)) : list str :=
  map fst qs ++ map c_chrom (blocks_of d).

Lemma blocks_of_in d sb b : In sb d -> In b (fst (snd sb) ++ snd (snd sb)) -> In b (blocks_of d).
Proof. intros H1 H2. unfold blocks_of. apply in_flat_map. exists sb. split; assumption. Qed.

Lemma cells_ok_strings key d qs sb row :
  inj_on key (strs_of d qs) -> In sb d ->
  cells_ok (map (seg_of key) (fst (snd sb)), map (seg_of key) (snd (snd sb))) (map (var_of key) qs) row ->
  Forall2 (fun q c => option_map key (clabel_at (fst (snd sb)) (fst q) (snd q)) = Some (fst c) /\
                      option_map key (clabel_at (snd (snd sb)) (fst q) (snd q)) = Some (snd c)) qs row.
Proof.
  intros Hinj Hin H. unfold cells_ok in H. apply Forall2_map_l in H. cbn [fst snd] in H.
  assert (K : forall q, In q qs -> forall l, incl l (fst (snd sb) ++ snd (snd sb)) ->
            label_at (map (seg_of key) l) (key (fst q)) (snd q) = option_map key (clabel_at l (fst q) (snd q))).
  { intros q Hq l Hl. apply label_at_seg_of. eapply inj_on_incl; [exact Hinj|].
    intros x [<-|Hx]; unfold strs_of; apply in_or_app; [left; apply in_map; exact Hq|right].
    apply in_map_iff in Hx. destruct Hx as [b [<- Hb]]. apply in_map. eapply blocks_of_in; [exact Hin|apply Hl; exact Hb]. }
  clear Hinj. induction H as [|q c qs' row' Hqc H IH]; constructor.
  - cbn [var_of vchrom vpos] in Hqc. destruct Hqc as [H1 H2].
    rewrite (K q (or_introl eq_refl) (fst (snd sb)) (incl_appl _ (incl_refl _))) in H1.
    rewrite (K q (or_introl eq_refl) (snd (snd sb)) (incl_appr _ (incl_refl _))) in H2. split; assumption.
  - apply IH. intros q' Hq'. apply K. right. exact Hq'.
Qed.

(* THE COMPOSITION, on the strings of the table (samples=None: every sample, table order):
   after write and read, the label reported for (sample, strand, chromosome, position) is the
   label of the first block of that strand on that chromosome whose end is >= the position;
   the only error is ValueError, and then some cell has no covering block *)
Theorem file_lookup_all_spec strict parse_int parse_flt fmt_int fmt_flt key d qs :
  Forall (wf_sample parse_int parse_flt fmt_int fmt_flt) d -> NoDup (map fst d) ->
  table_asc (table_of key d) -> inj_on key (strs_of d qs) ->
  match file_lookup strict parse_int parse_flt key (bp_write fmt_int fmt_flt d) qs None with
  | Ok arr =>
      Forall2 (fun sb row =>
        Forall2 (fun q c => option_map key (clabel_at (fst (snd sb)) (fst q) (snd q)) = Some (fst c) /\
                            option_map key (clabel_at (snd (snd sb)) (fst q) (snd q)) = Some (snd c)) qs row) d arr
  | Err k => k = E_Value /\ exists sb q, In sb d /\ In q qs /\
               (clabel_at (fst (snd sb)) (fst q) (snd q) = None \/ clabel_at (snd (snd sb)) (fst q) (snd q) = None)
  end.
Proof.
  intros Hd Hn Ha Hinj. rewrite (file_lookup_written strict parse_int parse_flt fmt_int fmt_flt key d qs None Hd Hn).
  cbn [option_map]. pose proof (population_array_np_all_spec (table_of key d) (map (var_of key) qs) Ha) as S.
  destruct (population_array_np (table_of key d) (map (var_of key) qs) None) as [arr|k].
  - unfold table_of in S. apply Forall2_map_l in S. cbn [snd] in S.
    assert (Hall : forall sb, In sb d -> In sb d) by auto. revert Hall S. generalize d at 1 3 4.
    intros d0 Hall S. induction S as [|sb row d' arr' Hc S IH]; constructor.
    + apply (cells_ok_strings key d qs sb row Hinj (Hall sb (or_introl eq_refl)) Hc).
    + apply IH. intros x Hx. apply Hall. right. exact Hx.
  - destruct S as [-> [nsb [Hin [v [Hv Hu]]]]]. split; [reflexivity|].
    unfold table_of in Hin. apply in_map_iff in Hin. destruct Hin as [sb [<- Hsb]]. cbn [fst snd] in Hu.
    apply in_map_iff in Hv. destruct Hv as [q [<- Hq]]. cbn [var_of vchrom vpos] in Hu.
    exists sb, q. split; [exact Hsb|]. split; [exact Hq|].
    assert (K : forall l, incl l (fst (snd sb) ++ snd (snd sb)) ->
              label_at (map (seg_of key) l) (key (fst q)) (snd q) = option_map key (clabel_at l (fst q) (snd q))).
    { intros l Hl. apply label_at_seg_of. eapply inj_on_incl; [exact Hinj|].
      intros x [<-|Hx]; unfold strs_of; apply in_or_app; [left; apply in_map; exact Hq|right].
      apply in_map_iff in Hx. destruct Hx as [b [<- Hb]]. apply in_map. eapply blocks_of_in; [exact Hsb|apply Hl; exact Hb]. }
    rewrite (K (fst (snd sb))) in Hu by (apply incl_appl; apply incl_refl).
    rewrite (K (snd (snd sb))) in Hu by (apply incl_appr; apply incl_refl).
    destruct Hu as [Hu|Hu]; [left|right];
      match type of Hu with option_map _ ?x = None => destruct x; [discriminate|reflexivity] end.
Qed.

(* ... and for requested samples, rows in request order (names through the key) *)
Theorem file_lookup_req_spec strict parse_int parse_flt fmt_int fmt_flt key d qs req :
  Forall (wf_sample parse_int parse_flt fmt_int fmt_flt) d -> NoDup (map fst d) ->
  table_asc (table_of key d) -> NoDup (map key req) ->
  match file_lookup strict parse_int parse_flt key (bp_write fmt_int fmt_flt d) qs (Some req) with
  | Ok arr =>
      Forall2 (fun s row => exists sb, zassoc (key s) (table_of key d) = Some sb /\
                                       cells_ok sb (map (var_of key) qs) row) req arr
  | Err k =>
      (k = E_Key /\ exists s, In s req /\ zassoc (key s) (table_of key d) = None) \/
      (k = E_Value /\ exists s sb, In s req /\ zassoc (key s) (table_of key d) = Some sb /\
                                   uncovered_cell sb (map (var_of key) qs))
  end.
Proof.
  intros Hd Hn Ha Hr. rewrite (file_lookup_written strict parse_int parse_flt fmt_int fmt_flt key d qs (Some req) Hd Hn).
  cbn [option_map].
  pose proof (population_array_np_spec (table_of key d) (map (var_of key) qs) (map key req) Ha Hr) as S.
  destruct (population_array_np (table_of key d) (map (var_of key) qs) (Some (map key req))) as [arr|k].
  - apply Forall2_map_l in S. exact S.
  - destruct S as [[-> [s [Hs Hz]]]|[-> [s [sb [Hs H]]]]].
    + left. split; [reflexivity|]. apply in_map_iff in Hs. destruct Hs as [s0 [<- Hs0]]. exists s0. split; assumption.
    + right. split; [reflexivity|]. apply in_map_iff in Hs. destruct Hs as [s0 [<- Hs0]]. exists s0, sb. split; assumption.
Qed.

(* the hypotheses are satisfiable, and the boundary is end-inclusive: two blocks "Y" (end 10)
   and "C" (end 20) on chromosome "1", queried at 10, 11 and 20 through the toy codec *)
Example file_lookup_example :
  let d : ctable := [([97], ([mkcb [89] [49] 10 7; mkcb [67] [49] 20 8], [mkcb [67] [49] 20 8]))] in
  let u := [[97]; [89]; [67]; [49]] in
  Forall (wf_sample toy_parse toy_parse toy_fmt toy_fmt) d /\ NoDup (map fst d) /\
  table_asc (table_of (index_of u) d) /\ inj_on (index_of u) (strs_of d [([49], 10); ([49], 11); ([49], 20)]) /\
  file_lookup false toy_parse toy_parse (index_of u) (bp_write toy_fmt toy_fmt d) [([49], 10); ([49], 11); ([49], 20)] None
    = Ok [[(1, 2); (2, 2); (2, 2)]].
Proof.
  cbv zeta. split; [|split; [|split; [|split]]].
  - repeat constructor; cbn; lia.
  - repeat constructor; cbn; intuition discriminate.
  - apply table_ascb_spec. vm_compute. reflexivity.
  - eapply inj_on_incl; [apply index_of_inj|]. intros x Hx. cbn in Hx. cbn. intuition.
  - vm_compute. reflexivity.
Qed.

(* THE DEFECT of the reader without the field-width check: chromosome names "ABCDEFGHIJK" and
   "ABCDEFGHIJL" (11 characters) are both stored as "ABCDEFGHIJ"; a query for ("ABCDEFGHIJ", 100)
   - a chromosome the first strand lacks - is answered with label "C", the last block of the
   OTHER contig (merged ends [100; 50; 300], bisection), instead of being rejected.  The reader
   with the check refuses the file. *)
Example legacy_long_chrom_collision_refuted :
  let c10 := [65; 66; 67; 68; 69; 70; 71; 72; 73; 74] in
  let c1 := c10 ++ [75] in let c2 := c10 ++ [76] in
  let d : ctable := [([97], ([mkcb [65] c1 100 0; mkcb [66] c2 50 0; mkcb [67] c2 300 0], [mkcb [65] c1 400 0]))] in
  let u := [[97]; [65]; [66]; [67]; c1; c2; c10] in
  let file := bp_write toy_fmt toy_fmt d in
  clabel_at (fst (snd (nth 0 d ([], ([], []))))) c10 100 = None /\
  file_lookup false toy_parse toy_parse (index_of u) file [(c10, 100)] None = Ok [[(index_of u [67], index_of u [65])]] /\
  file_lookup true toy_parse toy_parse (index_of u) file [(c10, 100)] None = Err E_Value.
Proof. vm_compute. repeat split. Qed.

(* ---- soundness of holds_flookup ---------------------------------------------------- *)

Theorem holds_flookup_sound k req :
  holds_flookup k = true -> fl_domain k = true -> fl_req k = Some req ->
  let key := fl_key k in
  let d := table_of key (fl_tbl k) in
  let vs := map (var_of key) (fl_qs k) in
  nodupb (map key req) = true -> nodupb (map fst d) = true ->
  match fl_obsZ k with
  | Ok arr => Forall2 (fun s row => exists sb, zassoc s d = Some sb /\ cells_ok sb vs row) (map key req) arr
  | Err _ => (exists s, In s (map key req) /\
                (zassoc s d = None \/ exists sb, zassoc s d = Some sb /\ uncovered_cell sb vs))
             \/ long_chrom (fl_tbl k) = true
  end.
Proof.
  unfold holds_flookup. intros H D Hr. rewrite D, Hr in H. cbn [option_map] in H. cbv zeta. intros N1 N2.
  destruct (fl_obsZ k) as [arr|e].
  - apply (holds_lookup_sound _ _ _ (Ok arr) H N1 N2).
  - apply orb_true_iff in H. destruct H as [H|H]; [left|right; exact H].
    apply (holds_lookup_sound _ _ _ (Err e) H N1 N2).
Qed.

(* inside the domain the table is in the documented format and, unless the reader refuses
   them, chromosome names fit the field *)
Theorem fl_domain_sound k :
  fl_domain k = true ->
  table_asc (table_of (fl_key k) (fl_tbl k)) /\ (fl_strict k = false -> long_chrom (fl_tbl k) = false).
Proof.
  unfold fl_domain. intros H. repeat (apply andb_true_iff in H; destruct H as [H ?]).
  split; [apply table_ascb_spec; assumption|]. intros Hs.
  match goal with Hx : (fl_strict k || _) = true |- _ => rewrite Hs in Hx; cbn [orb] in Hx; apply negb_true_iff in Hx; exact Hx end.
Qed.
