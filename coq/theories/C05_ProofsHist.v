(* C05 - histories of calls sharing their argument objects (C05_CheckHist): the model is pure,
   so a request is answered the same way however often it is made; the written subset reads
   back identical; soundness of holds_hist's fold; a reader that consumes its request, refuted. *)
From HV Require Import Prelude Tracts BpText C05_Model C05_Check C05_CheckHist C05_Proofs C05_ProofsText.

(* ---- files: a dictionary keyed by small integers ------------------------------------- *)

Lemma zassoc_fset_same {V} f (v : V) d : zassoc f (fset f v d) = Some v.
Proof.
  unfold fset, zassoc. induction d as [|[k w] r IH]; cbn [dict_set assoc].
  - rewrite Z.eqb_refl. reflexivity.
  - destruct (f =? k) eqn:E; cbn [assoc]; rewrite E; [reflexivity|exact IH].
Qed.

Lemma zassoc_fset_other {V} f g (v : V) d : g <> f -> zassoc f (fset g v d) = zassoc f d.
Proof.
  intros Hne. unfold fset, zassoc. induction d as [|[k w] r IH]; cbn [dict_set assoc].
  - destruct (f =? g) eqn:E; [apply Z.eqb_eq in E; congruence|reflexivity].
  - destruct (g =? k) eqn:E; cbn [assoc].
    + apply Z.eqb_eq in E. subst k. destruct (f =? g) eqn:E2; [apply Z.eqb_eq in E2; congruence|reflexivity].
    + destruct (f =? k); [reflexivity|exact IH].
Qed.

Lemma res_ctable_eqb_true (r : res ctable) t : res_eqb ctable_eqb r (Ok t) = true -> r = Ok t.
Proof. destruct r as [d|e]; cbn [res_eqb]; intros H; [|discriminate]. apply ctable_eqb_true in H. subst. reflexivity. Qed.

(* ---- the requested samples of a table ---------------------------------------------- *)

Lemma restrict_idem req d : restrict req (restrict req d) = restrict req d.
Proof.
  unfold restrict. induction d as [|a r IH]; cbn [filter]; [reflexivity|].
  destruct (selected req (fst a)) eqn:E; cbn [filter]; [rewrite E, IH; reflexivity|exact IH].
Qed.

Lemma Forall_restrict (P : str * (list cblk * list cblk) -> Prop) req d : Forall P d -> Forall P (restrict req d).
Proof.
  intros H. apply Forall_forall. intros x Hx. unfold restrict in Hx. apply filter_In in Hx.
  rewrite Forall_forall in H. apply H. tauto.
Qed.

(* ---- the model: the same request gets the same answer, however often it is made ------- *)

Section Model.
Variable strict : bool.
Variable parse_int parse_flt : str -> res Z.
Variable fmt_int fmt_flt : Z -> str.
Variable key : str -> Z.
Variable req : option (list str).
Variable qs : list (str * Z).
Variable order : option (list str).

Notation hrun' := (hrun strict parse_int parse_flt fmt_int fmt_flt key req qs order).
Notation hstep' := (hstep strict parse_int parse_flt fmt_int fmt_flt key req qs order).

Definition no_write (op : hop) : bool := match op with HWrite _ => false | _ => true end.

Lemma hstep_files op st : no_write op = true -> hs_files (fst (hstep' st op)) = hs_files st.
Proof.
  destruct op as [f|f|]; cbn [no_write hstep]; intros H; try discriminate.
  - destruct (zassoc f (hs_files st)) as [ls|]; [|reflexivity].
    cbn [fst]. destruct (bp_read strict parse_int parse_flt req ls); reflexivity.
  - destruct (hs_cur st); reflexivity.
Qed.

(* In a history of reads and lookups every read of file f - the first, the second, the n-th -
   returns what a single read of f with that request returns. *)
Theorem hrun_reads_same_answer ops : forall st i f ls,
  forallb no_write ops = true ->
  nth_error ops i = Some (HRead f) -> zassoc f (hs_files st) = Some ls ->
  nth_error (hrun' st ops) i = Some (MRead (bp_read strict parse_int parse_flt req ls)).
Proof.
  induction ops as [|op r IH]; intros st i f ls Hnw Hn Hf; [destruct i; discriminate|].
  cbn [forallb] in Hnw. apply andb_true_iff in Hnw. destruct Hnw as [Hop Hr].
  cbn [hrun]. destruct i as [|i]; cbn [nth_error] in *.
  - inversion Hn; subst op. cbn [hstep]. rewrite Hf. reflexivity.
  - apply (IH _ _ f ls Hr Hn). rewrite (hstep_files op st Hop). exact Hf.
Qed.

Theorem read_idempotent_request n : forall files cur f ls,
  zassoc f files = Some ls ->
  hrun' (mkhs files cur) (repeat (HRead f) n) = repeat (MRead (bp_read strict parse_int parse_flt req ls)) n.
Proof.
  induction n as [|n IH]; intros files cur f ls Hf; [reflexivity|].
  cbn [repeat hrun hstep hs_files]. rewrite Hf. cbn [snd fst]. f_equal.
  destruct (bp_read strict parse_int parse_flt req ls) eqn:E; cbn [hs_files]; rewrite <- E; apply IH; exact Hf.
Qed.

(* read a subset, write it (to any file), read that file with the same request: the same
   samples, order, labels, chromosomes, positions and centimorgan values - for every codec
   with the round-trip hypotheses, either reader *)
Theorem hist_subset_roundtrip d g :
  Forall (wf_sample parse_int parse_flt fmt_int fmt_flt) d -> NoDup (map fst d) ->
  hrun' (mkhs [(0, bp_write fmt_int fmt_flt d)] None) [HRead 0; HWrite g; HRead g] =
  [MRead (Ok (restrict req d)); MWrite (Ok (bp_write fmt_int fmt_flt (restrict req d)));
   MRead (Ok (restrict req d))].
Proof.
  intros Hd Hn.
  assert (R1 : bp_read strict parse_int parse_flt req (bp_write fmt_int fmt_flt d) = Ok (restrict req d)).
  { exact (bp_roundtrip_subset strict parse_int parse_flt fmt_int fmt_flt req d Hd Hn). }
  assert (R2 : bp_read strict parse_int parse_flt req (bp_write fmt_int fmt_flt (restrict req d))
               = Ok (restrict req d)).
  { rewrite <- (restrict_idem req d) at 2.
    apply (bp_roundtrip_subset strict parse_int parse_flt fmt_int fmt_flt req (restrict req d)).
    - apply Forall_restrict. exact Hd.
    - unfold restrict. apply NoDup_keys_filter. exact Hn. }
  cbn [hrun hstep hs_files hs_cur zassoc assoc fst snd]. rewrite Z.eqb_refl. rewrite R1. cbn [hs_files hs_cur fst snd].
  rewrite zassoc_fset_same. rewrite R2. reflexivity.
Qed.
End Model.

(* ---- soundness of the fold holds_run -------------------------------------------------- *)

Section Sound.
Variable key : str -> Z.
Variable req : option (list str).
Variable qs : list (str * Z).
Variable order : option (list str).

Notation holds_run' := (holds_run key req qs order).
Notation sstep' := (sstep req).

Definition srun (s : sstate) (ops : list hop) : sstate := fold_left sstep' ops s.

Lemma holds_run_app ops1 : forall s obs1 ops2 obs2,
  length ops1 = length obs1 ->
  holds_run' s (ops1 ++ ops2) (obs1 ++ obs2) = true ->
  holds_run' (srun s ops1) ops2 obs2 = true.
Proof.
  induction ops1 as [|op r IH]; intros s [|o obs1] ops2 obs2 Hl H; cbn [length] in Hl; try discriminate.
  - exact H.
  - cbn [app holds_run] in H. destruct (obs_ok key req qs order s op o); [|discriminate].
    cbn [srun fold_left]. apply (IH _ obs1); [lia|exact H].
Qed.

Lemma hist_wf_app ops1 : forall s ops2,
  hist_wf req s (ops1 ++ ops2) = true -> hist_wf req (srun s ops1) ops2 = true.
Proof.
  induction ops1 as [|op r IH]; intros s ops2 H; [exact H|].
  cbn [app hist_wf] in H. apply andb_true_iff in H. cbn [srun fold_left]. apply IH. tauto.
Qed.

Lemma sstep_file_unchanged s op f : (forall g, op = HWrite g -> g <> f) -> zassoc f (fst (sstep' s op)) = zassoc f (fst s).
Proof.
  intros H. destruct op as [g|g|]; cbn [sstep].
  - destruct (zassoc g (fst s)); reflexivity.
  - destruct (snd s); [|reflexivity]. cbn [fst]. apply zassoc_fset_other. apply H. reflexivity.
  - reflexivity.
Qed.

Lemma srun_file_unchanged ops : forall s f,
  (forall g, In (HWrite g) ops -> g <> f) -> zassoc f (fst (srun s ops)) = zassoc f (fst s).
Proof.
  induction ops as [|op r IH]; intros s f H; [reflexivity|]. cbn [srun fold_left].
  change (fold_left sstep' r (sstep' s op)) with (srun (sstep' s op) r).
  rewrite IH; [|intros g Hg; apply H; right; exact Hg].
  apply sstep_file_unchanged. intros g ->. apply H. left. reflexivity.
Qed.

(* what holds_run demands of one read: the requested samples of the table the file holds *)
Lemma read_step s f r a rest orest :
  holds_run' s (HRead f :: rest) (ORead r a :: orest) = true ->
  hist_wf req s (HRead f :: rest) = true ->
  exists t, zassoc f (fst s) = Some t /\ r = Ok (restrict req t)
            /\ holds_run' (fst s, Some (restrict req t)) rest orest = true
            /\ hist_wf req (fst s, Some (restrict req t)) rest = true.
Proof.
  cbn [holds_run obs_ok hist_wf op_wf sstep]. intros H W.
  destruct (zassoc f (fst s)) as [t|]; [|discriminate]. exists t.
  destruct (res_eqb ctable_eqb r (Ok (restrict req t))) eqn:E; [|discriminate].
  apply res_ctable_eqb_true in E. cbn [andb] in W. tauto.
Qed.

Theorem holds_run_read_sound ops1 f ops3 obs1 r a obs3 s :
  holds_run' s (ops1 ++ HRead f :: ops3) (obs1 ++ ORead r a :: obs3) = true ->
  hist_wf req s (ops1 ++ HRead f :: ops3) = true ->
  length ops1 = length obs1 ->
  exists t, zassoc f (fst (srun s ops1)) = Some t /\ r = Ok (restrict req t).
Proof.
  intros H W L. apply (holds_run_app ops1 s obs1) in H; [|exact L]. apply hist_wf_app in W.
  destruct (read_step _ _ _ _ _ _ H W) as [t [Ht [Hr _]]]. exists t. tauto.
Qed.

(* "every call returns the requested samples - the second call's result equals the first's":
   two reads of one file, with any calls between them that do not write that file *)
Theorem holds_run_reads_equal ops1 f ops2 ops3 obs1 r1 a1 obs2 r2 a2 obs3 s :
  holds_run' s (ops1 ++ HRead f :: ops2 ++ HRead f :: ops3)
               (obs1 ++ ORead r1 a1 :: obs2 ++ ORead r2 a2 :: obs3) = true ->
  hist_wf req s (ops1 ++ HRead f :: ops2 ++ HRead f :: ops3) = true ->
  length ops1 = length obs1 -> length ops2 = length obs2 ->
  (forall g, In (HWrite g) ops2 -> g <> f) ->
  r2 = r1 /\ exists t, r1 = Ok (restrict req t).
Proof.
  intros H W L1 L2 Hnw. apply (holds_run_app ops1 s obs1) in H; [|exact L1]. apply hist_wf_app in W.
  destruct (read_step _ _ _ _ _ _ H W) as [t [Ht [Hr1 [H' W']]]].
  apply (holds_run_app ops2 _ obs2) in H'; [|exact L2]. apply hist_wf_app in W'.
  destruct (read_step _ _ _ _ _ _ H' W') as [t' [Ht' [Hr2 _]]].
  rewrite (srun_file_unchanged ops2 _ f Hnw) in Ht'. cbn [fst] in Ht'. rewrite Ht in Ht'. inversion Ht'; subst t'.
  split; [congruence|exists t; exact Hr1].
Qed.

(* "writing breakpoints and reading them back yields identical samples ...": a read, a write
   of what it loaded to any file, a read of that file with the same request *)
Theorem holds_run_written_reads_back ops1 f g ops3 obs1 r1 a1 w r2 a2 obs3 s :
  holds_run' s (ops1 ++ HRead f :: HWrite g :: HRead g :: ops3)
               (obs1 ++ ORead r1 a1 :: w :: ORead r2 a2 :: obs3) = true ->
  hist_wf req s (ops1 ++ HRead f :: HWrite g :: HRead g :: ops3) = true ->
  length ops1 = length obs1 ->
  r2 = r1 /\ exists t, r1 = Ok (restrict req t).
Proof.
  intros H W L1. apply (holds_run_app ops1 s obs1) in H; [|exact L1]. apply hist_wf_app in W.
  destruct (read_step _ _ _ _ _ _ H W) as [t [Ht [Hr1 [H' W']]]].
  assert (H2 : holds_run' (fset g (restrict req t) (fst (srun s ops1)), Some (restrict req t))
                          (HRead g :: ops3) (ORead r2 a2 :: obs3) = true).
  { cbn [holds_run] in H'. destruct (obs_ok key req qs order _ (HWrite g) w); [|discriminate]. exact H'. }
  assert (W2 : hist_wf req (fset g (restrict req t) (fst (srun s ops1)), Some (restrict req t)) (HRead g :: ops3) = true).
  { cbn [hist_wf] in W'. apply andb_true_iff in W'. destruct W' as [_ W']. exact W'. }
  destruct (read_step _ _ _ _ _ _ H2 W2) as [t' [Ht' [Hr2 _]]]. cbn [fst] in Ht'.
  rewrite zassoc_fset_same in Ht'. inversion Ht'; subst t'. rewrite restrict_idem in Hr2.
  split; [congruence|exists t; exact Hr1].
Qed.

(* what holds_run demands of a lookup: holds_lookup_gen on the table loaded last *)
Theorem holds_run_look_sound ops1 ops3 obs1 r qa oa obs3 s :
  holds_run' s (ops1 ++ HLook :: ops3) (obs1 ++ OLook r qa oa :: obs3) = true ->
  hist_wf req s (ops1 ++ HLook :: ops3) = true ->
  length ops1 = length obs1 ->
  exists d, snd (srun s ops1) = Some d /\
    holds_lookup_gen (table_of key d) (map (var_of key) qs) (option_map (map key) order) (obsZ key r) = true.
Proof.
  intros H W L. apply (holds_run_app ops1 s obs1) in H; [|exact L]. apply hist_wf_app in W.
  cbn [holds_run obs_ok hist_wf op_wf] in H, W. destruct (snd (srun s ops1)) as [d|]; [|discriminate].
  exists d. split; [reflexivity|]. unfold look_ok in H.
  destruct (holds_lookup_gen (table_of key d) (map (var_of key) qs) (option_map (map key) order) (obsZ key r));
    [reflexivity|discriminate].
Qed.
End Sound.

(* ---- agree: the argument objects are what they were ------------------------------------- *)

Lemma strs_eqb_true a b : strs_eqb a b = true -> a = b.
Proof. apply list_eqb_spec. apply str_eqb_spec. Qed.

Lemma qs_eqb_true a b : qs_eqb a b = true -> a = b.
Proof.
  apply list_eqb_spec. intros [s1 z1] [s2 z2]. unfold pair_eqb. cbn [fst snd]. rewrite andb_true_iff, Z.eqb_eq.
  split; [intros [H1 H2]; apply str_eqb_spec in H1; congruence|intros H; inversion H; subst; rewrite str_eqb_refl; auto].
Qed.

Definition args_unchanged (k : hcase) (o : hobs) : Prop :=
  match o with
  | ORead _ a => a = h_req k
  | OWrite _ => True
  | OLook _ qa oa => qa = h_qs k /\ oa = h_order k
  end.

Theorem hist_agree_args_unchanged k ms : forall obs,
  forallb2 (obs_agree k) ms obs = true -> Forall (args_unchanged k) obs.
Proof.
  induction ms as [|m r IH]; intros [|o obs] H; cbn [forallb2] in H; try discriminate; [constructor|].
  apply andb_true_iff in H. destruct H as [Ho Hr]. constructor; [|apply IH; exact Hr].
  destruct m, o; cbn [obs_agree] in Ho; try discriminate; cbn [args_unchanged]; [| exact I |].
  - apply andb_true_iff in Ho. destruct Ho as [_ Ha].
    apply (proj1 (opt_eqb_spec strs_eqb (fun a b => conj (strs_eqb_true a b)
             (fun E => eq_ind_r (fun x => strs_eqb x b = true) (proj2 (list_eqb_spec _ str_eqb_spec b b) eq_refl) E)) _ _)) in Ha.
    symmetry. exact Ha.
  - apply andb_true_iff in Ho. destruct Ho as [Ho Hoa]. apply andb_true_iff in Ho. destruct Ho as [_ Hqa].
    apply qs_eqb_true in Hqa.
    apply (proj1 (opt_eqb_spec strs_eqb (fun a b => conj (strs_eqb_true a b)
             (fun E => eq_ind_r (fun x => strs_eqb x b = true) (proj2 (list_eqb_spec _ str_eqb_spec b b) eq_refl) E)) _ _)) in Hoa.
    split; symmetry; assumption.
Qed.

(* ---- a reader that consumes its request -------------------------------------------------- *)

(* what the early stop "discard every sample that has been output from the caller's set" does
   to a caller: the call itself answers correctly, the set comes back without the samples it
   named, and the next call with that set loads nothing *)
Definition read_consuming (strict : bool) (pi pf : str -> res Z) (req : list str) (ls : list (list str))
  : res ctable * list str :=
  let r := bp_read strict pi pf (Some req) ls in
  (r, match r with
      | Ok d => filter (fun s => negb (existsb (str_eqb s) (map fst d))) req
      | Err _ => req
      end).

Definition toy_tbl : ctable :=
  [([97], ([mkcb [89] [49] 10 7], [mkcb [67] [49] 10 8]));
   ([98], ([mkcb [67] [49] 10 7], [mkcb [89] [49] 10 8]))].

Example consuming_reader_refuted :
  let ls := bp_write toy_fmt toy_fmt toy_tbl in
  let req := [[97]] in
  let c1 := read_consuming true toy_parse toy_parse req ls in
  let c2 := read_consuming true toy_parse toy_parse (snd c1) ls in
  (* the first call is right, and is what the pure reader answers every time *)
  fst c1 = Ok (restrict (Some req) toy_tbl) /\
  hrun true toy_parse toy_parse toy_fmt toy_fmt (fun _ => 0) (Some req) [] None (mkhs [(0, ls)] None) [HRead 0; HRead 0]
    = [MRead (fst c1); MRead (fst c1)] /\
  (* the caller's set is empty afterwards; the second call with it returns no sample *)
  snd c1 = [] /\ fst c2 = Ok [] /\
  (* the checker rejects such a pair of observations, and accepts the pure reader's *)
  holds_run (fun _ => 0) (Some req) [] None ([(0, toy_tbl)], None) [HRead 0; HRead 0]
            [ORead (fst c1) (Some (snd c1)); ORead (fst c2) (Some (snd c2))] = false /\
  holds_run (fun _ => 0) (Some req) [] None ([(0, toy_tbl)], None) [HRead 0; HRead 0]
            [ORead (fst c1) (Some req); ORead (fst c1) (Some req)] = true.
Proof. vm_compute. repeat split; reflexivity. Qed.

(* the hypotheses of hist_subset_roundtrip are satisfiable, and its conclusion computed *)
Example hist_subset_roundtrip_example :
  Forall (wf_sample toy_parse toy_parse toy_fmt toy_fmt) toy_tbl /\ NoDup (map fst toy_tbl) /\
  hrun true toy_parse toy_parse toy_fmt toy_fmt (fun _ => 0) (Some [[98]]) [] None
       (mkhs [(0, bp_write toy_fmt toy_fmt toy_tbl)] None) [HRead 0; HWrite 2; HRead 2]
  = [MRead (Ok (restrict (Some [[98]]) toy_tbl));
     MWrite (Ok (bp_write toy_fmt toy_fmt (restrict (Some [[98]]) toy_tbl)));
     MRead (Ok (restrict (Some [[98]]) toy_tbl))].
Proof.
  split; [|split].
  - repeat constructor; cbn; try lia.
  - repeat constructor; cbn; intuition discriminate.
  - vm_compute. reflexivity.
Qed.
