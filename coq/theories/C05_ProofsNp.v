(* C05 - numpy's bisection (np.searchsorted as numpy 2.x computes it) is the linear scan
   [first_ge] on ascending arrays; hence the faithful model of _find_blocks /
   population_array ([_np]) equals the reference model of C05_Proofs on every table whose
   block ends are ascending within a strand and chromosome, and satisfies its theorems. *)
From HV Require Import Prelude Tracts BpText C05_Model C05_Check C05_Proofs.

(* ---- ascending arrays -------------------------------------------------------- *)

Lemma ascending_tail a r : ascending (a :: r) = true -> ascending r = true.
Proof. cbn [ascending]. intros H. apply andb_true_iff in H. tauto. Qed.

Lemma ascending_head_le a r x : ascending (a :: r) = true -> In x r -> a <= x.
Proof.
  revert a. induction r as [|b r IH]; intros a H Hx; [inversion Hx|].
  cbn [ascending] in H. apply andb_true_iff in H. destruct H as [H1 H2]. apply Z.leb_le in H1.
  destruct Hx as [<-|Hx]; [exact H1|]. specialize (IH b H2 Hx). lia.
Qed.

(* on an ascending array an element below the key lies before [first_ge] *)
Lemma first_ge_after es k j :
  ascending es = true -> (j < length es)%nat -> nth j es 0 < k -> (j < first_ge es k)%nat.
Proof.
  revert j. induction es as [|e r IH]; intros j Ha Hj Hlt; cbn [length] in Hj; [lia|].
  cbn [first_ge]. destruct (k <=? e) eqn:E.
  - exfalso. apply Z.leb_le in E. destruct j as [|j]; cbn [nth] in Hlt; [lia|].
    assert (In (nth j r 0) r) as Hin by (apply nth_In; lia).
    pose proof (ascending_head_le e r _ Ha Hin). lia.
  - destruct j as [|j]; [lia|]. cbn [nth] in Hlt.
    apply ascending_tail in Ha. specialize (IH j Ha). lia.
Qed.

(* on any array an element at or above the key lies at or after [first_ge] *)
Lemma first_ge_upto es k j :
  (j < length es)%nat -> k <= nth j es 0 -> (first_ge es k <= j)%nat.
Proof.
  intros Hj Hk. destruct (Nat.le_gt_cases (first_ge es k) j) as [H|H]; [exact H|]. exfalso.
  assert (nth_error es j = Some (nth j es 0)) as Hn by (apply nth_error_nth'; exact Hj).
  pose proof (first_ge_before es k j _ H Hn). lia.
Qed.

(* ---- the bisection -------------------------------------------------------------- *)

Lemma div2_bounds n : (2 <= n)%nat -> (1 <= Nat.div2 n /\ Nat.div2 n <= n - Nat.div2 n /\ Nat.div2 n < n)%nat.
Proof.
  intros H. pose proof (Nat.div2_odd n) as E. destruct (Nat.odd n); cbn [Nat.b2n] in E; lia.
Qed.

(* invariant: base = 0 or arr[base] < k (so base < fg); fg <= base + len; base + len <= n *)
Lemma bl_loop_inv arr k : ascending arr = true ->
  forall fuel base len,
  (len <= fuel)%nat -> (1 <= len)%nat -> (base + len <= length arr)%nat ->
  (base = 0 \/ base < first_ge arr k)%nat -> (first_ge arr k <= base + len)%nat ->
  let b := bl_loop fuel arr k base len in
  (b < length arr)%nat /\ (b = 0 \/ b < first_ge arr k)%nat /\ (first_ge arr k <= b + 1)%nat.
Proof.
  intros Ha. induction fuel as [|f IH]; intros base len Hf H1 Hn Hlo Hhi; [lia|].
  cbn [bl_loop]. destruct (Nat.leb len 1) eqn:El.
  - apply Nat.leb_le in El. assert (len = 1)%nat by lia. subst len. cbv zeta. repeat split; [lia|exact Hlo|exact Hhi].
  - apply Nat.leb_gt in El. destruct (div2_bounds len El) as [Hh1 [Hh2 Hh3]].
    set (half := Nat.div2 len) in *.
    destruct (nth (base + half) arr 0 <? k) eqn:Ec.
    + apply Z.ltb_lt in Ec. apply IH; try lia.
      right. apply first_ge_after; [exact Ha|lia|exact Ec].
    + apply Z.ltb_ge in Ec. apply IH; try lia.
      assert (first_ge arr k <= base + half)%nat by (apply first_ge_upto; [lia|exact Ec]). lia.
Qed.

(* np.searchsorted(side='left') - numpy's bisection - returns the index of the first
   element >= k of an ascending array (its length if there is none) *)
Theorem np_search_first_ge arr k : ascending arr = true -> np_search arr k = first_ge arr k.
Proof.
  intros Ha. unfold np_search. destruct arr as [|a r] eqn:Earr; [reflexivity|]. rewrite <- Earr in *.
  assert (Hlen : (1 <= length arr)%nat) by (rewrite Earr; cbn [length]; lia).
  pose proof (bl_loop_inv arr k Ha (length arr) 0 (length arr) (le_n _) Hlen (le_n _) (or_introl eq_refl)) as H.
  cbn [Nat.add] in H. specialize (H (first_ge_le arr k)). cbv zeta in H.
  set (b := bl_loop (length arr) arr k 0 (length arr)) in *. destruct H as [Hb [Hlo Hhi]].
  destruct (nth b arr 0 <? k) eqn:Ec.
  - apply Z.ltb_lt in Ec. pose proof (first_ge_after arr k b Ha Hb Ec). lia.
  - apply Z.ltb_ge in Ec. pose proof (first_ge_upto arr k b Hb Ec). lia.
Qed.

(* whatever the array, the bisection stays inside it *)
Lemma bl_loop_bound arr k : forall fuel base len,
  (1 <= len)%nat -> (base + len <= length arr)%nat -> (bl_loop fuel arr k base len < length arr)%nat.
Proof.
  induction fuel as [|f IH]; intros base len H1 Hn; cbn [bl_loop]; [lia|].
  destruct (Nat.leb len 1) eqn:El; [lia|]. apply Nat.leb_gt in El.
  destruct (div2_bounds len El) as [Hh1 [Hh2 Hh3]].
  destruct (nth (base + Nat.div2 len) arr 0 <? k); apply IH; lia.
Qed.

Theorem np_search_le arr k : (np_search arr k <= length arr)%nat.
Proof.
  unfold np_search. destruct arr as [|a r] eqn:Earr; [cbn; lia|]. rewrite <- Earr.
  assert (Hlen : (1 <= length arr)%nat) by (rewrite Earr; cbn [length]; lia).
  pose proof (bl_loop_bound arr k (length arr) 0 (length arr) Hlen (le_n _)) as Hb.
  destruct (nth _ arr 0 <? k); lia.
Qed.

(* what the bisection returns on ANY array (sorted or not): an index i such that the element
   before it (if any) is < k and the element at it (if any) is >= k - a boundary, not
   necessarily the first one *)
Lemma bl_loop_low arr k : forall fuel base len,
  (base = 0%nat \/ nth base arr 0 < k) ->
  let b := bl_loop fuel arr k base len in (b = 0%nat \/ nth b arr 0 < k).
Proof.
  induction fuel as [|f IH]; intros base len H; cbn [bl_loop]; [exact H|].
  destruct (Nat.leb len 1); [exact H|].
  destruct (nth (base + Nat.div2 len) arr 0 <? k) eqn:Ec; apply IH; [|exact H].
  right. apply Z.ltb_lt. exact Ec.
Qed.

Theorem find_blocks_np_first_ge ends ps :
  ascending ends = true -> find_blocks_np ends ps = find_blocks ends ps.
Proof.
  intros Ha. unfold find_blocks_np, find_blocks.
  replace (map (np_search ends) ps) with (map (first_ge ends) ps); [reflexivity|].
  apply map_ext. intros p. symmetry. apply np_search_first_ge. exact Ha.
Qed.

(* ---- population_array with the bisection ------------------------------------------- *)

Definition chrom_asc (blocks : list seg) : Prop :=
  forall c, ascending (map endc (on_chrom c blocks)) = true.

Definition table_asc (d : table) : Prop :=
  forall nsb, In nsb d -> chrom_asc (fst (snd nsb)) /\ chrom_asc (snd (snd nsb)).

Lemma chrom_ascb_spec blocks : chrom_ascb blocks = true <-> chrom_asc blocks.
Proof.
  unfold chrom_ascb, chrom_asc. rewrite forallb_forall. split.
  - intros H c. destruct (on_chrom c blocks) as [|s r] eqn:E; [reflexivity|]. rewrite <- E. apply H.
    assert (In s (on_chrom c blocks)) as Hin by (rewrite E; left; reflexivity).
    unfold on_chrom in Hin. apply filter_In in Hin. destruct Hin as [Hin Hc]. apply Z.eqb_eq in Hc.
    rewrite <- Hc. apply in_map. exact Hin.
  - intros H c _. apply H.
Qed.

Lemma table_ascb_spec d : table_ascb d = true <-> table_asc d.
Proof.
  unfold table_ascb, table_asc. rewrite forallb_forall. split.
  - intros H nsb Hin. specialize (H nsb Hin). apply andb_true_iff in H. rewrite !chrom_ascb_spec in H. exact H.
  - intros H nsb Hin. apply andb_true_iff. rewrite !chrom_ascb_spec. apply H. exact Hin.
Qed.

Lemma fill_chrom_np_eq blocks vs c row :
  chrom_asc blocks -> fill_chrom_np blocks vs c row = fill_chrom blocks vs c row.
Proof.
  intros Ha. unfold fill_chrom_np, fill_chrom. destruct (on_chrom c blocks) as [|s r] eqn:E; [reflexivity|].
  rewrite <- E. rewrite find_blocks_np_first_ge by apply Ha. reflexivity.
Qed.

Lemma fold_chroms_np_eq blocks vs cs : forall row,
  chrom_asc blocks -> fold_chroms_np blocks vs cs row = fold_chroms blocks vs cs row.
Proof.
  induction cs as [|c r IH]; intros row Ha; cbn [fold_chroms_np fold_chroms]; [reflexivity|].
  rewrite fill_chrom_np_eq by exact Ha. destruct (fill_chrom blocks vs c row); cbn [bind]; [apply IH; exact Ha|reflexivity].
Qed.

Lemma strand_row_np_eq blocks vs : chrom_asc blocks -> strand_row_np blocks vs = strand_row blocks vs.
Proof. intros Ha. unfold strand_row_np, strand_row. rewrite fold_chroms_np_eq by exact Ha. reflexivity. Qed.

Lemma sample_rows_np_eq vs nsb :
  chrom_asc (fst (snd nsb)) -> chrom_asc (snd (snd nsb)) -> sample_rows_np vs nsb = sample_rows vs nsb.
Proof. intros H1 H2. unfold sample_rows_np, sample_rows. rewrite !strand_row_np_eq by assumption. reflexivity. Qed.

Lemma mapM_ext_in {A B} (f g : A -> res B) l : (forall a, In a l -> f a = g a) -> mapM f l = mapM g l.
Proof.
  induction l as [|a r IH]; intros H; cbn [mapM]; [reflexivity|].
  rewrite (H a (or_introl eq_refl)). rewrite IH; [reflexivity|]. intros x Hx. apply H. right. exact Hx.
Qed.

Lemma zassoc_In_pair {V} k (L : list (Z * V)) c : zassoc k L = Some c -> In (k, c) L.
Proof.
  unfold zassoc. induction L as [|[k' v] r IH]; cbn [assoc]; [discriminate|].
  destruct (k =? k') eqn:E.
  - intros H; inversion H; subst. apply Z.eqb_eq in E. subst. left. reflexivity.
  - intros H. right. apply IH. exact H.
Qed.

Lemma select_asc d req tbl : table_asc d -> select d req = Ok tbl -> table_asc tbl.
Proof.
  intros Ha. destruct req as [names|]; cbn [select].
  - intros H. pose proof (mapM_spec (fun s => match zassoc s d with Some b => Ok (s, b) | None => Err E_Key end) (dedup names)) as S.
    rewrite H in S. intros nsb Hin. clear H.
    induction S as [|s x l l' Hs S IH]; [inversion Hin|]. destruct Hin as [->|Hin]; [|apply IH; exact Hin].
    destruct (zassoc s d) as [b|] eqn:E; inversion Hs; subst. apply Ha. apply zassoc_In_pair in E. exact E.
  - intros H; inversion H; subst. exact Ha.
Qed.

(* REFINEMENT: on a table in the documented format (ends ascending within a strand and
   chromosome) what the code computes with numpy's bisection is the reference lookup *)
Theorem population_array_np_eq d vs req :
  table_asc d -> population_array_np d vs req = population_array d vs req.
Proof.
  intros Ha. unfold population_array_np, population_array.
  destruct (select d req) as [tbl|k] eqn:Es; cbn [bind]; [|reflexivity].
  apply mapM_ext_in. intros nsb Hin. pose proof (select_asc d req tbl Ha Es nsb Hin) as [H1 H2].
  apply sample_rows_np_eq; assumption.
Qed.

(* ---- the property for the faithful model -------------------------------------------- *)

Lemma dedup_NoDup_out l : NoDup (dedup l).
Proof.
  induction l as [|a r IH]; cbn [dedup]; [constructor|]. constructor.
  - intros Hin. apply filter_In in Hin. destruct Hin as [_ H]. rewrite Z.eqb_refl in H. discriminate.
  - apply NoDup_filter. exact IH.
Qed.

Lemma dedup_idem l : dedup (dedup l) = dedup l.
Proof. apply dedup_NoDup. apply dedup_NoDup_out. Qed.

(* a request that repeats a sample is answered like the request without the repetitions:
   one row per DISTINCT requested sample, in the order of the first occurrences *)
Theorem population_array_repeated_request d vs req :
  population_array d vs (Some req) = population_array d vs (Some (dedup req)).
Proof. unfold population_array, select. rewrite dedup_idem. reflexivity. Qed.

Theorem population_array_spec_any d vs req :
  match population_array d vs (Some req) with
  | Ok arr =>
      Forall2 (fun s row => exists sb, zassoc s d = Some sb /\ cells_ok sb vs row) (dedup req) arr
  | Err k =>
      (k = E_Key /\ exists s, In s req /\ zassoc s d = None) \/
      (k = E_Value /\ exists s sb, In s req /\ zassoc s d = Some sb /\ uncovered_cell sb vs)
  end.
Proof.
  rewrite population_array_repeated_request.
  pose proof (population_array_spec d vs (dedup req) (dedup_NoDup_out req)) as S.
  destruct (population_array d vs (Some (dedup req))) as [arr|k]; [exact S|].
  destruct S as [[-> [s [Hs Hz]]]|[-> [s [sb [Hs H]]]]].
  - left. split; [reflexivity|]. exists s. split; [apply dedup_In; exact Hs|exact Hz].
  - right. split; [reflexivity|]. exists s, sb. split; [apply dedup_In; exact Hs|exact H].
Qed.

(* the faithful model (numpy's bisection) on a table in the documented format: row k is the
   k-th requested sample's, every cell is the label of the first block of that strand on the
   variant's chromosome whose end is >= its position; an unknown sample, an uncovered position
   or an absent chromosome is an error, never an answer *)
Theorem population_array_np_spec d vs req :
  table_asc d -> NoDup req ->
  match population_array_np d vs (Some req) with
  | Ok arr =>
      Forall2 (fun s row => exists sb, zassoc s d = Some sb /\ cells_ok sb vs row) req arr
  | Err k =>
      (k = E_Key /\ exists s, In s req /\ zassoc s d = None) \/
      (k = E_Value /\ exists s sb, In s req /\ zassoc s d = Some sb /\ uncovered_cell sb vs)
  end.
Proof. intros Ha Hn. rewrite population_array_np_eq by exact Ha. apply population_array_spec. exact Hn. Qed.

Theorem population_array_np_all_spec d vs :
  table_asc d ->
  match population_array_np d vs None with
  | Ok arr => Forall2 (fun nsb row => cells_ok (snd nsb) vs row) d arr
  | Err k => k = E_Value /\ exists nsb, In nsb d /\ uncovered_cell (snd nsb) vs
  end.
Proof. intros Ha. rewrite population_array_np_eq by exact Ha. apply population_array_all_spec. Qed.

(* outside the documented format the bisection and the property's "first block" differ:
   ends [100; 50; 300] (not ascending), position 100 - the first block with end >= 100 is
   block 0, numpy's bisection answers block 2 *)
Example np_search_unsorted_differs :
  first_ge [100; 50; 300] 100 = 0%nat /\ np_search [100; 50; 300] 100 = 2%nat /\
  find_blocks_np [100; 50; 300] [100] = Ok [2%nat] /\ find_blocks [100; 50; 300] [100] = Ok [0%nat].
Proof. vm_compute. repeat split. Qed.

Example np_search_example :
  ascending [2; 5; 5; 9] = true /\ map (np_search [2; 5; 5; 9]) [0; 2; 3; 5; 6; 9; 10] = [0; 0; 1; 1; 3; 3; 4]%nat.
Proof. vm_compute. split; reflexivity. Qed.

(* ---- soundness of the checker's format test ------------------------------------------ *)

Theorem holds_lookup_np_sound k req :
  holds_lookup k = true -> table_ascb (l_tbl k) = true -> l_req k = Some req ->
  nodupb req = true -> nodupb (map fst (l_tbl k)) = true ->
  match l_obs k with
  | Ok arr => Forall2 (fun s row => exists sb, zassoc s (l_tbl k) = Some sb /\ cells_ok sb (l_vs k) row) req arr
  | Err _ => exists s, In s req /\ (zassoc s (l_tbl k) = None \/
                                    exists sb, zassoc s (l_tbl k) = Some sb /\ uncovered_cell sb (l_vs k))
  end.
Proof.
  unfold holds_lookup. intros H Ha Hr N1 N2. rewrite Ha, Hr in H.
  apply (holds_lookup_sound (l_tbl k) (l_vs k) req (l_obs k) H N1 N2).
Qed.
