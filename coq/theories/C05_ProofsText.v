(* C05 - proofs about the text-level model: reading what write() wrote gives the
   data back (bp_roundtrip), for all tables, under the int/float token codecs'
   round-trip hypotheses. *)
From HV Require Import Prelude Tracts BpText C05_Model C05_Check.

Section RoundTrip.
Variable strict : bool.                 (* either reader: with or without the field-width check *)
Variable parse_int parse_flt : str -> res Z.
Variable fmt_int fmt_flt : Z -> str.
Variable samples : option (list str).   (* the subset handed to read(samples); None = all *)

Notation iter_step := (iter_step strict parse_int parse_flt).
Notation iter_run := (iter_run strict parse_int parse_flt).
Notation yield_cur := (yield_cur parse_int parse_flt).
Notation conv_blk := (conv_blk parse_int parse_flt).
Notation bp_iter := (bp_iter strict parse_int parse_flt).
Notation bp_read := (bp_read strict parse_int parse_flt).
Notation fmt_blk := (fmt_blk fmt_int fmt_flt).
Notation bp_write := (bp_write fmt_int fmt_flt).

(* a block the format can carry: the label does not start a comment, label and
   chromosome fit the array fields, and the two numeric tokens parse back *)
Definition wf_blk (b : cblk) : Prop :=
  first_char_is c_hash (c_pop b) = false /\
  (length (c_pop b) <= 6)%nat /\ (length (c_chrom b) <= 10)%nat /\
  parse_int (fmt_int (c_bp b)) = Ok (c_bp b) /\ parse_flt (fmt_flt (c_cm b)) = Ok (c_cm b).

Definition wf_sample (sb : str * (list cblk * list cblk)) : Prop :=
  first_char_is c_hash (fst sb) = false /\ Forall wf_blk (fst (snd sb)) /\ Forall wf_blk (snd (snd sb)).

Definition raw_of (b : cblk) : rblk := (c_pop b, c_chrom b, fmt_int (c_bp b), fmt_flt (c_cm b)).

Lemma conv_raw b : wf_blk b -> conv_blk (raw_of b) = Ok b.
Proof.
  intros [_ [H6 [H10 [Hi Hf]]]]. unfold C05_Model.conv_blk, raw_of. rewrite Hi. cbn [bind]. rewrite Hf. cbn [bind].
  rewrite !firstn_all2 by assumption. destruct b. reflexivity.
Qed.

Lemma conv_raws bs : Forall wf_blk bs -> mapM conv_blk (map raw_of bs) = Ok bs.
Proof.
  induction 1 as [|b bs Hb _ IH]; cbn [map mapM]; [reflexivity|].
  rewrite (conv_raw b Hb). cbn [bind]. rewrite IH. reflexivity.
Qed.

Lemma iter_run_app ls1 ls2 st :
  iter_run samples (ls1 ++ ls2) st = bind (iter_run samples ls1 st) (iter_run samples ls2).
Proof.
  revert st. induction ls1 as [|l r IH]; intros st; cbn [app C05_Model.iter_run]; [reflexivity|].
  destruct (iter_step samples st l) as [st1|k]; cbn [bind]; [apply IH|reflexivity].
Qed.

(* block lines are appended to the current strand *)
Lemma run_blocks (second : bool) bs : forall n r0 r1 out,
  Forall wf_blk bs ->
  iter_run samples (map fmt_blk bs) (mkist (Some (n, r0, r1)) (SInt second) out) =
  Ok (if second then mkist (Some (n, r0, r1 ++ map raw_of bs)) (SInt true) out
      else mkist (Some (n, r0 ++ map raw_of bs, r1)) (SInt false) out).
Proof.
  induction bs as [|b bs IH]; intros n r0 r1 out Hwf; cbn [map C05_Model.iter_run].
  - rewrite !app_nil_r. destruct second; reflexivity.
  - inversion Hwf as [|? ? Hb Hbs]; subst. destruct Hb as [Hh [H6 [H10 _]]].
    unfold C05_Model.iter_step, C05_Model.fmt_blk. rewrite Hh.
    replace (Nat.ltb 6 (length (c_pop b))) with false by (symmetry; apply Nat.ltb_ge; exact H6).
    replace (Nat.ltb 10 (length (c_chrom b))) with false by (symmetry; apply Nat.ltb_ge; exact H10).
    rewrite andb_false_r. cbn [i_strand i_cur i_out].
    destruct second; cbn [bind].
    + rewrite IH by exact Hbs. rewrite <- app_assoc. reflexivity.
    + rewrite IH by exact Hbs. rewrite <- app_assoc. reflexivity.
Qed.

Lemma hash_hdr n sfx : first_char_is c_hash n = false -> first_char_is c_hash sfx = false ->
  first_char_is c_hash (n ++ sfx) = false.
Proof. intros Hn Hs. destruct n as [|x n]; [exact Hs|exact Hn]. Qed.

Lemma step_hdr1 n st :
  first_char_is c_hash n = false ->
  iter_step samples st [n ++ sfx_1] =
  bind (yield_cur samples st) (fun out => Ok (mkist (Some (n, [], [])) (SInt false) out)).
Proof.
  intros Hn. unfold C05_Model.iter_step. rewrite (hash_hdr n sfx_1 Hn eq_refl).
  unfold sfx_1. rewrite after_last_sfx by (unfold c_1, c_us; lia).
  rewrite drop_last_sfx. reflexivity.
Qed.

Lemma step_hdr2 n st :
  first_char_is c_hash n = false ->
  iter_step samples st [n ++ sfx_2] = Ok (mkist (i_cur st) (SInt true) (i_out st)).
Proof.
  intros Hn. unfold C05_Model.iter_step. rewrite (hash_hdr n sfx_2 Hn eq_refl).
  unfold sfx_2. rewrite after_last_sfx by (unfold c_2, c_us; lia). reflexivity.
Qed.

Definition pending : Type := option (str * list cblk * list cblk).

Definition raw_pending (p : pending) : option (str * list rblk * list rblk) :=
  match p with
  | Some (n, b0, b1) => Some (n, map raw_of b0, map raw_of b1)
  | None => None
  end.

Definition flush (p : pending) : ctable :=
  match p with
  | Some (n, b0, b1) => if selected samples n then [(n, (b0, b1))] else []
  | None => []
  end.

Definition wf_pending (p : pending) : Prop :=
  match p with Some (n, b0, b1) => Forall wf_blk b0 /\ Forall wf_blk b1 | None => True end.

(* the samples read(samples) keeps *)
Definition keep (d : ctable) : ctable := filter (fun sb => selected samples (fst sb)) d.

Lemma yield_pending p strand out :
  wf_pending p -> yield_cur samples (mkist (raw_pending p) strand out) = Ok (out ++ flush p).
Proof.
  destruct p as [[[n b0] b1]|]; cbn [raw_pending flush wf_pending]; intros H.
  - destruct H as [H0 H1]. unfold C05_Model.yield_cur. cbn [i_cur i_out].
    destruct (selected samples n); [|rewrite app_nil_r; reflexivity].
    rewrite (conv_raws b0 H0). cbn [bind]. rewrite (conv_raws b1 H1). reflexivity.
  - unfold C05_Model.yield_cur. cbn [i_cur i_out]. rewrite app_nil_r. reflexivity.
Qed.

Lemma iter_write d : forall p strand out,
  Forall wf_sample d -> wf_pending p ->
  bind (iter_run samples (bp_write d) (mkist (raw_pending p) strand out)) (yield_cur samples)
  = Ok (out ++ flush p ++ keep d).
Proof.
  induction d as [|[n [b0 b1]] d IH]; intros p strand out Hd Hp.
  - cbn [C05_Model.bp_write flat_map C05_Model.iter_run bind keep filter]. rewrite app_nil_r. apply yield_pending. exact Hp.
  - inversion Hd as [|? ? Hs Hd']; subst. destruct Hs as [Hn [H0 H1]]. cbn [fst snd] in Hn, H0, H1.
    unfold C05_Model.bp_write. cbn [flat_map fst snd]. fold (bp_write d).
    cbn [app C05_Model.iter_run]. rewrite (step_hdr1 n _ Hn). rewrite (yield_pending p strand out Hp). cbn [bind].
    rewrite <- app_assoc. rewrite iter_run_app. rewrite (run_blocks false b0) by exact H0. cbn [bind app].
    cbn [C05_Model.iter_run]. rewrite (step_hdr2 n _ Hn). cbn [bind i_cur i_out].
    rewrite iter_run_app. rewrite (run_blocks true b1) by exact H1. cbn [bind app].
    change (Some (n, map raw_of b0, map raw_of b1)) with (raw_pending (Some (n, b0, b1))).
    rewrite (IH (Some (n, b0, b1)) (SInt true) (out ++ flush p)); [|exact Hd'|split; assumption].
    cbn [flush keep filter fst]. destruct (selected samples n); cbn [app]; rewrite <- !app_assoc; reflexivity.
Qed.

Lemma bp_iter_write d : Forall wf_sample d -> bp_iter samples (bp_write d) = Ok (keep d).
Proof.
  intros Hd. unfold C05_Model.bp_iter. apply (iter_write d None SUnbound [] Hd I).
Qed.

(* a line whose first token starts with '#' changes nothing, wherever it stands *)
Lemma iter_comment ls1 c rest ls2 st :
  first_char_is c_hash c = true ->
  iter_run samples (ls1 ++ (c :: rest) :: ls2) st = iter_run samples (ls1 ++ ls2) st.
Proof.
  intros Hc. rewrite !iter_run_app. destruct (iter_run samples ls1 st) as [st1|k]; cbn [bind]; [|reflexivity].
  cbn [C05_Model.iter_run]. unfold C05_Model.iter_step at 1. rewrite Hc. reflexivity.
Qed.

Theorem comments_ignored ls1 c rest ls2 :
  first_char_is c_hash c = true ->
  bp_read samples (ls1 ++ (c :: rest) :: ls2) = bp_read samples (ls1 ++ ls2).
Proof.
  intros Hc. unfold C05_Model.bp_read, C05_Model.bp_iter. rewrite (iter_comment ls1 c rest ls2 _ Hc). reflexivity.
Qed.

(* dict(...) of pairs with distinct keys keeps them all, in order *)
Lemma dict_set_fresh_str {V} k (v : V) d :
  ~ In k (map fst d) -> dict_set str_eqb k v d = d ++ [(k, v)].
Proof.
  induction d as [|[k' v'] r IH]; cbn [dict_set map fst app]; intros H; [reflexivity|].
  destruct (str_eqb k k') eqn:E; [apply str_eqb_spec in E; subst; exfalso; apply H; left; reflexivity|].
  f_equal. apply IH. intros Hin. apply H. right. exact Hin.
Qed.

Lemma dict_of_list_nodup {V} (l : list (str * V)) : NoDup (map fst l) -> dict_of_list str_eqb l = l.
Proof.
  unfold dict_of_list.
  assert (H : forall acc, NoDup (map fst (acc ++ l)) ->
            fold_left (fun d kv => dict_set str_eqb (fst kv) (snd kv) d) l acc = acc ++ l).
  { induction l as [|[k v] r IH]; intros acc Hn; cbn [fold_left]; [rewrite app_nil_r; reflexivity|].
    cbn [fst snd]. rewrite dict_set_fresh_str.
    - rewrite IH; rewrite <- app_assoc; [reflexivity|exact Hn].
    - rewrite map_app in Hn. cbn [map fst] in Hn. apply NoDup_remove_2 in Hn.
      intros Hin. apply Hn. apply in_or_app. left. exact Hin. }
  intros Hn. apply (H [] Hn).
Qed.

Lemma NoDup_keys_filter {V} (g : str * V -> bool) (l : list (str * V)) :
  NoDup (map fst l) -> NoDup (map fst (filter g l)).
Proof.
  induction l as [|a r IH]; cbn [map filter]; intros H; [constructor|].
  inversion H as [|? ? Ha Hr]; subst. destruct (g a); cbn [map]; [|apply IH; exact Hr].
  constructor; [|apply IH; exact Hr]. intros Hin. apply Ha. apply in_map_iff in Hin.
  destruct Hin as [x [Hx Hin]]. apply filter_In in Hin. rewrite <- Hx. apply in_map. tauto.
Qed.

(* Reading what write() wrote, restricted to a set of samples, yields exactly the requested
   samples that exist, in file order, with identical labels, chromosomes, positions, cM. *)
Theorem bp_roundtrip_subset d :
  Forall wf_sample d -> NoDup (map fst d) -> bp_read samples (bp_write d) = Ok (keep d).
Proof.
  intros Hd Hn. unfold C05_Model.bp_read. rewrite (bp_iter_write d Hd). cbn [bind].
  rewrite dict_of_list_nodup; [reflexivity|]. apply NoDup_keys_filter. exact Hn.
Qed.
End RoundTrip.

(* Writing breakpoints and reading them back yields identical samples, order, labels,
   chromosomes, positions and centimorgan values. *)
Theorem bp_roundtrip strict parse_int parse_flt fmt_int fmt_flt d :
  Forall (wf_sample parse_int parse_flt fmt_int fmt_flt) d -> NoDup (map fst d) ->
  bp_read strict parse_int parse_flt None (bp_write fmt_int fmt_flt d) = Ok d.
Proof.
  intros Hd Hn. rewrite (bp_roundtrip_subset strict parse_int parse_flt fmt_int fmt_flt None d Hd Hn).
  f_equal. unfold keep. cbn [selected]. induction d as [|a r IH]; cbn [filter]; [reflexivity|].
  f_equal. apply IH.
  - inversion Hd; assumption.
  - inversion Hn; assumption.
Qed.

(* the reader with the field-width check refuses a block line whose label has more than 6 or
   whose chromosome name has more than 10 characters, wherever it stands in the file (the part
   before it being readable) - it never stores a truncated name *)
Theorem strict_refuses_long_fields parse_int parse_flt samples ls1 t0 t1 t2 t3 ls2 st :
  first_char_is c_hash t0 = false -> (6 < length t0 \/ 10 < length t1)%nat ->
  iter_run true parse_int parse_flt samples ls1 (mkist None SUnbound []) = Ok st ->
  bp_read true parse_int parse_flt samples (ls1 ++ [t0; t1; t2; t3] :: ls2) = Err E_Value.
Proof.
  intros Hh Hlen Hrun. unfold bp_read, bp_iter. rewrite iter_run_app, Hrun. cbn [bind iter_run].
  unfold iter_step at 1. rewrite Hh.
  replace (Nat.ltb 6 (length t0) || Nat.ltb 10 (length t1)) with true; [reflexivity|].
  symmetry. apply orb_true_iff. destruct Hlen as [H|H]; [left|right]; apply Nat.ltb_lt; exact H.
Qed.

(* the hypotheses are satisfiable: a toy codec (a number is written as the one-character
   token holding it) and a two-sample table with underscores in a name *)
Definition toy_parse (s : str) : res Z := match s with [z] => Ok z | _ => Err E_Value end.
Definition toy_fmt (z : Z) : str := [z].

Example bp_roundtrip_example :
  let d : ctable := [([97; 95; 98], ([mkcb [89] [49] 10 7; mkcb [67] [49] 20 8], [mkcb [67] [49] 20 8]));
                     ([], ([], [mkcb [] [] 0 0]))] in
  Forall (wf_sample toy_parse toy_parse toy_fmt toy_fmt) d /\ NoDup (map fst d) /\
  bp_read true toy_parse toy_parse None (bp_write toy_fmt toy_fmt d) = Ok d.
Proof.
  cbv zeta. split; [|split].
  - repeat constructor; cbn; lia.
  - repeat constructor; cbn; intuition discriminate.
  - vm_compute. reflexivity.
Qed.

(* soundness of the write checker: when holds_write is true on a table of the writer's
   domain, the re-read data is the table *)
Lemma ctable_eqb_true a b : ctable_eqb a b = true -> a = b.
Proof.
  unfold ctable_eqb. apply list_eqb_spec. intros [n1 [x1 y1]] [n2 [x2 y2]]. unfold pair_eqb. cbn [fst snd].
  assert (Hb : forall p q, list_eqb cblk_eqb p q = true <-> p = q).
  { apply list_eqb_spec. intros p q. unfold cblk_eqb. destruct p, q. cbn.
    rewrite !andb_true_iff, !Z.eqb_eq. split.
    - intros [[[H1 H2] H3] H4]. apply str_eqb_spec in H1. apply str_eqb_spec in H2. subst. reflexivity.
    - intros H; inversion H; subst. rewrite !str_eqb_refl. auto. }
  rewrite !andb_true_iff. split.
  - intros [H1 [H2 H3]]. apply str_eqb_spec in H1. apply Hb in H2. apply Hb in H3. subst. reflexivity.
  - intros H; inversion H; subst. rewrite str_eqb_refl. split; [reflexivity|]. split; apply Hb; reflexivity.
Qed.

Theorem holds_write_sound k :
  holds_write k = true -> write_domain (w_tbl k) = true -> w_reread k = Ok (w_tbl k).
Proof.
  unfold holds_write. intros H D. rewrite D in H. destruct (w_reread k) as [t|e]; cbn in H; [|discriminate].
  apply ctable_eqb_true in H. subst. reflexivity.
Qed.
