(* C05 - property theorems only (proofs: C05_Proofs, C05_ProofsNp, C05_ProofsCodec, C05_ProofsText,
   C05_ProofsFile, C05_ProofsHist). *)
From HV Require Import Prelude Tracts BpText C05_Model C05_Check C05_CheckHist C05_Proofs C05_ProofsNp C05_ProofsCodec
  C05_ProofsText C05_ProofsFile C05_ProofsHist.

(* _find_blocks returns, for every position, the index i of the first end >= it
   (ends[i] >= p, every earlier end < p); it raises iff some position has no such end *)
Theorem C05_find_blocks_spec :
  forall ends ps,
  match find_blocks ends ps with
  | Ok idx =>
      Forall2 (fun p i => exists e, nth_error ends i = Some e /\ p <= e /\
                          forall j e', (j < i)%nat -> nth_error ends j = Some e' -> e' < p) ps idx
  | Err k => k = E_Value /\ exists p, In p ps /\ forall e, In e ends -> e < p
  end.
Proof. exact find_blocks_spec. Qed.
Print Assumptions C05_find_blocks_spec.

(* ... which on an ascending array means: iff some position is beyond the last end *)
Theorem C05_find_blocks_error_iff_beyond_last :
  forall ends ps l, ascending ends = true -> last_opt ends = Some l ->
  ((exists k, find_blocks ends ps = Err k) <-> exists p, In p ps /\ l < p).
Proof. exact find_blocks_error_iff_beyond_last. Qed.
Print Assumptions C05_find_blocks_error_iff_beyond_last.

(* the chromosome-wise searchsorted + scatter of population_array is, cell by cell, the
   label of the first block on the variant's chromosome whose end is >= its position *)
Theorem C05_strand_row_cellwise :
  forall blocks vs,
  strand_row blocks vs =
  mapM (fun v => match label_at blocks (vchrom v) (vpos v) with Some l => Ok l | None => Err E_Value end) vs.
Proof. exact strand_row_cellwise. Qed.
Print Assumptions C05_strand_row_cellwise.

(* row k of the answer belongs to the k-th *requested* sample and cell (k, v, t) is the
   covering block's label on strand t; an unknown sample, an uncovered position or an absent
   chromosome is an error, never an answer *)
Theorem C05_population_array_spec :
  forall d vs req, NoDup req ->
  match population_array d vs (Some req) with
  | Ok arr =>
      Forall2 (fun s row => exists sb, zassoc s d = Some sb /\
        Forall2 (fun v c => label_at (fst sb) (vchrom v) (vpos v) = Some (fst c) /\
                            label_at (snd sb) (vchrom v) (vpos v) = Some (snd c)) vs row) req arr
  | Err k =>
      (k = E_Key /\ exists s, In s req /\ zassoc s d = None) \/
      (k = E_Value /\ exists s sb, In s req /\ zassoc s d = Some sb /\
         exists v, In v vs /\ (label_at (fst sb) (vchrom v) (vpos v) = None \/
                               label_at (snd sb) (vchrom v) (vpos v) = None))
  end.
Proof. exact population_array_spec. Qed.
Print Assumptions C05_population_array_spec.

Theorem C05_population_array_all_spec :
  forall d vs,
  match population_array d vs None with
  | Ok arr => Forall2 (fun nsb row => cells_ok (snd nsb) vs row) d arr
  | Err k => k = E_Value /\ exists nsb, In nsb d /\ uncovered_cell (snd nsb) vs
  end.
Proof. exact population_array_all_spec. Qed.
Print Assumptions C05_population_array_all_spec.

(* decoding restores the data, for every order of distinct given labels - as long as the
   labels (given or present) are at most the 256 that np.uint8 has codes for (the earlier
   statement had no such bound because the model's codes were unbounded integers; the code
   raises OverflowError beyond it: C05_encode_error_is_overflow) *)
Theorem C05_encode_recode_id :
  forall d given,
  (match given with Some g => NoDup g | None => True end) ->
  (forall nsb, In nsb d -> fst (snd nsb) <> [] /\ snd (snd nsb) <> []) ->
  (length (dedup (given_list given ++ pops_of d)) <= 256)%nat ->
  exists st', encode given (mkbp d None) = Ok st' /\ recode st' = Ok (mkbp d None).
Proof. exact encode_recode_id. Qed.
Print Assumptions C05_encode_recode_id.

Theorem C05_encode_recode_example :
  let d := [(0, ([mkseg 7 1 10122 3], [mkseg 8 1 10115 0; mkseg 7 1 10116 1; mkseg 9 1 10120 2; mkseg 7 1 10122 3]))] in
  exists st', encode (Some [9; 8; 7]) (mkbp d None) = Ok st' /\
              blabels st' = Some [(9, 0); (8, 1); (7, 2)] /\ recode st' = Ok (mkbp d None).
Proof. exact encode_recode_example. Qed.
Print Assumptions C05_encode_recode_example.

(* encoded queries return the codes of the same labels, and the same errors *)
Theorem C05_encoded_lookup_commutes :
  forall d given st' vs req,
  encode given (mkbp d None) = Ok st' ->
  exists labels, blabels st' = Some labels /\
    (forall p, In p (pops_of d) -> zassoc p labels <> None) /\
    bdata st' = map_table (code_of labels) d /\
    population_array (bdata st') vs req =
      rmap (map (map (pair_map (code_of labels)))) (population_array d vs req).
Proof. exact encoded_lookup_commutes. Qed.
Print Assumptions C05_encoded_lookup_commutes.

(* reading what write() wrote gives the data back: samples, order, labels, chromosomes,
   positions, cM values - for sample names with arbitrary underscores *)
Theorem C05_bp_roundtrip :
  forall (strict : bool) (parse_int parse_flt : str -> res Z) (fmt_int fmt_flt : Z -> str) (d : ctable),
  Forall (wf_sample parse_int parse_flt fmt_int fmt_flt) d -> NoDup (map fst d) ->
  bp_read strict parse_int parse_flt None (bp_write fmt_int fmt_flt d) = Ok d.
Proof. exact bp_roundtrip. Qed.
Print Assumptions C05_bp_roundtrip.

Theorem C05_bp_roundtrip_example :
  let d : ctable := [([97; 95; 98], ([mkcb [89] [49] 10 7; mkcb [67] [49] 20 8], [mkcb [67] [49] 20 8]));
                     ([], ([], [mkcb [] [] 0 0]))] in
  Forall (wf_sample toy_parse toy_parse toy_fmt toy_fmt) d /\ NoDup (map fst d) /\
  bp_read true toy_parse toy_parse None (bp_write toy_fmt toy_fmt d) = Ok d.
Proof. exact bp_roundtrip_example. Qed.
Print Assumptions C05_bp_roundtrip_example.

(* soundness of the boolean checkers evaluated on the implementation's output *)
Theorem C05_holds_find_sound :
  forall ends ps obs,
  holds_find (mkf ends ps obs) = true -> ascending ends = true ->
  match obs with
  | Ok idx => Forall2 (fun p i => exists e, nthZ ends i = Some e /\ p <= e /\
                         forall e', In e' (firstn (Z.to_nat i) ends) -> e' < p) ps idx
  | Err _ => exists p, In p ps /\ forall e, In e ends -> e < p
  end.
Proof. exact holds_find_sound. Qed.
Print Assumptions C05_holds_find_sound.

Theorem C05_holds_lookup_sound :
  forall d vs req obs,
  holds_lookup_gen d vs (Some req) obs = true -> nodupb req = true -> nodupb (map fst d) = true ->
  match obs with
  | Ok arr => Forall2 (fun s row => exists sb, zassoc s d = Some sb /\ cells_ok sb vs row) req arr
  | Err _ => exists s, In s req /\ (zassoc s d = None \/ exists sb, zassoc s d = Some sb /\ uncovered_cell sb vs)
  end.
Proof. exact holds_lookup_sound. Qed.
Print Assumptions C05_holds_lookup_sound.

Theorem C05_holds_write_sound :
  forall k, holds_write k = true -> write_domain (w_tbl k) = true -> w_reread k = Ok (w_tbl k).
Proof. exact holds_write_sound. Qed.
Print Assumptions C05_holds_write_sound.

Theorem C05_holds_codec_sound :
  forall k, holds_codec k = true -> codec_domain k = true -> e_rec k = Ok (e_tbl k).
Proof. exact holds_codec_sound. Qed.
Print Assumptions C05_holds_codec_sound.

(* read(samples) of a written file: exactly the requested samples that exist, in file order *)
Theorem C05_bp_roundtrip_subset :
  forall (strict : bool) (parse_int parse_flt : str -> res Z) (fmt_int fmt_flt : Z -> str) (samples : option (list str)) (d : ctable),
  Forall (wf_sample parse_int parse_flt fmt_int fmt_flt) d -> NoDup (map fst d) ->
  bp_read strict parse_int parse_flt samples (bp_write fmt_int fmt_flt d) =
  Ok (filter (fun sb => selected samples (fst sb)) d).
Proof. exact bp_roundtrip_subset. Qed.
Print Assumptions C05_bp_roundtrip_subset.

(* a comment line (first token starts with '#') changes nothing, wherever it stands *)
Theorem C05_comments_ignored :
  forall (strict : bool) (parse_int parse_flt : str -> res Z) (samples : option (list str))
         (ls1 : list (list str)) (c : str) (rest : list str) (ls2 : list (list str)),
  first_char_is c_hash c = true ->
  bp_read strict parse_int parse_flt samples (ls1 ++ (c :: rest) :: ls2) = bp_read strict parse_int parse_flt samples (ls1 ++ ls2).
Proof. exact comments_ignored. Qed.
Print Assumptions C05_comments_ignored.

(* ======================= numpy's bisection (np.searchsorted) ========================= *)

(* np.searchsorted(side='left') as numpy computes it - a branch-free bisection, modelled
   step by step - is, on an ascending array, the index of the first element >= k *)
Theorem C05_np_search_is_first_ge :
  forall arr k, ascending arr = true -> np_search arr k = first_ge arr k.
Proof. exact np_search_first_ge. Qed.
Print Assumptions C05_np_search_is_first_ge.

(* on any array, sorted or not, it stays within [0, len] (so _find_blocks' test
   indices >= len(blocks) is the only way out) *)
Theorem C05_np_search_in_range :
  forall arr k, (np_search arr k <= length arr)%nat.
Proof. exact np_search_le. Qed.
Print Assumptions C05_np_search_in_range.

Theorem C05_find_blocks_np_is_find_blocks :
  forall ends ps, ascending ends = true -> find_blocks_np ends ps = find_blocks ends ps.
Proof. exact find_blocks_np_first_ge. Qed.
Print Assumptions C05_find_blocks_np_is_find_blocks.

(* outside the documented format (block ends not ascending) the code's answer is not the
   property's "first block whose end is >= the position" *)
Theorem C05_np_search_unsorted_differs :
  first_ge [100; 50; 300] 100 = 0%nat /\ np_search [100; 50; 300] 100 = 2%nat /\
  find_blocks_np [100; 50; 300] [100] = Ok [2%nat] /\ find_blocks [100; 50; 300] [100] = Ok [0%nat].
Proof. exact np_search_unsorted_differs. Qed.
Print Assumptions C05_np_search_unsorted_differs.

Theorem C05_np_search_example :
  ascending [2; 5; 5; 9] = true /\ map (np_search [2; 5; 5; 9]) [0; 2; 3; 5; 6; 9; 10] = [0; 0; 1; 1; 3; 3; 4]%nat.
Proof. exact np_search_example. Qed.
Print Assumptions C05_np_search_example.

(* REFINEMENT: on every table in the documented format the loop nest with numpy's bisection
   computes the reference lookup ... *)
Theorem C05_population_array_np_refines :
  forall d vs req, table_asc d -> population_array_np d vs req = population_array d vs req.
Proof. exact population_array_np_eq. Qed.
Print Assumptions C05_population_array_np_refines.

Theorem C05_table_ascb_sound :
  forall d, table_ascb d = true <-> table_asc d.
Proof. exact table_ascb_spec. Qed.
Print Assumptions C05_table_ascb_sound.

(* ... hence the property for the faithful model *)
Theorem C05_population_array_np_spec :
  forall d vs req, table_asc d -> NoDup req ->
  match population_array_np d vs (Some req) with
  | Ok arr =>
      Forall2 (fun s row => exists sb, zassoc s d = Some sb /\ cells_ok sb vs row) req arr
  | Err k =>
      (k = E_Key /\ exists s, In s req /\ zassoc s d = None) \/
      (k = E_Value /\ exists s sb, In s req /\ zassoc s d = Some sb /\ uncovered_cell sb vs)
  end.
Proof. exact population_array_np_spec. Qed.
Print Assumptions C05_population_array_np_spec.

Theorem C05_population_array_np_all_spec :
  forall d vs, table_asc d ->
  match population_array_np d vs None with
  | Ok arr => Forall2 (fun nsb row => cells_ok (snd nsb) vs row) d arr
  | Err k => k = E_Value /\ exists nsb, In nsb d /\ uncovered_cell (snd nsb) vs
  end.
Proof. exact population_array_np_all_spec. Qed.
Print Assumptions C05_population_array_np_all_spec.

(* a request that repeats a sample: one row per distinct sample, first occurrences' order *)
Theorem C05_population_array_repeated_request :
  forall d vs req, population_array d vs (Some req) = population_array d vs (Some (dedup req)).
Proof. exact population_array_repeated_request. Qed.
Print Assumptions C05_population_array_repeated_request.

Theorem C05_population_array_spec_any :
  forall d vs req,
  match population_array d vs (Some req) with
  | Ok arr =>
      Forall2 (fun s row => exists sb, zassoc s d = Some sb /\ cells_ok sb vs row) (dedup req) arr
  | Err k =>
      (k = E_Key /\ exists s, In s req /\ zassoc s d = None) \/
      (k = E_Value /\ exists s sb, In s req /\ zassoc s d = Some sb /\ uncovered_cell sb vs)
  end.
Proof. exact population_array_spec_any. Qed.
Print Assumptions C05_population_array_spec_any.

(* ============================= np.uint8 codes ======================================== *)

(* encode fails only with OverflowError and only beyond 256 distinct labels *)
Theorem C05_encode_error_is_overflow :
  forall d given k,
  encode given (mkbp d None) = Err k ->
  k = E_Overflow /\
  ((match given with Some g => NoDup g | None => True end) ->
   (256 < length (dedup (given_list given ++ pops_of d)))%nat).
Proof. exact encode_error_is_overflow. Qed.
Print Assumptions C05_encode_error_is_overflow.

Theorem C05_encode_256_labels :
  let d := [(0, (wide_strand 256, [mkseg 1000 1 5 0]))] in
  bind (encode None (mkbp d None)) recode = Ok (mkbp d None).
Proof. exact encode_256_labels. Qed.
Print Assumptions C05_encode_256_labels.

Theorem C05_encode_257_labels_overflow :
  let d := [(0, (wide_strand 256, [mkseg 1256 1 5 0]))] in
  encode None (mkbp d None) = Err E_Overflow /\
  (256 < length (dedup (pops_of d)))%nat /\
  encode_partial None d = [(0, (map (fun i => mkseg (Z.of_nat i) 1 (Z.of_nat i + 1) 0) (seq 0 256), [mkseg 1256 1 5 0]))].
Proof. exact encode_257_labels_overflow. Qed.
Print Assumptions C05_encode_257_labels_overflow.

(* outside the codec's domain, stated: a label given twice; a strand without blocks *)
Theorem C05_encode_repeated_given_collides :
  let d := [(0, ([mkseg 7 1 10 0; mkseg 9 1 20 0], [mkseg 7 1 10 0]))] in
  exists st', encode (Some [7; 8; 7]) (mkbp d None) = Ok st' /\
              blabels st' = Some [(7, 2); (9, 2)] /\ recode st' <> Ok (mkbp d None).
Proof. exact encode_repeated_given_collides. Qed.
Print Assumptions C05_encode_repeated_given_collides.

Theorem C05_recode_empty_strand :
  forall st labels,
  blabels st = Some labels ->
  (exists nsb, In nsb (bdata st) /\ (fst (snd nsb) = [] \/ snd (snd nsb) = [])) ->
  recode st = Err E_Value.
Proof. exact recode_empty_strand. Qed.
Print Assumptions C05_recode_empty_strand.

(* ================== write, read, query: the two levels composed ======================= *)

Theorem C05_file_lookup_written :
  forall strict parse_int parse_flt fmt_int fmt_flt key d qs req,
  Forall (wf_sample parse_int parse_flt fmt_int fmt_flt) d -> NoDup (map fst d) ->
  file_lookup strict parse_int parse_flt key (bp_write fmt_int fmt_flt d) qs req =
  population_array_np (table_of key d) (map (var_of key) qs) (option_map (map key) req).
Proof. exact file_lookup_written. Qed.
Print Assumptions C05_file_lookup_written.

(* on the strings of the table: after write + read the label reported for (sample, strand,
   chromosome, position) is that of the first block of the strand on that chromosome whose end
   is >= the position; an error is a ValueError with an uncovered cell *)
Theorem C05_file_lookup_all_spec :
  forall strict parse_int parse_flt fmt_int fmt_flt key d qs,
  Forall (wf_sample parse_int parse_flt fmt_int fmt_flt) d -> NoDup (map fst d) ->
  table_asc (table_of key d) -> inj_on key (strs_of d qs) ->
  match file_lookup strict parse_int parse_flt key (bp_write fmt_int fmt_flt d) qs None with
  | Ok arr =>
      Forall2 (fun sb row =>
        Forall2 (fun q c => option_map key (clabel_at (fst (snd sb)) (fst q) (snd q)) = Some (fst c) /\
                            option_map key (clabel_at (snd (snd sb)) (fst q) (snd q)) = Some (snd c)) qs row) d arr
  | Err k => k = E_Value /\ exists sb q, In sb d /\ In q qs /\
               (clabel_at (fst (snd sb)) (fst q) (snd q) = None \/ clabel_at (snd (snd sb)) (fst q) (snd q) = None)
  end.
Proof. exact file_lookup_all_spec. Qed.
Print Assumptions C05_file_lookup_all_spec.

Theorem C05_file_lookup_req_spec :
  forall strict parse_int parse_flt fmt_int fmt_flt key d qs req,
  Forall (wf_sample parse_int parse_flt fmt_int fmt_flt) d -> NoDup (map fst d) ->
  table_asc (table_of key d) -> NoDup (map key req) ->
  match file_lookup strict parse_int parse_flt key (bp_write fmt_int fmt_flt d) qs (Some req) with
  | Ok arr =>
      Forall2 (fun s row => exists sb, zassoc (key s) (table_of key d) = Some sb /\
                                       cells_ok sb (map (var_of key) qs) row) req arr
  | Err k =>
      (k = E_Key /\ exists s, In s req /\ zassoc (key s) (table_of key d) = None) \/
      (k = E_Value /\ exists s sb, In s req /\ zassoc (key s) (table_of key d) = Some sb /\
                                   uncovered_cell sb (map (var_of key) qs))
  end.
Proof. exact file_lookup_req_spec. Qed.
Print Assumptions C05_file_lookup_req_spec.

Theorem C05_file_lookup_example :
  let d : ctable := [([97], ([mkcb [89] [49] 10 7; mkcb [67] [49] 20 8], [mkcb [67] [49] 20 8]))] in
  let u := [[97]; [89]; [67]; [49]] in
  Forall (wf_sample toy_parse toy_parse toy_fmt toy_fmt) d /\ NoDup (map fst d) /\
  table_asc (table_of (index_of u) d) /\ inj_on (index_of u) (strs_of d [([49], 10); ([49], 11); ([49], 20)]) /\
  file_lookup false toy_parse toy_parse (index_of u) (bp_write toy_fmt toy_fmt d) [([49], 10); ([49], 11); ([49], 20)] None
    = Ok [[(1, 2); (2, 2); (2, 2)]].
Proof. exact file_lookup_example. Qed.
Print Assumptions C05_file_lookup_example.

(* the key the checker uses is injective on the strings of a case *)
Theorem C05_index_of_inj :
  forall u, inj_on (index_of u) u.
Proof. exact index_of_inj. Qed.
Print Assumptions C05_index_of_inj.

Theorem C05_label_at_on_strings :
  forall key l c p, inj_on key (c :: map c_chrom l) ->
  label_at (map (seg_of key) l) (key c) p = option_map key (clabel_at l c p).
Proof. exact label_at_seg_of. Qed.
Print Assumptions C05_label_at_on_strings.

(* field widths ('U6', 'U10'): the reader with the check refuses, never truncates ... *)
Theorem C05_strict_refuses_long_fields :
  forall parse_int parse_flt samples ls1 t0 t1 t2 t3 ls2 st,
  first_char_is c_hash t0 = false -> (6 < length t0 \/ 10 < length t1)%nat ->
  iter_run true parse_int parse_flt samples ls1 (mkist None SUnbound []) = Ok st ->
  bp_read true parse_int parse_flt samples (ls1 ++ [t0; t1; t2; t3] :: ls2) = Err E_Value.
Proof. exact strict_refuses_long_fields. Qed.
Print Assumptions C05_strict_refuses_long_fields.

(* ... while the reader without it merges two contigs that share their first 10 characters
   and answers a query with a block of the other one *)
Theorem C05_legacy_long_chrom_collision_refuted :
  let c10 := [65; 66; 67; 68; 69; 70; 71; 72; 73; 74] in
  let c1 := c10 ++ [75] in let c2 := c10 ++ [76] in
  let d : ctable := [([97], ([mkcb [65] c1 100 0; mkcb [66] c2 50 0; mkcb [67] c2 300 0], [mkcb [65] c1 400 0]))] in
  let u := [[97]; [65]; [66]; [67]; c1; c2; c10] in
  let file := bp_write toy_fmt toy_fmt d in
  clabel_at (fst (snd (nth 0 d ([], ([], []))))) c10 100 = None /\
  file_lookup false toy_parse toy_parse (index_of u) file [(c10, 100)] None = Ok [[(index_of u [67], index_of u [65])]] /\
  file_lookup true toy_parse toy_parse (index_of u) file [(c10, 100)] None = Err E_Value.
Proof. exact legacy_long_chrom_collision_refuted. Qed.
Print Assumptions C05_legacy_long_chrom_collision_refuted.

(* soundness of the new checker clauses *)
Theorem C05_holds_lookup_np_sound :
  forall k req,
  holds_lookup k = true -> table_ascb (l_tbl k) = true -> l_req k = Some req ->
  nodupb req = true -> nodupb (map fst (l_tbl k)) = true ->
  match l_obs k with
  | Ok arr => Forall2 (fun s row => exists sb, zassoc s (l_tbl k) = Some sb /\ cells_ok sb (l_vs k) row) req arr
  | Err _ => exists s, In s req /\ (zassoc s (l_tbl k) = None \/
                                    exists sb, zassoc s (l_tbl k) = Some sb /\ uncovered_cell sb (l_vs k))
  end.
Proof. exact holds_lookup_np_sound. Qed.
Print Assumptions C05_holds_lookup_np_sound.

Theorem C05_holds_flookup_sound :
  forall k req,
  holds_flookup k = true -> fl_domain k = true -> fl_req k = Some req ->
  let key := fl_key k in
  let d := table_of key (fl_tbl k) in
  let vs := map (var_of key) (fl_qs k) in
  nodupb (map key req) = true -> nodupb (map fst d) = true ->
  match fl_obsZ k with
  | Ok arr => Forall2 (fun s row => exists sb, zassoc s d = Some sb /\ cells_ok sb vs row) (map key req) arr
  | Err _ => (exists s, In s (map key req) /\
                (zassoc s d = None \/ exists sb, zassoc s d = Some sb /\ uncovered_cell sb vs))
             \/ long_chrom (fl_tbl k) = true
  end.
Proof. exact holds_flookup_sound. Qed.
Print Assumptions C05_holds_flookup_sound.

Theorem C05_fl_domain_sound :
  forall k, fl_domain k = true ->
  table_asc (table_of (fl_key k) (fl_tbl k)) /\ (fl_strict k = false -> long_chrom (fl_tbl k) = false).
Proof. exact fl_domain_sound. Qed.
Print Assumptions C05_fl_domain_sound.

Theorem C05_holds_codec_never_refuses :
  forall k e, holds_codec k = true -> codec_domain k = true -> e_enc k <> Err e.
Proof. exact holds_codec_never_refuses. Qed.
Print Assumptions C05_holds_codec_never_refuses.

Theorem C05_holds_codec_beyond_256 :
  forall k, holds_codec k = true -> codec_domain0 k = true ->
  (exists e, e_enc k = Err e /\ 256 < label_count k) \/ e_rec k = Ok (e_tbl k).
Proof. exact holds_codec_beyond_256. Qed.
Print Assumptions C05_holds_codec_beyond_256.

(* encoded queries on the faithful model (numpy's bisection), table in the documented format *)
Theorem C05_encoded_lookup_commutes_np :
  forall d given st' vs req,
  table_asc d -> encode given (mkbp d None) = Ok st' ->
  exists labels, blabels st' = Some labels /\
    population_array_np (bdata st') vs req =
      rmap (map (map (pair_map (code_of labels)))) (population_array_np d vs req).
Proof. exact encoded_lookup_commutes_np. Qed.
Print Assumptions C05_encoded_lookup_commutes_np.

(* ---- histories of calls that share their argument objects (C05_CheckHist) ---------------- *)

(* The model of the reader is a function of the file and the request: a history of reads with
   the same request returns the same answer each time, however many there are ... *)
Theorem C05_read_idempotent_request :
  forall (strict : bool) (parse_int parse_flt : str -> res Z) (fmt_int fmt_flt : Z -> str) (key : str -> Z)
         (req : option (list str)) (qs : list (str * Z)) (order : option (list str)) (n : nat)
         (files : list (Z * list (list str))) (cur : option ctable) (f : Z) (ls : list (list str)),
  zassoc f files = Some ls ->
  hrun strict parse_int parse_flt fmt_int fmt_flt key req qs order (mkhs files cur) (repeat (HRead f) n) =
  repeat (MRead (bp_read strict parse_int parse_flt req ls)) n.
Proof. exact read_idempotent_request. Qed.
Print Assumptions C05_read_idempotent_request.

(* ... and whatever reads of other files and lookups stand between them *)
Theorem C05_reads_same_answer_in_history :
  forall (strict : bool) (parse_int parse_flt : str -> res Z) (fmt_int fmt_flt : Z -> str) (key : str -> Z)
         (req : option (list str)) (qs : list (str * Z)) (order : option (list str))
         (ops : list hop) (st : hstate) (i : nat) (f : Z) (ls : list (list str)),
  forallb no_write ops = true ->
  nth_error ops i = Some (HRead f) -> zassoc f (hs_files st) = Some ls ->
  nth_error (hrun strict parse_int parse_flt fmt_int fmt_flt key req qs order st ops) i =
  Some (MRead (bp_read strict parse_int parse_flt req ls)).
Proof. exact hrun_reads_same_answer. Qed.
Print Assumptions C05_reads_same_answer_in_history.

(* a subset is read, written to any file and read from there with the same request: identical
   samples, order, labels, chromosomes, positions, centimorgan values - both times *)
Theorem C05_hist_subset_roundtrip :
  forall (strict : bool) (parse_int parse_flt : str -> res Z) (fmt_int fmt_flt : Z -> str) (key : str -> Z)
         (req : option (list str)) (qs : list (str * Z)) (order : option (list str)) (d : ctable) (g : Z),
  Forall (wf_sample parse_int parse_flt fmt_int fmt_flt) d -> NoDup (map fst d) ->
  hrun strict parse_int parse_flt fmt_int fmt_flt key req qs order
       (mkhs [(0, bp_write fmt_int fmt_flt d)] None) [HRead 0; HWrite g; HRead g] =
  [MRead (Ok (restrict req d)); MWrite (Ok (bp_write fmt_int fmt_flt (restrict req d)));
   MRead (Ok (restrict req d))].
Proof. exact hist_subset_roundtrip. Qed.
Print Assumptions C05_hist_subset_roundtrip.

Theorem C05_hist_subset_roundtrip_example :
  Forall (wf_sample toy_parse toy_parse toy_fmt toy_fmt) toy_tbl /\ NoDup (map fst toy_tbl) /\
  hrun true toy_parse toy_parse toy_fmt toy_fmt (fun _ => 0) (Some [[98]]) [] None
       (mkhs [(0, bp_write toy_fmt toy_fmt toy_tbl)] None) [HRead 0; HWrite 2; HRead 2]
  = [MRead (Ok (restrict (Some [[98]]) toy_tbl));
     MWrite (Ok (bp_write toy_fmt toy_fmt (restrict (Some [[98]]) toy_tbl)));
     MRead (Ok (restrict (Some [[98]]) toy_tbl))].
Proof. exact hist_subset_roundtrip_example. Qed.
Print Assumptions C05_hist_subset_roundtrip_example.

(* soundness of holds_hist's fold, evaluated on what the implementation returned call by call:
   a read returned the requested samples of the table its file holds at that moment *)
Theorem C05_holds_hist_read_sound :
  forall (key : str -> Z) (req : option (list str)) (qs : list (str * Z)) (order : option (list str))
         (ops1 : list hop) (f : Z) (ops3 : list hop) (obs1 : list hobs) (r : res ctable) (a : option (list str))
         (obs3 : list hobs) (s : sstate),
  holds_run key req qs order s (ops1 ++ HRead f :: ops3) (obs1 ++ ORead r a :: obs3) = true ->
  hist_wf req s (ops1 ++ HRead f :: ops3) = true ->
  length ops1 = length obs1 ->
  exists t, zassoc f (fst (srun req s ops1)) = Some t /\ r = Ok (restrict req t).
Proof. exact holds_run_read_sound. Qed.
Print Assumptions C05_holds_hist_read_sound.

(* the second read of a file returned what the first did (no write to that file in between) *)
Theorem C05_holds_hist_reads_equal :
  forall (key : str -> Z) (req : option (list str)) (qs : list (str * Z)) (order : option (list str))
         (ops1 : list hop) (f : Z) (ops2 ops3 : list hop) (obs1 : list hobs) (r1 : res ctable) (a1 : option (list str))
         (obs2 : list hobs) (r2 : res ctable) (a2 : option (list str)) (obs3 : list hobs) (s : sstate),
  holds_run key req qs order s (ops1 ++ HRead f :: ops2 ++ HRead f :: ops3)
            (obs1 ++ ORead r1 a1 :: obs2 ++ ORead r2 a2 :: obs3) = true ->
  hist_wf req s (ops1 ++ HRead f :: ops2 ++ HRead f :: ops3) = true ->
  length ops1 = length obs1 -> length ops2 = length obs2 ->
  (forall g, In (HWrite g) ops2 -> g <> f) ->
  r2 = r1 /\ exists t, r1 = Ok (restrict req t).
Proof. exact holds_run_reads_equal. Qed.
Print Assumptions C05_holds_hist_reads_equal.

(* what was loaded, written to a file and read from it with the same request is identical *)
Theorem C05_holds_hist_written_reads_back :
  forall (key : str -> Z) (req : option (list str)) (qs : list (str * Z)) (order : option (list str))
         (ops1 : list hop) (f g : Z) (ops3 : list hop) (obs1 : list hobs) (r1 : res ctable) (a1 : option (list str))
         (w : hobs) (r2 : res ctable) (a2 : option (list str)) (obs3 : list hobs) (s : sstate),
  holds_run key req qs order s (ops1 ++ HRead f :: HWrite g :: HRead g :: ops3)
            (obs1 ++ ORead r1 a1 :: w :: ORead r2 a2 :: obs3) = true ->
  hist_wf req s (ops1 ++ HRead f :: HWrite g :: HRead g :: ops3) = true ->
  length ops1 = length obs1 ->
  r2 = r1 /\ exists t, r1 = Ok (restrict req t).
Proof. exact holds_run_written_reads_back. Qed.
Print Assumptions C05_holds_hist_written_reads_back.

(* a lookup was judged by holds_lookup_gen (C05_holds_lookup_sound) on the table loaded last,
   for the samples in the order requested *)
Theorem C05_holds_hist_look_sound :
  forall (key : str -> Z) (req : option (list str)) (qs : list (str * Z)) (order : option (list str))
         (ops1 ops3 : list hop) (obs1 : list hobs) (r : res (list (list (str * str)))) (qa : list (str * Z))
         (oa : option (list str)) (obs3 : list hobs) (s : sstate),
  holds_run key req qs order s (ops1 ++ HLook :: ops3) (obs1 ++ OLook r qa oa :: obs3) = true ->
  hist_wf req s (ops1 ++ HLook :: ops3) = true ->
  length ops1 = length obs1 ->
  exists d, snd (srun req s ops1) = Some d /\
    holds_lookup_gen (table_of key d) (map (var_of key) qs) (option_map (map key) order) (obsZ key r) = true.
Proof. exact holds_run_look_sound. Qed.
Print Assumptions C05_holds_hist_look_sound.

(* agree of relation hist: after every call the samples set, the variants array and the order
   object are what the caller made them *)
Theorem C05_hist_agree_args_unchanged :
  forall (k : hcase) (ms : list mobs) (obs : list hobs),
  forallb2 (obs_agree k) ms obs = true -> Forall (args_unchanged k) obs.
Proof. exact hist_agree_args_unchanged. Qed.
Print Assumptions C05_hist_agree_args_unchanged.

(* a reader that uses the caller's set as its work-list: right once, then "Loaded 0 samples";
   rejected by holds_run, which accepts the pure reader's observations *)
Theorem C05_consuming_reader_refuted :
  let ls := bp_write toy_fmt toy_fmt toy_tbl in
  let req := [[97]] in
  let c1 := read_consuming true toy_parse toy_parse req ls in
  let c2 := read_consuming true toy_parse toy_parse (snd c1) ls in
  fst c1 = Ok (restrict (Some req) toy_tbl) /\
  hrun true toy_parse toy_parse toy_fmt toy_fmt (fun _ => 0) (Some req) [] None (mkhs [(0, ls)] None) [HRead 0; HRead 0]
    = [MRead (fst c1); MRead (fst c1)] /\
  snd c1 = [] /\ fst c2 = Ok [] /\
  holds_run (fun _ => 0) (Some req) [] None ([(0, toy_tbl)], None) [HRead 0; HRead 0]
            [ORead (fst c1) (Some (snd c1)); ORead (fst c2) (Some (snd c2))] = false /\
  holds_run (fun _ => 0) (Some req) [] None ([(0, toy_tbl)], None) [HRead 0; HRead 0]
            [ORead (fst c1) (Some req); ORead (fst c1) (Some req)] = true.
Proof. exact consuming_reader_refuted. Qed.
Print Assumptions C05_consuming_reader_refuted.

(* ================== the codec as a state machine; codes are injective ================== *)

(* encode refuses encoded data and recode refuses decoded data, at every point of the
   encode -> recode cycle (ValueError "already been encoded" / "already been recoded") *)
Theorem C05_codec_state_guard :
  forall d given st',
  encode given (mkbp d None) = Ok st' ->
  (forall g2, encode g2 st' = Err E_Value) /\
  recode (mkbp d None) = Err E_Value /\
  (forall st'', recode st' = Ok st'' -> blabels st'' = None /\ recode st'' = Err E_Value).
Proof. exact codec_state_guard. Qed.
Print Assumptions C05_codec_state_guard.

(* two different labels of the data never share a code, and every code fits np.uint8 - so a
   query on encoded data (C05_encoded_lookup_commutes) identifies the label it stands for *)
Theorem C05_encode_codes_injective :
  forall d given st',
  (match given with Some g => NoDup g | None => True end) ->
  encode given (mkbp d None) = Ok st' ->
  exists labels, blabels st' = Some labels /\
    NoDup (map fst labels) /\ NoDup (map snd labels) /\
    (forall p, In p (pops_of d) -> 0 <= code_of labels p <= 255) /\
    (forall p q, In p (pops_of d) -> In q (pops_of d) ->
                 code_of labels p = code_of labels q -> p = q).
Proof. exact encode_codes_injective. Qed.
Print Assumptions C05_encode_codes_injective.

Theorem C05_encode_codes_injective_example :
  let d := [(0, ([mkseg 7 1 10122 3], [mkseg 8 1 10115 0; mkseg 7 1 10116 1; mkseg 9 1 10120 2]))] in
  exists st', encode (Some [9; 8; 7]) (mkbp d None) = Ok st' /\
              map (code_of (match blabels st' with Some l => l | None => [] end)) [7; 8; 9] = [2; 1; 0] /\
              encode None st' = Err E_Value.
Proof. exact encode_codes_injective_example. Qed.
Print Assumptions C05_encode_codes_injective_example.
