(* C05 - property theorems only. *)
From HV Require Import Prelude Tracts BpText C05_Model C05_Check C05_Proofs C05_ProofsText.
